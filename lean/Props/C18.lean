/-
  Props/C18.lean — C18: edits made inside an isolating node never reach outside it.
  The range-expansion and fitting heuristics are tied relationally: the Lean monitor `insideNode` is
  evaluated on every step the real replace-family operations emit for ranges inside an isolating node;
  this theorem says what a true monitor implies.  Helpers: Proofs/Respects.lean.

  Second part: the three helper functions the property anchors (`covered_depths`, `lift_target`,
  `can_split`; model PM/Structure.lean, helpers Proofs/Structure.lean) never produce an answer that
  crosses the boundary of an isolating ancestor.  `S.isolating n` is the `isolating` flag of the
  type of `n`; ancestors, `start`/`end_` windows, `before`/`after` are those of `RPos` (C09).

  Third part (the editor-level flows): a selection inside an isolating node, the library's own
  `block_range` of it (`blockRange_inside_ancestor` / `_isolating`; node-level case
  `blockRange_node_level_is_node` / `blockRange_collapsed_is_node`), then `lift_target` + `lift`
  (`lift_of_selection_inside`), `wrap` (`wrap_of_selection_inside`), `can_split` + `split`
  (`split_of_position_inside`): the step lies inside the node, everything outside is unchanged and the node
  stays closed (`around_keeps_node_closed`); `set_node_markup` / `set_block_type` addressed at nodes inside
  (`setNodeMarkup_inside`, `setBlockType_inside_partial`).  Helpers: Proofs/IsoFlows.lean.
-/
import PM.Monitor
import PM.Structure
import Proofs.StepToks
import Proofs.Respects
import Proofs.Structure
import Proofs.RangeOps
import Proofs.ReplaceRange
import Proofs.IsoFlows
import Proofs.TypePlan
import Props.C09
namespace PM.C18
open PM

/-- **a step whose range lies strictly inside the node occupying `[a, b)` changes nothing outside
    that node's content**: every token up to and including the node's open token (with its type,
    attributes and marks) and every token from its close token on are unchanged -/
theorem inside_preserves_outside (S : Schema) (doc doc' : Node) (a b : Nat) (st : Step)
    (hb : b ≤ fsize doc.kids) (hm : insideNode a b st = true)
    (hwf : ∀ f t gf gt sl i c, st = .replaceAround f t gf gt sl i c → sl.wf = true ∧ (i : Int) ≤ sl.size ∧ f ≤ gf ∧ gf ≤ gt ∧ gt ≤ t)
    (h : S.apply st doc = .ok doc') :
    (ftoks doc'.kids).take (a + 1) = (ftoks doc.kids).take (a + 1) ∧
    (ftoks doc'.kids).drop (b - 1 + (fsize doc'.kids) - (fsize doc.kids)) = (ftoks doc.kids).drop (b - 1) ∧
    fsize doc.kids ≤ b - 1 + fsize doc'.kids := by
  have hbl : b ≤ (ftoks doc.kids).length := by rw [ftoks_length]; exact hb
  rw [← ftoks_length doc'.kids, ← ftoks_length doc.kids]
  have node : ∀ pos, a < pos → pos + 1 < b →
      ((∃ m, st = .addNodeMark pos m) ∨ (∃ m, st = .removeNodeMark pos m) ∨ (∃ n v, st = .attr pos n v)) →
      (ftoks doc'.kids).take (a + 1) = (ftoks doc.kids).take (a + 1) ∧
      (ftoks doc'.kids).drop (b - 1 + (ftoks doc'.kids).length - (ftoks doc.kids).length)
        = (ftoks doc.kids).drop (b - 1) ∧
      (ftoks doc.kids).length ≤ b - 1 + (ftoks doc'.kids).length := by
    intro pos h1 h2 hst
    obtain ⟨n, u, attrs, marks, hn, hu, hr, _⟩ := nodeStep_cases S doc doc' pos st hst h
    obtain ⟨_, e, _⟩ := nodeRepl_toks S doc doc' n u pos attrs marks hn hu hr
    exact splice_outside _ [u.headTok] _ pos (pos + 1) a b h1 (by omega) h2 hbl e
  cases st with
  | replace F T sl c =>
    simp only [insideNode, Bool.and_eq_true, decide_eq_true_eq] at hm
    obtain ⟨e, _⟩ := apply_replace_toks S doc doc' F T sl c h
    exact splice_outside _ _ _ F T a b hm.1.1 hm.1.2 hm.2 hbl e
  | replaceAround F T gf gt sl i c =>
    simp only [insideNode, Bool.and_eq_true, decide_eq_true_eq] at hm
    obtain ⟨w1, w2, w3⟩ := hwf F T gf gt sl i c rfl
    obtain ⟨e, _⟩ := apply_replaceAround_toks S doc doc' F T gf gt sl i c w1 w2 w3 h
    refine splice_outside _ (sl.toks.take i ++ ((ftoks doc.kids).drop gf).take (gt - gf) ++ sl.toks.drop i)
      _ F T a b hm.1.1 hm.1.2 hm.2 hbl ?_
    rw [e]; simp only [List.append_assoc]
  | addMark F T m =>
    simp only [insideNode, Bool.and_eq_true, decide_eq_true_eq] at hm
    obtain ⟨e, _⟩ := apply_addMark_toks S doc doc' F T m h
    rw [e]
    refine pointwise_outside _ _ F T a b hm.1 hm.2 (mapIdxCtx_length _ _ _) ?_
    intro j hj
    exact mapIdxCtx_outside _ _ _ F T (fun i p tok hi => by rw [if_neg (fun hc => hi ⟨hc.1, hc.2.1⟩)]) j hj
  | removeMark F T m =>
    simp only [insideNode, Bool.and_eq_true, decide_eq_true_eq] at hm
    obtain ⟨e, _⟩ := apply_removeMark_toks S doc doc' F T m h
    rw [e]
    refine pointwise_outside _ _ F T a b hm.1 hm.2 (mapIdxCtx_length _ _ _) ?_
    intro j hj
    exact mapIdxCtx_outside _ _ _ F T (fun i p tok hi => by rw [if_neg (fun hc => hi ⟨hc.1, hc.2.1⟩)]) j hj
  | addNodeMark p m =>
    simp only [insideNode, Bool.and_eq_true, decide_eq_true_eq] at hm
    exact node p hm.1 hm.2 (.inl ⟨m, rfl⟩)
  | removeNodeMark p m =>
    simp only [insideNode, Bool.and_eq_true, decide_eq_true_eq] at hm
    exact node p hm.1 hm.2 (.inr (.inl ⟨m, rfl⟩))
  | attr p n v =>
    simp only [insideNode, Bool.and_eq_true, decide_eq_true_eq] at hm
    exact node p hm.1 hm.2 (.inr (.inr ⟨n, v, rfl⟩))
  | docAttr n v => simp [insideNode] at hm

/-- **boundary-inclusive form** (what the correspondence run monitors): a step whose range starts
    after the node's open token and ends no later than just after its close token leaves every token
    up to and including the open token, and every token after the node's closing, untouched — the edit
    can rewrite the inside, re-close the node and add content after it, but never removes, splits or
    merges the node or touches what surrounds it -/
theorem within_preserves_outside (S : Schema) (doc doc' : Node) (a b : Nat) (st : Step)
    (hb : b ≤ fsize doc.kids) (hm : withinNode a b st = true)
    (hwf : ∀ f t gf gt sl i c, st = .replaceAround f t gf gt sl i c → sl.wf = true ∧ (i : Int) ≤ sl.size ∧ f ≤ gf ∧ gf ≤ gt ∧ gt ≤ t)
    (h : S.apply st doc = .ok doc') :
    (ftoks doc'.kids).take (a + 1) = (ftoks doc.kids).take (a + 1) ∧
    (ftoks doc'.kids).drop (b + (fsize doc'.kids) - (fsize doc.kids)) = (ftoks doc.kids).drop b ∧
    fsize doc.kids ≤ b + fsize doc'.kids := by
  have hbl : b ≤ (ftoks doc.kids).length := by rw [ftoks_length]; exact hb
  rw [← ftoks_length doc'.kids, ← ftoks_length doc.kids]
  have node : ∀ pos, a < pos → pos + 1 ≤ b →
      ((∃ m, st = .addNodeMark pos m) ∨ (∃ m, st = .removeNodeMark pos m) ∨ (∃ n v, st = .attr pos n v)) →
      (ftoks doc'.kids).take (a + 1) = (ftoks doc.kids).take (a + 1) ∧
      (ftoks doc'.kids).drop (b + (ftoks doc'.kids).length - (ftoks doc.kids).length)
        = (ftoks doc.kids).drop b ∧
      (ftoks doc.kids).length ≤ b + (ftoks doc'.kids).length := by
    intro pos h1 h2 hst
    obtain ⟨n, u, attrs, marks, hn, hu, hr, _⟩ := nodeStep_cases S doc doc' pos st hst h
    obtain ⟨_, e, _⟩ := nodeRepl_toks S doc doc' n u pos attrs marks hn hu hr
    exact splice_outside_le _ [u.headTok] _ pos (pos + 1) a b h1 (by omega) h2 hbl e
  cases st with
  | replace F T sl c =>
    simp only [withinNode, Bool.and_eq_true, decide_eq_true_eq] at hm
    obtain ⟨e, _⟩ := apply_replace_toks S doc doc' F T sl c h
    exact splice_outside_le _ _ _ F T a b hm.1.1 hm.1.2 hm.2 hbl e
  | replaceAround F T gf gt sl i c =>
    simp only [withinNode, Bool.and_eq_true, decide_eq_true_eq] at hm
    obtain ⟨w1, w2, w3⟩ := hwf F T gf gt sl i c rfl
    obtain ⟨e, _⟩ := apply_replaceAround_toks S doc doc' F T gf gt sl i c w1 w2 w3 h
    refine splice_outside_le _ (sl.toks.take i ++ ((ftoks doc.kids).drop gf).take (gt - gf) ++ sl.toks.drop i)
      _ F T a b hm.1.1 hm.1.2 hm.2 hbl ?_
    rw [e]; simp only [List.append_assoc]
  | addMark F T m =>
    simp only [withinNode, Bool.and_eq_true, decide_eq_true_eq] at hm
    obtain ⟨e, _⟩ := apply_addMark_toks S doc doc' F T m h
    rw [e]
    refine pointwise_outside_le _ _ F T a b hm.1 hm.2 (mapIdxCtx_length _ _ _) ?_
    intro j hj
    exact mapIdxCtx_outside _ _ _ F T (fun i p tok hi => by rw [if_neg (fun hc => hi ⟨hc.1, hc.2.1⟩)]) j hj
  | removeMark F T m =>
    simp only [withinNode, Bool.and_eq_true, decide_eq_true_eq] at hm
    obtain ⟨e, _⟩ := apply_removeMark_toks S doc doc' F T m h
    rw [e]
    refine pointwise_outside_le _ _ F T a b hm.1 hm.2 (mapIdxCtx_length _ _ _) ?_
    intro j hj
    exact mapIdxCtx_outside _ _ _ F T (fun i p tok hi => by rw [if_neg (fun hc => hi ⟨hc.1, hc.2.1⟩)]) j hj
  | addNodeMark p m =>
    simp only [withinNode, Bool.and_eq_true, decide_eq_true_eq] at hm
    exact node p hm.1 hm.2 (.inl ⟨m, rfl⟩)
  | removeNodeMark p m =>
    simp only [withinNode, Bool.and_eq_true, decide_eq_true_eq] at hm
    exact node p hm.1 hm.2 (.inr (.inl ⟨m, rfl⟩))
  | attr p n v =>
    simp only [withinNode, Bool.and_eq_true, decide_eq_true_eq] at hm
    exact node p hm.1 hm.2 (.inr (.inr ⟨n, v, rfl⟩))
  | docAttr n v => simp [withinNode] at hm

/-- a pure insertion removes nothing: every old token is still there, in order (the inserted tokens
    sit between `old[:F]` and `old[F:]`) -/
theorem pure_insert_keeps_all (S : Schema) (doc doc' : Node) (a b : Nat) (st : Step)
    (hm : pureInsertOutside a b st = true) (h : S.apply st doc = .ok doc') :
    ∃ F ins, ftoks doc'.kids = (ftoks doc.kids).take F ++ ins ++ (ftoks doc.kids).drop F ∧ (F ≤ a ∨ b ≤ F) := by
  cases st with
  | replace F T sl s =>
    simp only [pureInsertOutside, Bool.and_eq_true, Bool.or_eq_true, decide_eq_true_eq] at hm
    obtain ⟨hFT, hout⟩ := hm
    subst hFT
    exact ⟨F, sl.toks, (apply_replace_toks S doc doc' F F sl s h).1, hout⟩
  | _ => simp [pureInsertOutside] at hm

/-! ## The helper functions: `covered_depths`, `lift_target`, `can_split` -/

/-- `covered_depths` returns a strictly decreasing list of depths, none deeper than the shallower
    of the two positions -/
theorem coveredDepths_sorted (S : Schema) (doc : Node) (f t : Nat) (rf rt : RPos) (ds : List Nat)
    (hf : doc.resolve f = some rf) (ht : doc.resolve t = some rt)
    (h : coveredDepths S doc f t = some ds) :
    ds.Pairwise (· > ·) ∧ ∀ d ∈ ds, d ≤ min rf.depth rt.depth := by
  simp only [coveredDepths, hf, ht, Option.some.injEq] at h
  subst h
  refine ⟨coveredLoop_pairwise S rf rt _, fun d hd => ?_⟩
  have := (coveredLoop_mem S rf rt _ d hd).1
  omega

/-- **range expansion stops at isolating ancestors**: if the depth-`k` ancestor of `from` or of `to`
    is isolating, every depth that `covered_depths` reports is strictly deeper than `k` -/
theorem coveredDepths_below_isolating (S : Schema) (doc : Node) (f t : Nat) (rf rt : RPos)
    (ds : List Nat) (hf : doc.resolve f = some rf) (ht : doc.resolve t = some rt)
    (h : coveredDepths S doc f t = some ds)
    (k : Nat) (hkf : k ≤ rf.depth) (hkt : k ≤ rt.depth)
    (hiso : S.isolating (rf.node k) = true ∨ S.isolating (rt.node k) = true) :
    ∀ d ∈ ds, k < d := by
  simp only [coveredDepths, hf, ht, Option.some.injEq] at h
  subst h
  intro d hd
  obtain ⟨_, _, h3⟩ := coveredLoop_mem S rf rt _ d hd
  rcases Nat.lt_or_ge k d with hlt | hge
  · exact hlt
  · have hb := h3 k hge (by omega)
    rw [coveredBreak_of_isolating S rf rt k hiso] at hb
    exact absurd hb (by simp)

/-- a reported depth `d`: the two positions have the same ancestors (same node, same content
    window) at every depth above `d` -/
theorem coveredDepths_shared_ancestors (S : Schema) (doc : Node) (f t : Nat) (rf rt : RPos)
    (ds : List Nat) (hf : doc.resolve f = some rf) (ht : doc.resolve t = some rt)
    (h : coveredDepths S doc f t = some ds) (d : Nat) (hd : d ∈ ds) (i : Nat) (hi : i < d) :
    rf.node i = rt.node i ∧ rf.start i = rt.start i ∧ rf.end_ i = rt.end_ i := by
  have hle := (coveredDepths_sorted S doc f t rf rt ds hf ht h).2 d hd
  simp only [coveredDepths, hf, ht, Option.some.injEq] at h
  subst h
  have hh := (coveredLoop_mem S rf rt _ d hd).2.1
  exact coveredHit_shared S (resolve_resolved hf) (resolve_resolved ht) d (by omega) (by omega) hh i hi

/-- **the expanded range stays inside the isolating node**: for a reported depth `d` (necessarily
    `≥ 1` and deeper than the isolating ancestor at depth `k`), the range
    `[from.before(d), to.after(d)]` that `delete_range` / `replace_range` use contains `[from, to]`
    and lies within the content window `[start(k), end(k)]` of the isolating ancestor — which is
    the same node, with the same window, for `from` and `to` -/
theorem coveredDepths_range_inside (S : Schema) (doc : Node) (f t : Nat) (rf rt : RPos)
    (ds : List Nat) (hf : doc.resolve f = some rf) (ht : doc.resolve t = some rt)
    (h : coveredDepths S doc f t = some ds)
    (k : Nat) (hkf : k ≤ rf.depth) (hkt : k ≤ rt.depth)
    (hiso : S.isolating (rf.node k) = true ∨ S.isolating (rt.node k) = true)
    (d : Nat) (hd : d ∈ ds) :
    1 ≤ d ∧
    rf.node k = rt.node k ∧ rf.start k = rt.start k ∧ rf.end_ k = rt.end_ k ∧
    ∃ b a, rf.before d = some b ∧ rt.after d = some a ∧
      rf.start k ≤ b ∧ b ≤ f ∧ t ≤ a ∧ a ≤ rf.end_ k := by
  have hkd := coveredDepths_below_isolating S doc f t rf rt ds hf ht h k hkf hkt hiso d hd
  have hle := (coveredDepths_sorted S doc f t rf rt ds hf ht h).2 d hd
  obtain ⟨hn, hs, he⟩ := coveredDepths_shared_ancestors S doc f t rf rt ds hf ht h d hd k hkd
  have Rf := resolve_resolved hf
  have Rt := resolve_resolved ht
  have nf := Rf.nestW k d (by omega) (by omega)
  have nt := Rt.nestW k d (by omega) (by omega)
  have pf := Rf.pos_in d (by omega)
  have pt := Rt.pos_in d (by omega)
  refine ⟨by omega, hn, hs, he, rf.start d - 1, rt.end_ d + 1,
    Rf.before_eq d (by omega) (by omega), Rt.after_eq d (by omega) (by omega), ?_, ?_, ?_, ?_⟩
  all_goals omega

/-- **lift refuses to cross**: when `lift_target` answers depth `d`, it is shallower than the
    range's depth, and no ancestor of `from` that the lifted content leaves (depths `d+1 … depth`)
    is isolating — the loop never steps out of an isolating node -/
theorem liftTarget_not_across_isolating (S : Schema) (doc : Node) (f t depth d : Nat) (rf rt : RPos)
    (hf : doc.resolve f = some rf) (ht : doc.resolve t = some rt)
    (h : liftTarget S doc f t depth = some (some d)) :
    d < depth ∧ depth ≤ rf.depth ∧ depth ≤ rt.depth ∧
    ∀ j, d < j → j ≤ depth → S.isolating (rf.node j) = false := by
  simp only [liftTarget, hf, ht, liftTargetR] at h
  split at h
  · simp at h
  · rename_i hg
    simp only [Bool.or_eq_true, decide_eq_true_eq, not_or, Nat.not_lt] at hg
    obtain ⟨_, h2, _, h4⟩ := liftLoop_spec S rf rt depth _ depth d h
    exact ⟨h2, hg.1, hg.2, fun j hj1 hj2 => (h4 j hj1 hj2).1⟩

/-- consequently the target stays inside every isolating ancestor of the range: an isolating
    ancestor at depth `k ≤ depth` has `k ≤ d` -/
theorem liftTarget_stays_inside (S : Schema) (doc : Node) (f t depth d : Nat) (rf rt : RPos)
    (hf : doc.resolve f = some rf) (ht : doc.resolve t = some rt)
    (h : liftTarget S doc f t depth = some (some d))
    (k : Nat) (hk : k ≤ depth) (hiso : S.isolating (rf.node k) = true) : k ≤ d := by
  obtain ⟨_, _, _, h4⟩ := liftTarget_not_across_isolating S doc f t depth d rf rt hf ht h
  rcases Nat.lt_or_ge d k with hlt | hge
  · have := h4 k hlt hk
    rw [hiso] at this
    exact absurd this (by simp)
  · exact hge

/-- what the answer means: the lifted children fit between the siblings at depth `d`, and every
    node left on the way (depths `d+1 … depth`) could be cut around the range -/
theorem liftTarget_fits (S : Schema) (doc : Node) (f t depth d : Nat) (rf rt : RPos)
    (hf : doc.resolve f = some rf) (ht : doc.resolve t = some rt)
    (h : liftTarget S doc f t depth = some (some d)) :
    S.nodeCanReplace (rf.node d) (rf.index d) (rt.indexAfter d)
      (cutByIndex (rf.node depth).kids (rf.index depth) (rt.indexAfter depth)) = some true ∧
    ∀ j, d < j → j ≤ depth →
      S.canCut (rf.node j) (rf.index j) (rt.indexAfter j) = some true := by
  simp only [liftTarget, hf, ht, liftTargetR] at h
  split at h
  · simp at h
  · obtain ⟨_, _, h3, h4⟩ := liftLoop_spec S rf rt depth _ depth d h
    exact ⟨h3, fun j hj1 hj2 => (h4 j hj1 hj2).2⟩

/-- **split refuses to cross**: when `can_split(doc, pos, depth)` answers true, `1 ≤ depth ≤
    depth(pos)` and none of the nodes that get split — the ancestors of `pos` at depths
    `depth(pos) − depth + 1 … depth(pos)` — is isolating -/
theorem canSplit_not_across_isolating (S : Schema) (doc : Node) (pos depth : Nat) (r : RPos)
    (hr : doc.resolve pos = some r) (h : canSplit S doc pos depth = some true) :
    1 ≤ depth ∧ depth ≤ r.depth ∧
    ∀ j, r.depth - depth + 1 ≤ j → j ≤ r.depth → S.isolating (r.node j) = false := by
  simp only [canSplit, hr] at h
  exact canSplitR_true S r depth h

/-- consequently every node that gets split lies inside each isolating ancestor of `pos`: an
    isolating ancestor at depth `k` is at or above the split's base, and the outermost split node
    (depth `depth(pos) − depth + 1`) sits, open and close token included, within its content window -/
theorem canSplit_stays_inside (S : Schema) (doc : Node) (pos depth : Nat) (r : RPos)
    (hr : doc.resolve pos = some r) (h : canSplit S doc pos depth = some true)
    (k : Nat) (hk : k ≤ r.depth) (hiso : S.isolating (r.node k) = true) :
    k ≤ r.depth - depth ∧
    ∃ b a, r.before (r.depth - depth + 1) = some b ∧ r.after (r.depth - depth + 1) = some a ∧
      r.start k ≤ b ∧ b < pos ∧ pos < a ∧ a ≤ r.end_ k := by
  obtain ⟨h1, h2, h3⟩ := canSplit_not_across_isolating S doc pos depth r hr h
  have hkb : k ≤ r.depth - depth := by
    rcases Nat.lt_or_ge (r.depth - depth) k with hlt | hge
    · have := h3 k (by omega) hk
      rw [hiso] at this
      exact absurd this (by simp)
    · exact hge
  have R := resolve_resolved hr
  have n := R.nestW k (r.depth - depth + 1) (by omega) (by omega)
  have p := R.pos_in (r.depth - depth + 1) (by omega)
  refine ⟨hkb, r.start (r.depth - depth + 1) - 1, r.end_ (r.depth - depth + 1) + 1,
    R.before_eq _ (by omega) (by omega), R.after_eq _ (by omega) (by omega), ?_, ?_, ?_, ?_⟩
  all_goals omega

/-! ## `delete_range` (model PM/RangeOps.lean, tied exactly) -/

/-- **`delete_range` never widens a range beyond an isolating node that contains both ends**:
    if the depth-`k` ancestor of `from` (or of `to`) is isolating and it is the same node for both
    positions (same content start), the pair `(f', t')` handed to `delete` contains `[f, t]` and
    lies within that node's content window `[start(k), end(k)]` -/
theorem deleteRange_inside_isolating (S : Schema) (doc : Node) (f t f' t' : Nat) (rf rt : RPos)
    (hf : doc.resolve f = some rf) (ht : doc.resolve t = some rt)
    (h : deleteRangeTarget S doc f t = some (f', t'))
    (k : Nat) (hkf : k ≤ rf.depth) (hkt : k ≤ rt.depth)
    (hiso : S.isolating (rf.node k) = true ∨ S.isolating (rt.node k) = true)
    (hsame : rf.start k = rt.start k) :
    rf.node k = rt.node k ∧ rf.end_ k = rt.end_ k ∧
    rf.start k ≤ f' ∧ f' ≤ f ∧ t ≤ t' ∧ t' ≤ rf.end_ k := by
  have Rf := resolve_resolved hf
  have Rt := resolve_resolved ht
  have pf := Rf.pos_in k hkf
  have pt := Rt.pos_in k hkt
  obtain ⟨hn, _, he, _⟩ := same_ancestors Rf Rt k (rf.start k) hkf hkt (Nat.le_refl _) (by omega)
    (by omega) (by omega) k (Nat.le_refl _)
  simp only [deleteRangeTarget, hf, ht] at h
  -- a reported covered depth is strictly below the isolating ancestor
  have below : ∀ d ∈ coveredDepthsR S rf rt, k < d := by
    intro d hd
    obtain ⟨_, _, h3⟩ := coveredLoop_mem S rf rt _ d hd
    rcases Nat.lt_or_ge k d with hlt | hge
    · exact hlt
    · have hb := h3 k hge (by omega)
      rw [coveredBreak_of_isolating S rf rt k hiso] at hb
      exact absurd hb (by simp)
  refine ⟨hn, he, ?_⟩
  rcases deleteRangeTargetR_cases S Rf Rt f' t' h with
    ⟨d, hm, rfl, rfl⟩ | ⟨d, hm, h1, rfl, rfl⟩ | ⟨d, h1, hdf, hdt, hfd, hlt, rfl, rfl⟩ | ⟨rfl, rfl⟩
  · obtain ⟨hdf, hdt, hfd, htd⟩ := covered_tight S Rf Rt d hm
    have hkd := below d hm
    have nf := Rf.nestW k d (by omega) hdf
    have nt := Rt.nestW k d (by omega) hdt
    omega
  · obtain ⟨hdf, hdt, hfd, htd⟩ := covered_tight S Rf Rt d hm
    have hkd := below d hm
    have nf := Rf.nestW k d (by omega) hdf
    have nt := Rt.nestW k d (by omega) hdt
    omega
  · have hkd : k < d := by
      rcases Nat.lt_or_ge k d with hlt' | hge
      · exact hlt'
      · have := Rf.nestW d k hge hkf
        omega
    have nf := Rf.nestW k d (by omega) hdf
    omega
  · omega

/-- … with the node's own positions: an isolating node (not the root) occupying `[a, b)` —
    `a = start(k) − 1` its open token, `b − 1 = end(k)` its close token — has `a < f'` and `t' < b`,
    i.e. any replace step on the widened range satisfies the monitor `insideNode a b`, so
    `inside_preserves_outside` applies to it without a monitored hypothesis on the range -/
theorem deleteRange_insideNode (S : Schema) (doc : Node) (f t f' t' : Nat) (rf rt : RPos)
    (hf : doc.resolve f = some rf) (ht : doc.resolve t = some rt) (hft : f ≤ t)
    (h : deleteRangeTarget S doc f t = some (f', t'))
    (k : Nat) (hk1 : 1 ≤ k) (hkf : k ≤ rf.depth) (hkt : k ≤ rt.depth)
    (hiso : S.isolating (rf.node k) = true ∨ S.isolating (rt.node k) = true)
    (hsame : rf.start k = rt.start k) (sl : Slice) (c : Bool) :
    rf.start k - 1 < f' ∧ t' < rf.end_ k + 1 ∧
    insideNode (rf.start k - 1) (rf.end_ k + 1) (.replace f' t' sl c) = true := by
  obtain ⟨_, _, h1, h2, h3, h4⟩ :=
    deleteRange_inside_isolating S doc f t f' t' rf rt hf ht h k hkf hkt hiso hsame
  have hs : 1 ≤ rf.start k := by
    obtain ⟨j, rfl⟩ : ∃ j, k = j + 1 := ⟨k - 1, by omega⟩
    rw [Resolved.start_succ]; omega
  refine ⟨by omega, by omega, ?_⟩
  simp only [insideNode, Bool.and_eq_true, decide_eq_true_eq]
  omega

/-- the hypotheses are satisfiable and the widening reaches the boundary: in
    `doc(iso(p("ab")), p("c"))` (`p` content `text+`, `iso` isolating, occupying `[0, 6)`),
    `delete_range(2, 4)` — the whole text of the inner paragraph — is handed to `delete` as `(1, 5)`,
    exactly the content window of `iso`, and no further -/
example :
    let nt (name : String) (isText inl iso : Bool) (dfa : Array DfaState) : NodeType :=
      { name := name, isText := isText, isInline := isText, isLeaf := isText, isAtom := isText,
        inlineContent := inl, isolating := iso, defining := false, code := false,
        dfa := dfa, markSet := none, attrs := [] }
    let S : Schema := { nodes := #[nt "doc" false false false #[⟨false, [(1, 1), (3, 1)]⟩, ⟨true, [(1, 1), (3, 1)]⟩],
                                   nt "paragraph" false true false #[⟨false, [(2, 1)]⟩, ⟨true, [(2, 1)]⟩],
                                   nt "text" true false false #[⟨true, []⟩],
                                   nt "iso" false false true #[⟨false, [(1, 1)]⟩, ⟨true, [(1, 1)]⟩]],
                        marks := #[], top := 0, textTy := 2 }
    let doc := Node.elem 0 [] [] [.elem 3 [] [] [.elem 1 [] [] [.text [97, 98] []]], .elem 1 [] [] [.text [99] []]]
    deleteRangeTarget S doc 2 4 = some (1, 5) ∧
    (doc.resolve 2).map (fun r => (r.depth, r.start 1, r.end_ 1, S.isolating (r.node 1))) = some (2, 1, 5, true) ∧
    (doc.resolve 4).map (fun r => (r.depth, r.start 1, r.end_ 1)) = some (2, 1, 5) := by decide

/-! ## `replace_range` / `replace_range_with` (model PM/ReplaceRange.lean, tied exactly) -/

/-- **`replace_range` never hands `replace` a range beyond an isolating node that contains both
    ends**: if the depth-`k` ancestor of `from` (or of `to`) is isolating and it is the same node for
    both positions (same content start), every request `(f', t', slice')` that `replace_range` makes
    — the targeted call, every call of the fallback loop, the `delete_range` path for an empty
    slice, the direct step — has `[f', t']` containing `[f, t]` and lying within that node's content
    window `[start(k), end(k)]`.  (The covered depths stop below the isolating ancestor —
    `coveredDepths_below_isolating` —, and the walk that adds the `-d` targets `break`s at the
    first defining / definingAsContext / isolating ancestor.) -/
theorem replaceRange_inside_isolating (S : Schema) (doc : Node) (f t : Nat) (sl : Slice)
    (cs : List (Nat × Nat × Slice)) (rf rt : RPos)
    (hf : doc.resolve f = some rf) (ht : doc.resolve t = some rt)
    (h : replaceRangeCalls S doc f t sl = some cs)
    (k : Nat) (hkf : k ≤ rf.depth) (hkt : k ≤ rt.depth)
    (hiso : S.isolating (rf.node k) = true ∨ S.isolating (rt.node k) = true)
    (hsame : rf.start k = rt.start k) :
    ∀ c ∈ cs, rf.start k ≤ c.1 ∧ c.1 ≤ f ∧ t ≤ c.2.1 ∧ c.2.1 ≤ rf.end_ k := by
  have Rf := resolve_resolved hf
  have Rt := resolve_resolved ht
  obtain ⟨plan, hp, rfl⟩ := Option.map_eq_some_iff.mp h
  unfold replaceRangePlan at hp
  split at hp
  · split at hp
    · simp at hp
    · rename_i a b htg
      simp only [Option.some.injEq] at hp
      subst hp
      intro c hc
      simp only [RRPlan.toCalls, List.mem_singleton] at hc
      subst hc
      exact (deleteRange_inside_isolating S doc f t a b rf rt hf ht htg k hkf hkt hiso hsame).2.2
  · simp only [hf, ht] at hp
    split at hp
    · simp at hp
    · simp only [Option.some.injEq] at hp
      subst hp
      intro c hc
      simp only [RRPlan.toCalls, List.mem_singleton] at hc
      subst hc
      exact Widened.inside_isolating S hf ht (.inl ⟨rfl, rfl⟩) k hkf hkt hiso hsame
    · intro c hc
      exact Widened.inside_isolating S hf ht (replaceRangeR_calls S Rf Rt sl plan hp c hc).1 k hkf hkt hiso hsame

/-- … with the node's own positions: for an isolating node (not the root) occupying `[a, b)` —
    `a = start(k) − 1` its open token, `b − 1 = end(k)` its close token — every request has
    `a < f'` and `t' < b`, so a replace step on exactly the requested range satisfies the monitor
    `insideNode a b` and `inside_preserves_outside` applies to it -/
theorem replaceRange_insideNode (S : Schema) (doc : Node) (f t : Nat) (sl : Slice)
    (cs : List (Nat × Nat × Slice)) (rf rt : RPos)
    (hf : doc.resolve f = some rf) (ht : doc.resolve t = some rt) (hft : f ≤ t)
    (h : replaceRangeCalls S doc f t sl = some cs)
    (k : Nat) (hk1 : 1 ≤ k) (hkf : k ≤ rf.depth) (hkt : k ≤ rt.depth)
    (hiso : S.isolating (rf.node k) = true ∨ S.isolating (rt.node k) = true)
    (hsame : rf.start k = rt.start k) (c : Nat × Nat × Slice) (hc : c ∈ cs) (sl' : Slice) (s : Bool) :
    rf.start k - 1 < c.1 ∧ c.2.1 < rf.end_ k + 1 ∧
    insideNode (rf.start k - 1) (rf.end_ k + 1) (.replace c.1 c.2.1 sl' s) = true := by
  obtain ⟨h1, h2, h3, h4⟩ := replaceRange_inside_isolating S doc f t sl cs rf rt hf ht h k hkf hkt hiso hsame c hc
  have hs : 1 ≤ rf.start k := by
    obtain ⟨j, rfl⟩ : ∃ j, k = j + 1 := ⟨k - 1, by omega⟩
    rw [Resolved.start_succ]; omega
  refine ⟨by omega, by omega, ?_⟩
  simp only [insideNode, Bool.and_eq_true, decide_eq_true_eq]
  omega

/-- **the target of `replace_range_with`**: the pair `(f', t')` it passes on to `replace_range`
    (with the slice `Slice(Fragment.from_(node), 0, 0)`) is the original pair, or — only for a
    non-inline node at an empty range `f = t` inside a non-empty parent — the position
    `insert_point(doc, f, node.type)` answered, as an empty range there.

    Nothing in this function, and nothing in `insert_point` (PM/Structure2.lean), looks at
    `isolating`: when the node fits nowhere inside an isolating node, `insert_point` walks up
    through it and answers a position outside (open finding **C18-insert-point-outside**; the
    `example` below is that case).  So the theorem that is true stops here: once the target is the
    original pair, `replaceRange_inside_isolating` applies (`replaceRangeWith_inside_isolating`);
    when it is the insertion point `p`, the requests are those of `replace_range(p, p, …)`
    (`replaceRangeWith_calls`), which may lie outside the node — the correspondence run accepts
    such a step only as a pure insertion (monitor `pureInsertOutside`, theorem
    `pure_insert_keeps_all`) and reports it under the finding. -/
theorem replaceRangeWith_target (S : Schema) (doc : Node) (f t : Nat) (node : Node) (a b : Nat)
    (h : replaceRangeWithTarget S doc f t node = some (a, b)) :
    (a = f ∧ b = t) ∨
    (f = t ∧ a = b ∧ (S.nodeType (S.tyOf node)).isInline = false ∧
      insertPoint S doc f (S.tyOf node) = some (some a) ∧
      ∃ r, doc.resolve f = some r ∧ fsize r.parent.kids ≠ 0) := by
  unfold replaceRangeWithTarget at h
  split at h
  · rename_i hc
    simp only [Bool.and_eq_true, Bool.not_eq_true', beq_iff_eq] at hc
    split at h
    · simp at h
    · rename_i r hr
      split at h
      · rename_i hsz
        split at h
        · simp at h
        · rename_i p hp
          simp only [Option.some.injEq, Prod.mk.injEq] at h
          obtain ⟨rfl, rfl⟩ := h
          exact .inr ⟨hc.2, rfl, hc.1, by simp [insertPoint, hr, hp], r, hr, by simpa using hsz⟩
        · simp only [Option.some.injEq, Prod.mk.injEq] at h
          exact .inl ⟨h.1.symm, h.2.symm⟩
      · simp only [Option.some.injEq, Prod.mk.injEq] at h
        exact .inl ⟨h.1.symm, h.2.symm⟩
  · simp only [Option.some.injEq, Prod.mk.injEq] at h
    exact .inl ⟨h.1.symm, h.2.symm⟩

/-- `replace_range_with(f, t, node)` is `replace_range` at that target with the closed one-node slice -/
theorem replaceRangeWith_calls (S : Schema) (doc : Node) (f t : Nat) (node : Node)
    (cs : List (Nat × Nat × Slice)) (h : replaceRangeWithCalls S doc f t node = some cs) :
    ∃ a b, replaceRangeWithTarget S doc f t node = some (a, b) ∧
      replaceRangeCalls S doc a b ⟨[node], 0, 0⟩ = some cs := by
  unfold replaceRangeWithCalls replaceRangeWithPlan at h
  split at h
  · simp at h
  · rename_i a b htg
    exact ⟨a, b, htg, h⟩

/-- **inside an isolating node, as long as `insert_point` does not move the target**: every request
    of `replace_range_with(f, t, node)` whose target is the original pair stays within the content
    of an isolating node containing both ends -/
theorem replaceRangeWith_inside_isolating (S : Schema) (doc : Node) (f t : Nat) (node : Node)
    (cs : List (Nat × Nat × Slice)) (rf rt : RPos)
    (hf : doc.resolve f = some rf) (ht : doc.resolve t = some rt)
    (h : replaceRangeWithCalls S doc f t node = some cs)
    (hsame_target : replaceRangeWithTarget S doc f t node = some (f, t))
    (k : Nat) (hkf : k ≤ rf.depth) (hkt : k ≤ rt.depth)
    (hiso : S.isolating (rf.node k) = true ∨ S.isolating (rt.node k) = true)
    (hsame : rf.start k = rt.start k) :
    ∀ c ∈ cs, rf.start k ≤ c.1 ∧ c.1 ≤ f ∧ t ≤ c.2.1 ∧ c.2.1 ≤ rf.end_ k := by
  obtain ⟨a, b, htg, hcs⟩ := replaceRangeWith_calls S doc f t node cs h
  rw [hsame_target] at htg
  simp only [Option.some.injEq, Prod.mk.injEq] at htg
  obtain ⟨rfl, rfl⟩ := htg
  exact replaceRange_inside_isolating S doc f t _ cs rf rt hf ht hcs k hkf hkt hiso hsame

/-- the hypotheses are satisfiable, and the open finding C18-insert-point-outside in the model: in
    `doc(table(row(cell(p("a")))))` (`table`, `cell` isolating; the cell's content window is `[3, 6]`),
    * `replace_range(4, 5, <p("x")>(1,1))` inside the cell stays inside it;
    * `replace_range_with(3, 3, row(cell(p("Q"))))` — a row fits nowhere inside a cell — is handed on
      to `replace_range` at `(1, 1)`, the position in front of the existing row, *outside* the cell:
      `insert_point` walked up through the isolating cell. -/
example :
    let nt (name : String) (isText inl iso : Bool) (dfa : Array DfaState) : NodeType :=
      { name := name, isText := isText, isInline := isText, isLeaf := isText, isAtom := isText,
        inlineContent := inl, isolating := iso, defining := false, code := false,
        dfa := dfa, markSet := none, attrs := [] }
    let one (t : Nat) : Array DfaState := #[⟨false, [(t, 1)]⟩, ⟨true, [(t, 1)]⟩]
    let S : Schema := { nodes := #[nt "doc" false false false (one 1), nt "table" false false true (one 2),
                                   nt "row" false false false (one 3), nt "cell" false false true (one 4),
                                   nt "p" false true false #[⟨true, [(5, 0)]⟩],
                                   nt "text" true false false #[⟨true, []⟩]],
                        marks := #[], top := 0, textTy := 5 }
    let p (s : List Nat) : Node := .elem 4 [] [] [.text s []]
    let doc := Node.elem 0 [] [] [.elem 1 [] [] [.elem 2 [] [] [.elem 3 [] [] [p [97]]]]]
    let row := Node.elem 2 [] [] [.elem 3 [] [] [p [81]]]
    (doc.resolve 3).map (fun r => (r.depth, r.start 3, r.end_ 3, S.isolating (r.node 3))) = some (3, 3, 6, true) ∧
    replaceRangeCalls S doc 4 5 ⟨[p [120]], 1, 1⟩ = some [(4, 5, ⟨[p [120]], 1, 1⟩)] ∧
    replaceRangeWithTarget S doc 3 3 row = some (1, 1) ∧
    replaceRangeWithCalls S doc 3 3 row = some [(1, 1, ⟨[row], 0, 0⟩)] := by decide

/-! ## The editor-level flows: a selection inside an isolating node → `block_range` → lift / split / wrap

The theorems above quantify over ranges; an editor command does not pick a range, it asks the library for
one: `$from.block_range($to)` for the selection, then `lift_target(range)` and `tr.lift(range, target)` (or
`find_wrapping` and `tr.wrap`, or `can_split` and `tr.split`).  The theorems below follow that flow
through the models (`blockRange` PM/Resolve.lean, specs Props/C09.lean; `liftTarget` / `canSplit`
PM/Structure.lean; `liftStep` / `splitStep` / `wrapStep` PM/StructEdit.lean, all tied exactly).

Setting, as in `deleteRange_insideNode`: `f ≤ t` resolve to `rf`, `rt`; their depth-`k` ancestor (`1 ≤ k`)
is the same node (`rf.start k = rt.start k`); it occupies `[a, b)` with `a = rf.start k − 1` its open token
and `b − 1 = rf.end_ k` its close token, so `a < f` and `t < b` hold by construction.  -/

/-- a non-root ancestor's content window lies strictly inside the document -/
theorem ancestor_window_in_doc {doc : Node} {pos : Nat} {r : RPos} (hr : doc.resolve pos = some r)
    (k : Nat) (hk1 : 1 ≤ k) (hk : k ≤ r.depth) :
    1 ≤ r.start k ∧ r.end_ k + 1 ≤ fsize doc.kids := by
  have R := resolve_resolved hr
  have n := R.nestW 0 k (by omega) hk
  have e0 : r.end_ 0 = fsize doc.kids := by simp [RPos.end_, RPos.start, R.node_zero]
  have s0 : r.start 0 = 0 := by simp [RPos.start]
  omega

/-- when `block_range` starts its search at or below the ancestor: a position deeper than the node
    always does; a position directly in the node's content does when the selection is not collapsed
    and the node does not hold inline content (`brShrink`, Props/C09.lean) -/
theorem brShrink_deep (S : Schema) (f t : Nat) (rf : RPos) (k : Nat) (hkf : k ≤ rf.depth)
    (h : k < rf.depth ∨ (f < t ∧ (S.nodeType (S.tyOf (rf.node k))).inlineContent = false)) :
    k + C09.brShrink S rf f t ≤ rf.depth := by
  have hc : C09.brShrink S rf f t ≤ 1 := by unfold C09.brShrink; split <;> omega
  rcases h with h | ⟨hlt, hinl⟩
  · omega
  · rcases Nat.lt_or_ge k rf.depth with h | h
    · omega
    · have hk : k = rf.depth := by omega
      have : C09.brShrink S rf f t = 0 := by
        unfold C09.brShrink RPos.parent
        rw [← hk, hinl]
        have : (f == t) = false := by simp; omega
        simp [this]
      omega

/-- **the block range of a selection inside a node lies inside that node's content** (for every common
    ancestor, isolating or not): with `k + brShrink ≤ depth(f)` — the search of `block_range` starts
    at or below the node — the answer `(d, s, e)` has `d ≥ k` and
    `start(k) ≤ s ≤ f`, `t ≤ e ≤ end(k)`.  (The seeded `<` for `<=` at the end boundary answered
    depth `k − 1` for a selection reaching the end of the node's content: the node itself.) -/
theorem blockRange_inside_ancestor (S : Schema) (doc : Node) (f t : Nat) (hft : f ≤ t) (rf rt : RPos)
    (hf : doc.resolve f = some rf) (ht : doc.resolve t = some rt)
    (k : Nat) (hkf : k ≤ rf.depth) (hkt : k ≤ rt.depth) (hsame : rf.start k = rt.start k)
    (hdeep : k + C09.brShrink S rf f t ≤ rf.depth) :
    ∃ d s e, blockRange S doc f t = .ok (some (d, s, e)) ∧
      k ≤ d ∧ d ≤ rf.depth ∧ d ≤ rt.depth ∧
      rf.before (d + 1) = some s ∧ rt.after (d + 1) = some e ∧
      rf.start k ≤ s ∧ s ≤ f ∧ t ≤ e ∧ e ≤ rf.end_ k := by
  have Rf := resolve_resolved hf
  have Rt := resolve_resolved ht
  have pf := Rf.pos_in k hkf
  have pt := Rt.pos_in k hkt
  obtain ⟨_, _, he, _⟩ := same_ancestors Rf Rt k (rf.start k) hkf hkt (Nat.le_refl _) (by omega)
    (by omega) (by omega) k (Nat.le_refl _)
  obtain ⟨⟨x, hx⟩, hsome, hnone, _⟩ := C09.blockRange_depth_spec S doc f t hft rf hf Rt.le
  cases x with
  | none => exact absurd (by omega) ((hnone.mp hx) k hdeep)
  | some x =>
    obtain ⟨d, s, e⟩ := x
    obtain ⟨_, _, _, _, hmax⟩ := hsome d s e hx
    have hkd : k ≤ d := by
      rcases Nat.lt_or_ge d k with hlt | hge
      · exact absurd (by omega) (hmax k hlt hdeep)
      · exact hge
    obtain ⟨b1, b2, _, _, b5, b6, _, _, b9, b10, b11, b12, _⟩ :=
      C09.blockRange_bounds_spec S doc f t hft rf rt hf ht d s e hx
    have n := Rf.nestW k d hkd b1
    exact ⟨d, s, e, hx, hkd, b1, b2, b5, b6, by omega, b10, b11, by omega⟩

/-- … with the node's own positions: for the node occupying `[a, b)` (`a = start(k) − 1` its open
    token, `b − 1 = end(k)` its close token) every answer of `block_range` has depth `≥ k` and
    `a + 1 ≤ start`, `end ≤ b − 1` -/
theorem blockRange_inside_isolating (S : Schema) (doc : Node) (f t : Nat) (hft : f ≤ t) (rf rt : RPos)
    (hf : doc.resolve f = some rf) (ht : doc.resolve t = some rt)
    (k : Nat) (hk1 : 1 ≤ k) (hkf : k ≤ rf.depth) (hkt : k ≤ rt.depth) (hsame : rf.start k = rt.start k)
    (hdeep : k + C09.brShrink S rf f t ≤ rf.depth)
    (d s e : Nat) (h : blockRange S doc f t = .ok (some (d, s, e))) :
    k ≤ d ∧ (rf.start k - 1) + 1 ≤ s ∧ e ≤ (rf.end_ k + 1) - 1 ∧ s ≤ f ∧ t ≤ e := by
  obtain ⟨hs1, _⟩ := ancestor_window_in_doc hf k hk1 hkf
  obtain ⟨d', s', e', h', r1, _, _, _, _, r2, r3, r4, r5⟩ :=
    blockRange_inside_ancestor S doc f t hft rf rt hf ht k hkf hkt hsame hdeep
  rw [h'] at h
  simp only [Except.ok.injEq, Option.some.injEq, Prod.mk.injEq] at h
  obtain ⟨rfl, rfl, rfl⟩ := h
  exact ⟨r1, by omega, by omega, r3, r4⟩

/-- **the node-level case** — the search starts *above* the node (`depth(f) = k` and `brShrink = 1`: a
    collapsed selection directly in the node's content, or any selection directly in a node that holds
    inline content): the block range is the node itself, at depth `k − 1`, from before its open token
    to after its close token.  This is the documented rule ("the range around the parent block"), a
    range *around* the node: lifting or wrapping it moves or wraps the isolating node as a whole. -/
theorem blockRange_node_level_is_node (S : Schema) (doc : Node) (f t : Nat) (hft : f ≤ t) (rf rt : RPos)
    (hf : doc.resolve f = some rf) (ht : doc.resolve t = some rt)
    (k : Nat) (hk1 : 1 ≤ k) (hkf : rf.depth = k) (hkt : k ≤ rt.depth) (hsame : rf.start k = rt.start k)
    (hc : C09.brShrink S rf f t = 1) :
    blockRange S doc f t = .ok (some (k - 1, rf.start k - 1, rf.end_ k + 1)) := by
  have Rf := resolve_resolved hf
  have Rt := resolve_resolved ht
  have pt := Rt.pos_in k hkt
  have pf := Rf.pos_in k (by omega)
  obtain ⟨_, _, he, _⟩ := same_ancestors Rf Rt k (rf.start k) (by omega) hkt (Nat.le_refl _) (by omega)
    (by omega) (by omega) k (Nat.le_refl _)
  obtain ⟨⟨x, hx⟩, hsome, _, hnone⟩ := C09.blockRange_depth_spec S doc f t hft rf hf Rt.le
  cases x with
  | none => have := (hnone.mp hx).1; omega
  | some x =>
    obtain ⟨d, s, e⟩ := x
    obtain ⟨_, hdc, _, _, hmax⟩ := hsome d s e hx
    have n := Rf.nestW (k - 1) k (by omega) (by omega)
    have hd : d = k - 1 := by
      rcases Nat.lt_or_ge d (k - 1) with hlt | hge
      · exact absurd (by omega) (hmax (k - 1) hlt (by omega))
      · omega
    obtain ⟨_, _, _, _, _, _, b7, b8, _⟩ :=
      C09.blockRange_bounds_spec S doc f t hft rf rt hf ht d s e hx
    rw [if_neg (by omega)] at b7 b8
    rw [hx, hd, b7, b8, hd, show k - 1 + 1 = k by omega, he]

/-- **collapsed selection directly in the node's content**: `$pos.block_range()` is the node itself -/
theorem blockRange_collapsed_is_node (S : Schema) (doc : Node) (f : Nat) (rf : RPos)
    (hf : doc.resolve f = some rf) (k : Nat) (hk1 : 1 ≤ k) (hkf : rf.depth = k) :
    blockRange S doc f f = .ok (some (k - 1, rf.start k - 1, rf.end_ k + 1)) :=
  blockRange_node_level_is_node S doc f f (Nat.le_refl _) rf rf hf hf k hk1 hkf (by omega) rfl
    (by simp [C09.brShrink])

/-- a step that satisfies the monitor `insideNode` for the depth-`k` ancestor of a resolved position
    leaves every token up to and including that node's open token and from its close token on
    unchanged (`inside_preserves_outside` with the node's positions spelled out) -/
theorem inside_ancestor_preserves_outside (S : Schema) (doc doc' : Node) (pos : Nat) (r : RPos)
    (hr : doc.resolve pos = some r) (k : Nat) (hk1 : 1 ≤ k) (hk : k ≤ r.depth) (st : Step)
    (hm : insideNode (r.start k - 1) (r.end_ k + 1) st = true)
    (hwf : ∀ f t gf gt sl i c, st = .replaceAround f t gf gt sl i c → sl.wf = true ∧ (i : Int) ≤ sl.size ∧ f ≤ gf ∧ gf ≤ gt ∧ gt ≤ t)
    (h : S.apply st doc = .ok doc') :
    (ftoks doc'.kids).take (r.start k) = (ftoks doc.kids).take (r.start k) ∧
    (ftoks doc'.kids).drop (r.end_ k + fsize doc'.kids - fsize doc.kids) = (ftoks doc.kids).drop (r.end_ k) ∧
    fsize doc.kids ≤ r.end_ k + fsize doc'.kids := by
  obtain ⟨h1, h2⟩ := ancestor_window_in_doc hr k hk1 hk
  have := inside_preserves_outside S doc doc' (r.start k - 1) (r.end_ k + 1) st h2 hm hwf h
  rw [show r.start k - 1 + 1 = r.start k by omega, show r.end_ k + 1 - 1 = r.end_ k by omega] at this
  exact this

/-- **a replace-around step inside an ancestor keeps that ancestor closed** when (i) the slice's open
    start does not reach the ancestor's level — the nesting level at the step's start is at least
    `k + openStart` — and (ii) the gap is balanced and none of its prefixes closes more than it opened
    (a node range).  Then, if the step applies, inside the ancestor's new content window
    `[start(k), end(k) + Δ]` (`Δ` the size change) the nesting level never drops below `k`: none of the
    tokens in it closes the ancestor, whose open token is still matched by its old close token — the
    node is neither split nor merged with a neighbour. -/
theorem around_keeps_node_closed (S : Schema) (doc doc' : Node) (pos : Nat) (r : RPos)
    (hr : doc.resolve pos = some r) (k : Nat) (hk : k ≤ r.depth)
    (F T gs ge : Nat) (sl : Slice) (i : Nat) (c : Bool)
    (hwf : sl.wf = true) (hi : (i : Int) ≤ sl.size)
    (h1 : r.start k ≤ F) (h2 : F ≤ gs) (h3 : gs ≤ ge) (h4 : ge ≤ T) (h5 : T ≤ r.end_ k)
    (hopen : (k : Int) + sl.openStart ≤ balance ((ftoks doc.kids).take F))
    (hgap0 : balance (C09.window (ftoks doc.kids) gs (ge - gs)) = 0)
    (hgap : ∀ m, 0 ≤ balance ((C09.window (ftoks doc.kids) gs (ge - gs)).take m))
    (h : S.apply (.replaceAround F T gs ge sl i c) doc = .ok doc') :
    ∀ j, r.start k ≤ j → j + fsize doc.kids ≤ r.end_ k + fsize doc'.kids →
      (k : Int) ≤ balance ((ftoks doc'.kids).take j) := by
  have R := resolve_resolved hr
  have n0 := R.nestW 0 k (by omega) hk
  have e0 : r.end_ 0 = fsize doc.kids := by simp [RPos.end_, RPos.start, R.node_zero]
  obtain ⟨etoks, hT, _⟩ := apply_replaceAround_toks S doc doc' F T gs ge sl i c hwf hi ⟨h2, h3, h4⟩ h
  unfold C09.window at hgap0 hgap
  generalize hgapdef : ((ftoks doc.kids).drop gs).take (ge - gs) = gap at etoks hgap0 hgap
  have hgl : gap.length = ge - gs := by
    rw [← hgapdef]; simp only [List.length_take, List.length_drop, ftoks_length]; omega
  have etoks' : ftoks doc'.kids = (ftoks doc.kids).take F ++ (sl.toks.take i ++ gap ++ sl.toks.drop i) ++
      (ftoks doc.kids).drop T := by rw [etoks]; simp only [List.append_assoc]
  have hlen := congrArg List.length etoks'
  simp only [List.length_append, List.length_take, List.length_drop, ftoks_length, hgl] at hlen
  have hsum : min i sl.toks.length + (sl.toks.length - i) = sl.toks.length := by omega
  intro j hj1 hj2
  have hb := splice_balance (ftoks doc.kids) (sl.toks.take i ++ gap ++ sl.toks.drop i) F T
    (balance_ftoks _) (by rw [← etoks']; exact balance_ftoks _)
  rw [etoks']
  refine splice_keeps_level (ftoks doc.kids) _ (r.start k) (r.end_ k) F T k (by omega) h1 h5
    (by rw [ftoks_length]; omega) (fun j' a b => balance_in_ancestor hr k hk j' a b) ?_ hb j hj1 ?_
  · intro n
    have := around_prefix_level sl hwf i gap hgap hgap0 n
    omega
  · simp only [List.length_append, List.length_take, List.length_drop, hgl]
    omega

/-- **lift of a selection inside an isolating node**: the selection `f ≤ t` lies inside the content of
    an isolating node (depth `k`; not at node level, `hdeep`), the range is the library's own
    `block_range`, the target its own `lift_target`, the step the one `tr.lift(range, target)` builds.
    Then the target stays at or below the node (`k ≤ target`), the step's outer range lies strictly
    between the node's open and close token, and if it applies, every token up to and including the
    node's open token and from its close token on is unchanged. -/
theorem lift_of_selection_inside (S : Schema) (doc doc' : Node) (f t : Nat) (hft : f ≤ t) (rf rt : RPos)
    (hf : doc.resolve f = some rf) (ht : doc.resolve t = some rt)
    (k : Nat) (hk1 : 1 ≤ k) (hkf : k ≤ rf.depth) (hkt : k ≤ rt.depth) (hsame : rf.start k = rt.start k)
    (hiso : S.isolating (rf.node k) = true)
    (hdeep : k + C09.brShrink S rf f t ≤ rf.depth)
    (d s e : Nat) (hbr : blockRange S doc f t = .ok (some (d, s, e)))
    (tg : Nat) (htg : liftTarget S doc f t d = some (some tg))
    (st : Step) (hst : liftStep doc f t d tg = .ok st)
    (h : S.apply st doc = .ok doc') :
    k ≤ tg ∧ tg < d ∧
    insideNode (rf.start k - 1) (rf.end_ k + 1) st = true ∧
    (ftoks doc'.kids).take (rf.start k) = (ftoks doc.kids).take (rf.start k) ∧
    (ftoks doc'.kids).drop (rf.end_ k + fsize doc'.kids - fsize doc.kids) = (ftoks doc.kids).drop (rf.end_ k) ∧
    fsize doc.kids ≤ rf.end_ k + fsize doc'.kids ∧
    ∀ j, rf.start k ≤ j → j + fsize doc.kids ≤ rf.end_ k + fsize doc'.kids →
      (k : Int) ≤ balance ((ftoks doc'.kids).take j) := by
  have Rf := resolve_resolved hf
  have Rt := resolve_resolved ht
  have pf := Rf.pos_in k hkf
  have pt := Rt.pos_in k hkt
  obtain ⟨_, _, he, _⟩ := same_ancestors Rf Rt k (rf.start k) hkf hkt (Nat.le_refl _) (by omega)
    (by omega) (by omega) k (Nat.le_refl _)
  obtain ⟨_, _, _, _, bs, be, _, _, _, _, _, _, _, bg0, bg⟩ :=
    C09.blockRange_bounds_spec S doc f t hft rf rt hf ht d s e hbr
  obtain ⟨hkd, _⟩ := blockRange_inside_isolating S doc f t hft rf rt hf ht k hk1 hkf hkt hsame hdeep d s e hbr
  have hktg := liftTarget_stays_inside S doc f t d tg rf rt hf ht htg k hkd hiso
  obtain ⟨htd, hdf, hdt, _⟩ := liftTarget_not_across_isolating S doc f t d tg rf rt hf ht htg
  simp only [liftStep, hf, ht] at hst
  obtain ⟨_, _, F, T, gs, ge, sl, i, rfl, g1, g2, w1, w2, w3, w4, w5, w6, w7, w8⟩ :=
    liftStepR_inside hf ht hft d tg (by omega) st hst
  rw [bs] at g1
  rw [be] at g2
  simp only [Option.some.injEq] at g1 g2
  subst g1 g2
  have nf := Rf.nestW k tg hktg (by omega)
  have nt := Rt.nestW k tg hktg (by omega)
  obtain ⟨hs1, _⟩ := ancestor_window_in_doc hf k hk1 hkf
  have hm : insideNode (rf.start k - 1) (rf.end_ k + 1) (.replaceAround F T s e sl i true) = true := by
    simp only [insideNode, Bool.and_eq_true, decide_eq_true_eq]
    omega
  obtain ⟨o1, o2, o3⟩ := inside_ancestor_preserves_outside S doc doc' f rf hf k hk1 hkf _ hm
    (by
      intro f' t' gf gt sl' i' c e'
      simp only [Step.replaceAround.injEq] at e'
      obtain ⟨rfl, rfl, rfl, rfl, rfl, rfl, _⟩ := e'
      exact ⟨w1, w2, w3, w4, w5⟩) h
  refine ⟨hktg, htd, hm, o1, o2, o3, ?_⟩
  -- the level at the step's start: at least `d` in front of the range, one less per token moved over
  have lv := balance_take_before hf d s bs
  have lv2 := balance_take_sub (ftoks doc.kids) s (s - F)
  rw [show s - (s - F) = F by omega] at lv2
  exact around_keeps_node_closed S doc doc' f rf hf k hkf F T s e sl i true w1 w2 (by omega) w3 w4 w5
    (by omega) (by omega) bg0 bg h

/-- **wrap of a selection inside an isolating node**: the range is the library's own `block_range` of
    the selection, the wrappers are arbitrary (in particular those `find_wrapping(range, type)` answers);
    the step `tr.wrap(range, wrappers)` builds covers exactly the range, which lies inside the node's
    content, so if it applies, everything up to and including the node's open token and from its close
    token on is unchanged -/
theorem wrap_of_selection_inside (S : Schema) (doc doc' : Node) (f t : Nat) (hft : f ≤ t) (rf rt : RPos)
    (hf : doc.resolve f = some rf) (ht : doc.resolve t = some rt)
    (k : Nat) (hk1 : 1 ≤ k) (hkf : k ≤ rf.depth) (hkt : k ≤ rt.depth) (hsame : rf.start k = rt.start k)
    (hdeep : k + C09.brShrink S rf f t ≤ rf.depth)
    (d s e : Nat) (hbr : blockRange S doc f t = .ok (some (d, s, e)))
    (ws : List (TypeId × Attrs))
    (st : Step) (hst : wrapStep S doc f t d ws = .ok st)
    (h : S.apply st doc = .ok doc') :
    (∃ sl, st = .replaceAround s e s e sl ws.length true) ∧
    insideNode (rf.start k - 1) (rf.end_ k + 1) st = true ∧
    (ftoks doc'.kids).take (rf.start k) = (ftoks doc.kids).take (rf.start k) ∧
    (ftoks doc'.kids).drop (rf.end_ k + fsize doc'.kids - fsize doc.kids) = (ftoks doc.kids).drop (rf.end_ k) ∧
    fsize doc.kids ≤ rf.end_ k + fsize doc'.kids ∧
    ∀ j, rf.start k ≤ j → j + fsize doc.kids ≤ rf.end_ k + fsize doc'.kids →
      (k : Int) ≤ balance ((ftoks doc'.kids).take j) := by
  obtain ⟨_, _, _, _, _, _, _, _, _, _, _, _, _, bg0, bg⟩ :=
    C09.blockRange_bounds_spec S doc f t hft rf rt hf ht d s e hbr
  obtain ⟨d', s', e', h', _, _, _, q1, q2, q3, _, _, q4⟩ :=
    blockRange_inside_ancestor S doc f t hft rf rt hf ht k hkf hkt hsame hdeep
  rw [h'] at hbr
  simp only [Except.ok.injEq, Option.some.injEq, Prod.mk.injEq] at hbr
  obtain ⟨rfl, rfl, rfl⟩ := hbr
  simp only [wrapStep, hf, ht] at hst
  obtain ⟨s2, e2, sl, rfl, p1, p2, w1, w2, w3, hos⟩ := wrapStepR_inside S hf ht hft d' ws st hst
  rw [q1] at p1
  rw [q2] at p2
  simp only [Option.some.injEq] at p1 p2
  subst p1 p2
  obtain ⟨hs1, _⟩ := ancestor_window_in_doc hf k hk1 hkf
  have hm : insideNode (rf.start k - 1) (rf.end_ k + 1) (.replaceAround s' e' s' e' sl ws.length true) = true := by
    simp only [insideNode, Bool.and_eq_true, decide_eq_true_eq]
    omega
  obtain ⟨o1, o2, o3⟩ := inside_ancestor_preserves_outside S doc doc' f rf hf k hk1 hkf _ hm
    (by
      intro f' t' gf gt sl' i' c e'
      simp only [Step.replaceAround.injEq] at e'
      obtain ⟨rfl, rfl, rfl, rfl, rfl, rfl, _⟩ := e'
      exact ⟨w1, w2, Nat.le_refl _, w3, Nat.le_refl _⟩) h
  refine ⟨⟨sl, rfl⟩, hm, o1, o2, o3, ?_⟩
  have lv := balance_in_ancestor hf k hkf s' q3 (by omega)
  exact around_keeps_node_closed S doc doc' f rf hf k hkf s' e' s' e' sl ws.length true w1 w2 q3
    (Nat.le_refl _) w3 (Nat.le_refl _) q4 (by rw [hos]; omega) bg0 bg h


/-- **split at a position inside an isolating node**: `can_split(doc, pos, depth)` approved, the step is
    the one `tr.split(pos, depth)` builds.  Then all `depth` nodes that get split lie strictly below
    the isolating ancestor (`depth + k ≤ depth(pos)`), the step is an insertion at `pos` — between the
    node's open and close token —, and if it applies: every token up to and including the node's open
    token and from its close token on is unchanged, the content grows by `2·depth` tokens, and **the
    node is not split**: inside its new content window `[start(k), end(k) + 2·depth]` the nesting level
    never drops below `k`, so none of the inserted close tokens closes the isolating node — its open
    token is still matched by its old close token. -/
theorem split_of_position_inside (S : Schema) (doc doc' : Node) (pos depth : Nat) (r : RPos)
    (hr : doc.resolve pos = some r)
    (k : Nat) (hk1 : 1 ≤ k) (hk : k ≤ r.depth) (hiso : S.isolating (r.node k) = true)
    (hcs : canSplit S doc pos depth = some true)
    (st : Step) (hst : splitStep doc pos depth = .ok st)
    (h : S.apply st doc = .ok doc') :
    depth + k ≤ r.depth ∧
    insideNode (r.start k - 1) (r.end_ k + 1) st = true ∧
    (ftoks doc'.kids).take (r.start k) = (ftoks doc.kids).take (r.start k) ∧
    (ftoks doc'.kids).drop (r.end_ k + fsize doc'.kids - fsize doc.kids) = (ftoks doc.kids).drop (r.end_ k) ∧
    fsize doc'.kids = fsize doc.kids + 2 * depth ∧
    ∀ j, r.start k ≤ j → j ≤ r.end_ k + 2 * depth → (k : Int) ≤ balance ((ftoks doc'.kids).take j) := by
  have R := resolve_resolved hr
  obtain ⟨_, hd2, _⟩ := canSplit_not_across_isolating S doc pos depth r hr hcs
  obtain ⟨hkb, _⟩ := canSplit_stays_inside S doc pos depth r hr hcs k hk hiso
  have hdk : depth + k ≤ r.depth := by omega
  have hdoc : doc.isLeaf = false := by
    have hd := R.depth_eq
    cases doc with
    | elem => rfl
    | text s m => simp [Node.kids, depthAt] at hd; omega
    | leaf ty a m => simp [Node.kids, depthAt] at hd; omega
  obtain ⟨sl, rfl, hwf, hos, hoe, hsz⟩ := splitStep_shape depth st hdoc hst
  have pin := R.pos_in k hk
  obtain ⟨hs1, hb⟩ := ancestor_window_in_doc hr k hk1 hk
  have hm : insideNode (r.start k - 1) (r.end_ k + 1) (.replace pos pos sl true) = true := by
    simp only [insideNode, Bool.and_eq_true, decide_eq_true_eq]
    omega
  obtain ⟨o1, o2, _⟩ := inside_ancestor_preserves_outside S doc doc' pos r hr k hk1 hk _ hm
    (fun f t gf gt sl' i c e => by simp at e) h
  obtain ⟨etoks, _, _, _⟩ := apply_replace_toks S doc doc' pos pos sl true h
  have hlen : sl.toks.length = 2 * depth := by
    have := wf_opens_le hwf
    simp only [Slice.size] at hsz
    simp only [Slice.toks, List.length_take, List.length_drop, ftoks_length]
    omega
  have hsize : fsize doc'.kids = fsize doc.kids + 2 * depth := by
    have hl := congrArg List.length etoks
    simp only [List.length_append, List.length_take, List.length_drop, ftoks_length, hlen] at hl
    have := R.le
    omega
  refine ⟨hdk, hm, o1, o2, hsize, ?_⟩
  intro j h1 h2
  rw [etoks]
  have hbp := balance_take_pos hr
  refine splice_keeps_level (ftoks doc.kids) sl.toks (r.start k) (r.end_ k) pos pos k (Nat.le_refl _)
    pin.1 pin.2 (by rw [ftoks_length]; omega) (fun j' a b => balance_in_ancestor hr k hk j' a b) ?_ ?_ j h1
    (by rw [hlen]; omega)
  · intro i
    have := sliceToks_balance_ge sl hwf i
    rw [hbp, hos] at *
    omega
  · rw [sliceToks_balance sl hwf, hos, hoe]; omega

/-! ## Node-level edits addressed at a node inside: `set_node_markup` (model PM/TypePlan.lean) -/

/-- a node created by `NodeType.create(attrs, None, marks)` has at least one token -/
theorem createNode_size_pos (S : Schema) (ty : TypeId) (attrs : Attrs) (marks : Marks) (nn : Node)
    (h : S.createNode ty attrs marks = .ok nn) : 1 ≤ nn.size := by
  unfold Schema.createNode at h
  simp only at h
  split at h
  · simp at h
  · cases hc : computeAttrs (S.nodeType ty).attrs attrs with
    | error e => rw [hc] at h; simp [Except.map] at h
    | ok a =>
      rw [hc] at h
      simp only [Except.map, Except.ok.injEq] at h
      subst h
      split <;> simp [Node.size]

/-- **`set_node_markup` at a node inside**: the node found at `pos` lies strictly between the open
    token (at `a`) and the close token (at `b − 1`) of a node occupying `[a, b)`.  Whatever new type,
    attributes and marks are requested, if the operation succeeds (without the Fitter: `fits = []`,
    as in `setNodeMarkup_spec`, Props/C13.lean) every token up to and including the open token at `a`
    and from the close token at `b − 1` on is unchanged. -/
theorem setNodeMarkup_inside (S : Schema) (st st' : PSt) (pos : Nat) (ty : Option TypeId)
    (attrs : Attrs) (marks : Option Marks) (a b : Nat) (hb : b ≤ fsize st.tr.doc.kids)
    (node : Node) (hn : st.tr.doc.nodeAt pos = .ok (some node))
    (ha : a < pos) (hpb : pos + node.size < b) (hfit : st.fits = [])
    (h : st.setNodeMarkup S pos ty attrs marks = .ok st') :
    (ftoks st'.tr.doc.kids).take (a + 1) = (ftoks st.tr.doc.kids).take (a + 1) ∧
    (ftoks st'.tr.doc.kids).drop (b - 1 + fsize st'.tr.doc.kids - fsize st.tr.doc.kids) =
      (ftoks st.tr.doc.kids).drop (b - 1) ∧
    fsize st.tr.doc.kids ≤ b - 1 + fsize st'.tr.doc.kids := by
  unfold PSt.setNodeMarkup at h
  rw [hn] at h
  simp only at h
  split at h
  · simp at h
  · rename_i newNode hcreate
    have hsz := createNode_size_pos S _ _ _ newNode hcreate
    split at h
    · -- leaf: a plain replace of the node's window
      rcases PSt.replace_nofit S st st' _ _ _ hfit h with ⟨rfl, _, _⟩ | ⟨_, hstep⟩
      · exact ⟨rfl, by rw [Nat.add_sub_cancel], by omega⟩
      · obtain ⟨hap, _⟩ := PSt.step_facts S st st' _ hstep
        exact inside_preserves_outside S _ _ a b _ hb
          (by simp only [insideNode, Bool.and_eq_true, decide_eq_true_eq]; omega)
          (fun f t gf gt sl i c e => by simp at e) hap
    · rename_i hnl
      split at h
      · simp at h
      · obtain ⟨hap, _⟩ := PSt.step_facts S st st' _ h
        have hns : 2 ≤ node.size := by
          cases node with
          | elem t at_ m kids => simp [Node.size]
          | text => simp [Node.isLeaf] at hnl
          | leaf => simp [Node.isLeaf] at hnl
        refine inside_preserves_outside S _ _ a b _ hb
          (by simp only [retypeStep, insideNode, Bool.and_eq_true, decide_eq_true_eq]; omega) ?_ hap
        intro f t gf gt sl i c e
        simp only [retypeStep, Step.replaceAround.injEq] at e
        obtain ⟨rfl, rfl, rfl, rfl, rfl, rfl, _⟩ := e
        refine ⟨by simp [Slice.wf], ?_, by omega, by omega, by omega⟩
        simp only [Slice.size, fsize]
        omega

/-! ## `set_block_type` over a range inside (model PM/TypePlan.lean, whole-walk spec `setBlockType_spec`, Props/C13.lean) -/

/-- the run only ever appends to the rewritten prefix (as `SbtRun.grows`, Props/C13.lean, which this file
    does not import) -/
theorem sbtRun_grows {S : Schema} {ty : TypeId} {attrs : Attrs} {L0 : List Tok} {vs : List NV}
    {skip skip' : Nat} {X X' : List Tok} (h : SbtRun S ty attrs L0 vs skip X skip' X') :
    ∃ Y, X' = X ++ Y := by
  induction h with
  | done => exact ⟨[], by simp⟩
  | pass _ _ _ _ _ _ _ _ ih => exact ih
  | conv v _ sk _ _ _ nn _ _ _ _ _ _ ih =>
    obtain ⟨Y, hY⟩ := ih
    exact ⟨(L0.drop sk).take (v.pos - sk) ++ (convToks S ty nn v.node.kids ++ Y),
      by rw [hY]; simp only [List.append_assoc]⟩

/-- the whole walk of `set_block_type` in terms of `SbtRun` (the statement of `setBlockType_spec`,
    Props/C13.lean, re-derived from Proofs/TypePlan.lean to keep this file's imports small) -/
theorem setBlockType_run (S : Schema) (st st' : PSt) (f t : Nat) (ty : TypeId) (attrs : Attrs)
    (hfit : st.fits = []) (hms : st.tr.maps.length = st.tr.steps.length)
    (hnorm : fnorm st.tr.doc.kids = true)
    (hty : (S.nodeType ty).isLeaf = false)
    (hblocks : ∀ v ∈ S.docVisits st.tr.doc f t, S.isTextblockN v.node = true → v.node.isLeaf = false)
    (h : st.setBlockType S f t ty attrs = .ok st') :
    ∃ skip' X', SbtRun S ty attrs (ftoks st.tr.doc.kids) (S.docVisits st.tr.doc f t) 0 [] skip' X' ∧
      ftoks st'.tr.doc.kids = X' ++ (ftoks st.tr.doc.kids).drop skip' := by
  unfold PSt.setBlockType at h
  simp only at h
  split at h
  · simp at h
  · split at h
    · simp at h
    · rename_i st2 skip2 hfold
      split at h
      · simp at h
      · simp only [Except.ok.injEq] at h
        subst h
        have hI : SbtInv (ftoks st.tr.doc.kids) st.tr.steps.length st 0 [] :=
          { toks := by simp
            maps := by
              intro p _
              rw [List.drop_of_length_le (by omega)]
              simp
            fits := hfit
            mf_le := by omega
            skip_le := Nat.zero_le _
            norm := hnorm }
        obtain ⟨X', hr, hI'⟩ := sbt_fold S ty attrs st.tr.steps.length (ftoks st.tr.doc.kids) hty
          (S.docVisits st.tr.doc f t) st 0 [] st2 skip2
          (fun v hv => by
            obtain ⟨h1, h2⟩ := docVisits_window S st.tr.doc f t v hv
            exact ⟨h1, h2 hnorm, hblocks v hv⟩)
          hI hfold
        exact ⟨skip2, X', hr, hI'.toks⟩

/-- the run of `set_block_type` never moves `skip` past the end of the last convertible block -/
theorem sbtRun_skip_le {S : Schema} {ty : TypeId} {attrs : Attrs} {L0 : List Tok} {vs : List NV}
    {skip skip' : Nat} {X X' : List Tok} (h : SbtRun S ty attrs L0 vs skip X skip' X') (B : Nat)
    (hv : ∀ v ∈ vs, S.isTextblockN v.node = true → v.pos + v.node.size ≤ B) (hs : skip ≤ B) :
    skip' ≤ B := by
  induction h with
  | done => exact hs
  | pass v vs _ _ _ _ _ _ ih => exact ih (fun w hw => hv w (by simp [hw])) hs
  | conv v vs _ _ _ _ _ _ htb _ _ _ _ ih =>
    exact ih (fun w hw => hv w (by simp [hw])) (hv v (by simp) htb)

/-- the run of `set_block_type` copies everything in front of the first convertible block -/
theorem sbtRun_prefix {S : Schema} {ty : TypeId} {attrs : Attrs} {L0 : List Tok} {vs : List NV}
    {skip skip' : Nat} {X X' : List Tok} (h : SbtRun S ty attrs L0 vs skip X skip' X') (A : Nat)
    (hv : ∀ v ∈ vs, S.isTextblockN v.node = true → A ≤ v.pos) (hs : skip ≤ A) :
    ∃ R, X' ++ L0.drop skip' = X ++ (L0.drop skip).take (A - skip) ++ R := by
  induction h with
  | done sk X0 =>
    exact ⟨(L0.drop sk).drop (A - sk), by rw [List.append_assoc, List.take_append_drop]⟩
  | pass v vs _ _ _ _ _ _ ih => exact ih (fun w hw => hv w (by simp [hw])) hs
  | conv v vs sk X0 sk' X1 nn hsk htb _ _ _ hrun _ =>
    obtain ⟨Y, hY⟩ := sbtRun_grows hrun
    have hA := hv v (by simp) htb
    have e : (L0.drop sk).take (v.pos - sk) =
        (L0.drop sk).take (A - sk) ++ ((L0.drop sk).drop (A - sk)).take (v.pos - A) := by
      conv => lhs; rw [show v.pos - sk = (A - sk) + (v.pos - A) by omega, List.take_add]
    refine ⟨((L0.drop sk).drop (A - sk)).take (v.pos - A) ++ convToks S ty nn v.node.kids ++ Y ++ L0.drop sk', ?_⟩
    rw [hY, e]
    simp only [List.append_assoc]

/-- **`set_block_type` over a range inside — proved part.**  Hypotheses of `setBlockType_spec` plus
    `hvis`: every textblock that `nodes_between(f, t)` visits lies strictly between the open token (at
    `a`) and the close token (at `b − 1`) of the node occupying `[a, b)`.  Then, whatever type and
    attributes are requested, every token up to and including the open token and from the close token
    on is unchanged.

    Full statement (not proved here): for `a < f ≤ t < b` with `[a, b)` an isolating node that is not
    itself a textblock, `hvis` holds — the visited nodes are the nodes overlapping `[f, t]`, i.e. the
    ancestors of the isolating node (none a textblock, since they contain a block), the node itself,
    and nodes inside its content.  Missing: the laminarity lemma "a visited node's window that overlaps
    `[f, t] ⊆ (a, b − 1)` either contains `[a, b)` or lies inside `(a, b − 1)`" for `nodesBetweenP`.
    `hvis` is decidable and is what the isolating node being a textblock would break: `set_block_type`
    retypes an isolating *textblock* when its parent accepts the new type (`can_change_type` does not
    look at `isolating`). -/
theorem setBlockType_inside_partial (S : Schema) (st st' : PSt) (f t : Nat) (ty : TypeId) (attrs : Attrs)
    (a b : Nat) (hab : a + 1 ≤ b - 1) (hb : b ≤ fsize st.tr.doc.kids)
    (hfit : st.fits = []) (hms : st.tr.maps.length = st.tr.steps.length)
    (hnorm : fnorm st.tr.doc.kids = true)
    (hty : (S.nodeType ty).isLeaf = false)
    (hblocks : ∀ v ∈ S.docVisits st.tr.doc f t, S.isTextblockN v.node = true → v.node.isLeaf = false)
    (hvis : ∀ v ∈ S.docVisits st.tr.doc f t, S.isTextblockN v.node = true →
      a < v.pos ∧ v.pos + v.node.size < b)
    (h : st.setBlockType S f t ty attrs = .ok st') :
    (ftoks st'.tr.doc.kids).take (a + 1) = (ftoks st.tr.doc.kids).take (a + 1) ∧
    (ftoks st'.tr.doc.kids).drop (b - 1 + fsize st'.tr.doc.kids - fsize st.tr.doc.kids) =
      (ftoks st.tr.doc.kids).drop (b - 1) ∧
    fsize st.tr.doc.kids ≤ b - 1 + fsize st'.tr.doc.kids := by
  obtain ⟨skip', X', hrun, hfinal⟩ :=
    setBlockType_run S st st' f t ty attrs hfit hms hnorm hty hblocks h
  have hL : (ftoks st.tr.doc.kids).length = fsize st.tr.doc.kids := ftoks_length _
  have hL' : (ftoks st'.tr.doc.kids).length = fsize st'.tr.doc.kids := ftoks_length _
  generalize ftoks st.tr.doc.kids = L at *
  generalize ftoks st'.tr.doc.kids = L' at *
  have hsk := sbtRun_skip_le hrun (b - 1) (fun v hv htb => by have := hvis v hv htb; omega) (by omega)
  obtain ⟨R, hR⟩ := sbtRun_prefix hrun (a + 1) (fun v hv htb => by have := hvis v hv htb; omega) (by omega)
  simp only [List.drop_zero, Nat.sub_zero, List.nil_append] at hR
  -- the suffix: `L' = X' ++ L[skip' : b-1] ++ L[b-1 :]`
  have hsuf : L' = (X' ++ (L.drop skip').take (b - 1 - skip')) ++ L.drop (b - 1) := by
    rw [hfinal, List.append_assoc]
    congr 1
    have : L.drop (b - 1) = (L.drop skip').drop (b - 1 - skip') := by
      rw [List.drop_drop]; congr 1; omega
    rw [this, List.take_append_drop]
  have hlen := congrArg List.length hsuf
  simp only [List.length_append, List.length_drop] at hlen
  refine ⟨?_, ?_, by omega⟩
  · rw [hfinal, hR, List.take_append_of_le_length (by simp; omega), List.take_take]
    congr 1
    omega
  · have : b - 1 + fsize st'.tr.doc.kids - fsize st.tr.doc.kids =
        (X' ++ (L.drop skip').take (b - 1 - skip')).length := by
      simp only [List.length_append]
      omega
    rw [this]
    conv => lhs; rw [hsuf]
    exact List.drop_left' rfl

/-! ### concrete instances: an isolating node inside a blockquote (the shape of the seeded `block_range` change)

`doc: block+`, `blockquote: block+`, `iso: block+` (isolating), `paragraph: text*`.
* `isoDoc = doc(blockquote(iso(p("a"))))`: the selection `3 … 5` (from inside the paragraph to the end of the
  isolating node's content) and the selection `2 … 5` (the node's whole content) have the block range `(2, 2, 5)` —
  depth `k = 2`, exactly the content window, not the node itself at depth `k − 1 = 1` (which a `<` for `<=` at the end
  boundary answers, and whose lift moves the isolating node out of the blockquote); `lift_target` of that range is
  `None` (the loop stops at the isolating node).  The collapsed selection `2 … 2` has the node itself, `(1, 1, 6)`.
* `isoDoc2 = doc(blockquote(iso(blockquote(p("ab")))))`: the selection `4 … 5` has the block range `(3, 3, 7)`, its
  lift target is `2` — the isolating node, not the outer blockquote —, and the lift step `2 … 8` lies inside `[1, 9)`.
  `can_split(5, depth)` approves depths 1 and 2 (paragraph, inner blockquote) and refuses 3 (the isolating node).
* wrapping the range `(2, 2, 5)` of `isoDoc` in a blockquote: the step covers `2 … 5`.
That approved lifts / wraps / splits of this kind apply: Props/C12.lean (`liftTarget_lift_applies`, …). -/

private def isoNT (name : String) (text inlineContent iso : Bool) (dfa : Array DfaState) : NodeType :=
  { name := name, isText := text, isInline := text, isLeaf := text, isAtom := text, inlineContent := inlineContent,
    isolating := iso, defining := false, code := false, dfa := dfa, markSet := none, attrs := [] }

private def isoBlocks : Array DfaState := #[⟨false, [(1, 1), (2, 1), (3, 1)]⟩, ⟨true, [(1, 1), (2, 1), (3, 1)]⟩]

/-- `doc: block+`, `blockquote: block+`, `iso: block+` (isolating), `paragraph: text*` -/
private def isoSchema : Schema :=
  { nodes := #[isoNT "doc" false false false isoBlocks, isoNT "blockquote" false false false isoBlocks,
      isoNT "iso" false false true isoBlocks, isoNT "paragraph" false true false #[⟨true, [(4, 0)]⟩],
      isoNT "text" true false false #[⟨true, []⟩]],
    marks := #[], top := 0, textTy := 4 }

private def p (s : List Nat) : Node := .elem 3 [] [] [.text s []]
/-- `doc(blockquote(iso(p("a"))))`: the isolating node occupies `[1, 6)`, its content window is `[2, 5]`, depth 2 -/
private def isoDoc : Node := .elem 0 [] [] [.elem 1 [] [] [.elem 2 [] [] [p [97]]]]
/-- `doc(blockquote(iso(blockquote(p("ab")))))`: the isolating node occupies `[1, 9)`, content window `[2, 8]` -/
private def isoDoc2 : Node := .elem 0 [] [] [.elem 1 [] [] [.elem 2 [] [] [.elem 1 [] [] [p [97, 98]]]]]

example : (isoDoc.resolve 3).map (fun r => (r.depth, r.start 2, r.end_ 2, isoSchema.isolating (r.node 2),
    C09.brShrink isoSchema r 3 5)) = some (3, 2, 5, true, 1) := by decide
example : blockRange isoSchema isoDoc 3 5 = .ok (some (2, 2, 5)) := by rfl
example : blockRange isoSchema isoDoc 2 5 = .ok (some (2, 2, 5)) := by rfl
example : blockRange isoSchema isoDoc 2 2 = .ok (some (1, 1, 6)) := by rfl
example : liftTarget isoSchema isoDoc 3 5 2 = some none := by decide
example : blockRange isoSchema isoDoc2 4 5 = .ok (some (3, 3, 7)) := by rfl
example : liftTarget isoSchema isoDoc2 4 5 3 = some (some 2) := by decide
example : liftStep isoDoc2 4 5 3 2 = .ok (.replaceAround 2 8 3 7 ⟨[], 0, 0⟩ 0 true) := by rfl
example : canSplit isoSchema isoDoc2 5 1 = some true ∧ canSplit isoSchema isoDoc2 5 2 = some true ∧
    canSplit isoSchema isoDoc2 5 3 = some false := by decide
example : splitStep isoDoc2 5 2 = .ok (.replace 5 5
    ⟨[.elem 1 [] [] [.elem 3 [] [] []], .elem 1 [] [] [.elem 3 [] [] []]], 2, 2⟩ true) := by rfl
example : findWrappingRange isoSchema isoDoc 3 5 2 1 = some (some [1]) := by decide
example : wrapStep isoSchema isoDoc 3 5 2 [(1, [])] =
    .ok (.replaceAround 2 5 2 5 ⟨[.elem 1 [] [] []], 0, 0⟩ 1 true) := by rfl
/-- the hypotheses of `setNodeMarkup_inside` on `isoDoc` (the isolating node occupies `[1, 6)`): the node at
    position 2 is the paragraph, `1 < 2` and `2 + 3 < 6` -/
example : isoDoc.nodeAt 2 = .ok (some (p [97])) ∧ (p [97]).size = 3 := by
  simp [Node.nodeAt, nodeAtKids, isoDoc, p, Node.kids, Node.size, fsize]

end PM.C18
