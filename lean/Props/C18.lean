/-
  Props/C18.lean — C18: edits made inside an isolating node never reach outside it.
  The range-expansion and fitting heuristics are tied relationally: the Lean monitor `insideNode` is
  evaluated on every step the real replace-family operations emit for ranges inside an isolating node;
  this theorem says what a true monitor implies.  Helpers: Proofs/Respects.lean.
-/
import PM.Monitor
import Proofs.StepToks
import Proofs.Respects
namespace PM.C18
open PM

/-- **a step whose range lies strictly inside the node occupying `[a, b)` changes nothing outside
    that node's content**: every token up to and including the node's open token (with its type,
    attributes and marks) and every token from its close token on are unchanged -/
theorem inside_preserves_outside (S : Schema) (doc doc' : Node) (a b : Nat) (st : Step)
    (hb : b ≤ fsize doc.kids) (hm : insideNode a b st = true)
    (hwf : ∀ f t gf gt sl i c, st = .replaceAround f t gf gt sl i c → sl.wf = true ∧ (i : Int) ≤ sl.size ∧ f ≤ gf ∧ gf ≤ gt ∧ gt ≤ t)
    (h : S.apply st doc = .ok doc') :
    (ftoks doc'.kids).take (a + 1) = (ftoks doc.kids).take (a + 1) ∧
    (ftoks doc'.kids).drop (b - 1 + (fsize doc'.kids) - (fsize doc.kids)) = (ftoks doc.kids).drop (b - 1) ∧
    fsize doc.kids ≤ b - 1 + fsize doc'.kids := by
  have hbl : b ≤ (ftoks doc.kids).length := by rw [ftoks_length]; exact hb
  rw [← ftoks_length doc'.kids, ← ftoks_length doc.kids]
  have node : ∀ pos, a < pos → pos + 1 < b →
      ((∃ m, st = .addNodeMark pos m) ∨ (∃ m, st = .removeNodeMark pos m) ∨ (∃ n v, st = .attr pos n v)) →
      (ftoks doc'.kids).take (a + 1) = (ftoks doc.kids).take (a + 1) ∧
      (ftoks doc'.kids).drop (b - 1 + (ftoks doc'.kids).length - (ftoks doc.kids).length)
        = (ftoks doc.kids).drop (b - 1) ∧
      (ftoks doc.kids).length ≤ b - 1 + (ftoks doc'.kids).length := by
    intro pos h1 h2 hst
    obtain ⟨n, u, attrs, marks, hn, hu, hr, _⟩ := nodeStep_cases S doc doc' pos st hst h
    obtain ⟨_, e, _⟩ := nodeRepl_toks S doc doc' n u pos attrs marks hn hu hr
    exact splice_outside _ [u.headTok] _ pos (pos + 1) a b h1 (by omega) h2 hbl e
  cases st with
  | replace F T sl c =>
    simp only [insideNode, Bool.and_eq_true, decide_eq_true_eq] at hm
    obtain ⟨e, _⟩ := apply_replace_toks S doc doc' F T sl c h
    exact splice_outside _ _ _ F T a b hm.1.1 hm.1.2 hm.2 hbl e
  | replaceAround F T gf gt sl i c =>
    simp only [insideNode, Bool.and_eq_true, decide_eq_true_eq] at hm
    obtain ⟨w1, w2, w3⟩ := hwf F T gf gt sl i c rfl
    obtain ⟨e, _⟩ := apply_replaceAround_toks S doc doc' F T gf gt sl i c w1 w2 w3 h
    refine splice_outside _ (sl.toks.take i ++ ((ftoks doc.kids).drop gf).take (gt - gf) ++ sl.toks.drop i)
      _ F T a b hm.1.1 hm.1.2 hm.2 hbl ?_
    rw [e]; simp only [List.append_assoc]
  | addMark F T m =>
    simp only [insideNode, Bool.and_eq_true, decide_eq_true_eq] at hm
    obtain ⟨e, _⟩ := apply_addMark_toks S doc doc' F T m h
    rw [e]
    refine pointwise_outside _ _ F T a b hm.1 hm.2 (mapIdxCtx_length _ _ _) ?_
    intro j hj
    exact mapIdxCtx_outside _ _ _ F T (fun i p tok hi => by rw [if_neg (fun hc => hi ⟨hc.1, hc.2.1⟩)]) j hj
  | removeMark F T m =>
    simp only [insideNode, Bool.and_eq_true, decide_eq_true_eq] at hm
    obtain ⟨e, _⟩ := apply_removeMark_toks S doc doc' F T m h
    rw [e]
    refine pointwise_outside _ _ F T a b hm.1 hm.2 (mapIdxCtx_length _ _ _) ?_
    intro j hj
    exact mapIdxCtx_outside _ _ _ F T (fun i p tok hi => by rw [if_neg (fun hc => hi ⟨hc.1, hc.2.1⟩)]) j hj
  | addNodeMark p m =>
    simp only [insideNode, Bool.and_eq_true, decide_eq_true_eq] at hm
    exact node p hm.1 hm.2 (.inl ⟨m, rfl⟩)
  | removeNodeMark p m =>
    simp only [insideNode, Bool.and_eq_true, decide_eq_true_eq] at hm
    exact node p hm.1 hm.2 (.inr (.inl ⟨m, rfl⟩))
  | attr p n v =>
    simp only [insideNode, Bool.and_eq_true, decide_eq_true_eq] at hm
    exact node p hm.1 hm.2 (.inr (.inr ⟨n, v, rfl⟩))
  | docAttr n v => simp [insideNode] at hm

/-- **boundary-inclusive form** (what the correspondence run monitors): a step whose range starts
    after the node's open token and ends no later than just after its close token leaves every token
    up to and including the open token, and every token after the node's closing, untouched — the edit
    can rewrite the inside, re-close the node and add content after it, but never removes, splits or
    merges the node or touches what surrounds it -/
theorem within_preserves_outside (S : Schema) (doc doc' : Node) (a b : Nat) (st : Step)
    (hb : b ≤ fsize doc.kids) (hm : withinNode a b st = true)
    (hwf : ∀ f t gf gt sl i c, st = .replaceAround f t gf gt sl i c → sl.wf = true ∧ (i : Int) ≤ sl.size ∧ f ≤ gf ∧ gf ≤ gt ∧ gt ≤ t)
    (h : S.apply st doc = .ok doc') :
    (ftoks doc'.kids).take (a + 1) = (ftoks doc.kids).take (a + 1) ∧
    (ftoks doc'.kids).drop (b + (fsize doc'.kids) - (fsize doc.kids)) = (ftoks doc.kids).drop b ∧
    fsize doc.kids ≤ b + fsize doc'.kids := by
  have hbl : b ≤ (ftoks doc.kids).length := by rw [ftoks_length]; exact hb
  rw [← ftoks_length doc'.kids, ← ftoks_length doc.kids]
  have node : ∀ pos, a < pos → pos + 1 ≤ b →
      ((∃ m, st = .addNodeMark pos m) ∨ (∃ m, st = .removeNodeMark pos m) ∨ (∃ n v, st = .attr pos n v)) →
      (ftoks doc'.kids).take (a + 1) = (ftoks doc.kids).take (a + 1) ∧
      (ftoks doc'.kids).drop (b + (ftoks doc'.kids).length - (ftoks doc.kids).length)
        = (ftoks doc.kids).drop b ∧
      (ftoks doc.kids).length ≤ b + (ftoks doc'.kids).length := by
    intro pos h1 h2 hst
    obtain ⟨n, u, attrs, marks, hn, hu, hr, _⟩ := nodeStep_cases S doc doc' pos st hst h
    obtain ⟨_, e, _⟩ := nodeRepl_toks S doc doc' n u pos attrs marks hn hu hr
    exact splice_outside_le _ [u.headTok] _ pos (pos + 1) a b h1 (by omega) h2 hbl e
  cases st with
  | replace F T sl c =>
    simp only [withinNode, Bool.and_eq_true, decide_eq_true_eq] at hm
    obtain ⟨e, _⟩ := apply_replace_toks S doc doc' F T sl c h
    exact splice_outside_le _ _ _ F T a b hm.1.1 hm.1.2 hm.2 hbl e
  | replaceAround F T gf gt sl i c =>
    simp only [withinNode, Bool.and_eq_true, decide_eq_true_eq] at hm
    obtain ⟨w1, w2, w3⟩ := hwf F T gf gt sl i c rfl
    obtain ⟨e, _⟩ := apply_replaceAround_toks S doc doc' F T gf gt sl i c w1 w2 w3 h
    refine splice_outside_le _ (sl.toks.take i ++ ((ftoks doc.kids).drop gf).take (gt - gf) ++ sl.toks.drop i)
      _ F T a b hm.1.1 hm.1.2 hm.2 hbl ?_
    rw [e]; simp only [List.append_assoc]
  | addMark F T m =>
    simp only [withinNode, Bool.and_eq_true, decide_eq_true_eq] at hm
    obtain ⟨e, _⟩ := apply_addMark_toks S doc doc' F T m h
    rw [e]
    refine pointwise_outside_le _ _ F T a b hm.1 hm.2 (mapIdxCtx_length _ _ _) ?_
    intro j hj
    exact mapIdxCtx_outside _ _ _ F T (fun i p tok hi => by rw [if_neg (fun hc => hi ⟨hc.1, hc.2.1⟩)]) j hj
  | removeMark F T m =>
    simp only [withinNode, Bool.and_eq_true, decide_eq_true_eq] at hm
    obtain ⟨e, _⟩ := apply_removeMark_toks S doc doc' F T m h
    rw [e]
    refine pointwise_outside_le _ _ F T a b hm.1 hm.2 (mapIdxCtx_length _ _ _) ?_
    intro j hj
    exact mapIdxCtx_outside _ _ _ F T (fun i p tok hi => by rw [if_neg (fun hc => hi ⟨hc.1, hc.2.1⟩)]) j hj
  | addNodeMark p m =>
    simp only [withinNode, Bool.and_eq_true, decide_eq_true_eq] at hm
    exact node p hm.1 hm.2 (.inl ⟨m, rfl⟩)
  | removeNodeMark p m =>
    simp only [withinNode, Bool.and_eq_true, decide_eq_true_eq] at hm
    exact node p hm.1 hm.2 (.inr (.inl ⟨m, rfl⟩))
  | attr p n v =>
    simp only [withinNode, Bool.and_eq_true, decide_eq_true_eq] at hm
    exact node p hm.1 hm.2 (.inr (.inr ⟨n, v, rfl⟩))
  | docAttr n v => simp [withinNode] at hm

/-- a pure insertion removes nothing: every old token is still there, in order (the inserted tokens
    sit between `old[:F]` and `old[F:]`) -/
theorem pure_insert_keeps_all (S : Schema) (doc doc' : Node) (a b : Nat) (st : Step)
    (hm : pureInsertOutside a b st = true) (h : S.apply st doc = .ok doc') :
    ∃ F ins, ftoks doc'.kids = (ftoks doc.kids).take F ++ ins ++ (ftoks doc.kids).drop F ∧ (F ≤ a ∨ b ≤ F) := by
  cases st with
  | replace F T sl s =>
    simp only [pureInsertOutside, Bool.and_eq_true, Bool.or_eq_true, decide_eq_true_eq] at hm
    obtain ⟨hFT, hout⟩ := hm
    subst hFT
    exact ⟨F, sl.toks, (apply_replace_toks S doc doc' F F sl s h).1, hout⟩
  | _ => simp [pureInsertOutside] at hm

end PM.C18
