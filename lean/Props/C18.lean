/-
  Props/C18.lean — C18: edits made inside an isolating node never reach outside it.
  The range-expansion and fitting heuristics are tied relationally: the Lean monitor `insideNode` is
  evaluated on every step the real replace-family operations emit for ranges inside an isolating node;
  this theorem says what a true monitor implies.  Helpers: Proofs/Respects.lean.
-/
import PM.Monitor
import Proofs.StepToks
import Proofs.Respects
namespace PM.C18
open PM

/-- **a step whose range lies strictly inside the node occupying `[a, b)` changes nothing outside
    that node's content**: every token up to and including the node's open token (with its type,
    attributes and marks) and every token from its close token on are unchanged -/
theorem inside_preserves_outside (S : Schema) (doc doc' : Node) (a b : Nat) (st : Step)
    (hb : b ≤ fsize doc.kids) (hm : insideNode a b st = true)
    (hwf : ∀ f t gf gt sl i c, st = .replaceAround f t gf gt sl i c → sl.wf = true ∧ (i : Int) ≤ sl.size ∧ f ≤ gf ∧ gf ≤ gt ∧ gt ≤ t)
    (h : S.apply st doc = .ok doc') :
    (ftoks doc'.kids).take (a + 1) = (ftoks doc.kids).take (a + 1) ∧
    (ftoks doc'.kids).drop (b - 1 + (fsize doc'.kids) - (fsize doc.kids)) = (ftoks doc.kids).drop (b - 1) ∧
    fsize doc.kids ≤ b - 1 + fsize doc'.kids := by
  sorry

end PM.C18
