/-
  Props/C12.lean — C12: structure edits keep content intact.
  Split, join, lift and wrap emit structure-flagged steps whose slices carry no content; the Lean
  monitor `isStructuralAt` is evaluated on every step the real operations emit, and these theorems say
  that such a step, when it applies, preserves the sequence of text and leaf nodes exactly and yields
  a valid document.  That an *approved* edit then succeeds is decided by correspondence and search
  (with the open finding for lifting out of nested lists, DESIGN.md).  Helpers: Proofs/Respects.lean.
-/
import PM.Monitor
import Proofs.StepToks
import Proofs.Respects
import Props.C01
namespace PM.C12
open PM

/-- what the structure flag's guard establishes: `content_between` answers "no" only when every token
    in the range is an open or close token (a range starting inside a text node always has content) -/
theorem contentBetween_structural (doc : Node) (f t : Nat) (hft : f ≤ t) (ht : t ≤ fsize doc.kids)
    (h : contentBetween doc f t = some false) :
    structuralOnly (((ftoks doc.kids).drop f).take (t - f)) = true := by
  -- (`ht` is not needed: past the end of the document `content_between` answers "yes")
  have _ := ht
  exact contentBetween_structural' doc f t hft h

/-- **a structure-only step that applies preserves the text and leaf nodes exactly** (marks and
    attributes included, in order) -/
theorem structural_keeps_content (S : Schema) (doc doc' : Node) (st : Step)
    (hm : isStructuralAt doc st = true) (hwf : ∀ f t gf gt sl i b, st = .replaceAround f t gf gt sl i b → sl.wf = true ∧ (i : Int) ≤ sl.size)
    (h : S.apply st doc = .ok doc') :
    (ftoks doc'.kids).filter Tok.isContent = (ftoks doc.kids).filter Tok.isContent := by
  cases st with
  | replace f t sl c =>
    simp only [isStructuralAt, isStructural, Bool.and_eq_true, decide_eq_true_eq] at hm
    obtain ⟨⟨hc, hsl⟩, hft⟩ := hm
    subst hc
    obtain ⟨e, _, ht, _⟩ := apply_replace_toks S doc doc' f t sl true h
    have hcb : contentBetween doc f t = some false := by
      unfold Schema.apply at h
      simp only [if_true] at h
      split at h
      · simp at h
      · simp at h
      · assumption
    have hs := contentBetween_structural doc f t hft ht hcb
    rw [structuralOnly_iff] at hs hsl
    rw [sliceToks'_eq] at hsl
    have e0 : ftoks doc.kids = (ftoks doc.kids).take f ++ (((ftoks doc.kids).drop f).take (t - f)
        ++ (ftoks doc.kids).drop t) := by
      rw [← drop_split _ f t hft, List.take_append_drop]
    conv => rhs; rw [e0]
    rw [e]
    simp only [List.filter_append, hs, hsl, List.append_nil, List.nil_append]
  | replaceAround f t gf gt sl i c =>
    simp only [isStructuralAt, isStructural, Bool.and_eq_true, decide_eq_true_eq] at hm
    obtain ⟨⟨hc, hsl⟩, ⟨hfg, hgg⟩, hgt⟩ := hm
    subst hc
    obtain ⟨w1, w2⟩ := hwf f t gf gt sl i true rfl
    obtain ⟨e, ht, _⟩ := apply_replaceAround_toks S doc doc' f t gf gt sl i true w1 w2 ⟨hfg, hgg, hgt⟩ h
    have hcb : contentBetween doc f gf = some false ∧ contentBetween doc gt t = some false := by
      unfold Schema.apply at h
      simp only [if_true] at h
      cases h1 : contentBetween doc f gf with
      | none => simp [h1] at h
      | some b1 =>
        cases b1 with
        | true => simp [h1] at h
        | false =>
          cases h2 : contentBetween doc gt t with
          | none => simp [h1, h2] at h
          | some b2 =>
            cases b2 with
            | true => simp [h1, h2] at h
            | false => exact ⟨rfl, rfl⟩
    have hs1 := contentBetween_structural doc f gf hfg (by omega) hcb.1
    have hs2 := contentBetween_structural doc gt t hgt ht hcb.2
    rw [structuralOnly_iff] at hs1 hs2 hsl
    rw [sliceToks'_eq] at hsl
    have hsl' := hsl
    rw [← List.take_append_drop i sl.toks, List.filter_append, List.append_eq_nil_iff] at hsl'
    have e0 : ftoks doc.kids = (ftoks doc.kids).take f ++ (((ftoks doc.kids).drop f).take (gf - f)
        ++ (((ftoks doc.kids).drop gf).take (gt - gf) ++ (((ftoks doc.kids).drop gt).take (t - gt)
        ++ (ftoks doc.kids).drop t))) := by
      rw [← drop_split _ gt t hgt, ← drop_split _ gf gt hgg, ← drop_split _ f gf hfg, List.take_append_drop]
    conv => rhs; rw [e0]
    rw [e]
    simp only [List.filter_append, hs1, hs2, hsl'.1, hsl'.2, List.nil_append, List.append_assoc]
  | addMark => simp [isStructuralAt, isStructural] at hm
  | removeMark => simp [isStructuralAt, isStructural] at hm
  | addNodeMark => simp [isStructuralAt, isStructural] at hm
  | removeNodeMark => simp [isStructuralAt, isStructural] at hm
  | attr => simp [isStructuralAt, isStructural] at hm
  | docAttr => simp [isStructuralAt, isStructural] at hm

/-- … and is valid whenever its payload is (C01) -/
theorem structural_valid (S : Schema) (doc doc' : Node) (st : Step) (hd : C01.Valid S doc)
    (hp : C01.PayloadValid S doc st) (h : S.apply st doc = .ok doc') : C01.Valid S doc' :=
  C01.apply_valid S st doc doc' hd hp h

end PM.C12
