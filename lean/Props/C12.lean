/-
  Props/C12.lean — C12: structure edits keep content intact.
  Split, join, lift and wrap emit structure-flagged steps whose slices carry no content; the Lean
  monitor `isStructuralAt` is evaluated on every step the real operations emit, and these theorems say
  that such a step, when it applies, preserves the sequence of text and leaf nodes exactly and yields
  a valid document.  That an *approved* edit then succeeds is decided by correspondence and search
  (with the open finding for lifting out of nested lists, DESIGN.md).  Helpers: Proofs/Respects.lean.
-/
import PM.Monitor
import Proofs.StepToks
import Proofs.Respects
import Props.C01
namespace PM.C12
open PM

/-- what the structure flag's guard establishes: from a node boundary, `content_between` answers
    "no" exactly when every token in the range is an open or close token -/
theorem contentBetween_structural (doc : Node) (f t : Nat) (hft : f ≤ t) (ht : t ≤ fsize doc.kids)
    (hb : atBoundary doc f = true) (h : contentBetween doc f t = some false) :
    structuralOnly (((ftoks doc.kids).drop f).take (t - f)) = true := by
  sorry

/-- **a structure-only step that applies preserves the text and leaf nodes exactly** (marks and
    attributes included, in order) -/
theorem structural_keeps_content (S : Schema) (doc doc' : Node) (st : Step)
    (hm : isStructuralAt doc st = true) (hwf : ∀ f t gf gt sl i b, st = .replaceAround f t gf gt sl i b → sl.wf = true ∧ (i : Int) ≤ sl.size)
    (h : S.apply st doc = .ok doc') :
    (ftoks doc'.kids).filter Tok.isContent = (ftoks doc.kids).filter Tok.isContent := by
  sorry

/-- … and is valid whenever its payload is (C01) -/
theorem structural_valid (S : Schema) (doc doc' : Node) (st : Step) (hd : C01.Valid S doc)
    (hp : C01.PayloadValid S doc st) (h : S.apply st doc = .ok doc') : C01.Valid S doc' :=
  C01.apply_valid S st doc doc' hd hp h

end PM.C12
