/-
  Props/C12.lean — C12: structure helpers approve only edits that keep content intact; they return
  in-range results and never raise on in-range input.

  * `structural_keeps_content`: a step that satisfies the monitor `isStructuralAt` and applies preserves
    the sequence of text and leaf nodes exactly (and is valid whenever its payload is, C01).
  * builders (PM/StructEdit.lean, tied exactly to the steps the real `Transform` records):
    `join/split/lift/wrap_structural` — the built step meets the static requirements (`StructuralStep`);
    `join/split/lift/wrap_keeps_content` — so if it applies, text and leaf nodes are exactly preserved.
  * helpers (PM/Structure.lean, PM/Structure2.lean, tied exactly at every probed position):
    `joinPoint/insertPoint/dropPoint/liftTarget_in_range`, and `…_never_raises` for `can_join`,
    `join_point`, `insert_point`, `drop_point`, `lift_target`, `can_split`, `can_change_type`,
    `find_wrapping` on valid documents, each with its exact guard.
  * **an approved edit then succeeds** (valid normal-form document; each with its explicit decidable guard, the
    unguarded statement being false for model and code alike — counterexamples next to each theorem):
    `canSplit_split_applies` (`splitGuard`: a cut strictly inside a text child leaves a left half the parent accepts),
    `canJoin_join_applies` (`joinGuard`: `check_join`'s `compatible_content`; `TextStable`),
    `liftTarget_lift_applies_flat` / `liftTarget_lift_applies` (`liftFlatGuard`: nothing is split; `liftGuard`: the pieces
    a splitting lift leaves behind and the target level with the copies in place are valid content; `TextStable`),
    `findWrapping_wrap_applies` / `findWrapping_wrap_succeeds` (`wrapGuard`: the innermost wrapper allows the marks of the
    run; `wrapBuilds`: every wrapper accepts the next one as its only child).  Each yields a schema-valid document (C01)
    that keeps the text and leaf nodes.  Helpers: Proofs/Level.lean, LevelReplace.lean, ContentBetween.lean,
    SplitSuccess.lean, JoinSuccess.lean, LiftSuccess.lean, LiftSplit.lean, WrapSuccess.lean.
  * **an approved insertion succeeds** (`insert_point`, `drop_point`, `join_point`; section INSERT below):
    `insertPoint_insert_applies` (`insertGuard`: `insideTextGuard` — the answer is a child boundary, or inside a text child
    whose parent accepts `text n text` — and the parent allows the node's marks;
    `TextStable`): `tr.insert(p, n)` plans `ReplaceStep(p, p, Slice([n], 0, 0))` (`fits_trivially`), the step applies, the
    result is valid; `dropPoint_drop_applies_closed` (closed slice answered by the first pass, `dropGuard`, `TextStable`):
    the same for `tr.replace(p, p, slice)`; `dropPoint_drop_applies_partial` (open slices / second pass: through the Fitter,
    only validity of an applied step); `joinPoint_canJoin` (a join point is a position `can_join` approves, `dir ≠ 0`) and
    `joinPoint_join_applies`; `dropPoint_pass2_through_fitter` (an answer of `drop_point`'s second pass never fits
    trivially: the edit is the Fitter's); `insertPoint_insert_succeeds_marked_partial` (a node with marks the parent does
    not allow: the Fitter inserts it with those marks dropped — proved for that answer of the Fitter);
    `insertGuard_of_text` / `insertPoint_insert_text_applies` (for a text node the inside-text guard follows from the
    approval: typing succeeds at every insert point); `insertPoint_marked_through_fitter`; `insertPoint_insert_marked_top` (at a top-level insert point the
    Fitter's run is evaluated exactly, Proofs/FitTopLevel.lean: the node goes in with the disallowed marks dropped);
    `canChangeType_setNodeMarkup_applies` / `…_leaf_applies` (`changeTypeGuard`: the new type accepts the node's children —
    `can_change_type` does not look — and the parent allows the new marks).  Counterexamples
    `insertPoint_needs_guard_marks/_text`, `dropPoint_needs_guard`, `joinPoint_needs_guard`, `canChangeType_needs_guard`.
    Helpers: Proofs/InsertSuccess.lean, ResolveBoundary.lean, JoinPointSuccess.lean, RetypeSuccess.lean;
    guards in PM/InsertGuard.lean; tie: Driver/ExtIns.lean.
  Helpers: Proofs/Respects.lean, Proofs/StructEdit.lean, Proofs/Structure2.lean.
-/
import PM.Monitor
import Proofs.StepToks
import Proofs.Respects
import Props.C01
import Proofs.StructEdit
import Proofs.Structure2
import Props.C18
import Proofs.SplitSuccess
import Proofs.JoinSuccess
import Proofs.WrapSuccess
import Proofs.LiftSuccess
import Proofs.LiftSplit
import Proofs.InsertSuccess
import Proofs.JoinPointSuccess
import Proofs.RetypeSuccess
import Proofs.FitTopLevel
namespace PM.C12
open PM

/-- what the structure flag's guard establishes: `content_between` answers "no" only when every token
    in the range is an open or close token (a range starting inside a text node always has content) -/
theorem contentBetween_structural (doc : Node) (f t : Nat) (hft : f ≤ t) (ht : t ≤ fsize doc.kids)
    (h : contentBetween doc f t = some false) :
    structuralOnly (((ftoks doc.kids).drop f).take (t - f)) = true := by
  -- (`ht` is not needed: past the end of the document `content_between` answers "yes")
  have _ := ht
  exact contentBetween_structural' doc f t hft h

/-- **a structure-only step that applies preserves the text and leaf nodes exactly** (marks and
    attributes included, in order) -/
theorem structural_keeps_content (S : Schema) (doc doc' : Node) (st : Step)
    (hm : isStructuralAt doc st = true) (hwf : ∀ f t gf gt sl i b, st = .replaceAround f t gf gt sl i b → sl.wf = true ∧ (i : Int) ≤ sl.size)
    (h : S.apply st doc = .ok doc') :
    (ftoks doc'.kids).filter Tok.isContent = (ftoks doc.kids).filter Tok.isContent := by
  cases st with
  | replace f t sl c =>
    simp only [isStructuralAt, isStructural, Bool.and_eq_true, decide_eq_true_eq] at hm
    obtain ⟨⟨hc, hsl⟩, hft⟩ := hm
    subst hc
    obtain ⟨e, _, ht, _⟩ := apply_replace_toks S doc doc' f t sl true h
    have hcb : contentBetween doc f t = some false := by
      unfold Schema.apply at h
      simp only [if_true] at h
      split at h
      · simp at h
      · simp at h
      · assumption
    have hs := contentBetween_structural doc f t hft ht hcb
    rw [structuralOnly_iff] at hs hsl
    rw [sliceToks'_eq] at hsl
    have e0 : ftoks doc.kids = (ftoks doc.kids).take f ++ (((ftoks doc.kids).drop f).take (t - f)
        ++ (ftoks doc.kids).drop t) := by
      rw [← drop_split _ f t hft, List.take_append_drop]
    conv => rhs; rw [e0]
    rw [e]
    simp only [List.filter_append, hs, hsl, List.append_nil, List.nil_append]
  | replaceAround f t gf gt sl i c =>
    simp only [isStructuralAt, isStructural, Bool.and_eq_true, decide_eq_true_eq] at hm
    obtain ⟨⟨hc, hsl⟩, ⟨hfg, hgg⟩, hgt⟩ := hm
    subst hc
    obtain ⟨w1, w2⟩ := hwf f t gf gt sl i true rfl
    obtain ⟨e, ht, _⟩ := apply_replaceAround_toks S doc doc' f t gf gt sl i true w1 w2 ⟨hfg, hgg, hgt⟩ h
    have hcb : contentBetween doc f gf = some false ∧ contentBetween doc gt t = some false := by
      unfold Schema.apply at h
      simp only [if_true] at h
      cases h1 : contentBetween doc f gf with
      | none => simp [h1] at h
      | some b1 =>
        cases b1 with
        | true => simp [h1] at h
        | false =>
          cases h2 : contentBetween doc gt t with
          | none => simp [h1, h2] at h
          | some b2 =>
            cases b2 with
            | true => simp [h1, h2] at h
            | false => exact ⟨rfl, rfl⟩
    have hs1 := contentBetween_structural doc f gf hfg (by omega) hcb.1
    have hs2 := contentBetween_structural doc gt t hgt ht hcb.2
    rw [structuralOnly_iff] at hs1 hs2 hsl
    rw [sliceToks'_eq] at hsl
    have hsl' := hsl
    rw [← List.take_append_drop i sl.toks, List.filter_append, List.append_eq_nil_iff] at hsl'
    have e0 : ftoks doc.kids = (ftoks doc.kids).take f ++ (((ftoks doc.kids).drop f).take (gf - f)
        ++ (((ftoks doc.kids).drop gf).take (gt - gf) ++ (((ftoks doc.kids).drop gt).take (t - gt)
        ++ (ftoks doc.kids).drop t))) := by
      rw [← drop_split _ gt t hgt, ← drop_split _ gf gt hgg, ← drop_split _ f gf hfg, List.take_append_drop]
    conv => rhs; rw [e0]
    rw [e]
    simp only [List.filter_append, hs1, hs2, hsl'.1, hsl'.2, List.nil_append, List.append_assoc]
  | addMark => simp [isStructuralAt, isStructural] at hm
  | removeMark => simp [isStructuralAt, isStructural] at hm
  | addNodeMark => simp [isStructuralAt, isStructural] at hm
  | removeNodeMark => simp [isStructuralAt, isStructural] at hm
  | attr => simp [isStructuralAt, isStructural] at hm
  | docAttr => simp [isStructuralAt, isStructural] at hm

/-- … and is valid whenever its payload is (C01) -/
theorem structural_valid (S : Schema) (doc doc' : Node) (st : Step) (hd : C01.Valid S doc)
    (hp : C01.PayloadValid S doc st) (h : S.apply st doc = .ok doc') : C01.Valid S doc' :=
  C01.apply_valid S st doc doc' hd hp h

/-! ### the four builders (PM/StructEdit.lean) emit structure-only steps -/

/-- the static requirements of `structural_keeps_content` on a step: structure flag set, slice made of
    open/close tokens only, positions ordered (`isStructuralAt`, which does not look at the document),
    and for a replace-around step a well-formed slice with `insert ≤ size` -/
def StructuralStep (st : Step) : Prop :=
  (∀ doc, isStructuralAt doc st = true) ∧
  ∀ f t gf gt sl i b, st = .replaceAround f t gf gt sl i b → sl.wf = true ∧ (i : Int) ≤ sl.size

/-- the document-dependent part of the structure guard (`content_between` finds nothing in the replaced
    ranges) is implied by "the step applies": `structural_keeps_content` needs nothing else -/
theorem structuralStep_keeps_content (S : Schema) (doc doc' : Node) (st : Step) (hs : StructuralStep st)
    (h : S.apply st doc = .ok doc') :
    (ftoks doc'.kids).filter Tok.isContent = (ftoks doc.kids).filter Tok.isContent :=
  structural_keeps_content S doc doc' st (hs.1 doc) hs.2 h

/-- **join** builds a structure-only step -/
theorem join_structural (pos depth : Nat) (st : Step) (h : joinStep pos depth = .ok st) :
    StructuralStep st := by
  unfold joinStep at h
  split at h
  · simp at h
  · simp only [Except.ok.injEq] at h
    subst h
    refine ⟨fun doc => ?_, fun f t gf gt sl i b e => by simp at e⟩
    simp only [isStructuralAt, isStructural, sliceToks'_empty, structuralOnly, List.all_nil, Bool.and_self,
      Bool.true_and, decide_eq_true_eq]
    omega

/-- **split** builds a structure-only step (two copies of the nest of ancestors, open by `depth` on both
    sides); the slice is well-formed -/
theorem split_structural (doc : Node) (pos depth : Nat) (st : Step) (hdoc : doc.isLeaf = false)
    (h : splitStep doc pos depth = .ok st) :
    StructuralStep st ∧ ∃ sl, st = .replace pos pos sl true ∧ sl.wf = true ∧ sl.size = 2 * (depth : Int) := by
  unfold splitStep at h
  cases hr : doc.resolve pos with
  | none => simp [hr] at h
  | some r =>
    simp only [hr] at h
    cases hn : splitNodes r depth with
    | none => simp [hn] at h
    | some nodes =>
      simp only [hn, Except.ok.injEq] at h
      subst h
      obtain ⟨hlen, hel⟩ := splitNodesFrom_spec hr hdoc depth _ nodes hn
      have N := nestOut_nest nodes hel
      rw [hlen] at N
      refine ⟨⟨fun d => ?_, fun f t gf gt sl i b e => by simp at e⟩, _, rfl, nests_wf N N, ?_⟩
      · simp only [isStructuralAt, isStructural, sliceToks'_nests N N, Bool.and_self, Bool.true_and,
          decide_eq_true_eq]
        exact Nat.le_refl _
      · rw [nests_size N N]; omega

/-- **lift** builds a structure-only replace-around step: `before` and `after` are nests of empty copies
    of the ancestors that have to be split, the gap is the range, `insert` lies between them.
    (`a ≤ b`: the range's `from` is not after its `to`, as for every `NodeRange` of `block_range`.) -/
theorem lift_structural (doc : Node) (a b depth target : Nat) (st : Step) (hab : a ≤ b)
    (h : liftStep doc a b depth target = .ok st) : StructuralStep st := by
  unfold liftStep at h
  cases hf : doc.resolve a with
  | none => simp [hf] at h
  | some f =>
    cases ht : doc.resolve b with
    | none => simp [hf, ht] at h
    | some t =>
      simp only [hf, ht] at h
      unfold liftStepR at h
      cases hb : f.before (depth + 1) with
      | none => simp [hb] at h
      | some gs =>
        cases hafter : t.after (depth + 1) with
        | none => simp [hb, hafter] at h
        | some ge =>
          simp only [hb, hafter] at h
          have Rf := resolve_resolved hf
          have Rt := resolve_resolved ht
          have h1 := Rf.before_le depth gs hb
          have h2 := Rt.le_after depth ge hafter
          have hdf : depth ≤ f.depth := by
            unfold RPos.before at hb
            simp only [Nat.add_eq_zero_iff, Nat.succ_ne_self, and_false, if_false] at hb
            split at hb
            · omega
            · split at hb
              · omega
              · simp at hb
          have hdt : depth ≤ t.depth := by
            unfold RPos.after at hafter
            simp only [Nat.add_eq_zero_iff, Nat.succ_ne_self, and_false, if_false] at hafter
            split at hafter
            · omega
            · split at hafter
              · omega
              · simp at hafter
          have NL := liftSide_nest f.node (fun d => decide (0 < f.index d)) target (depth - target) [] 0 0 false
            (fun d h1 h2 => by
              obtain ⟨k, rfl⟩ : ∃ k, d = k + 1 := ⟨d - 1, by omega⟩
              obtain ⟨ty, at_, m, kids, e⟩ := resolve_node_elem hf k (by omega)
              rw [e]; rfl) .nil
          have NR := liftSide_nest t.node (fun d => decide (t.afterT (d + 1) < t.end_ d)) target
            (depth - target) [] 0 0 false
            (fun d h1 h2 => by
              obtain ⟨k, rfl⟩ : ∃ k, d = k + 1 := ⟨d - 1, by omega⟩
              obtain ⟨ty, at_, m, kids, e⟩ := resolve_node_elem ht k (by omega)
              rw [e]; rfl) .nil
          generalize liftSide f.node (fun d => decide (0 < f.index d)) target (depth - target) [] 0 0 false = L at h NL
          generalize liftSide t.node (fun d => decide (t.afterT (d + 1) < t.end_ d)) target
            (depth - target) [] 0 0 false = R at h NR
          obtain ⟨before, os, ml⟩ := L
          obtain ⟨after, oe, mr⟩ := R
          simp only [Except.ok.injEq] at h
          subst h
          simp only at NL NR
          refine ⟨fun d => ?_, fun f' t' gf gt sl i b' e => ?_⟩
          · simp only [isStructuralAt, isStructural, sliceToks'_nests NL NR, Bool.and_self, Bool.true_and,
              Bool.and_eq_true, decide_eq_true_eq]
            omega
          · simp only [Step.replaceAround.injEq] at e
            obtain ⟨_, _, _, _, rfl, rfl, _⟩ := e
            refine ⟨nests_wf NL NR, ?_⟩
            rw [nests_size NL NR, NL.fsize]
            omega

/-- **wrap** builds a structure-only replace-around step: the slice is the nest of the (non-leaf)
    wrappers, closed on both sides, the range sits in its innermost node -/
theorem wrap_structural (S : Schema) (doc : Node) (a b depth : Nat) (ws : List (TypeId × Attrs)) (st : Step)
    (hab : a ≤ b) (hl : ∀ w ∈ ws, (S.nodeType w.1).isLeaf = false)
    (h : wrapStep S doc a b depth ws = .ok st) : StructuralStep st := by
  unfold wrapStep at h
  cases hf : doc.resolve a with
  | none => simp [hf] at h
  | some f =>
    cases ht : doc.resolve b with
    | none => simp [hf, ht] at h
    | some t =>
      simp only [hf, ht] at h
      unfold wrapStepR at h
      cases hc : wrapContent S ws with
      | error e => simp [hc] at h
      | ok content =>
        cases hb : f.before (depth + 1) with
        | none => simp [hc, hb] at h
        | some gs =>
          cases hafter : t.after (depth + 1) with
          | none => simp [hc, hb, hafter] at h
          | some ge =>
            simp only [hc, hb, hafter, Except.ok.injEq] at h
            subst h
            have h1 := (resolve_resolved hf).before_le depth gs hb
            have h2 := (resolve_resolved ht).le_after depth ge hafter
            have N := wrapContent_nest S ws content hl hc
            have e0 : content = fappend content [] := by simp [fappend]
            refine ⟨fun d => ?_, fun f' t' gf gt sl i b' e => ?_⟩
            · have hs : structuralOnly (sliceToks' ⟨content, 0, 0⟩) = true := by
                rw [e0]; exact sliceToks'_nests N .nil 0 0
              simp only [isStructuralAt, isStructural, hs, Bool.and_self, Bool.true_and,
                Bool.and_eq_true, decide_eq_true_eq]
              omega
            · simp only [Step.replaceAround.injEq] at e
              obtain ⟨_, _, _, _, rfl, rfl, _⟩ := e
              simp only [Slice.wf, Slice.size, N.fsize, Nat.zero_le, decide_true, Bool.and_self, true_and]
              omega

/-! ### corollaries: if the built step applies, the text and leaf nodes are exactly preserved -/

theorem join_keeps_content (S : Schema) (doc doc' : Node) (pos depth : Nat) (st : Step)
    (hb : joinStep pos depth = .ok st) (h : S.apply st doc = .ok doc') :
    (ftoks doc'.kids).filter Tok.isContent = (ftoks doc.kids).filter Tok.isContent :=
  structuralStep_keeps_content S doc doc' st (join_structural pos depth st hb) h

/-- a replace step only applies to an element node -/
theorem apply_replace_doc_elem (S : Schema) (doc doc' : Node) (f t : Nat) (sl : Slice) (b : Bool)
    (h : S.apply (.replace f t sl b) doc = .ok doc') : doc.isLeaf = false := by
  cases doc with
  | elem => rfl
  | text s m =>
    exfalso
    unfold Schema.apply at h
    simp only [Schema.fromReplace, Schema.replace] at h
    repeat' split at h
    all_goals simp at h
  | leaf ty a m =>
    exfalso
    unfold Schema.apply at h
    simp only [Schema.fromReplace, Schema.replace] at h
    repeat' split at h
    all_goals simp at h

theorem split_keeps_content (S : Schema) (doc doc' : Node) (pos depth : Nat) (st : Step)
    (hb : splitStep doc pos depth = .ok st) (h : S.apply st doc = .ok doc') :
    (ftoks doc'.kids).filter Tok.isContent = (ftoks doc.kids).filter Tok.isContent := by
  have hdoc : doc.isLeaf = false := by
    have hb' := hb
    unfold splitStep at hb'
    cases hr : doc.resolve pos with
    | none => simp [hr] at hb'
    | some r =>
      cases hn : splitNodes r depth with
      | none => simp [hr, hn] at hb'
      | some nodes =>
        simp only [hr, hn, Except.ok.injEq] at hb'
        subst hb'
        exact apply_replace_doc_elem S doc doc' _ _ _ _ h
  exact structuralStep_keeps_content S doc doc' st (split_structural doc pos depth st hdoc hb).1 h

theorem lift_keeps_content (S : Schema) (doc doc' : Node) (a b depth target : Nat) (st : Step) (hab : a ≤ b)
    (hb : liftStep doc a b depth target = .ok st) (h : S.apply st doc = .ok doc') :
    (ftoks doc'.kids).filter Tok.isContent = (ftoks doc.kids).filter Tok.isContent :=
  structuralStep_keeps_content S doc doc' st (lift_structural doc a b depth target st hab hb) h

theorem wrap_keeps_content (S : Schema) (doc doc' : Node) (a b depth : Nat) (ws : List (TypeId × Attrs))
    (st : Step) (hab : a ≤ b) (hl : ∀ w ∈ ws, (S.nodeType w.1).isLeaf = false)
    (hb : wrapStep S doc a b depth ws = .ok st) (h : S.apply st doc = .ok doc') :
    (ftoks doc'.kids).filter Tok.isContent = (ftoks doc.kids).filter Tok.isContent :=
  structuralStep_keeps_content S doc doc' st (wrap_structural S doc a b depth ws st hab hl hb) h

/-! ### the helpers (PM/Structure.lean, PM/Structure2.lean) return in-range results -/

/-- a join point lies in the document -/
theorem joinPoint_in_range (S : Schema) (doc : Node) (pos : Nat) (dir : Int) (p : Nat)
    (h : joinPoint S doc pos dir = some (some p)) : p ≤ fsize doc.kids := by
  unfold joinPoint at h
  cases hr : doc.resolve pos with
  | none => simp [hr] at h
  | some r =>
    simp only [hr] at h
    have R := resolve_resolved hr
    exact joinPointLoop_le S R dir r.depth pos p R.le h

/-- an insert point lies in the document -/
theorem insertPoint_in_range (S : Schema) (doc : Node) (pos : Nat) (ty : TypeId) (p : Nat)
    (h : insertPoint S doc pos ty = some (some p)) : p ≤ fsize doc.kids := by
  unfold insertPoint at h
  cases hr : doc.resolve pos with
  | none => simp [hr] at h
  | some r =>
    simp only [hr] at h
    have R := resolve_resolved hr
    unfold insertPointR at h
    split at h
    · simp at h
    · simp only [Option.some.injEq] at h
      rw [← h, R.pos_eq]; exact R.le
    · simp only at h
      split at h
      · simp at h
      · rename_i res hfirst
        simp only [Option.some.injEq] at h
        subst h
        split at hfirst
        · exact insertLoopStart_le S R ty r.depth p hfirst
        · simp at hfirst
      · split at h
        · split at h
          · simp at h
          · rename_i res hend
            simp only [Option.some.injEq] at h
            subst h
            exact insertLoopEnd_le S R ty r.depth p hend
          · simp at h
        · simp at h

/-- a drop point lies in the document -/
theorem dropPoint_in_range (S : Schema) (doc : Node) (pos : Nat) (sl : Slice) (p : Nat)
    (h : dropPoint S doc pos sl = some (some p)) : p ≤ fsize doc.kids := by
  unfold dropPoint at h
  cases hr : doc.resolve pos with
  | none => simp [hr] at h
  | some r =>
    simp only [hr] at h
    have R := resolve_resolved hr
    unfold dropPointR at h
    split at h
    · simp only [Option.some.injEq] at h
      rw [← h, R.pos_eq]; exact R.le
    · split at h
      · simp at h
      · rename_i content _
        split at h
        · simp at h
        · rename_i p' hp'
          simp only [Option.some.injEq] at h
          subst h
          exact dropLoop_le S R content false _ _ hp'
        · split at h
          · exact dropLoop_le S R content true _ _ h
          · simp at h

/-- a lift target is a depth strictly above the range's depth, which is a depth of both ends -/
theorem liftTarget_in_range (S : Schema) (doc : Node) (f t depth d : Nat) (rf rt : RPos)
    (hf : doc.resolve f = some rf) (ht : doc.resolve t = some rt)
    (h : liftTarget S doc f t depth = some (some d)) : d < depth ∧ depth ≤ rf.depth ∧ depth ≤ rt.depth := by
  obtain ⟨h1, h2, h3, _⟩ := C18.liftTarget_not_across_isolating S doc f t depth d rf rt hf ht h
  exact ⟨h1, h2, h3⟩

/-! ### the helpers never raise on in-range input of a valid document -/

/-- the position does not fall between the two halves of a surrogate pair (Python cannot cut a `str`
    there: `node_before` / `node_after` raise `UnicodeDecodeError`) -/
def pairAligned (doc : Node) (pos : Nat) : Bool :=
  match doc.resolve pos with
  | some r => r.pairOk
  | none => true

/-- `can_join` answers (`None`, `True` or `False`) at every pair-aligned position of a valid document -/
theorem canJoin_never_raises (S : Schema) (doc : Node) (pos : Nat) (hv : C01.Valid S doc)
    (hpos : pos ≤ fsize doc.kids) (hal : pairAligned doc pos = true) : canJoin S doc pos ≠ none := by
  obtain ⟨r, hr⟩ := resolve_isSome doc pos hpos
  obtain ⟨v, h⟩ := canJoinR_isSome S (resolve_resolved hr) hv (by simpa [pairAligned, hr] using hal)
  simp [canJoin, hr, h]

theorem joinPoint_never_raises (S : Schema) (doc : Node) (pos : Nat) (dir : Int) (hv : C01.Valid S doc)
    (hpos : pos ≤ fsize doc.kids) (hal : pairAligned doc pos = true) : joinPoint S doc pos dir ≠ none := by
  obtain ⟨r, hr⟩ := resolve_isSome doc pos hpos
  obtain ⟨v, h⟩ := joinPointLoop_isSome S (resolve_resolved hr) hv (by simpa [pairAligned, hr] using hal)
    dir r.depth pos (Nat.le_refl _)
  simp [joinPoint, hr, h]

theorem insertPoint_never_raises (S : Schema) (doc : Node) (pos : Nat) (ty : TypeId) (hv : C01.Valid S doc)
    (hpos : pos ≤ fsize doc.kids) : insertPoint S doc pos ty ≠ none := by
  obtain ⟨r, hr⟩ := resolve_isSome doc pos hpos
  obtain ⟨v, h⟩ := insertPointR_isSome S (resolve_resolved hr) hv ty
  simp [insertPoint, hr, h]

/-- `drop_point` needs the slice's `open_start` to be backed by its content (the `assert` on `first_child`) -/
theorem dropPoint_never_raises (S : Schema) (doc : Node) (pos : Nat) (sl : Slice) (hv : C01.Valid S doc)
    (hpos : pos ≤ fsize doc.kids) (hopen : sl.openStart ≤ spineL sl.content) : dropPoint S doc pos sl ≠ none := by
  obtain ⟨r, hr⟩ := resolve_isSome doc pos hpos
  obtain ⟨v, h⟩ := dropPointR_isSome S (resolve_resolved hr) hv sl hopen
  simp [dropPoint, hr, h]

/-- `lift_target` on a range whose depth is a depth of both ends -/
theorem liftTarget_never_raises (S : Schema) (doc : Node) (f t depth : Nat) (rf rt : RPos) (hv : C01.Valid S doc)
    (hf : doc.resolve f = some rf) (ht : doc.resolve t = some rt) (hdf : depth ≤ rf.depth) (hdt : depth ≤ rt.depth) :
    liftTarget S doc f t depth ≠ none := by
  obtain ⟨v, h⟩ := liftLoop_isSome S (resolve_resolved hf) hv rt depth
    (cutByIndex (rf.node depth).kids (rf.index depth) (rt.indexAfter depth)) depth hdf
  simp only [liftTarget, hf, ht, liftTargetR]
  rw [if_neg (by simp; omega)]
  simp [h]

/-- `can_split` with a depth of at least 1 (`depth = 0` reaches `pos_.node(pos_.depth + 1)`: IndexError) -/
theorem canSplit_never_raises (S : Schema) (doc : Node) (pos depth : Nat) (hv : C01.Valid S doc)
    (hpos : pos ≤ fsize doc.kids) (hd : 1 ≤ depth) : canSplit S doc pos depth ≠ none := by
  obtain ⟨r, hr⟩ := resolve_isSome doc pos hpos
  obtain ⟨v, h⟩ := canSplitR_isSome S (resolve_resolved hr) hv depth hd
  simp [canSplit, hr, h]

theorem canChangeType_never_raises (S : Schema) (doc : Node) (pos : Nat) (ty : TypeId) (hv : C01.Valid S doc)
    (hpos : pos ≤ fsize doc.kids) : canChangeType S doc pos ty ≠ none := by
  obtain ⟨r, hr⟩ := resolve_isSome doc pos hpos
  have R := resolve_resolved hr
  obtain ⟨v, h⟩ := nodeCanReplaceWith_isSome S r.parent (path_valid S R hv r.depth (Nat.le_refl _))
    (r.index r.depth) (r.index r.depth + 1) ty (R.index_le r.depth (Nat.le_refl _))
  simp [canChangeType, hr, h]

/-- `find_wrapping` on a node range as `block_range` builds them: `from ≤ to`, `to` inside the node at the
    range's depth (`to ≤ from.end(depth)`), and `from` in front of a child of that node -/
theorem findWrapping_never_raises (S : Schema) (doc : Node) (a b depth : Nat) (ty : TypeId) (rf rt : RPos)
    (hv : C01.Valid S doc) (hf : doc.resolve a = some rf) (ht : doc.resolve b = some rt)
    (hab : a ≤ b) (hdf : depth ≤ rf.depth) (hdt : depth ≤ rt.depth) (hend : b ≤ rf.end_ depth)
    (hchild : rf.index depth < (rf.node depth).kids.length) :
    findWrappingRange S doc a b depth ty ≠ none := by
  have Rf := resolve_resolved hf
  have Rt := resolve_resolved ht
  have pf := Rf.pos_in depth hdf
  have pt := Rt.pos_in depth hdt
  have same := (same_ancestors Rf Rt depth b hdf hdt (by omega) hend pt.1 pt.2 depth (Nat.le_refl _)).1
  obtain ⟨v, h⟩ := findWrappingR_isSome S Rf hv depth ty hdf hdt hchild
    (by rw [same]; exact Rt.indexAfter_le depth hdt)
  simp [findWrappingRange, hf, ht, h]

/-! ### concrete instances of the hypotheses: `doc(blockquote(p("a"), p("b")))` in a schema
    `doc: block+`, `blockquote: block+`, `paragraph: text*` -/

private def exDoc : Node :=
  .elem 0 [] [] [.elem 1 [] [] [.elem 2 [] [] [.text [97] []], .elem 2 [] [] [.text [98] []]]]

/-- `doc(blockquote(p("a")), blockquote(p("b")))` -/
private def exDoc2 : Node :=
  .elem 0 [] [] [.elem 1 [] [] [.elem 2 [] [] [.text [97] []]], .elem 1 [] [] [.elem 2 [] [] [.text [98] []]]]

private def exNT (name : String) (text inlineContent : Bool) (dfa : Array DfaState) : NodeType :=
  { name := name, isText := text, isInline := text, isLeaf := text, isAtom := text, inlineContent := inlineContent,
    isolating := false, defining := false, code := false, dfa := dfa, markSet := none, attrs := [] }

private def blocksDfa : Array DfaState := #[⟨false, [(1, 1), (2, 1)]⟩, ⟨true, [(1, 1), (2, 1)]⟩]

private def exSchema : Schema :=
  { nodes := #[exNT "doc" false false blocksDfa, exNT "blockquote" false false blocksDfa,
      exNT "paragraph" false true #[⟨true, [(3, 0)]⟩], exNT "text" true false #[⟨true, []⟩]],
    marks := #[], top := 0, textTy := 3 }

example : C01.Valid exSchema exDoc := by rfl
example : C01.Valid exSchema exDoc2 := by rfl
example : pairAligned exDoc 3 = true := by rfl

/-- lifting the second paragraph out of the blockquote: approved (target depth 0), the blockquote is split
    before it -/
example : liftTarget exSchema exDoc 6 7 1 = some (some 0) := by rfl
example : liftStep exDoc 6 7 1 0 = .ok (.replaceAround 4 8 4 7 ⟨[.elem 1 [] [] []], 1, 0⟩ 1 true) := by rfl
/-- splitting inside the first paragraph, two levels deep -/
example : canSplit exSchema exDoc 3 2 = some true := by rfl
example : splitStep exDoc 3 2 = .ok (.replace 3 3
    ⟨[.elem 1 [] [] [.elem 2 [] [] []], .elem 1 [] [] [.elem 2 [] [] []]], 2, 2⟩ true) := by rfl
/-- joining the two blockquotes of `exDoc2` -/
example : canJoin exSchema exDoc2 5 = some (some true) := by rfl
example : joinPoint exSchema exDoc2 7 (-1) = some (some 5) := by rfl
example : joinStep 5 1 = .ok (.replace 4 6 Slice.empty true) := by rfl
/-- wrapping the second paragraph in a blockquote -/
example : findWrappingRange exSchema exDoc 5 6 1 1 = some (some [1]) := by rfl
example : wrapStep exSchema exDoc 5 6 1 [(1, [])] =
    .ok (.replaceAround 4 7 4 7 ⟨[.elem 1 [] [] []], 0, 0⟩ 1 true) := by rfl
/-- a blockquote cannot go into the paragraph at its start, but it fits in front of it -/
example : insertPoint exSchema exDoc 2 1 = some (some 1) := by rfl
example : dropPoint exSchema exDoc 2 ⟨[.elem 1 [] [] [.elem 2 [] [] []]], 0, 0⟩ = some (some 1) := by rfl
/-- the guards are needed: `can_split` with depth 0 raises, and so does `can_join` one past the end -/
example : canSplit exSchema exDoc 3 0 = none := by rfl
example : canJoin exSchema exDoc 9 = none := by rfl

/-! ### an approved join applies, given `check_join`'s test

    The unguarded statement
      `canJoin S doc pos = some (some true) → joinStep pos 1 = .ok st → ∃ doc', S.apply st doc = .ok doc'`
    is **false** for arbitrary schemas, for the model and for the code alike: `joinable` asks
    `a.can_append(b)` (does `b`'s content continue `a`'s), the join itself asks `check_join`
    (`b.type.compatible_content(a.type)`: do the two *start* states share an edge).  In the schema
    `doc: A B*`, `A: x y*`, `B: y+` and the document `doc(A(x), B(y))`, `can_join(doc, 3)` and `join_point(doc, 3)`
    approve and `Transform.join(3)` raises `TransformError("Cannot join B onto A")` (`cexSchema` below).
    `joinGuard` (PM/Structure2.lean) is that test.  The second hypothesis is `TextStable`: the join merges
    adjacent text nodes, `can_append` looks at the unmerged child list (`joinTsSchema` below: content
    `(text|image) (text|image) (text image)?`, `A(em("a"), "b")` joined with `B("c", image)`). -/

private def cexNT (name : String) (leaf : Bool) (dfa : Array DfaState) : NodeType :=
  { name := name, isText := false, isInline := false, isLeaf := leaf, isAtom := leaf, inlineContent := false,
    isolating := false, defining := false, code := false, dfa := dfa, markSet := none, attrs := [] }

private def cexSchema : Schema :=
  { nodes := #[cexNT "doc" false #[⟨false, [(1, 1)]⟩, ⟨true, [(2, 1)]⟩],
      cexNT "A" false #[⟨false, [(3, 1)]⟩, ⟨true, [(4, 1)]⟩],
      cexNT "B" false #[⟨false, [(4, 1)]⟩, ⟨true, [(4, 1)]⟩],
      cexNT "x" true #[⟨true, []⟩], cexNT "y" true #[⟨true, []⟩],
      { cexNT "text" true #[⟨true, []⟩] with isText := true, isInline := true }],
    marks := #[], top := 0, textTy := 5 }

private def cexDoc : Node := .elem 0 [] [] [.elem 1 [] [] [.leaf 3 [] []], .elem 2 [] [] [.leaf 4 [] []]]

example : C01.Valid cexSchema cexDoc := by rfl
/-- the helper approves … -/
example : canJoin cexSchema cexDoc 3 = some (some true) := by rfl
example : joinPoint cexSchema cexDoc 3 (-1) = some (some 3) := by rfl
/-- … and the join is refused by `check_join` -/
example : cexSchema.compatibleContent 2 1 = false := by rfl

/-! ### an approved split applies

    The unguarded statement
      `canSplit S doc pos depth = some true → splitStep doc pos depth = .ok st → ∃ doc', S.apply st doc = .ok doc'`
    is **false** for the model and for the code alike (upstream too): when the cut falls *inside* a text
    child, `can_split` validates the parent's children *before* that text (`can_replace(index, child_count)`)
    and the children from it on (`valid_content(cut_by_index(index, …))`), but the left half also contains
    the first part of the text.  With content `(text image)*` and the paragraph `p("ab", image)`,
    `can_split(doc, 2)` approves and `Transform.split(2)` raises `TransformError("Invalid content for node p")`
    (`splitCex…` below).  `splitGuard` (PM/Structure.lean) asks for `can_replace(index + 1, child_count)` in
    that case; it holds at every cut that is not strictly inside a text child, and for every `text*` /
    `inline*` textblock.  Nothing else is needed: no `TextStable`, the two text halves never become
    neighbours. -/

/-- **`can_split` approves ⇒ `split` succeeds** with a schema-valid document that keeps the text and leaf
    nodes: valid normal-form document, pair-aligned position, and `splitGuard`. (`pos` in range and
    `1 ≤ depth ≤ depth of pos` are implied by the approval.) -/
theorem canSplit_split_applies (S : Schema) (doc : Node) (pos depth : Nat) (st : Step)
    (hv : C01.Valid S doc) (hn : fnorm doc.kids = true) (hal : pairAligned doc pos = true)
    (hg : splitGuard S doc pos = true)
    (hc : canSplit S doc pos depth = some true) (hb : splitStep doc pos depth = .ok st) :
    ∃ doc', S.apply st doc = .ok doc' ∧ C01.Valid S doc' ∧
      (ftoks doc'.kids).filter Tok.isContent = (ftoks doc.kids).filter Tok.isContent := by
  unfold canSplit at hc
  cases hr : doc.resolve pos with
  | none => simp [hr] at hc
  | some r =>
    simp only [hr] at hc
    obtain ⟨hd1, hdd, _⟩ := canSplitR_true S r depth hc
    have R := resolve_resolved hr
    have hal' : r.pairOk = true := by simpa [pairAligned, hr] using hal
    have hg' : splitGuardR S r = true := by simpa [splitGuard, hr] using hg
    cases doc with
    | text s m => have := R.depth_eq; simp [Node.kids, depthAt] at this; omega
    | leaf t a m => have := R.depth_eq; simp [Node.kids, depthAt] at this; omega
    | elem ty0 a0 m0 K =>
      obtain ⟨doc', hap⟩ := split_applies S ty0 a0 m0 K pos depth r st hr hv hn hal' hg' hd1 hc hb
      obtain ⟨sl, rfl, hsl⟩ := split_payload S depth st hr hv hd1 hdd hb
      exact ⟨doc', hap, C01.apply_valid S (.replace pos pos sl true) _ doc' hv hsl hap,
        split_keeps_content S _ doc' pos depth _ hb hap⟩

/-- the guard is needed: content `(text image)*`, the paragraph `p("ab", image)` cut inside the text -/
private def splitCexSchema : Schema :=
  { nodes := #[cexNT "doc" false #[⟨false, [(1, 1)]⟩, ⟨true, [(1, 1)]⟩],
      cexNT "p" false #[⟨true, [(2, 1)]⟩, ⟨false, [(3, 0)]⟩],
      { cexNT "text" true #[⟨true, []⟩] with isText := true, isInline := true },
      { cexNT "image" true #[⟨true, []⟩] with isInline := true }],
    marks := #[], top := 0, textTy := 2 }

private def splitCexDoc : Node := .elem 0 [] [] [.elem 1 [] [] [.text [97, 98] [], .leaf 3 [] []]]

example : C01.Valid splitCexSchema splitCexDoc := by rfl
example : fnorm splitCexDoc.kids = true := by rfl
example : pairAligned splitCexDoc 2 = true := by rfl
/-- the helper approves … -/
example : canSplit splitCexSchema splitCexDoc 2 1 = some true := by rfl
/-- … the guard does not hold … -/
example : splitGuard splitCexSchema splitCexDoc 2 = false := by rfl
/-- … and the split is refused: the left half `p("a")` is not valid content -/
example : splitStep splitCexDoc 2 1 = .ok (.replace 2 2 ⟨[.elem 1 [] [] [], .elem 1 [] [] []], 1, 1⟩ true) := by rfl
example : splitCexSchema.apply (.replace 2 2 ⟨[.elem 1 [] [] [], .elem 1 [] [] []], 1, 1⟩ true) splitCexDoc
    = .error .failed := by
  have hc : contentBetween splitCexDoc 2 2 = some false := by
    obtain ⟨r, hr⟩ := resolve_isSome splitCexDoc 2 (by decide)
    exact contentBetween_empty _ _ r hr
  have hv : splitCexSchema.validContent 1 [.text [97] []] = false := by decide
  unfold splitCexDoc at hc
  simp [Schema.apply, hc, Schema.fromReplace, Schema.replace, splitCexDoc, replaceKids,
    inRange, depthAt, Slice.wf, spineL, spineR, outer, atLevel, threeWay, threeWay.rightJoinCheck, twoWay,
    splitRight, splitOk, isHigh, isLow, Schema.close, fromArray, addNodes, addNode, hv,
    Except.map, Schema.compatibleContent]
/-- at the node boundaries of the same paragraph the guard holds and the split applies -/
example : splitGuard splitCexSchema splitCexDoc 1 = true ∧ canSplit splitCexSchema splitCexDoc 1 1 = some true := by
  exact ⟨rfl, rfl⟩
/-- a non-trivial instance of all hypotheses: `exDoc` cut inside the text of the first paragraph, two levels -/
example : C01.Valid exSchema exDoc ∧ fnorm exDoc.kids = true ∧ pairAligned exDoc 3 = true ∧
    splitGuard exSchema exDoc 3 = true ∧ canSplit exSchema exDoc 3 2 = some true := by
  exact ⟨rfl, rfl, rfl, rfl, rfl⟩

/-- **`can_join` approves ∧ `joinGuard` (`check_join`'s `compatible_content`) ∧ `TextStable` ⇒ `join`
    succeeds** with a schema-valid document that keeps the text and leaf nodes.  (The approval implies that
    `pos` is a child boundary between two nodes, so no alignment hypothesis is needed.) -/
theorem canJoin_join_applies (S : Schema) (hts : C01.TextStable S) (doc : Node) (pos : Nat) (st : Step)
    (hv : C01.Valid S doc) (hn : fnorm doc.kids = true)
    (hg : joinGuard S doc pos = true)
    (hc : canJoin S doc pos = some (some true)) (hb : joinStep pos 1 = .ok st) :
    ∃ doc', S.apply st doc = .ok doc' ∧ C01.Valid S doc' ∧
      (ftoks doc'.kids).filter Tok.isContent = (ftoks doc.kids).filter Tok.isContent := by
  unfold canJoin at hc
  cases hr : doc.resolve pos with
  | none => simp [hr] at hc
  | some r =>
    simp only [hr] at hc
    have R := resolve_resolved hr
    have hg' : joinGuardR S r = true := by simpa [joinGuard, hr] using hg
    have hpay : ∀ f t, C01.PayloadValid S doc (.replace f t Slice.empty true) := by
      intro f t
      simp [C01.PayloadValid, Slice.empty, openValid, rightOpenValid]
    cases doc with
    | text s m =>
      exfalso
      obtain ⟨_, _, _, _, _, _, _, ha, _⟩ := canJoinR_facts S R hc
      have hd := R.depth_eq
      simp only [Node.kids, depthAt] at hd
      simp [RPos.parent, hd, R.node_zero, Node.kids] at ha
    | leaf t a m =>
      exfalso
      obtain ⟨_, _, _, _, _, _, _, ha, _⟩ := canJoinR_facts S R hc
      have hd := R.depth_eq
      simp only [Node.kids, depthAt] at hd
      simp [RPos.parent, hd, R.node_zero, Node.kids] at ha
    | elem ty0 a0 m0 K =>
      obtain ⟨doc', hap⟩ := join_applies S hts ty0 a0 m0 K pos r st hr hv hn hg' hc hb
      have hst : ∃ f t, st = .replace f t Slice.empty true := by
        unfold joinStep at hb
        split at hb
        · simp at hb
        · simp only [Except.ok.injEq] at hb; exact ⟨_, _, hb.symm⟩
      obtain ⟨f, t, rfl⟩ := hst
      exact ⟨doc', hap, C01.apply_valid S _ _ doc' hv (hpay f t) hap, join_keeps_content S _ doc' pos 1 _ hb hap⟩

/-- `TextStable` can be checked on the automaton tables (`textStableC`, PM/Structure2.lean) -/
theorem textStable_of_C (S : Schema) (h : textStableC S = true) : C01.TextStable S :=
  textStableP_of_C S h

/-- `exSchema` is `TextStable` -/
private theorem ex_stable : C01.TextStable exSchema := textStable_of_C exSchema (by decide)

/-- a non-trivial instance of all hypotheses: joining the two blockquotes of `exDoc2` -/
example : ∃ doc', exSchema.apply (.replace 4 6 Slice.empty true) exDoc2 = .ok doc' ∧ C01.Valid exSchema doc' ∧
    (ftoks doc'.kids).filter Tok.isContent = (ftoks exDoc2.kids).filter Tok.isContent :=
  canJoin_join_applies exSchema ex_stable exDoc2 5 _ rfl rfl rfl rfl rfl

/-- in the counterexample above the guard does not hold -/
example : joinGuard cexSchema cexDoc 3 = false := by rfl

/-- `TextStable` is needed: `doc: A B?`, `A: (text|image) (text|image) (text image)?`, `B: (text|image) image`;
    `A(em("a"), "b")` and `B("c", image)`: `can_append` accepts `text text text image`, the join merges `"b"`
    and `"c"` and `A` refuses `text text image` (`TransformError('Invalid content for node A')`) -/
private def joinTsSchema : Schema :=
  { nodes := #[cexNT "doc" false #[⟨false, [(1, 1)]⟩, ⟨true, [(2, 2)]⟩, ⟨true, []⟩],
      cexNT "A" false #[⟨false, [(3, 1), (4, 1)]⟩, ⟨false, [(3, 2), (4, 2)]⟩, ⟨true, [(3, 3)]⟩,
        ⟨false, [(4, 4)]⟩, ⟨true, []⟩],
      cexNT "B" false #[⟨false, [(3, 1), (4, 1)]⟩, ⟨false, [(4, 2)]⟩, ⟨true, []⟩],
      { cexNT "text" true #[⟨true, []⟩] with isText := true, isInline := true },
      { cexNT "image" true #[⟨true, []⟩] with isInline := true }],
    marks := #[⟨"em", [0], true, []⟩], top := 0, textTy := 3 }

private def joinTsDoc : Node :=
  .elem 0 [] [] [.elem 1 [] [] [.text [97] [⟨0, []⟩], .text [98] []], .elem 2 [] [] [.text [99] [], .leaf 4 [] []]]

example : C01.Valid joinTsSchema joinTsDoc := by rfl
example : fnorm joinTsDoc.kids = true := by rfl
example : canJoin joinTsSchema joinTsDoc 4 = some (some true) := by rfl
example : joinGuard joinTsSchema joinTsDoc 4 = true := by rfl
example : joinStep 4 1 = .ok (.replace 3 5 Slice.empty true) := by rfl
example : ¬ C01.TextStable joinTsSchema := by
  intro h
  have := h 1 0 1 2 (by rfl) (by rfl)
  omega
example : joinTsSchema.apply (.replace 3 5 Slice.empty true) joinTsDoc = .error .failed := by
  have hc : contentBetween joinTsDoc 3 5 = some false := by
    apply contentBetween_closesOpens _ _ _ (by rfl) (by omega) (by decide)
    rfl
  have hv : joinTsSchema.validContent 1 [.text [97] [⟨0, []⟩], .text [98, 99] [], .leaf 4 [] []] = false := by decide
  unfold joinTsDoc at hc
  simp [Schema.apply, hc, Schema.fromReplace, Schema.replace, joinTsDoc, replaceKids, Slice.empty,
    inRange, depthAt, Slice.wf, spineL, spineR, outer, atLevel, twoWay,
    splitRight, Schema.close, fromArray, addNodes, addNode, hv,
    Except.map, Schema.compatibleContent]

/-! ### WRAP-BEGIN -/

/-! ### an approved wrap applies

    The unguarded statement
      `findWrappingRange S doc a b depth ty = some (some chain) → ws.map (·.1) = chain →
       wrapStep S doc a b depth ws = .ok st → ∃ doc', S.apply st doc = .ok doc'`
    is **false** for the model and for the code alike (upstream too; finding C12-wrap-ignores-marks):
    `find_wrapping_inside` walks the innermost wrapper's automaton over the *types* of the nodes of the range, the
    wrap itself (`ReplaceAroundStep.apply` → `Slice.insert_at` → `insert_into`) asks that wrapper
    `valid_content(nodes)`, which also wants it to allow their *marks*.  In a schema whose `doc` allows marks
    on its block children (`marks: "_"`), `doc(em(p("a")))`: `find_wrapping(range of the paragraph, quote)`
    approves `[quote]` and `Transform.wrap` raises `TransformError("Content does not fit in gap")`
    (`wrapCex…` below).  `wrapGuard` (PM/StructEdit.lean) is that test (and "no wrapper type is a leaf type",
    which `find_wrapping` guarantees in a compiled schema).  Nothing else is needed: no `TextStable` (the run's
    neighbours get an element node between them, nothing merges), no alignment (both ends are child
    boundaries), and an empty run is fine. -/

/-- **`find_wrapping` approves ∧ `wrapGuard` ⇒ `wrap` succeeds** with a schema-valid document that keeps the
    text and leaf nodes: valid normal-form document; a node range as `block_range` builds it (`from ≤ to`,
    `to` inside the node at the range's depth, both ends at child boundaries of that node); wrappers of the
    approved types (any attributes `wrap` accepts).  (`depth ≤` both depths is implied by the approval.) -/
theorem findWrapping_wrap_applies (S : Schema) (doc : Node) (a b depth : Nat) (ty : TypeId)
    (chain : List TypeId) (ws : List (TypeId × Attrs)) (st : Step) (rf rt : RPos)
    (hv : C01.Valid S doc) (hn : fnorm doc.kids = true)
    (hf : doc.resolve a = some rf) (ht : doc.resolve b = some rt)
    (hab : a ≤ b) (hend : b ≤ rf.end_ depth)
    (hfb : depth < rf.depth ∨ rf.textOffset = 0) (htb : depth < rt.depth ∨ rt.textOffset = 0)
    (hg : wrapGuard S doc a b depth ws = true)
    (hc : findWrappingRange S doc a b depth ty = some (some chain)) (hws : ws.map (·.1) = chain)
    (hb : wrapStep S doc a b depth ws = .ok st) :
    ∃ doc', S.apply st doc = .ok doc' ∧ C01.Valid S doc' ∧
      (ftoks doc'.kids).filter Tok.isContent = (ftoks doc.kids).filter Tok.isContent := by
  have hc' : findWrappingR S rf rt depth ty = some (some chain) := by simpa [findWrappingRange, hf, ht] using hc
  have hg' : wrapGuardR S rf rt depth ws = true := by simpa [wrapGuard, hf, ht] using hg
  have hb' : wrapStepR S rf rt depth ws = .ok st := by simpa [wrapStep, hf, ht] using hb
  obtain ⟨hdf, hdt, hchild⟩ := findWrappingR_child S rf rt depth ty chain hc'
  have hl : ∀ w ∈ ws, (S.nodeType w.1).isLeaf = false := by
    simp only [wrapGuardR, Bool.and_eq_true, List.all_eq_true, Bool.not_eq_true'] at hg'
    exact hg'.1
  cases doc with
  | text s m =>
    exfalso
    have R := resolve_resolved hf
    have hd := R.depth_eq
    simp only [Node.kids, depthAt] at hd
    have : depth = 0 := by omega
    subst this
    simp [R.node_zero, Node.kids] at hchild
  | leaf t' a' m =>
    exfalso
    have R := resolve_resolved hf
    have hd := R.depth_eq
    simp only [Node.kids, depthAt] at hd
    have : depth = 0 := by omega
    subst this
    simp [R.node_zero, Node.kids] at hchild
  | elem ty0 a0 m0 K =>
    obtain ⟨s, e, as, mid, rfl, hsl, hins, hpay, doc', hap⟩ :=
      wrap_applies S ty0 a0 m0 K a b depth ty chain ws rf rt st hf ht hv hn hab hdf hdt hend hfb htb hc' hws hg' hb'
    have hpv : C01.PayloadValid S (.elem ty0 a0 m0 K)
        (.replaceAround s e s e ⟨wrapNest as [], 0, 0⟩ as.length true) := by
      intro gap ins h1 h2
      rw [hsl] at h1
      simp only [Except.ok.injEq] at h1
      subst h1
      rw [hins] at h2
      simp only [Except.ok.injEq, Option.some.injEq] at h2
      subst h2
      simpa [openValid, rightOpenValid] using hpay
    exact ⟨doc', hap, C01.apply_valid S _ _ doc' hv hpv hap, wrap_keeps_content S _ doc' a b depth ws _ hab hl hb hap⟩

/-- **… and the step gets built** when the wrappers pass `wrap`'s own test (`wrapBuilds`: each accepts the next as its
    only child, attributes complete): approval ∧ `wrapGuard` ∧ `wrapBuilds` ⇒ `Transform.wrap` succeeds.
    Without `wrapBuilds` the statement is **false**, for the model and for the code alike (upstream algorithm):
    `compute_wrapping` stops as soon as the last wrapper found accepts the target as *first* child.  Schema
    `doc: block+`, `p: text*` (block), `pair: item item` (block), `item: p+`; `doc(p("a"))`:
    `find_wrapping(range of the paragraph, item)` approves `[pair, item]` and `Transform.wrap` raises
    `TransformError("Wrapper type given to Transform.wrap does not form valid content of its parent wrapper")`
    (`wrapPairSchema` below). -/
theorem findWrapping_wrap_succeeds (S : Schema) (doc : Node) (a b depth : Nat) (ty : TypeId)
    (chain : List TypeId) (ws : List (TypeId × Attrs)) (rf rt : RPos)
    (hv : C01.Valid S doc) (hn : fnorm doc.kids = true)
    (hf : doc.resolve a = some rf) (ht : doc.resolve b = some rt)
    (hab : a ≤ b) (hend : b ≤ rf.end_ depth)
    (hfb : depth < rf.depth ∨ rf.textOffset = 0) (htb : depth < rt.depth ∨ rt.textOffset = 0)
    (hg : wrapGuard S doc a b depth ws = true) (hbuild : wrapBuilds S ws = true)
    (hc : findWrappingRange S doc a b depth ty = some (some chain)) (hws : ws.map (·.1) = chain) :
    ∃ st doc', wrapStep S doc a b depth ws = .ok st ∧ S.apply st doc = .ok doc' ∧ C01.Valid S doc' ∧
      (ftoks doc'.kids).filter Tok.isContent = (ftoks doc.kids).filter Tok.isContent := by
  have hc' : findWrappingR S rf rt depth ty = some (some chain) := by simpa [findWrappingRange, hf, ht] using hc
  obtain ⟨hdf, hdt, _⟩ := findWrappingR_child S rf rt depth ty chain hc'
  obtain ⟨gs, hgs⟩ := (resolve_resolved hf).before_isSome depth hdf
  obtain ⟨ge, hge⟩ := (resolve_resolved ht).after_isSome depth hdt
  have hb : ∃ st, wrapStep S doc a b depth ws = .ok st := by
    unfold wrapBuilds at hbuild
    cases hw : wrapContent S ws with
    | error e => simp [hw] at hbuild
    | ok content =>
      exact ⟨.replaceAround gs ge gs ge ⟨content, 0, 0⟩ ws.length true,
        by simp [wrapStep, hf, ht, wrapStepR, hw, hgs, hge]⟩
  obtain ⟨st, hb⟩ := hb
  obtain ⟨doc', h1, h2, h3⟩ := findWrapping_wrap_applies S doc a b depth ty chain ws st rf rt hv hn hf ht hab hend
    hfb htb hg hc hws hb
  exact ⟨st, doc', hb, h1, h2, h3⟩

/-- a non-trivial instance of all hypotheses: wrapping the second paragraph of `exDoc` in a blockquote -/
example : ∃ doc', exSchema.apply (.replaceAround 4 7 4 7 ⟨[.elem 1 [] [] []], 0, 0⟩ 1 true) exDoc = .ok doc' ∧
    C01.Valid exSchema doc' ∧
    (ftoks doc'.kids).filter Tok.isContent = (ftoks exDoc.kids).filter Tok.isContent :=
  findWrapping_wrap_applies exSchema exDoc 5 6 1 1 [1] [(1, [])] _
    ((exDoc.resolve 5).get rfl) ((exDoc.resolve 6).get rfl) rfl rfl (Option.some_get _).symm (Option.some_get _).symm
    (by decide) (by decide) (by decide) (by decide) rfl rfl rfl rfl
example : wrapBuilds exSchema [(1, [])] = true := by rfl

/-- the guard is needed: `doc` allows marks on its children (`marks: "_"`), `quote` allows none -/
private def wrapCexSchema : Schema :=
  { nodes := #[exNT "doc" false false blocksDfa, { exNT "quote" false false blocksDfa with markSet := some [] },
      exNT "p" false true #[⟨true, [(3, 0)]⟩], exNT "text" true false #[⟨true, []⟩]],
    marks := #[⟨"em", [0], true, []⟩], top := 0, textTy := 3 }

/-- `doc(em(p("a")))` -/
private def wrapCexDoc : Node := .elem 0 [] [] [.elem 2 [] [⟨0, []⟩] [.text [97] []]]

example : C01.Valid wrapCexSchema wrapCexDoc := by rfl
example : fnorm wrapCexDoc.kids = true := by rfl
/-- the helper approves (the block range of the paragraph: `from = 1`, `to = 2`, depth 0) … -/
example : findWrappingRange wrapCexSchema wrapCexDoc 1 2 0 1 = some (some [1]) := by rfl
/-- … the guard does not hold … -/
example : wrapGuard wrapCexSchema wrapCexDoc 1 2 0 [(1, [])] = false := by rfl
/-- … and the wrap is refused: "Content does not fit in gap" -/
example : wrapStep wrapCexSchema wrapCexDoc 1 2 0 [(1, [])] =
    .ok (.replaceAround 0 3 0 3 ⟨[.elem 1 [] [] []], 0, 0⟩ 1 true) := by rfl
example : wrapCexSchema.apply (.replaceAround 0 3 0 3 ⟨[.elem 1 [] [] []], 0, 0⟩ 1 true) wrapCexDoc
    = .error .failed := by
  have hc0 : contentBetween wrapCexDoc 0 0 = some false := by
    obtain ⟨r, hr⟩ := resolve_isSome wrapCexDoc 0 (by decide)
    exact contentBetween_empty _ _ r hr
  have hc3 : contentBetween wrapCexDoc 3 3 = some false := by
    obtain ⟨r, hr⟩ := resolve_isSome wrapCexDoc 3 (by decide)
    exact contentBetween_empty _ _ r hr
  have hs : wrapCexDoc.slice 0 3 = .ok ⟨[.elem 2 [] [⟨0, []⟩] [.text [97] []]], 0, 0⟩ :=
    sliceKids_children (pre := []) (mid := [.elem 2 [] [⟨0, []⟩] [.text [97] []]]) (post := []) (Lvl.here 0 _) (by rfl)
  have hcr : wrapCexSchema.validContent 1 [.elem 2 [] [⟨0, []⟩] [.text [97] []]] = false := by decide
  have hi : Slice.insertAt wrapCexSchema ⟨[.elem 1 [] [] []], 0, 0⟩ 1 [.elem 2 [] [⟨0, []⟩] [.text [97] []]]
      = .ok none := by
    simp [Slice.insertAt, insertInto, flatInsert, fcut, fappend, hcr]
  simp [Schema.apply, hc0, hc3, hs, hi]

/-- `wrapBuilds` is needed: `doc: block+`, `pair: item item`, `item: p+`, `p: text*`; `doc(p("a"))` -/
private def wrapPairSchema : Schema :=
  { nodes := #[exNT "doc" false false #[⟨false, [(1, 1), (3, 1)]⟩, ⟨true, [(1, 1), (3, 1)]⟩],
      exNT "pair" false false #[⟨false, [(2, 1)]⟩, ⟨false, [(2, 2)]⟩, ⟨true, []⟩],
      exNT "item" false false #[⟨false, [(3, 1)]⟩, ⟨true, [(3, 1)]⟩],
      exNT "p" false true #[⟨true, [(4, 0)]⟩], exNT "text" true false #[⟨true, []⟩]],
    marks := #[], top := 0, textTy := 4 }

private def wrapPairDoc : Node := .elem 0 [] [] [.elem 3 [] [] [.text [97] []]]

example : C01.Valid wrapPairSchema wrapPairDoc := by rfl
/-- the helper approves `[pair, item]`, the marks guard holds … -/
example : findWrappingRange wrapPairSchema wrapPairDoc 1 2 0 2 = some (some [1, 2]) := by rfl
example : wrapGuard wrapPairSchema wrapPairDoc 1 2 0 [(1, []), (2, [])] = true := by rfl
/-- … and `wrap` refuses to build the step: `pair` does not take a single `item` -/
example : wrapBuilds wrapPairSchema [(1, []), (2, [])] = false := by rfl
example : wrapStep wrapPairSchema wrapPairDoc 1 2 0 [(1, []), (2, [])] = .error .failed := by rfl

/-! ### WRAP-END -/
/-! ### LIFT-BEGIN -/

/-! ### an approved lift applies — when nothing has to be split

    The unguarded statement
      `liftTarget S doc a b depth = some (some target) → liftStep doc a b depth target = .ok st →
         ∃ doc', S.apply st doc = .ok doc'`
    is **false** for the model and for the code alike (upstream too), in two ways, both arising when the lift has
    to *split* ancestors of the range (the range has siblings before or after it at some level `d`,
    `target < d ≤ depth`):
    (a) `can_cut` validates the siblings left behind on their own, but the node left behind also receives the
        split-off copy of its deeper child (open finding C12-lift-split-invalid; `liftNestSchema` below: the first
        item of a nested list);
    (b) `lift_target` asks `node(target).can_replace(index, end_index, content)`, i.e. the target node with the
        range's ancestor *removed* — but the copies the split leaves behind stay there as extra children
        (`liftCopySchema` below: doc content `blockquote | paragraph+`, `doc(blockquote(p, p))`, lifting either
        paragraph is approved — `doc(p)` is valid — and would give `doc(blockquote(p), p)`).
    `liftFlatGuard` (PM/StructEdit.lean) says that nothing is split: at every level `d`, `target < d ≤ depth`, the
    range starts at the first child and ends at the last — the two tests of `lift`'s loops.  Then the approval is
    exactly the validity of the new child list of `node(target)`, up to the merge of the lifted text with its new
    neighbours: `TextStable` (needed, for code and model: `liftTsSchema` below). -/

/-- **`lift_target` approves ∧ nothing is split ∧ `TextStable` ⇒ `lift` succeeds** with a schema-valid document
    that keeps the text and leaf nodes.  The range is a node range as `block_range` builds it: `from ≤ to`, `to`
    inside the node at the range's depth, both ends at child boundaries of that node.  (`target < depth ≤` the
    depths of both ends is implied by the approval.) -/
theorem liftTarget_lift_applies_flat (S : Schema) (hts : C01.TextStable S) (doc : Node)
    (a b depth target : Nat) (f t : RPos) (st : Step)
    (hv : C01.Valid S doc) (hn : fnorm doc.kids = true)
    (hf : doc.resolve a = some f) (ht : doc.resolve b = some t)
    (hab : a ≤ b) (hend : b ≤ f.end_ depth)
    (hfb : depth < f.depth ∨ f.textOffset = 0) (htb : depth < t.depth ∨ t.textOffset = 0)
    (hg : liftFlatGuard doc a b depth target = true)
    (hc : liftTarget S doc a b depth = some (some target))
    (hb : liftStep doc a b depth target = .ok st) :
    ∃ doc', S.apply st doc = .ok doc' ∧ C01.Valid S doc' ∧
      (ftoks doc'.kids).filter Tok.isContent = (ftoks doc.kids).filter Tok.isContent := by
  obtain ⟨htd, hdf, _⟩ := liftTarget_in_range S doc a b depth target f t hf ht hc
  have hg' : liftFlatGuardR f t depth target = true := by simpa [liftFlatGuard, hf, ht] using hg
  have hc' : liftTargetR S f t depth = some (some target) := by simpa [liftTarget, hf, ht] using hc
  have hb' : liftStepR f t depth target = .ok st := by simpa [liftStep, hf, ht] using hb
  have R := resolve_resolved hf
  cases doc with
  | text s m => have := R.depth_eq; simp [Node.kids, depthAt] at this; omega
  | leaf ty at_ m => have := R.depth_eq; simp [Node.kids, depthAt] at this; omega
  | elem ty0 a0 m0 K =>
    obtain ⟨⟨doc', hap⟩, f', t', gs, ge, rfl, hpay⟩ :=
      lift_flat_applies S hts ty0 a0 m0 K a b depth target f t st hf ht hv hn hab hend hfb htb hg' hc' hb'
    exact ⟨doc', hap, C01.apply_valid S (.replaceAround f' t' gs ge ⟨[], 0, 0⟩ 0 true) _ doc' hv hpay hap,
      lift_keeps_content S _ doc' a b depth target _ hab hb hap⟩

/-- non-trivial instances of all hypotheses: `doc(blockquote(p("a")))`, lifting the only paragraph -/
private def liftDoc : Node := .elem 0 [] [] [.elem 1 [] [] [.elem 2 [] [] [.text [97] []]]]

example : liftTarget exSchema liftDoc 2 3 1 = some (some 0) := by rfl
example : liftFlatGuard liftDoc 2 3 1 0 = true := by rfl
example : liftStep liftDoc 2 3 1 0 = .ok (.replaceAround 0 5 1 4 ⟨[], 0, 0⟩ 0 true) := by rfl
example : ∃ doc', exSchema.apply (.replaceAround 0 5 1 4 ⟨[], 0, 0⟩ 0 true) liftDoc = .ok doc' ∧
    C01.Valid exSchema doc' ∧
    (ftoks doc'.kids).filter Tok.isContent = (ftoks liftDoc.kids).filter Tok.isContent :=
  liftTarget_lift_applies_flat exSchema ex_stable liftDoc 2 3 1 0 _ _ _ rfl rfl rfl rfl (by decide) (by decide)
    (.inl (by decide)) (.inl (by decide)) rfl rfl rfl

/-- … and two levels at once: `doc: (A | p)+`, `A: B+`, `B: p+`; in `doc(A(B(p("a"))))` the paragraph cannot go
    into `A`, it is lifted to depth 0 through both wrappers (`ReplaceAroundStep(0, 7, 2, 5, Slice.empty, 0)`) -/
private def lift2Schema : Schema :=
  { nodes := #[exNT "doc" false false #[⟨false, [(1, 1), (3, 1)]⟩, ⟨true, [(1, 1), (3, 1)]⟩],
      exNT "A" false false #[⟨false, [(2, 1)]⟩, ⟨true, [(2, 1)]⟩],
      exNT "B" false false #[⟨false, [(3, 1)]⟩, ⟨true, [(3, 1)]⟩],
      exNT "p" false true #[⟨true, [(4, 0)]⟩], exNT "text" true false #[⟨true, []⟩]],
    marks := #[], top := 0, textTy := 4 }

private def lift2Doc : Node :=
  .elem 0 [] [] [.elem 1 [] [] [.elem 2 [] [] [.elem 3 [] [] [.text [97] []]]]]

example : liftTarget lift2Schema lift2Doc 3 4 2 = some (some 0) := by rfl
example : ∃ doc', lift2Schema.apply (.replaceAround 0 7 2 5 ⟨[], 0, 0⟩ 0 true) lift2Doc = .ok doc' ∧
    C01.Valid lift2Schema doc' ∧
    (ftoks doc'.kids).filter Tok.isContent = (ftoks lift2Doc.kids).filter Tok.isContent :=
  liftTarget_lift_applies_flat lift2Schema (textStable_of_C _ (by decide)) lift2Doc 3 4 2 0 _ _ _ rfl rfl rfl rfl
    (by decide) (by decide) (.inl (by decide)) (.inl (by decide)) rfl rfl rfl

/-- the guard is needed, (b): `doc: blockquote | paragraph+`; in `exDoc = doc(blockquote(p("a"), p("b")))` lifting
    the second paragraph is approved (`doc(p("b"))` is valid) … -/
private def liftCopySchema : Schema :=
  { nodes := #[exNT "doc" false false #[⟨false, [(1, 1), (2, 2)]⟩, ⟨true, []⟩, ⟨true, [(2, 2)]⟩],
      exNT "blockquote" false false #[⟨false, [(2, 1)]⟩, ⟨true, [(2, 1)]⟩],
      exNT "paragraph" false true #[⟨true, [(3, 0)]⟩], exNT "text" true false #[⟨true, []⟩]],
    marks := #[], top := 0, textTy := 3 }

example : C01.Valid liftCopySchema exDoc := by rfl
example : textStableC liftCopySchema = true := by decide
example : liftTarget liftCopySchema exDoc 5 6 1 = some (some 0) := by rfl
/-- … the blockquote has to be split before it … -/
example : liftFlatGuard exDoc 5 6 1 0 = false := by rfl
example : liftStep exDoc 5 6 1 0 = .ok (.replaceAround 4 8 4 7 ⟨[.elem 1 [] [] []], 1, 0⟩ 1 true) := by rfl
/-- (a structure-flagged replace-around step, evaluated from its parts) -/
private theorem apply_around_of_parts (S : Schema) (doc : Node) (f t gf gt : Nat) (sl : Slice) (i : Nat)
    (gap : List Node) (ins : Slice) (r : Res Node)
    (h1 : contentBetween doc f gf = some false) (h2 : contentBetween doc gt t = some false)
    (h3 : doc.slice gf gt = .ok ⟨gap, 0, 0⟩) (h4 : sl.insertAt S i gap = .ok (some ins))
    (h5 : S.fromReplace doc f t ins = r) : S.apply (.replaceAround f t gf gt sl i true) doc = r := by
  simp [Schema.apply, h1, h2, h3, h4, h5]

/-- … and the step is refused: `doc(blockquote(p("a")), p("b"))` is not valid content of `doc` -/
example : liftCopySchema.apply (.replaceAround 4 8 4 7 ⟨[.elem 1 [] [] []], 1, 0⟩ 1 true) exDoc
    = .error .failed := by
  refine apply_around_of_parts liftCopySchema exDoc 4 8 4 7 _ 1 [.elem 2 [] [] [.text [98] []]]
    ⟨[.elem 1 [] [] [], .elem 2 [] [] [.text [98] []]], 1, 0⟩ _ rfl rfl ?_ ?_ ?_
  · simp [Node.slice, exDoc, Node.kids, sliceKids, inRange, sliceScan, sliceHere, fcut, fcutLoop, depthAt]
  · simp [Slice.insertAt, Slice.size, insertInto, flatInsert, fcut, fappend, addNode]
  · have hv : liftCopySchema.validContent 0
        [.elem 1 [] [] [.elem 2 [] [] [.text [97] []]], .elem 2 [] [] [.text [98] []]] = false := by decide
    have hv1 : liftCopySchema.validContent 1 [.elem 2 [] [] [.text [97] []]] = true := by decide
    simp [Schema.fromReplace, Schema.replace, exDoc, replaceKids, hv, hv1, rightJoin, middle, RSplit.rest,
      inRange, depthAt, Slice.wf, spineL, spineR, outer, atLevel, threeWay, threeWay.rightJoinCheck, twoWay,
      splitRight, Schema.close, fromArray, addNodes, addNode, Except.map, Schema.compatibleContent]

/-- the guard is needed, (a) (open finding C12-lift-split-invalid): `doc: list+`, `list: item+`, `item: p list?`;
    in `doc(list(item(p, list(item(p), item(p)))))` lifting the first inner item (`NodeRange(5, 9, 3)`, also what
    `block_range` gives at position 6) to depth 1 is approved: `can_cut` finds `item(p)` and `list(item(p))` valid —
    but the right half of the split outer item is `item(list(item(p)))`, without its leading paragraph -/
private def liftNestSchema : Schema :=
  { nodes := #[exNT "doc" false false #[⟨false, [(1, 1)]⟩, ⟨true, [(1, 1)]⟩],
      exNT "list" false false #[⟨false, [(2, 1)]⟩, ⟨true, [(2, 1)]⟩],
      exNT "item" false false #[⟨false, [(3, 1)]⟩, ⟨true, [(1, 2)]⟩, ⟨true, []⟩],
      exNT "p" false true #[⟨true, [(4, 0)]⟩], exNT "text" true false #[⟨true, []⟩]],
    marks := #[], top := 0, textTy := 4 }

private def liftNestDoc : Node :=
  .elem 0 [] [] [.elem 1 [] [] [.elem 2 [] [] [.elem 3 [] [] [],
    .elem 1 [] [] [.elem 2 [] [] [.elem 3 [] [] []], .elem 2 [] [] [.elem 3 [] [] []]]]]]

example : C01.Valid liftNestSchema liftNestDoc := by rfl
example : textStableC liftNestSchema = true := by decide
example : liftTarget liftNestSchema liftNestDoc 5 9 3 = some (some 1) := by rfl
example : liftFlatGuard liftNestDoc 5 9 3 1 = false := by rfl
example : liftStep liftNestDoc 5 9 3 1 = .ok (.replaceAround 4 9 5 9
    ⟨[.elem 2 [] [] [], .elem 2 [] [] [.elem 1 [] [] []]], 1, 2⟩ 1 true) := by rfl
example : liftNestSchema.apply (.replaceAround 4 9 5 9
    ⟨[.elem 2 [] [] [], .elem 2 [] [] [.elem 1 [] [] []]], 1, 2⟩ 1 true) liftNestDoc = .error .failed := by
  refine apply_around_of_parts liftNestSchema liftNestDoc 4 9 5 9 _ 1 [.elem 2 [] [] [.elem 3 [] [] []]]
    ⟨[.elem 2 [] [] [], .elem 2 [] [] [.elem 3 [] [] []], .elem 2 [] [] [.elem 1 [] [] []]], 1, 2⟩ _ rfl rfl ?_ ?_ ?_
  · simp [Node.slice, liftNestDoc, Node.kids, sliceKids, inRange, sliceScan, sliceHere, fcut, fcutLoop, depthAt]
  · simp [Slice.insertAt, Slice.size, insertInto, flatInsert, fcut, fcutLoop, fappend, addNode]
  · have hv : liftNestSchema.validContent 2 [.elem 1 [] [] [.elem 2 [] [] [.elem 3 [] [] []]]] = false := by decide
    have hv1 : liftNestSchema.validContent 2 [.elem 3 [] [] []] = true := by decide
    have hv2 : liftNestSchema.validContent 1 [.elem 2 [] [] [.elem 3 [] [] []]] = true := by decide
    simp [Schema.fromReplace, Schema.replace, liftNestDoc, replaceKids, hv, hv1, hv2, rightJoin,
      inRange, depthAt, Slice.wf, spineL, spineR, outer, atLevel, threeWay, threeWay.rightJoinCheck, twoWay,
      splitRight, Schema.close, fromArray, addNodes, addNode, Except.map, Schema.compatibleContent]

/-- `TextStable` is needed (nothing is split here): `p: (text|image) (text|image|span) (text|image)`, `span`
    inline with content `text*`; in `doc(p("a", span("b"), "c"))` lifting `"b"` out of the span
    (`NodeRange(3, 4, 2)`) is approved: `can_replace` accepts `text text text` — the replace merges them into
    `p("abc")` and `p` refuses a single child (`TransformError('Invalid content for node p')`) -/
private def liftTsSchema : Schema :=
  { nodes := #[exNT "doc" false false #[⟨false, [(1, 1)]⟩, ⟨true, [(1, 1)]⟩],
      exNT "p" false true #[⟨false, [(3, 1), (4, 1)]⟩, ⟨false, [(3, 2), (4, 2), (2, 2)]⟩,
        ⟨false, [(3, 3), (4, 3)]⟩, ⟨true, []⟩],
      { exNT "span" false true #[⟨true, [(3, 0)]⟩] with isInline := true },
      exNT "text" true false #[⟨true, []⟩],
      { exNT "image" true false #[⟨true, []⟩] with isText := false }],
    marks := #[], top := 0, textTy := 3 }

private def liftTsDoc : Node :=
  .elem 0 [] [] [.elem 1 [] [] [.text [97] [], .elem 2 [] [] [.text [98] []], .text [99] []]]

example : C01.Valid liftTsSchema liftTsDoc := by rfl
example : fnorm liftTsDoc.kids = true := by rfl
example : liftTarget liftTsSchema liftTsDoc 3 4 2 = some (some 1) := by rfl
example : liftFlatGuard liftTsDoc 3 4 2 1 = true := by rfl
example : liftStep liftTsDoc 3 4 2 1 = .ok (.replaceAround 2 5 3 4 ⟨[], 0, 0⟩ 0 true) := by rfl
example : ¬ C01.TextStable liftTsSchema := by
  intro h
  have := h 1 0 1 2 (by rfl) (by rfl)
  omega
example : liftTsSchema.apply (.replaceAround 2 5 3 4 ⟨[], 0, 0⟩ 0 true) liftTsDoc = .error .failed := by
  refine apply_around_of_parts liftTsSchema liftTsDoc 2 5 3 4 _ 0 [.text [98] []] ⟨[.text [98] []], 0, 0⟩ _ rfl rfl ?_
    (insertAt_empty _ _) ?_
  · simp [Node.slice, liftTsDoc, Node.kids, sliceKids, inRange, sliceScan, sliceHere, fcut, depthAt]
  · have hv : liftTsSchema.validContent 1 [.text [97, 98, 99] []] = false := by decide
    simp [Schema.fromReplace, Schema.replace, liftTsDoc, replaceKids, hv,
      inRange, depthAt, Slice.wf, spineL, spineR, outer, atLevel, fcut, fcutLoop, fappend, addNode, Except.map]

/-! ### an approved lift applies — in general, given that the pieces the split leaves behind are valid

    `liftGuard` (PM/StructEdit.lean) recomputes, level by level, the node the split leaves before the range (the
    children before it plus the copy left one level deeper) and the one it leaves after it, asks that each is valid
    content for its type — failure (a) above — and that `node(target)` accepts its new child list *with the two
    copies in place* — failure (b).  When nothing is split it is the approval itself
    (`liftTarget_lift_applies_flat`).  The tie evaluates it at every approved lift: it held exactly where the real
    `lift` succeeded (in `TextStable` schemas). -/

/-- **`lift_target` approves ∧ `liftGuard` ∧ `TextStable` ⇒ `lift` succeeds** with a schema-valid document that
    keeps the text and leaf nodes — whether or not ancestors of the range have to be split. -/
theorem liftTarget_lift_applies (S : Schema) (hts : C01.TextStable S) (doc : Node)
    (a b depth target : Nat) (f t : RPos) (st : Step)
    (hv : C01.Valid S doc) (hn : fnorm doc.kids = true)
    (hf : doc.resolve a = some f) (ht : doc.resolve b = some t)
    (hab : a ≤ b) (hend : b ≤ f.end_ depth)
    (hfb : depth < f.depth ∨ f.textOffset = 0) (htb : depth < t.depth ∨ t.textOffset = 0)
    (hg : liftGuard S doc a b depth target = true)
    (hc : liftTarget S doc a b depth = some (some target))
    (hb : liftStep doc a b depth target = .ok st) :
    ∃ doc', S.apply st doc = .ok doc' ∧ C01.Valid S doc' ∧
      (ftoks doc'.kids).filter Tok.isContent = (ftoks doc.kids).filter Tok.isContent := by
  obtain ⟨htd, hdf, _⟩ := liftTarget_in_range S doc a b depth target f t hf ht hc
  have hg' : liftGuardR S f t depth target = true := by simpa [liftGuard, hf, ht] using hg
  have hc' : liftTargetR S f t depth = some (some target) := by simpa [liftTarget, hf, ht] using hc
  have hb' : liftStepR f t depth target = .ok st := by simpa [liftStep, hf, ht] using hb
  have R := resolve_resolved hf
  cases doc with
  | text s m => have := R.depth_eq; simp [Node.kids, depthAt] at this; omega
  | leaf ty at_ m => have := R.depth_eq; simp [Node.kids, depthAt] at this; omega
  | elem ty0 a0 m0 K =>
    obtain ⟨⟨doc', hap⟩, f', t', gs, ge, sl, i, rfl, hpay⟩ :=
      lift_applies S hts ty0 a0 m0 K a b depth target f t st hf ht hv hn hab hend hfb htb hg' hc' hb'
    exact ⟨doc', hap, C01.apply_valid S (.replaceAround f' t' gs ge sl i true) _ doc' hv hpay hap,
      lift_keeps_content S _ doc' a b depth target _ hab hb hap⟩

/-- when nothing is split, `liftGuard` follows from the approval (`liftTarget_lift_applies_flat` is this special
    case of `liftTarget_lift_applies`) -/
theorem liftGuard_of_flat (S : Schema) (doc : Node) (a b depth target : Nat) (f t : RPos)
    (hv : C01.Valid S doc) (hf : doc.resolve a = some f) (ht : doc.resolve b = some t)
    (hab : a ≤ b) (hend : b ≤ f.end_ depth)
    (hg : liftFlatGuard doc a b depth target = true)
    (hc : liftTarget S doc a b depth = some (some target)) : liftGuard S doc a b depth target = true := by
  have hg' : liftFlatGuardR f t depth target = true := by simpa [liftFlatGuard, hf, ht] using hg
  have hc' : liftTargetR S f t depth = some (some target) := by simpa [liftTarget, hf, ht] using hc
  simpa [liftGuard, hf, ht] using liftGuardR_of_flat S depth target hf ht hv hab hend hg' hc'

/-- a non-trivial instance: lifting the second paragraph of `exDoc = doc(blockquote(p("a"), p("b")))` to the top
    splits the blockquote in front of it -/
example : liftFlatGuard exDoc 5 6 1 0 = false ∧ liftGuard exSchema exDoc 5 6 1 0 = true := ⟨rfl, rfl⟩
example : ∃ doc', exSchema.apply (.replaceAround 4 8 4 7 ⟨[.elem 1 [] [] []], 1, 0⟩ 1 true) exDoc = .ok doc' ∧
    C01.Valid exSchema doc' ∧
    (ftoks doc'.kids).filter Tok.isContent = (ftoks exDoc.kids).filter Tok.isContent :=
  liftTarget_lift_applies exSchema ex_stable exDoc 5 6 1 0 _ _ _ rfl rfl rfl rfl (by decide) (by decide)
    (.inl (by decide)) (.inl (by decide)) rfl rfl rfl
/-- … the first one: split behind it -/
example : ∃ doc', exSchema.apply (.replaceAround 0 4 1 4 ⟨[.elem 1 [] [] []], 0, 1⟩ 0 true) exDoc = .ok doc' ∧
    C01.Valid exSchema doc' ∧
    (ftoks doc'.kids).filter Tok.isContent = (ftoks exDoc.kids).filter Tok.isContent :=
  liftTarget_lift_applies exSchema ex_stable exDoc 2 3 1 0 _ _ _ rfl rfl rfl rfl (by decide) (by decide)
    (.inl (by decide)) (.inl (by decide)) rfl rfl rfl
/-- … and the middle one of three: split on both sides -/
private def exDoc3 : Node :=
  .elem 0 [] [] [.elem 1 [] [] [.elem 2 [] [] [.text [97] []], .elem 2 [] [] [.text [98] []],
    .elem 2 [] [] [.text [99] []]]]
example : ∃ doc', exSchema.apply (.replaceAround 4 7 4 7 ⟨[.elem 1 [] [] [], .elem 1 [] [] []], 1, 1⟩ 1 true) exDoc3
      = .ok doc' ∧ C01.Valid exSchema doc' ∧
    (ftoks doc'.kids).filter Tok.isContent = (ftoks exDoc3.kids).filter Tok.isContent :=
  liftTarget_lift_applies exSchema ex_stable exDoc3 5 6 1 0 _ _ _ rfl rfl rfl rfl (by decide) (by decide)
    (.inl (by decide)) (.inl (by decide)) rfl rfl rfl
/-- in the two counterexamples above the guard does not hold -/
example : liftGuard liftCopySchema exDoc 5 6 1 0 = false := by rfl
example : liftGuard liftNestSchema liftNestDoc 5 9 3 1 = false := by rfl
/-- … and where nothing is split it does -/
example : liftGuard exSchema liftDoc 2 3 1 0 = true ∧ liftGuard lift2Schema lift2Doc 3 4 2 0 = true := ⟨rfl, rfl⟩

/-! ### LIFT-END -/

/-! ### INSERT-BEGIN -/

/-! ### an approved insertion applies: `insert_point`

    The real edit is `tr.insert(p, n)` → `replace_with(p, p, n)` → `replace(p, p, Slice(Fragment(n), 0, 0))` →
    `replace_step` → `fits_trivially` → `ReplaceStep(p, p, slice)`.  The unguarded statement
      `insertPoint S doc pos ty = some (some p) → S.tyOf n = ty → ∃ doc', S.apply (.replace p p ⟨[n], 0, 0⟩ false) doc = .ok doc'`
    is **false** for the model and for the code alike (upstream too), in two ways (`insertGuard`, PM/InsertGuard.lean):
    (a) `insert_point` tests `can_replace_with(index, index, type)` without marks; the insertion re-validates the
        parent's content, marks included (`insMarkSchema` below: a marked paragraph into `doc`);
    (b) when `pos` is strictly inside a text child and the parent approves, `insert_point` returns `pos` itself; the test
        read "`n` in front of that text", the insertion puts `n` between its two halves (`insTextSchema` below: content
        `image? text* image`).  The guard asks there for `parent.can_replace(index + 1, index + 1, [n, that text])` and a
        cut that does not fall inside a surrogate pair (`insideTextGuardR`); it holds inside every text child of a
        `text*` / `inline*` parent, and at every child boundary. -/

private theorem fnorm_single (n : Node) (h : n.norm = true) : fnorm [n] = true := by
  simp [fnorm, fnormKids, chainOk, h]

/-- **`insert_point` answers `p` ∧ `insertGuard` ∧ `TextStable` ⇒ `tr.insert(p, n)` plans exactly
    `ReplaceStep(p, p, Slice([n], 0, 0))` (it fits trivially), the step applies and the result is schema-valid**, for
    every valid normal-form node `n` of the given type.  (`TextStable`: a text node `n` merges with its neighbours.) -/
theorem insertPoint_insert_applies (S : Schema) (hts : C01.TextStable S) (doc : Node) (pos : Nat) (ty : TypeId)
    (p : Nat) (n : Node) (hdoc : C01.IsElem doc) (hv : C01.Valid S doc) (hn : fnorm doc.kids = true)
    (hvn : S.checkNode n = true) (hnn : n.norm = true) (hty : S.tyOf n = ty)
    (hg : insertGuard S doc p n = true)
    (hc : insertPoint S doc pos ty = some (some p)) :
    replaceStep S doc p p ⟨[n], 0, 0⟩ = .ok (some (.replace p p ⟨[n], 0, 0⟩ false)) ∧
    ∃ doc', S.apply (.replace p p ⟨[n], 0, 0⟩ false) doc = .ok doc' ∧ C01.Valid S doc' := by
  unfold insertPoint at hc
  cases hr : doc.resolve pos with
  | none => simp [hr] at hc
  | some r =>
    simp only [hr] at hc
    have R := resolve_resolved hr
    cases doc with
    | text s m => simp [C01.IsElem, Node.isLeaf] at hdoc
    | leaf t a m => simp [C01.IsElem, Node.isLeaf] at hdoc
    | elem ty0 a0 m0 K =>
      have hn' : fnorm K = true := by simpa [Node.kids] using hn
      have hnC := fnorm_single n hnn
      have hpos := Node.size_pos_of_norm n hnn
      have conv : ∀ (node : Node) (i : Nat), (S.nodeType (S.tyOf node)).allowsMarks n.marks = true →
          S.nodeCanReplaceWith node i i ty = some true → S.nodeCanReplace node i i [n] = some true := by
        intro node i hm hcr
        unfold Schema.nodeCanReplaceWith at hcr
        unfold Schema.nodeCanReplace
        split at hcr
        · simp at hcr
        · rename_i hlen
          rw [if_neg hlen]
          exact canReplace_of_with S _ _ i i n ty hty hm hcr
      have fin : fitsTriviallyO S (.elem ty0 a0 m0 K) p p ⟨[n], 0, 0⟩ = some true →
          (∃ doc', S.apply (.replace p p ⟨[n], 0, 0⟩ false) (.elem ty0 a0 m0 K) = .ok doc') →
          replaceStep S (.elem ty0 a0 m0 K) p p ⟨[n], 0, 0⟩ = .ok (some (.replace p p ⟨[n], 0, 0⟩ false)) ∧
          ∃ doc', S.apply (.replace p p ⟨[n], 0, 0⟩ false) (.elem ty0 a0 m0 K) = .ok doc' ∧ C01.Valid S doc' := by
        intro hft ⟨doc', hap⟩
        refine ⟨replaceStep_trivial S _ p p _ (by simp [Slice.size]; omega) hft, doc', hap, ?_⟩
        exact C01.apply_valid S _ _ doc' hv (by simp [C01.PayloadValid, openValid, rightOpenValid, hvn]) hap
      rcases insertPointR_spec S r ty p hc with ⟨hp, hcr⟩ | ⟨d, sd, i, hd, hat, hcr⟩
      · -- the position itself
        rw [hp, R.pos_eq] at hg ⊢
        simp only [insertGuard, hr, Bool.and_eq_true] at hg
        have hcr' := conv r.parent _ hg.2 hcr
        obtain ⟨hft, hap⟩ := innermost_insert_applies S hts ty0 a0 m0 K pos r hr hv hn' [n] hnC hg.1 hcr'
        rw [hp, R.pos_eq] at fin
        exact fin hft hap
      · -- a boundary of an ancestor
        have hb : d < r.depth ∨ r.textOffset = 0 := .inl hd
        obtain ⟨rp, hrp, htyp, _, _, _⟩ := boundary_resolve S hr hn' d sd i p hb hat
        simp only [insertGuard, hrp, Bool.and_eq_true] at hg
        rw [htyp] at hg
        have hcr' := conv (r.node d) i hg.2 hcr
        have hap := boundary_insert_applies S hts ty0 a0 m0 K pos r hr hv hn' d sd i p hb hat [n] hnC hcr'
        have hft := boundary_fitsTrivially S hr hn' d sd i p hb hat [n]
        rw [hcr'] at hft
        exact fin hft hap

/-- a non-trivial instance of all hypotheses: a blockquote for position 2 of `exDoc` (start of the first paragraph) goes
    in front of that paragraph, at position 1 -/
example : ∃ doc', exSchema.apply (.replace 1 1 ⟨[.elem 1 [] [] [.elem 2 [] [] []]], 0, 0⟩ false) exDoc = .ok doc' ∧
    C01.Valid exSchema doc' :=
  (insertPoint_insert_applies exSchema ex_stable exDoc 2 1 1 (.elem 1 [] [] [.elem 2 [] [] []]) rfl rfl rfl rfl rfl rfl
    rfl rfl).2
example : insertGuard exSchema exDoc 1 (.elem 1 [] [] [.elem 2 [] [] []]) = true := by rfl

/-- … and strictly inside a text child: `doc(p("ab"))`, the text node "x" at position 2 gives `doc(p("axb"))` -/
private def exDocT : Node := .elem 0 [] [] [.elem 2 [] [] [.text [97, 98] []]]
example : insertPoint exSchema exDocT 2 3 = some (some 2) ∧ insertGuard exSchema exDocT 2 (.text [120] []) = true ∧
    insideTextGuard exSchema exDocT 2 [.text [120] []] = true := ⟨rfl, rfl, rfl⟩
example : ∃ doc', exSchema.apply (.replace 2 2 ⟨[.text [120] []], 0, 0⟩ false) exDocT = .ok doc' ∧
    C01.Valid exSchema doc' :=
  (insertPoint_insert_applies exSchema ex_stable exDocT 2 3 2 (.text [120] []) rfl rfl rfl rfl rfl rfl rfl rfl).2

/-- the guard is needed, (a): `doc: block+` (no marks allowed on its children), a paragraph carrying `em` -/
private def insMarkSchema : Schema :=
  { nodes := #[{ exNT "doc" false false blocksDfa with markSet := some [] }, exNT "blockquote" false false blocksDfa,
      exNT "paragraph" false true #[⟨true, [(3, 0)]⟩], exNT "text" true false #[⟨true, []⟩]],
    marks := #[⟨"em", [0], true, []⟩], top := 0, textTy := 3 }
example : C01.Valid insMarkSchema exDoc := by rfl
example : insMarkSchema.checkNode (.elem 2 [] [⟨0, []⟩] []) = true := by rfl
/-- the helper approves a paragraph at position 0 … -/
example : insertPoint insMarkSchema exDoc 0 2 = some (some 0) := by rfl
/-- … the guard does not hold for the marked paragraph … -/
example : insertGuard insMarkSchema exDoc 0 (.elem 2 [] [⟨0, []⟩] []) = false := by rfl
/-- … and the insertion is refused (`Invalid content for node doc`) -/
theorem insertPoint_needs_guard_marks :
    insMarkSchema.apply (.replace 0 0 ⟨[.elem 2 [] [⟨0, []⟩] []], 0, 0⟩ false) exDoc = .error .failed := by
  have hv : insMarkSchema.validContent 0 [.elem 2 [] [⟨0, []⟩] [],
      .elem 1 [] [] [.elem 2 [] [] [.text [97] []], .elem 2 [] [] [.text [98] []]]] = false := by decide
  simp [Schema.apply, Schema.fromReplace, Schema.replace, exDoc, replaceKids,
    inRange, depthAt, Slice.wf, spineL, spineR, outer, atLevel, fcut, fcutLoop, fappend, addNode, hv, Except.map]

/-- the guard is needed, (b): `p: image? text* image`; in `doc(p("ab", image))` an image is approved at position 2,
    between "a" and "b" (`can_replace_with(0, 0, image)`: `image text image`) -/
private def insTextSchema : Schema :=
  { nodes := #[cexNT "doc" false #[⟨false, [(1, 1)]⟩, ⟨true, [(1, 1)]⟩],
      cexNT "p" false #[⟨false, [(3, 1), (2, 2)]⟩, ⟨true, [(2, 2), (3, 3)]⟩, ⟨false, [(2, 2), (3, 3)]⟩, ⟨true, []⟩],
      { cexNT "text" true #[⟨true, []⟩] with isText := true, isInline := true },
      { cexNT "image" true #[⟨true, []⟩] with isInline := true }],
    marks := #[], top := 0, textTy := 2 }
example : C01.Valid insTextSchema splitCexDoc := by rfl
example : textStableC insTextSchema = true := by decide
example : insertPoint insTextSchema splitCexDoc 2 3 = some (some 2) := by rfl
example : insertGuard insTextSchema splitCexDoc 2 (.leaf 3 [] []) = false := by rfl
/-- … and the insertion is refused: `p("a", image, "b", image)` -/
theorem insertPoint_needs_guard_text :
    insTextSchema.apply (.replace 2 2 ⟨[.leaf 3 [] []], 0, 0⟩ false) splitCexDoc = .error .failed := by
  have hv : insTextSchema.validContent 1 [.text [97] [], .leaf 3 [] [], .text [98] [], .leaf 3 [] []] = false := by decide
  have c1 : cutText [97, 98] 0 1 = .ok [97] := by rfl
  have c2 : cutText [97, 98] 1 2 = .ok [98] := by rfl
  simp [Schema.apply, Schema.fromReplace, Schema.replace, splitCexDoc, replaceKids,
    inRange, depthAt, Slice.wf, spineL, spineR, outer, atLevel, fcut, fcutLoop, fappend, addNode, hv, Except.map,
    c1, c2]

/-! ### an approved insertion applies: `drop_point`

    `drop_point` answers in two passes.  The first asks, walking up from `pos`, `node(d).can_replace(i, i, content)` for
    the slice's content below its open start; for a **closed** slice that is `fits_trivially` at the returned position:
    `tr.replace(p, p, slice)` (the edit harness/props/c12.py performs) is `ReplaceStep(p, p, slice)`.  Guard
    (`dropGuard` = `insideTextGuard`, as (b) above; counterexample `dropPoint_needs_guard` below).  For an open slice, or an
    answer of the second pass (a wrapping for the first node exists), the edit goes through the Fitter:
    `dropPoint_drop_applies_partial`. -/

/-- the first pass's answer is `drop_point`'s answer -/
theorem dropPoint_of_pass1 (S : Schema) (doc : Node) (pos : Nat) (sl : Slice) (p : Nat)
    (hsz : fsize sl.content ≠ 0) (h : dropPointPass1 S doc pos sl = some (some p)) :
    dropPoint S doc pos sl = some (some p) := by
  unfold dropPointPass1 at h
  unfold dropPoint
  cases hr : doc.resolve pos with
  | none => simp [hr] at h
  | some r =>
    simp only [hr] at h ⊢
    unfold dropPointR
    rw [if_neg hsz]
    cases hc : dropContent sl.openStart sl.content with
    | none => simp [hc] at h
    | some c =>
      simp only [hc] at h ⊢
      rw [h]

/-- **the first pass of `drop_point` answers `p` for a closed slice ∧ `dropGuard` ∧ `TextStable` ⇒ `tr.replace(p, p, slice)`
    plans exactly `ReplaceStep(p, p, slice)`, the step applies and the result is schema-valid** (valid normal-form
    document; the slice's content valid and in normal form) -/
theorem dropPoint_drop_applies_closed (S : Schema) (hts : C01.TextStable S) (doc : Node) (pos : Nat) (C : List Node)
    (p : Nat) (hdoc : C01.IsElem doc) (hv : C01.Valid S doc) (hn : fnorm doc.kids = true)
    (hvC : S.checkKids C = true) (hnC : fnorm C = true) (hsz : fsize C ≠ 0)
    (hg : dropGuard S doc p C = true)
    (hc : dropPointPass1 S doc pos ⟨C, 0, 0⟩ = some (some p)) :
    dropPoint S doc pos ⟨C, 0, 0⟩ = some (some p) ∧
    replaceStep S doc p p ⟨C, 0, 0⟩ = .ok (some (.replace p p ⟨C, 0, 0⟩ false)) ∧
    ∃ doc', S.apply (.replace p p ⟨C, 0, 0⟩ false) doc = .ok doc' ∧ C01.Valid S doc' := by
  refine ⟨dropPoint_of_pass1 S doc pos _ p hsz hc, ?_⟩
  unfold dropPointPass1 at hc
  cases hr : doc.resolve pos with
  | none => simp [hr] at hc
  | some r =>
    simp only [hr, dropContent] at hc
    have R := resolve_resolved hr
    cases doc with
    | text s m => simp [C01.IsElem, Node.isLeaf] at hdoc
    | leaf t a m => simp [C01.IsElem, Node.isLeaf] at hdoc
    | elem ty0 a0 m0 K =>
      have hn' : fnorm K = true := by simpa [Node.kids] using hn
      obtain ⟨d, sd, i, hd, hcase, hat, hcr⟩ := dropLoop_spec S r C (r.depth + 1) p (Nat.le_refl _) hc
      have fin : fitsTriviallyO S (.elem ty0 a0 m0 K) p p ⟨C, 0, 0⟩ = some true →
          (∃ doc', S.apply (.replace p p ⟨C, 0, 0⟩ false) (.elem ty0 a0 m0 K) = .ok doc') →
          replaceStep S (.elem ty0 a0 m0 K) p p ⟨C, 0, 0⟩ = .ok (some (.replace p p ⟨C, 0, 0⟩ false)) ∧
          ∃ doc', S.apply (.replace p p ⟨C, 0, 0⟩ false) (.elem ty0 a0 m0 K) = .ok doc' ∧ C01.Valid S doc' := by
        intro hft ⟨doc', hap⟩
        refine ⟨replaceStep_trivial S _ p p _ (by simp [Slice.size]; omega) hft, doc', hap, ?_⟩
        exact C01.apply_valid S _ _ doc' hv (by simp [C01.PayloadValid, openValid, rightOpenValid, hvC]) hap
      rcases hcase with hlt | hp
      · have hb : d < r.depth ∨ r.textOffset = 0 := .inl hlt
        have hap := boundary_insert_applies S hts ty0 a0 m0 K pos r hr hv hn' d sd i p hb hat C hnC hcr
        have hft := boundary_fitsTrivially S hr hn' d sd i p hb hat C
        rw [hcr] at hft
        exact fin hft hap
      · -- the position itself
        obtain ⟨hde, _, hi, hp⟩ := hp
        subst hde
        rw [hp, R.pos_eq] at hg fin ⊢
        simp only [dropGuard, insideTextGuard, hr] at hg
        rw [hi] at hcr
        obtain ⟨hft, hap⟩ := innermost_insert_applies S hts ty0 a0 m0 K pos r hr hv hn' C hnC hg hcr
        exact fin hft hap

/-- a non-trivial instance of all hypotheses: `blockquote(p)` dropped at position 2 of `exDoc` goes to position 1 -/
example : dropPoint exSchema exDoc 2 ⟨[.elem 1 [] [] [.elem 2 [] [] []]], 0, 0⟩ = some (some 1) ∧
    replaceStep exSchema exDoc 1 1 ⟨[.elem 1 [] [] [.elem 2 [] [] []]], 0, 0⟩
      = .ok (some (.replace 1 1 ⟨[.elem 1 [] [] [.elem 2 [] [] []]], 0, 0⟩ false)) ∧
    ∃ doc', exSchema.apply (.replace 1 1 ⟨[.elem 1 [] [] [.elem 2 [] [] []]], 0, 0⟩ false) exDoc = .ok doc' ∧
      C01.Valid exSchema doc' :=
  dropPoint_drop_applies_closed exSchema ex_stable exDoc 2 [.elem 1 [] [] [.elem 2 [] [] []]] 1 rfl rfl rfl rfl rfl
    (by decide) rfl rfl

/-- … and strictly inside a text child: the closed slice `["x"]` dropped at position 2 of `doc(p("ab"))` -/
example : dropPoint exSchema exDocT 2 ⟨[.text [120] []], 0, 0⟩ = some (some 2) ∧
    replaceStep exSchema exDocT 2 2 ⟨[.text [120] []], 0, 0⟩ = .ok (some (.replace 2 2 ⟨[.text [120] []], 0, 0⟩ false)) ∧
    ∃ doc', exSchema.apply (.replace 2 2 ⟨[.text [120] []], 0, 0⟩ false) exDocT = .ok doc' ∧ C01.Valid exSchema doc' :=
  dropPoint_drop_applies_closed exSchema ex_stable exDocT 2 [.text [120] []] 2 rfl rfl rfl rfl rfl (by decide) rfl rfl

/-- the guard is needed: in `insTextSchema`, `doc(p("ab", image))`, the closed slice `[image]` dropped at position 2 -/
example : dropPointPass1 insTextSchema splitCexDoc 2 ⟨[.leaf 3 [] []], 0, 0⟩ = some (some 2) := by rfl
example : dropGuard insTextSchema splitCexDoc 2 [.leaf 3 [] []] = false := by rfl
/-- (the refused step is `insertPoint_needs_guard_text`) -/
theorem dropPoint_needs_guard :
    dropPoint insTextSchema splitCexDoc 2 ⟨[.leaf 3 [] []], 0, 0⟩ = some (some 2) ∧
    insTextSchema.apply (.replace 2 2 ⟨[.leaf 3 [] []], 0, 0⟩ false) splitCexDoc = .error .failed :=
  ⟨rfl, insertPoint_needs_guard_text⟩

/-- **partial**: for an open slice, or an answer of `drop_point`'s second pass, `tr.replace(p, p, slice)` goes through
    the Fitter.  Proved: whatever step the Fitter plans, if its payload is valid and it applies, the result is valid
    (C01).  **Missing** (full statement:
      `dropPoint S doc pos sl = some (some p) → ∃ st doc', replaceStep S doc p p sl = .ok (some st) ∧
         S.apply st doc = .ok doc' ∧ C01.Valid S doc'`):
    that the Fitter returns a step at the drop point and that this step applies — there is no success theorem for the
    Fitter (Props/C11.lean has termination, range, content preservation), and the statement is false without a guard
    excluding the open finding C12-fitter-partial-node (`Slice.noPartialNode`, PM/Fitter.lean: an open slice whose
    open node cannot be completed at the target).  The tie (harness/props/c12.py) checks the full statement on the real
    code for bundled schemas. -/
theorem dropPoint_drop_applies_partial (S : Schema) (doc doc' : Node) (pos : Nat) (sl : Slice) (p : Nat) (st : Step)
    (hv : C01.Valid S doc) (_hc : dropPoint S doc pos sl = some (some p))
    (_hfit : replaceStep S doc p p sl = .ok (some st)) (hpay : C01.PayloadValid S doc st)
    (hap : S.apply st doc = .ok doc') : C01.Valid S doc' :=
  C01.apply_valid S st doc doc' hv hpay hap

/-! ### a join point is joinable: `join_point`

    `join_point(doc, pos, dir)` runs, at `pos` and then at the boundary before (`dir < 0`) / after (`dir > 0`) each
    ancestor of `pos`, the test of `can_join` plus "the node before is not a textblock".  So its answer is a position
    `can_join` approves, and `canJoin_join_applies` takes over (same guards: `joinGuard`, `TextStable`).
    `dir ≠ 0`: with `dir = 0` the code looks at the boundary *before* the ancestor and answers the position *after* it. -/

/-- **`join_point` answers `p` ⇒ `can_join(doc, p)` is `True`** -/
theorem joinPoint_canJoin (S : Schema) (doc : Node) (pos : Nat) (dir : Int) (p : Nat) (hdoc : C01.IsElem doc)
    (hn : fnorm doc.kids = true) (hdir : dir ≠ 0)
    (hc : joinPoint S doc pos dir = some (some p)) : canJoin S doc p = some (some true) := by
  unfold joinPoint at hc
  cases hr : doc.resolve pos with
  | none => simp [hr] at hc
  | some r =>
    simp only [hr] at hc
    cases doc with
    | text s m => simp [C01.IsElem, Node.isLeaf] at hdoc
    | leaf t a m => simp [C01.IsElem, Node.isLeaf] at hdoc
    | elem ty0 a0 m0 K =>
      exact joinPointLoop_canJoin S hr (by simpa [Node.kids] using hn) dir hdir r.depth pos p (Nat.le_refl _)
        (fun _ => rfl) (fun h => absurd h (Nat.lt_irrefl _)) hc

/-- **`join_point` answers `p` ∧ `joinGuard` at `p` ∧ `TextStable` ⇒ `join(p)` succeeds** with a schema-valid document
    that keeps the text and leaf nodes -/
theorem joinPoint_join_applies (S : Schema) (hts : C01.TextStable S) (doc : Node) (pos : Nat) (dir : Int) (p : Nat)
    (st : Step) (hdoc : C01.IsElem doc) (hv : C01.Valid S doc) (hn : fnorm doc.kids = true) (hdir : dir ≠ 0)
    (hg : joinGuard S doc p = true)
    (hc : joinPoint S doc pos dir = some (some p)) (hb : joinStep p 1 = .ok st) :
    ∃ doc', S.apply st doc = .ok doc' ∧ C01.Valid S doc' ∧
      (ftoks doc'.kids).filter Tok.isContent = (ftoks doc.kids).filter Tok.isContent :=
  canJoin_join_applies S hts doc p st hv hn hg (joinPoint_canJoin S doc pos dir p hdoc hn hdir hc) hb

/-- a non-trivial instance: from inside the second blockquote of `exDoc2` the join point to the left is 5 -/
example : ∃ doc', exSchema.apply (.replace 4 6 Slice.empty true) exDoc2 = .ok doc' ∧ C01.Valid exSchema doc' ∧
    (ftoks doc'.kids).filter Tok.isContent = (ftoks exDoc2.kids).filter Tok.isContent :=
  joinPoint_join_applies exSchema ex_stable exDoc2 7 (-1) 5 _ rfl rfl rfl (by decide) rfl rfl rfl
/-- the guard is needed: in `cexSchema` (above) `join_point` answers 3, `joinGuard` fails and `join(3)` is refused
    ("Cannot join B onto A") -/
theorem joinPoint_needs_guard : joinPoint cexSchema cexDoc 3 (-1) = some (some 3) ∧ joinGuard cexSchema cexDoc 3 = false ∧
    cexSchema.compatibleContent 2 1 = false := ⟨rfl, rfl, rfl⟩
/-- `dir ≠ 0` is needed: with `dir = 0` the code tests the boundary *before* each ancestor and answers the position
    *after* it; from inside the second blockquote of `exDoc2` it answers 10 (the end of the document), where `can_join`
    says `None` -/
example : joinPoint exSchema exDoc2 7 0 = some (some 10) ∧ canJoin exSchema exDoc2 10 = some none := ⟨rfl, rfl⟩

/-! ### an approved change of type applies: `can_change_type` / `set_node_markup`

    `can_change_type(doc, pos, type)` is `parent.can_replace_with(index, index + 1, type)`.  For a non-leaf node
    `set_node_markup(pos, type, attrs, marks)` then emits `ReplaceAroundStep(pos, pos + size, pos + 1, pos + size - 1,
    Slice([new empty node], 0, 0), 1, structure=True)` (`retypeStep`, PM/TypePlan.lean).  The unguarded statement
      `canChangeType S doc pos ty = some true → ∃ doc', S.apply (retypeStep pos (pos + node.size) newNode) doc = .ok doc'`
    is **false** for model and code alike: `can_change_type` does not ask whether the new type accepts the node's children
    (`changeTypeCex` below: a paragraph with text changed into a blockquote; the real `set_node_markup` raises
    `ValueError("Invalid content for node type blockquote")` by its own test, the step itself fails "Content does not fit
    in gap").  `changeTypeGuard` (PM/InsertGuard.lean): the new type accepts the children, the parent allows the new
    node's marks. -/

/-- **`can_change_type` approves ∧ `changeTypeGuard` ⇒ `node_at(pos)` is the node after `pos` and the step
    `set_node_markup` emits for it applies, giving a schema-valid document** (valid normal-form document; the node after
    `pos` a non-leaf node; the new node `type.create(attrs, None, ms)` with a canonical mark set) -/
theorem canChangeType_setNodeMarkup_applies (S : Schema) (doc : Node) (pos : Nat) (ty : TypeId) (a : Attrs)
    (ms : Marks) (r : RPos) (tyN : TypeId) (aN : Attrs) (mN : Marks) (kidsN : List Node)
    (hdoc : C01.IsElem doc) (hv : C01.Valid S doc) (hn : fnorm doc.kids = true)
    (hr : doc.resolve pos = some r)
    (hnode : r.parent.kids[r.index r.depth]? = some (.elem tyN aN mN kidsN))
    (hcan : canonicalMarks S ms = true)
    (hg : changeTypeGuard S doc pos ty ms = true)
    (hc : canChangeType S doc pos ty = some true) :
    doc.nodeAt pos = .ok (some (.elem tyN aN mN kidsN)) ∧
    ∃ doc', S.apply (retypeStep pos (pos + (Node.elem tyN aN mN kidsN).size) (.elem ty a ms [])) doc = .ok doc' ∧
      C01.Valid S doc' := by
  have R := resolve_resolved hr
  simp only [changeTypeGuard, hr, hnode, Bool.and_eq_true] at hg
  have hg1 : S.validContent ty kidsN = true := hg.1
  have hg2 := hg.2
  simp only [canChangeType, hr] at hc
  have hto : r.textOffset = 0 := by
    apply Classical.byContradiction
    intro ho
    obtain ⟨s, m, hs, _⟩ := R.in_text ho
    rw [hs] at hnode
    simp at hnode
  cases doc with
  | text s m => simp [C01.IsElem, Node.isLeaf] at hdoc
  | leaf t a' m => simp [C01.IsElem, Node.isLeaf] at hdoc
  | elem ty0 a0 m0 K =>
    have hn' : fnorm K = true := by simpa [Node.kids] using hn
    obtain ⟨tyP, aP, mP, ctx, eP, hl⟩ := Resolved.lvl hr hn' r.depth (Nat.le_refl _)
    obtain ⟨hsplit, hidx⟩ := list_split_at _ _ _ hnode
    have E := R.entry r.depth (Nat.le_refl _)
    have hpe : (r.entry r.depth).pos = r.start r.depth + fsize (r.parent.kids.take (r.index r.depth)) := E.pos_eq
    have hple := E.pos_le
    have hpos : pos = r.start r.depth + fsize (r.parent.kids.take (r.index r.depth)) := by
      unfold RPos.textOffset at hto
      rw [R.pos_eq] at hto
      omega
    have hty : S.tyOf r.parent = tyP := by
      show S.tyOf (r.node r.depth) = tyP
      rw [eP]; rfl
    have hplen : (r.parent.kids.take (r.index r.depth)).length = r.index r.depth := by
      rw [List.length_take]; omega
    have hl' : Lvl ty0 K (r.start r.depth) r.depth tyP
        (r.parent.kids.take (r.index r.depth) ++ .elem tyN aN mN kidsN :: r.parent.kids.drop (r.index r.depth + 1))
        ctx := by
      rw [← hsplit]; exact hl
    have hnL := fnormKids_of_fnorm (hl'.norm hn')
    simp only [fnormKids_append, Bool.and_eq_true] at hnL
    have hcr : S.canReplaceWith tyP
        (r.parent.kids.take (r.index r.depth) ++ .elem tyN aN mN kidsN :: r.parent.kids.drop (r.index r.depth + 1))
        (r.parent.kids.take (r.index r.depth)).length ((r.parent.kids.take (r.index r.depth)).length + 1) ty []
        = some true := by
      unfold Schema.nodeCanReplaceWith at hc
      split at hc
      · simp at hc
      · rw [← hsplit, hplen, ← hty]; exact hc
    rw [hty] at hg2
    obtain ⟨hsl, hins, hap⟩ := retype_applies S ty0 a0 m0 K hv hn' tyN aN mN kidsN hl' ty a ms hcr hg1 hg2
    rw [← hpos] at hsl hap
    have hnat : (Node.elem ty0 a0 m0 K).nodeAt pos = .ok (some (.elem tyN aN mN kidsN)) := by
      rw [hpos]
      exact nodeAtKids_lvlR hl' _ _ _ rfl hnL.1
    refine ⟨hnat, _, by simpa [Node.size_elem] using hap, ?_⟩
    have hckN : S.checkKids kidsN = true := by
      have hpv := path_valid S R hv r.depth (Nat.le_refl _)
      have hcn := checkNode_child S r.parent (.elem tyN aN mN kidsN) hpv (List.mem_of_getElem? hnode)
      simp only [checkNode_elem, Bool.and_eq_true] at hcn
      exact hcn.2
    refine C01.apply_valid S _ _ _ hv ?_ hap
    intro gap ins h1 h2
    rw [hsl] at h1
    simp only [Except.ok.injEq] at h1
    subst h1
    rw [hins] at h2
    simp only [Except.ok.injEq, Option.some.injEq] at h2
    subst h2
    simp [openValid, rightOpenValid, checkNode_elem, hg1, hcan, hckN]

/-- a non-trivial instance of all hypotheses: the blockquote of `liftDoc = doc(blockquote(p("a")))` keeps its type (a
    change of attributes or marks only) — `can_change_type(doc, 0, blockquote)` -/
example : canChangeType exSchema liftDoc 0 1 = some true ∧ changeTypeGuard exSchema liftDoc 0 1 [] = true := ⟨rfl, rfl⟩
example : ∃ doc', exSchema.apply (retypeStep 0 5 (.elem 1 [] [] [])) liftDoc = .ok doc' ∧ C01.Valid exSchema doc' :=
  (canChangeType_setNodeMarkup_applies exSchema liftDoc 0 1 [] [] ((liftDoc.resolve 0).get rfl) 1 [] []
    [.elem 2 [] [] [.text [97] []]] rfl rfl rfl (Option.some_get _).symm rfl rfl rfl rfl).2

/-- the guard is needed: in `exDoc = doc(blockquote(p("a"), p("b")))` the first paragraph (position 1) may become a
    blockquote as far as `can_change_type` looks (`blockquote: block+` takes a blockquote there), but a blockquote does
    not accept text -/
theorem canChangeType_needs_guard : canChangeType exSchema exDoc 1 1 = some true ∧
    changeTypeGuard exSchema exDoc 1 1 [] = false ∧
    exSchema.apply (retypeStep 1 4 (.elem 1 [] [] [])) exDoc = .error .failed := by
  refine ⟨rfl, rfl, ?_⟩
  have hc1 : contentBetween exDoc 1 2 = some false :=
    contentBetween_closesOpens _ _ _ (by rfl) (by omega) (by decide) (by rfl)
  have hc2 : contentBetween exDoc 3 4 = some false :=
    contentBetween_closesOpens _ _ _ (by rfl) (by omega) (by decide) (by rfl)
  have hs : exDoc.slice 2 3 = .ok ⟨[.text [97] []], 0, 0⟩ := by
    simp [Node.slice, exDoc, Node.kids, sliceKids, inRange, sliceScan, sliceHere, fcut, fcutLoop, depthAt, cutText]
  have hcr : exSchema.validContent 1 [.text [97] []] = false := by decide
  have hi : Slice.insertAt exSchema ⟨[.elem 1 [] [] []], 0, 0⟩ 1 [.text [97] []] = .ok none := by
    simp [Slice.insertAt, insertInto, flatInsert, fcut, fappend, hcr]
  simp [retypeStep, Schema.apply, hc1, hc2, hs, hi]

/-! ### the second pass of `drop_point` (closed slice): always through the Fitter

    When the first pass refuses the content at every depth, the second pass looks, at each depth, for a wrapping of the
    slice's first node that the parent accepts there (`find_wrapping`, then `can_replace_with(i, i, wrapping[0])`).  The
    follow-up edit `tr.replace(p, p, slice)` inserts the *unwrapped* slice: it never fits trivially at such an answer —
    `fits_trivially(p, p, slice)` is the very test the first pass made at that depth and index, and it failed — so the
    step is whatever the Fitter plans (its `find_fittable` pass 2 finds the wrapping again).  No case of a second-pass
    answer avoids the Fitter. -/

/-- **an answer of the second pass is handed to the Fitter**: `fits_trivially` is `False` at `p`, and `replace_step` is
    `Fitter(p, p, slice).fit()` -/
theorem dropPoint_pass2_through_fitter (S : Schema) (doc : Node) (pos : Nat) (C : List Node) (p : Nat)
    (hdoc : C01.IsElem doc) (hn : fnorm doc.kids = true) (hsz : fsize C ≠ 0)
    (h1 : dropPointPass1 S doc pos ⟨C, 0, 0⟩ = some none)
    (hc : dropPoint S doc pos ⟨C, 0, 0⟩ = some (some p)) :
    fitsTriviallyO S doc p p ⟨C, 0, 0⟩ = some false ∧
    ∃ rp, doc.resolve p = some rp ∧
      replaceStep S doc p p ⟨C, 0, 0⟩ = fitterFit S doc rp rp ⟨C, 0, 0⟩ (fitFuel S ⟨C, 0, 0⟩) := by
  unfold dropPointPass1 at h1
  unfold dropPoint at hc
  cases hr : doc.resolve pos with
  | none => simp [hr] at hc
  | some r =>
    simp only [hr, dropContent] at h1 hc
    unfold dropPointR at hc
    simp only [hsz, if_false, dropContent, h1] at hc
    split at hc
    · rename_i hcond
      cases doc with
      | text s m => simp [C01.IsElem, Node.isLeaf] at hdoc
      | leaf t a m => simp [C01.IsElem, Node.isLeaf] at hdoc
      | elem ty0 a0 m0 K =>
        have hft := dropPass2_not_trivial S hr (by simpa [Node.kids] using hn) C p h1 hc
        obtain ⟨rf, rt, hrf, hrt, hrs⟩ := replaceStep_nontrivial S _ p p ⟨C, 0, 0⟩
          (by simp [Slice.size]; omega) hft
        rw [hrf] at hrt
        simp only [Option.some.injEq] at hrt
        subst hrt
        exact ⟨hft, rf, hrf, hrs⟩
    · simp at hc

/-- a non-trivial instance: the text "x" dropped at the start of `exDoc` — `doc` does not take text (first pass), a
    paragraph around it would fit (second pass): position 0, through the Fitter -/
example : dropPointPass1 exSchema exDoc 0 ⟨[.text [120] []], 0, 0⟩ = some none ∧
    dropPoint exSchema exDoc 0 ⟨[.text [120] []], 0, 0⟩ = some (some 0) ∧
    fitsTriviallyO exSchema exDoc 0 0 ⟨[.text [120] []], 0, 0⟩ = some false := ⟨rfl, rfl, rfl⟩

/-! ### a node with marks the parent does not allow: `tr.insert` succeeds through the Fitter

    For a node `n` whose marks the parent of the insert point does not allow, `fits_trivially` is `False` (it asks
    `can_replace`, marks included) and `tr.insert(p, n)` goes through the Fitter, whose `place_nodes` puts in
    `n.mark(parent.type.allowed_marks(n.marks))` (`strippedAt`, PM/InsertGuard.lean): on the real code the insertion succeeds
    with the offending marks dropped (`insMarkSchema` above: `tr.insert(0, em(paragraph))` gives `doc(paragraph, …)`;
    `ReplaceStep(0, 0, Slice([em(paragraph)]))` itself is refused).
    **Partial**: proved is that the step with the stripped node applies and gives a valid document — whenever the Fitter
    answers that step.  **Missing** (full statement: `insertPoint … = some (some p) → ∃ st doc', replaceStep S doc p p
    ⟨[n], 0, 0⟩ = .ok (some st) ∧ S.apply st doc = .ok doc' ∧ C01.Valid S doc'`): that the Fitter's answer *is*
    `ReplaceStep(p, p, Slice([strippedAt n], 0, 0))`.  The Fitter model (PM/Fitter.lean) has no success theorem; its run
    on a closed one-node slice goes through `find_fittable`, `place_nodes`, `must_move_inline`, `close` (`findCloseLevel`,
    `contentAfterFits`) — only totality is proved, for inline leaf/text slices (`C11.insertInline_total`).  The two
    kernel-evaluated instances below are the model's Fitter on the counterexample. -/

private theorem allowsMarks_allowed (nt : NodeType) (ms : Marks) : nt.allowsMarks (nt.allowedMarks ms) = true := by
  simp [NodeType.allowsMarks, NodeType.allowedMarks, List.all_filter]

theorem insertPoint_insert_succeeds_marked_partial (S : Schema) (hts : C01.TextStable S) (doc : Node) (pos : Nat)
    (ty : TypeId) (p : Nat) (n : Node) (hdoc : C01.IsElem doc) (hv : C01.Valid S doc) (hn : fnorm doc.kids = true)
    (hvn : S.checkNode (strippedAt S doc p n) = true) (hnn : n.norm = true) (hty : S.tyOf n = ty)
    (hg : insideTextGuard S doc p [strippedAt S doc p n] = true)
    (hc : insertPoint S doc pos ty = some (some p))
    (_hfit : replaceStep S doc p p ⟨[n], 0, 0⟩ = .ok (some (.replace p p ⟨[strippedAt S doc p n], 0, 0⟩ false))) :
    ∃ doc', S.apply (.replace p p ⟨[strippedAt S doc p n], 0, 0⟩ false) doc = .ok doc' ∧ C01.Valid S doc' := by
  have hnn' : (strippedAt S doc p n).norm = true := by
    unfold strippedAt; split <;> cases n <;> simp_all [Node.withMarks, Node.norm]
  have hty' : S.tyOf (strippedAt S doc p n) = ty := by
    rw [← hty]; unfold strippedAt; split <;> cases n <;> rfl
  have hg' : insertGuard S doc p (strippedAt S doc p n) = true := by
    unfold insertGuard
    unfold insideTextGuard at hg
    cases hrp : doc.resolve p with
    | none => rfl
    | some rp =>
      simp only [hrp] at hg ⊢
      rw [hg, Bool.true_and]
      have : (strippedAt S doc p n).marks = (S.nodeType (S.tyOf rp.parent)).allowedMarks n.marks := by
        unfold strippedAt; rw [hrp]; cases n <;> rfl
      rw [this]
      exact allowsMarks_allowed _ _
  exact (insertPoint_insert_applies S hts doc pos ty p _ hdoc hv hn hvn hnn' hty' hg' hc).2

/-- the model's Fitter on the counterexample: `tr.insert(0, em(paragraph))` in `insMarkSchema` plans the insertion of
    the paragraph without the mark (as the real code does) -/
example : strippedAt insMarkSchema exDoc 0 (.elem 2 [] [⟨0, []⟩] []) = .elem 2 [] [] [] := by rfl
example : (match replaceStep insMarkSchema exDoc 0 0 ⟨[.elem 2 [] [⟨0, []⟩] []], 0, 0⟩ with
     | .ok (some (.replace 0 0 sl' false)) => sl' == ⟨[.elem 2 [] [] []], 0, 0⟩
     | _ => false) = true := by decide +kernel
/-- … and on the second-pass drop point above: the text is wrapped in a paragraph -/
example : (match replaceStep exSchema exDoc 0 0 ⟨[.text [120] []], 0, 0⟩ with
     | .ok (some (.replace 0 0 sl' false)) => sl' == ⟨[.elem 2 [] [] [.text [120] []]], 0, 0⟩
     | _ => false) = true := by decide +kernel

/-- **… and for a leaf node** (`set_node_markup` on a leaf or text node is `replace_with(pos, pos + node_size, new_node)`):
    `can_change_type` approves ∧ `changeTypeGuard` (here: the new leaf type accepts empty content, the parent allows the
    new node's marks) ∧ `pos` is the start of the node ⇒ `node_at(pos)` is that node, the request fits trivially —
    `replace_step` is `ReplaceStep(pos, pos + size, Slice([new node], 0, 0))` — the step applies and the result is valid -/
theorem canChangeType_setNodeMarkup_leaf_applies (S : Schema) (doc : Node) (pos : Nat) (ty : TypeId) (a : Attrs)
    (ms : Marks) (r : RPos) (c : Node)
    (hdoc : C01.IsElem doc) (hv : C01.Valid S doc) (hn : fnorm doc.kids = true)
    (hr : doc.resolve pos = some r) (hto : r.textOffset = 0)
    (hnode : r.parent.kids[r.index r.depth]? = some c) (hcl : c.isLeaf = true)
    (hcan : canonicalMarks S ms = true)
    (hg : changeTypeGuard S doc pos ty ms = true)
    (hc : canChangeType S doc pos ty = some true) :
    doc.nodeAt pos = .ok (some c) ∧
    replaceStep S doc pos (pos + c.size) ⟨[.leaf ty a ms], 0, 0⟩
      = .ok (some (.replace pos (pos + c.size) ⟨[.leaf ty a ms], 0, 0⟩ false)) ∧
    ∃ doc', S.apply (.replace pos (pos + c.size) ⟨[.leaf ty a ms], 0, 0⟩ false) doc = .ok doc' ∧ C01.Valid S doc' := by
  have R := resolve_resolved hr
  simp only [changeTypeGuard, hr, hnode, Bool.and_eq_true] at hg
  have hck : c.kids = [] := by cases c <;> simp_all [Node.isLeaf, Node.kids]
  rw [hck] at hg
  simp only [canChangeType, hr] at hc
  cases doc with
  | text s m => simp [C01.IsElem, Node.isLeaf] at hdoc
  | leaf t a' m => simp [C01.IsElem, Node.isLeaf] at hdoc
  | elem ty0 a0 m0 K =>
    have hn' : fnorm K = true := by simpa [Node.kids] using hn
    obtain ⟨tyP, aP, mP, ctx, eP, hl⟩ := Resolved.lvl hr hn' r.depth (Nat.le_refl _)
    obtain ⟨hsplit, hidx⟩ := list_split_at _ _ _ hnode
    have E := R.entry r.depth (Nat.le_refl _)
    have hpe : (r.entry r.depth).pos = r.start r.depth + fsize (r.parent.kids.take (r.index r.depth)) := E.pos_eq
    have hple := E.pos_le
    have hpos : pos = r.start r.depth + fsize (r.parent.kids.take (r.index r.depth)) := by
      unfold RPos.textOffset at hto
      rw [R.pos_eq] at hto
      omega
    have hty : S.tyOf r.parent = tyP := by
      show S.tyOf (r.node r.depth) = tyP
      rw [eP]; rfl
    have hplen : (r.parent.kids.take (r.index r.depth)).length = r.index r.depth := by
      rw [List.length_take]; omega
    have hl' : Lvl ty0 K (r.start r.depth) r.depth tyP
        (r.parent.kids.take (r.index r.depth) ++ c :: r.parent.kids.drop (r.index r.depth + 1)) ctx := by
      rw [← hsplit]; exact hl
    have hnL := fnormKids_of_fnorm (hl'.norm hn')
    simp only [fnormKids_append, Bool.and_eq_true] at hnL
    have hcr : S.canReplaceWith tyP
        (r.parent.kids.take (r.index r.depth) ++ c :: r.parent.kids.drop (r.index r.depth + 1))
        (r.parent.kids.take (r.index r.depth)).length ((r.parent.kids.take (r.index r.depth)).length + 1)
        (S.tyOf (.leaf ty a ms)) [] = some true := by
      unfold Schema.nodeCanReplaceWith at hc
      split at hc
      · simp at hc
      · rw [← hsplit, hplen, ← hty]; exact hc
    have hg2 := hg.2
    rw [hty] at hg2
    obtain ⟨hft, hap⟩ := rechild_applies S ty0 a0 m0 K hv hn' c hl' (.leaf ty a ms) rfl rfl hcr hg2
    rw [← hpos] at hft hap
    have hnat : (Node.elem ty0 a0 m0 K).nodeAt pos = .ok (some c) := by
      rw [hpos]
      exact nodeAtKids_lvlR hl' _ _ _ rfl hnL.1
    refine ⟨hnat, replaceStep_trivial S _ _ _ _ (by simp [Slice.size]) hft, _, hap, ?_⟩
    refine C01.apply_valid S _ _ _ hv ?_ hap
    simp [C01.PayloadValid, openValid, rightOpenValid, Schema.checkNode, hcan, hg.1]

/-- a non-trivial instance: content `(text image)*`, `doc(p("ab", image))`: the image (position 3) is re-created as an
    image (a change of attributes or marks) -/
example : canChangeType splitCexSchema splitCexDoc 3 3 = some true ∧
    changeTypeGuard splitCexSchema splitCexDoc 3 3 [] = true := ⟨rfl, rfl⟩
example : ∃ doc', splitCexSchema.apply (.replace 3 4 ⟨[.leaf 3 [] []], 0, 0⟩ false) splitCexDoc = .ok doc' ∧
    C01.Valid splitCexSchema doc' :=
  (canChangeType_setNodeMarkup_leaf_applies splitCexSchema splitCexDoc 3 3 [] [] ((splitCexDoc.resolve 3).get rfl)
    (.leaf 3 [] []) rfl rfl rfl (Option.some_get _).symm rfl rfl rfl rfl rfl rfl).2.2

/-- **… and such a node is always handed to the Fitter**: at an insert point whose parent does not allow the node's marks
    `fits_trivially` is `False`, `replace_step` is `Fitter(p, p, Slice([n], 0, 0)).fit()` -/
theorem insertPoint_marked_through_fitter (S : Schema) (doc : Node) (pos : Nat) (ty : TypeId) (p : Nat) (n : Node)
    (hdoc : C01.IsElem doc) (hn : fnorm doc.kids = true) (hnn : n.norm = true) (hty : S.tyOf n = ty)
    (hm : marksAllowedAt S doc p n = false)
    (hc : insertPoint S doc pos ty = some (some p)) :
    fitsTriviallyO S doc p p ⟨[n], 0, 0⟩ = some false ∧
    ∃ rp, doc.resolve p = some rp ∧
      replaceStep S doc p p ⟨[n], 0, 0⟩ = fitterFit S doc rp rp ⟨[n], 0, 0⟩ (fitFuel S ⟨[n], 0, 0⟩) := by
  unfold insertPoint at hc
  cases hr : doc.resolve pos with
  | none => simp [hr] at hc
  | some r =>
    simp only [hr] at hc
    have R := resolve_resolved hr
    cases doc with
    | text s m => simp [C01.IsElem, Node.isLeaf] at hdoc
    | leaf t a m => simp [C01.IsElem, Node.isLeaf] at hdoc
    | elem ty0 a0 m0 K =>
      have hn' : fnorm K = true := by simpa [Node.kids] using hn
      have hpos := Node.size_pos_of_norm n hnn
      have hft : fitsTriviallyO S (.elem ty0 a0 m0 K) p p ⟨[n], 0, 0⟩ = some false := by
        rcases insertPointR_spec S r ty p hc with ⟨hp, hcr⟩ | ⟨d, sd, i, hd, hat, hcr⟩
        · rw [hp, R.pos_eq] at hm ⊢
          simp only [marksAllowedAt, hr] at hm
          simp only [fitsTriviallyO, hr, fitsTriviallyR, beq_self_eq_true, Bool.and_self, if_true]
          rw [nodeCanReplace_of_with' S r.parent _ n ty hty hcr, hm]
        · have hb : d < r.depth ∨ r.textOffset = 0 := .inl hd
          obtain ⟨rp, hrp, htyp, _, _, _⟩ := boundary_resolve S hr hn' d sd i p hb hat
          simp only [marksAllowedAt, hrp] at hm
          rw [boundary_fitsTrivially S hr hn' d sd i p hb hat [n], nodeCanReplace_of_with' S (r.node d) i n ty hty hcr,
            ← htyp, hm]
      obtain ⟨rf, rt, hrf, hrt, hrs⟩ := replaceStep_nontrivial S _ p p ⟨[n], 0, 0⟩ (by simp [Slice.size]; omega) hft
      rw [hrf] at hrt
      simp only [Option.some.injEq] at hrt
      subst hrt
      exact ⟨hft, rf, hrf, hrs⟩

example : marksAllowedAt insMarkSchema exDoc 0 (.elem 2 [] [⟨0, []⟩] []) = false := by rfl

/-! ### typing: for a text node the inside-text guard is implied

    In a `TextStable` schema the approval "a text node may go in front of this text child" already gives "`text n text`
    may stand in its place" for a text node `n`: `insertGuard` reduces to its marks part and the alignment of the
    position.  So `insertPoint_insert_applies` covers every insert point for text, at child boundaries and inside text
    alike, with no guard on the content expression. -/

theorem insertGuard_of_text (S : Schema) (hts : C01.TextStable S) (doc : Node) (pos : Nat) (p : Nat) (n : Node)
    (hdoc : C01.IsElem doc) (hv : C01.Valid S doc) (hn : fnorm doc.kids = true)
    (htext : S.tyOf n = S.textTy) (hal : pairAligned doc p = true) (hm : marksAllowedAt S doc p n = true)
    (hc : insertPoint S doc pos S.textTy = some (some p)) : insertGuard S doc p n = true := by
  unfold insertPoint at hc
  cases hr : doc.resolve pos with
  | none => simp [hr] at hc
  | some r =>
    simp only [hr] at hc
    have R := resolve_resolved hr
    cases doc with
    | text s m => simp [C01.IsElem, Node.isLeaf] at hdoc
    | leaf t a m => simp [C01.IsElem, Node.isLeaf] at hdoc
    | elem ty0 a0 m0 K =>
      have hn' : fnorm K = true := by simpa [Node.kids] using hn
      rcases insertPointR_spec S r S.textTy p hc with ⟨hp, hcr⟩ | ⟨d, sd, i, hd, hat, hcr⟩
      · rw [hp, R.pos_eq] at hm hal ⊢
        simp only [marksAllowedAt, hr] at hm
        simp only [pairAligned, hr] at hal
        simp only [insertGuard, hr, hm, Bool.and_true]
        by_cases ho : r.textOffset = 0
        · simp [insideTextGuardR, ho]
        · obtain ⟨s, m, hs, hlt⟩ := R.in_text ho
          have hsp : splitOk s r.textOffset = true := by
            simp only [RPos.pairOk, hs, Bool.or_eq_true, decide_eq_true_eq] at hal
            exact hal.resolve_left ho
          obtain ⟨hsplit, hidx⟩ := list_split_at _ _ _ hs
          have hpv := path_valid S R hv r.depth (Nat.le_refl _)
          obtain ⟨tyP, aP, mP, ctx, eP, _⟩ := Resolved.lvl hr hn' r.depth (Nat.le_refl _)
          have hvL : S.validContent (S.tyOf r.parent) r.parent.kids = true :=
            validContent_of_checkNode S r.parent tyP aP mP eP hpv
          have hplen : (r.parent.kids.take (r.index r.depth)).length = r.index r.depth := by
            rw [List.length_take]; omega
          have hcr' : S.canReplaceWith (S.tyOf r.parent)
              (r.parent.kids.take (r.index r.depth) ++ .text s m :: r.parent.kids.drop (r.index r.depth + 1))
              (r.parent.kids.take (r.index r.depth)).length (r.parent.kids.take (r.index r.depth)).length S.textTy []
              = some true := by
            unfold Schema.nodeCanReplaceWith at hcr
            split at hcr
            · simp at hcr
            · rw [← hsplit, hplen]; exact hcr
          have hfin := canReplace_text_between S hts (S.tyOf r.parent) _ _ s m n htext
            (by rw [← hsplit]; exact hvL) hm hcr'
          rw [← hsplit, hplen] at hfin
          simp only [insideTextGuardR, hs, hsp, Bool.true_and, Bool.or_eq_true, beq_iff_eq]
          right
          unfold Schema.nodeCanReplace
          rw [if_neg (by omega)]
          simpa using hfin
      · obtain ⟨rp, hrp, _, _, _, hto⟩ := boundary_resolve S hr hn' d sd i p (.inl hd) hat
        simp only [marksAllowedAt, hrp] at hm
        simp [insertGuard, hrp, insideTextGuardR, hto, hm]

/-- **typing text at an insert point succeeds** — `insertPoint_insert_applies` without a guard on the content
    expression: valid normal-form document, `TextStable` schema, a non-empty text node whose marks the parent of `p` allows,
    `p` pair-aligned -/
theorem insertPoint_insert_text_applies (S : Schema) (hts : C01.TextStable S) (doc : Node) (pos : Nat) (p : Nat)
    (n : Node) (hdoc : C01.IsElem doc) (hv : C01.Valid S doc) (hn : fnorm doc.kids = true)
    (hvn : S.checkNode n = true) (hnn : n.norm = true) (htext : S.tyOf n = S.textTy)
    (hal : pairAligned doc p = true) (hm : marksAllowedAt S doc p n = true)
    (hc : insertPoint S doc pos S.textTy = some (some p)) :
    replaceStep S doc p p ⟨[n], 0, 0⟩ = .ok (some (.replace p p ⟨[n], 0, 0⟩ false)) ∧
    ∃ doc', S.apply (.replace p p ⟨[n], 0, 0⟩ false) doc = .ok doc' ∧ C01.Valid S doc' :=
  insertPoint_insert_applies S hts doc pos S.textTy p n hdoc hv hn hvn hnn htext
    (insertGuard_of_text S hts doc pos p n hdoc hv hn htext hal hm hc) hc

/-- an instance: "x" typed between "a" and "b" of `doc(p("ab"))` -/
example : ∃ doc', exSchema.apply (.replace 2 2 ⟨[.text [120] []], 0, 0⟩ false) exDocT = .ok doc' ∧
    C01.Valid exSchema doc' :=
  (insertPoint_insert_text_applies exSchema ex_stable exDocT 2 2 (.text [120] []) rfl rfl rfl rfl rfl rfl rfl rfl rfl).2

/-! ### a node with marks the parent does not allow, at a top-level insert point: the Fitter's run evaluated

    When the insert point is a child boundary of the top node (depth 0, the top node not a textblock: `topBoundary`), the
    Fitter's run on `Slice([n], 0, 0)` is short enough to evaluate exactly (Proofs/FitTopLevel.lean): `find_fittable` hits at
    once, `place_nodes` places `n` with the disallowed marks dropped, `close` finds level 0 with nothing to fill.  This is
    the case found on the real code (a marked block node into `doc`).  For deeper insert points the same statement is
    `insertPoint_insert_succeeds_marked_partial` (the Fitter's answer as a hypothesis; on the real code and on the model's
    Fitter it held in every case the tie ran). -/

/-- **`insert_point` answers a top-level `p` ∧ the parent does not allow the node's marks ⇒ `tr.insert(p, n)` plans
    `ReplaceStep(p, p, Slice([n with those marks dropped], 0, 0))` through the Fitter, the step applies and the result is
    schema-valid** -/
theorem insertPoint_insert_marked_top (S : Schema) (hts : C01.TextStable S) (doc : Node) (pos : Nat) (ty : TypeId)
    (p : Nat) (n : Node) (hdoc : C01.IsElem doc) (hv : C01.Valid S doc) (hn : fnorm doc.kids = true)
    (hvn : S.checkNode (strippedAt S doc p n) = true) (hnn : n.norm = true) (hty : S.tyOf n = ty)
    (htop : topBoundary S doc p = true) (hm : marksAllowedAt S doc p n = false)
    (hc : insertPoint S doc pos ty = some (some p)) :
    replaceStep S doc p p ⟨[n], 0, 0⟩ = .ok (some (.replace p p ⟨[strippedAt S doc p n], 0, 0⟩ false)) ∧
    ∃ doc', S.apply (.replace p p ⟨[strippedAt S doc p n], 0, 0⟩ false) doc = .ok doc' ∧ C01.Valid S doc' := by
  obtain ⟨_, rp, hrp, hrs⟩ := insertPoint_marked_through_fitter S doc pos ty p n hdoc hn hnn hty hm hc
  have Rp := resolve_resolved hrp
  simp only [topBoundary, hrp, Bool.and_eq_true, beq_iff_eq, Bool.not_eq_true'] at htop
  obtain ⟨⟨hd0, hto⟩, hnt⟩ := htop
  have hnode0 : rp.node 0 = doc := Rp.node_zero
  have hpar : rp.parent = doc := by simp [RPos.parent, hd0, hnode0]
  -- what `insert_point` established, read at `p`
  have hcrp : S.nodeCanReplaceWith doc (rp.index 0) (rp.index 0) ty = some true := by
    unfold insertPoint at hc
    cases hr : doc.resolve pos with
    | none => simp [hr] at hc
    | some r =>
      simp only [hr] at hc
      have R := resolve_resolved hr
      cases doc with
      | text s m => simp [C01.IsElem, Node.isLeaf] at hdoc
      | leaf t a m => simp [C01.IsElem, Node.isLeaf] at hdoc
      | elem ty0 a0 m0 K =>
        rcases insertPointR_spec S r ty p hc with ⟨hp, hcr⟩ | ⟨d, sd, i, hd, hat, hcr⟩
        · rw [hp, R.pos_eq] at hrp
          rw [hr] at hrp
          simp only [Option.some.injEq] at hrp
          subst hrp
          rw [hpar, hd0] at hcr
          exact hcr
        · obtain ⟨rp', hrp', htyp, hk, hi, _⟩ := boundary_resolve S hr (by simpa [Node.kids] using hn) d sd i p
            (.inl hd) hat
          rw [hrp] at hrp'
          simp only [Option.some.injEq] at hrp'
          subst hrp'
          rw [hpar] at htyp hk
          rw [hd0] at hi
          unfold Schema.nodeCanReplaceWith at hcr ⊢
          rw [← htyp, ← hk, ← hi] at hcr
          exact hcr
  have hia : rp.indexAfter 0 = rp.index 0 := by simp [RPos.indexAfter, hd0, hto]
  -- the automaton states the Fitter walks through
  have hvd : S.validContent (S.tyOf doc) doc.kids = true := by
    cases doc with
    | text s m => simp [C01.IsElem, Node.isLeaf] at hdoc
    | leaf t a m => simp [C01.IsElem, Node.isLeaf] at hdoc
    | elem ty0 a0 m0 K =>
      have : S.checkNode (.elem ty0 a0 m0 K) = true := hv
      simp only [checkNode_elem, Bool.and_eq_true] at this
      exact this.1.1
  have hmk : invalidMarks S (S.tyOf doc) (doc.kids.drop (rp.index 0)) = false := by
    have hall := allowsMarks_of_valid S _ _ hvd
    simp only [invalidMarks, List.any_eq_false, Bool.not_eq_true', Bool.not_eq_false]
    intro c hcm
    exact hall c (List.mem_of_mem_drop hcm)
  unfold Schema.nodeCanReplaceWith Schema.canReplaceWith at hcrp
  simp only [List.isEmpty_nil, Bool.not_true, Bool.false_and, Bool.false_eq_true, if_false] at hcrp
  split at hcrp
  · simp at hcrp
  · split at hcrp
    · simp at hcrp
    · rename_i q hq
      split at hcrp
      · simp at hcrp
      · rename_i q' hq'
        split at hcrp
        · simp at hcrp
        · rename_i q2 hq2
          simp only [Option.some.injEq] at hcrp
          have hfit := fitterFit_top S doc rp n hd0 (by rw [hnode0]; exact hnt) q q' q2
            (by rw [hnode0, hia]; exact hq) (by rw [hnode0, hty]; exact hq') (by rw [hnode0]; exact hq2)
            (by rw [hnode0]; exact hcrp) (by rw [hnode0]; exact hmk)
            (by have := Node.size_pos_of_norm n hnn; omega) (fitMeasure ⟨[n], 0, 0⟩ (0 + 1))
          have hstrip : strippedAt S doc p n = n.withMarks ((S.nodeType (S.tyOf (rp.node 0))).allowedMarks n.marks) := by
            simp [strippedAt, hrp, hpar, hnode0]
          have hstep : replaceStep S doc p p ⟨[n], 0, 0⟩
              = .ok (some (.replace p p ⟨[strippedAt S doc p n], 0, 0⟩ false)) := by
            rw [hrs, hstrip]
            have : fitFuel S ⟨[n], 0, 0⟩ = fitMeasure ⟨[n], 0, 0⟩ (0 + 1) + 1 := rfl
            rw [this, hfit, Rp.pos_eq]
          refine ⟨hstep, ?_⟩
          have hg : insideTextGuard S doc p [strippedAt S doc p n] = true := by
            simp [insideTextGuard, hrp, insideTextGuardR, hto]
          exact insertPoint_insert_succeeds_marked_partial S hts doc pos ty p n hdoc hv hn hvn hnn hty hg hc hstep

/-- a non-trivial instance of all hypotheses: the paragraph carrying `em` at position 0 of `exDoc` in `insMarkSchema` -/
example : ∃ doc', insMarkSchema.apply (.replace 0 0 ⟨[.elem 2 [] [] []], 0, 0⟩ false) exDoc = .ok doc' ∧
    C01.Valid insMarkSchema doc' :=
  (insertPoint_insert_marked_top insMarkSchema (textStable_of_C _ (by decide)) exDoc 0 2 0 (.elem 2 [] [⟨0, []⟩] [])
    rfl rfl rfl rfl rfl rfl rfl rfl rfl).2

/-- … and one level down, where the Fitter's answer is a hypothesis (`insertPoint_insert_succeeds_marked_partial`): the
    model's Fitter, kernel-evaluated, on the marked paragraph put in at position 1 (inside the blockquote, which allows no
    marks here) — again the insertion of the paragraph without the mark -/
private def insMarkSchema2 : Schema :=
  { nodes := #[exNT "doc" false false blocksDfa, { exNT "blockquote" false false blocksDfa with markSet := some [] },
      exNT "paragraph" false true #[⟨true, [(3, 0)]⟩], exNT "text" true false #[⟨true, []⟩]],
    marks := #[⟨"em", [0], true, []⟩], top := 0, textTy := 3 }
example : insertPoint insMarkSchema2 exDoc 1 2 = some (some 1) ∧
    marksAllowedAt insMarkSchema2 exDoc 1 (.elem 2 [] [⟨0, []⟩] []) = false ∧
    topBoundary insMarkSchema2 exDoc 1 = false ∧
    strippedAt insMarkSchema2 exDoc 1 (.elem 2 [] [⟨0, []⟩] []) = .elem 2 [] [] [] := ⟨rfl, rfl, rfl, rfl⟩
example : (match replaceStep insMarkSchema2 exDoc 1 1 ⟨[.elem 2 [] [⟨0, []⟩] []], 0, 0⟩ with
     | .ok (some (.replace 1 1 sl' false)) => sl' == ⟨[.elem 2 [] [] []], 0, 0⟩
     | _ => false) = true := by decide +kernel

/-! ### INSERT-END -/

end PM.C12
