/-
  Props/C06.lean — C06: a content expression and its compiled matcher accept exactly the same sequences.

  The compiled automaton of the **real code** is validated by a **verified checker**: the harness
  dumps every `ContentMatch` graph the running library compiled, the (unverified) search `findCert`
  proposes a bisimulation certificate, `equivCheck` (a plain Bool function) checks it, and the
  theorems below say what a passed check means — in terms of Mathlib's `matches'`.  For the bundled
  and hand-written schemas the instances `equivCheck dfa Σ expr V = true` are regenerated from the
  source on every run into `Gen/DfaCerts.lean` and proved there by `decide +kernel`.
-/
import PM.Regex
import PM.Compile
import Proofs.Regex
import Proofs.CompileMain
import Proofs.SchemaBuild
import Proofs.SchemaBuildLive
import Proofs.Placement
import Props.C15
namespace PM.C06
open PM

theorem matcher_decides_language (r : RE) (w : List Nat) : RE.rmatch r w = true ↔ w ∈ r.lang :=
  rmatch_iff r w

/-- **complete content**: accepted as complete content exactly when the expression matches -/
theorem compiled_accepts_iff (d : Dfa) (sigma : List Nat) (r : RE) (V : Cert)
    (h : equivCheck d sigma r V = true) (w : List Nat) :
    d.accepts w = true ↔ w ∈ r.lang := equivCheck_accepts d sigma r V h w

/-- **prefix liveness**: a match state stays alive after a prefix exactly when the prefix can still be
    extended to a match -/
theorem compiled_live_iff (d : Dfa) (sigma : List Nat) (r : RE) (V : Cert)
    (h : equivCheck d sigma r V = true) (w : List Nat) :
    (d.run 0 w).isSome = true ↔ ∃ v, w ++ v ∈ r.lang := equivCheck_live d sigma r V h w

/-- the operators of the expression grammar denote what the documentation says -/
theorem plus_spec (r : RE) (w : List Nat) :
    w ∈ (RE.plus r).lang ↔ ∃ u v, u ∈ r.lang ∧ v ∈ (RE.star r).lang ∧ w = u ++ v := lang_plus r w

theorem opt_spec (r : RE) (w : List Nat) : w ∈ (RE.opt r).lang ↔ w = [] ∨ w ∈ r.lang := lang_opt r w

theorem range_spec (r : RE) (n : Nat) (m : Option Nat) (w : List Nat) :
    w ∈ (RE.range r n m).lang ↔
      ∃ ws : List (List Nat), n ≤ ws.length ∧ (∀ k, m = some k → ws.length ≤ max n k) ∧
        (∀ u, u ∈ ws → u ∈ r.lang) ∧ w = ws.flatten := lang_range r n m w

/-- non-vacuity: a concrete automaton/expression/certificate triple that passes the check
    (`paragraph+` style: state 0 -p-> 1, 1 -p-> 1, 1 final) -/
example : equivCheck #[⟨false, [(1, 1)]⟩, ⟨true, [(1, 1)]⟩] [0, 1] (RE.plus (RE.sym 1))
    [(0, [RE.plus (RE.sym 1)]), (1, [RE.star (RE.sym 1)])] = true := by
  decide +kernel

/-- … and one that does not (the automaton accepts a single `p` only) -/
example : equivCheck #[⟨false, [(1, 1)]⟩, ⟨true, []⟩] [0, 1] (RE.plus (RE.sym 1))
    [(0, [RE.plus (RE.sym 1)]), (1, [RE.star (RE.sym 1)])] = false := by
  decide +kernel

/-! ### the compiler itself (`PM/Compile.lean`: `parse_expr* → nfa → null_from → dfa`), for every expression

  `Expr` is the AST `parse_expr` builds, `nfa`/`nullFrom`/`dfa` reproduce the code's node numbering, edge order
  and state order (tied exactly, per run, to the automata the real code builds).  The only hypothesis is
  `Expr.wf`: no *empty* `choice`/`seq` list — the parser never builds one (`compile` raises `IndexError` on an
  empty `seq`, and an empty `choice` compiles to an automaton that accepts nothing, see the `example` below);
  the harness checks `wf` on every AST the model's parser produces and that `Expr.toRE` of it is the
  expression `specParse` reads.

  History: with the code as first pinned, these theorems needed a second hypothesis (no `{0,}` fragment
  compiled on a shared entry node): `nfa()` put the loop of `x{0,}` on the entry node, so `(b | a{0,})`
  accepted `a b`.  The library was repaired (`{0,}` loops on a node of its own); the model follows the
  repaired code and the hypothesis is gone. -/

/-- stage 1, the Thompson-style construction: the words read along the paths of the finished NFA from node 0 to
    the accepting node (`ε` = an edge with `term = none`) are exactly the words of the expression -/
theorem nfa_correct (e : Expr) (h : e.wf = true) (w : List Nat) :
    NPath (nfaState e).edges 0 w (cnt e + 1) ↔ w ∈ e.toRE.lang := PM.nfa_correct e h w

/-- stage 2, `null_from`: the ε-closure without the pass-through nodes, for every NFA -/
theorem nullFrom_spec (N : Nfa) (hN : N.WF) (n : Nat) (hn : n < N.size) (m : Nat) :
    m ∈ nullFrom N n ↔ EpsReach N n m ∧ ¬ IsSkip N m := PM.nullFrom_spec N hN n hn m

/-- stage 3, `dfa`: the subset construction simulates the NFA, for every NFA whose edge targets are nodes
    (the fuel of `explore` is never exhausted) -/
theorem dfa_simulates (N : Nfa) (hN : N.WF) (hstart : nullFrom N 0 ≠ []) (w : List Nat) :
    ((dfa N).accepts w = true ↔ RunSet N (fun m => m ∈ nullFrom N 0) w (N.size - 1)) ∧
    (((dfa N).run 0 w).isSome = true ↔ ∃ m, RunSet N (fun m => m ∈ nullFrom N 0) w m) :=
  PM.dfa_simulates N hN hstart w

/-- **complete content, for every expression**: the automaton the compiler builds accepts a sequence of child
    types exactly when the expression, read as a regular expression, matches it -/
theorem compile_accepts (e : Expr) (h : e.wf = true) (w : List Nat) :
    (dfa (nfa e)).accepts w = true ↔ w ∈ (Expr.toRE e).lang := compile_accepts' e h w

/-- **prefix liveness, for every expression**: a match state stays alive after a prefix exactly when the prefix
    can be extended to a match -/
theorem compile_live (e : Expr) (h : e.wf = true) (w : List Nat) :
    ((dfa (nfa e)).run 0 w).isSome = true ↔ ∃ v, w ++ v ∈ (Expr.toRE e).lang := compile_live' e h w

/-- the same for the automaton renumbered breadth-first over `.next` — the form in which the harness dumps the
    real `ContentMatch` graph (compared exactly with `(dfa (nfa e)).bfs` on every run) and in which the schema
    tables of the other properties hold it -/
theorem compile_bfs (e : Expr) (h : e.wf = true) (w : List Nat) :
    ((dfa (nfa e)).bfs.accepts w = true ↔ w ∈ (Expr.toRE e).lang) ∧
    (((dfa (nfa e)).bfs.run 0 w).isSome = true ↔ ∃ v, w ++ v ∈ (Expr.toRE e).lang) := by
  obtain ⟨h1, h2⟩ := bfs_accepts _ (compile_dfa_wf e h) w
  rw [h1, h2]
  exact ⟨compile_accepts' e h w, compile_live' e h w⟩

/-- the empty expression (`ContentMatch.empty`) -/
theorem compile_empty (w : List Nat) :
    ((compileDfa none).accepts w = true ↔ w ∈ RE.eps.lang) ∧
    (((compileDfa none).run 0 w).isSome = true ↔ ∃ v, w ++ v ∈ RE.eps.lang) := by
  cases w with
  | nil =>
    refine ⟨by simp [compileDfa, Dfa.accepts, Dfa.run, Dfa.validEnd, mem_lang_eps], ?_⟩
    simp only [Dfa.run, Option.isSome_some, true_iff]
    exact ⟨[], (mem_lang_eps _).2 rfl⟩
  | cons a w =>
    refine ⟨by simp [compileDfa, Dfa.accepts, Dfa.run, Dfa.matchType, Dfa.edgesOf, mem_lang_eps], ?_⟩
    simp [compileDfa, Dfa.run, Dfa.matchType, Dfa.edgesOf, mem_lang_eps]

/-- **dead ends** (`check_for_dead_ends` on the compiled automaton): the expression passes exactly when from every
    reachable match state a valid end can be reached through generatable node types alone -/
theorem compile_deadEnd (e : Expr) (h : e.wf = true) (generatable : Nat → Bool) :
    (dfa (nfa e)).hasDeadEnd generatable = false ↔
      ∀ q, Dfa.Reach (dfa (nfa e)) q → Dfa.GenLive (dfa (nfa e)) generatable q :=
  hasDeadEnd_iff _ (compile_dfa_wf e h) generatable

/-- the hypothesis is satisfiable and non-trivial: `(a | b c)+ d{2,}` -/
example : (Expr.seq [.plus (.choice [.name 1, .seq [.name 2, .name 3]]), .range 2 none (.name 4)]).wf = true := by
  decide

/-- … and needed: an empty `choice` compiles to an automaton that does not even accept the empty sequence,
    while every `RE` has a word -/
example : (dfa (nfa (.choice []))).accepts [] = false := by decide +kernel

/-! ### the schema constructor as a whole (`PM/SchemaBuild.lean: buildSchema`, tied to `Schema(spec)`: full dump or
    kind of refusal, for every generated spec)

  `buildSchema spec` reproduces `Schema.__init__`: node and mark tables, then per node type the content expression
  (parser with the node-type table, `nfa`, `dfa`, `check_for_dead_ends`, behind `content_expr_cache`),
  `inline_content`, `mark_set`, then `excluded`.  The theorems below hold for **every** spec the constructor
  accepts; none of them has a hypothesis besides acceptance (and, for the table statements, that the mark names
  are distinct — a Python dict cannot hold a key twice). -/

open PM.SchemaCompile PM.SchemaBuild PM.ParseC

/-- **C06 for the schema as a whole**: in a schema the constructor accepts, the content expression of every node
    type parses (to `oe`; `none` = no token), the automaton the schema holds for it is the compiled one, it accepts
    a sequence of child types exactly when the expression, read as a regular expression, matches it, and it keeps
    a match state alive after a prefix exactly when the prefix can be extended to a match -/
theorem buildSchema_content_correct {spec : Spec} {S : Schema} (h : buildSchema spec = .ok S)
    (i : Nat) (hi : i < spec.nodes.length) :
    ∃ oe, parseC (nameTable spec) spec.nodes[i].content = .ok oe ∧ S.dfa i = contentDfa oe ∧
      (∀ w, (S.dfa i).accepts w = true ↔ w ∈ (contentRE oe).lang) ∧
      (∀ w, ((S.dfa i).run 0 w).isSome = true ↔ ∃ v, w ++ v ∈ (contentRE oe).lang) := by
  obtain ⟨oe, h1, h2, _, h4, h5⟩ := contentMatch_lang ((buildSchema_ok h).dfa i hi)
  exact ⟨oe, h1, h2, h4, h5⟩

/-- the parser never builds an empty `choice` / `seq`: the hypothesis `Expr.wf` of `compile_accepts` / `compile_live`
    holds for every expression it returns, and the names it resolves are node types of the table -/
theorem parseC_wf {table : List NameInfo} {s : String} {e : Expr} (h : parseC table s = .ok (some e)) :
    e.wf = true ∧ ∀ t, t ∈ e.names → t < table.length := by
  unfold parseC at h
  simp only at h
  split at h
  · cases h
  · split at h
    · cases h
    · rename_i r hp
      simp only [Except.ok.injEq, Option.some.injEq] at h
      subst h
      obtain ⟨_, hok, _⟩ := parseToks_ok hp
      exact ⟨hok.1, fun t ht => (hok.2 t ht).1⟩

/-- the recursion guard of the parser model is never the reason of a refusal -/
theorem parseC_total (table : List NameInfo) (s : String) : parseC table s ≠ .error .fuel :=
  parseC_ne_fuel table s

/-- **every schema the constructor accepts is live, deterministic and in range**: the guards of C15
    (`LiveSchema`, so `createAndFill_nothing_iff` / `createAndFill_raises` apply; `DfaWF`, `WrapWF`) and of C19
    (`Det`) are theorems about constructed schemas -/
theorem buildSchema_live {spec : Spec} {S : Schema} (h : buildSchema spec = .ok S) :
    C15.LiveSchema S ∧ FromDom.Det S ∧ (∀ t, C15.DfaWF (S.dfa t)) ∧ (∀ t q, C15.WrapWF S (S.dfa t) q) := by
  have b := buildSchema_ok h
  have hlive : C15.LiveSchema S := by
    intro nt hnt
    obtain ⟨i, hi, rfl⟩ := List.getElem_of_mem hnt
    simp only [Array.length_toList] at hi
    have hi' : i < spec.nodes.length := by rw [← b.size]; exact hi
    have hc := contentMatch_live (b.dfa i hi')
    have hd : S.dfa i = S.nodes[i].dfa := by simp [Schema.dfa, Schema.nodeType, hi]
    rw [hd, ← b.size, ← b.generatable] at hc
    exact hc
  have ha := hlive.toAut
  refine ⟨hlive, ha.det, fun t q ty q' hm => (ha.wf t q ty q' hm).1, fun t q => ⟨fun e he => ?_, fun nt hnt e he => ?_⟩⟩
  · exact (ha.wf t q e.1 e.2 he).2
  · obtain ⟨i, hi, rfl⟩ := List.getElem_of_mem hnt
    simp only [Array.length_toList] at hi
    have hd : S.dfa i = S.nodes[i].dfa := by simp [Schema.dfa, Schema.nodeType, hi]
    simp only [Array.getElem_toList] at he
    rw [← hd] at he
    exact (ha.wf i 0 e.1 e.2 he).2

/-- **no dead end, read on the sequences**: in an accepted schema, whatever child sequence can still be extended
    to a match of a node type's content expression can be completed to one by generatable node types alone
    (not text, no required attribute) — what `fill_before` / `create_and_fill` rely on -/
theorem buildSchema_completable {spec : Spec} {S : Schema} (h : buildSchema spec = .ok S)
    (i : Nat) (hi : i < spec.nodes.length) (oe : Option Expr)
    (hp : parseC (nameTable spec) spec.nodes[i].content = .ok oe) (w : List Nat)
    (hw : ∃ v, w ++ v ∈ (contentRE oe).lang) :
    ∃ v, (∀ t, t ∈ v → S.generatable t = true) ∧ w ++ v ∈ (contentRE oe).lang := by
  obtain ⟨oe', h1, _, h4, h5⟩ := buildSchema_content_correct h i hi
  rw [hp] at h1
  simp only [Except.ok.injEq] at h1
  subst h1
  obtain ⟨hl, hdet, hwf, _⟩ := buildSchema_live h
  have b := buildSchema_ok h
  have hpos : 0 < (S.dfa i).size := hl.toAut.pos i (by rw [b.size]; exact hi)
  have hdead : (S.dfa i).hasDeadEnd S.generatable = false := by
    rcases contentMatch_ok (b.dfa i hi) with ⟨_, he⟩ | ⟨_, e, _, _, hd⟩
    · rw [he]; exact emptyMatch_noDeadEnd _
    · rw [b.generatable]; exact hd
  obtain ⟨v, hv, hacc⟩ := live_complete (S.dfa i) ⟨hpos, fun q e he => hwf i q e.1 e.2 he⟩ (hdet i) S.generatable hdead w
    ((h5 w).2 hw)
  exact ⟨v, fun t ht => List.all_eq_true.1 hv t ht, (h4 _).1 hacc⟩

/-- what the content expression of node type `i` must look like for the constructor to accept the spec -/
structure WellFormedContent (spec : Spec) (i : Nat) (hi : i < spec.nodes.length) : Prop where
  /-- groups and ranges are closed: as many `(` as `)`, as many `{` as `}` -/
  parens : (tokenize spec.nodes[i].content).count "(" = (tokenize spec.nodes[i].content).count ")"
  braces : (tokenize spec.nodes[i].content).count "{" = (tokenize spec.nodes[i].content).count "}"
  /-- every word that is not a number is a node type or a group with members -/
  known : ∀ t, t ∈ tokenize spec.nodes[i].content → isWordTok t = true → startsWithDigit t = false →
    resolveIds (nameTable spec) t ≠ []
  /-- all the types the words stand for are inline, or all are block -/
  unmixed : ∀ t t', t ∈ tokenize spec.nodes[i].content → t' ∈ tokenize spec.nodes[i].content →
    isWordTok t = true → startsWithDigit t = false → isWordTok t' = true → startsWithDigit t' = false →
    ∀ a b, a ∈ resolveIds (nameTable spec) t → b ∈ resolveIds (nameTable spec) t' →
      ((nameTable spec)[a]!).isInline = ((nameTable spec)[b]!).isInline
  /-- no required position that only non-generatable types can fill: every extendable sequence has a completion by
      generatable types -/
  live : ∀ oe, parseC (nameTable spec) spec.nodes[i].content = .ok oe → ∀ w, (∃ v, w ++ v ∈ (contentRE oe).lang) →
    ∃ v, (∀ t, t ∈ v → specGen spec t = true) ∧ w ++ v ∈ (contentRE oe).lang

/-- an accepted spec has well-formed content expressions throughout -/
theorem buildSchema_wellFormed {spec : Spec} {S : Schema} (h : buildSchema spec = .ok S)
    (i : Nat) (hi : i < spec.nodes.length) : WellFormedContent spec i hi := by
  have b := buildSchema_ok h
  have hlive : ∀ oe, parseC (nameTable spec) spec.nodes[i].content = .ok oe → ∀ w,
      (∃ v, w ++ v ∈ (contentRE oe).lang) →
      ∃ v, (∀ t, t ∈ v → specGen spec t = true) ∧ w ++ v ∈ (contentRE oe).lang := by
    intro oe hp w hw
    have := buildSchema_completable h i hi oe hp w hw
    rwa [b.generatable] at this
  rcases contentMatch_ok (b.dfa i hi) with ⟨hc, _⟩ | ⟨_, e, hp, _, _⟩
  · have ht : tokenize spec.nodes[i].content = [] := by
      have := tokenize_isEmpty spec.nodes[i].content
      rw [hc] at this
      simpa using this
    exact ⟨by simp [ht], by simp [ht], fun t hm => by rw [ht] at hm; simp at hm,
      fun t t' hm => by rw [ht] at hm; simp at hm, hlive⟩
  · obtain ⟨inl, _, hg⟩ := parseToks_ok hp
    have hk : ∀ t, t ∈ tokenize spec.nodes[i].content → isWordTok t = true → startsWithDigit t = false →
        resolveIds (nameTable spec) t ≠ [] ∧
          ∀ a, a ∈ resolveIds (nameTable spec) t → inl = some ((nameTable spec)[a]!).isInline := by
      intro t hm hw hd
      rcases hg.toks t hm hw with h' | h'
      · rw [hd] at h'; cases h'
      · exact h'
    refine ⟨hg.paren, hg.brace, fun t hm hw hd => (hk t hm hw hd).1, ?_, hlive⟩
    intro t t' hm hm' hw hd hw' hd' a b ha hb
    have e1 := (hk t hm hw hd).2 a ha
    have e2 := (hk t' hm' hw' hd').2 b hb
    rw [e1] at e2
    exact Option.some.inj e2

/-- **malformed expressions are rejected when the schema is built** (the last clause of C06): a spec with a node
    type whose content expression has an unclosed group or range, a word that is neither a node type nor a group,
    inline and block types mixed, or a required position only non-generatable types can fill, is refused -/
theorem buildSchema_rejects_malformed (spec : Spec) (i : Nat) (hi : i < spec.nodes.length)
    (hbad : ¬ WellFormedContent spec i hi) : ∃ err, buildSchema spec = .error err := by
  cases hb : buildSchema spec with
  | error err => exact ⟨err, rfl⟩
  | ok S => exact absurd (buildSchema_wellFormed hb i hi) hbad

/-- … with its reason: a spec whose tables are in order is refused by the content compiler exactly at the first node
    type (in declaration order) whose expression `ContentMatch.parse` refuses — stated as: if the constructor
    accepts, `ContentMatch.parse` accepted every expression -/
theorem buildSchema_parses {spec : Spec} {S : Schema} (h : buildSchema spec = .ok S)
    (i : Nat) (hi : i < spec.nodes.length) : contentMatch spec spec.nodes[i].content = .ok (S.dfa i) :=
  (buildSchema_ok h).dfa i hi

/-- **the table theorems hold for the constructor as a whole**: an accepted spec went through the table compiler
    with the automata the content compiler built, so every theorem about `compileSchema spec dfas = .ok S` applies
    (`excluded_spec`, `markSet_spec` … of `Props/C14.lean`, `nodeTable_spec` … of `Props/C07.lean`; restated for
    `buildSchema` as `C14.buildSchema_excluded`, `C14.buildSchema_markSet` there and `buildSchema_nodeTable` below) -/
theorem buildSchema_tables {spec : Spec} {S : Schema} (h : buildSchema spec = .ok S) :
    compileSchema spec (S.nodes.toList.map (·.dfa)) = .ok S := (buildSchema_ok h).compiled

/-- `nodeTable_spec` (C07) for the constructor as a whole, with the automaton now determined by the spec alone: it is
    what `ContentMatch.parse` returns for the content expression (`ContentMatch.empty` exactly when the expression has
    no token) -/
theorem buildSchema_nodeTable {spec : Spec} {S : Schema} (h : buildSchema spec = .ok S)
    (i : Nat) (hi : i < spec.nodes.length) :
    (S.nodeType i).name = spec.nodes[i].name ∧
    (S.nodeType i).isText = (spec.nodes[i].name == "text") ∧
    (S.nodeType i).isInline = (spec.nodes[i].inline || spec.nodes[i].name == "text") ∧
    (S.nodeType i).isLeaf = contentEmpty spec.nodes[i].content ∧
    (S.nodeType i).isAtom = ((S.nodeType i).isLeaf || spec.nodes[i].atom) ∧
    (S.nodeType i).isolating = spec.nodes[i].isolating ∧
    (S.nodeType i).defining = spec.nodes[i].defining ∧
    (S.nodeType i).code = spec.nodes[i].code ∧
    contentMatch spec spec.nodes[i].content = .ok (S.dfa i) ∧
    ((S.nodeType i).isLeaf = true ↔ S.dfa i = emptyMatch ∧ (tokenize spec.nodes[i].content).isEmpty = true) ∧
    (S.nodeType i).inlineContent = inlineContentOf spec.nodes (S.dfa i) := by
  have c := compileSchema_ok (buildSchema_tables h)
  obtain ⟨_, h1, h2, h3, h4, h5, h6, h7, h8, _, h10, h11, _⟩ := compileNode_ok (c.node i hi)
  refine ⟨h1, h2, h3, h4, by rw [h5, h4], h6, h7, h8, buildSchema_parses h i hi, ?_, h11⟩
  rw [h4, tokenize_isEmpty]
  constructor
  · intro hc
    refine ⟨?_, hc⟩
    rw [Schema.dfa, h10, hc]; rfl
  · exact fun hh => hh.2

/-- non-vacuity: a spec the constructor accepts (doc / paragraph / text / a line break / an inline image with a
    required attribute / a mark) with its automata, three it refuses for the three documented reasons, one on which the parser dies, and one
    with a dead end.  (Kernel evaluation: the expressions are kept to sequences and names — `List.mergeSort`, which
    `null_from` and `dfa` call, is defined by well-founded recursion and does not evaluate in the kernel on lists of two
    or more elements; the tie runs the compiled model on thousands of specs with repetitions, groups and choices.) -/
private def exSpec : Spec := {
  nodes := [
    { name := "doc", content := "p p" },
    { name := "p", content := "br", group := some "block" },
    { name := "text", group := some "inline" },
    { name := "br", inline := true, group := some "inline" },
    { name := "img", inline := true, group := some "inline", attrs := [{ name := "src" }] }],
  marks := [{ name := "em" }] }

private def exWith (c : String) : Spec :=
  { exSpec with nodes := exSpec.nodes.map (fun n => if n.name == "doc" then { n with content := c } else n) }

example : ((buildSchema exSpec).toOption.map (fun S => S.nodes.toList.map (fun n =>
      n.dfa.toList.map (fun s => (s.validEnd, s.edges))))) =
    some [[(false, [(1, 1)]), (false, [(1, 2)]), (true, [])], [(false, [(3, 1)]), (true, [])], [(true, [])],
      [(true, [])], [(true, [])]] := by
  decide +kernel
example : (match buildSchema (exWith "(p") with | .error e => some e | .ok _ => none) = some (.content .syntax) := by
  decide +kernel
example : (match buildSchema (exWith "p{2") with | .error e => some e | .ok _ => none) = some (.content .syntax) := by
  decide +kernel
example : (match buildSchema (exWith "p nosuch") with | .error e => some e | .ok _ => none) =
    some (.content .unknownName) := by decide +kernel
example : (match buildSchema (exWith "p text") with | .error e => some e | .ok _ => none) = some (.content .mixed) := by
  decide +kernel
example : (match buildSchema (exWith "p |") with | .error e => some e | .ok _ => none) = some (.content .noToken) := by
  decide +kernel
example : (match buildSchema { exSpec with nodes := exSpec.nodes ++ [{ name := "fig", content := "img" }] } with
    | .error e => some e | .ok _ => none) = some .deadEnd := by decide +kernel
/-- the malformed ones are not `WellFormedContent` for the stated reason: an unclosed group -/
example : ¬ WellFormedContent (exWith "(p") 0 (by decide) := fun h => absurd h.parens (by decide)

end PM.C06
