/-
  Props/C06.lean — C06: a content expression and its compiled matcher accept exactly the same sequences.

  The compiled automaton of the **real code** is validated by a **verified checker**: the harness
  dumps every `ContentMatch` graph the running library compiled, the (unverified) search `findCert`
  proposes a bisimulation certificate, `equivCheck` (a plain Bool function) checks it, and the
  theorems below say what a passed check means — in terms of Mathlib's `matches'`.  For the bundled
  and hand-written schemas the instances `equivCheck dfa Σ expr V = true` are regenerated from the
  source on every run into `Gen/DfaCerts.lean` and proved there by `decide +kernel`.
-/
import PM.Regex
import Proofs.Regex
namespace PM.C06
open PM

theorem matcher_decides_language (r : RE) (w : List Nat) : RE.rmatch r w = true ↔ w ∈ r.lang :=
  rmatch_iff r w

/-- **complete content**: accepted as complete content exactly when the expression matches -/
theorem compiled_accepts_iff (d : Dfa) (sigma : List Nat) (r : RE) (V : Cert)
    (h : equivCheck d sigma r V = true) (w : List Nat) :
    d.accepts w = true ↔ w ∈ r.lang := equivCheck_accepts d sigma r V h w

/-- **prefix liveness**: a match state stays alive after a prefix exactly when the prefix can still be
    extended to a match -/
theorem compiled_live_iff (d : Dfa) (sigma : List Nat) (r : RE) (V : Cert)
    (h : equivCheck d sigma r V = true) (w : List Nat) :
    (d.run 0 w).isSome = true ↔ ∃ v, w ++ v ∈ r.lang := equivCheck_live d sigma r V h w

/-- the operators of the expression grammar denote what the documentation says -/
theorem plus_spec (r : RE) (w : List Nat) :
    w ∈ (RE.plus r).lang ↔ ∃ u v, u ∈ r.lang ∧ v ∈ (RE.star r).lang ∧ w = u ++ v := lang_plus r w

theorem opt_spec (r : RE) (w : List Nat) : w ∈ (RE.opt r).lang ↔ w = [] ∨ w ∈ r.lang := lang_opt r w

theorem range_spec (r : RE) (n : Nat) (m : Option Nat) (w : List Nat) :
    w ∈ (RE.range r n m).lang ↔
      ∃ ws : List (List Nat), n ≤ ws.length ∧ (∀ k, m = some k → ws.length ≤ max n k) ∧
        (∀ u, u ∈ ws → u ∈ r.lang) ∧ w = ws.flatten := lang_range r n m w

/-- non-vacuity: a concrete automaton/expression/certificate triple that passes the check
    (`paragraph+` style: state 0 -p-> 1, 1 -p-> 1, 1 final) -/
example : equivCheck #[⟨false, [(1, 1)]⟩, ⟨true, [(1, 1)]⟩] [0, 1] (RE.plus (RE.sym 1))
    [(0, [RE.plus (RE.sym 1)]), (1, [RE.star (RE.sym 1)])] = true := by
  decide +kernel

/-- … and one that does not (the automaton accepts a single `p` only) -/
example : equivCheck #[⟨false, [(1, 1)]⟩, ⟨true, []⟩] [0, 1] (RE.plus (RE.sym 1))
    [(0, [RE.plus (RE.sym 1)]), (1, [RE.star (RE.sym 1)])] = false := by
  decide +kernel

end PM.C06
