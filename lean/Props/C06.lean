/-
  Props/C06.lean — C06: a content expression and its compiled matcher accept exactly the same sequences.

  The compiled automaton of the **real code** is validated by a **verified checker**: the harness
  dumps every `ContentMatch` graph the running library compiled, the (unverified) search `findCert`
  proposes a bisimulation certificate, `equivCheck` (a plain Bool function) checks it, and the
  theorems below say what a passed check means — in terms of Mathlib's `matches'`.  For the bundled
  and hand-written schemas the instances `equivCheck dfa Σ expr V = true` are regenerated from the
  source on every run into `Gen/DfaCerts.lean` and proved there by `decide +kernel`.

  Parts: the checker route; the compiler for every expression; the schema constructor as a whole; the agreement of
  the two readers; and (last) the refusal side — the dead end stated on the expression itself (`DeadEndSpec`,
  decidable), its equivalence with `check_for_dead_ends` on the compiled automaton, which refusal `Schema(spec)` gives
  when several apply, what the reasons mean, exact acceptance, and the spec-level dead-end search of op `c06` with its
  allowance.
-/
import PM.Regex
import PM.Compile
import Proofs.Regex
import Proofs.CompileMain
import Proofs.SchemaBuild
import Proofs.SchemaBuildLive
import Proofs.Placement
import Proofs.SpecParse
import Proofs.BuildOrder
import Proofs.SpecDeadEndFuel
import Proofs.RefusalCause
import Props.C15
namespace PM.C06
open PM

theorem matcher_decides_language (r : RE) (w : List Nat) : RE.rmatch r w = true ↔ w ∈ r.lang :=
  rmatch_iff r w

/-- **complete content**: accepted as complete content exactly when the expression matches -/
theorem compiled_accepts_iff (d : Dfa) (sigma : List Nat) (r : RE) (V : Cert)
    (h : equivCheck d sigma r V = true) (w : List Nat) :
    d.accepts w = true ↔ w ∈ r.lang := equivCheck_accepts d sigma r V h w

/-- **prefix liveness**: a match state stays alive after a prefix exactly when the prefix can still be
    extended to a match -/
theorem compiled_live_iff (d : Dfa) (sigma : List Nat) (r : RE) (V : Cert)
    (h : equivCheck d sigma r V = true) (w : List Nat) :
    (d.run 0 w).isSome = true ↔ ∃ v, w ++ v ∈ r.lang := equivCheck_live d sigma r V h w

/-- the operators of the expression grammar denote what the documentation says -/
theorem plus_spec (r : RE) (w : List Nat) :
    w ∈ (RE.plus r).lang ↔ ∃ u v, u ∈ r.lang ∧ v ∈ (RE.star r).lang ∧ w = u ++ v := lang_plus r w

theorem opt_spec (r : RE) (w : List Nat) : w ∈ (RE.opt r).lang ↔ w = [] ∨ w ∈ r.lang := lang_opt r w

theorem range_spec (r : RE) (n : Nat) (m : Option Nat) (w : List Nat) :
    w ∈ (RE.range r n m).lang ↔
      ∃ ws : List (List Nat), n ≤ ws.length ∧ (∀ k, m = some k → ws.length ≤ max n k) ∧
        (∀ u, u ∈ ws → u ∈ r.lang) ∧ w = ws.flatten := lang_range r n m w

/-- non-vacuity: a concrete automaton/expression/certificate triple that passes the check
    (`paragraph+` style: state 0 -p-> 1, 1 -p-> 1, 1 final) -/
example : equivCheck #[⟨false, [(1, 1)]⟩, ⟨true, [(1, 1)]⟩] [0, 1] (RE.plus (RE.sym 1))
    [(0, [RE.plus (RE.sym 1)]), (1, [RE.star (RE.sym 1)])] = true := by
  decide +kernel

/-- … and one that does not (the automaton accepts a single `p` only) -/
example : equivCheck #[⟨false, [(1, 1)]⟩, ⟨true, []⟩] [0, 1] (RE.plus (RE.sym 1))
    [(0, [RE.plus (RE.sym 1)]), (1, [RE.star (RE.sym 1)])] = false := by
  decide +kernel

/-! ### the compiler itself (`PM/Compile.lean`: `parse_expr* → nfa → null_from → dfa`), for every expression

  `Expr` is the AST `parse_expr` builds, `nfa`/`nullFrom`/`dfa` reproduce the code's node numbering, edge order
  and state order (tied exactly, per run, to the automata the real code builds).  The only hypothesis is
  `Expr.wf`: no *empty* `choice`/`seq` list — the parser never builds one (`compile` raises `IndexError` on an
  empty `seq`, and an empty `choice` compiles to an automaton that accepts nothing, see the `example` below);
  the harness checks `wf` on every AST the model's parser produces and that `Expr.toRE` of it is the
  expression `specParse` reads (both are theorems as well: `parseC_wf`, `parse_agrees` below).

  History: with the code as first pinned, these theorems needed a second hypothesis (no `{0,}` fragment
  compiled on a shared entry node): `nfa()` put the loop of `x{0,}` on the entry node, so `(b | a{0,})`
  accepted `a b`.  The library was repaired (`{0,}` loops on a node of its own); the model follows the
  repaired code and the hypothesis is gone. -/

/-- stage 1, the Thompson-style construction: the words read along the paths of the finished NFA from node 0 to
    the accepting node (`ε` = an edge with `term = none`) are exactly the words of the expression -/
theorem nfa_correct (e : Expr) (h : e.wf = true) (w : List Nat) :
    NPath (nfaState e).edges 0 w (cnt e + 1) ↔ w ∈ e.toRE.lang := PM.nfa_correct e h w

/-- stage 2, `null_from`: the ε-closure without the pass-through nodes, for every NFA -/
theorem nullFrom_spec (N : Nfa) (hN : N.WF) (n : Nat) (hn : n < N.size) (m : Nat) :
    m ∈ nullFrom N n ↔ EpsReach N n m ∧ ¬ IsSkip N m := PM.nullFrom_spec N hN n hn m

/-- stage 3, `dfa`: the subset construction simulates the NFA, for every NFA whose edge targets are nodes
    (the fuel of `explore` is never exhausted) -/
theorem dfa_simulates (N : Nfa) (hN : N.WF) (hstart : nullFrom N 0 ≠ []) (w : List Nat) :
    ((dfa N).accepts w = true ↔ RunSet N (fun m => m ∈ nullFrom N 0) w (N.size - 1)) ∧
    (((dfa N).run 0 w).isSome = true ↔ ∃ m, RunSet N (fun m => m ∈ nullFrom N 0) w m) :=
  PM.dfa_simulates N hN hstart w

/-- **complete content, for every expression**: the automaton the compiler builds accepts a sequence of child
    types exactly when the expression, read as a regular expression, matches it -/
theorem compile_accepts (e : Expr) (h : e.wf = true) (w : List Nat) :
    (dfa (nfa e)).accepts w = true ↔ w ∈ (Expr.toRE e).lang := compile_accepts' e h w

/-- **prefix liveness, for every expression**: a match state stays alive after a prefix exactly when the prefix
    can be extended to a match -/
theorem compile_live (e : Expr) (h : e.wf = true) (w : List Nat) :
    ((dfa (nfa e)).run 0 w).isSome = true ↔ ∃ v, w ++ v ∈ (Expr.toRE e).lang := compile_live' e h w

/-- the same for the automaton renumbered breadth-first over `.next` — the form in which the harness dumps the
    real `ContentMatch` graph (compared exactly with `(dfa (nfa e)).bfs` on every run) and in which the schema
    tables of the other properties hold it -/
theorem compile_bfs (e : Expr) (h : e.wf = true) (w : List Nat) :
    ((dfa (nfa e)).bfs.accepts w = true ↔ w ∈ (Expr.toRE e).lang) ∧
    (((dfa (nfa e)).bfs.run 0 w).isSome = true ↔ ∃ v, w ++ v ∈ (Expr.toRE e).lang) := by
  obtain ⟨h1, h2⟩ := bfs_accepts _ (compile_dfa_wf e h) w
  rw [h1, h2]
  exact ⟨compile_accepts' e h w, compile_live' e h w⟩

/-- the empty expression (`ContentMatch.empty`) -/
theorem compile_empty (w : List Nat) :
    ((compileDfa none).accepts w = true ↔ w ∈ RE.eps.lang) ∧
    (((compileDfa none).run 0 w).isSome = true ↔ ∃ v, w ++ v ∈ RE.eps.lang) := by
  cases w with
  | nil =>
    refine ⟨by simp [compileDfa, Dfa.accepts, Dfa.run, Dfa.validEnd, mem_lang_eps], ?_⟩
    simp only [Dfa.run, Option.isSome_some, true_iff]
    exact ⟨[], (mem_lang_eps _).2 rfl⟩
  | cons a w =>
    refine ⟨by simp [compileDfa, Dfa.accepts, Dfa.run, Dfa.matchType, Dfa.edgesOf, mem_lang_eps], ?_⟩
    simp [compileDfa, Dfa.run, Dfa.matchType, Dfa.edgesOf, mem_lang_eps]

/-- **dead ends** (`check_for_dead_ends` on the compiled automaton): the expression passes exactly when from every
    reachable match state a valid end can be reached through generatable node types alone -/
theorem compile_deadEnd (e : Expr) (h : e.wf = true) (generatable : Nat → Bool) :
    (dfa (nfa e)).hasDeadEnd generatable = false ↔
      ∀ q, Dfa.Reach (dfa (nfa e)) q → Dfa.GenLive (dfa (nfa e)) generatable q :=
  hasDeadEnd_iff _ (compile_dfa_wf e h) generatable

/-- the hypothesis is satisfiable and non-trivial: `(a | b c)+ d{2,}` -/
example : (Expr.seq [.plus (.choice [.name 1, .seq [.name 2, .name 3]]), .range 2 none (.name 4)]).wf = true := by
  decide

/-- … and needed: an empty `choice` compiles to an automaton that does not even accept the empty sequence,
    while every `RE` has a word -/
example : (dfa (nfa (.choice []))).accepts [] = false := by decide +kernel

/-! ### the schema constructor as a whole (`PM/SchemaBuild.lean: buildSchema`, tied to `Schema(spec)`: full dump or
    kind of refusal, for every generated spec)

  `buildSchema spec` reproduces `Schema.__init__`: node and mark tables, then per node type the content expression
  (parser with the node-type table, `nfa`, `dfa`, `check_for_dead_ends`, behind `content_expr_cache`),
  `inline_content`, `mark_set`, then `excluded`.  The theorems below hold for **every** spec the constructor
  accepts; none of them has a hypothesis besides acceptance (and, for the table statements, that the mark names
  are distinct — a Python dict cannot hold a key twice). -/

open PM.SchemaCompile PM.SchemaBuild PM.ParseC

/-- **C06 for the schema as a whole**: in a schema the constructor accepts, the content expression of every node
    type parses (to `oe`; `none` = no token), the automaton the schema holds for it is the compiled one, it accepts
    a sequence of child types exactly when the expression, read as a regular expression, matches it, and it keeps
    a match state alive after a prefix exactly when the prefix can be extended to a match -/
theorem buildSchema_content_correct {spec : Spec} {S : Schema} (h : buildSchema spec = .ok S)
    (i : Nat) (hi : i < spec.nodes.length) :
    ∃ oe, parseC (nameTable spec) spec.nodes[i].content = .ok oe ∧ S.dfa i = contentDfa oe ∧
      (∀ w, (S.dfa i).accepts w = true ↔ w ∈ (contentRE oe).lang) ∧
      (∀ w, ((S.dfa i).run 0 w).isSome = true ↔ ∃ v, w ++ v ∈ (contentRE oe).lang) := by
  obtain ⟨oe, h1, h2, _, h4, h5⟩ := contentMatch_lang ((buildSchema_ok h).dfa i hi)
  exact ⟨oe, h1, h2, h4, h5⟩

/-- the parser never builds an empty `choice` / `seq`: the hypothesis `Expr.wf` of `compile_accepts` / `compile_live`
    holds for every expression it returns, and the names it resolves are node types of the table -/
theorem parseC_wf {table : List NameInfo} {s : String} {e : Expr} (h : parseC table s = .ok (some e)) :
    e.wf = true ∧ ∀ t, t ∈ e.names → t < table.length := by
  unfold parseC at h
  simp only at h
  split at h
  · cases h
  · split at h
    · cases h
    · rename_i r hp
      simp only [Except.ok.injEq, Option.some.injEq] at h
      subst h
      obtain ⟨_, hok, _⟩ := parseToks_ok hp
      exact ⟨hok.1, fun t ht => (hok.2 t ht).1⟩

/-- the recursion guard of the parser model is never the reason of a refusal -/
theorem parseC_total (table : List NameInfo) (s : String) : parseC table s ≠ .error .fuel :=
  parseC_ne_fuel table s

/-- **every schema the constructor accepts is live, deterministic and in range**: the guards of C15
    (`LiveSchema`, so `createAndFill_nothing_iff` / `createAndFill_raises` apply; `DfaWF`, `WrapWF`) and of C19
    (`Det`) are theorems about constructed schemas -/
theorem buildSchema_live {spec : Spec} {S : Schema} (h : buildSchema spec = .ok S) :
    C15.LiveSchema S ∧ FromDom.Det S ∧ (∀ t, C15.DfaWF (S.dfa t)) ∧ (∀ t q, C15.WrapWF S (S.dfa t) q) := by
  have b := buildSchema_ok h
  have hlive : C15.LiveSchema S := by
    intro nt hnt
    obtain ⟨i, hi, rfl⟩ := List.getElem_of_mem hnt
    simp only [Array.length_toList] at hi
    have hi' : i < spec.nodes.length := by rw [← b.size]; exact hi
    have hc := contentMatch_live (b.dfa i hi')
    have hd : S.dfa i = S.nodes[i].dfa := by simp [Schema.dfa, Schema.nodeType, hi]
    rw [hd, ← b.size, ← b.generatable] at hc
    exact hc
  have ha := hlive.toAut
  refine ⟨hlive, ha.det, fun t q ty q' hm => (ha.wf t q ty q' hm).1, fun t q => ⟨fun e he => ?_, fun nt hnt e he => ?_⟩⟩
  · exact (ha.wf t q e.1 e.2 he).2
  · obtain ⟨i, hi, rfl⟩ := List.getElem_of_mem hnt
    simp only [Array.length_toList] at hi
    have hd : S.dfa i = S.nodes[i].dfa := by simp [Schema.dfa, Schema.nodeType, hi]
    simp only [Array.getElem_toList] at he
    rw [← hd] at he
    exact (ha.wf i 0 e.1 e.2 he).2

/-- **no dead end, read on the sequences**: in an accepted schema, whatever child sequence can still be extended
    to a match of a node type's content expression can be completed to one by generatable node types alone
    (not text, no required attribute) — what `fill_before` / `create_and_fill` rely on -/
theorem buildSchema_completable {spec : Spec} {S : Schema} (h : buildSchema spec = .ok S)
    (i : Nat) (hi : i < spec.nodes.length) (oe : Option Expr)
    (hp : parseC (nameTable spec) spec.nodes[i].content = .ok oe) (w : List Nat)
    (hw : ∃ v, w ++ v ∈ (contentRE oe).lang) :
    ∃ v, (∀ t, t ∈ v → S.generatable t = true) ∧ w ++ v ∈ (contentRE oe).lang := by
  obtain ⟨oe', h1, _, h4, h5⟩ := buildSchema_content_correct h i hi
  rw [hp] at h1
  simp only [Except.ok.injEq] at h1
  subst h1
  obtain ⟨hl, hdet, hwf, _⟩ := buildSchema_live h
  have b := buildSchema_ok h
  have hpos : 0 < (S.dfa i).size := hl.toAut.pos i (by rw [b.size]; exact hi)
  have hdead : (S.dfa i).hasDeadEnd S.generatable = false := by
    rcases contentMatch_ok (b.dfa i hi) with ⟨_, he⟩ | ⟨_, e, _, _, hd⟩
    · rw [he]; exact emptyMatch_noDeadEnd _
    · rw [b.generatable]; exact hd
  obtain ⟨v, hv, hacc⟩ := live_complete (S.dfa i) ⟨hpos, fun q e he => hwf i q e.1 e.2 he⟩ (hdet i) S.generatable hdead w
    ((h5 w).2 hw)
  exact ⟨v, fun t ht => List.all_eq_true.1 hv t ht, (h4 _).1 hacc⟩

/-- what the content expression of node type `i` must look like for the constructor to accept the spec -/
structure WellFormedContent (spec : Spec) (i : Nat) (hi : i < spec.nodes.length) : Prop where
  /-- groups and ranges are closed: as many `(` as `)`, as many `{` as `}` -/
  parens : (tokenize spec.nodes[i].content).count "(" = (tokenize spec.nodes[i].content).count ")"
  braces : (tokenize spec.nodes[i].content).count "{" = (tokenize spec.nodes[i].content).count "}"
  /-- every word that is not a number is a node type or a group with members -/
  known : ∀ t, t ∈ tokenize spec.nodes[i].content → isWordTok t = true → startsWithDigit t = false →
    resolveIds (nameTable spec) t ≠ []
  /-- all the types the words stand for are inline, or all are block -/
  unmixed : ∀ t t', t ∈ tokenize spec.nodes[i].content → t' ∈ tokenize spec.nodes[i].content →
    isWordTok t = true → startsWithDigit t = false → isWordTok t' = true → startsWithDigit t' = false →
    ∀ a b, a ∈ resolveIds (nameTable spec) t → b ∈ resolveIds (nameTable spec) t' →
      ((nameTable spec)[a]!).isInline = ((nameTable spec)[b]!).isInline
  /-- no required position that only non-generatable types can fill: every extendable sequence has a completion by
      generatable types -/
  live : ∀ oe, parseC (nameTable spec) spec.nodes[i].content = .ok oe → ∀ w, (∃ v, w ++ v ∈ (contentRE oe).lang) →
    ∃ v, (∀ t, t ∈ v → specGen spec t = true) ∧ w ++ v ∈ (contentRE oe).lang

/-- an accepted spec has well-formed content expressions throughout -/
theorem buildSchema_wellFormed {spec : Spec} {S : Schema} (h : buildSchema spec = .ok S)
    (i : Nat) (hi : i < spec.nodes.length) : WellFormedContent spec i hi := by
  have b := buildSchema_ok h
  have hlive : ∀ oe, parseC (nameTable spec) spec.nodes[i].content = .ok oe → ∀ w,
      (∃ v, w ++ v ∈ (contentRE oe).lang) →
      ∃ v, (∀ t, t ∈ v → specGen spec t = true) ∧ w ++ v ∈ (contentRE oe).lang := by
    intro oe hp w hw
    have := buildSchema_completable h i hi oe hp w hw
    rwa [b.generatable] at this
  rcases contentMatch_ok (b.dfa i hi) with ⟨hc, _⟩ | ⟨_, e, hp, _, _⟩
  · have ht : tokenize spec.nodes[i].content = [] := by
      have := tokenize_isEmpty spec.nodes[i].content
      rw [hc] at this
      simpa using this
    exact ⟨by simp [ht], by simp [ht], fun t hm => by rw [ht] at hm; simp at hm,
      fun t t' hm => by rw [ht] at hm; simp at hm, hlive⟩
  · obtain ⟨inl, _, hg⟩ := parseToks_ok hp
    have hk : ∀ t, t ∈ tokenize spec.nodes[i].content → isWordTok t = true → startsWithDigit t = false →
        resolveIds (nameTable spec) t ≠ [] ∧
          ∀ a, a ∈ resolveIds (nameTable spec) t → inl = some ((nameTable spec)[a]!).isInline := by
      intro t hm hw hd
      rcases hg.toks t hm hw with h' | h'
      · rw [hd] at h'; cases h'
      · exact h'
    refine ⟨hg.paren, hg.brace, fun t hm hw hd => (hk t hm hw hd).1, ?_, hlive⟩
    intro t t' hm hm' hw hd hw' hd' a b ha hb
    have e1 := (hk t hm hw hd).2 a ha
    have e2 := (hk t' hm' hw' hd').2 b hb
    rw [e1] at e2
    exact Option.some.inj e2

/-- **malformed expressions are rejected when the schema is built** (the last clause of C06): a spec with a node
    type whose content expression has an unclosed group or range, a word that is neither a node type nor a group,
    inline and block types mixed, or a required position only non-generatable types can fill, is refused -/
theorem buildSchema_rejects_malformed (spec : Spec) (i : Nat) (hi : i < spec.nodes.length)
    (hbad : ¬ WellFormedContent spec i hi) : ∃ err, buildSchema spec = .error err := by
  cases hb : buildSchema spec with
  | error err => exact ⟨err, rfl⟩
  | ok S => exact absurd (buildSchema_wellFormed hb i hi) hbad

/-- … with its reason: a spec whose tables are in order is refused by the content compiler exactly at the first node
    type (in declaration order) whose expression `ContentMatch.parse` refuses — stated as: if the constructor
    accepts, `ContentMatch.parse` accepted every expression -/
theorem buildSchema_parses {spec : Spec} {S : Schema} (h : buildSchema spec = .ok S)
    (i : Nat) (hi : i < spec.nodes.length) : contentMatch spec spec.nodes[i].content = .ok (S.dfa i) :=
  (buildSchema_ok h).dfa i hi

/-- **the table theorems hold for the constructor as a whole**: an accepted spec went through the table compiler
    with the automata the content compiler built, so every theorem about `compileSchema spec dfas = .ok S` applies
    (`excluded_spec`, `markSet_spec` … of `Props/C14.lean`, `nodeTable_spec` … of `Props/C07.lean`; restated for
    `buildSchema` as `C14.buildSchema_excluded`, `C14.buildSchema_markSet` there and `buildSchema_nodeTable` below) -/
theorem buildSchema_tables {spec : Spec} {S : Schema} (h : buildSchema spec = .ok S) :
    compileSchema spec (S.nodes.toList.map (·.dfa)) = .ok S := (buildSchema_ok h).compiled

/-- `nodeTable_spec` (C07) for the constructor as a whole, with the automaton now determined by the spec alone: it is
    what `ContentMatch.parse` returns for the content expression (`ContentMatch.empty` exactly when the expression has
    no token) -/
theorem buildSchema_nodeTable {spec : Spec} {S : Schema} (h : buildSchema spec = .ok S)
    (i : Nat) (hi : i < spec.nodes.length) :
    (S.nodeType i).name = spec.nodes[i].name ∧
    (S.nodeType i).isText = (spec.nodes[i].name == "text") ∧
    (S.nodeType i).isInline = (spec.nodes[i].inline || spec.nodes[i].name == "text") ∧
    (S.nodeType i).isLeaf = contentEmpty spec.nodes[i].content ∧
    (S.nodeType i).isAtom = ((S.nodeType i).isLeaf || spec.nodes[i].atom) ∧
    (S.nodeType i).isolating = spec.nodes[i].isolating ∧
    (S.nodeType i).defining = spec.nodes[i].defining ∧
    (S.nodeType i).code = spec.nodes[i].code ∧
    contentMatch spec spec.nodes[i].content = .ok (S.dfa i) ∧
    ((S.nodeType i).isLeaf = true ↔ S.dfa i = emptyMatch ∧ (tokenize spec.nodes[i].content).isEmpty = true) ∧
    (S.nodeType i).inlineContent = inlineContentOf spec.nodes (S.dfa i) := by
  have c := compileSchema_ok (buildSchema_tables h)
  obtain ⟨_, h1, h2, h3, h4, h5, h6, h7, h8, _, h10, h11, _⟩ := compileNode_ok (c.node i hi)
  refine ⟨h1, h2, h3, h4, by rw [h5, h4], h6, h7, h8, buildSchema_parses h i hi, ?_, h11⟩
  rw [h4, tokenize_isEmpty]
  constructor
  · intro hc
    refine ⟨?_, hc⟩
    rw [Schema.dfa, h10, hc]; rfl
  · exact fun hh => hh.2

/-- non-vacuity: a spec the constructor accepts (doc / paragraph / text / a line break / an inline image with a
    required attribute / a mark) with its automata, three it refuses for the three documented reasons, one on which the parser dies, and one
    with a dead end.  (Kernel evaluation: the expressions are kept to sequences and names — `List.mergeSort`, which
    `null_from` and `dfa` call, is defined by well-founded recursion and does not evaluate in the kernel on lists of two
    or more elements; the tie runs the compiled model on thousands of specs with repetitions, groups and choices.) -/
private def exSpec : Spec := {
  nodes := [
    { name := "doc", content := "p p" },
    { name := "p", content := "br", group := some "block" },
    { name := "text", group := some "inline" },
    { name := "br", inline := true, group := some "inline" },
    { name := "img", inline := true, group := some "inline", attrs := [{ name := "src" }] }],
  marks := [{ name := "em" }] }

private def exWith (c : String) : Spec :=
  { exSpec with nodes := exSpec.nodes.map (fun n => if n.name == "doc" then { n with content := c } else n) }

example : ((buildSchema exSpec).toOption.map (fun S => S.nodes.toList.map (fun n =>
      n.dfa.toList.map (fun s => (s.validEnd, s.edges))))) =
    some [[(false, [(1, 1)]), (false, [(1, 2)]), (true, [])], [(false, [(3, 1)]), (true, [])], [(true, [])],
      [(true, [])], [(true, [])]] := by
  decide +kernel
example : (match buildSchema (exWith "(p") with | .error e => some e | .ok _ => none) = some (.content .syntax) := by
  decide +kernel
example : (match buildSchema (exWith "p{2") with | .error e => some e | .ok _ => none) = some (.content .syntax) := by
  decide +kernel
example : (match buildSchema (exWith "p nosuch") with | .error e => some e | .ok _ => none) =
    some (.content .unknownName) := by decide +kernel
example : (match buildSchema (exWith "p text") with | .error e => some e | .ok _ => none) = some (.content .mixed) := by
  decide +kernel
example : (match buildSchema (exWith "p |") with | .error e => some e | .ok _ => none) = some (.content .noToken) := by
  decide +kernel
example : (match buildSchema { exSpec with nodes := exSpec.nodes ++ [{ name := "fig", content := "img" }] } with
    | .error e => some e | .ok _ => none) = some .deadEnd := by decide +kernel
/-- the malformed ones are not `WellFormedContent` for the stated reason: an unclosed group -/
example : ¬ WellFormedContent (exWith "(p") 0 (by decide) := fun h => absurd h.parens (by decide)

/-! ### the specification reader and the code's parser read every expression alike

  `specParse` (`PM/Regex.lean`) is the specification of "the expression read as a regular expression": a short
  recursive descent over the documented grammar that builds the `RE` directly (`RE.alt`, `RE.seq`, `RE.plus`,
  `RE.opt`, `RE.range`, group members in schema order, the inline/block rule), written independently of the code.
  `parseC` (`PM/Compile.lean`) models the code's parser (`TokenStream`, `parse_expr*`, `resolve_name`) and yields the
  code's AST.  Both start from the same token list (`tokenize`: runs of word characters, single other characters,
  `str.isspace()` characters dropped).

  The two differ in one point only: the counts of `{…}`.  The documented grammar has plain decimal numbers; the code
  hands the token to `int()`, which also reads `1_0` as 10.  `PlainNumbers s` (decidable) says that every token after a
  `{` or a `,` that starts with a digit consists of ASCII digits only; under it the two readers return the same regular
  expression (syntactically) or refuse for the same documented reason.  Without it the specification refuses with a
  syntax error where the code may accept (`specParse_or`; the `example` below) — a leniency of the code on
  expressions the grammar does not have, not a violation of C06, which speaks about the expressions a schema may
  declare. -/

open PM.SpecParse

/-- the recursion allowance in the definition of `specParse` never decides: `sExpr` (its `expr` function) does not
    run out of it on any token list -/
theorem specParse_allowance (table : List NameInfo) (toks : List String) :
    sExpr table (4 * toks.length + 4) { toks := toks } ≠ none := sExpr_allowance table toks

/-- **the two readers agree**: for every node-type table and every string whose counts are plain numbers, the
    specification reads a regular expression `r` exactly when the code's parser accepts and its AST, read as a
    regular expression, is `r` (the same expression, not only the same language); and it refuses for one of the three
    documented reasons exactly when the code's parser refuses for that reason (`CErr.toPErr`: unknown name, mixing,
    and every other way of dying — `SyntaxError`, running off the tokens, `int()` — is a syntax error) -/
theorem parse_agrees (table : List NameInfo) (s : String) (hp : PlainNumbers s) :
    (∀ r, specParse table s = .ok r ↔ ∃ oe, parseC table s = .ok oe ∧ contentRE oe = r) ∧
    (∀ err, specParse table s = .error err ↔ ∃ ce, parseC table s = .error ce ∧ ce.toPErr = err) := by
  rw [specParse_eq table s hp]
  cases parseC table s with
  | error ce => simp [codeReading]
  | ok oe => simp [codeReading]

/-- … in particular the same language -/
theorem parse_agrees_lang (table : List NameInfo) (s : String) (hp : PlainNumbers s) (r : RE)
    (h : specParse table s = .ok r) : ∃ oe, parseC table s = .ok oe ∧ (contentRE oe).lang = r.lang := by
  obtain ⟨oe, h1, h2⟩ := ((parse_agrees table s hp).1 r).1 h
  exact ⟨oe, h1, by rw [h2]⟩

/-- without the side condition: the readers agree, or the specification refuses (syntax error) an expression with a
    count that is no plain number -/
theorem parse_agrees_or (table : List NameInfo) (s : String) :
    specParse table s = codeReading (parseC table s) ∨ (specParse table s = .error .syntax ∧ ¬ PlainNumbers s) := by
  rcases specParse_or table s with h | ⟨h, hp⟩
  · exact Or.inl h
  · exact Or.inr ⟨h, by rw [PlainNumbers, hp]; simp⟩

/-- so whatever the specification accepts, the code's parser accepts with the same expression -/
theorem specParse_ok_parseC (table : List NameInfo) (s : String) (r : RE) (h : specParse table s = .ok r) :
    ∃ oe, parseC table s = .ok oe ∧ contentRE oe = r := by
  rcases parse_agrees_or table s with h' | ⟨h', _⟩
  · rw [h] at h'
    cases hp : parseC table s with
    | error ce => rw [hp] at h'; cases h'
    | ok oe =>
      rw [hp] at h'
      simp only [codeReading, Except.ok.injEq] at h'
      exact ⟨oe, rfl, h'.symm⟩
  · rw [h] at h'; cases h'

private def exTable : List NameInfo := [⟨"a", ["g"], false⟩, ⟨"b", ["g"], false⟩, ⟨"text", [], true⟩]

/-- the side condition holds for the expressions of the grammar … -/
example : PlainNumbers "(a | b){2,10} g* a{3}" := by decide +kernel
/-- … the readers agree there (here checked by evaluation, groups expanded in schema order) … -/
example : specParse exTable "(a | b){2,3} g*" =
    .ok (RE.seq (RE.range (RE.alt (RE.sym 0) (RE.sym 1)) 2 (some 3)) (RE.star (RE.alt (RE.sym 0) (RE.sym 1)))) := by
  decide +kernel
/-- … and the three documented refusals -/
example : specParse exTable "a{2" = .error .syntax ∧ specParse exTable "a nosuch" = .error .unknownName ∧
    specParse exTable "a text" = .error .mixed := by decide +kernel
/-- **the code is more lenient than the grammar**: `a{1_0}` is no expression of the documented grammar (the
    specification refuses it, `PlainNumbers` fails), the code's parser reads it as `a{10}` -/
example : ¬ PlainNumbers "a{1_0}" ∧ specParse exTable "a{1_0}" = .error .syntax ∧
    codeReading (parseC exTable "a{1_0}") = specParse exTable "a{10}" ∧
    specParse exTable "a{10}" = .ok (RE.range (RE.sym 0) 10 (some 10)) := by decide +kernel

/-- **the compiler, in terms of the specification reader alone**: an expression the specification reads as `r` is
    accepted by the code's parser, and the automaton compiled from it accepts a sequence of child types exactly when
    `r` matches it, and keeps a match state alive after a prefix exactly when the prefix can be extended to a match of
    `r` -/
theorem compile_spec (table : List NameInfo) (s : String) (r : RE) (h : specParse table s = .ok r) :
    ∃ oe, parseC table s = .ok oe ∧
      (∀ w, (compileDfa oe).accepts w = true ↔ w ∈ r.lang) ∧
      (∀ w, ((compileDfa oe).run 0 w).isSome = true ↔ ∃ v, w ++ v ∈ r.lang) := by
  obtain ⟨oe, hp, rfl⟩ := specParse_ok_parseC table s r h
  refine ⟨oe, hp, ?_⟩
  cases oe with
  | none => exact ⟨fun w => (compile_empty w).1, fun w => (compile_empty w).2⟩
  | some e =>
    have hwf := (parseC_wf hp).1
    exact ⟨fun w => compile_accepts e hwf w, fun w => compile_live e hwf w⟩

/-- **C06 for the schema constructor, in terms of the specification reader alone**: in a schema the constructor
    accepts, the content expression of every node type (counts plain numbers) is an expression of the grammar — the
    specification reads it, as `r` —, the automaton the schema holds for the type accepts a sequence of child types
    exactly when `r` matches it, keeps a match state alive after a prefix exactly when the prefix can be extended to a
    match of `r`, and every such prefix can be completed by generatable node types alone -/
theorem buildSchema_content_spec {spec : Spec} {S : Schema} (h : buildSchema spec = .ok S)
    (i : Nat) (hi : i < spec.nodes.length) (hp : PlainNumbers spec.nodes[i].content) :
    ∃ r, specParse (nameTable spec) spec.nodes[i].content = .ok r ∧
      (∀ w, (S.dfa i).accepts w = true ↔ w ∈ r.lang) ∧
      (∀ w, ((S.dfa i).run 0 w).isSome = true ↔ ∃ v, w ++ v ∈ r.lang) ∧
      (∀ w, (∃ v, w ++ v ∈ r.lang) → ∃ v, (∀ t, t ∈ v → S.generatable t = true) ∧ w ++ v ∈ r.lang) := by
  obtain ⟨oe, h1, _, h3, h4⟩ := buildSchema_content_correct h i hi
  refine ⟨contentRE oe, ?_, h3, h4, fun w hw => buildSchema_completable h i hi oe h1 w hw⟩
  rw [specParse_eq _ _ hp, h1]
  rfl

/-- … and the other way round: a spec with a node type whose content expression the specification refuses (for any
    of its three reasons) is refused by the constructor -/
theorem buildSchema_rejects_spec (spec : Spec) (i : Nat) (hi : i < spec.nodes.length)
    (hp : PlainNumbers spec.nodes[i].content) (err : PErr)
    (hbad : specParse (nameTable spec) spec.nodes[i].content = .error err) : ∃ e, buildSchema spec = .error e := by
  cases hb : buildSchema spec with
  | error e => exact ⟨e, rfl⟩
  | ok S =>
    obtain ⟨r, hr, _⟩ := buildSchema_content_spec hb i hi hp
    rw [hr] at hbad
    cases hbad

/-- non-vacuity: the accepted example spec above has plain counts throughout, and the specification reads `doc`'s
    content as `p p` -/
example : (∀ i, (hi : i < exSpec.nodes.length) → PlainNumbers exSpec.nodes[i].content) ∧
    specParse (nameTable exSpec) "p p" = .ok (RE.seq (RE.sym 1) (RE.sym 1)) := by decide +kernel

/-! ### dead ends on the expression itself, and which refusal comes first

  `DeadEndSpec r gen` is "a required position only non-generatable node types can fill", stated on the regular
  expression with no automaton in sight.  `check_for_dead_ends` on the compiled automaton holds exactly then
  (`compile_deadEnd_iff_spec`); the order of the checks of `Schema.__init__` / `NodeType.compile` /
  `ContentMatch.parse` is `buildSchema_first_error` / `nodeStep_refusal`; the spec-level search of op `c06`
  (`hasDeadEnd?`) decides `DeadEndSpec` whenever it answers, and always answers with the structural allowance
  `reachFuel` — so `DeadEndSpec` is decidable and the examples below are by `decide`. -/

/-- what `DeadEndSpec` says: some sequence `w` of node types (generatable or not) can be extended to a match of the
    expression, yet no extension of `w` by generatable types alone is a match -/
theorem deadEndSpec_def (r : RE) (gen : Nat → Bool) :
    DeadEndSpec r gen ↔
      ∃ w, (∃ v, w ++ v ∈ r.lang) ∧ ¬ ∃ v, (∀ t, t ∈ v → gen t = true) ∧ w ++ v ∈ r.lang := Iff.rfl

/-- **`check_for_dead_ends` is the declarative dead end**: on the compiled automaton of every expression — as built
    and renumbered breadth-first, the form `ContentMatch.parse` checks — the test finds a dead end exactly when the
    expression, read as a regular expression, has one -/
theorem compile_deadEnd_iff_spec (e : Expr) (h : e.wf = true) (gen : Nat → Bool) :
    ((dfa (nfa e)).hasDeadEnd gen = true ↔ DeadEndSpec e.toRE gen) ∧
    ((dfa (nfa e)).bfs.hasDeadEnd gen = true ↔ DeadEndSpec e.toRE gen) :=
  ⟨compile_deadEnd_spec' e h gen, compile_bfs_deadEnd_spec' e h gen⟩

/-- … in terms of the specification reader alone: an expression `specParse` reads as `r` is accepted by the code's
    parser, and the dead-end test on the automaton compiled from it holds exactly when `r` has a dead end -/
theorem compile_deadEnd_spec (table : List NameInfo) (s : String) (r : RE) (h : specParse table s = .ok r)
    (gen : Nat → Bool) :
    ∃ oe, parseC table s = .ok oe ∧ ((compileDfa oe).hasDeadEnd gen = true ↔ DeadEndSpec r gen) := by
  obtain ⟨oe, hp, rfl⟩ := specParse_ok_parseC table s r h
  refine ⟨oe, hp, ?_⟩
  cases oe with
  | none =>
    have h1 : (compileDfa none).hasDeadEnd gen = false := emptyMatch_noDeadEnd gen
    simp only [h1, Bool.false_eq_true, false_iff]
    exact not_deadEndSpec_eps gen
  | some e => exact (compile_deadEnd_iff_spec e (parseC_wf hp).1 gen).1

/-- **which refusal `ContentMatch.parse` gives**: the parser's, with its reason, if the parser refuses; else the
    dead-end refusal exactly when the expression has `DeadEndSpec`; no other -/
theorem contentMatch_refusal (spec : Spec) (s : String) (err : BuildErr) :
    contentMatch spec s = .error err ↔
      (∃ ce, parseC (nameTable spec) s = .error ce ∧ err = .content ce) ∨
      (∃ oe, parseC (nameTable spec) s = .ok oe ∧ DeadEndSpec (contentRE oe) (specGen spec) ∧ err = .deadEnd) :=
  contentMatch_error_iff spec s err

/-- … in terms of the specification reader (counts plain numbers): the reason `specParse` gives — unknown name,
    inline/block mixing, syntax, whichever its left-to-right reading meets first — is the kind of the refusal; an
    expression it reads is refused for a dead end exactly when it has `DeadEndSpec`, and accepted otherwise -/
theorem contentMatch_refusal_spec (spec : Spec) (s : String) (hp : PlainNumbers s) :
    (∀ perr, specParse (nameTable spec) s = .error perr ↔
      ∃ ce, contentMatch spec s = .error (.content ce) ∧ ce.toPErr = perr) ∧
    (∀ r, specParse (nameTable spec) s = .ok r →
      (contentMatch spec s = .error .deadEnd ↔ DeadEndSpec r (specGen spec)) ∧
      ((∃ d, contentMatch spec s = .ok d) ↔ ¬ DeadEndSpec r (specGen spec))) :=
  contentMatch_verdict_spec spec s hp

/-- **the order of the refusals within one round of the node loop** (`nodeStep`: the round with the content cache
    taken out — `buildNodes_steps` shows the cache is not observable): the node name is also a mark name; else the
    parser refuses the content expression; else the expression has a dead end; else the `marks` expression names an
    unknown mark -/
theorem nodeStep_refusal (spec : Spec) (ns : NodeSpec) (err : BuildErr) :
    nodeStep spec ns = .error err ↔
      ((∃ m ∈ spec.marks, m.name = ns.name) ∧ err = .table .nameClash) ∨
      ((∀ m ∈ spec.marks, m.name ≠ ns.name) ∧
        ((∃ ce, parseC (nameTable spec) ns.content = .error ce ∧ err = .content ce) ∨
         (∃ oe, parseC (nameTable spec) ns.content = .ok oe ∧
            ((DeadEndSpec (contentRE oe) (specGen spec) ∧ err = .deadEnd) ∨
             (¬ DeadEndSpec (contentRE oe) (specGen spec) ∧
               (∃ e, ns.marks = some e ∧ e ≠ "_" ∧ e ≠ "" ∧ ¬ ExprKnown spec.marks e) ∧
               err = .table .unknownMark))))) :=
  nodeStep_error_iff spec ns err

/-- a round passes exactly when none of the four applies -/
theorem nodeStep_passes (spec : Spec) (ns : NodeSpec) :
    (∃ nt, nodeStep spec ns = .ok nt) ↔
      (∀ m ∈ spec.marks, m.name ≠ ns.name) ∧
      (∃ oe, parseC (nameTable spec) ns.content = .ok oe ∧ ¬ DeadEndSpec (contentRE oe) (specGen spec)) ∧
      (∀ e, ns.marks = some e → e ≠ "_" → e ≠ "" → ExprKnown spec.marks e) :=
  nodeStep_ok_iff spec ns

/-- **which refusal `Schema(spec)` gives when several apply** — the order of the checks as a theorem of the model:
    no top node type; no `text` type; attributes on `text`; then the first node type in declaration order that does
    not pass its round of the node loop, with the refusal of that round (`nodeStep_refusal`); then the first mark
    type whose `excludes` names an unknown mark.  (`HeadOk`: the three checks before the loop pass.
    `FirstNodeErr spec err`: some node type `i` is refused with `err` and every `j < i` passes.) -/
theorem buildSchema_first_error (spec : Spec) (err : BuildErr) :
    buildSchema spec = .error err ↔
      (spec.nodes.findIdx? (fun n => n.name == spec.topName) = none ∧ err = .table .missingTop) ∨
      ((∃ top, spec.nodes.findIdx? (fun n => n.name == spec.topName) = some top) ∧
        spec.nodes.findIdx? (fun n => n.name == "text") = none ∧ err = .table .missingText) ∨
      ((∃ top, spec.nodes.findIdx? (fun n => n.name == spec.topName) = some top) ∧
        (∃ textTy, spec.nodes.findIdx? (fun n => n.name == "text") = some textTy ∧
          (spec.nodes[textTy]?.map (fun n => n.attrs.isEmpty)).getD true = false) ∧ err = .table .textAttrs) ∨
      (HeadOk spec ∧ FirstNodeErr spec err) ∨
      (HeadOk spec ∧ (∀ i (hi : i < spec.nodes.length), ∃ nt, nodeStep spec spec.nodes[i] = .ok nt) ∧
        ∃ e, seqIdx (compileMark spec) 0 spec.marks = .error e ∧ err = .table e) :=
  buildSchema_error_iff spec err

/-- **the kind of the refusal, from the specification**: when the checks before the loop pass and every node type
    before `i` passes its round, what is wrong with node type `i` decides the refusal of `Schema(spec)` — whatever
    else is wrong with `i`, with any later node type or with the marks: a name that is also a mark name gives the
    name clash; else (counts plain numbers) a content expression `specParse` refuses gives the content refusal with
    the reason `specParse` gives; else, `specParse` reading it as `r`, a dead end of `r` gives the dead-end refusal;
    else a `marks` expression naming an unknown mark gives that refusal -/
theorem buildSchema_refusal_kind (spec : Spec) (hhead : HeadOk spec) (i : Nat) (hi : i < spec.nodes.length)
    (hbefore : ∀ j (hj : j < i), ∃ nt, nodeStep spec (spec.nodes[j]'(Nat.lt_trans hj hi)) = .ok nt) :
    ((∃ m ∈ spec.marks, m.name = spec.nodes[i].name) → buildSchema spec = .error (.table .nameClash)) ∧
    ((∀ m ∈ spec.marks, m.name ≠ spec.nodes[i].name) → PlainNumbers spec.nodes[i].content →
      (∀ perr, specParse (nameTable spec) spec.nodes[i].content = .error perr →
        ∃ ce, buildSchema spec = .error (.content ce) ∧ ce.toPErr = perr) ∧
      (∀ r, specParse (nameTable spec) spec.nodes[i].content = .ok r →
        (DeadEndSpec r (specGen spec) → buildSchema spec = .error .deadEnd) ∧
        (¬ DeadEndSpec r (specGen spec) →
          (∃ e, spec.nodes[i].marks = some e ∧ e ≠ "_" ∧ e ≠ "" ∧ ¬ ExprKnown spec.marks e) →
          buildSchema spec = .error (.table .unknownMark)))) := by
  have hstep : ∀ err, nodeStep spec spec.nodes[i] = .error err → buildSchema spec = .error err := fun err he =>
    (buildSchema_error_iff spec err).2 (Or.inr (Or.inr (Or.inr (Or.inl ⟨hhead, i, hi, he, hbefore⟩))))
  refine ⟨fun hc => hstep _ ((nodeStep_error_iff spec _ _).2 (Or.inl ⟨hc, rfl⟩)), fun hclash hp => ?_⟩
  have hrd := specParse_eq (nameTable spec) spec.nodes[i].content hp
  refine ⟨fun perr hs => ?_, fun r hs => ?_⟩
  · rw [hrd] at hs
    cases hc : parseC (nameTable spec) spec.nodes[i].content with
    | ok oe => rw [hc] at hs; cases hs
    | error ce =>
      rw [hc] at hs
      simp only [codeReading, Except.error.injEq] at hs
      exact ⟨ce, hstep _ ((nodeStep_error_iff spec _ _).2 (Or.inr ⟨hclash, Or.inl ⟨ce, hc, rfl⟩⟩)), hs⟩
  · obtain ⟨oe, hc, rfl⟩ := specParse_ok_parseC _ _ r hs
    exact ⟨fun hd => hstep _ ((nodeStep_error_iff spec _ _).2 (Or.inr ⟨hclash, Or.inr ⟨oe, hc, Or.inl ⟨hd, rfl⟩⟩⟩)),
      fun hnd hm => hstep _ ((nodeStep_error_iff spec _ _).2
        (Or.inr ⟨hclash, Or.inr ⟨oe, hc, Or.inr ⟨hnd, hm, rfl⟩⟩⟩))⟩

/-- **what the reasons of the specification reader mean**: an expression refused for an unknown name has a word
    that is neither a node type nor a group with members; an expression refused for mixing has two words (possibly
    the same group name) standing for node types of which one is inline and the other is not.  (Which reason is
    given when several apply is the left-to-right reading of `specParse`; `syntax` is every other refusal.) -/
theorem specParse_refusal_cause (table : List NameInfo) (s : String) :
    (specParse table s = .error .unknownName →
      ∃ t, t ∈ tokenize s ∧ isWordTok t = true ∧ resolveIds table t = []) ∧
    (specParse table s = .error .mixed →
      ∃ t t', t ∈ tokenize s ∧ t' ∈ tokenize s ∧ isWordTok t = true ∧ isWordTok t' = true ∧
        ∃ a b, a ∈ resolveIds table t ∧ b ∈ resolveIds table t' ∧ (table[a]!).isInline ≠ (table[b]!).isInline) :=
  ⟨fun h => specParse_cause table s _ h, fun h => specParse_cause table s _ h⟩

/-- **a content or dead-end refusal of `Schema(spec)` has its cause**: some node type `i` — every one before it
    passes its round — whose content expression the parser refuses with that very error (and, counts plain numbers,
    `specParse` refuses for the corresponding reason, with the cause of `specParse_refusal_cause`), respectively
    whose expression the parser accepts and which has `DeadEndSpec` -/
theorem buildSchema_refusal_cause (spec : Spec) :
    (∀ ce, buildSchema spec = .error (.content ce) →
      ∃ i, ∃ hi : i < spec.nodes.length, parseC (nameTable spec) spec.nodes[i].content = .error ce ∧
        (∀ j (hj : j < i), ∃ nt, nodeStep spec (spec.nodes[j]'(Nat.lt_trans hj hi)) = .ok nt) ∧
        (PlainNumbers spec.nodes[i].content →
          specParse (nameTable spec) spec.nodes[i].content = .error ce.toPErr ∧
          ErrCause (nameTable spec) (tokenize spec.nodes[i].content) ce.toPErr)) ∧
    (buildSchema spec = .error .deadEnd →
      ∃ i, ∃ hi : i < spec.nodes.length, ∃ oe, parseC (nameTable spec) spec.nodes[i].content = .ok oe ∧
        DeadEndSpec (contentRE oe) (specGen spec) ∧
        ∀ j (hj : j < i), ∃ nt, nodeStep spec (spec.nodes[j]'(Nat.lt_trans hj hi)) = .ok nt) := by
  refine ⟨fun ce hb => ?_, fun hb => ?_⟩
  · rcases (buildSchema_error_iff spec _).1 hb with ⟨_, h⟩ | ⟨_, _, h⟩ | ⟨_, _, h⟩ | ⟨_, i, hi, he, hbefore⟩ |
      ⟨_, _, e, _, h⟩
    · cases h
    · cases h
    · cases h
    · refine ⟨i, hi, ?_, hbefore, ?_⟩
      · rcases (nodeStep_error_iff spec _ _).1 he with ⟨_, h⟩ | ⟨_, ⟨ce', h1, h2⟩ | ⟨_, _, ⟨_, h⟩ | ⟨_, _, h⟩⟩⟩
        · cases h
        · cases h2; exact h1
        · cases h
        · cases h
      · intro hp
        have hce : parseC (nameTable spec) spec.nodes[i].content = .error ce := by
          rcases (nodeStep_error_iff spec _ _).1 he with ⟨_, h⟩ | ⟨_, ⟨ce', h1, h2⟩ | ⟨_, _, ⟨_, h⟩ | ⟨_, _, h⟩⟩⟩
          · cases h
          · cases h2; exact h1
          · cases h
          · cases h
        have hs : specParse (nameTable spec) spec.nodes[i].content = .error ce.toPErr := by
          rw [specParse_eq _ _ hp, hce]; rfl
        exact ⟨hs, specParse_cause _ _ _ hs⟩
    · cases h
  · rcases (buildSchema_error_iff spec _).1 hb with ⟨_, h⟩ | ⟨_, _, h⟩ | ⟨_, _, h⟩ | ⟨_, i, hi, he, hbefore⟩ |
      ⟨_, _, e, _, h⟩
    · cases h
    · cases h
    · cases h
    · rcases (nodeStep_error_iff spec _ _).1 he with ⟨_, h⟩ | ⟨_, ⟨_, _, h⟩ | ⟨oe, h1, ⟨h2, _⟩ | ⟨_, _, h⟩⟩⟩
      · cases h
      · cases h
      · exact ⟨i, hi, oe, h1, h2, hbefore⟩
      · cases h
    · cases h

/-- **the dead-end refusal, exactly**: for a spec in which everything else is in order (the checks before the loop
    pass, no node name is a mark name, every `marks` expression names known marks, `specParse` reads every content
    expression), `Schema(spec)` refuses with the dead-end error exactly when the content expression of some node
    type has `DeadEndSpec` — and accepts otherwise if the `excludes` of the marks are in order -/
theorem buildSchema_rejects_deadEnd_iff (spec : Spec) (hhead : HeadOk spec)
    (hclash : ∀ n ∈ spec.nodes, ∀ m ∈ spec.marks, m.name ≠ n.name)
    (hmarks : ∀ n ∈ spec.nodes, ∀ e, n.marks = some e → e ≠ "_" → e ≠ "" → ExprKnown spec.marks e)
    (hparse : ∀ i (hi : i < spec.nodes.length), ∃ r, specParse (nameTable spec) spec.nodes[i].content = .ok r) :
    buildSchema spec = .error .deadEnd ↔
      ∃ i, ∃ hi : i < spec.nodes.length, ∃ r, specParse (nameTable spec) spec.nodes[i].content = .ok r ∧
        DeadEndSpec r (specGen spec) := by
  -- the round of node type `n`: passes, or the dead-end refusal
  have hround : ∀ n (hn : n < spec.nodes.length), ∃ oe, parseC (nameTable spec) spec.nodes[n].content = .ok oe ∧
      specParse (nameTable spec) spec.nodes[n].content = .ok (contentRE oe) ∧
      (DeadEndSpec (contentRE oe) (specGen spec) → nodeStep spec spec.nodes[n] = .error .deadEnd) ∧
      (¬ DeadEndSpec (contentRE oe) (specGen spec) → ∃ nt, nodeStep spec spec.nodes[n] = .ok nt) := by
    intro n hn
    obtain ⟨r, hr⟩ := hparse n hn
    obtain ⟨oe, hc, rfl⟩ := specParse_ok_parseC _ _ r hr
    have hmem : spec.nodes[n] ∈ spec.nodes := List.getElem_mem hn
    refine ⟨oe, hc, hr, fun hd => ?_, fun hnd => ?_⟩
    · exact (nodeStep_error_iff spec _ _).2 (Or.inr ⟨hclash _ hmem, Or.inr ⟨oe, hc, Or.inl ⟨hd, rfl⟩⟩⟩)
    · exact (nodeStep_ok_iff spec _).2 ⟨hclash _ hmem, ⟨oe, hc, hnd⟩, hmarks _ hmem⟩
  constructor
  · intro hb
    rcases (buildSchema_error_iff spec .deadEnd).1 hb with ⟨_, h⟩ | ⟨_, _, h⟩ | ⟨_, _, h⟩ | ⟨_, k, hk, hke, _⟩ |
      ⟨_, _, e, _, h⟩
    · cases h
    · cases h
    · cases h
    · obtain ⟨oe, hc, hr, _, h2⟩ := hround k hk
      refine ⟨k, hk, _, hr, ?_⟩
      by_contra hnd
      obtain ⟨nt, hnt⟩ := h2 hnd
      rw [hnt] at hke
      cases hke
    · cases h
  · rintro ⟨i, hi, r, hr, hd⟩
    -- the first node type with a dead end
    have hex : ∃ i, i < spec.nodes.length ∧ ∃ hi : i < spec.nodes.length, ∃ r,
        specParse (nameTable spec) spec.nodes[i].content = .ok r ∧ DeadEndSpec r (specGen spec) :=
      ⟨i, hi, hi, r, hr, hd⟩
    classical
    let k := Nat.find hex
    obtain ⟨hk, _, r', hr', hd'⟩ := Nat.find_spec hex
    have hmin : ∀ j, j < k → ¬ (j < spec.nodes.length ∧ ∃ hj : j < spec.nodes.length, ∃ r,
        specParse (nameTable spec) spec.nodes[j].content = .ok r ∧ DeadEndSpec r (specGen spec)) :=
      fun j hj => Nat.find_min hex hj
    refine (buildSchema_error_iff spec .deadEnd).2 (Or.inr (Or.inr (Or.inr (Or.inl ⟨hhead, k, hk, ?_, ?_⟩))))
    · obtain ⟨oe, _, hr2, h1, _⟩ := hround k hk
      rw [hr'] at hr2
      cases hr2
      exact h1 hd'
    · intro j hj
      have hjl : j < spec.nodes.length := Nat.lt_trans hj hk
      obtain ⟨oe, _, hr2, _, h2⟩ := hround j hjl
      exact h2 (fun hdj => hmin j hj ⟨hjl, hjl, _, hr2, hdj⟩)

/-- **acceptance, exactly**: `Schema(spec)` builds iff the checks before the loop pass, every node type passes its
    round (no name clash, the parser accepts the content expression, the expression has no dead end, the `marks`
    expression names known marks), and every `excludes` names known marks -/
theorem buildSchema_accepts_iff (spec : Spec) :
    (∃ S, buildSchema spec = .ok S) ↔
      HeadOk spec ∧
      (∀ n ∈ spec.nodes, (∀ m ∈ spec.marks, m.name ≠ n.name) ∧
        (∃ oe, parseC (nameTable spec) n.content = .ok oe ∧ ¬ DeadEndSpec (contentRE oe) (specGen spec)) ∧
        (∀ e, n.marks = some e → e ≠ "_" → e ≠ "" → ExprKnown spec.marks e)) ∧
      (∀ m ∈ spec.marks, ∀ e, m.excludes = some e → e ≠ "" → ExprKnown spec.marks e) :=
  buildSchema_ok_iff spec

/-- … in terms of the specification alone (counts plain numbers): a spec is accepted iff its tables are in order,
    `specParse` reads every content expression — it is an expression of the documented grammar, its names are
    known and not mixed — and none has a dead end.  The last clause of C06 ("malformed expressions … are rejected
    when the schema is built") with its converse -/
theorem buildSchema_accepts_iff_spec (spec : Spec) (hplain : ∀ n ∈ spec.nodes, PlainNumbers n.content) :
    (∃ S, buildSchema spec = .ok S) ↔
      HeadOk spec ∧
      (∀ n ∈ spec.nodes, (∀ m ∈ spec.marks, m.name ≠ n.name) ∧
        (∃ r, specParse (nameTable spec) n.content = .ok r ∧ ¬ DeadEndSpec r (specGen spec)) ∧
        (∀ e, n.marks = some e → e ≠ "_" → e ≠ "" → ExprKnown spec.marks e)) ∧
      (∀ m ∈ spec.marks, ∀ e, m.excludes = some e → e ≠ "" → ExprKnown spec.marks e) := by
  rw [buildSchema_ok_iff]
  have key : ∀ n ∈ spec.nodes,
      ((∃ oe, parseC (nameTable spec) n.content = .ok oe ∧ ¬ DeadEndSpec (contentRE oe) (specGen spec)) ↔
        (∃ r, specParse (nameTable spec) n.content = .ok r ∧ ¬ DeadEndSpec r (specGen spec))) := by
    intro n hn
    rw [specParse_eq _ _ (hplain n hn)]
    cases parseC (nameTable spec) n.content with
    | error ce => simp [codeReading]
    | ok oe => simp [codeReading]
  constructor
  · rintro ⟨h1, h2, h3⟩
    exact ⟨h1, fun n hn => ⟨(h2 n hn).1, (key n hn).1 (h2 n hn).2.1, (h2 n hn).2.2⟩, h3⟩
  · rintro ⟨h1, h2, h3⟩
    exact ⟨h1, fun n hn => ⟨(h2 n hn).1, (key n hn).2 (h2 n hn).2.1, (h2 n hn).2.2⟩, h3⟩

/-- **the spec-level dead-end search of op `c06` decides the specification whenever it answers**: over an alphabet
    that has the symbols of the expression, `hasDeadEnd? sigma gen r = some b` means `b` is `DeadEndSpec r gen` -/
theorem hasDeadEnd?_decides (sigma : List Nat) (gen : Nat → Bool) (r : RE) (hs : ∀ b, b ∈ r.syms → b ∈ sigma)
    (b : Bool) (h : hasDeadEnd? sigma gen r = some b) : b = true ↔ DeadEndSpec r gen :=
  hasDeadEnd?_spec sigma gen r hs b h

/-- … as op `c06` calls it: for an expression `specParse` reads, over the node types of the table -/
theorem c06_dead_correct (table : List NameInfo) (s : String) (r : RE) (h : specParse table s = .ok r)
    (gen : Nat → Bool) (b : Bool) (hb : hasDeadEnd? (List.range table.length) gen r = some b) :
    b = true ↔ DeadEndSpec r gen := by
  refine hasDeadEnd?_spec _ gen r (fun c hc => ?_) b hb
  obtain ⟨oe, hp, rfl⟩ := specParse_ok_parseC table s r h
  cases oe with
  | none => simp [contentRE, RE.syms] at hc
  | some e => exact List.mem_range.2 ((parseC_wf hp).2 c (toRE_syms e c hc))

/-- **the allowance**: the exploration visits pairwise different sets of partial derivatives of `r` (Antimirov:
    all of them among `r :: pdAll r`), at most `2 ^ (#pdAll r + 1)` of them, each with `#sigma` successors; with an
    allowance of `reachFuel sigma r = 1 + 2 ^ (#pdAll r + 1) * #sigma` or more the search answers; `#pdAll r` is the
    number of symbol occurrences of `r` (`r.syms.length`: names after group expansion and unrolling of the counts).  In particular
    "unknown" is unreachable in op `c06` (allowance 200000) for every expression with `reachFuel sigma r ≤ 200000`,
    and with the structural allowance for every expression -/
theorem hasDeadEnd?_answers (sigma : List Nat) (gen : Nat → Bool) (r : RE) :
    reachFuel sigma r = 1 + 2 ^ (r.syms.length + 1) * sigma.length ∧
    (∀ fuel, reachFuel sigma r ≤ fuel → ∃ b, hasDeadEndWith? fuel sigma gen r = some b) ∧
    (reachFuel sigma r ≤ 200000 → ∃ b, hasDeadEnd? sigma gen r = some b) :=
  ⟨reachFuel_eq sigma r, fun fuel hf => hasDeadEndWith?_total fuel sigma gen r hf, hasDeadEnd?_total sigma gen r⟩

/-- so the declarative dead end is decidable: the search with the structural allowance over the symbols of the
    expression (`decDeadEnd`) is a decision procedure for it (registered as the `Decidable` instance) -/
theorem deadEndSpec_decided (r : RE) (gen : Nat → Bool) : decDeadEnd r gen = true ↔ DeadEndSpec r gen :=
  decDeadEnd_iff r gen

/-- the allowance of op `c06` covers e.g. every expression with at most 12 symbol occurrences over 20 node types
    (here: one with 6 partial derivatives) -/
example : reachFuel (List.range 20) (RE.seq (RE.star (RE.alt (RE.sym 0) (RE.seq (RE.sym 1) (RE.sym 2))))
    (RE.range (RE.sym 3) 2 (some 3))) ≤ 200000 := by decide

/-- **examples, by `decide`** (`a` = node type 0, generatable; `img` = node type 1, required attribute):
    `a* img` has a dead end — after any number of `a` only the non-generatable `img` completes the content … -/
example : DeadEndSpec (RE.seq (RE.star (RE.sym 0)) (RE.sym 1)) (fun t => t != 1) := by decide
/-- … `(a | img)+` has none: every prefix can be completed by `a`s (or is complete) … -/
example : ¬ DeadEndSpec (RE.plus (RE.alt (RE.sym 0) (RE.sym 1))) (fun t => t != 1) := by decide
/-- … `(a a)* a img` has one although every state *offers* the generatable `a` (the reading is global) … -/
example : DeadEndSpec (RE.seq (RE.star (RE.seq (RE.sym 0) (RE.sym 0))) (RE.seq (RE.sym 0) (RE.sym 1)))
    (fun t => t != 1) := by decide
/-- … `img?  a` and `(img | a) a*` have none, `img{1,2}` has one -/
example : ¬ DeadEndSpec (RE.seq (RE.opt (RE.sym 1)) (RE.sym 0)) (fun t => t != 1) ∧
    ¬ DeadEndSpec (RE.seq (RE.alt (RE.sym 1) (RE.sym 0)) (RE.star (RE.sym 0))) (fun t => t != 1) ∧
    DeadEndSpec (RE.range (RE.sym 1) 1 (some 2)) (fun t => t != 1) := by decide

/-- the same on the example spec above, through the specification reader and the generatable test of the spec
    (`br` generatable, `img` has a required attribute): `br* img` has a dead end, `(br | img)+` has none -/
example : (∃ r, specParse (nameTable exSpec) "br* img" = .ok r ∧ DeadEndSpec r (specGen exSpec)) ∧
    (∃ r, specParse (nameTable exSpec) "(br | img)+" = .ok r ∧ ¬ DeadEndSpec r (specGen exSpec)) :=
  ⟨⟨RE.seq (RE.star (RE.sym 3)) (RE.sym 4), by decide +kernel, by decide +kernel⟩,
   ⟨RE.plus (RE.alt (RE.sym 3) (RE.sym 4)), by decide +kernel, by decide +kernel⟩⟩

/-! non-vacuity of the refusal theorems, on specs whose automata the kernel cannot evaluate (repetitions): the
    theorems give the refusal from the *specification* — `specParse`, `DeadEndSpec` by `decide` — with no run of the
    compiler -/

private theorem exists_ok_of_toBool {ε α : Type} {x : Except ε α} (h : x.toBool = true) : ∃ r, x = .ok r := by
  cases x with
  | error e => cases h
  | ok r => exact ⟨r, rfl⟩

/-- `fig` with content `br* img` (a dead end) at the end of the example spec -/
private def exDead : Spec :=
  { exSpec with nodes := exSpec.nodes ++ [{ name := "fig", content := "br* img" }] }

/-- everything else is in order, so `Schema(exDead)` gives the dead-end refusal: by `buildSchema_rejects_deadEnd_iff`
    and `decide` on the specification -/
example : buildSchema exDead = .error .deadEnd := by
  have hnone : ∀ n ∈ exDead.nodes, n.marks = none := by decide
  refine (buildSchema_rejects_deadEnd_iff exDead (by decide) (by decide)
    (fun n hn e he => by rw [hnone n hn] at he; cases he)
    (fun i hi => exists_ok_of_toBool (by revert i; decide +kernel))).2 ?_
  exact ⟨5, by decide, RE.seq (RE.star (RE.sym 3)) (RE.sym 4), by decide +kernel, by decide +kernel⟩

/-- several things wrong at once: `doc` has an unknown name *and* an unclosed group in its content and an unknown
    mark in `marks`, `fig` has a dead end, the mark excludes an unknown mark.  The first check that speaks is the
    parser on `doc`, and its left-to-right reading meets the unknown name first -/
private def exMany : Spec := {
  nodes := [
    { name := "doc", content := "p nosuch (", marks := some "nomark" },
    { name := "p", content := "br", group := some "block" },
    { name := "text", group := some "inline" },
    { name := "br", inline := true, group := some "inline" },
    { name := "img", inline := true, group := some "inline", attrs := [{ name := "src" }] },
    { name := "fig", content := "img" }],
  marks := [{ name := "em", excludes := some "nomark" }] }

example : ∃ ce, buildSchema exMany = .error (.content ce) ∧ ce.toPErr = .unknownName :=
  ((buildSchema_refusal_kind exMany (by decide) 0 (by decide)
    (fun j hj => absurd hj (Nat.not_lt_zero j))).2 (by decide) (by decide +kernel)).1 .unknownName (by decide +kernel)

end PM.C06
