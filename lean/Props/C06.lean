/-
  Props/C06.lean — C06: a content expression and its compiled matcher accept exactly the same sequences.

  The compiled automaton of the **real code** is validated by a **verified checker**: the harness
  dumps every `ContentMatch` graph the running library compiled, the (unverified) search `findCert`
  proposes a bisimulation certificate, `equivCheck` (a plain Bool function) checks it, and the
  theorems below say what a passed check means — in terms of Mathlib's `matches'`.  For the bundled
  and hand-written schemas the instances `equivCheck dfa Σ expr V = true` are regenerated from the
  source on every run into `Gen/DfaCerts.lean` and proved there by `decide +kernel`.
-/
import PM.Regex
import PM.Compile
import Proofs.Regex
import Proofs.CompileMain
namespace PM.C06
open PM

theorem matcher_decides_language (r : RE) (w : List Nat) : RE.rmatch r w = true ↔ w ∈ r.lang :=
  rmatch_iff r w

/-- **complete content**: accepted as complete content exactly when the expression matches -/
theorem compiled_accepts_iff (d : Dfa) (sigma : List Nat) (r : RE) (V : Cert)
    (h : equivCheck d sigma r V = true) (w : List Nat) :
    d.accepts w = true ↔ w ∈ r.lang := equivCheck_accepts d sigma r V h w

/-- **prefix liveness**: a match state stays alive after a prefix exactly when the prefix can still be
    extended to a match -/
theorem compiled_live_iff (d : Dfa) (sigma : List Nat) (r : RE) (V : Cert)
    (h : equivCheck d sigma r V = true) (w : List Nat) :
    (d.run 0 w).isSome = true ↔ ∃ v, w ++ v ∈ r.lang := equivCheck_live d sigma r V h w

/-- the operators of the expression grammar denote what the documentation says -/
theorem plus_spec (r : RE) (w : List Nat) :
    w ∈ (RE.plus r).lang ↔ ∃ u v, u ∈ r.lang ∧ v ∈ (RE.star r).lang ∧ w = u ++ v := lang_plus r w

theorem opt_spec (r : RE) (w : List Nat) : w ∈ (RE.opt r).lang ↔ w = [] ∨ w ∈ r.lang := lang_opt r w

theorem range_spec (r : RE) (n : Nat) (m : Option Nat) (w : List Nat) :
    w ∈ (RE.range r n m).lang ↔
      ∃ ws : List (List Nat), n ≤ ws.length ∧ (∀ k, m = some k → ws.length ≤ max n k) ∧
        (∀ u, u ∈ ws → u ∈ r.lang) ∧ w = ws.flatten := lang_range r n m w

/-- non-vacuity: a concrete automaton/expression/certificate triple that passes the check
    (`paragraph+` style: state 0 -p-> 1, 1 -p-> 1, 1 final) -/
example : equivCheck #[⟨false, [(1, 1)]⟩, ⟨true, [(1, 1)]⟩] [0, 1] (RE.plus (RE.sym 1))
    [(0, [RE.plus (RE.sym 1)]), (1, [RE.star (RE.sym 1)])] = true := by
  decide +kernel

/-- … and one that does not (the automaton accepts a single `p` only) -/
example : equivCheck #[⟨false, [(1, 1)]⟩, ⟨true, []⟩] [0, 1] (RE.plus (RE.sym 1))
    [(0, [RE.plus (RE.sym 1)]), (1, [RE.star (RE.sym 1)])] = false := by
  decide +kernel

/-! ### the compiler itself (`PM/Compile.lean`: `parse_expr* → nfa → null_from → dfa`), for every expression

  `Expr` is the AST `parse_expr` builds, `nfa`/`nullFrom`/`dfa` reproduce the code's node numbering, edge order
  and state order (tied exactly, per run, to the automata the real code builds).  The only hypothesis is
  `Expr.wf`: no *empty* `choice`/`seq` list — the parser never builds one (`compile` raises `IndexError` on an
  empty `seq`, and an empty `choice` compiles to an automaton that accepts nothing, see the `example` below);
  the harness checks `wf` on every AST the model's parser produces and that `Expr.toRE` of it is the
  expression `specParse` reads.

  History: with the code as first pinned, these theorems needed a second hypothesis (no `{0,}` fragment
  compiled on a shared entry node): `nfa()` put the loop of `x{0,}` on the entry node, so `(b | a{0,})`
  accepted `a b`.  The library was repaired (`{0,}` loops on a node of its own); the model follows the
  repaired code and the hypothesis is gone. -/

/-- stage 1, the Thompson-style construction: the words read along the paths of the finished NFA from node 0 to
    the accepting node (`ε` = an edge with `term = none`) are exactly the words of the expression -/
theorem nfa_correct (e : Expr) (h : e.wf = true) (w : List Nat) :
    Path (nfaState e).edges 0 w (cnt e + 1) ↔ w ∈ e.toRE.lang := PM.nfa_correct e h w

/-- stage 2, `null_from`: the ε-closure without the pass-through nodes, for every NFA -/
theorem nullFrom_spec (N : Nfa) (hN : N.WF) (n : Nat) (hn : n < N.size) (m : Nat) :
    m ∈ nullFrom N n ↔ EpsReach N n m ∧ ¬ IsSkip N m := PM.nullFrom_spec N hN n hn m

/-- stage 3, `dfa`: the subset construction simulates the NFA, for every NFA whose edge targets are nodes
    (the fuel of `explore` is never exhausted) -/
theorem dfa_simulates (N : Nfa) (hN : N.WF) (hstart : nullFrom N 0 ≠ []) (w : List Nat) :
    ((dfa N).accepts w = true ↔ RunSet N (fun m => m ∈ nullFrom N 0) w (N.size - 1)) ∧
    (((dfa N).run 0 w).isSome = true ↔ ∃ m, RunSet N (fun m => m ∈ nullFrom N 0) w m) :=
  PM.dfa_simulates N hN hstart w

/-- **complete content, for every expression**: the automaton the compiler builds accepts a sequence of child
    types exactly when the expression, read as a regular expression, matches it -/
theorem compile_accepts (e : Expr) (h : e.wf = true) (w : List Nat) :
    (dfa (nfa e)).accepts w = true ↔ w ∈ (Expr.toRE e).lang := compile_accepts' e h w

/-- **prefix liveness, for every expression**: a match state stays alive after a prefix exactly when the prefix
    can be extended to a match -/
theorem compile_live (e : Expr) (h : e.wf = true) (w : List Nat) :
    ((dfa (nfa e)).run 0 w).isSome = true ↔ ∃ v, w ++ v ∈ (Expr.toRE e).lang := compile_live' e h w

/-- the same for the automaton renumbered breadth-first over `.next` — the form in which the harness dumps the
    real `ContentMatch` graph (compared exactly with `(dfa (nfa e)).bfs` on every run) and in which the schema
    tables of the other properties hold it -/
theorem compile_bfs (e : Expr) (h : e.wf = true) (w : List Nat) :
    ((dfa (nfa e)).bfs.accepts w = true ↔ w ∈ (Expr.toRE e).lang) ∧
    (((dfa (nfa e)).bfs.run 0 w).isSome = true ↔ ∃ v, w ++ v ∈ (Expr.toRE e).lang) := by
  obtain ⟨h1, h2⟩ := bfs_accepts _ (compile_dfa_wf e h) w
  rw [h1, h2]
  exact ⟨compile_accepts' e h w, compile_live' e h w⟩

/-- the empty expression (`ContentMatch.empty`) -/
theorem compile_empty (w : List Nat) :
    ((compileDfa none).accepts w = true ↔ w ∈ RE.eps.lang) ∧
    (((compileDfa none).run 0 w).isSome = true ↔ ∃ v, w ++ v ∈ RE.eps.lang) := by
  cases w with
  | nil =>
    refine ⟨by simp [compileDfa, Dfa.accepts, Dfa.run, Dfa.validEnd, mem_lang_eps], ?_⟩
    simp only [Dfa.run, Option.isSome_some, true_iff]
    exact ⟨[], (mem_lang_eps _).2 rfl⟩
  | cons a w =>
    refine ⟨by simp [compileDfa, Dfa.accepts, Dfa.run, Dfa.matchType, Dfa.edgesOf, mem_lang_eps], ?_⟩
    simp [compileDfa, Dfa.run, Dfa.matchType, Dfa.edgesOf, mem_lang_eps]

/-- **dead ends** (`check_for_dead_ends` on the compiled automaton): the expression passes exactly when from every
    reachable match state a valid end can be reached through generatable node types alone -/
theorem compile_deadEnd (e : Expr) (h : e.wf = true) (generatable : Nat → Bool) :
    (dfa (nfa e)).hasDeadEnd generatable = false ↔
      ∀ q, Dfa.Reach (dfa (nfa e)) q → Dfa.GenLive (dfa (nfa e)) generatable q :=
  hasDeadEnd_iff _ (compile_dfa_wf e h) generatable

/-- the hypothesis is satisfiable and non-trivial: `(a | b c)+ d{2,}` -/
example : (Expr.seq [.plus (.choice [.name 1, .seq [.name 2, .name 3]]), .range 2 none (.name 4)]).wf = true := by
  decide

/-- … and needed: an empty `choice` compiles to an automaton that does not even accept the empty sequence,
    while every `RE` has a word -/
example : (dfa (nfa (.choice []))).accepts [] = false := by decide +kernel

end PM.C06
