/-
  Props/Family.lean — the schema-level hypotheses of the property theorems, bundled.

  Many theorems of `Props/Cxx.lean` carry decidable hypotheses about the *schema* (`detB S`, `compatTransB S`,
  `TextLoop S`, `SchemaOk S`, `LiveSchema S`, `S.fillersOKB`, `S.wrapOKB`, …).  `Facts S` is the conjunction of their
  Boolean forms; every field is a closed Boolean computation on the compiled schema tables, so for a concrete schema
  `Facts S` is proved by kernel evaluation (`decide +kernel`).  That is done for the bundled schema family in the
  *generated* files `lean/Gen/SchemaFacts/<Name>.lean` (regenerated on every run by `harness/translate_schemas.py` from
  the schemas the running library compiled); `lean/Family/Cxx.lean` then instantiates the guarded theorems of
  `Props/Cxx.lean` for every schema of the family, leaving no schema hypothesis.

  This file does not import anything generated: it builds on a fresh checkout.
-/
import PM.FromDom
import PM.UndoGuard
import PM.Fitter
import Proofs.TokValid
import Proofs.Placement
import Proofs.PlacementValid
import Proofs.PlacementNoInternal
import PM.FillOrder
import Proofs.FillOrder
namespace PM.Family
open PM PM.FromDom

/-- Boolean form of `TextLoop` (Proofs/TokValid.lean) over the states that exist: after a text child a further
    text child is accepted and the automaton stays put -/
def textLoopB (S : Schema) : Bool :=
  (List.range S.nodes.size).all (fun t => (List.range (S.dfa t).size).all (fun q =>
    match (S.dfa t).matchType q S.textTy with
    | some q1 => (S.dfa t).matchType q1 S.textTy == some q1
    | none => true))

/-- Boolean form of `LeafEmpty` (Props/C15.lean): the start state of a leaf type's automaton is a valid end -/
def leafEmptyB (S : Schema) : Bool :=
  S.nodes.toList.all (fun nt => !nt.isLeaf || Dfa.validEnd nt.dfa 0)

/-- the text type is a type of the schema and is flagged as text; the top type is not the text type -/
def textTyB (S : Schema) : Bool :=
  decide (S.textTy < S.nodes.size) && (S.nodeType S.textTy).isText && !(S.nodeType S.top).isText

/-! ### `fillOkB` in a form the kernel can evaluate

`PM.fillBefore` (PM/Fill.lean) is a mutual recursion that Lean compiles by well-founded recursion: the kernel cannot
unfold it, `decide +kernel` gets stuck on `fillOkB`.  `fillBeforeTypes` (PM/FillOrder.lean) is the same search written
structurally in the fuel (`Proofs/FillOrder.lean: fillBeforeTypes_eq`); `fillOkK` is `fillOkB` over it. -/

/-- `FromDom.createAndFill` over `fillBeforeTypes` -/
def createAndFillK (S : Schema) : (fuel : Nat) → TypeId → Res Node
  | 0, _ => .error .internal
  | fuel + 1, t =>
    match computeAttrs (S.nodeType t).attrs [] with
    | .error e => .error e
    | .ok attrs =>
      match fillBeforeTypes S (S.dfa t) 0 [] true with
      | none => .error .internal
      | some tys =>
        match mapRes (createAndFillK S fuel) tys with
        | .error e => .error e
        | .ok kids => .ok (mkNode S t attrs [] kids)

theorem createAndFillK_eq (S : Schema) : ∀ fuel, createAndFillK S fuel = FromDom.createAndFill S fuel
  | 0 => by funext t; simp only [createAndFillK, FromDom.createAndFill]
  | fuel + 1 => by
    funext t
    simp only [createAndFillK, FromDom.createAndFill, fillBeforeTypes_eq, createAndFillK_eq S fuel]
    rfl

/-- `fillOkB` (PM/FromDom.lean) with the kernel-evaluable searches -/
def fillOkK (S : Schema) : Bool :=
  decide (S.top < S.nodes.size) &&
  (List.range S.nodes.size).all (fun t =>
    decide (0 < (S.dfa t).size) &&
    (!S.generatable t || (match createAndFillK S (S.nodes.size + 1) t with
      | .ok _ => true
      | .error _ => false)) &&
    (List.range (S.dfa t).size).all (fun q =>
      (fillBeforeTypes S (S.dfa t) q [] true).isSome &&
      ((S.dfa t).edgesOf q).all (fun e => decide (e.2 < (S.dfa t).size) && decide (e.1 < S.nodes.size))))

theorem fillOkK_eq (S : Schema) : fillOkK S = fillOkB S := by
  simp only [fillOkK, fillOkB, fillBeforeTypes_eq, createAndFillK_eq]
  rfl

/-- `SchemaOk` (Proofs/PlacementNoInternal.lean) from the two kernel-evaluable Booleans -/
theorem schemaOk_of_K (S : Schema) (hdet : detB S = true) (h : fillOkK S = true) : FromDom.SchemaOk S :=
  schemaOk_of_B S hdet (fillOkK_eq S ▸ h)

/-- **every schema-level guard the property theorems use**, as Booleans on the compiled tables -/
structure Facts (S : Schema) : Prop where
  /-- no state of a content automaton has two edges with the same label (`Det`, `DetS`, C15's `hdet`) -/
  det : detB S = true
  /-- `compatible_content` is transitive on the node types (C04 history undo, C16 merge) -/
  compatTrans : compatTransB S = true
  /-- `TextLoop` (C01/C04/C12/C13: merging adjacent texts keeps the content valid) -/
  textLoop : textLoopB S = true
  /-- leaf types accept the empty content (`LeafOk`, C19) -/
  leafOk : leafOkB S = true
  /-- automata well formed and fillings never fail (`SchemaOk` of C19, `LiveSchema` / `WrapWF` of C15) -/
  fillOk : fillOkK S = true
  /-- every type `fill_before` can choose can be created and filled (C11 `delete_total`) -/
  fillersOK : S.fillersOKB = true
  /-- C11 `insertInline_total`: wrappers found by pass 2 of `find_fittable` keep frontier and `placed` in step -/
  wrapOK : S.wrapOKB = true
  /-- `LeafEmpty` (C15: the argument-less `create_and_fill` copies agree with the general model) -/
  leafEmpty : leafEmptyB S = true
  /-- the `text` type exists and is the text type -/
  textTy : textTyB S = true

theorem dfa_size_default (S : Schema) (t : TypeId) (ht : ¬ t < S.nodes.size) : (S.dfa t).size = 0 := by
  simp only [Schema.dfa, Schema.nodeType]
  rw [getElem!_neg S.nodes t ht]
  rfl

theorem matchType_ge (d : Dfa) (q : Nat) (ty : TypeId) (hq : ¬ q < d.size) : d.matchType q ty = none := by
  have : d.edgesOf q = [] := by
    simp only [Dfa.edgesOf]
    rw [Array.getElem?_eq_none (by omega)]
  simp [Dfa.matchType, this]

theorem textLoop_of_B (S : Schema) (h : textLoopB S = true) : TextLoop S := by
  intro t q q1 hm
  by_cases hq : q < (S.dfa t).size
  · by_cases ht : t < S.nodes.size
    · simp only [textLoopB, List.all_eq_true, List.mem_range] at h
      have := h t ht q hq
      simp only [hm, beq_iff_eq] at this
      exact this
    · have := dfa_size_default S t ht
      omega
  · rw [matchType_ge _ _ _ hq] at hm
    cases hm

namespace Facts
variable {S : Schema}

theorem Det (h : Facts S) : FromDom.Det S := det_of_detB S h.det
theorem TextLoop (h : Facts S) : PM.TextLoop S := textLoop_of_B S h.textLoop
theorem TextStableP (h : Facts S) : PM.TextStableP S := h.TextLoop.stable
theorem LeafOk (h : Facts S) : FromDom.LeafOk S := leafOk_of_B S h.leafOk
theorem SchemaOk (h : Facts S) : FromDom.SchemaOk S := schemaOk_of_B S h.det (fillOkK_eq S ▸ h.fillOk)

end Facts

end PM.Family
