import Props.C08
import Props.C18
import Props.C12
