import Props.C08
import Props.C18
