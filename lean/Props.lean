import Props.C08
