/-
  Driver/Codec.lean — JSON <-> model values for the line protocol (not part of the proofs).
-/
import Lean.Data.Json
import PM
open Lean (Json)
namespace PM.Codec

abbrev D := Except String

def arr (j : Json) : D (Array Json) :=
  match j with
  | .arr a => .ok a
  | _ => .error s!"expected array: {j.compress}"

def nat (j : Json) : D Nat :=
  match j.getNat? with
  | .ok n => .ok n
  | .error _ => .error s!"expected nat: {j.compress}"

def int (j : Json) : D Int :=
  match j.getInt? with
  | .ok n => .ok n
  | .error _ => .error s!"expected int: {j.compress}"

def str (j : Json) : D String :=
  match j.getStr? with
  | .ok n => .ok n
  | .error _ => .error s!"expected string: {j.compress}"

def bool (j : Json) : D Bool :=
  match j.getBool? with
  | .ok n => .ok n
  | .error _ => .error s!"expected bool: {j.compress}"

def field (j : Json) (k : String) : D Json :=
  match j.getObjVal? k with
  | .ok v => .ok v
  | .error _ => .error s!"missing field {k}"

def fieldD (j : Json) (k : String) (d : Json) : Json :=
  match j.getObjVal? k with
  | .ok v => v
  | .error _ => d

def listOf {α} (f : Json → D α) (j : Json) : D (List α) := do
  let a ← arr j
  a.toList.mapM f

def attrs (j : Json) : D Attrs := listOf (fun p => do
  let a ← arr p
  if a.size != 2 then throw "attr pair"
  return (← str a[0]!, ← str a[1]!)) j

def mark (j : Json) : D Mark := do
  let a ← arr j
  if a.size != 2 then throw "mark pair"
  return ⟨← nat a[0]!, ← attrs a[1]!⟩

def marks (j : Json) : D Marks := listOf mark j

partial def node (j : Json) : D Node := do
  let a ← arr j
  let tag ← str a[0]!
  match tag with
  | "t" => return .text (← listOf nat a[1]!) (← marks a[2]!)
  | "l" => return .leaf (← nat a[1]!) (← attrs a[2]!) (← marks a[3]!)
  | "e" => return .elem (← nat a[1]!) (← attrs a[2]!) (← marks a[3]!) (← listOf node a[4]!)
  | _ => throw s!"bad node tag {tag}"

def frag (j : Json) : D (List Node) := listOf node j

def slice (j : Json) : D Slice := do
  let a ← arr j
  return ⟨← frag a[0]!, ← nat a[1]!, ← nat a[2]!⟩

def step (j : Json) : D Step := do
  let a ← arr j
  let tag ← str a[0]!
  match tag with
  | "replace" => return .replace (← nat a[1]!) (← nat a[2]!) (← slice a[3]!) (← bool a[4]!)
  | "replaceAround" =>
    return .replaceAround (← nat a[1]!) (← nat a[2]!) (← nat a[3]!) (← nat a[4]!) (← slice a[5]!)
      (← nat a[6]!) (← bool a[7]!)
  | "addMark" => return .addMark (← nat a[1]!) (← nat a[2]!) (← mark a[3]!)
  | "removeMark" => return .removeMark (← nat a[1]!) (← nat a[2]!) (← mark a[3]!)
  | "addNodeMark" => return .addNodeMark (← nat a[1]!) (← mark a[2]!)
  | "removeNodeMark" => return .removeNodeMark (← nat a[1]!) (← mark a[2]!)
  | "attr" => return .attr (← nat a[1]!) (← str a[2]!) (← str a[3]!)
  | "docAttr" => return .docAttr (← str a[1]!) (← str a[2]!)
  | _ => throw s!"bad step tag {tag}"

def attrDecl (j : Json) : D AttrDecl := do
  let a ← arr j
  return ⟨← str a[0]!, ← bool a[1]!, ← str a[2]!⟩

def dfaState (j : Json) : D DfaState := do
  let a ← arr j
  let edges ← listOf (fun e => do
    let p ← arr e
    return (← nat p[0]!, ← nat p[1]!)) a[1]!
  return ⟨← bool a[0]!, edges⟩

def nodeType (j : Json) : D NodeType := do
  let ms := fieldD j "markSet" Json.null
  let markSet ← match ms with
    | .null => pure none
    | x => do pure (some (← listOf nat x))
  return {
    name := ← str (← field j "name")
    isText := ← bool (← field j "isText")
    isInline := ← bool (← field j "isInline")
    isLeaf := ← bool (← field j "isLeaf")
    isAtom := ← bool (← field j "isAtom")
    inlineContent := ← bool (← field j "inlineContent")
    isolating := ← bool (← field j "isolating")
    defining := ← bool (← field j "defining")
    code := ← bool (← field j "code")
    dfa := (← listOf dfaState (← field j "dfa")).toArray
    markSet := markSet
    attrs := ← listOf attrDecl (← field j "attrs")
    definingAsContext := ← bool (fieldD j "definingAsContext" (Json.bool false))
    definingForContent := ← bool (fieldD j "definingForContent" (Json.bool false))
  }

def markType (j : Json) : D MarkType := do
  return {
    name := ← str (← field j "name")
    excluded := ← listOf nat (← field j "excluded")
    inclusive := ← bool (← field j "inclusive")
    attrs := ← listOf attrDecl (← field j "attrs")
  }

def schema (j : Json) : D Schema := do
  return {
    nodes := (← listOf nodeType (← field j "nodes")).toArray
    marks := (← listOf markType (← field j "marks")).toArray
    top := ← nat (← field j "top")
    textTy := ← nat (← field j "text")
  }

def ranges (j : Json) : D (List Range) := do
  let l ← listOf int j
  let rec go : List Int → D (List Range)
    | a :: b :: c :: rest => do return (a, b, c) :: (← go rest)
    | [] => pure []
    | _ => throw "ranges length not a multiple of 3"
  go l

def stepMap (j : Json) : D StepMap := do
  let a ← arr j
  return ⟨← ranges a[0]!, ← bool a[1]!⟩

/-! ### encoders -/

def jn (n : Nat) : Json := Json.num (Lean.JsonNumber.fromNat n)

def eAttrs (a : Attrs) : Json := Json.arr (a.map (fun (k, v) => Json.arr #[Json.str k, Json.str v])).toArray
def eMark (m : Mark) : Json := Json.arr #[jn m.ty, eAttrs m.attrs]
def eMarks (m : Marks) : Json := Json.arr (m.map eMark).toArray
def eNats (l : List Nat) : Json := Json.arr (l.map (fun n => jn n)).toArray

partial def eNode : Node → Json
  | .text s m => Json.arr #[Json.str "t", eNats s, eMarks m]
  | .leaf t a m => Json.arr #[Json.str "l", jn t, eAttrs a, eMarks m]
  | .elem t a m k => Json.arr #[Json.str "e", jn t, eAttrs a, eMarks m, Json.arr (k.map eNode).toArray]

def eFrag (l : List Node) : Json := Json.arr (l.map eNode).toArray
def eSlice (s : Slice) : Json := Json.arr #[eFrag s.content, jn s.openStart, jn s.openEnd]
def eInt (i : Int) : Json := Json.num (Lean.JsonNumber.fromInt i)
def eOptNat : Option Nat → Json
  | some n => jn n
  | none => Json.null

def eStep : Step → Json
  | .replace f t sl st => Json.arr #[Json.str "replace", jn f, jn t, eSlice sl, Json.bool st]
  | .replaceAround f t gf gt sl ins st =>
    Json.arr #[Json.str "replaceAround", jn f, jn t, jn gf, jn gt, eSlice sl,
      jn ins, Json.bool st]
  | .addMark f t m => Json.arr #[Json.str "addMark", jn f, jn t, eMark m]
  | .removeMark f t m => Json.arr #[Json.str "removeMark", jn f, jn t, eMark m]
  | .addNodeMark p m => Json.arr #[Json.str "addNodeMark", jn p, eMark m]
  | .removeNodeMark p m => Json.arr #[Json.str "removeNodeMark", jn p, eMark m]
  | .attr p n v => Json.arr #[Json.str "attr", jn p, Json.str n, Json.str v]
  | .docAttr n v => Json.arr #[Json.str "docAttr", Json.str n, Json.str v]

def eStepMap (m : StepMap) : Json :=
  Json.arr #[Json.arr (m.ranges.flatMap (fun (a, b, c) => [eInt a, eInt b, eInt c])).toArray, Json.bool m.inverted]

def eErr : Err → Json
  | .failed => Json.mkObj [("err", "failed")]
  | .valueError => Json.mkObj [("err", "valueError")]
  | .internal => Json.mkObj [("err", "internal")]

def ok (j : Json) : Json := Json.mkObj [("ok", j)]

/-- answer of the C18 helper ops when the model says the code raises (kind not distinguished) -/
def eRaises : Json := Json.mkObj [("err", "raises")]

def eRes {α} (f : α → Json) : Res α → Json
  | .ok a => ok (f a)
  | .error e => eErr e

def eOpt {α} (f : α → Json) : Option α → Json
  | some a => f a
  | none => Json.null

def eMapResult (r : MapResult) : Json :=
  Json.arr #[eInt r.pos, jn r.delInfo,
    match r.recover with
    | some (i, o) => Json.arr #[jn i, eInt o]
    | none => Json.null]

end PM.Codec
