/-
  Driver/ExtSchema.lean — requests for the construction of a schema from its spec
  (PM/SchemaCompile.lean): `compileSchema` (spec + the content automata → the compiled tables in the
  format of `SchemaInfo.dump()`, or the error kind), and the two Python string helpers it rests on.
-/
import Lean.Data.Json
import PM
import Driver.Codec
import Driver.Base
open Lean (Json)
open PM PM.Codec PM.SchemaCompile

namespace SchemaCodec

def optStr (j : Json) : D (Option String) :=
  match j with
  | .null => pure none
  | x => do pure (some (← str x))

def attrSpec (j : Json) : D AttrSpec := do
  let a ← arr j
  return { name := ← str a[0]!, default := ← optStr a[1]! }

def nodeSpec (j : Json) : D NodeSpec := do
  return {
    name := ← str (← field j "name")
    content := ← str (← field j "content")
    group := ← optStr (fieldD j "group" Json.null)
    marks := ← optStr (fieldD j "marks" Json.null)
    inline := ← bool (← field j "inline")
    atom := ← bool (← field j "atom")
    isolating := ← bool (← field j "isolating")
    defining := ← bool (← field j "defining")
    code := ← bool (← field j "code")
    attrs := ← listOf attrSpec (← field j "attrs")
    definingAsContext := ← bool (fieldD j "definingAsContext" (Json.bool false))
    definingForContent := ← bool (fieldD j "definingForContent" (Json.bool false)) }

def markSpec (j : Json) : D MarkSpec := do
  return {
    name := ← str (← field j "name")
    excludes := ← optStr (fieldD j "excludes" Json.null)
    group := ← optStr (fieldD j "group" Json.null)
    inclusive := ← bool (← field j "inclusive")
    attrs := ← listOf attrSpec (← field j "attrs") }

def spec (j : Json) : D Spec := do
  return {
    nodes := ← listOf nodeSpec (← field j "nodes")
    marks := ← listOf markSpec (← field j "marks")
    topNode := ← optStr (fieldD j "topNode" Json.null) }

def eAttrDecls (l : List AttrDecl) : Json :=
  Json.arr (l.map (fun a => Json.arr #[Json.str a.name, Json.bool a.hasDefault, Json.str a.default])).toArray

def eDfa (d : Dfa) : Json :=
  Json.arr (d.map (fun s => Json.arr #[Json.bool s.validEnd,
    Json.arr (s.edges.map (fun (t, q) => Json.arr #[jn t, jn q])).toArray]))

def eNodeType (t : NodeType) : Json :=
  Json.mkObj [("name", Json.str t.name), ("isText", Json.bool t.isText), ("isInline", Json.bool t.isInline),
    ("isLeaf", Json.bool t.isLeaf), ("isAtom", Json.bool t.isAtom), ("inlineContent", Json.bool t.inlineContent),
    ("isolating", Json.bool t.isolating), ("defining", Json.bool t.defining), ("code", Json.bool t.code),
    ("dfa", eDfa t.dfa), ("markSet", eOpt eNats t.markSet), ("attrs", eAttrDecls t.attrs),
    ("definingAsContext", Json.bool t.definingAsContext), ("definingForContent", Json.bool t.definingForContent)]

def eMarkType (t : MarkType) : Json :=
  Json.mkObj [("name", Json.str t.name), ("excluded", eNats t.excluded), ("inclusive", Json.bool t.inclusive),
    ("attrs", eAttrDecls t.attrs)]

def eSchema (S : Schema) : Json :=
  Json.mkObj [("nodes", Json.arr (S.nodes.map eNodeType)), ("marks", Json.arr (S.marks.map eMarkType)),
    ("top", jn S.top), ("text", jn S.textTy)]

def eCompileErr : CompileErr → Json
  | .missingTop => Json.mkObj [("err", "missingTop")]
  | .missingText => Json.mkObj [("err", "missingText")]
  | .textAttrs => Json.mkObj [("err", "textAttrs")]
  | .nameClash => Json.mkObj [("err", "nameClash")]
  | .unknownMark => Json.mkObj [("err", "unknownMark")]

end SchemaCodec

def handleSchema (st : St) (op : String) (j : Json) : Option (D (St × Json)) :=
  match op with
  | "compileSchema" => some do
    let sp ← SchemaCodec.spec (← field j "spec")
    let dfas ← listOf (fun d => do return (← listOf dfaState d).toArray) (← field j "dfas")
    return (st, match compileSchema sp dfas with
      | .ok S => ok (SchemaCodec.eSchema S)
      | .error e => SchemaCodec.eCompileErr e)
  -- `TokenStream(s, {}).next() is None`
  | "tokensEmpty" => some do
    return (st, ok (Json.bool (contentEmpty (← str (← field j "s")))))
  -- the code points of `s` that are white space for `str.strip()` / `str.isspace()`
  | "pySpaceChars" => some do
    return (st, ok (eNats (((← str (← field j "s")).toList.filter isPySpace).map Char.toNat)))
  -- `s.split(" ")`
  | "pySplit" => some do
    return (st, ok (Json.arr ((pySplit (← str (← field j "s"))).map Json.str).toArray))
  | _ => none
