/-
  Driver/ExtOpGuard.lean — request for the executable `FamilyGuard` of C04 for replace / replace-around
  steps (PM/OpGuard.lean): `{"op":"familyGuard","doc":…,"step":…,"after":…}` ↦
  `{"ok":[shape, payload, hst, gapFitsBack, aligned, doc valid and in normal form, gapClean]}` or `{"ok":null}` for
  the other step kinds.
-/
import Lean.Data.Json
import PM
import Driver.Codec
import Driver.Base
open Lean (Json)
open PM PM.Codec

def handleOpGuard (st : St) (op : String) (j : Json) : Option (D (St × Json)) :=
  match op with
  | "familyGuard" => some do
    let S ← getSchema st j
    let d ← node (← field j "doc")
    let d' ← node (← field j "after")
    let s ← step (← field j "step")
    match structGuardParts S s d d' with
    | some (a, b, c, e, g) =>
      return (st, ok (Json.arr #[Json.bool a, Json.bool b, Json.bool c, Json.bool e, Json.bool g,
        Json.bool (S.checkNode d && fnorm d.kids), Json.bool (gapCleanOf s d)]))
    | none => return (st, ok Json.null)
  | _ => none
