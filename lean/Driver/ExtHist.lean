/-
  Driver/ExtHist.lean — requests for the guards of the range-mark-step undo theorems of C04
  (PM/MarkUndoGuard.lean): `removeMarkUndoable` / `addMarkUndoable` (exact: the naive inverse restores
  the document), `sameTypeFree` (finding C04-same-type-mark-order), `flatInline`, `selfExcluding`.
-/
import Lean.Data.Json
import PM
import Driver.Codec
import Driver.Base
open Lean (Json)
open PM PM.Codec

def handleHist (st : St) (op : String) (j : Json) : Option (D (St × Json)) :=
  match op with
  | "markUndoGuards" => some do
    let S ← getSchema st j
    let d ← node (← field j "doc")
    let f ← nat (← field j "from")
    let t ← nat (← field j "to")
    let m ← mark (← field j "mark")
    let kind ← str (← field j "kind")
    let g ← match kind with
      | "remove" => pure (removeMarkUndoable S d f t m)
      | "add" => pure (addMarkUndoable S d f t m)
      | k => throw s!"bad mark step kind {k}"
    -- [exact guard of the step's naive inverse, same-type guard, no inline node with content, self-excluding marks]
    return (st, ok (Json.arr #[Json.bool g, Json.bool (sameTypeFree S d f t m.ty), Json.bool (flatInline S d),
      Json.bool (selfExcluding S)]))
  | _ => none
