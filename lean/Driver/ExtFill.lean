/-
  Driver/ExtFill.lean — requests for node construction: NodeType.create_and_fill (C15) and
  NodeType.create_checked (C07), model in PM/CreateFill.lean.
-/
import Lean.Data.Json
import PM
import Driver.Codec
import Driver.Base
open Lean (Json)
open PM PM.Codec

def eBuilt : Built → Json
  | .node n => ok (Json.mkObj [("node", eNode n)])
  | .nothing => ok (Json.mkObj [("nothing", Json.bool true)])
  | .raises e => eErr e
  | .textType => ok (Json.mkObj [("textType", Json.bool true)])
  | .outOfFuel => ok (Json.mkObj [("outOfFuel", Json.bool true)])

def handleFill (st : St) (op : String) (j : Json) : Option (D (St × Json)) :=
  match op with
  | "createAndFill" => some do
    let S ← getSchema st j
    let r := S.createAndFill S.fillFuel (← nat (← field j "ty")) (← attrs (← field j "attrs"))
      (← frag (← field j "content")) (← marks (← field j "marks"))
    return (st, eBuilt r)
  | "createChecked" => some do
    let S ← getSchema st j
    let r := S.createChecked (← nat (← field j "ty")) (← attrs (← field j "attrs"))
      (← frag (← field j "content")) (← marks (← field j "marks"))
    return (st, eBuilt r)
  | _ => none
