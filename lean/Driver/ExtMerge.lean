/-
  Driver/ExtMerge.lean — requests for the per-case guard of C16 `merge_succeeds_replace_backward`
  (PM/MergeGuard.lean).
-/
import Lean.Data.Json
import PM
import Driver.Codec
import Driver.Base
open Lean (Json)
open PM PM.Codec

def handleMerge (st : St) (op : String) (j : Json) : Option (D (St × Json)) :=
  match op with
  | "mergeCompat" => some do
    let S ← getSchema st j
    let d ← node (← field j "doc")
    let a ← step (← field j "a")
    let b ← step (← field j "b")
    -- [guard, number of levels it looks at, which `merge` branch (1, 2; 0 = the model does not merge)]
    let (levels, branch) := match a, b with
      | .replace f _ sl st1, .replace f' t' sl' st2 =>
        if st1 || st2 then (0, 0)
        else if (f : Int) + sl.size = f' && sl.openEnd = 0 && sl'.openStart = 0 then (0, 1)
        else if t' = f && sl.openStart = 0 && sl'.openEnd = 0 then (depthAt d.kids f, 2)
        else (0, 0)
      | _, _ => (0, 0)
    return (st, ok (Json.arr #[Json.bool (mergeCompat S d a b), jn levels, jn branch]))
  | _ => none
