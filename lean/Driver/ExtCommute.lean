/-
  Driver/ExtCommute.lean — requests for the guards of C17 `commute_succeeds_replace` and
  `commute_succeeds_around` (PM/CommuteGuard.lean), and the whole rebase-and-apply square of the
  model for a pair of steps.
-/
import Lean.Data.Json
import PM
import Driver.Codec
import Driver.Base
open Lean (Json)
open PM PM.Codec

/-- `(from, to, slice)` of a replace or replace-around step -/
def replRange : Step → Option (Nat × Nat × Slice)
  | .replace f t s _ => some (f, t, s)
  | .replaceAround f t _ _ s _ _ => some (f, t, s)
  | _ => none

/-- `alignedAt` of Proofs/TokCore.lean (the offset does not fall between the halves of a surrogate pair), copied: the
    driver does not import `Proofs/`.  Used for counting how often hypothesis `hdbal` of
    `commute_succeeds_around_gap` holds, not compared with the real code. -/
def alignedAtD : List Node → Nat → Bool
  | [], _ => true
  | n :: ns, pos =>
    if pos = 0 then true
    else if n.size ≤ pos then alignedAtD ns (pos - n.size)
    else match n with
      | .text s _ => splitOk s pos
      | .elem _ _ _ kids => alignedAtD kids (pos - 1)
      | .leaf .. => true

/-- the same for a step applied to `d`: a mark step counts as the replace of its range by the re-marked slice
    (`markStep_as_replace`), whose open depths are those of `d.slice from to` -/
def replRangeIn (d : Node) : Step → Option (Nat × Nat × Slice)
  | .addMark f t _ => match d.slice f t with
    | .ok old => some (f, t, old)
    | .error _ => none
  | .removeMark f t _ => match d.slice f t with
    | .ok old => some (f, t, old)
    | .error _ => none
  | .addNodeMark pos _ => some (pos, pos + 1, ⟨[], 0, 0⟩)
  | .removeNodeMark pos _ => some (pos, pos + 1, ⟨[], 0, 0⟩)
  | .attr pos _ _ => some (pos, pos + 1, ⟨[], 0, 0⟩)
  | s => replRange s

def handleCommute (st : St) (op : String) (j : Json) : Option (D (St × Json)) :=
  match op with
  | "commuteGuard" => some do
    -- two replace / replace-around steps on the same document, the first one's range before the second one's
    let d ← node (← field j "doc")
    let a ← step (← field j "a")
    let b ← step (← field j "b")
    match replRangeIn d a, replRangeIn d b with
    | some (f1, t1, s1), some (f2, t2, s2) =>
      let e1 := depthAt d.kids f1 - s1.openStart
      let e2 := depthAt d.kids f2 - s2.openStart
      return (st, ok (Json.arr #[Json.bool (insideLeft d.kids f1 t1 e1 f2 t2 e2),
        Json.bool (insideRight d.kids f1 t1 e1 f2 t2 e2), Json.bool (commuteGuard d.kids f1 t1 s1 f2 t2 s2)]))
    | _, _ => return (st, ok Json.null)
  | "gapGuard" => some do
    -- a replace-around step `a` and a replace / replace-around step `b` strictly inside its kept gap
    let d ← node (← field j "doc")
    let a ← step (← field j "a")
    let b ← step (← field j "b")
    match a, replRangeIn d b with
    | .replaceAround f _ gf gt sl _ _, some (f1, t1, s1) =>
      -- [guard, `hcl`: the replace-around step's slice is closed, `hdbal`: both ends of the filled slice are
      --  pair-aligned in the document after the replace-around step (null if it does not apply)]
      let S ← getSchema st j
      let al : Json := match S.apply a d with
        | .ok db => Json.bool (alignedAtD db.kids f && alignedAtD db.kids (f + sl.size.toNat + (gt - gf)))
        | .error _ => Json.null
      return (st, ok (Json.arr #[Json.bool (gapGuard d.kids gf gt f1 t1 s1),
        Json.bool (sl.openStart == 0 && sl.openEnd == 0), al]))
    | _, _ => return (st, ok Json.null)
  | "aroundShape" => some do
    match (← step (← field j "step")) with
    | .replaceAround f t gf gt sl ins _ => return (st, ok (Json.bool (aroundShape f t gf gt sl ins)))
    | _ => return (st, ok Json.null)
  | "commuteSquare" => some do
    -- the model's square: both steps applied to the base document, each rebased over the other's map,
    -- the rebased steps applied.  Answer: [a', b', dab, dba] (null = dropped / not applicable)
    let S ← getSchema st j
    let d ← node (← field j "doc")
    let a ← step (← field j "a")
    let b ← step (← field j "b")
    let a' := a.map b.getMap
    let b' := b.map a.getMap
    let dab : Option Node :=
      match S.apply a d, b' with
      | .ok da, some b2 => match S.apply b2 da with
        | .ok x => some x
        | .error _ => none
      | _, _ => none
    let dba : Option Node :=
      match S.apply b d, a' with
      | .ok db, some a2 => match S.apply a2 db with
        | .ok x => some x
        | .error _ => none
      | _, _ => none
    return (st, ok (Json.arr #[eOpt eStep a', eOpt eStep b', eOpt eNode dab, eOpt eNode dba]))
  | _ => none
