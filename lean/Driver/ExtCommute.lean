/-
  Driver/ExtCommute.lean — requests for the guards of C17 `commute_succeeds_replace` (PM/CommuteGuard.lean).
-/
import Lean.Data.Json
import PM
import Driver.Codec
import Driver.Base
open Lean (Json)
open PM PM.Codec

def handleCommute (st : St) (op : String) (j : Json) : Option (D (St × Json)) :=
  match op with
  | "commuteGuard" => some do
    -- two replace steps on the same document, the first one's range before the second one's
    let d ← node (← field j "doc")
    let a ← step (← field j "a")
    let b ← step (← field j "b")
    match a, b with
    | .replace f1 t1 s1 _, .replace f2 t2 s2 _ =>
      let e1 := depthAt d.kids f1 - s1.openStart
      let e2 := depthAt d.kids f2 - s2.openStart
      return (st, ok (Json.arr #[Json.bool (insideLeft d.kids f1 t1 e1 f2 t2 e2),
        Json.bool (insideRight d.kids f1 t1 e1 f2 t2 e2), Json.bool (commuteGuard d.kids f1 t1 s1 f2 t2 s2)]))
    | _, _ => return (st, ok Json.null)
  | _ => none
