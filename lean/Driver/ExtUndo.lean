/-
  Driver/ExtUndo.lean — requests for the guard of C04 `replace_undo` (PM/UndoGuard.lean).
-/
import Lean.Data.Json
import PM
import Driver.Codec
import Driver.Base
open Lean (Json)
open PM PM.Codec

def handleUndo (st : St) (op : String) (j : Json) : Option (D (St × Json)) :=
  match op with
  | "sidesCompatible" => some do
    let S ← getSchema st j
    let d ← node (← field j "doc")
    let f ← nat (← field j "from")
    let t ← nat (← field j "to")
    let sl ← slice (← field j "slice")
    -- [guard, e (levels above the slice), n (levels merged through a slice node)]
    return (st, ok (Json.arr #[Json.bool (sidesCompatible S d f t sl),
      jn (depthAt d.kids f - sl.openStart), jn (singleDepth sl.content sl.openStart sl.openEnd)]))
  | "aroundGuards" => some do
    let S ← getSchema st j
    let d ← node (← field j "doc")
    let f ← nat (← field j "from")
    let t ← nat (← field j "to")
    let gf ← nat (← field j "gapFrom")
    let gt ← nat (← field j "gapTo")
    let sl ← slice (← field j "slice")
    let ins ← nat (← field j "insert")
    -- [fit guard, bridge guard of the inner replace, structural sufficient condition for the fit guard]
    let clean := match d.slice f t with
      | .ok old => gapClean old.content none (gf - f + old.openStart) (gt - f + old.openStart)
      | .error _ => false
    return (st, ok (Json.arr #[Json.bool (gapFitsBack S d f t gf gt),
      Json.bool (sidesCompatibleAround S d f t gf gt sl ins), Json.bool clean]))
  | "compatTrans" => some do
    let S ← getSchema st j
    return (st, ok (Json.bool (compatTransB S)))
  | _ => none
