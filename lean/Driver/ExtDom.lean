/-
  Driver/ExtDom.lean — requests of the HTML importer model (PM/FromDom.lean), property C19.
-/
import Lean.Data.Json
import PM
import PM.FromDom
import Driver.Codec
import Driver.Base
open Lean (Json)
open PM PM.Codec PM.FromDom

def optNat (j : Json) : D (Option Nat) :=
  match j with
  | .null => pure none
  | x => do pure (some (← nat x))

def groupTable (j : Json) : D (TypeId → List String) := do
  let g ← listOf (listOf str) j
  return fun t => g.getD t []

def handleDom (st : St) (op : String) (j : Json) : Option (D (St × Json)) :=
  match op with
  -- `ParseContext.matches_context`: {s, groups, nodes: [ty|null], open, isOpen, ctx: null|[ty], exprs: [string]}
  | "matchesContext" => some do
    let S ← getSchema st j
    let G ← groupTable (← field j "groups")
    let nodeTypes ← listOf optNat (← field j "nodes")
    let open_ ← nat (← field j "open")
    let isOpen ← bool (← field j "isOpen")
    let ctxTypes ← match fieldD j "ctx" Json.null with
      | .null => pure none
      | x => do pure (some (← listOf nat x))
    let stack := visibleStack ctxTypes isOpen nodeTypes open_
    let exprs ← listOf str (← field j "exprs")
    return (st, ok (Json.arr (exprs.map (fun e => Json.bool (matchesContext S G stack e.toList))).toArray))
  | _ => none
