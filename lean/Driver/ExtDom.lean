/-
  Driver/ExtDom.lean — requests of the HTML importer model (PM/FromDom.lean), property C19.
-/
import Lean.Data.Json
import PM
import PM.FromDom
import Driver.Codec
import Driver.Base
open Lean (Json)
open PM PM.Codec PM.FromDom

def optNat (j : Json) : D (Option Nat) :=
  match j with
  | .null => pure none
  | x => do pure (some (← nat x))

def groupTable (j : Json) : D (TypeId → List String) := do
  let g ← listOf (listOf str) j
  return fun t => g.getD t []

def wsOf (j : Json) : D WS :=
  match j with
  | .null => pure .unset
  | .bool false => pure .off
  | .bool true => pure .on
  | .str "full" => pure .full
  | x => throw s!"bad preserve_whitespace {x.compress}"

def optAttrs (j : Json) : D (Option Attrs) :=
  match j with
  | .null => pure none
  | x => do pure (some (← attrs x))

def tmarkOf (idj mj : Json) : D TMark := do return (← nat idj, ← mark mj)

def eventOf (j : Json) : D Event := do
  let a ← arr j
  match ← str a[0]! with
  | "insertNode" => return .insertNode (← node a[1]!)
  | "enter" => return .enter (← nat a[1]!) (← optAttrs a[2]!) (← wsOf a[3]!)
  | "findPlace" => return .findPlace (← node a[1]!)
  | "addPending" => return .addPending (← tmarkOf a[1]! a[2]!)
  | "removePending" => return .removePending (← tmarkOf a[1]! a[2]!) (← optNat a[3]!)
  | "sync" => return .sync (← optNat a[1]!)
  | "setOpen" => return .setOpen (← nat a[1]!)
  | "setNeedsBlock" => return .setNeedsBlock (← bool a[1]!)
  | "closeExtra" => return .closeExtra (← bool a[1]!)
  | t => throw s!"bad event {t}"

def eOptBool : Option Bool → Json
  | some b => Json.bool b
  | none => Json.null

/-- fold the model over the recorded events, collecting after every event what the call returned, `open`
    and `len(nodes)` -/
def runEvents (S : Schema) (wsPre : TypeId → Bool) : FromDom.PState → List Event → List Json → (Res FromDom.PState × List Json)
  | st, [], acc => (.ok st, acc.reverse)
  | st, e :: es, acc =>
    match st.step S wsPre e with
    | .error err => (.error err, acc.reverse)
    | .ok (st', r) => runEvents S wsPre st' es (Json.arr #[eOptBool r, jn st'.open_, jn st'.nodes.length] :: acc)

def handleDom (st : St) (op : String) (j : Json) : Option (D (St × Json)) :=
  match op with
  -- `ParseContext.matches_context`: {s, groups, nodes: [ty|null], open, isOpen, ctx: null|[ty], exprs: [string]}
  | "matchesContext" => some do
    let S ← getSchema st j
    let G ← groupTable (← field j "groups")
    let nodeTypes ← listOf optNat (← field j "nodes")
    let open_ ← nat (← field j "open")
    let isOpen ← bool (← field j "isOpen")
    let ctxTypes ← match fieldD j "ctx" Json.null with
      | .null => pure none
      | x => do pure (some (← listOf nat x))
    let stack := visibleStack ctxTypes isOpen nodeTypes open_
    let exprs ← listOf str (← field j "exprs")
    return (st, ok (Json.arr (exprs.map (fun e => Json.bool (matchesContext S G stack e.toList))).toArray))
  -- the placement core folded over a recorded event list:
  -- {s, wsPre: [bool], isOpen, pw, topOpen, events: [...]} -> {obs: [[ret, open, len]], doc | frag} | {err, obs}
  | "placement" => some do
    let S ← getSchema st j
    let wp ← listOf bool (← field j "wsPre")
    let wsPre := fun (t : TypeId) => wp.getD t false
    let isOpen ← bool (← field j "isOpen")
    let pw ← wsOf (fieldD j "pw" Json.null)
    let topOpen ← bool (fieldD j "topOpen" (Json.bool false))
    let events ← listOf eventOf (← field j "events")
    let (r, obs) := runEvents S wsPre (FromDom.PState.init S isOpen pw topOpen) events []
    let obsJ := Json.arr obs.toArray
    match r with
    | .error e => return (st, Json.mkObj [("err", match eErr e with
        | .obj kv => (kv.get? "err").getD Json.null
        | x => x), ("at", Json.str "event"), ("obs", obsJ)])
    | .ok fin =>
      match fin.finish S with
      | .error e => return (st, Json.mkObj [("err", match eErr e with
          | .obj kv => (kv.get? "err").getD Json.null
          | x => x), ("at", Json.str "finish"), ("obs", obsJ)])
      | .ok (some n, _) => return (st, Json.mkObj [("obs", obsJ), ("doc", eNode n)])
      | .ok (none, c) => return (st, Json.mkObj [("obs", obsJ), ("frag", eFrag c),
          ("open", Json.arr #[jn (Slice.maxOpen S c).openStart, jn (Slice.maxOpen S c).openEnd])])
  -- the decidable schema hypotheses of the C19 placement theorems
  | "domHyps" => some do
    let S ← getSchema st j
    return (st, ok (Json.mkObj [("det", Json.bool (detB S)), ("textStable", Json.bool (textStableB S)),
      ("leafOk", Json.bool (leafOkB S)), ("fillOk", Json.bool (fillOkB S))]))
  | _ => none
