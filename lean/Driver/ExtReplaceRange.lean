/-
  Driver/ExtReplaceRange.lean — requests for `Transform.replace_range` / `replace_range_with` as
  wholes (PM/ReplaceRange.lean, C11 / C18): the sequence of `(from, to, slice)` arguments of the
  `self.replace` calls they make (or the direct `ReplaceStep` of the `fits_trivially` path), the
  `(from, to)` `replace_range_with` passes on, and `close_fragment`.
  `{"err":"raises"}` = the model says the code raises before handing over to `replace`.
-/
import Lean.Data.Json
import PM
import Driver.Codec
import Driver.Base
open Lean (Json)
open PM PM.Codec

namespace RRCodec

def eCall (c : Nat × Nat × Slice) : Json := Json.arr #[jn c.1, jn c.2.1, eSlice c.2.2]

def ePlan : Option RRPlan → Json
  | none => eRaises
  | some (.direct f t sl) => ok (Json.arr #[Json.str "direct", eCall (f, t, sl)])
  | some (.calls cs) => ok (Json.arr #[Json.str "calls", Json.arr (cs.map eCall).toArray])

end RRCodec

def handleReplaceRange (st : St) (op : String) (j : Json) : Option (D (St × Json)) :=
  match op with
  | "replaceRangePlan" => some do
    let S ← getSchema st j
    let d ← node (← field j "doc")
    let f ← nat (← field j "from")
    let t ← nat (← field j "to")
    let sl ← slice (← field j "slice")
    return (st, RRCodec.ePlan (replaceRangePlan S d f t sl))
  | "replaceRangeWithPlan" => some do
    let S ← getSchema st j
    let d ← node (← field j "doc")
    let f ← nat (← field j "from")
    let t ← nat (← field j "to")
    let n ← node (← field j "node")
    return (st, RRCodec.ePlan (replaceRangeWithPlan S d f t n))
  | "replaceRangeWithTarget" => some do
    let S ← getSchema st j
    let d ← node (← field j "doc")
    let f ← nat (← field j "from")
    let t ← nat (← field j "to")
    let n ← node (← field j "node")
    return (st, match replaceRangeWithTarget S d f t n with
      | some (a, b) => ok (eNats [a, b])
      | none => eRaises)
  -- `close_fragment(slice.content, 0, slice.open_start, open_depth, None)`
  | "closeSlice" => some do
    let S ← getSchema st j
    let sl ← slice (← field j "slice")
    let od ← nat (← field j "openDepth")
    return (st, match closeSlice S sl od with
      | .ok c => ok (eFrag c)
      | .error _ => eRaises)
  | _ => none
