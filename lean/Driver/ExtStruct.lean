/-
  Driver/ExtStruct.lean — requests for the structure helpers and structural edit builders of C12
  (PM/StructEdit.lean, PM/Structure2.lean).
-/
import Lean.Data.Json
import PM
import Driver.Codec
import Driver.Base
open Lean (Json)
open PM PM.Codec

def wrappersOf (j : Json) : D (List (TypeId × Attrs)) :=
  listOf (fun w => do
    let a ← arr w
    return (← nat a[0]!, ← attrs a[1]!)) j

def eOptOpt {α} (f : α → Json) : Option (Option α) → Json
  | some (some a) => ok (f a)
  | some none => ok Json.null
  | none => eRaises

def handleStruct (st : St) (op : String) (j : Json) : Option (D (St × Json)) :=
  match op with
  -- the step a builder hands to `Transform.step` (`"apply": true`: the result of applying it)
  | "structStep" => some do
    let d ← node (← field j "doc")
    let k ← str (← field j "k")
    let r : Res Step ← match k with
      | "lift" =>
        pure (liftStep d (← nat (← field j "from")) (← nat (← field j "to")) (← nat (← field j "depth"))
          (← nat (← field j "target")))
      | "wrap" => do
        let S ← getSchema st j
        pure (wrapStep S d (← nat (← field j "from")) (← nat (← field j "to")) (← nat (← field j "depth"))
          (← wrappersOf (← field j "wrappers")))
      | "split" => pure (splitStep d (← nat (← field j "pos")) (← nat (← field j "depth")))
      | "join" => pure (joinStep (← nat (← field j "pos")) (← nat (← field j "depth")))
      | _ => throw s!"bad structStep kind {k}"
    match fieldD j "apply" (Json.bool false) with
    | Json.bool true =>
      let S ← getSchema st j
      return (st, match r with
        | .ok s => eRes eNode (S.apply s d)
        | .error e => eErr e)
    | _ => return (st, eRes eStep r)
  -- the guards of the "approved edit applies" theorems of Props/C12.lean (`canSplit_split_applies`, …)
  | "structGuard" => some do
    let S ← getSchema st j
    let d ← node (← field j "doc")
    let k ← str (← field j "k")
    match k with
    | "split" => return (st, ok (Json.bool (splitGuard S d (← nat (← field j "pos")))))
    | "join" => return (st, ok (Json.bool (joinGuard S d (← nat (← field j "pos")) && textStableC S)))
    | "wrap" =>
      let ws ← wrappersOf (← field j "wrappers")
      return (st, ok (Json.bool (wrapGuard S d (← nat (← field j "from")) (← nat (← field j "to"))
        (← nat (← field j "depth")) ws && wrapBuilds S ws)))
    | "lift" =>
      let (a, b, depth, target) := (← nat (← field j "from"), ← nat (← field j "to"), ← nat (← field j "depth"),
        ← nat (← field j "target"))
      -- `liftTarget_lift_applies` / `liftTarget_lift_applies_flat`; `flat` says which of the two guards held
      return (st, Json.mkObj [("ok", Json.bool ((liftFlatGuard d a b depth target || liftGuard S d a b depth target)
        && textStableC S)), ("flat", Json.bool (liftFlatGuard d a b depth target))])
    | _ => throw s!"bad structGuard kind {k}"
  -- the remaining helpers (PM/Structure2.lean); `{"err":"raises"}` = the model says the code raises
  | "canJoin" => some do
    let S ← getSchema st j
    let d ← node (← field j "doc")
    return (st, eOptOpt Json.bool (canJoin S d (← nat (← field j "pos"))))
  | "joinPoint" => some do
    let S ← getSchema st j
    let d ← node (← field j "doc")
    return (st, eOptOpt jn (joinPoint S d (← nat (← field j "pos")) (← int (← field j "dir"))))
  | "insertPoint" => some do
    let S ← getSchema st j
    let d ← node (← field j "doc")
    return (st, eOptOpt jn (insertPoint S d (← nat (← field j "pos")) (← nat (← field j "ty"))))
  | "dropPoint" => some do
    let S ← getSchema st j
    let d ← node (← field j "doc")
    return (st, eOptOpt jn (dropPoint S d (← nat (← field j "pos")) (← slice (← field j "slice"))))
  | "findWrappingRange" => some do
    let S ← getSchema st j
    let d ← node (← field j "doc")
    return (st, eOptOpt eNats (findWrappingRange S d (← nat (← field j "from")) (← nat (← field j "to"))
      (← nat (← field j "depth")) (← nat (← field j "ty"))))
  | "canChangeType" => some do
    let S ← getSchema st j
    let d ← node (← field j "doc")
    return (st, match canChangeType S d (← nat (← field j "pos")) (← nat (← field j "ty")) with
      | some b => ok (Json.bool b)
      | none => eRaises)
  | _ => none
