/-
  Driver/ExtSchemaBuild.lean — `buildSchema` (PM/SchemaBuild.lean): the whole of `Schema(spec)`, content
  expressions included.  Request `buildSchema {spec}` → the compiled tables in the format of
  `SchemaInfo.dump()` (automata numbered breadth-first), or the kind of refusal.
-/
import Lean.Data.Json
import PM
import Driver.Codec
import Driver.Base
import Driver.ExtSchema
open Lean (Json)
open PM PM.Codec PM.SchemaCompile PM.SchemaBuild

def eCErr : CErr → String
  | .syntax => "syntax"
  | .unknownName => "unknownName"
  | .mixed => "mixed"
  | .noToken => "noToken"
  | .noNumber => "noNumber"
  | .badInt => "badInt"
  | .fuel => "fuel"

def eBuildErr : BuildErr → Json
  | .table e => SchemaCodec.eCompileErr e
  | .content e => Json.mkObj [("err", Json.str ("content:" ++ eCErr e))]
  | .deadEnd => Json.mkObj [("err", "deadEnd")]

def handleSchemaBuild (st : St) (op : String) (j : Json) : Option (D (St × Json)) :=
  match op with
  | "buildSchema" => some do
    let sp ← SchemaCodec.spec (← field j "spec")
    return (st, match buildSchema sp with
      | .ok S => ok (SchemaCodec.eSchema S)
      | .error e => eBuildErr e)
  | _ => none
