/-
  Driver/ExtCompile.lean — C06, the compiler model: `compile` returns, for `(node-type table, expression)`,
  the AST the model's parser builds, the model's NFA, and the model's compiled automaton (creation order
  and renumbered breadth-first, which is how the harness dumps the real `ContentMatch` graph).
-/
import Lean.Data.Json
import PM
import Driver.Codec
import Driver.Base
open Lean (Json)
open PM PM.Codec

partial def eExpr : Expr → Json
  | .choice es => Json.arr #["choice", Json.arr (es.map eExpr).toArray]
  | .seq es => Json.arr #["seq", Json.arr (es.map eExpr).toArray]
  | .plus e => Json.arr #["plus", eExpr e]
  | .star e => Json.arr #["star", eExpr e]
  | .opt e => Json.arr #["opt", eExpr e]
  | .range mn mx e => Json.arr #["range", jn mn, (match mx with | none => eInt (-1) | some m => jn m), eExpr e]
  | .name t => Json.arr #["name", jn t]

def eDfa (d : Dfa) : Json :=
  Json.arr (d.map (fun s => Json.arr #[Json.bool s.validEnd,
    Json.arr (s.edges.map (fun e => Json.arr #[jn e.1, jn e.2])).toArray]))

def eNfa (n : Nfa) : Json :=
  Json.arr (n.map (fun es => Json.arr (es.map (fun e => Json.arr #[eOptNat e.1, jn e.2])).toArray))

def handleCompile (st : St) (op : String) (j : Json) : Option (D (St × Json)) :=
  match op with
  | "compile" => some do
    -- table: [[name, [groups], isInline, generatable]], expr: string
    let tableJ ← arr (← field j "table")
    let table ← tableJ.toList.mapM (fun e => do
      let a ← arr e
      return ({ name := ← str a[0]!, groups := ← listOf str a[1]!, isInline := ← bool a[2]! } : NameInfo))
    let gen ← tableJ.toList.mapM (fun e => do
      let a ← arr e
      bool a[3]!)
    let expr ← str (← field j "expr")
    match parseC table expr with
    | .error e =>
      return (st, ok (Json.mkObj [("parse", Json.str (match e with
        | .syntax => "syntax"
        | .unknownName => "unknownName"
        | .mixed => "mixed"
        | .noToken => "noToken"
        | .noNumber => "noNumber"
        | .badInt => "badInt"
        | .fuel => "fuel"))]))
    | .ok oe =>
      let d := compileDfa oe
      let reSame := match oe, specParse table expr with
        | none, .ok r => r == RE.eps
        | some e, .ok r => e.toRE == r
        | _, _ => false
      let base := [("parse", Json.str "ok"), ("dfa", eDfa d.bfs), ("dfaRaw", eDfa d),
        ("dead", Json.bool (d.hasDeadEnd (fun a => gen.getD a false))), ("reSame", Json.bool reSame)]
      let extra := match oe with
        | none => [("ast", Json.null), ("nfa", Json.null), ("nullFrom", Json.null)]
        | some e => [("ast", eExpr e), ("nfa", eNfa (nfa e)), ("wf", Json.bool e.wf),
            ("nullFrom", Json.arr ((List.range (nfa e).size).map (fun n => eNats (nullFrom (nfa e) n))).toArray)]
      return (st, ok (Json.mkObj (base ++ extra)))
  | _ => none
