/-
  Driver/ExtPlanFit.lean — requests for the planners with the Fitter model plugged in
  (PM/TypePlanFit.lean, C13): `planNodeOpF` runs `set_node_markup` / `set_block_type` /
  `clear_incompatible` without any recorded answers of the Fitter.
  Answer: `{"ok": [steps added, document, number of times the Fitter model was consulted]}`,
  `{"err": class}` for an error of the planner, `{"err": "raises" | "outOfFuel" | "negInsert"}` when
  the Fitter model does not answer.
-/
import Lean.Data.Json
import PM
import Driver.Codec
import Driver.Base
open Lean (Json)
open PM PM.Codec

def ePStF (before : Nat) : PlanRes PSt → Json
  | .error (.plan e) => eErr e
  | .error (.fit .raises) => eRaises
  | .error (.fit .outOfFuel) => Json.mkObj [("err", "outOfFuel")]
  | .error (.fit .negInsert) => Json.mkObj [("err", "negInsert")]
  | .ok st => ok (Json.arr #[Json.arr ((st.tr.steps.drop before).map eStep).toArray, eNode st.tr.doc,
      jn st.fits.length])

def handlePlanFit (st : St) (op : String) (j : Json) : Option (D (St × Json)) :=
  match op with
  | "planNodeOpF" => some do
    let S ← getSchema st j
    let d ← node (← field j "doc")
    let kind ← str (← field j "kind")
    let ps : PSt := { tr := Tr.init d, fits := [] }
    match kind with
    | "set_node_markup" =>
      let ty : Option TypeId ← match fieldD j "type" Json.null with
        | .null => pure none
        | x => do pure (some (← nat x))
      let ms : Option Marks ← match fieldD j "marks" Json.null with
        | .null => pure none
        | x => do pure (some (← marks x))
      return (st, ePStF 0 (ps.setNodeMarkupF S (← nat (← field j "pos")) ty (← attrs (← field j "attrs")) ms))
    | "set_block_type" =>
      return (st, ePStF 0 (ps.setBlockTypeF S (← nat (← field j "from")) (← nat (← field j "to"))
        (← nat (← field j "type")) (← attrs (← field j "attrs"))))
    | "clear_incompatible" =>
      return (st, ePStF 0 (ps.clearIncompatibleF S (← nat (← field j "pos")) (← nat (← field j "type"))))
    | k => throw s!"bad planNodeOpF kind {k}"
  | _ => none
