/-
  Driver/ExtPlanFit.lean — requests for the planners with the Fitter model plugged in
  (PM/TypePlanFit.lean, C13): `planNodeOpF` runs `set_node_markup` / `set_block_type` /
  `clear_incompatible` without any recorded answers of the Fitter.
  Answer: `{"ok": [steps added, document, number of times the Fitter model was consulted]}`,
  `{"err": class}` for an error of the planner, `{"err": "raises" | "outOfFuel" | "negInsert"}` when
  the Fitter model does not answer.
-/
import Lean.Data.Json
import PM
import Driver.Codec
import Driver.Base
open Lean (Json)
open PM PM.Codec

def ePStF (before : Nat) : PlanRes PSt → Json
  | .error (.plan e) => eErr e
  | .error (.fit .raises) => eRaises
  | .error (.fit .outOfFuel) => Json.mkObj [("err", "outOfFuel")]
  | .error (.fit .negInsert) => Json.mkObj [("err", "negInsert")]
  | .ok st => ok (Json.arr #[Json.arr ((st.tr.steps.drop before).map eStep).toArray, eNode st.tr.doc,
      jn st.fits.length])

def handlePlanFit (st : St) (op : String) (j : Json) : Option (D (St × Json)) :=
  match op with
  | "planNodeOpF" => some do
    let S ← getSchema st j
    let d ← node (← field j "doc")
    let kind ← str (← field j "kind")
    let ps : PSt := { tr := Tr.init d, fits := [] }
    match kind with
    | "set_node_markup" =>
      let ty : Option TypeId ← match fieldD j "type" Json.null with
        | .null => pure none
        | x => do pure (some (← nat x))
      let ms : Option Marks ← match fieldD j "marks" Json.null with
        | .null => pure none
        | x => do pure (some (← marks x))
      return (st, ePStF 0 (ps.setNodeMarkupF S (← nat (← field j "pos")) ty (← attrs (← field j "attrs")) ms))
    | "set_block_type" =>
      return (st, ePStF 0 (ps.setBlockTypeF S (← nat (← field j "from")) (← nat (← field j "to"))
        (← nat (← field j "type")) (← attrs (← field j "attrs"))))
    | "clear_incompatible" =>
      return (st, ePStF 0 (ps.clearIncompatibleF S (← nat (← field j "pos")) (← nat (← field j "type"))))
    | k => throw s!"bad planNodeOpF kind {k}"
  | "plainType" => some do
    let S ← getSchema st j
    return (st, ok (Json.bool (S.plainType (← nat (← field j "type")))))
  | "fillRequest" => some do
    -- the filler request of `clear_incompatible` on a node value: [valid end, size of the fillers, can_replace]
    let S ← getSchema st j
    let n ← node (← field j "node")
    let ty ← nat (← field j "type")
    let r := fillRequestOf S n ty
    return (st, ok (Json.arr #[Json.bool r.1, jn r.2.1, match r.2.2 with
      | some b => Json.bool b
      | none => Json.null]))
  | "clearKeeps" => some do
    -- the conclusion of `clearIncompatibleF_keeps` evaluated on the real documents before / after
    let S ← getSchema st j
    let d ← node (← field j "doc")
    let d' ← node (← field j "after")
    let pos ← nat (← field j "pos")
    let ty ← nat (← field j "type")
    return (st, match clearKeepsCheck S d pos ty d' with
      | some (a, b, c) => ok (Json.arr #[Json.bool a, Json.bool b, Json.bool c])
      | none => ok Json.null)
  | _ => none
