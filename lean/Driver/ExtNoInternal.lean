/-
  Driver/ExtNoInternal.lean — request for the step well-formedness predicate of C01
  (PM/StepWF.lean): `{"op":"stepWF","step":…}` ↦ `{"ok":{"wf":bool,"ordered":bool}}`.
-/
import Lean.Data.Json
import PM
import Driver.Codec
import Driver.Base
open Lean (Json)
open PM PM.Codec

def handleNoInternal (st : St) (op : String) (j : Json) : Option (D (St × Json)) :=
  match op with
  | "stepWF" => some do
    let s ← step (← field j "step")
    return (st, ok (Json.mkObj [("wf", Json.bool (StepWF s)), ("ordered", Json.bool (StepOrdered s))]))
  | _ => none
