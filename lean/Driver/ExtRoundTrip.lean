/-
  Driver/ExtRoundTrip.lean — requests of the export→import model (PM/RoundTrip.lean), property C19.
-/
import Lean.Data.Json
import PM
import PM.RoundTrip
import PM.RoundTripSchema
import Driver.Codec
import Driver.Base
import Driver.ExtDom
import Driver.ExtDomWalk
open Lean (Json)
open PM PM.Codec PM.FromDom PM.DomWalk PM.RoundTrip

def eGA : GA → Json
  | .absent => Json.null
  | .reject => Json.bool false
  | .attrs a => Json.arr #[Json.str "a", eOptAttrs a]
  | .raises => Json.arr #[Json.str "x"]

def eCKind : CKind → Json
  | .children => Json.str "children"
  | .alt => Json.str "alt"
  | .nodes => Json.str "nodes"

/-- the encoding `dnodeOf` reads (harness/props/c19.py: DomOracle.node) -/
partial def eDNode : DNode → Json
  | .other => Json.arr #[Json.str "o"]
  | .text none => Json.arr #[Json.str "t", Json.null]
  | .text (some u) => Json.arr #[Json.str "t", Json.arr (u.map jn).toArray]
  | .elem tag styles cands kids =>
    Json.arr #[Json.str "e", Json.str tag,
      Json.arr (styles.map (fun d => Json.arr #[Json.str (String.ofList d.prop), Json.str (String.ofList d.value),
        Json.arr (d.getAttrs.map (fun (i, g) => Json.arr #[jn i, eGA g])).toArray])).toArray,
      Json.arr (cands.map (fun (c, alt) => Json.arr #[jn c.idx, eGA c.ga, eCKind c.kind, Json.str c.altTag,
        Json.arr (alt.map eDNode).toArray, Json.arr (c.nodes.map eNode).toArray])).toArray,
      Json.arr (kids.map eDNode).toArray]

def selOf (j : Json) : D Sel := do
  let a ← arr j
  let copy ← match a[2]! with
    | .null => pure none
    | x => do pure (some (← listOf (fun p => do
        let q ← arr p
        return (← str q[0]!, ← str q[1]!)) x))
  return { tag := ← str a[0]!, need := ← listOf str a[1]!, copy := copy }


def tpartOf (j : Json) : D TPart := do
  let a ← arr j
  match ← str a[0]! with
  | "l" => return .lit (← str a[1]!).toList
  | _ => return .attr (← str a[1]!)

def tvalOf (j : Json) : D TVal := do
  let a ← arr j
  match ← str a[0]! with
  | "l" => match a[1]! with
    | .null => return .lit none
    | x => return .lit (some (← str x).toList)
  | _ => return .attr (← str a[1]!)

/-- the encoding of harness/rt_tables.py: template -/
partial def tspecOf (j : Json) : D TSpec := do
  let a ← arr j
  match ← str a[0]! with
  | "s" => return .str (← str a[1]!).toList
  | "h" => return .hole
  | _ =>
    let attrs ← listOf (fun p => do
      let q ← arr p
      return ((← str q[0]!).toList, ← tvalOf q[1]!)) a[2]!
    return .el (← listOf tpartOf a[1]!) attrs (← listOf tspecOf a[3]!)

def nodeTOf (j : Json) : D NodeT := do
  let cases ← listOf (fun c => do
    let q ← arr c
    return (← attrs q[0]!, ← tspecOf q[1]!)) (← field j "cases")
  let g ← match ← field j "generic" with
    | .null => pure none
    | x => do pure (some (← tspecOf x))
  return { cases := cases, generic := g }

def toDomTOf (j : Json) : D ToDomT := do
  return { nodes := ← listOf nodeTOf (← field j "nodes"),
           marks := ← listOf (fun m => do return { inl := ← nodeTOf (← field m "inl"), blk := ← nodeTOf (← field m "blk") })
             (← field j "marks"),
           spanning := ← listOf bool (← field j "spanning") }

def eWS : WS → Json
  | .unset => Json.null
  | .off => Json.bool false
  | .on => Json.bool true
  | .full => Json.str "full"

def handleRoundTrip (st : St) (op : String) (j : Json) : Option (D (St × Json)) :=
  match op with
  -- export → import of a document:
  -- {s, groups, wsPre, tags, styles, sel: [[tag, [need], null | [[key, domAttr]]]],
  --  nodeDom: [[ty, attrs, spec]], markDom: [[mark, inline, spec | null]], spanning: [bool], doc}
  --   -> {html, dom, rtOk, doc | err}
  | "roundTrip" => some do
    let S ← getSchema st j
    let G ← groupTable (← field j "groups")
    let wp ← listOf bool (← field j "wsPre")
    let P : Parser := { S := S, G := G, wsPre := fun t => wp.getD t false,
                        tags := ← listOf tagRuleOf (← field j "tags"),
                        styles := ← listOf styleRuleOf (← field j "styles") }
    let R : RParser := { P := P, sel := ← listOf selOf (← field j "sel") }
    let D : ToDom ← match fieldD j "toDom" Json.null with
      | .null => do
        let nodeTab ← listOf (fun e => do
          let a ← arr e
          return ((← nat a[0]!, ← attrs a[1]!), ← specOfJson a[2]!)) (← field j "nodeDom")
        let markTab ← listOf (fun e => do
          let a ← arr e
          let sp ← match a[2]! with
            | .null => pure none
            | x => do pure (some (← specOfJson x))
          return ((← mark a[0]!, ← bool a[1]!), sp)) (← field j "markDom")
        let sp ← listOf bool (← field j "spanning")
        pure ({
          node := fun t a => ((nodeTab.find? (fun e => e.1.1 == t && e.1.2 == a)).map (·.2)).getD (.str [])
          mark := fun m inl => ((markTab.find? (fun e => e.1.1 == m && e.1.2 == inl)).map (·.2)).getD none
          spanning := fun t => sp.getD t true } : ToDom)
      -- the `toDOM` functions as tables (harness/rt_tables.py; the data of lean/Gen/RoundTrip.lean)
      | t => do pure (← toDomTOf t).toDom
    let doc ← node (← field j "doc")
    let html := serializeDoc S D doc
    let dom := toDomList R.sel html
    let base := [("html", Json.str (String.ofList (PM.Dom.renderAll html))),
                 ("dom", Json.arr (dom.map eDNode).toArray),
                 ("noStyle", Json.bool (noStyleList html)),
                 ("rtOk", Json.bool (rtOk R D doc)),
                 ("rtDocOk", Json.bool (rtDocOk R D doc)),
                 ("rtSchemaOk", Json.bool (rtSchemaOk R D)),
                 ("noMarks", Json.bool (noMarks doc))]
    match roundTrip R D doc with
    | .error e => return (st, Json.mkObj (base ++ [("err", errName e)]))
    | .ok d => return (st, Json.mkObj (base ++ [("doc", eNode d)]))
  -- the schema part alone: {s, groups, wsPre, tags, styles, sel, toDom} -> {rtSchemaOk, forms, markPatterns}
  | "rtSchema" => some do
    let S ← getSchema st j
    let G ← groupTable (← field j "groups")
    let wp ← listOf bool (← field j "wsPre")
    let P : Parser := { S := S, G := G, wsPre := fun t => wp.getD t false,
                        tags := ← listOf tagRuleOf (← field j "tags"),
                        styles := ← listOf styleRuleOf (← field j "styles") }
    let R : RParser := { P := P, sel := ← listOf selOf (← field j "sel") }
    let D := (← toDomTOf (← field j "toDom")).toDom
    return (st, Json.mkObj [
      ("rtSchemaOk", Json.bool (rtSchemaOk R D)),
      ("forms", Json.arr ((formTable R D).map (fun (t, a, f) => Json.arr #[jn t, eAttrs a,
        match f with
        | none => Json.null
        | some (tag, pw) => Json.arr #[Json.str tag, eWS pw]])).toArray),
      ("markPatterns", Json.arr ((markPatterns R).map (fun m => Json.arr #[eMark m, Json.bool (markRule R D m true)])).toArray)])
  | _ => none
