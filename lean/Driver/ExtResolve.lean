/-
  Driver/ExtResolve.lean — requests for the accessors of PM/ResolveExtra.lean (C09).
-/
import Lean.Data.Json
import PM
import Driver.Codec
import Driver.Base
open Lean (Json)
open PM PM.Codec

def handleResolve (st : St) (op : String) (j : Json) : Option (D (St × Json)) :=
  match op with
  | "marksAcross" => some do
    let S ← getSchema st j
    let d ← node (← field j "doc")
    let f ← nat (← field j "from")
    let t ← nat (← field j "to")
    return (st, match marksAcross S d f t with
      | .ok (some ms) => ok (eMarks ms)
      | .ok none => ok Json.null
      | .error e => eErr e)
  | "resolveNodes" => some do
    -- the ancestors of a position as nodes: `node(0) … node(depth)` (`doc` is the first, `parent` the last)
    let d ← node (← field j "doc")
    let pos ← nat (← field j "pos")
    match d.resolve pos with
    | none => return (st, eErr .valueError)
    | some r => return (st, ok (Json.arr (((List.range (r.depth + 1)).map r.node).map eNode).toArray))
  | "nodeRange" => some do
    let d ← node (← field j "doc")
    let f ← nat (← field j "from")
    let t ← nat (← field j "to")
    let k ← nat (← field j "depth")
    match d.resolve f, d.resolve t with
    | some rf, some rt =>
      return (st, match nodeRangeInfo rf rt k with
        | some (s, e, si, ei, n) => ok (eNats [s, e, si, ei, n])
        | none => eRaises)
    | _, _ => return (st, eErr .valueError)
  | _ => none
