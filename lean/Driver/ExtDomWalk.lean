/-
  Driver/ExtDomWalk.lean — requests of the DOM-walk model (PM/DomWalk.lean), property C19.
-/
import Lean.Data.Json
import PM
import PM.FromDom
import PM.DomWalk
import Driver.Codec
import Driver.Base
import Driver.ExtDom
open Lean (Json)
open PM PM.Codec PM.FromDom PM.DomWalk

/-- `null` = the rule has no `get_attrs`; `false`; `["a", attrs | null]`; `["x"]` = it raised -/
def gaOf (j : Json) : D GA :=
  match j with
  | .null => pure .absent
  | .bool false => pure .reject
  | x => do
    let a ← arr x
    match ← str a[0]! with
    | "a" => return .attrs (← optAttrs a[1]!)
    | "x" => return .raises
    | t => throw s!"bad get_attrs answer {t}"

def unitsOf (j : Json) : D (List Nat) := listOf nat j

def styleDeclOf (j : Json) : D StyleDecl := do
  let a ← arr j
  let ga ← listOf (fun p => do
    let q ← arr p
    return (← nat q[0]!, ← gaOf q[1]!)) a[2]!
  return { prop := (← str a[0]!).toList, value := (← str a[1]!).toList, getAttrs := ga }

def ckindOf (j : Json) : D CKind := do
  match ← str j with
  | "children" => return .children
  | "alt" => return .alt
  | "nodes" => return .nodes
  | t => throw s!"bad content kind {t}"

/-- `["e", tag, styles, cands, kids]` | `["t", null | units]` | `["o"]`;
    a candidate: `[idx, ga, kind, altTag, altKids, nodes]` -/
partial def dnodeOf (j : Json) : D DNode := do
  let a ← arr j
  match ← str a[0]! with
  | "o" => return .other
  | "t" =>
    match a[1]! with
    | .null => return .text none
    | x => return .text (some (← unitsOf x))
  | "e" =>
    let cands ← listOf (fun cj => do
      let c ← arr cj
      let info : CandInfo := { idx := ← nat c[0]!, ga := ← gaOf c[1]!, kind := ← ckindOf c[2]!,
                               altTag := ← str c[3]!, nodes := ← listOf node c[5]! }
      return (info, ← listOf dnodeOf c[4]!)) a[3]!
    return .elem (← str a[1]!) (← listOf styleDeclOf a[2]!) cands (← listOf dnodeOf a[4]!)
  | t => throw s!"bad dom node {t}"

/-- `null` = not set, `-1` = a name the schema lacks, else the id -/
def refOf (j : Json) : D (Option (Option Nat)) :=
  match j with
  | .null => pure none
  | x => do
    let i ← int x
    if i < 0 then pure (some none) else pure (some (some i.toNat))

def tagRuleOf (j : Json) : D TagRule := do
  return { context := (← str (← field j "ctx")).toList, node := ← refOf (fieldD j "node" Json.null),
           mark := ← refOf (fieldD j "mark" Json.null), attrs := ← optAttrs (fieldD j "attrs" Json.null),
           ignore := ← bool (← field j "ignore"), skip := ← bool (← field j "skip"),
           closeParent := ← bool (← field j "closeParent"), consuming := ← bool (← field j "consuming"),
           preserveWs := ← wsOf (fieldD j "pw" Json.null), listTag := ← bool (← field j "listTag") }

def styleRuleOf (j : Json) : D StyleRule := do
  let clear ← match fieldD j "clear" Json.null with
    | .null => pure none
    | x => do
      let ms ← marks x
      pure (some (fun (m : Mark) => ms.contains m))
  return { style := (← str (← field j "style")).toList, context := (← str (← field j "ctx")).toList,
           mark := ← refOf (fieldD j "mark" Json.null), attrs := ← optAttrs (fieldD j "attrs" Json.null),
           ignore := ← bool (← field j "ignore"), clearMark := clear, consuming := ← bool (← field j "consuming") }

def eWs : WS → Json
  | .unset => Json.null
  | .off => Json.bool false
  | .on => Json.bool true
  | .full => Json.str "full"

def eOptAttrs : Option Attrs → Json
  | none => Json.null
  | some a => eAttrs a

/-- the encoding of the recorded events (harness/props/c19.py: RecordingParseContext) -/
def eEvent : Event → Json
  | .insertNode n => Json.arr #[Json.str "insertNode", eNode n]
  | .enter ty attrs pw => Json.arr #[Json.str "enter", jn ty, eOptAttrs attrs, eWs pw]
  | .findPlace n => Json.arr #[Json.str "findPlace", eNode n]
  | .addPending m => Json.arr #[Json.str "addPending", jn m.1, eMark m.2]
  | .removePending m upto => Json.arr #[Json.str "removePending", jn m.1, eMark m.2, eOptNat upto]
  | .sync to => Json.arr #[Json.str "sync", eOptNat to]
  | .setOpen v => Json.arr #[Json.str "setOpen", jn v]
  | .setNeedsBlock b => Json.arr #[Json.str "setNeedsBlock", Json.bool b]
  | .closeExtra oe => Json.arr #[Json.str "closeExtra", Json.bool oe]

def errName (e : Err) : Json :=
  match eErr e with
  | .obj kv => (kv.get? "err").getD Json.null
  | x => x

def ruleSpecOf (j : Json) : D RuleSpec := do
  let a ← arr j
  let prio ← match a[1]! with
    | .null => pure none
    | x => do pure (some (← int x))
  return { id := ← nat a[0]!, priority := prio, hasMark := ← bool a[2]!, ignore := ← bool a[3]!, hasClearMark := ← bool a[4]! }

def handleDomWalk (st : St) (op : String) (j : Json) : Option (D (St × Json)) :=
  match op with
  -- a whole `DOMParser.parse` / `parse_slice` on an oracle-annotated abstract DOM:
  -- {s, groups, wsPre, tags, styles, slice, root, kids}
  --   -> {normalizeLists, events, doc | frag + open} | {normalizeLists, err}
  | "domParse" => some do
    let S ← getSchema st j
    let G ← groupTable (← field j "groups")
    let wp ← listOf bool (← field j "wsPre")
    let P : Parser := { S := S, G := G, wsPre := fun t => wp.getD t false,
                        tags := ← listOf tagRuleOf (← field j "tags"),
                        styles := ← listOf styleRuleOf (← field j "styles") }
    let isSlice ← bool (fieldD j "slice" (Json.bool false))
    let root ← str (← field j "root")
    let kids ← listOf dnodeOf (← field j "kids")
    let nl := ("normalizeLists", Json.bool P.normalizeLists)
    -- the decidable guards of `parse_no_internal` on this input (schema guards: op `domHyps`)
    let guards := ("guards", Json.mkObj [("rulesOk", Json.bool P.rulesOk),
      ("domOk", Json.bool (listOk true (fun _ => true) kids))])
    if isSlice then
      match parseSliceW P root kids with
      | .error e => return (st, Json.mkObj [nl, guards, ("err", errName e)])
      | .ok (w, c) => return (st, Json.mkObj [nl, guards, ("events", Json.arr (w.log.map eEvent).toArray), ("frag", eFrag c),
          ("open", Json.arr #[jn (Slice.maxOpen S c).openStart, jn (Slice.maxOpen S c).openEnd])])
    else
      match parseW P root kids with
      | .error e =>
        -- for localisation: the events of the walk alone, if it is only `finish` that failed
        let evs := match addAll P root kids false (walkInit P false .unset) with
          | .ok w => Json.arr (w.log.map eEvent).toArray
          | .error _ => Json.null
        return (st, Json.mkObj [nl, guards, ("err", errName e), ("events", evs)])
      | .ok (w, doc) => return (st, Json.mkObj [nl, guards, ("events", Json.arr (w.log.map eEvent).toArray), ("doc", eNode doc)])
  -- `DOMParser.schema_rules`: {specs: [[id, priority|null, hasMark, ignore, hasClearMark]]} -> [[id, takesOwner]]
  | "schemaRules" => some do
    let specs ← listOf ruleSpecOf (← field j "specs")
    return (st, ok (Json.arr ((schemaRules specs).map (fun r => Json.arr #[jn r.id, Json.bool r.takesOwner])).toArray))
  | _ => none
