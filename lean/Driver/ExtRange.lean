/-
  Driver/ExtRange.lean — requests for the planning code of the replace family (C11 / C18):
  PM/RangeOps.lean (`fits_trivially`, `replace_step` before the Fitter, `delete_range` target).
  `{"err":"raises"}` = the model says the code raises.
-/
import Lean.Data.Json
import PM
import Driver.Codec
import Driver.Base
open Lean (Json)
open PM PM.Codec

def handleRange (st : St) (op : String) (j : Json) : Option (D (St × Json)) :=
  match op with
  | "fitsTrivially" => some do
    let S ← getSchema st j
    let d ← node (← field j "doc")
    let f ← nat (← field j "from")
    let t ← nat (← field j "to")
    let sl ← slice (← field j "slice")
    return (st, match fitsTriviallyO S d f t sl with
      | some b => ok (Json.bool b)
      | none => eRaises)
  | "replaceStepTrivial" => some do
    let S ← getSchema st j
    let d ← node (← field j "doc")
    let f ← nat (← field j "from")
    let t ← nat (← field j "to")
    let sl ← slice (← field j "slice")
    return (st, match replaceStepTrivial S d f t sl with
      | some .noStep => ok (Json.arr #[Json.str "none"])
      | some (.step s) => ok (Json.arr #[Json.str "step", eStep s])
      | some .needsFitter => ok (Json.arr #[Json.str "fitter"])
      | none => eRaises)
  | "deleteRangeTarget" => some do
    let S ← getSchema st j
    let d ← node (← field j "doc")
    let f ← nat (← field j "from")
    let t ← nat (← field j "to")
    return (st, match deleteRangeTarget S d f t with
      | some (a, b) => ok (eNats [a, b])
      | none => eRaises)
  -- ---------------- the Fitter (PM/Fitter.lean) and the order-faithful fill / wrap choices (PM/FillOrder.lean)
  | "replaceStep" => some do
    let S ← getSchema st j
    let d ← node (← field j "doc")
    let f ← nat (← field j "from")
    let t ← nat (← field j "to")
    let sl ← slice (← field j "slice")
    return (st, match replaceStep S d f t sl with
      | .ok none => ok (Json.arr #[Json.str "none"])
      | .ok (some s) => ok (Json.arr #[Json.str "step", eStep s])
      | .error .raises => eRaises
      | .error .outOfFuel => Json.mkObj [("err", "outOfFuel")]
      | .error .negInsert => Json.mkObj [("err", "negInsert")])
  | "deleteRangeStep" => some do
    let S ← getSchema st j
    let d ← node (← field j "doc")
    let f ← nat (← field j "from")
    let t ← nat (← field j "to")
    return (st, match deleteRangeStep S d f t with
      | .ok none => ok (Json.arr #[Json.str "none"])
      | .ok (some s) => ok (Json.arr #[Json.str "step", eStep s])
      | .error .raises => eRaises
      | .error .outOfFuel => Json.mkObj [("err", "outOfFuel")]
      | .error .negInsert => Json.mkObj [("err", "negInsert")])
  -- ---------------- the guards of the totality theorems (Props/C11.lean): the finding class `C11-fitter-partial-node`
  -- (`partialNodeOn`, compared exactly with harness/findings.py `partial_node_class`), the termination guard, slice
  -- well-formedness and determinism of the schema's automata; with them the model's own answer for the request
  | "fitGuards" => some do
    let S ← getSchema st j
    let d ← node (← field j "doc")
    let f ← nat (← field j "from")
    let t ← nat (← field j "to")
    let sl ← slice (← field j "slice")
    let outcome : String := match replaceStep S d f t sl with
      | .ok _ => "ok"
      | .error .raises => "raises"
      | .error .outOfFuel => "outOfFuel"
      | .error .negInsert => "negInsert"
    -- the hypotheses of `delete_total` / `insertInline_total` (Props/C11.lean), evaluated for requests with a closed
    -- slice of leaf nodes only (the empty slice is one)
    let hyp : Json := if sl.inlineLeaves S then
        Json.mkObj [("fillers", Json.bool S.fillersOKB), ("valid", Json.bool (S.checkNode d)),
          ("attrs", Json.bool (S.nodeAttrsOK d)), ("topTextblock", Json.bool (S.isTextblockO (S.tyOf d))),
          ("wrapOK", Json.bool S.wrapOKB), ("empty", Json.bool sl.content.isEmpty)]
      else Json.null
    return (st, ok (Json.mkObj [("partial", Json.bool (!sl.noPartialNode S)), ("term", Json.bool sl.termGuard),
      ("wf", Json.bool sl.wf), ("det", Json.bool (PM.FromDom.detB S)), ("model", Json.str outcome), ("hyp", hyp)]))
  -- ---------------- well-formedness of the emitted step (Props/C11.lean `fit_emits_wf_partial`, `delete_emits_wf`,
  -- `insertInline_emits_wf`): `StepWF` / `aroundShape` / the start half on the model's emitted step (compared exactly with
  -- the same predicates on the real step), and whether the in-step invariant held over the whole loop (relational)
  | "fitEmit" => some do
    let S ← getSchema st j
    let d ← node (← field j "doc")
    let f ← nat (← field j "from")
    let t ← nat (← field j "to")
    let sl ← slice (← field j "slice")
    let r := replaceStep S d f t sl
    let kind : String := match r with
      | .ok none => "none"
      | .ok (some (.replaceAround ..)) => "around"
      | .ok (some _) => "replace"
      | .error .raises => "raises"
      | .error .outOfFuel => "outOfFuel"
      | .error .negInsert => "negInsert"
    let wf : Json := match r with
      | .ok (some s) => Json.bool (StepWF s)
      | _ => Json.null
    let left : Json := match r with
      | .ok (some (.replace _ _ s _)) => Json.bool (decide (s.openStart ≤ spineL s.content))
      | .ok (some (.replaceAround _ _ _ _ s ins _)) =>
        Json.bool (decide (s.openStart ≤ spineL s.content) && decide ((ins : Int) ≤ s.size))
      | _ => Json.null
    let shape : Json := match r with
      | .ok (some (.replaceAround F T G1 G2 s ins _)) => Json.bool (aroundShape F T G1 G2 s ins)
      | _ => Json.null
    -- the loop, when the Fitter is reached
    let loop : Json :=
      if f == t && sl.size == 0 then Json.null
      else match d.resolve f, d.resolve t with
        | some rf, some rt =>
          match fitsTriviallyR S rf rt sl with
          | some false =>
            match fitInit S rf sl with
            | .ok st0 =>
              match fitLoopAll S FitState.inStepB (fitFuel S sl) st0 with
              | some b => Json.bool b
              | none => Json.null
            | .error _ => Json.null
          | _ => Json.null
        | _, _ => Json.null
    let trace (p : FitState → Bool) : Json :=
      if f == t && sl.size == 0 then Json.null
      else match d.resolve f, d.resolve t with
        | some rf, some rt =>
          match fitsTriviallyR S rf rt sl with
          | some false =>
            match fitInit S rf sl with
            | .ok st0 =>
              match fitLoopAll S p (fitFuel S sl) st0 with
              | some b => Json.bool b
              | none => Json.null
            | .error _ => Json.null
          | _ => Json.null
        | _, _ => Json.null
    let coherent : Json :=
      if f == t && sl.size == 0 then Json.null
      else match d.resolve f, d.resolve t with
        | some rf, some rt =>
          match fitsTriviallyR S rf rt sl with
          | some false =>
            match fitInit S rf sl with
            | .ok st0 =>
              match fitLoopAll S (FitState.coherentB S rf.depth st0.frontier) (fitFuel S sl) st0 with
              | some b => Json.bool b
              | none => Json.null
            | .error _ => Json.null
          | _ => Json.null
        | _, _ => Json.null
    let validRun : Json :=
      if f == t && sl.size == 0 then Json.null
      else match d.resolve f, d.resolve t with
        | some rf, some rt =>
          match fitsTriviallyR S rf rt sl with
          | some false =>
            match fitInit S rf sl with
            | .ok st0 =>
              match fitLoopAll S (FitState.validB S rf.depth) (fitFuel S sl) st0 with
              | some b => Json.bool b
              | none => Json.null
            | .error _ => Json.null
          | _ => Json.null
        | _, _ => Json.null
    let cls : String :=
      if sl.content.isEmpty then "empty" else if sl.inlineLeaves S then "inline"
      else if sl.openStart == 0 && sl.openEnd == 0 then "closed" else "open"
    return (st, ok (Json.mkObj [("kind", Json.str kind), ("wf", wf), ("left", left), ("shape", shape),
      ("rel", Json.mkObj [("inStep", loop), ("cls", Json.str cls),
        ("uStart", trace (fun st => decide (st.unplaced.openStart ≤ spineL st.unplaced.content))),
        ("uEnd", trace (fun st => decide (st.unplaced.openEnd ≤ spineR st.unplaced.content))),
        ("uWfRun", Json.bool (unplacedWfRun S d f t sl)), ("coherent", coherent), ("labels", Json.bool S.labelsOKB), ("leafOk", Json.bool (PM.FromDom.leafOkB S)), ("textStable", Json.bool (textStableC S)), ("slWf", Json.bool sl.wf),
        ("closable", Json.bool S.closableB), ("slClosedValid", Json.bool (sl.closedValid S)),
        ("slValid", Json.bool (openValidB S sl.openStart sl.openEnd sl.content)),
        ("endInv", match fitEndInv S d f t sl with | some b => Json.bool b | none => Json.null), ("validRun", validRun),
        ("hyp", Json.bool (PM.FromDom.detB S && S.fillersOKB && S.wrapOKB && S.checkNode d && S.nodeAttrsOK d))])]))
  | "fillBeforeO" => some do
    let S ← getSchema st j
    let dfa := S.dfa (← nat (← field j "ty"))
    let q ← nat (← field j "q")
    let after ← listOf nat (← field j "after")
    let toEnd ← bool (← field j "toEnd")
    return (st, match fillBeforeNodes S dfa q after toEnd with
      | some (some ns) => ok (eFrag ns)
      | some none => ok Json.null
      | none => eRaises)
  | "findWrappingO" => some do
    let S ← getSchema st j
    let dfa := S.dfa (← nat (← field j "ty"))
    let q ← nat (← field j "q")
    let target ← nat (← field j "target")
    return (st, match findWrappingTypes S dfa q target with
      | some l => ok (eNats l)
      | none => ok Json.null)
  | _ => none
