/-
  Driver/ExtDelete.lean — the decidable hypotheses of `delete_applies` / `delete_never_raises` (Props/C11.lean):
  * `deleteGuards` — the schema-level guards of PM/DeleteGuards.lean (`joinCompatB`, `reopenOKB`, `textAbsorbB`,
    `inlineUniformB`) next to those the theorem shares with others (`detB`, `fillersOKB`, `leafOkB`, `closableB`,
    `textStableC`); compared exactly with the same predicates computed on the real `Schema` object
    (harness/delguards.py);
  * `deleteApplies` — the document-level hypotheses for one request `delete(from, to)` (valid, normal form, attributes
    creatable, no lone high surrogate, both ends pair-aligned, the top node no textblock) and the model's answer for
    `Transform.delete` as a whole: `replace_step` with the empty slice, then `Step.apply` of what it emits;
    `deleteRangeApplies` — the same for `Transform.delete_range`;
  * `trivialApplies` — the hypotheses of `trivialFit_replace_applies` for one request `replace(from, to, slice)` with a
    closed slice (valid document in normal form, slice content in normal form, both ends pair-aligned,
    `fits_trivially`) and the model's answer for `ReplaceStep(from, to, slice).apply(doc)`;
  * `directApplies` — the hypotheses of `replace_applies_direct` for one request `replace(from, to, slice)` (those of
    `deleteApplies`, `directFitB`, the slice's nodes valid, its content in normal form and without a lone high
    surrogate) and the model's answer for the operation as a whole (`replace_step`, then `Step.apply`).
-/
import Lean.Data.Json
import PM
import Driver.Codec
import Driver.Base
open Lean (Json)
open PM PM.Codec

def schemaGuardsJson (S : Schema) : Json :=
  Json.mkObj [("joinCompat", Json.bool (joinCompatB S)), ("reopenOK", Json.bool (reopenOKB S)),
    ("textAbsorb", Json.bool (textAbsorbB S)), ("inlineUniform", Json.bool (inlineUniformB S)),
    ("det", Json.bool (PM.FromDom.detB S)), ("fillers", Json.bool S.fillersOKB),
    ("leafOk", Json.bool (PM.FromDom.leafOkB S)), ("closable", Json.bool S.closableB),
    ("textStableC", Json.bool (textStableC S))]

def docHypsJson (S : Schema) (d : Node) (f t : Nat) : Json :=
  Json.mkObj [("valid", Json.bool (S.checkNode d)), ("norm", Json.bool (fnorm d.kids)),
    ("attrs", Json.bool (S.nodeAttrsOK d)), ("highClosed", Json.bool (highClosedKids d.kids)),
    ("alignedFrom", Json.bool (pairAlignedB d f)), ("alignedTo", Json.bool (pairAlignedB d t)),
    ("topTextblock", Json.bool (S.isTextblockO (S.tyOf d))), ("inRange", Json.bool (decide (t ≤ fsize d.kids))),
    ("ordered", Json.bool (decide (f ≤ t)))]

/-- the class of the answer of `Transform.delete` / `delete_range`: the planner's outcome, then the `apply` of the step -/
def deleteOutcome (S : Schema) (d : Node) (r : FM (Option Step)) : Json :=
  match r with
  | .ok none => Json.str "none"
  | .ok (some s) =>
    (match S.apply s d with
     | .ok _ => Json.str "applies"
     | .error .failed => Json.str "refused"
     | .error .valueError => Json.str "valueError"
     | .error .internal => Json.str "internal")
  | .error .raises => Json.str "raises"
  | .error .outOfFuel => Json.str "outOfFuel"
  | .error .negInsert => Json.str "negInsert"

def handleDelete (st : St) (op : String) (j : Json) : Option (D (St × Json)) :=
  match op with
  | "deleteGuards" => some do
    let S ← getSchema st j
    return (st, ok (schemaGuardsJson S))
  | "deleteApplies" => some do
    let S ← getSchema st j
    let d ← node (← field j "doc")
    let f ← nat (← field j "from")
    let t ← nat (← field j "to")
    return (st, ok (Json.mkObj [("hyp", docHypsJson S d f t),
      ("model", deleteOutcome S d (replaceStep S d f t Slice.empty))]))
  | "deleteRangeApplies" => some do
    let S ← getSchema st j
    let d ← node (← field j "doc")
    let f ← nat (← field j "from")
    let t ← nat (← field j "to")
    return (st, ok (Json.mkObj [("hyp", docHypsJson S d f t), ("model", deleteOutcome S d (deleteRangeStep S d f t))]))
  | "trivialApplies" => some do
    let S ← getSchema st j
    let d ← node (← field j "doc")
    let f ← nat (← field j "from")
    let t ← nat (← field j "to")
    let sl ← slice (← field j "slice")
    let outcome : Json := match S.apply (.replace f t sl false) d with
      | .ok _ => Json.str "applies"
      | .error .failed => Json.str "refused"
      | .error .valueError => Json.str "valueError"
      | .error .internal => Json.str "internal"
    return (st, ok (Json.mkObj [("hyp", Json.mkObj [("valid", Json.bool (S.checkNode d)), ("norm", Json.bool (fnorm d.kids)),
        ("sliceNorm", Json.bool (fnorm sl.content)), ("alignedFrom", Json.bool (pairAlignedB d f)),
        ("alignedTo", Json.bool (pairAlignedB d t)),
        ("fits", match fitsTriviallyO S d f t sl with | some b => Json.bool b | none => Json.null)]),
      ("model", outcome)]))
  | "directApplies" => some do
    let S ← getSchema st j
    let d ← node (← field j "doc")
    let f ← nat (← field j "from")
    let t ← nat (← field j "to")
    let sl ← slice (← field j "slice")
    return (st, ok (Json.mkObj [("hyp", Json.mkObj [("doc", docHypsJson S d f t), ("direct", Json.bool (directFitB S d f sl)),
        ("sliceValid", Json.bool (sl.closedValid S)), ("sliceNorm", Json.bool (fnorm sl.content)),
        ("sliceHighClosed", Json.bool (highClosedKids sl.content)), ("inlineLeaves", Json.bool (sl.inlineLeaves S))]),
      ("model", deleteOutcome S d (replaceStep S d f t sl))]))
  | _ => none
