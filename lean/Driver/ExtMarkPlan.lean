/-
  Driver/ExtMarkPlan.lean — requests for the planners of `Transform` modelled in PM/MarkPlan.lean
  (C13): the planned step list and the outcome of applying it.
-/
import Lean.Data.Json
import PM
import Driver.Codec
import Driver.Base
open Lean (Json)
open PM PM.Codec

def markSelOf (j : Json) : D MarkSel := do
  let a ← arr j
  match ← str a[0]! with
  | "exact" => return .exact (← mark a[1]!)
  | "type" => return .type (← nat a[1]!)
  | "all" => return .all
  | t => throw s!"bad mark selector {t}"

/-- answer of a planner request: `[planned steps, outcome of applying them in order]`;
    an error of the planning phase itself comes back as the plain error object -/
def ePlan (S : Schema) (doc : Node) : Res (List Step) → Json
  | .error e => eErr e
  | .ok sts => ok (Json.arr #[Json.arr (sts.map eStep).toArray, eRes eNode (S.applyAll sts doc)])

def handleMarkPlan (st : St) (op : String) (j : Json) : Option (D (St × Json)) :=
  match op with
  | "planAddMark" => some do
    let S ← getSchema st j
    let d ← node (← field j "doc")
    let f ← nat (← field j "from")
    let t ← nat (← field j "to")
    let m ← mark (← field j "mark")
    return (st, ePlan S d (planAddMark S d f t m))
  | "planRemoveMark" => some do
    let S ← getSchema st j
    let d ← node (← field j "doc")
    let f ← nat (← field j "from")
    let t ← nat (← field j "to")
    let sel ← markSelOf (← field j "sel")
    return (st, ePlan S d (planRemoveMark S d f t sel))
  | _ => none
