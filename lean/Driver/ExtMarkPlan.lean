/-
  Driver/ExtMarkPlan.lean — requests for the planners of `Transform` modelled in PM/MarkPlan.lean
  (C13): the planned step list and the outcome of applying it.
-/
import Lean.Data.Json
import PM
import Driver.Codec
import Driver.Base
open Lean (Json)
open PM PM.Codec

def markSelOf (j : Json) : D MarkSel := do
  let a ← arr j
  match ← str a[0]! with
  | "exact" => return .exact (← mark a[1]!)
  | "type" => return .type (← nat a[1]!)
  | "all" => return .all
  | t => throw s!"bad mark selector {t}"

/-- answer of a planner request: `[planned steps, outcome of applying them in order]`;
    an error of the planning phase itself comes back as the plain error object -/
def ePlan (S : Schema) (doc : Node) : Res (List Step) → Json
  | .error e => eErr e
  | .ok sts => ok (Json.arr #[Json.arr (sts.map eStep).toArray, eRes eNode (S.applyAll sts doc)])

def errOf (x : String) : D Err :=
  match x with
  | "failed" => pure .failed
  | "valueError" => pure .valueError
  | "internal" => pure .internal
  | _ => throw s!"bad error class {x}"

/-- one recorded answer of the Fitter: `{"ok": step | null}` or `{"err": class}` -/
def fitOf (j : Json) : D (Res (Option Step)) := do
  match j.getObjVal? "err" with
  | .ok e => return .error (← errOf (← str e))
  | .error _ =>
    match ← field j "ok" with
    | .null => return .ok none
    | x => return .ok (some (← step x))

/-- answer of a node-level planner: `[steps added, document, number of unused oracle answers]` -/
def ePSt (before : Nat) : Res PSt → Json
  | .error e => eErr e
  | .ok st => ok (Json.arr #[Json.arr ((st.tr.steps.drop before).map eStep).toArray, eNode st.tr.doc,
      jn st.fits.length])

mutual
/-- adjacent text of equal marks joined at every level (what the `Fragment.from_array` calls of a mark step's
    `map_fragment` do inside an inline node with content whose texts have lost a mark): output normalisation of
    `retypedChildren`, whose specification speaks about token sequences -/
def joinDeepNode : Node → Node
  | .elem t a m kids => .elem t a m (fromArray (joinDeepKids kids))
  | n => n
def joinDeepKids : List Node → List Node
  | [] => []
  | n :: ns => joinDeepNode n :: joinDeepKids ns
end

def handleMarkPlan (st : St) (op : String) (j : Json) : Option (D (St × Json)) :=
  match op with
  | "planNodeOp" => some do
    let S ← getSchema st j
    let d ← node (← field j "doc")
    let kind ← str (← field j "kind")
    let fits ← listOf fitOf (fieldD j "fits" (Json.arr #[]))
    let ps : PSt := { tr := Tr.init d, fits := fits }
    let lift := fun (r : Res Tr) => r.map (fun tr => ({ ps with tr := tr } : PSt))
    match kind with
    | "add_node_mark" =>
      return (st, ePSt 0 (lift (ps.tr.addNodeMark S (← nat (← field j "pos")) (← mark (← field j "mark")))))
    | "remove_node_mark" =>
      let sel : Mark ⊕ MarkTypeId ← match j.getObjVal? "markType" with
        | .ok t => pure (.inr (← nat t))
        | .error _ => do pure (.inl (← mark (← field j "mark")))
      return (st, ePSt 0 (lift (ps.tr.removeNodeMark S (← nat (← field j "pos")) sel)))
    | "set_node_attribute" =>
      return (st, ePSt 0 (lift (ps.tr.setNodeAttribute S (← nat (← field j "pos")) (← str (← field j "name"))
        (← str (← field j "value")))))
    | "set_node_markup" =>
      let ty : Option TypeId ← match fieldD j "type" Json.null with
        | .null => pure none
        | x => do pure (some (← nat x))
      let ms : Option Marks ← match fieldD j "marks" Json.null with
        | .null => pure none
        | x => do pure (some (← marks x))
      return (st, ePSt 0 (ps.setNodeMarkup S (← nat (← field j "pos")) ty (← attrs (← field j "attrs")) ms))
    | "set_block_type" =>
      return (st, ePSt 0 (ps.setBlockType S (← nat (← field j "from")) (← nat (← field j "to"))
        (← nat (← field j "type")) (← attrs (← field j "attrs"))))
    | "clear_incompatible" =>
      return (st, ePSt 0 (ps.clearIncompatible S (← nat (← field j "pos")) (← nat (← field j "type"))))
    | k => throw s!"bad planNodeOp kind {k}"
  | "retypedChildren" => some do
    -- the specification side of `clear_incompatible` (PM/KeptChildren.lean): the children the node
    -- is left with, adjacent text of equal marks joined as `Fragment.from_array` does
    let S ← getSchema st j
    let n ← node (← field j "node")
    let ty ← nat (← field j "type")
    return (st, ok (Json.arr ((fromArray (joinDeepKids (retypedChildren S ty n.kids))).map eNode).toArray))
  | "planAddMark" => some do
    let S ← getSchema st j
    let d ← node (← field j "doc")
    let f ← nat (← field j "from")
    let t ← nat (← field j "to")
    let m ← mark (← field j "mark")
    return (st, ePlan S d (planAddMark S d f t m))
  | "planRemoveMark" => some do
    let S ← getSchema st j
    let d ← node (← field j "doc")
    let f ← nat (← field j "from")
    let t ← nat (← field j "to")
    let sel ← markSelOf (← field j "sel")
    return (st, ePlan S d (planRemoveMark S d f t sel))
  | _ => none
