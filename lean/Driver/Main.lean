/-
  Driver/Main.lean — one JSON request per input line, one JSON answer per output line.
  Runs the executable definitions of the model (`PM.*`); used by the correspondence harness.
  Requests not handled here fall through to the extension handlers `Driver/Ext*.lean`
  (`handleExt`, one file per work area so that they can grow independently).
-/
import Lean.Data.Json
import PM
import Driver.Codec
import Driver.Base
import Driver.Ext
open Lean (Json)
open PM PM.Codec

def handle (st : St) (j : Json) : D (St × Json) := do
  let op ← str (← field j "op")
  match op with
  | "schema" =>
    let s ← schema (← field j "schema")
    return ({ st with schemas := st.schemas.push s }, ok (jn (st.schemas.size)))
  -- ---------------- C08: maps
  | "map" =>
    let m ← stepMap (← field j "m")
    let r := m.mapResult (← int (← field j "pos")) (← int (← field j "assoc"))
    return (st, ok (eMapResult r))
  | "mapAll" =>
    let m ← stepMap (← field j "m")
    let lo ← int (← field j "lo")
    let n ← nat (← field j "n")
    let one := fun (a : Int) => Json.arr ((List.range n).map (fun (k : Nat) => eMapResult (m.mapResult (lo + (k : Int)) a))).toArray
    return (st, ok (Json.arr #[one (-1), one 1]))
  | "forEach" =>
    let m ← stepMap (← field j "m")
    return (st, ok (Json.arr (m.forEach.map (fun (a, b, c, d) => Json.arr #[eInt a, eInt b, eInt c, eInt d])).toArray))
  | "touches" =>
    let m ← stepMap (← field j "m")
    let rv ← arr (← field j "rv")
    return (st, ok (Json.bool (m.touches (← int (← field j "pos")) (← nat rv[0]!, ← int rv[1]!))))
  | "recover" =>
    let m ← stepMap (← field j "m")
    let rv ← arr (← field j "rv")
    return (st, match m.recover (← nat rv[0]!, ← int rv[1]!) with
      | some p => ok (eInt p)
      | none => eErr .internal)
  | "mappingMap" =>
    let m ← mappingOf (← field j "mapping")
    let pos ← int (← field j "pos")
    let assoc ← int (← field j "assoc")
    return (st, match m.mapResult pos assoc, m.map pos assoc with
      | some r, some p => ok (Json.arr #[eInt p, eInt r.pos, jn r.delInfo])
      | _, _ => eErr .internal)
  | "mappingOps" =>
    -- apply a list of builder operations to an empty mapping, return the resulting mapping
    let ops ← arr (← field j "ops")
    let mut m : Mapping := {}
    for o in ops do
      let k ← str (← field o "k")
      match k with
      | "appendMap" =>
        let sm ← stepMap (← field o "m")
        let mir := fieldD o "mirrors" Json.null
        m := m.appendMap sm (← match mir with
          | .null => pure none
          | x => do pure (some (← nat x)))
      | "appendMapping" => m := m.appendMapping (← mappingOf (← field o "mapping"))
      | "appendMappingInverted" => m := m.appendMappingInverted (← mappingOf (← field o "mapping"))
      | "invert" => m := m.invert
      | "slice" => m := m.slice (← nat (← field o "from")) (some (← nat (← field o "to")))
      | _ => throw s!"bad mapping op {k}"
    return (st, ok (eMapping m))
  -- ---------------- C14: marks
  | "addToSet" =>
    let S ← getSchema st j
    return (st, ok (eMarks ((← mark (← field j "mark")).addToSet S (← marks (← field j "set")))))
  | "removeFromSet" =>
    return (st, ok (eMarks ((← mark (← field j "mark")).removeFromSet (← marks (← field j "set")))))
  | "isInSet" =>
    return (st, ok (Json.bool ((← mark (← field j "mark")).isInSet (← marks (← field j "set")))))
  | "sameSet" =>
    return (st, ok (Json.bool (sameSet (← marks (← field j "a")) (← marks (← field j "b")))))
  | "setFrom" =>
    return (st, ok (eMarks (setFrom (← marks (← field j "set")))))
  | "allowedMarks" =>
    let S ← getSchema st j
    let nt := S.nodeType (← nat (← field j "ty"))
    let ms ← marks (← field j "set")
    return (st, ok (Json.arr #[eMarks (nt.allowedMarks ms), Json.bool (nt.allowsMarks ms)]))
  | "excludes" =>
    let S ← getSchema st j
    return (st, ok (Json.bool (S.excludes (← nat (← field j "a")) (← nat (← field j "b")))))
  | "markTypeOps" =>
    let t ← nat (← field j "ty")
    let ms ← marks (← field j "set")
    return (st, ok (Json.arr #[eMarks (markTypeRemoveFromSet t ms), eOpt eMark (markTypeIsInSet t ms)]))
  -- ---------------- C20: diff
  | "diff" =>
    let a ← frag (← field j "a")
    let b ← frag (← field j "b")
    let s := diffStart a b 0
    let e := diffEnd a b (fsize a) (fsize b)
    return (st, ok (Json.arr #[eOptNat s, match e with
      | some (x, y) => Json.arr #[jn x, jn y]
      | none => Json.null]))
  -- ---------------- C02: cut / slice / replace
  | "size" =>
    let d ← node (← field j "doc")
    return (st, ok (jn d.size))
  | "cut" =>
    let d ← node (← field j "doc")
    return (st, eRes eFrag (fcut d.kids (← nat (← field j "from")) (← nat (← field j "to"))))
  | "slice" =>
    let d ← node (← field j "doc")
    return (st, eRes eSlice (d.slice (← nat (← field j "from")) (← nat (← field j "to"))))
  | "replace" =>
    let S ← getSchema st j
    let d ← node (← field j "doc")
    return (st, eRes eNode (S.replace d (← nat (← field j "from")) (← nat (← field j "to")) (← slice (← field j "slice"))))
  | "sliceOps" =>
    let S ← getSchema st j
    let sl ← slice (← field j "slice")
    let k ← str (← field j "k")
    match k with
    | "insertAt" =>
      return (st, match sl.insertAt S (← nat (← field j "pos")) (← frag (← field j "frag")) with
        | .ok (some s) => ok (eSlice s)
        | .ok none => ok Json.null
        | .error e => eErr e)
    | "removeBetween" =>
      return (st, eRes eSlice (sl.removeBetween (← nat (← field j "from")) (← nat (← field j "to"))))
    | "maxOpen" =>
      return (st, ok (eSlice (Slice.maxOpen S sl.content (← bool (← field j "openIso")))))
    | _ => throw "bad sliceOps"
  -- ---------------- C01 / C03 / C04 / C16 / C17: steps
  | "apply" =>
    let S ← getSchema st j
    let d ← node (← field j "doc")
    return (st, eRes eNode (S.apply (← step (← field j "step")) d))
  | "getMap" =>
    return (st, ok (eStepMap (← step (← field j "step")).getMap))
  | "invert" =>
    let S ← getSchema st j
    let d ← node (← field j "doc")
    return (st, eRes eStep (S.invert (← step (← field j "step")) d))
  | "stepMap" =>
    let s ← step (← field j "step")
    let m ← stepMap (← field j "m")
    return (st, ok (eOpt eStep (s.map m)))
  | "merge" =>
    return (st, ok (eOpt eStep ((← step (← field j "a")).merge (← step (← field j "b")))))
  -- ---------------- C07: validity predicates
  | "check" =>
    let S ← getSchema st j
    return (st, ok (Json.bool (S.checkNode (← node (← field j "doc")))))
  | "validContent" =>
    let S ← getSchema st j
    return (st, ok (Json.bool (S.validContent (← nat (← field j "ty")) (← frag (← field j "frag")))))
  | "canReplace" =>
    let S ← getSchema st j
    let n ← node (← field j "node")
    let repl ← frag (← field j "repl")
    let r := S.canReplace (S.tyOf n) n.kids (← nat (← field j "from")) (← nat (← field j "to")) repl
      (← nat (← field j "start")) (← nat (← field j "end"))
    return (st, match r with
      | some b => ok (Json.bool b)
      | none => eErr .valueError)
  | "canReplaceWith" =>
    let S ← getSchema st j
    let n ← node (← field j "node")
    let r := S.canReplaceWith (S.tyOf n) n.kids (← nat (← field j "from")) (← nat (← field j "to"))
      (← nat (← field j "ty")) (← marks (← field j "marks"))
    return (st, match r with
      | some b => ok (Json.bool b)
      | none => eErr .valueError)
  | "canAppend" =>
    let S ← getSchema st j
    let n ← node (← field j "node")
    let o ← node (← field j "other")
    return (st, match S.canAppend (S.tyOf n) n.kids (S.tyOf o) o.kids with
      | some b => ok (Json.bool b)
      | none => eErr .valueError)
  -- ---------------- C09: resolve and friends
  | "resolve" =>
    let S ← getSchema st j
    let d ← node (← field j "doc")
    let pos ← nat (← field j "pos")
    match d.resolve pos with
    | none => return (st, eErr .valueError)
    | some r =>
      let other ← nat (fieldD j "other" (jn pos))
      return (st, ok (Json.mkObj [
        ("path", ePath r), ("depth", jn r.depth), ("parentOffset", jn r.parentOffset),
        ("textOffset", jn r.textOffset),
        ("nodeAfter", eOpt eNode r.nodeAfter), ("nodeBefore", eOpt eNode r.nodeBefore),
        ("marks", eMarks (r.marks S)), ("sharedDepth", jn (r.sharedDepth other)),
        ("indexAfter", eNats ((List.range (r.depth + 1)).map r.indexAfter)),
        ("starts", eNats ((List.range (r.depth + 1)).map r.start)),
        ("ends", eNats ((List.range (r.depth + 1)).map r.end_)),
        ("befores", Json.arr (((List.range (r.depth + 2)).map r.before).map eOptNat).toArray),
        ("afters", Json.arr (((List.range (r.depth + 2)).map r.after).map eOptNat).toArray)]))
  | "nodeAt" =>
    let d ← node (← field j "doc")
    return (st, match d.nodeAt (← nat (← field j "pos")) with
      | .ok n => ok (eOpt eNode n)
      | .error e => eErr e)
  | "childAB" =>
    let d ← node (← field j "doc")
    let pos ← nat (← field j "pos")
    let enc := fun (x : Option (Option Node × Nat × Nat)) => match x with
      | some (n, i, o) => Json.arr #[eOpt eNode n, jn i, jn o]
      | none => Json.null
    return (st, ok (Json.arr #[enc (childAfter d.kids pos), enc (childBefore d.kids pos)]))
  | "nodesBetween" =>
    let d ← node (← field j "doc")
    let f ← nat (← field j "from")
    let t ← nat (← field j "to")
    let vis := nodesBetween d.kids f t 0 0
    return (st, ok (Json.arr #[
      Json.arr (vis.map (fun (n, p, i) => Json.arr #[jn n.size, jn p, jn i])).toArray,
      eNats (textBetween d.kids f t)]))
  | "rangeHasMark" =>
    let d ← node (← field j "doc")
    let f ← nat (← field j "from")
    let t ← nat (← field j "to")
    return (st, ok (Json.bool (rangeHasMark d.kids f t (← mark (← field j "mark")))))
  | "blockRange" =>
    let S ← getSchema st j
    let d ← node (← field j "doc")
    let f ← nat (← field j "from")
    let t ← nat (← field j "to")
    return (st, match blockRange S d f t with
      | .ok (some (dep, s, e)) => ok (eNats [dep, s, e])
      | .ok none => ok Json.null
      | .error e => eErr e)
  | "textBetweenSep" =>
    let S ← getSchema st j
    let d ← node (← field j "doc")
    let f ← nat (← field j "from")
    let t ← nat (← field j "to")
    let sep ← listOf nat (← field j "sep")
    let leaf ← listOf nat (← field j "leaf")
    return (st, eRes eNats (textBetweenSepRes S d.kids f t sep (fun _ => leaf)))
  -- ---------------- C06: content expressions
  | "c06" =>
    -- table: [[name, [groups], isInline, generatable]], expr: string, dfa (optional): [[validEnd, [[ty,next]]]]
    let tableJ ← arr (← field j "table")
    let table ← tableJ.toList.mapM (fun e => do
      let a ← arr e
      return ({ name := ← str a[0]!, groups := ← listOf str a[1]!, isInline := ← bool a[2]! } : NameInfo))
    let gen ← tableJ.toList.mapM (fun e => do
      let a ← arr e
      bool a[3]!)
    let expr ← str (← field j "expr")
    let sigma := List.range table.length
    match specParse table expr with
    | .error e =>
      return (st, ok (Json.mkObj [("parse", Json.str (match e with
        | .syntax => "syntax"
        | .unknownName => "unknownName"
        | .mixed => "mixed"))]))
    | .ok r =>
      let dead? := hasDeadEnd? sigma (fun a => gen.getD a false) r
      let base := [("parse", Json.str "ok"), ("dead", match dead? with | some b => Json.bool b | none => Json.str "unknown"),
        ("re", Json.str (reToLean r))]
      match fieldD j "dfa" Json.null with
      | .null => return (st, ok (Json.mkObj base))
      | dj =>
        let d := (← listOf dfaState dj).toArray
        match findCert d sigma r with
        | some V =>
          let okc := equivCheck d sigma r V
          let extra := if okc then [("cert", Json.str (certToLean V))] else
            [("witness", match (distinguish d sigma r 7).orElse (fun _ => distinguishProduct d sigma r) with
              | some (w, a, b) => Json.arr #[eNats w, Json.bool a, Json.bool b]
              | none => Json.null)]
          return (st, ok (Json.mkObj (base ++ [("equiv", Json.bool okc)] ++ extra)))
        | none =>
          -- the (unverified) certificate search ran out of its allowance: a verdict only if a distinguishing sequence is found
          return (st, ok (Json.mkObj (base ++ [("equiv", Json.bool false), ("searchExhausted", Json.bool true), ("witness", match (distinguish d sigma r 7).orElse (fun _ => distinguishProduct d sigma r) with
              | some (w, a, b) => Json.arr #[eNats w, Json.bool a, Json.bool b]
              | none => Json.null)])))
  | "rematch" =>
    let tableJ ← arr (← field j "table")
    let table ← tableJ.toList.mapM (fun e => do
      let a ← arr e
      return ({ name := ← str a[0]!, groups := ← listOf str a[1]!, isInline := ← bool a[2]! } : NameInfo))
    let expr ← str (← field j "expr")
    let ws ← listOf (listOf nat) (← field j "words")
    match specParse table expr with
    | .error _ => return (st, eErr .valueError)
    | .ok r => return (st, ok (Json.arr (ws.map (fun w => Json.bool (RE.rmatch r w))).toArray))
  -- ---------------- C05: JSON forms
  | "toJson" =>
    let S ← getSchema st j
    let k ← str (← field j "k")
    let v ← field j "v"
    match k with
    | "node" => return (st, ok (jsonOfJ (S.nodeToJ (← node v))))
    | "frag" => return (st, ok (jsonOfJ (S.fragToJ (← frag v))))
    | "slice" => return (st, ok (jsonOfJ (S.sliceToJ (← slice v))))
    | "mark" => return (st, ok (jsonOfJ (S.markToJ (← mark v))))
    | "step" => return (st, ok (jsonOfJ (S.stepToJ (← step v))))
    | _ => throw "bad toJson kind"
  | "fromJson" =>
    let S ← getSchema st j
    let k ← str (← field j "k")
    let v ← field j "v"
    -- "value" fields of steps: a JSON null must stay the raw value "null"
    let fixValue := fun (x : J) => match x with
      | .obj kv => J.obj (kv.map (fun (kk, vv) => if kk == "value" then (kk, match vv with
          | .null => J.raw "null"
          | o => o) else (kk, vv)))
      | o => o
    let jj := fixValue (jOfJson "" v)
    match k with
    | "node" => return (st, eRes eNode (S.nodeOfJ 100000 jj))
    | "frag" => return (st, eRes eFrag (S.fragOfJ 100000 (some jj)))
    | "slice" => return (st, eRes eSlice (S.sliceOfJ 100000 (some jj)))
    | "mark" => return (st, eRes eMark (S.markOfJ jj))
    | "step" => return (st, eRes eStep (S.stepOfJ 100000 jj))
    | _ => throw "bad fromJson kind"
  -- ---------------- C15: filling and wrapping
  | "fill" =>
    let S ← getSchema st j
    let d := S.dfa (← nat (← field j "ty"))
    let q ← nat (← field j "q")
    let after ← listOf nat (← field j "after")
    let toEnd ← bool (← field j "toEnd")
    let gen := fun t => S.generatable t
    let model := fillBefore d gen q after toEnd
    let implJ := fieldD j "impl" Json.null
    let implOk ← match implJ with
      | .null => pure Json.null
      | x => do pure (Json.bool (isFill d gen q after toEnd (← listOf nat x)))
    return (st, ok (Json.mkObj [("model", match model with
      | some l => eNats l
      | none => Json.null), ("implIsFill", implOk),
      ("modelIsFill", match model with
        | some l => Json.bool (isFill d gen q after toEnd l)
        | none => Json.null)]))
  | "wrap" =>
    let S ← getSchema st j
    let d := S.dfa (← nat (← field j "ty"))
    let q ← nat (← field j "q")
    let target ← nat (← field j "target")
    let model := findWrapping S d q target
    let implJ := fieldD j "impl" Json.null
    let implOk ← match implJ with
      | .null => pure Json.null
      | x => do pure (Json.bool (isWrapChain S d q target (← listOf nat x)))
    return (st, ok (Json.mkObj [("model", match model with
      | some l => eNats l
      | none => Json.null), ("implIsChain", implOk)]))
  -- ---------------- C11 / C12 / C18 monitors on steps emitted by the real code
  | "monitor" =>
    let d ← node (← field j "doc")
    let toksD := ftoks d.kids
    let steps ← listOf step (← field j "steps")
    let k ← str (← field j "k")
    match k with
    | "respects" =>
      let f ← nat (← field j "from")
      let t ← nat (← field j "to")
      let req ← slice (← field j "slice")
      return (st, ok (Json.arr (steps.map (fun s => Json.bool (respects toksD f t req s))).toArray))
    | "structural" =>
      return (st, ok (Json.arr (steps.map (fun s => Json.bool (isStructuralAt d s))).toArray))
    | "inside" =>
      let a ← nat (← field j "a")
      let b ← nat (← field j "b")
      return (st, ok (Json.arr (steps.map (fun s => Json.bool (isoSafe a b s))).toArray))
    | _ => throw "bad monitor kind"
  -- ---------------- C18: covered_depths / lift_target / can_split (PM/Structure.lean);
  -- `{"err":"raises"}` = the model says the code raises (position out of range, path IndexError,
  -- content_match_at ValueError)
  | "coveredDepths" =>
    let S ← getSchema st j
    let d ← node (← field j "doc")
    let f ← nat (← field j "from")
    let t ← nat (← field j "to")
    return (st, match coveredDepths S d f t with
      | some ds => ok (eNats ds)
      | none => eRaises)
  | "liftTarget" =>
    let S ← getSchema st j
    let d ← node (← field j "doc")
    let f ← nat (← field j "from")
    let t ← nat (← field j "to")
    let k ← nat (← field j "depth")
    return (st, match liftTarget S d f t k with
      | some r => ok (eOptNat r)
      | none => eRaises)
  | "canSplit" =>
    let S ← getSchema st j
    let d ← node (← field j "doc")
    let p ← nat (← field j "pos")
    let k ← nat (← field j "depth")
    return (st, match canSplit S d p k with
      | some b => ok (Json.bool b)
      | none => eRaises)
  -- ---------------- C19: HTML serializer
  | "serialize" =>
    let kids ← listOf snodeOfJson (← field j "kids")
    return (st, ok (Json.str (String.ofList (PM.Dom.serialize kids))))
  | "toks" =>
    let d ← node (← field j "doc")
    return (st, ok (jn d.toks.length))
  | _ => handleExt st op j

partial def loop (hin hout : IO.FS.Stream) (st : St) : IO Unit := do
  let line ← hin.getLine
  if line.isEmpty then return ()
  let (st', out) :=
    match Json.parse line with
    | .error e => (st, Json.mkObj [("bad", Json.str e)])
    | .ok j =>
      match handle st j with
      | .ok (s, o) => (s, o)
      | .error e => (st, Json.mkObj [("bad", Json.str e)])
  hout.putStrLn out.compress
  loop hin hout st'

def main : IO Unit := do
  let hin ← IO.getStdin
  let hout ← IO.getStdout
  loop hin hout {}
  hout.flush
