/-
  Driver/Ext.lean — chain of extension handlers.  Each `Driver/Ext<Area>.lean` defines
  `handle<Area> (st : St) (op : String) (j : Json) : Option (D (St × Json))` (`none` = not mine).
-/
import Lean.Data.Json
import PM
import Driver.Codec
import Driver.Base
import Driver.ExtResolve
import Driver.ExtUndo
open Lean (Json)
open PM PM.Codec

def extHandlers : List (St → String → Json → Option (D (St × Json))) := [
  handleResolve,
  handleUndo]

def handleExt (st : St) (op : String) (j : Json) : D (St × Json) :=
  match extHandlers.findSome? (fun h => h st op j) with
  | some r => r
  | none => throw s!"unknown op {op}"
