/-
  Driver/Base.lean — shared state and JSON helpers of the driver (imported by Driver/Main.lean and
  by the extension handlers Driver/Ext*.lean).
-/
import Lean.Data.Json
import PM
import Driver.Codec
open Lean (Json)
open PM PM.Codec

structure St where
  schemas : Array Schema := #[]

def getSchema (st : St) (j : Json) : D Schema := do
  let k ← nat (← field j "s")
  match st.schemas[k]? with
  | some s => pure s
  | none => throw s!"unknown schema {k}"

def mappingOf (j : Json) : D Mapping := do
  let maps ← listOf stepMap (← field j "maps")
  let mirror ← listOf nat (fieldD j "mirror" (Json.arr #[]))
  let from_ ← nat (fieldD j "from" (jn 0))
  let to ← nat (fieldD j "to" (jn maps.length))
  return { maps := maps, mirror := mirror, from_ := from_, to := to }

def eMapping (m : Mapping) : Json :=
  Json.mkObj [("maps", Json.arr (m.maps.map eStepMap).toArray), ("mirror", eNats m.mirror),
    ("from", jn m.from_), ("to", jn m.to)]

def ePath (r : RPos) : Json :=
  Json.arr (r.path.map (fun e => Json.arr #[jn e.index, jn e.pos])).toArray

/-! JSON <-> J (library wire format) -/
def utf16Encode (s : String) : List Nat :=
  s.toList.flatMap (fun c =>
    let v := c.toNat
    if v < 0x10000 then [v] else
      let v' := v - 0x10000
      [0xD800 + v' / 0x400, 0xDC00 + v' % 0x400])

def utf16Decode : List Nat → String
  | [] => ""
  | a :: b :: rest =>
    if 0xD800 ≤ a && a < 0xDC00 && 0xDC00 ≤ b && b < 0xE000 then
      String.singleton (Char.ofNat (0x10000 + (a - 0xD800) * 0x400 + (b - 0xDC00))) ++ utf16Decode rest
    else String.singleton (Char.ofNat a) ++ utf16Decode (b :: rest)
  | [a] => String.singleton (Char.ofNat a)

partial def jOfJson (key : String) : Json → J
  | .null => .null
  | .bool b => if key == "value" then .raw (if b then "true" else "false") else .bool b
  | .num n =>
    if key == "value" then .raw (Json.num n).compress else
    match (Json.num n).getInt? with
    | .ok i => .num i
    | .error _ => .raw (Json.num n).compress
  | .str x => if key == "value" then .raw (Json.str x).compress else if key == "text" then .text (utf16Encode x) else .str x
  | .arr a => if key == "value" then .raw (Json.arr a).compress else .arr (a.toList.map (jOfJson ""))
  | .obj kv =>
    if key == "value" then .raw (Json.obj kv).compress
    else if key == "attrs" then .obj (kv.toList.map (fun (k, v) => (k, J.raw v.compress)))
    else .obj (kv.toList.map (fun (k, v) => (k, jOfJson k v)))

def jOfJsonTop (key : String) (j : Json) : J :=
  match key, j with
  | "value", .null => .raw "null"
  | _, _ => jOfJson key j

partial def jsonOfJ : J → Json
  | .null => .null
  | .bool b => .bool b
  | .num n => Json.num (Lean.JsonNumber.fromInt n)
  | .str x => .str x
  | .text u => .str (utf16Decode u)
  | .raw x => match Json.parse x with
    | .ok v => v
    | .error _ => .str ("<unparsable " ++ x ++ ">")
  | .arr l => .arr (l.map jsonOfJ).toArray
  | .obj kv => Json.mkObj (kv.map (fun (k, v) => (k, jsonOfJ v)))

partial def specOfJson (j : Json) : D PM.Dom.Spec := do
  let a ← arr j
  match ← str a[0]! with
  | "s" => return .str (← str a[1]!).toList
  | "h" => return .hole
  | "e" =>
    let attrs ← listOf (fun p => do
      let q ← arr p
      let v ← match q[1]! with
        | .null => pure none
        | x => do pure (some (← str x).toList)
      return ((← str q[0]!).toList, v)) a[2]!
    return .el (← str a[1]!).toList attrs (← listOf specOfJson a[3]!)
  | t => throw s!"bad spec tag {t}"

partial def snodeOfJson (j : Json) : D PM.Dom.SNode := do
  let marks ← listOf (fun m => do
    let q ← arr m
    let sp ← match q[1]! with
      | .null => pure none
      | x => do pure (some (← specOfJson x))
    return (← nat q[0]!, sp, ← bool q[2]!)) (← field j "marks")
  return .mk marks (← specOfJson (← field j "spec")) (← listOf snodeOfJson (← field j "kids"))

partial def reToLean : RE → String
  | .eps => "RE.eps"
  | .sym t => s!"(RE.sym {t})"
  | .alt a b => s!"(RE.alt {reToLean a} {reToLean b})"
  | .seq a b => s!"(RE.seq {reToLean a} {reToLean b})"
  | .star a => s!"(RE.star {reToLean a})"

def certToLean (V : Cert) : String :=
  "[" ++ ", ".intercalate (V.map (fun (q, rs) => s!"({q}, [" ++ ", ".intercalate (rs.map reToLean) ++ "])")) ++ "]"
