/-
  Driver/ExtSmall.lean — small additional requests: `diffAt` (C20: find_diff_start / find_diff_end
  with explicit start positions).
-/
import Lean.Data.Json
import PM
import Driver.Codec
import Driver.Base
open Lean (Json)
open PM PM.Codec

def handleSmall (st : St) (op : String) (j : Json) : Option (D (St × Json)) :=
  match op with
  | "diffAt" => some do
    let a ← frag (← field j "a")
    let b ← frag (← field j "b")
    let s := diffStart a b (← nat (← field j "pos"))
    let e := diffEnd a b (← nat (← field j "posA")) (← nat (← field j "posB"))
    return (st, ok (Json.arr #[eOptNat s, match e with
      | some (x, y) => Json.arr #[jn x, jn y]
      | none => Json.null]))
  | _ => none
