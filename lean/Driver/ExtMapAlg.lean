/-
  Driver/ExtMapAlg.lean — `mappingAlg` (C08): apply a list of builder operations (`appendMap` with an
  optional mirror argument, `setMirror`, `appendMapping`, `appendMappingInverted`, `invert`, `slice`
  with an optional upper bound) to an empty mapping, then report the resulting mapping, whether its
  mirror table is functional (`Mapping.functionalB`), `get_mirror(i)` for every map index, and
  `Mapping.map` / `Mapping.map_result` (position and deletion info) at the positions `lo … lo+n-1`
  for both association sides (`null` = the code raises IndexError).
-/
import Lean.Data.Json
import PM
import Driver.Codec
import Driver.Base
open Lean (Json)
open PM PM.Codec

def applyMappingOps (ops : Array Json) : D Mapping := do
  let mut m : Mapping := {}
  for o in ops do
    let k ← str (← field o "k")
    match k with
    | "appendMap" =>
      let sm ← stepMap (← field o "m")
      let mir := fieldD o "mirrors" Json.null
      m := m.appendMap sm (← match mir with
        | .null => pure none
        | x => do pure (some (← nat x)))
    | "setMirror" => m := m.setMirror (← nat (← field o "n")) (← nat (← field o "m"))
    | "appendMapping" => m := m.appendMapping (← mappingOf (← field o "mapping"))
    | "appendMappingInverted" => m := m.appendMappingInverted (← mappingOf (← field o "mapping"))
    | "invert" => m := m.invert
    | "slice" =>
      let t := fieldD o "to" Json.null
      m := m.slice (← nat (← field o "from")) (← match t with
        | .null => pure none
        | x => do pure (some (← nat x)))
    | _ => throw s!"bad mapping op {k}"
  return m

def handleMapAlg (_st : St) (op : String) (j : Json) : Option (D (St × Json)) :=
  match op with
  | "mappingAlg" => some do
    let m ← applyMappingOps (← arr (← field j "ops"))
    let lo ← int (← field j "lo")
    let n ← nat (← field j "n")
    let one := fun (a : Int) => Json.arr ((List.range n).map (fun (k : Nat) =>
      let p : Int := lo + (k : Int)
      Json.arr #[
        (match m.map p a with | some q => eInt q | none => Json.null),
        (match m.mapResult p a with
          | some r => Json.arr #[eInt r.pos, jn r.delInfo]
          | none => Json.null)])).toArray
    return (_st, ok (Json.mkObj [("mapping", eMapping m), ("functional", Json.bool m.functionalB),
      ("mirrors", Json.arr ((List.range m.maps.length).map (fun i =>
        match m.getMirror i with | some k => jn k | none => Json.null)).toArray),
      ("left", one (-1)), ("right", one 1)]))
  | _ => none
