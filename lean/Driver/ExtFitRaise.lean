/-
  Driver/ExtFitRaise.lean — the guards of `fit_no_raise` (Props/C11.lean; PM/FitRaiseGuard.lean) evaluated on a
  `replace_step` request: the static guards on the slice (`openPrefixOk` = `fillableKids` ∧ `endChainOk`, `stableOk`), the
  site conditions for the slice as it stands (`startSiteOk`, `endSiteOk`), the run hypothesis `unplacedWfWhile`, the other
  hypotheses of the theorem, and the class of the model's answer.
-/
import Lean.Data.Json
import PM
import Driver.Codec
import Driver.Base
open Lean (Json)
open PM PM.Codec

def handleFitRaise (st : St) (op : String) (j : Json) : Option (D (St × Json)) :=
  match op with
  | "fitRaise" => some do
    let S ← getSchema st j
    let d ← node (← field j "doc")
    let f ← nat (← field j "from")
    let t ← nat (← field j "to")
    let sl ← slice (← field j "slice")
    let outcome : String := match replaceStep S d f t sl with
      | .ok _ => "ok"
      | .error .raises => "raises"
      | .error .outOfFuel => "outOfFuel"
      | .error .negInsert => "negInsert"
    -- exact part: the guards on the slice (compared with the same predicates evaluated on the real objects)
    let guards := Json.mkObj [("fillable", Json.bool (S.fillableKids sl.content)),
      ("endChain", Json.bool (S.endChainOk sl.content)), ("stable", Json.bool (sl.stableOk S)),
      ("startSite", Json.bool (S.startSiteOk sl.openStart sl.content)),
      ("endSite", Json.bool (S.endSiteOk sl.content sl.openEnd)), ("wf", Json.bool sl.wf),
      ("term", Json.bool sl.termGuard)]
    -- relational part: the other hypotheses of `fit_no_raise` / `fit_no_raise_while`, and the model's answer
    let hyp := PM.FromDom.detB S && S.fillersOKB && S.wrapOKB && S.labelsOKB && textStableC S && S.closableB &&
      S.checkNode d && S.nodeAttrsOK d && !S.isTextblockO (S.tyOf d) && decide (f ≤ t) && decide (t ≤ fsize d.kids)
    return (st, ok (Json.mkObj [("guards", guards), ("hyp", Json.bool hyp),
      ("wfWhile", Json.bool (unplacedWfWhile S d f t sl)), ("model", Json.str outcome),
      -- `openPrefixOk_of_cut`: the non-leaf nodes of the slice have suffix-closed content
      ("homog", Json.bool (S.homogKids sl.content)), ("homogSchema", Json.bool S.homogSchemaB),
      -- `fit_raises_only_at_sites`: the first state of the run in which a condition fails (wf, start site, end site)
      ("bad", match requestBadState S d f t sl with
        | some (w, a, b) => Json.arr #[Json.bool w, Json.bool a, Json.bool b]
        | none => Json.null)]))
  | _ => none
