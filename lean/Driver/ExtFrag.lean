/-
  Driver/ExtFrag.lean — requests for the `Fragment` object model of PM/FragOps.lean (C02 / C09 tie in
  harness/props/c02_frag.py).  A fragment object travels as `{"content": [...], "size": n}` (the *stored* size).
-/
import Lean.Data.Json
import PM
import Driver.Codec
import Driver.Base
open Lean (Json)
open PM PM.Codec

def foFragObj (j : Json) : D Frag := do
  return ⟨← frag (← field j "content"), ← int (← field j "size")⟩

def eFragObj (f : Frag) : Json := Json.mkObj [("content", eFrag f.content), ("size", eInt f.size)]

def foOptInt (j : Json) : D (Option Int) :=
  match j with
  | .null => pure none
  | x => do pure (some (← int x))

def foOptNat (j : Json) : D (Option Nat) :=
  match j with
  | .null => pure none
  | x => do pure (some (← nat x))

def handleFrag (st : St) (op : String) (j : Json) : Option (D (St × Json)) :=
  match op with
  | "foFromArray" => some do
    return (st, eRes eFragObj (Frag.fromArray (← frag (← field j "array"))))
  | "foFrom" => some do
    let arg ← match ← str (← field j "kind") with
      | "none" => pure FromArg.none
      | "frag" => do pure (FromArg.frag (← foFragObj (← field j "arg")))
      | "list" => do pure (FromArg.list (← frag (← field j "arg")))
      | "node" => do pure (FromArg.node (← node (← field j "arg")))
      | k => throw s!"bad from_ kind {k}"
    return (st, eRes eFragObj (Frag.from_ arg))
  | "foAppend" => some do
    return (st, eRes eFragObj (Frag.append (← foFragObj (← field j "a")) (← foFragObj (← field j "b"))))
  | "foCut" => some do
    return (st, eRes eFragObj (Frag.cut (← foFragObj (← field j "f")) (← nat (← field j "from"))
      (← foOptNat (fieldD j "to" Json.null))))
  | "foCutByIndex" => some do
    return (st, ok (eFragObj (Frag.cutByIndex (← foFragObj (← field j "f")) (← int (← field j "from"))
      (← foOptInt (fieldD j "to" Json.null)))))
  | "foReplaceChild" => some do
    return (st, eRes eFragObj (Frag.replaceChild (← foFragObj (← field j "f")) (← int (← field j "index"))
      (← node (← field j "node"))))
  | "foAddToStart" => some do
    return (st, ok (eFragObj (Frag.addToStart (← foFragObj (← field j "f")) (← node (← field j "node")))))
  | "foAddToEnd" => some do
    return (st, ok (eFragObj (Frag.addToEnd (← foFragObj (← field j "f")) (← node (← field j "node")))))
  | "foChildren" => some do
    -- child(i), maybe_child(i), first_child, last_child, child_count in one answer
    let f ← foFragObj (← field j "f")
    let i ← int (← field j "index")
    return (st, ok (Json.arr #[eRes eNode (f.child i), eOpt eNode (f.maybeChild i), eOpt eNode f.firstChild,
      eOpt eNode f.lastChild, jn f.childCount]))
  | "foEq" => some do
    return (st, ok (Json.bool (Frag.eq (← foFragObj (← field j "a")) (← foFragObj (← field j "b")))))
  | "foFindIndex" => some do
    let f ← foFragObj (← field j "f")
    return (st, eRes (fun (p : Nat × Int) => Json.arr #[jn p.1, eInt p.2])
      (f.findIndex (← int (← field j "pos")) (← int (fieldD j "round" (eInt (-1))))))
  | _ => none
