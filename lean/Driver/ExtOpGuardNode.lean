/-
  Driver/ExtOpGuardNode.lean — request for the executable `FamilyGuard` of C04 for node-level steps
  (PM/OpGuardNode.lean): `{"op":"nodeStepGuard","doc":…,"step":…}` ↦
  `{"ok":[attributes exact, add_to_set does not shrink, one mark per type, exclusion symmetric,
          doc valid and in normal form]}` or `{"ok":null}` for the range step kinds.
-/
import Lean.Data.Json
import PM
import Driver.Codec
import Driver.Base
open Lean (Json)
open PM PM.Codec

def handleOpGuardNode (st : St) (op : String) (j : Json) : Option (D (St × Json)) :=
  match op with
  | "nodeStepGuard" => some do
    let S ← getSchema st j
    let d ← node (← field j "doc")
    let s ← step (← field j "step")
    match nodeStepGuardParts S s d with
    | some (a, b, c, e) =>
      return (st, ok (Json.arr #[Json.bool a, Json.bool b, Json.bool c, Json.bool e,
        Json.bool (S.checkNode d && fnorm d.kids)]))
    | none => return (st, ok Json.null)
  | _ => none
