/-
  Driver/ExtHyps.lean — the schema-level hypotheses of the theorems, evaluated on the compiled schemas the
  checks actually use (so that "the guard holds for this schema" is measured, not assumed):
  determinism of every content automaton (`hdet` of C15, `Det` of C19), liveness (no reachable state from
  which a valid end cannot be reached through generatable nodes — what the schema constructor's dead-end
  check guarantees; `LiveSchema` of C15), edge targets and labels in range (`DfaWF` / `WrapWF`).
-/
import Lean.Data.Json
import PM
import Driver.Codec
import Driver.Base
open Lean (Json)
open PM PM.Codec

def schemaDet (S : Schema) : Bool :=
  (List.range S.nodes.size).all (fun t =>
    (List.range (S.dfa t).size).all (fun q =>
      let labels := ((S.dfa t).edgesOf q).map (·.1)
      labels.eraseDups.length == labels.length))

def schemaLive (S : Schema) : Bool :=
  (List.range S.nodes.size).all (fun t => !(S.dfa t).hasDeadEnd S.generatable && (S.dfa t).size > 0)

def schemaInRange (S : Schema) : Bool :=
  (List.range S.nodes.size).all (fun t =>
    (List.range (S.dfa t).size).all (fun q =>
      ((S.dfa t).edgesOf q).all (fun e => e.1 < S.nodes.size && e.2 < (S.dfa t).size)))

/-- `TextLoop` (Proofs/TokValid.lean), restricted to the states that exist: reading a text leads to a state in which a
    further text stays put -/
def schemaTextLoop (S : Schema) : Bool :=
  (List.range S.nodes.size).all (fun t =>
    (List.range (S.dfa t).size).all (fun q =>
      match (S.dfa t).matchType q S.textTy with
      | some q1 => (S.dfa t).matchType q1 S.textTy == some q1
      | none => true))

/-- `compatTransB` (PM/UndoGuard.lean): compatible_content is transitive on this schema -/
def schemaCompatTrans (S : Schema) : Bool := compatTransB S

def handleHyps (st : St) (op : String) (j : Json) : Option (D (St × Json)) :=
  match op with
  | "schemaHyps" => some do
    let S ← getSchema st j
    return (st, ok (Json.mkObj [("det", Json.bool (schemaDet S)), ("live", Json.bool (schemaLive S)),
      ("inRange", Json.bool (schemaInRange S)),
      ("textLoop", Json.bool (schemaTextLoop S)), ("compatTrans", Json.bool (schemaCompatTrans S))]))
  | "defaultType" => some do
    -- `ContentMatch.default_type` at state `q` of node type `t`'s automaton
    let S ← getSchema st j
    let t ← nat (← field j "type")
    let q ← nat (← field j "state")
    return (st, ok (eOptNat (S.defaultType (S.dfa t) q)))
  | _ => none
