/-
  Driver/ExtIns.lean — the guards of the theorems "an approved insertion applies" of Props/C12.lean
  (`insertPoint_insert_applies`, `dropPoint_drop_applies_closed`, `joinPoint_canJoin`,
  `canChangeType_setNodeMarkup_applies`; PM/InsertGuard.lean), evaluated
  at the answers of the real `insert_point` / `drop_point` / `join_point`.
-/
import Lean.Data.Json
import PM
import Driver.Codec
import Driver.Base
open Lean (Json)
open PM PM.Codec

private def eOO : Option (Option Nat) → Json
  | some (some a) => ok (jn a)
  | some none => ok Json.null
  | none => eRaises

def handleIns (st : St) (op : String) (j : Json) : Option (D (St × Json)) :=
  match op with
  | "insGuard" => some do
    let S ← getSchema st j
    let d ← node (← field j "doc")
    let k ← str (← field j "k")
    let p ← nat (← field j "p")
    let boundary := match d.resolve p with
      | some rp => rp.textOffset == 0
      | none => true
    match k with
    -- `insertPoint_insert_applies`: guard `insertGuard` (`insideTextGuard` ∧ the parent allows the node's marks), `TextStable`;
    -- `trivial`: the model's `fits_trivially(p, p, Slice([n], 0, 0))`
    | "insert" =>
      let n ← node (← field j "node")
      let marks := marksAllowedAt S d p n
      let trivial := fitsTriviallyO S d p p ⟨[n], 0, 0⟩ == some true
      return (st, Json.mkObj [("ok", Json.bool (insertGuard S d p n && textStableC S)),
        ("boundary", Json.bool boundary), ("inside", Json.bool (insideTextGuard S d p [n])), ("marks", Json.bool marks),
        ("trivial", Json.bool trivial), ("stripped", eNode (strippedAt S d p n)), ("ts", Json.bool (textStableC S)),
        -- `insertPoint_insert_marked_top`: a top-level insert point whose parent does not allow the node's marks
        ("top", Json.bool (topBoundary S d p)),
        -- the hypothesis of `insertPoint_insert_succeeds_marked_partial`, on the model's Fitter
        ("fit", Json.bool (match replaceStep S d p p ⟨[n], 0, 0⟩ with
          | .ok (some (.replace f t sl false)) => f == p && t == p && sl == ⟨[strippedAt S d p n], 0, 0⟩
          | _ => false))])
    -- `dropPoint_drop_applies_closed`: closed slice, answered by the first pass, `dropGuard`, `TextStable`
    | "drop" =>
      let sl ← slice (← field j "slice")
      let pos ← nat (← field j "pos")
      let pass1 := dropPointPass1 S d pos sl
      let closed := sl.openStart == 0 && sl.openEnd == 0
      let trivial := fitsTriviallyO S d p p sl == some true
      return (st, Json.mkObj [("ok", Json.bool (closed && pass1 == some (some p) && fsize sl.content != 0 &&
          dropGuard S d p sl.content && textStableC S)),
        ("boundary", Json.bool boundary), ("inside", Json.bool (insideTextGuard S d p sl.content)), ("pass1", eOO pass1),
        ("ts", Json.bool (textStableC S)), ("closed", Json.bool closed),
        ("trivial", Json.bool trivial)])
    -- `joinPoint_canJoin` + `canJoin_join_applies`: `can_join` at the join point, `joinGuard`, `TextStable`
    | "join" =>
      return (st, Json.mkObj [("ok", Json.bool (joinGuard S d p && textStableC S)),
        ("canJoin", match canJoin S d p with
          | some (some b) => ok (Json.bool b)
          | some none => ok Json.null
          | none => eRaises)])
    -- `canChangeType_setNodeMarkup_applies`: `changeTypeGuard` with the node's own marks kept; the new type is a
    -- non-leaf type (`type.create` then gives the empty element node the theorem speaks about)
    | "retype" =>
      let ty ← nat (← field j "ty")
      let (ms, valid, nleaf, atStart) := match d.resolve p with
        | some r =>
          match r.parent.kids[r.index r.depth]? with
          | some n => (n.marks, S.validContent ty n.kids, n.isLeaf, r.textOffset == 0)
          | none => ([], false, false, false)
        | none => ([], false, false, false)
      -- `canChangeType_setNodeMarkup_applies` (non-leaf node, non-leaf type) / `…_leaf_applies` (leaf node at its start,
      -- leaf type other than text): `type.create` then gives the node the theorem speaks about
      let shape := if nleaf then (S.nodeType ty).isLeaf && !(S.nodeType ty).isText && atStart else !(S.nodeType ty).isLeaf
      return (st, Json.mkObj [("ok", Json.bool (changeTypeGuard S d p ty ms && shape)), ("valid", Json.bool valid)])
    | _ => throw s!"bad insGuard kind {k}"
  | _ => none
