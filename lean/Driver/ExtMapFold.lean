/-
  Driver/ExtMapFold.lean — `historyMap` (C03): a history's mapping (a list of step maps, no
  mirrors) asked at every position `0 … n` with both association sides: `Mapping.map`,
  `Mapping.map_result` (position and deletion info) and the folds of PM/MapFold.lean
  (`mapFold`, `deletedFold`, `coveredFold`), plus `noTouch` of every map; `aroundHyps`: the executable
  side conditions `aroundWFB` / `aroundOKB` / `gapSepB` of the C03 theorems on a concrete step.
-/
import Lean.Data.Json
import PM
import Driver.Codec
import Driver.Base
open Lean (Json)
open PM PM.Codec

def handleMapFold (st : St) (op : String) (j : Json) : Option (D (St × Json)) :=
  match op with
  | "historyMap" => some do
    let ms ← listOf stepMap (← field j "maps")
    let n ← nat (← field j "n")
    let mp := Mapping.ofMaps ms
    let one := fun (a : Int) => Json.arr ((List.range (n + 1)).map (fun (k : Nat) =>
      let p : Int := (k : Int)
      Json.arr #[
        (match mp.map p a with | some q => eInt q | none => Json.null),
        eInt (mapFold ms a p),
        (match mp.mapResult p a with
          | some r => Json.arr #[eInt r.pos, jn r.delInfo, Json.bool r.deleted]
          | none => Json.null),
        Json.bool (deletedFold ms a p),
        Json.bool (coveredFold ms a p)])).toArray
    return (st, ok (Json.mkObj [("left", one (-1)), ("right", one 1),
      ("noTouch", Json.arr (ms.map (fun m => Json.bool m.noTouch)).toArray)]))
  | "aroundHyps" => some do
    -- the side conditions of the C03 theorems, evaluated on a concrete step
    let stp ← step (← field j "step")
    return (st, ok (Json.mkObj [("wf", Json.bool (aroundWFB stp)), ("ok", Json.bool (aroundOKB stp)),
      ("sep", Json.bool (gapSepB stp)), ("noTouch", Json.bool stp.getMap.noTouch)]))
  | _ => none
