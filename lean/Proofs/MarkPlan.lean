/-
  Proofs/MarkPlan.lean — helper lemmas for the planner theorems of Props/C13.lean
  (`planRemoveMark_effect`, `planAddMark_effect`):
  1. the walk `nodesBetweenP` against the token sequence (every non-close token of the range is an
     *own* token of exactly the visit that reports its node; visits come in document order);
  2. composition of mark steps over a step list at token level;
  3. the invariants of the two folds (`removeMarkVisit`, `addMarkVisit`).
-/
import PM.MarkPlan
import Proofs.StepToks
import Proofs.MarkEffect
import Proofs.Marks
namespace PM

/-! ### 1. the walk -/

/-- number of tokens at the start of a node that carry *its* marks: all units of a text node, the
    single leaf / open token otherwise -/
def Node.ownLen : Node → Nat
  | .text s _ => s.length
  | _ => 1

theorem Node.ownLen_le_size : ∀ n : Node, n.ownLen ≤ n.size
  | .text .. => by simp [Node.ownLen, Node.size]
  | .leaf .. => by simp [Node.ownLen, Node.size]
  | .elem .. => by simp [Node.ownLen, Node.size]; omega

theorem nodesBetweenP_cons (p : TypeId) (n : Node) (ns : List Node) (f t start i : Nat) :
    nodesBetweenP p (n :: ns) f t start i =
      if t = 0 then []
      else (if f < n.size then
          ⟨n, start, p, i⟩ ::
            (match n with
             | .elem ty _ _ kids =>
               if fsize kids = 0 then []
               else nodesBetweenP ty kids (f - 1) (min (fsize kids) (t - 1)) (start + 1) 0
             | _ => [])
        else []) ++ nodesBetweenP p ns (f - n.size) (t - n.size) (start + n.size) (i + 1) := by
  conv => lhs; unfold nodesBetweenP
  rfl

/-- visits lie inside the fragment and come in document order: the own tokens of an earlier visit
    end before a later visit starts -/
theorem nodesBetweenP_order : ∀ (kids : List Node) (p : TypeId) (f t start i0 : Nat),
    (∀ v ∈ nodesBetweenP p kids f t start i0, start ≤ v.pos ∧ v.pos + v.node.size ≤ start + fsize kids) ∧
    (nodesBetweenP p kids f t start i0).Pairwise (fun v w => v.pos + v.node.ownLen ≤ w.pos)
  | [], p, f, t, start, i0 => by simp [nodesBetweenP]
  | n :: ns, p, f, t, start, i0 => by
    have ihns := nodesBetweenP_order ns p (f - n.size) (t - n.size) (start + n.size) (i0 + 1)
    rw [nodesBetweenP_cons]
    split
    · simp
    · -- the visits contributed by the head node
      have hhere : ∀ (inner : List NV),
          (∀ v ∈ inner, start + 1 ≤ v.pos ∧ v.pos + v.node.size ≤ start + n.size) →
          inner.Pairwise (fun v w => v.pos + v.node.ownLen ≤ w.pos) →
          n.ownLen ≤ 1 ∨ inner = [] →
          (∀ v ∈ (if f < n.size then (⟨n, start, p, i0⟩ : NV) :: inner else []) ++
                nodesBetweenP p ns (f - n.size) (t - n.size) (start + n.size) (i0 + 1),
              start ≤ v.pos ∧ v.pos + v.node.size ≤ start + fsize (n :: ns)) ∧
          ((if f < n.size then (⟨n, start, p, i0⟩ : NV) :: inner else []) ++
                nodesBetweenP p ns (f - n.size) (t - n.size) (start + n.size) (i0 + 1)).Pairwise
            (fun v w => v.pos + v.node.ownLen ≤ w.pos) := by
        intro inner hin hpw hown
        have hsz : fsize (n :: ns) = n.size + fsize ns := by simp [fsize]
        constructor
        · intro v hv
          rcases List.mem_append.mp hv with hv | hv
          · split at hv
            · rcases List.mem_cons.mp hv with rfl | hv
              · simp only; omega
              · have := hin v hv; omega
            · simp at hv
          · have := ihns.1 v hv; omega
        · rw [List.pairwise_append]
          refine ⟨?_, ihns.2, ?_⟩
          · split
            · rw [List.pairwise_cons]
              refine ⟨?_, hpw⟩
              intro w hw
              have := hin w hw
              rcases hown with h1 | h1
              · simp only; omega
              · subst h1; simp at hw
            · exact List.Pairwise.nil
          · intro a ha b hb
            have hb' := ihns.1 b hb
            have hle := Node.ownLen_le_size a.node
            split at ha
            · rcases List.mem_cons.mp ha with rfl | ha
              · simp only at hle ⊢; omega
              · have := hin a ha; omega
            · simp at ha
      cases n with
      | text s m => exact hhere [] (by simp) List.Pairwise.nil (.inr rfl)
      | leaf ty a m => exact hhere [] (by simp) List.Pairwise.nil (.inr rfl)
      | elem ty a m kids =>
        simp only
        by_cases hz : fsize kids = 0
        · rw [if_pos hz]; exact hhere [] (by simp) List.Pairwise.nil (.inr rfl)
        · rw [if_neg hz]
          have ihk := nodesBetweenP_order kids ty (f - 1) (min (fsize kids) (t - 1)) (start + 1) 0
          refine hhere _ ?_ ihk.2 (.inl (by simp [Node.ownLen]))
          intro v hv
          have := ihk.1 v hv
          simp only [Node.size]
          omega

/-- the walk with parents is the walk of PM/Resolve.lean (`nodesBetween`, tied to the code by the
    `nodesBetween` request of C09) with the parent type added -/
theorem nodesBetweenP_forget : ∀ (kids : List Node) (p : TypeId) (f t start i0 : Nat),
    (nodesBetweenP p kids f t start i0).map (fun v => (v.node, v.pos, v.index)) = nodesBetween kids f t start i0
  | [], p, f, t, start, i0 => by simp [nodesBetweenP, nodesBetween]
  | n :: ns, p, f, t, start, i0 => by
    rw [nodesBetweenP_cons, nodesBetween_cons]
    split
    · rfl
    · rw [List.map_append, nodesBetweenP_forget ns]
      congr 1
      split
      · rw [List.map_cons]
        congr 1
        cases n with
        | text s m => rfl
        | leaf ty a m => rfl
        | elem ty a m kids =>
          simp only
          split
          · rfl
          · exact nodesBetweenP_forget kids ty _ _ _ _
      · rfl

theorem ctxAux_units_getElem? (s : List Nat) (m : Marks) (st : List TypeId) (j : Nat) (hj : j < s.length) :
    (ctxAux st (s.map (Tok.unit · m)))[j]? = some (st.headD 0) := by
  induction s generalizing j with
  | nil => simp at hj
  | cons c s ih =>
    cases j with
    | zero => simp [ctxAux]
    | succ j => simp only [List.map_cons, ctxAux, List.getElem?_cons_succ]; exact ih j (by simpa using hj)

/-- every non-close token inside the range is an own token of a visit: the visit reports the node
    the token starts (or, for a text unit, belongs to), with that node's marks, inline-ness and
    the type of the enclosing node -/
theorem nodesBetweenP_cover (S : Schema) : ∀ (kids : List Node) (p : TypeId) (st : List TypeId)
    (f t start i0 j : Nat) (tok : Tok),
    f ≤ j → j < t → (ftoks kids)[j]? = some tok → tok ≠ Tok.cl →
    ∃ v ∈ nodesBetweenP p kids f t start i0,
      v.pos ≤ start + j ∧ start + j < v.pos + v.node.ownLen ∧ tok.marks = v.node.marks ∧
      isInlineTok S tok = S.nodeInline v.node ∧ (ctxAux (p :: st) (ftoks kids))[j]? = some v.pTy ∧
      (v.node.isLeaf = true → isAtomTok S tok = isInlineTok S tok)
  | [], p, st, f, t, start, i0, j, tok, _, _, htok, _ => by simp [ftoks] at htok
  | n :: ns, p, st, f, t, start, i0, j, tok, hfj, hjt, htok, hcl => by
    rw [nodesBetweenP_cons, if_neg (by omega)]
    rw [ftoks_cons] at htok ⊢
    by_cases hj : j < n.size
    · rw [List.getElem?_append_left (by rw [Node.toks_length]; exact hj)] at htok
      rw [ctxAux_append, List.getElem?_append_left (by rw [ctxAux_length, Node.toks_length]; exact hj)]
      rw [if_pos (by omega)]
      cases n with
      | text s m =>
        rw [Node.toks_text] at htok ⊢
        simp only [Node.size] at hj
        refine ⟨⟨.text s m, start, p, i0⟩, by simp, by simp, by simp [Node.ownLen]; omega, ?_, ?_,
          ctxAux_units_getElem? s m _ j hj, ?_⟩
        · rw [List.getElem?_map] at htok
          cases hs : s[j]? with
          | none => simp [hs] at htok
          | some c => simp [hs] at htok; subst htok; rfl
        · rw [List.getElem?_map] at htok
          cases hs : s[j]? with
          | none => simp [hs] at htok
          | some c => simp [hs] at htok; subst htok; rfl
        · rw [List.getElem?_map] at htok
          cases hs : s[j]? with
          | none => simp [hs] at htok
          | some c => simp [hs] at htok; subst htok; intro _; rfl
      | leaf ty a m =>
        simp only [Node.size] at hj
        have : j = 0 := by omega
        subst this
        simp only [Node.toks, List.getElem?_cons_zero, Option.some.injEq] at htok
        subst htok
        exact ⟨⟨.leaf ty a m, start, p, i0⟩, by simp, by simp, by simp [Node.ownLen], rfl, rfl,
          by simp [Node.toks, ctxAux], fun _ => rfl⟩
      | elem ty a m kids =>
        rw [Node.toks_elem] at htok ⊢
        cases j with
        | zero =>
          simp only [List.getElem?_cons_zero, Option.some.injEq] at htok
          subst htok
          exact ⟨⟨.elem ty a m kids, start, p, i0⟩, by simp, by simp, by simp [Node.ownLen], rfl, rfl,
            by simp [ctxAux], fun h => by simp [Node.isLeaf] at h⟩
        | succ j =>
          simp only [List.getElem?_cons_succ] at htok
          simp only [Node.size] at hj
          by_cases hjk : j < fsize kids
          · rw [List.getElem?_append_left (by rw [ftoks_length]; exact hjk)] at htok
            obtain ⟨v, hv, h1, h2, h3, h4, h5, h6⟩ := nodesBetweenP_cover S kids ty (p :: st) (f - 1)
              (min (fsize kids) (t - 1)) (start + 1) 0 j tok (by omega) (by omega) htok hcl
            refine ⟨v, ?_, by omega, by omega, h3, h4, ?_, h6⟩
            · simp only
              rw [if_neg (by omega)]
              exact List.mem_append_left _ (List.mem_cons_of_mem _ hv)
            · simp only [ctxAux, List.getElem?_cons_succ]
              rw [ctxAux_append, List.getElem?_append_left (by rw [ctxAux_length, ftoks_length]; exact hjk)]
              exact h5
          · have : j = fsize kids := by omega
            subst this
            rw [List.getElem?_append_right (by rw [ftoks_length]; omega)] at htok
            simp [ftoks_length] at htok
            exact absurd htok.symm hcl
    · rw [List.getElem?_append_right (by rw [Node.toks_length]; omega), Node.toks_length] at htok
      rw [ctxAux_append, List.getElem?_append_right (by rw [ctxAux_length, Node.toks_length]; omega),
        ctxAux_length, Node.toks_length, Node.stackAfter_toks]
      obtain ⟨v, hv, h1, h2, h3, h4, h5, h6⟩ := nodesBetweenP_cover S ns p st (f - n.size) (t - n.size)
        (start + n.size) (i0 + 1) (j - n.size) tok (by omega) (by omega) htok hcl
      exact ⟨v, List.mem_append_right _ hv, by omega, by omega, h3, h4, h5, h6⟩

/-! ### 2. composition of mark steps over a list, at token level -/

theorem isInlineTok_shape (S : Schema) (a b : Tok) (h : a.shape = b.shape) :
    isInlineTok S a = isInlineTok S b := by
  cases a <;> cases b <;> simp_all [Tok.shape, isInlineTok]

theorem isAtomTok_shape (S : Schema) (a b : Tok) (h : a.shape = b.shape) :
    isAtomTok S a = isAtomTok S b := by
  cases a <;> cases b <;> simp_all [Tok.shape, isAtomTok]

theorem isAtomTok_inline (S : Schema) (a : Tok) (h : isAtomTok S a = true) : isInlineTok S a = true := by
  cases a <;> simp_all [isAtomTok, isInlineTok]

theorem Tok.withMarks_self (tok : Tok) : tok.withMarks tok.marks = tok := by
  cases tok <;> rfl

theorem Tok.withMarks_withMarks (a b : Marks) (tok : Tok) : (tok.withMarks a).withMarks b = tok.withMarks b := by
  cases tok <;> rfl

/-- a token with the marks failing `P` struck, if it starts an inline node -/
def rmTok (S : Schema) (P : Mark → Bool) (tok : Tok) : Tok :=
  if isInlineTok S tok then tok.withMarks (tok.marks.filter P) else tok

theorem rmTok_shape (S : Schema) (P : Mark → Bool) (tok : Tok) : (rmTok S P tok).shape = tok.shape := by
  unfold rmTok; split
  · exact Tok.withMarks_shape _ _
  · rfl

theorem filter_const_true (l : Marks) : l.filter (fun _ => true) = l :=
  List.filter_eq_self.mpr (by simp)

theorem rmTok_rmTok (S : Schema) (P Q : Mark → Bool) (tok : Tok) :
    rmTok S Q (rmTok S P tok) = rmTok S (fun x => P x && Q x) tok := by
  by_cases hi : isInlineTok S tok = true
  · have hne := isInlineTok_ne_cl S tok hi
    have h1 : rmTok S P tok = tok.withMarks (tok.marks.filter P) := by simp [rmTok, hi]
    have h2 : isInlineTok S (tok.withMarks (tok.marks.filter P)) = true := by
      rw [isInlineTok_shape S _ tok (Tok.withMarks_shape _ _)]; exact hi
    rw [h1]
    unfold rmTok
    rw [if_pos h2, if_pos hi, Tok.withMarks_withMarks, Tok.withMarks_marks _ _ hne, List.filter_filter]
    congr 2
    funext x
    exact Bool.and_comm _ _
  · have h1 : rmTok S P tok = tok := by simp [rmTok, hi]
    rw [h1]
    simp [rmTok, hi]

theorem rmTok_true (S : Schema) (tok : Tok) : rmTok S (fun _ => true) tok = tok := by
  unfold rmTok; split
  · rw [filter_const_true, Tok.withMarks_self]
  · rfl

/-- the remove ranges of a list cover token `i` with mark `x` -/
def rmCovers (rs : List (Nat × Nat × Mark)) (i : Nat) (x : Mark) : Bool :=
  rs.any (fun r => decide (r.1 ≤ i) && decide (i < r.2.1) && x == r.2.2)

/-- **a list of remove-mark steps, applied in order**: every inline token loses exactly the marks of
    the ranges that cover it; nothing else changes -/
theorem applyAll_removeMarks (S : Schema) : ∀ (rs : List (Nat × Nat × Mark)) (doc doc' : Node),
    S.applyAll (rs.map (fun r => Step.removeMark r.1 r.2.1 r.2.2)) doc = .ok doc' →
    S.tyOf doc' = S.tyOf doc ∧ (ftoks doc'.kids).length = (ftoks doc.kids).length ∧
    ∀ i, i < (ftoks doc.kids).length →
      (ftoks doc'.kids).getD i Tok.cl = rmTok S (fun x => !rmCovers rs i x) ((ftoks doc.kids).getD i Tok.cl)
  | [], doc, doc', h => by
    simp only [List.map_nil, Schema.applyAll, Except.ok.injEq] at h
    subst h
    refine ⟨rfl, rfl, fun i _ => ?_⟩
    simp [rmCovers, rmTok_true]
  | r :: rs, doc, doc', h => by
    simp only [List.map_cons, Schema.applyAll] at h
    split at h
    · rename_i d1 h1
      obtain ⟨e1, hm1⟩ := apply_removeMark_toks S doc d1 r.1 r.2.1 r.2.2 h1
      obtain ⟨ty2, len2, p2⟩ := applyAll_removeMarks S rs d1 doc' h
      have hlen1 : (ftoks d1.kids).length = (ftoks doc.kids).length := by
        rw [e1]; exact mapIdxCtx_length _ _ _
      refine ⟨by rw [ty2]; exact sameMarkup_tyOf S _ _ hm1, by rw [len2, hlen1], fun i hi => ?_⟩
      rw [p2 i (by omega)]
      have hg : (ftoks d1.kids).getD i Tok.cl =
          rmTok S (fun x => !(decide (r.1 ≤ i) && decide (i < r.2.1) && x == r.2.2))
            ((ftoks doc.kids).getD i Tok.cl) := by
        rw [e1, removeMarkToks_getD S _ _ _ _ _ i hi]
        unfold rmTok
        by_cases hin : isInlineTok S ((ftoks doc.kids).getD i Tok.cl) = true
        · by_cases hc : r.1 ≤ i ∧ i < r.2.1
          · rw [if_pos ⟨hc.1, hc.2, hin⟩, if_pos hin]
            simp only [hc.1, hc.2, decide_true, Bool.true_and, Mark.removeFromSet]
            rfl
          · rw [if_neg (by intro h; exact hc ⟨h.1, h.2.1⟩), if_pos hin]
            have : (decide (r.1 ≤ i) && decide (i < r.2.1)) = false := by
              simp only [Bool.and_eq_false_iff, decide_eq_false_iff_not]
              by_cases h1 : r.1 ≤ i
              · exact .inr (fun h2 => hc ⟨h1, h2⟩)
              · exact .inl h1
            simp only [this, Bool.false_and, Bool.not_false]
            rw [filter_const_true, Tok.withMarks_self]
        · rw [if_neg (by intro h; exact hin h.2.2), if_neg hin]
      rw [hg, rmTok_rmTok]
      congr 1
      funext x
      simp [rmCovers, List.any_cons]
    · simp at h

/-! ### 3a. the fold of `remove_mark` -/

theorem updLast_some {α} (p : α → Bool) (g : α → α) : ∀ (l l' : List α), updLast p g l = some l' →
    (∀ e' ∈ l', e' ∈ l ∨ ∃ e ∈ l, p e = true ∧ e' = g e) ∧
    (∀ e ∈ l, e ∈ l' ∨ (p e = true ∧ g e ∈ l')) ∧
    (∃ e ∈ l, p e = true ∧ g e ∈ l')
  | [], l', h => by simp [updLast] at h
  | e :: es, l', h => by
    simp only [updLast] at h
    split at h
    · rename_i es' hes
      simp only [Option.some.injEq] at h
      subst h
      obtain ⟨h1, h2, e0, he0, hp0, hg0⟩ := updLast_some p g es es' hes
      refine ⟨?_, ?_, e0, List.mem_cons_of_mem _ he0, hp0, List.mem_cons_of_mem _ hg0⟩
      · intro e' he'
        rcases List.mem_cons.mp he' with rfl | he'
        · exact .inl (List.mem_cons_self ..)
        · rcases h1 e' he' with h | ⟨e1, he1, hp1, rfl⟩
          · exact .inl (List.mem_cons_of_mem _ h)
          · exact .inr ⟨e1, List.mem_cons_of_mem _ he1, hp1, rfl⟩
      · intro e1 he1
        rcases List.mem_cons.mp he1 with rfl | he1
        · exact .inl (List.mem_cons_self ..)
        · rcases h2 e1 he1 with h | ⟨hp, hg⟩
          · exact .inl (List.mem_cons_of_mem _ h)
          · exact .inr ⟨hp, List.mem_cons_of_mem _ hg⟩
    · split at h
      · rename_i hp
        simp only [Option.some.injEq] at h
        subst h
        refine ⟨?_, ?_, e, List.mem_cons_self .., hp, List.mem_cons_self ..⟩
        · intro e' he'
          rcases List.mem_cons.mp he' with rfl | he'
          · exact .inr ⟨e, List.mem_cons_self .., hp, rfl⟩
          · exact .inl (List.mem_cons_of_mem _ he')
        · intro e1 he1
          rcases List.mem_cons.mp he1 with rfl | he1
          · exact .inr ⟨hp, List.mem_cons_self ..⟩
          · exact .inl (List.mem_cons_of_mem _ he1)
      · simp at h

/-- some element of `matched` removes `x` over a range containing token `i` -/
def CovM (M : List Matched) (x : Mark) (i : Nat) : Prop :=
  ∃ e ∈ M, e.style = x ∧ e.from_ ≤ i ∧ i < e.to

/-- what every element of `matched` satisfies while the node starting at `a` is processed -/
def GoodM (f t : Nat) (sel : MarkSel) (a : Nat) (e : Matched) : Prop :=
  sel.matches e.style = true ∧ f ≤ e.from_ ∧ e.from_ ≤ a ∧ e.to ≤ t

theorem removeMarkStyle_spec (f t : Nat) (sel : MarkSel) (a end_ step : Nat) (M : List Matched) (x : Mark)
    (hM : ∀ e ∈ M, GoodM f t sel a e) (hx : sel.matches x = true) (hfa : f ≤ a) (het : end_ ≤ t) :
    (∀ e ∈ removeMarkStyle a end_ step M x, GoodM f t sel a e) ∧
    (∀ x' i, CovM M x' i → i < end_ → CovM (removeMarkStyle a end_ step M x) x' i) ∧
    (∀ i, a ≤ i → i < end_ → CovM (removeMarkStyle a end_ step M x) x i) := by
  unfold removeMarkStyle
  split
  · rename_i M' hM'
    obtain ⟨h1, h2, e0, he0, hp0, hg0⟩ := updLast_some _ _ M M' hM'
    refine ⟨?_, ?_, ?_⟩
    · intro e' he'
      rcases h1 e' he' with h | ⟨e1, he1, _, rfl⟩
      · exact hM e' h
      · obtain ⟨g1, g2, g3, _⟩ := hM e1 he1
        exact ⟨g1, g2, g3, het⟩
    · rintro x' i ⟨e, he, hs, hf, ht⟩ hi
      rcases h2 e he with h | ⟨_, hg⟩
      · exact ⟨e, h, hs, hf, ht⟩
      · exact ⟨_, hg, hs, hf, hi⟩
    · intro i hai hi
      simp only [Bool.and_eq_true, beq_iff_eq] at hp0
      exact ⟨_, hg0, hp0.2.symm, Nat.le_trans (hM e0 he0).2.2.1 hai, hi⟩
  · refine ⟨?_, ?_, ?_⟩
    · intro e' he'
      rcases List.mem_append.mp he' with h | h
      · exact hM e' h
      · simp only [List.mem_singleton] at h
        subst h
        exact ⟨hx, hfa, Nat.le_refl _, het⟩
    · rintro x' i ⟨e, he, hs, hf, ht⟩ _
      exact ⟨e, List.mem_append_left _ he, hs, hf, ht⟩
    · intro i hai hi
      exact ⟨⟨x, a, end_, step⟩, List.mem_append_right _ (List.mem_singleton.mpr rfl), rfl, hai, hi⟩

theorem removeMarkStyle_fold (f t : Nat) (sel : MarkSel) (a end_ step : Nat) (hfa : f ≤ a) (het : end_ ≤ t) :
    ∀ (xs : Marks) (M : List Matched), (∀ e ∈ M, GoodM f t sel a e) → (∀ x ∈ xs, sel.matches x = true) →
    (∀ e ∈ xs.foldl (removeMarkStyle a end_ step) M, GoodM f t sel a e) ∧
    (∀ x' i, CovM M x' i → i < end_ → CovM (xs.foldl (removeMarkStyle a end_ step) M) x' i) ∧
    (∀ x ∈ xs, ∀ i, a ≤ i → i < end_ → CovM (xs.foldl (removeMarkStyle a end_ step) M) x i)
  | [], M, hM, _ => ⟨hM, fun _ _ h _ => h, fun _ hx => by simp at hx⟩
  | x :: xs, M, hM, hxs => by
    obtain ⟨s1, s2, s3⟩ := removeMarkStyle_spec f t sel a end_ step M x hM (hxs x (List.mem_cons_self ..)) hfa het
    obtain ⟨r1, r2, r3⟩ := removeMarkStyle_fold f t sel a end_ step hfa het xs _ s1
      (fun y hy => hxs y (List.mem_cons_of_mem _ hy))
    simp only [List.foldl_cons]
    refine ⟨r1, fun x' i h hi => r2 x' i (s2 x' i h hi) hi, ?_⟩
    intro y hy i hai hi
    rcases List.mem_cons.mp hy with rfl | hy
    · exact r2 _ i (s3 i hai hi) hi
    · exact r3 y hy i hai hi

theorem mem_dedupMarks (x : Mark) : ∀ l : Marks, x ∈ dedupMarks l ↔ x ∈ l
  | [] => by simp [dedupMarks]
  | y :: ys => by
    simp only [dedupMarks, List.mem_cons, List.mem_filter, mem_dedupMarks x ys, bne_iff_ne, ne_eq]
    constructor
    · rintro (h | ⟨h, _⟩)
      · exact .inl h
      · exact .inr h
    · rintro (h | h)
      · exact .inl h
      · by_cases e : x = y
        · exact .inl e
        · exact .inr ⟨h, e⟩

theorem mem_toRemove (sel : MarkSel) (marks : Marks) (x : Mark) :
    (x ∈ sel.toRemove marks → sel.matches x = true) ∧
    (x ∈ marks → sel.matches x = true → x ∈ sel.toRemove marks) := by
  cases sel with
  | exact m =>
    simp only [MarkSel.toRemove, MarkSel.matches, beq_iff_eq]
    constructor
    · intro h
      split at h
      · simpa using h
      · simp at h
    · rintro h rfl
      have : x.isInSet marks = true := by
        simp only [Mark.isInSet, List.any_eq_true, beq_iff_eq]
        exact ⟨x, h, rfl⟩
      simp [this]
  | type ty =>
    simp only [MarkSel.toRemove, MarkSel.matches, mem_dedupMarks, List.mem_filter]
    exact ⟨fun h => h.2, fun h1 h2 => ⟨h1, h2⟩⟩
  | all => simp [MarkSel.toRemove, MarkSel.matches]

/-- the invariant of the `remove_mark` walk after the visits `P` -/
structure RmInv (S : Schema) (f t : Nat) (sel : MarkSel) (P : List NV) (M : List Matched) : Prop where
  good : ∀ e ∈ M, sel.matches e.style = true ∧ f ≤ e.from_ ∧ e.to ≤ t ∧ ∃ w ∈ P, e.from_ ≤ max w.pos f
  cov : ∀ v ∈ P, S.nodeInline v.node = true → ∀ x ∈ v.node.marks, sel.matches x = true →
    ∀ i, max v.pos f ≤ i → i < min (v.pos + v.node.ownLen) t → CovM M x i

theorem removeMarkVisit_inv (S : Schema) (f t : Nat) (sel : MarkSel) (P : List NV) (M : List Matched)
    (k : Nat) (v : NV) (hI : RmInv S f t sel P M) (hord : ∀ w ∈ P, w.pos + w.node.ownLen ≤ v.pos) :
    RmInv S f t sel (P ++ [v]) (removeMarkVisit S f t sel (M, k) v).1 := by
  unfold removeMarkVisit
  by_cases hin : S.nodeInline v.node = true
  · simp only [hin, Bool.not_true, Bool.false_eq_true, if_false]
    have hM : ∀ e ∈ M, GoodM f t sel (max v.pos f) e := by
      intro e he
      obtain ⟨g1, g2, g3, w, hw, g4⟩ := hI.good e he
      have := hord w hw
      exact ⟨g1, g2, by omega, g3⟩
    obtain ⟨r1, r2, r3⟩ := removeMarkStyle_fold f t sel (max v.pos f) (min (v.pos + v.node.size) t) (k + 1)
      (Nat.le_max_right _ _) (Nat.min_le_right _ _) (sel.toRemove v.node.marks) M hM
      (fun x hx => (mem_toRemove sel _ x).1 hx)
    constructor
    · intro e he
      obtain ⟨g1, g2, g3, g4⟩ := r1 e he
      exact ⟨g1, g2, g4, v, by simp, g3⟩
    · intro v' hv' hin' x hx hsel i hi1 hi2
      have hle := Node.ownLen_le_size v.node
      rcases List.mem_append.mp hv' with hv' | hv'
      · have := hord v' hv'
        exact r2 x i (hI.cov v' hv' hin' x hx hsel i hi1 hi2) (by omega)
      · simp only [List.mem_singleton] at hv'
        subst hv'
        exact r3 x ((mem_toRemove sel _ x).2 hx hsel) i hi1 (by omega)
  · simp only [hin, Bool.not_false, if_true]
    constructor
    · intro e he
      obtain ⟨g1, g2, g3, w, hw, g4⟩ := hI.good e he
      exact ⟨g1, g2, g3, w, List.mem_append_left _ hw, g4⟩
    · intro v' hv' hin' x hx hsel i hi1 hi2
      rcases List.mem_append.mp hv' with hv' | hv'
      · exact hI.cov v' hv' hin' x hx hsel i hi1 hi2
      · simp only [List.mem_singleton] at hv'
        subst hv'
        exact absurd hin' hin

theorem removeMarkVisit_fold (S : Schema) (f t : Nat) (sel : MarkSel) :
    ∀ (rest P : List NV) (st : List Matched × Nat), RmInv S f t sel P st.1 →
    (P ++ rest).Pairwise (fun v w => v.pos + v.node.ownLen ≤ w.pos) →
    RmInv S f t sel (P ++ rest) (rest.foldl (removeMarkVisit S f t sel) st).1
  | [], P, st, hI, _ => by simpa using hI
  | v :: rest, P, st, hI, hpw => by
    have hpw' : ((P ++ [v]) ++ rest).Pairwise (fun v w => v.pos + v.node.ownLen ≤ w.pos) := by
      simpa using hpw
    have hord : ∀ w ∈ P, w.pos + w.node.ownLen ≤ v.pos := by
      intro w hw
      exact (List.pairwise_append.mp hpw).2.2 w hw v (List.mem_cons_self ..)
    have := removeMarkVisit_fold S f t sel rest (P ++ [v]) (removeMarkVisit S f t sel st v)
      (removeMarkVisit_inv S f t sel P st.1 st.2 v hI hord) hpw'
    simpa using this

theorem Tr.stepAll_spec (S : Schema) : ∀ (sts : List Step) (tr tr' : Tr), tr.stepAll S sts = .ok tr' →
    S.applyAll sts tr.doc = .ok tr'.doc ∧ tr'.steps = tr.steps ++ sts
  | [], tr, tr', h => by
    simp only [Tr.stepAll, Except.ok.injEq] at h
    subst h
    simp [Schema.applyAll]
  | s :: ss, tr, tr', h => by
    simp only [Tr.stepAll, Tr.step] at h
    cases ha : S.apply s tr.doc with
    | error e => rw [ha] at h; simp at h
    | ok d =>
      rw [ha] at h
      simp only at h
      obtain ⟨h1, h2⟩ := Tr.stepAll_spec S ss _ tr' h
      simp only [Schema.applyAll, ha]
      exact ⟨h1, by rw [h2]; simp [Tr.addStep]⟩

theorem rmTok_marks (S : Schema) (P : Mark → Bool) (tok : Tok) (h : isInlineTok S tok = true) :
    (rmTok S P tok).marks = tok.marks.filter P := by
  unfold rmTok
  rw [if_pos h, Tok.withMarks_marks _ _ (isInlineTok_ne_cl S tok h)]

theorem rmTok_congr (S : Schema) (P Q : Mark → Bool) (tok : Tok) (h : ∀ x ∈ tok.marks, P x = Q x) :
    rmTok S P tok = rmTok S Q tok := by
  unfold rmTok
  rw [List.filter_congr h]

/-- **the steps `remove_mark` plans, applied in order, at token level**: inside `[f, t)` every
    inline token loses exactly the marks the selector matches; everything else is unchanged -/
theorem planRemoveMarkSteps_toks (S : Schema) (doc doc' : Node) (f t : Nat) (sel : MarkSel)
    (h : S.applyAll (planRemoveMarkSteps S doc f t sel) doc = .ok doc') :
    S.tyOf doc' = S.tyOf doc ∧ (ftoks doc'.kids).length = (ftoks doc.kids).length ∧
    ∀ i, i < (ftoks doc.kids).length →
      (ftoks doc'.kids).getD i Tok.cl =
        if f ≤ i ∧ i < t then rmTok S (fun x => !sel.matches x) ((ftoks doc.kids).getD i Tok.cl)
        else (ftoks doc.kids).getD i Tok.cl := by
  unfold planRemoveMarkSteps at h
  generalize hM : ((S.docVisits doc f t).foldl (removeMarkVisit S f t sel) ([], 0)).1 = M at h
  have hI : RmInv S f t sel (S.docVisits doc f t) M := by
    have := removeMarkVisit_fold S f t sel (S.docVisits doc f t) [] ([], 0)
      ⟨by simp, by simp⟩ (by simpa [Schema.docVisits] using (nodesBetweenP_order doc.kids (S.tyOf doc) f t 0 0).2)
    rw [hM] at this
    simpa using this
  have hmap : M.map (fun e => Step.removeMark e.from_ e.to e.style) =
      (M.map (fun e => (e.from_, e.to, e.style))).map (fun r => Step.removeMark r.1 r.2.1 r.2.2) := by
    rw [List.map_map]; rfl
  rw [hmap] at h
  obtain ⟨hty, hlen, hp⟩ := applyAll_removeMarks S _ doc doc' h
  refine ⟨hty, hlen, fun i hi => ?_⟩
  rw [hp i hi]
  have hcov : ∀ x, rmCovers (M.map (fun e => (e.from_, e.to, e.style))) i x = true ↔ CovM M x i := by
    intro x
    simp only [rmCovers, List.any_map, List.any_eq_true, Function.comp, Bool.and_eq_true,
      decide_eq_true_eq, beq_iff_eq, CovM]
    constructor
    · rintro ⟨e, he, ⟨h1, h2⟩, h3⟩; exact ⟨e, he, h3.symm, h1, h2⟩
    · rintro ⟨e, he, h3, h1, h2⟩; exact ⟨e, he, ⟨h1, h2⟩, h3.symm⟩
  have hget : (ftoks doc.kids)[i]? = some ((ftoks doc.kids).getD i Tok.cl) := by
    rw [List.getD_eq_getElem?_getD, List.getElem?_eq_getElem hi]; rfl
  by_cases hr : f ≤ i ∧ i < t
  · rw [if_pos hr]
    by_cases hcl : (ftoks doc.kids).getD i Tok.cl = Tok.cl
    · rw [hcl]; simp [rmTok, isInlineTok]
    · obtain ⟨v, hv, h1, h2, h3, h4, _⟩ := nodesBetweenP_cover S doc.kids (S.tyOf doc) [] f t 0 0 i _
        hr.1 hr.2 hget hcl
      by_cases hin : isInlineTok S ((ftoks doc.kids).getD i Tok.cl) = true
      · apply rmTok_congr
        intro x hx
        by_cases hs : sel.matches x = true
        · have : CovM M x i := hI.cov v hv (by rw [← h4]; exact hin) x (by rw [← h3]; exact hx) hs i
            (by omega) (by omega)
          rw [(hcov x).mpr this, hs]
        · have : ¬ rmCovers (M.map (fun e => (e.from_, e.to, e.style))) i x = true := by
            rw [hcov]
            rintro ⟨e, he, rfl, _, _⟩
            exact hs (hI.good e he).1
          simp only [Bool.not_eq_true] at this hs
          rw [this, hs]
      · unfold rmTok; rw [if_neg hin, if_neg hin]
  · rw [if_neg hr]
    have : ∀ x, rmCovers (M.map (fun e => (e.from_, e.to, e.style))) i x = false := by
      intro x
      rw [← Bool.not_eq_true, hcov]
      rintro ⟨e, he, _, h1, h2⟩
      obtain ⟨_, g2, g3, _⟩ := hI.good e he
      exact hr ⟨by omega, by omega⟩
    simp only [this, Bool.not_false]
    exact rmTok_true S _

/-! ### 2b. a list of add-mark steps (one mark) at token level -/

/-- some add range of the list contains token `i` -/
def adCovers (as : List (Nat × Nat)) (i : Nat) : Bool :=
  as.any (fun r => decide (r.1 ≤ i) && decide (i < r.2))

/-- **a list of add-mark steps for one mark, applied in order**: an inline atom whose enclosing
    node allows the mark type gets `addToSet` iff some range contains it; nothing else changes -/
theorem applyAll_addMarks (S : Schema) (m : Mark) : ∀ (as : List (Nat × Nat)) (doc doc' : Node),
    S.applyAll (as.map (fun r => Step.addMark r.1 r.2 m)) doc = .ok doc' →
    S.tyOf doc' = S.tyOf doc ∧ (ftoks doc'.kids).length = (ftoks doc.kids).length ∧
    ∀ i, i < (ftoks doc.kids).length →
      (ftoks doc'.kids).getD i Tok.cl =
        if adCovers as i = true ∧ isAtomTok S ((ftoks doc.kids).getD i Tok.cl) = true ∧
            (S.nodeType ((ctxOf (S.tyOf doc) (ftoks doc.kids)).getD i 0)).allowsMarkType m.ty = true
        then ((ftoks doc.kids).getD i Tok.cl).withMarks (m.addToSet S ((ftoks doc.kids).getD i Tok.cl).marks)
        else (ftoks doc.kids).getD i Tok.cl
  | [], doc, doc', h => by
    simp only [List.map_nil, Schema.applyAll, Except.ok.injEq] at h
    subst h
    refine ⟨rfl, rfl, fun i _ => ?_⟩
    simp [adCovers]
  | r :: as, doc, doc', h => by
    simp only [List.map_cons, Schema.applyAll] at h
    split at h
    · rename_i d1 h1
      obtain ⟨e1, hm1⟩ := apply_addMark_toks S doc d1 r.1 r.2 m h1
      obtain ⟨ty2, len2, p2⟩ := applyAll_addMarks S m as d1 doc' h
      have hty1 : S.tyOf d1 = S.tyOf doc := sameMarkup_tyOf S _ _ hm1
      have hlen1 : (ftoks d1.kids).length = (ftoks doc.kids).length := by
        rw [e1]; exact mapIdxCtx_length _ _ _
      have hctx : ctxOf (S.tyOf d1) (ftoks d1.kids) = ctxOf (S.tyOf doc) (ftoks doc.kids) := by
        rw [hty1, e1]
        exact ctxAux_shape _ _ _ (addMarkToks_shape S m r.1 r.2 _ _)
      refine ⟨by rw [ty2, hty1], by rw [len2, hlen1], fun i hi => ?_⟩
      rw [p2 i (by omega), hctx]
      have hg := addMarkToks_getD S m r.1 r.2 (S.tyOf doc) (ftoks doc.kids) i hi
      rw [← e1] at hg
      generalize (ftoks d1.kids).getD i Tok.cl = tok1 at hg ⊢
      generalize (ftoks doc.kids).getD i Tok.cl = tok at hg ⊢
      generalize (S.nodeType ((ctxOf (S.tyOf doc) (ftoks doc.kids)).getD i 0)).allowsMarkType m.ty = al at hg ⊢
      have hcons : adCovers (r :: as) i = (decide (r.1 ≤ i) && decide (i < r.2) || adCovers as i) := by
        simp [adCovers]
      rw [hcons]
      by_cases hq : isAtomTok S tok = true ∧ al = true
      · by_cases hc : r.1 ≤ i ∧ i < r.2
        · rw [if_pos ⟨hc.1, hc.2, hq.1, hq.2⟩] at hg
          have hne := isAtomTok_ne_cl S tok hq.1
          have ha1 : isAtomTok S tok1 = true := by
            rw [hg, isAtomTok_shape S _ tok (Tok.withMarks_shape _ _)]; exact hq.1
          subst hg
          simp only [hc.1, hc.2, decide_true, Bool.and_self, Bool.true_or, hq.1, hq.2, and_self,
            if_true, ha1]
          split
          · rw [Tok.withMarks_withMarks, Tok.withMarks_marks _ _ hne, addToSet_idem]
          · rfl
        · rw [if_neg (by intro h; exact hc ⟨h.1, h.2.1⟩)] at hg
          subst hg
          have : (decide (r.1 ≤ i) && decide (i < r.2)) = false := by
            simp only [Bool.and_eq_false_iff, decide_eq_false_iff_not]
            by_cases h1 : r.1 ≤ i
            · exact .inr (fun h2 => hc ⟨h1, h2⟩)
            · exact .inl h1
          rw [this, Bool.false_or]
      · have hg' : tok1 = tok := by
          rw [hg, if_neg (by intro h; exact hq ⟨h.2.2.1, h.2.2.2⟩)]
        subst hg'
        rw [if_neg (by intro h; exact hq ⟨h.2.1, h.2.2⟩), if_neg (by intro h; exact hq ⟨h.2.1, h.2.2⟩)]
    · simp at h

theorem applyAll_append (S : Schema) : ∀ (a b : List Step) (doc doc' : Node),
    S.applyAll (a ++ b) doc = .ok doc' → ∃ d1, S.applyAll a doc = .ok d1 ∧ S.applyAll b d1 = .ok doc'
  | [], b, doc, doc', h => ⟨doc, rfl, h⟩
  | s :: a, b, doc, doc', h => by
    simp only [List.cons_append, Schema.applyAll] at h ⊢
    split at h
    · rename_i d hd
      exact applyAll_append S a b d doc' h
    · simp at h

/-! ### 3b. the fold of `add_mark` -/

/-- some planned remove range for `x` contains token `i` -/
def CovR (R : List (Nat × Nat × Mark)) (x : Mark) (i : Nat) : Prop :=
  ∃ r ∈ R, r.2.2 = x ∧ r.1 ≤ i ∧ i < r.2.1

/-- some planned add range contains token `i` -/
def CovA (A : List (Nat × Nat)) (i : Nat) : Prop := ∃ r ∈ A, r.1 ≤ i ∧ i < r.2

/-- per-range facts kept while the node with range `[a, e)` is processed; `T y i` = "token `i` may
    lose `y`", `U y` = "`y` is a displaced mark of some processed node" -/
def GoodR (f t a : Nat) (T : Mark → Nat → Prop) (U : Mark → Prop) (r : Nat × Nat × Mark) : Prop :=
  f ≤ r.1 ∧ r.2.1 ≤ t ∧ r.1 ≤ a ∧ U r.2.2 ∧ ∀ i, r.1 ≤ i → i < r.2.1 → T r.2.2 i

theorem addMarkDisplace_spec (f t a e : Nat) (T : Mark → Nat → Prop) (U : Mark → Prop) (newSet : Marks)
    (R : List (Nat × Nat × Mark)) (x : Mark) (hfa : f ≤ a) (het : e ≤ t)
    (hR : ∀ r ∈ R, GoodR f t a T U r)
    (hx : x.isInSet newSet = false → U x ∧ ∀ i, a ≤ i → i < e → T x i) :
    (∀ r ∈ addMarkDisplace newSet a e R x, GoodR f t a T U r) ∧
    (∀ x' i, CovR R x' i → i < e → CovR (addMarkDisplace newSet a e R x) x' i) ∧
    (x.isInSet newSet = false → ∀ i, a ≤ i → i < e → CovR (addMarkDisplace newSet a e R x) x i) := by
  unfold addMarkDisplace
  by_cases hin : x.isInSet newSet = true
  · rw [if_pos hin]
    exact ⟨hR, fun _ _ h _ => h, fun h => by rw [hin] at h; cases h⟩
  · rw [if_neg hin]
    have hin' : x.isInSet newSet = false := by simpa using hin
    obtain ⟨hU, hT⟩ := hx hin'
    have hnew : GoodR f t a T U (a, e, x) := ⟨hfa, het, Nat.le_refl _, hU, hT⟩
    cases R with
    | nil =>
      refine ⟨?_, ?_, ?_⟩
      · intro r hr; simp only [List.mem_singleton] at hr; subst hr; exact hnew
      · rintro x' i ⟨r, hr, _⟩; simp at hr
      · intro _ i h1 h2; exact ⟨(a, e, x), by simp, rfl, h1, h2⟩
    | cons r0 rest =>
      obtain ⟨a0, b0, y0⟩ := r0
      simp only
      by_cases hc : (b0 == a && y0 == x) = true
      · rw [if_pos hc]
        simp only [Bool.and_eq_true, beq_iff_eq] at hc
        obtain ⟨rfl, rfl⟩ := hc
        have h0 := hR (a0, b0, y0) (List.mem_cons_self ..)
        refine ⟨?_, ?_, ?_⟩
        · intro r hr
          rcases List.mem_cons.mp hr with rfl | hr
          · refine ⟨h0.1, het, h0.2.2.1, h0.2.2.2.1, ?_⟩
            intro i h1 h2
            by_cases hi : i < b0
            · exact h0.2.2.2.2 i h1 hi
            · exact hT i (by omega) h2
          · exact hR r (List.mem_cons_of_mem _ hr)
        · rintro x' i ⟨r, hr, h1, h2, h3⟩ hi
          rcases List.mem_cons.mp hr with rfl | hr
          · exact ⟨(a0, e, y0), List.mem_cons_self .., h1, h2, hi⟩
          · exact ⟨r, List.mem_cons_of_mem _ hr, h1, h2, h3⟩
        · intro _ i h1 h2
          exact ⟨(a0, e, y0), List.mem_cons_self .., rfl, Nat.le_trans h0.2.2.1 h1, h2⟩
      · rw [if_neg hc]
        refine ⟨?_, ?_, ?_⟩
        · intro r hr
          rcases List.mem_cons.mp hr with rfl | hr
          · exact hnew
          · exact hR r hr
        · rintro x' i ⟨r, hr, h1, h2, h3⟩ _
          exact ⟨r, List.mem_cons_of_mem _ hr, h1, h2, h3⟩
        · intro _ i h1 h2
          exact ⟨(a, e, x), List.mem_cons_self .., rfl, h1, h2⟩

theorem addMarkDisplace_fold (f t a e : Nat) (T : Mark → Nat → Prop) (U : Mark → Prop) (newSet : Marks)
    (hfa : f ≤ a) (het : e ≤ t) :
    ∀ (ms : Marks) (R : List (Nat × Nat × Mark)), (∀ r ∈ R, GoodR f t a T U r) →
    (∀ x ∈ ms, x.isInSet newSet = false → U x ∧ ∀ i, a ≤ i → i < e → T x i) →
    (∀ r ∈ ms.foldl (addMarkDisplace newSet a e) R, GoodR f t a T U r) ∧
    (∀ x' i, CovR R x' i → i < e → CovR (ms.foldl (addMarkDisplace newSet a e) R) x' i) ∧
    (∀ x ∈ ms, x.isInSet newSet = false → ∀ i, a ≤ i → i < e →
      CovR (ms.foldl (addMarkDisplace newSet a e) R) x i)
  | [], R, hR, _ => ⟨hR, fun _ _ h _ => h, fun _ hx => by simp at hx⟩
  | x :: ms, R, hR, hms => by
    obtain ⟨s1, s2, s3⟩ := addMarkDisplace_spec f t a e T U newSet R x hfa het hR
      (hms x (List.mem_cons_self ..))
    obtain ⟨r1, r2, r3⟩ := addMarkDisplace_fold f t a e T U newSet hfa het ms _ s1
      (fun y hy => hms y (List.mem_cons_of_mem _ hy))
    simp only [List.foldl_cons]
    refine ⟨r1, fun x' i h hi => r2 x' i (s2 x' i h hi) hi, ?_⟩
    intro y hy hd i h1 h2
    rcases List.mem_cons.mp hy with rfl | hy
    · exact r2 _ i (s3 hd i h1 h2) h2
    · exact r3 y hy hd i h1 h2

def GoodA (f t a : Nat) (T : Nat → Prop) (r : Nat × Nat) : Prop :=
  f ≤ r.1 ∧ r.2 ≤ t ∧ r.1 ≤ a ∧ ∀ i, r.1 ≤ i → i < r.2 → T i

theorem addMarkExtend_spec (f t a e : Nat) (T : Nat → Prop) (A : List (Nat × Nat)) (hfa : f ≤ a) (het : e ≤ t)
    (hA : ∀ r ∈ A, GoodA f t a T r) (hT : ∀ i, a ≤ i → i < e → T i) :
    (∀ r ∈ addMarkExtend a e A, GoodA f t a T r) ∧
    (∀ i, CovA A i → i < e → CovA (addMarkExtend a e A) i) ∧
    (∀ i, a ≤ i → i < e → CovA (addMarkExtend a e A) i) := by
  have hnew : GoodA f t a T (a, e) := ⟨hfa, het, Nat.le_refl _, hT⟩
  cases A with
  | nil =>
    simp only [addMarkExtend]
    refine ⟨?_, ?_, ?_⟩
    · intro r hr; simp only [List.mem_singleton] at hr; subst hr; exact hnew
    · rintro i ⟨r, hr, _⟩; simp at hr
    · intro i h1 h2; exact ⟨(a, e), by simp, h1, h2⟩
  | cons r0 rest =>
    obtain ⟨a0, b0⟩ := r0
    simp only [addMarkExtend]
    by_cases hc : (b0 == a) = true
    · rw [if_pos hc]
      simp only [beq_iff_eq] at hc
      subst hc
      have h0 := hA (a0, b0) (List.mem_cons_self ..)
      refine ⟨?_, ?_, ?_⟩
      · intro r hr
        rcases List.mem_cons.mp hr with rfl | hr
        · refine ⟨h0.1, het, h0.2.2.1, ?_⟩
          intro i h1 h2
          by_cases hi : i < b0
          · exact h0.2.2.2 i h1 hi
          · exact hT i (by omega) h2
        · exact hA r (List.mem_cons_of_mem _ hr)
      · rintro i ⟨r, hr, h2, h3⟩ hi
        rcases List.mem_cons.mp hr with rfl | hr
        · exact ⟨(a0, e), List.mem_cons_self .., h2, hi⟩
        · exact ⟨r, List.mem_cons_of_mem _ hr, h2, h3⟩
      · intro i h1 h2
        exact ⟨(a0, e), List.mem_cons_self .., Nat.le_trans h0.2.2.1 h1, h2⟩
    · rw [if_neg hc]
      refine ⟨?_, ?_, ?_⟩
      · intro r hr
        rcases List.mem_cons.mp hr with rfl | hr
        · exact hnew
        · exact hA r hr
      · rintro i ⟨r, hr, h2, h3⟩ _
        exact ⟨r, List.mem_cons_of_mem _ hr, h2, h3⟩
      · intro i h1 h2
        exact ⟨(a, e), List.mem_cons_self .., h1, h2⟩

/-- the callback of `add_mark` acts on this visit -/
def Proc (S : Schema) (m : Mark) (v : NV) : Prop :=
  S.nodeInline v.node = true ∧ m.isInSet v.node.marks = false ∧ (S.nodeType v.pTy).allowsMarkType m.ty = true

/-- `x` is a mark of the visited node that adding `m` displaces -/
def Disp (S : Schema) (m x : Mark) (v : NV) : Prop :=
  x ∈ v.node.marks ∧ x.isInSet (m.addToSet S v.node.marks) = false

/-- `[start, end)` of a visit -/
def InRange (f t : Nat) (v : NV) (i : Nat) : Prop := max v.pos f ≤ i ∧ i < min (v.pos + v.node.size) t

/-- the invariant of the `add_mark` walk after the visits `P` -/
structure AddPlanInv (S : Schema) (f t : Nat) (m : Mark) (P : List NV) (st : AddSt) : Prop where
  rgood : ∀ r ∈ st.removed, f ≤ r.1 ∧ r.2.1 ≤ t ∧ (∃ w ∈ P, r.1 ≤ max w.pos f) ∧
    (∃ w ∈ P, Proc S m w ∧ Disp S m r.2.2 w) ∧
    ∀ i, r.1 ≤ i → i < r.2.1 → ∃ w ∈ P, Proc S m w ∧ Disp S m r.2.2 w ∧ InRange f t w i
  agood : ∀ r ∈ st.added, f ≤ r.1 ∧ r.2 ≤ t ∧ (∃ w ∈ P, r.1 ≤ max w.pos f) ∧
    ∀ i, r.1 ≤ i → i < r.2 → ∃ w ∈ P, Proc S m w ∧ InRange f t w i
  rcov : ∀ v ∈ P, Proc S m v → ∀ x, Disp S m x v →
    ∀ i, max v.pos f ≤ i → i < min (v.pos + v.node.ownLen) t → CovR st.removed x i
  acov : ∀ v ∈ P, Proc S m v →
    ∀ i, max v.pos f ≤ i → i < min (v.pos + v.node.ownLen) t → CovA st.added i

theorem AddPlanInv.weaken (S : Schema) (f t : Nat) (m : Mark) (P : List NV) (st : AddSt) (v : NV)
    (hI : AddPlanInv S f t m P st) (hv : ¬ Proc S m v) : AddPlanInv S f t m (P ++ [v]) st := by
  constructor
  · intro r hr
    obtain ⟨g1, g2, ⟨w, hw, g3⟩, ⟨w', hw', g4⟩, g5⟩ := hI.rgood r hr
    refine ⟨g1, g2, ⟨w, List.mem_append_left _ hw, g3⟩, ⟨w', List.mem_append_left _ hw', g4⟩, ?_⟩
    intro i h1 h2
    obtain ⟨w2, hw2, g6⟩ := g5 i h1 h2
    exact ⟨w2, List.mem_append_left _ hw2, g6⟩
  · intro r hr
    obtain ⟨g1, g2, ⟨w, hw, g3⟩, g5⟩ := hI.agood r hr
    refine ⟨g1, g2, ⟨w, List.mem_append_left _ hw, g3⟩, ?_⟩
    intro i h1 h2
    obtain ⟨w2, hw2, g6⟩ := g5 i h1 h2
    exact ⟨w2, List.mem_append_left _ hw2, g6⟩
  · intro v' hv' hp x hx i h1 h2
    rcases List.mem_append.mp hv' with hv' | hv'
    · exact hI.rcov v' hv' hp x hx i h1 h2
    · simp only [List.mem_singleton] at hv'; subst hv'; exact absurd hp hv
  · intro v' hv' hp i h1 h2
    rcases List.mem_append.mp hv' with hv' | hv'
    · exact hI.acov v' hv' hp i h1 h2
    · simp only [List.mem_singleton] at hv'; subst hv'; exact absurd hp hv

theorem addMarkVisit_inv (S : Schema) (f t : Nat) (m : Mark) (P : List NV) (st : AddSt) (v : NV)
    (hI : AddPlanInv S f t m P st) (hord : ∀ w ∈ P, w.pos + w.node.ownLen ≤ v.pos) :
    AddPlanInv S f t m (P ++ [v]) (addMarkVisit S f t m st v) := by
  unfold addMarkVisit
  by_cases hin : S.nodeInline v.node = true
  · simp only [hin, Bool.not_true, Bool.false_eq_true, if_false]
    by_cases hc : (!m.isInSet v.node.marks && (S.nodeType v.pTy).allowsMarkType m.ty) = true
    · rw [if_pos hc]
      simp only [Bool.and_eq_true, Bool.not_eq_eq_eq_not, Bool.not_true] at hc
      have hproc : Proc S m v := ⟨hin, hc.1, hc.2⟩
      have hvm : v ∈ P ++ [v] := by simp
      have hle := Node.ownLen_le_size v.node
      -- the removed list
      have hR : ∀ r ∈ st.removed, GoodR f t (max v.pos f)
          (fun y i => ∃ w ∈ P ++ [v], Proc S m w ∧ Disp S m y w ∧ InRange f t w i)
          (fun y => ∃ w ∈ P ++ [v], Proc S m w ∧ Disp S m y w) r := by
        intro r hr
        obtain ⟨g1, g2, ⟨w, hw, g3⟩, ⟨w', hw', g4⟩, g5⟩ := hI.rgood r hr
        have := hord w hw
        refine ⟨g1, g2, by omega, ⟨w', List.mem_append_left _ hw', g4⟩, ?_⟩
        intro i h1 h2
        obtain ⟨w2, hw2, g6⟩ := g5 i h1 h2
        exact ⟨w2, List.mem_append_left _ hw2, g6⟩
      obtain ⟨r1, r2, r3⟩ := addMarkDisplace_fold f t (max v.pos f) (min (v.pos + v.node.size) t) _ _
        (m.addToSet S v.node.marks) (Nat.le_max_right _ _) (Nat.min_le_right _ _) v.node.marks st.removed hR
        (fun x hx hd => ⟨⟨v, hvm, hproc, hx, hd⟩, fun i h1 h2 => ⟨v, hvm, hproc, ⟨hx, hd⟩, h1, h2⟩⟩)
      -- the added list
      have hA : ∀ r ∈ st.added, GoodA f t (max v.pos f)
          (fun i => ∃ w ∈ P ++ [v], Proc S m w ∧ InRange f t w i) r := by
        intro r hr
        obtain ⟨g1, g2, ⟨w, hw, g3⟩, g5⟩ := hI.agood r hr
        have := hord w hw
        refine ⟨g1, g2, by omega, ?_⟩
        intro i h1 h2
        obtain ⟨w2, hw2, g6⟩ := g5 i h1 h2
        exact ⟨w2, List.mem_append_left _ hw2, g6⟩
      obtain ⟨a1, a2, a3⟩ := addMarkExtend_spec f t (max v.pos f) (min (v.pos + v.node.size) t) _ st.added
        (Nat.le_max_right _ _) (Nat.min_le_right _ _) hA (fun i h1 h2 => ⟨v, hvm, hproc, h1, h2⟩)
      constructor
      · intro r hr
        obtain ⟨g1, g2, g3, g4, g5⟩ := r1 r hr
        exact ⟨g1, g2, ⟨v, hvm, g3⟩, g4, g5⟩
      · intro r hr
        obtain ⟨g1, g2, g3, g5⟩ := a1 r hr
        exact ⟨g1, g2, ⟨v, hvm, g3⟩, g5⟩
      · intro v' hv' hp x hx i h1 h2
        rcases List.mem_append.mp hv' with hv' | hv'
        · have := hord v' hv'
          exact r2 x i (hI.rcov v' hv' hp x hx i h1 h2) (by omega)
        · simp only [List.mem_singleton] at hv'
          subst hv'
          exact r3 x hx.1 hx.2 i h1 (by omega)
      · intro v' hv' hp i h1 h2
        rcases List.mem_append.mp hv' with hv' | hv'
        · have := hord v' hv'
          exact a2 i (hI.acov v' hv' hp i h1 h2) (by omega)
        · simp only [List.mem_singleton] at hv'
          subst hv'
          exact a3 i h1 (by omega)
    · rw [if_neg hc]
      apply hI.weaken
      rintro ⟨_, h2, h3⟩
      exact hc (by simp [h2, h3])
  · simp only [hin, Bool.not_false, if_true]
    apply hI.weaken
    rintro ⟨h1, _⟩
    exact hin h1

theorem addMarkVisit_fold (S : Schema) (f t : Nat) (m : Mark) :
    ∀ (rest P : List NV) (st : AddSt), AddPlanInv S f t m P st →
    (P ++ rest).Pairwise (fun v w => v.pos + v.node.ownLen ≤ w.pos) →
    AddPlanInv S f t m (P ++ rest) (rest.foldl (addMarkVisit S f t m) st)
  | [], P, st, hI, _ => by simpa using hI
  | v :: rest, P, st, hI, hpw => by
    have hpw' : ((P ++ [v]) ++ rest).Pairwise (fun v w => v.pos + v.node.ownLen ≤ w.pos) := by
      simpa using hpw
    have hord : ∀ w ∈ P, w.pos + w.node.ownLen ≤ v.pos := by
      intro w hw
      exact (List.pairwise_append.mp hpw).2.2 w hw v (List.mem_cons_self ..)
    have := addMarkVisit_fold S f t m rest (P ++ [v]) (addMarkVisit S f t m st v)
      (addMarkVisit_inv S f t m P st v hI hord) hpw'
    simpa using this

theorem map_shape_of_getD (l l' : List Tok) (hlen : l'.length = l.length)
    (h : ∀ i, i < l.length → (l'.getD i Tok.cl).shape = (l.getD i Tok.cl).shape) :
    l'.map Tok.shape = l.map Tok.shape := by
  apply List.ext_getElem
  · simp [hlen]
  · intro i h1 h2
    simp only [List.length_map] at h1 h2
    have := h i h2
    simp only [List.getD_eq_getElem?_getD, List.getElem?_eq_getElem h1, List.getElem?_eq_getElem h2,
      Option.getD_some] at this
    simpa using this

theorem rmCovers_reverse (R : List (Nat × Nat × Mark)) (i : Nat) (x : Mark) :
    rmCovers R.reverse i x = rmCovers R i x := by
  simp [rmCovers, List.any_reverse]

theorem adCovers_reverse (A : List (Nat × Nat)) (i : Nat) : adCovers A.reverse i = adCovers A i := by
  simp [adCovers, List.any_reverse]

theorem rmCovers_iff (R : List (Nat × Nat × Mark)) (i : Nat) (x : Mark) : rmCovers R i x = true ↔ CovR R x i := by
  simp only [rmCovers, List.any_eq_true, Bool.and_eq_true, decide_eq_true_eq, beq_iff_eq, CovR]
  constructor
  · rintro ⟨r, hr, ⟨h1, h2⟩, h3⟩; exact ⟨r, hr, h3.symm, h1, h2⟩
  · rintro ⟨r, hr, h3, h1, h2⟩; exact ⟨r, hr, ⟨h1, h2⟩, h3.symm⟩

theorem adCovers_iff (A : List (Nat × Nat)) (i : Nat) : adCovers A i = true ↔ CovA A i := by
  simp [adCovers, List.any_eq_true, CovA]

/-- **the steps `add_mark` plans, applied in order, at token level**: first the planned removals
    strike marks from inline tokens, then the inline atoms in the planned add ranges whose enclosing
    node allows the mark type get `addToSet`; together with the invariant of the walk -/
theorem planAddMarkSteps_toks (S : Schema) (doc doc' : Node) (f t : Nat) (m : Mark)
    (h : S.applyAll (planAddMarkSteps S doc f t m) doc = .ok doc') :
    ∃ st : AddSt, AddPlanInv S f t m (S.docVisits doc f t) st ∧
    S.tyOf doc' = S.tyOf doc ∧ (ftoks doc'.kids).length = (ftoks doc.kids).length ∧
    ∀ i, i < (ftoks doc.kids).length →
      (ftoks doc'.kids).getD i Tok.cl =
        if adCovers st.added i = true ∧ isAtomTok S ((ftoks doc.kids).getD i Tok.cl) = true ∧
            (S.nodeType ((ctxOf (S.tyOf doc) (ftoks doc.kids)).getD i 0)).allowsMarkType m.ty = true
        then (rmTok S (fun x => !rmCovers st.removed i x) ((ftoks doc.kids).getD i Tok.cl)).withMarks
          (m.addToSet S (rmTok S (fun x => !rmCovers st.removed i x) ((ftoks doc.kids).getD i Tok.cl)).marks)
        else rmTok S (fun x => !rmCovers st.removed i x) ((ftoks doc.kids).getD i Tok.cl) := by
  unfold planAddMarkSteps AddSt.steps at h
  generalize hst : (S.docVisits doc f t).foldl (addMarkVisit S f t m) {} = st at h
  have hI : AddPlanInv S f t m (S.docVisits doc f t) st := by
    have := addMarkVisit_fold S f t m (S.docVisits doc f t) [] {}
      ⟨by simp, by simp, by simp, by simp⟩
      (by simpa [Schema.docVisits] using (nodesBetweenP_order doc.kids (S.tyOf doc) f t 0 0).2)
    rw [hst] at this
    simpa using this
  obtain ⟨d1, hr, ha⟩ := applyAll_append S _ _ doc doc' h
  obtain ⟨ty1, len1, p1⟩ := applyAll_removeMarks S _ doc d1 hr
  obtain ⟨ty2, len2, p2⟩ := applyAll_addMarks S m _ d1 doc' ha
  have hshape : (ftoks d1.kids).map Tok.shape = (ftoks doc.kids).map Tok.shape :=
    map_shape_of_getD _ _ len1 (fun i hi => by rw [p1 i hi]; exact rmTok_shape S _ _)
  have hctx : ctxOf (S.tyOf d1) (ftoks d1.kids) = ctxOf (S.tyOf doc) (ftoks doc.kids) := by
    rw [ty1]; exact ctxAux_shape _ _ _ hshape
  refine ⟨st, hI, by rw [ty2, ty1], by rw [len2, len1], fun i hi => ?_⟩
  rw [p2 i (by omega), hctx, p1 i hi, adCovers_reverse]
  have hat : isAtomTok S (rmTok S (fun x => !rmCovers st.removed.reverse i x) ((ftoks doc.kids).getD i Tok.cl)) =
      isAtomTok S ((ftoks doc.kids).getD i Tok.cl) := isAtomTok_shape S _ _ (rmTok_shape S _ _)
  rw [hat]
  simp only [rmCovers_reverse]

theorem rmTok_mem (S : Schema) (P : Mark → Bool) (tok : Tok) (x : Mark) :
    x ∈ (rmTok S P tok).marks ↔ x ∈ tok.marks ∧ (isInlineTok S tok = true → P x = true) := by
  unfold rmTok
  by_cases hin : isInlineTok S tok = true
  · rw [if_pos hin, Tok.withMarks_marks _ _ (isInlineTok_ne_cl S tok hin), List.mem_filter]
    exact ⟨fun h => ⟨h.1, fun _ => h.2⟩, fun h => ⟨h.1, h.2 hin⟩⟩
  · rw [if_neg hin]
    exact ⟨fun h => ⟨h, fun h' => absurd h' hin⟩, fun h => h.1⟩

theorem mem_addToSet_ne (S : Schema) (m : Mark) (s : Marks) (x : Mark) (hx : x ≠ m) :
    (x ∈ m.addToSet S s → x ∈ s) ∧ (x ∈ s → S.excludes m.ty x.ty = false → x ∈ m.addToSet S s) := by
  rw [addToSet_eq]
  split
  · exact ⟨id, fun h _ => h⟩
  · simp only [mem_insertByRank, List.mem_filter, Bool.not_eq_eq_eq_not, Bool.not_true]
    exact ⟨fun h => (h.resolve_left hx).1, fun h1 h2 => .inr ⟨h1, h2⟩⟩

theorem addToSet_carries (S : Schema) (m : Mark) (s : Marks) :
    m ∈ m.addToSet S s ∨ ∃ o ∈ s, S.excludes o.ty m.ty = true ∧ S.excludes m.ty o.ty = false := by
  rw [addToSet_eq]
  split
  · rename_i hc
    rcases Bool.or_eq_true _ _ |>.mp hc with h1 | h2
    · left
      obtain ⟨o, ho, he⟩ := List.any_eq_true.mp h1
      have : o = m := by simpa using he
      exact this ▸ ho
    · right
      obtain ⟨o, ho, he⟩ := List.any_eq_true.mp h2
      simp only [Bool.and_eq_true, Bool.not_eq_eq_eq_not, Bool.not_true] at he
      exact ⟨o, ho, he.2, he.1⟩
  · left
    exact (mem_insertByRank m m _).mpr (.inl rfl)

/-- a displaced mark is a different mark that the new mark excludes -/
theorem disp_excl (S : Schema) (m x : Mark) (w : NV) (hp : Proc S m w) (hd : Disp S m x w) :
    x ≠ m ∧ S.excludes m.ty x.ty = true := by
  obtain ⟨_, hm, _⟩ := hp
  obtain ⟨hx, hn⟩ := hd
  have hm' : m ∉ w.node.marks := by
    intro h; rw [(isInSet_iff m _).mpr h] at hm; cases hm
  have hne : x ≠ m := fun e => hm' (e ▸ hx)
  refine ⟨hne, ?_⟩
  have hn' : x ∉ m.addToSet S w.node.marks := by
    intro h; rw [(isInSet_iff x _).mpr h] at hn; cases hn
  cases he : S.excludes m.ty x.ty with
  | true => rfl
  | false => exact absurd ((mem_addToSet_ne S m _ x hne).2 hx he) hn'

/-- **`add_mark`, general form** (any document, also with marked inline nodes that have content):
    token-level effect of the planned steps -/
theorem planAddMarkSteps_effect (S : Schema) (doc doc' : Node) (f t : Nat) (m : Mark)
    (h : S.applyAll (planAddMarkSteps S doc f t m) doc = .ok doc') :
    (ftoks doc'.kids).length = (ftoks doc.kids).length ∧
    ∀ i, i < (ftoks doc.kids).length →
      ((ftoks doc'.kids).getD i Tok.cl).shape = ((ftoks doc.kids).getD i Tok.cl).shape ∧
      ((f ≤ i ∧ i < t ∧ isAtomTok S ((ftoks doc.kids).getD i Tok.cl) = true ∧
          (S.nodeType ((ctxOf (S.tyOf doc) (ftoks doc.kids)).getD i 0)).allowsMarkType m.ty = true) →
        m ∈ ((ftoks doc'.kids).getD i Tok.cl).marks ∨
        ∃ o ∈ ((ftoks doc.kids).getD i Tok.cl).marks, S.excludes o.ty m.ty = true ∧ S.excludes m.ty o.ty = false) ∧
      (m ∈ ((ftoks doc'.kids).getD i Tok.cl).marks → m ∈ ((ftoks doc.kids).getD i Tok.cl).marks ∨
        (f ≤ i ∧ i < t ∧ isAtomTok S ((ftoks doc.kids).getD i Tok.cl) = true ∧
          (S.nodeType ((ctxOf (S.tyOf doc) (ftoks doc.kids)).getD i 0)).allowsMarkType m.ty = true)) ∧
      (∀ x, x ≠ m →
        (x ∈ ((ftoks doc'.kids).getD i Tok.cl).marks → x ∈ ((ftoks doc.kids).getD i Tok.cl).marks) ∧
        (x ∈ ((ftoks doc.kids).getD i Tok.cl).marks → S.excludes m.ty x.ty = false →
          x ∈ ((ftoks doc'.kids).getD i Tok.cl).marks)) ∧
      (¬ (f ≤ i ∧ i < t) → (ftoks doc'.kids).getD i Tok.cl = (ftoks doc.kids).getD i Tok.cl) := by
  obtain ⟨st, hI, _, hlen, hp⟩ := planAddMarkSteps_toks S doc doc' f t m h
  refine ⟨hlen, fun i hi => ?_⟩
  rw [hp i hi]
  generalize htok : (ftoks doc.kids).getD i Tok.cl = tok
  -- facts about the planned ranges at `i`
  have hrm : ∀ x, rmCovers st.removed i x = true → x ≠ m ∧ S.excludes m.ty x.ty = true ∧ f ≤ i ∧ i < t := by
    intro x hx
    obtain ⟨r, hr, rfl, h1, h2⟩ := (rmCovers_iff _ _ _).mp hx
    obtain ⟨g1, g2, _, ⟨w, _, hpw, hdw⟩, _⟩ := hI.rgood r hr
    obtain ⟨e1, e2⟩ := disp_excl S m _ w hpw hdw
    exact ⟨e1, e2, by omega, by omega⟩
  have had : adCovers st.added i = true → f ≤ i ∧ i < t := by
    intro hx
    obtain ⟨r, hr, h1, h2⟩ := (adCovers_iff _ _).mp hx
    obtain ⟨g1, g2, _⟩ := hI.agood r hr
    exact ⟨by omega, by omega⟩
  generalize hP : (fun x => !rmCovers st.removed i x) = P
  have hPm : P m = true := by
    subst hP
    cases hc : rmCovers st.removed i m with
    | false => simp [hc]
    | true => exact absurd rfl (hrm m hc).1
  have hPx : ∀ x, S.excludes m.ty x.ty = false → P x = true := by
    intro x hx
    subst hP
    cases hc : rmCovers st.removed i x with
    | false => simp [hc]
    | true => rw [(hrm x hc).2.1] at hx; cases hx
  have hsub : ∀ x, x ∈ (rmTok S P tok).marks → x ∈ tok.marks := fun x hx => ((rmTok_mem S P tok x).mp hx).1
  by_cases hq : adCovers st.added i = true ∧ isAtomTok S tok = true ∧
      (S.nodeType ((ctxOf (S.tyOf doc) (ftoks doc.kids)).getD i 0)).allowsMarkType m.ty = true
  · rw [if_pos hq]
    have hne : rmTok S P tok ≠ Tok.cl := by
      intro e
      have := isAtomTok_shape S _ tok (rmTok_shape S P tok)
      rw [e, hq.2.1] at this
      simp [isAtomTok] at this
    rw [Tok.withMarks_marks _ _ hne]
    refine ⟨by rw [Tok.withMarks_shape]; exact rmTok_shape S P tok, fun _ => ?_, fun _ => ?_, fun x hx => ?_, fun hr => ?_⟩
    · rcases addToSet_carries S m (rmTok S P tok).marks with h1 | ⟨o, ho, h2⟩
      · exact .inl h1
      · exact .inr ⟨o, hsub o ho, h2⟩
    · exact .inr ⟨(had hq.1).1, (had hq.1).2, hq.2.1, hq.2.2⟩
    · obtain ⟨a1, a2⟩ := mem_addToSet_ne S m (rmTok S P tok).marks x hx
      exact ⟨fun h => hsub x (a1 h), fun h1 h2 => a2 ((rmTok_mem S P tok x).mpr ⟨h1, fun _ => hPx x h2⟩) h2⟩
    · exact absurd (had hq.1) hr
  · rw [if_neg hq]
    refine ⟨rmTok_shape S P tok, fun hc => ?_, fun hm => .inl (hsub m hm), fun x _ => ?_, fun hr => ?_⟩
    · -- a qualifying token that no add range covers already carries the mark
      have hcl : tok ≠ Tok.cl := isAtomTok_ne_cl S tok hc.2.2.1
      have hget : (ftoks doc.kids)[i]? = some tok := by
        rw [← htok, List.getD_eq_getElem?_getD, List.getElem?_eq_getElem hi]; rfl
      obtain ⟨v, hv, h1, h2, h3, h4, h5, _⟩ := nodesBetweenP_cover S doc.kids (S.tyOf doc) [] f t 0 0 i tok
        hc.1 hc.2.1 hget hcl
      have hctx : (ctxOf (S.tyOf doc) (ftoks doc.kids)).getD i 0 = v.pTy := by
        rw [List.getD_eq_getElem?_getD]; unfold ctxOf; rw [h5]; rfl
      by_cases hm : m ∈ tok.marks
      · exact .inl ((rmTok_mem S P tok m).mpr ⟨hm, fun _ => hPm⟩)
      · exfalso
        apply hq
        refine ⟨(adCovers_iff _ _).mpr (hI.acov v hv ⟨?_, ?_, ?_⟩ i (by omega) (by omega)), hc.2.2.1, hc.2.2.2⟩
        · rw [← h4]; exact isAtomTok_inline S tok hc.2.2.1
        · cases hs : m.isInSet v.node.marks with
          | false => rfl
          | true => rw [← h3] at hs; exact absurd ((isInSet_iff m _).mp hs) hm
        · rw [← hctx]; exact hc.2.2.2
    · exact ⟨hsub x, fun h1 h2 => (rmTok_mem S P tok x).mpr ⟨h1, fun _ => hPx x h2⟩⟩
    · have : rmTok S P tok = rmTok S (fun _ => true) tok := by
        apply rmTok_congr
        intro x _
        subst hP
        cases hc : rmCovers st.removed i x with
        | false => simp [hc]
        | true => exact absurd ⟨(hrm x hc).2.2.1, (hrm x hc).2.2.2⟩ hr
      rw [this, rmTok_true]

/-! ### exactness of `add_mark` when no inline node with content is involved -/

theorem pairwise_trichotomy {α} (R : α → α → Prop) : ∀ (l : List α), l.Pairwise R → ∀ a ∈ l, ∀ b ∈ l,
    a = b ∨ R a b ∨ R b a
  | [], _, a, ha, _, _ => by simp at ha
  | x :: xs, hp, a, ha, b, hb => by
    obtain ⟨h1, h2⟩ := List.pairwise_cons.mp hp
    rcases List.mem_cons.mp ha with ea | ha'
    · rcases List.mem_cons.mp hb with eb | hb'
      · exact .inl (ea.trans eb.symm)
      · exact .inr (.inl (ea ▸ h1 b hb'))
    · rcases List.mem_cons.mp hb with eb | hb'
      · exact .inr (.inr (eb ▸ h1 a ha'))
      · exact pairwise_trichotomy R xs h2 a ha' b hb'

theorem Node.ownLen_of_isLeaf : ∀ n : Node, n.isLeaf = true → n.ownLen = n.size
  | .text .., _ => rfl
  | .leaf .., _ => rfl
  | .elem .., h => by simp [Node.isLeaf] at h

theorem addToSet_filter (S : Schema) (m : Mark) (s : Marks) (hm : m ∉ s) :
    m.addToSet S (s.filter (fun x => x.isInSet (m.addToSet S s))) = m.addToSet S s := by
  rw [addToSet_eq S m s]
  split
  · rename_i hc
    have : s.filter (fun x => x.isInSet s) = s :=
      List.filter_eq_self.mpr (fun x hx => (isInSet_iff x s).mpr hx)
    rw [this, addToSet_eq, if_pos hc]
  · rename_i hc
    have hf : s.filter (fun x => x.isInSet (insertByRank m (s.filter (fun o => !S.excludes m.ty o.ty)))) =
        s.filter (fun o => !S.excludes m.ty o.ty) := by
      apply List.filter_congr
      intro x hx
      have hne : x ≠ m := fun e => hm (e ▸ hx)
      cases he : S.excludes m.ty x.ty with
      | true =>
        simp only [Bool.not_true]
        rw [← Bool.not_eq_true, isInSet_iff, mem_insertByRank, List.mem_filter]
        simp [hne, he]
      | false =>
        simp only [Bool.not_false]
        rw [isInSet_iff, mem_insertByRank, List.mem_filter]
        exact .inr ⟨hx, by simp [he]⟩
    rw [hf, addToSet_eq, if_neg, List.filter_filter]
    · congr 1
      apply List.filter_congr
      intro x _
      simp
    · intro hc'
      apply hc
      rcases Bool.or_eq_true _ _ |>.mp hc' with h1 | h2
      · obtain ⟨o, ho, he⟩ := List.any_eq_true.mp h1
        exact Bool.or_eq_true _ _ |>.mpr (.inl (List.any_eq_true.mpr ⟨o, (List.mem_filter.mp ho).1, he⟩))
      · obtain ⟨o, ho, he⟩ := List.any_eq_true.mp h2
        exact Bool.or_eq_true _ _ |>.mpr (.inr (List.any_eq_true.mpr ⟨o, (List.mem_filter.mp ho).1, he⟩))

/-- **`add_mark`, exact form**: if every inline node the walk visits is a leaf or a text node (no
    inline node with content in the range), the planned steps together do exactly what the
    documented rule says — the same as one `AddMarkStep(f, t, m)` -/
theorem planAddMarkSteps_exact (S : Schema) (doc doc' : Node) (f t : Nat) (m : Mark)
    (hflat : ∀ v ∈ S.docVisits doc f t, S.nodeInline v.node = true → v.node.isLeaf = true)
    (h : S.applyAll (planAddMarkSteps S doc f t m) doc = .ok doc') :
    (ftoks doc'.kids).length = (ftoks doc.kids).length ∧
    ∀ i, i < (ftoks doc.kids).length →
      (ftoks doc'.kids).getD i Tok.cl =
        if f ≤ i ∧ i < t ∧ isAtomTok S ((ftoks doc.kids).getD i Tok.cl) = true ∧
            (S.nodeType ((ctxOf (S.tyOf doc) (ftoks doc.kids)).getD i 0)).allowsMarkType m.ty = true
        then ((ftoks doc.kids).getD i Tok.cl).withMarks (m.addToSet S ((ftoks doc.kids).getD i Tok.cl).marks)
        else (ftoks doc.kids).getD i Tok.cl := by
  obtain ⟨hlen, hgen⟩ := planAddMarkSteps_effect S doc doc' f t m h
  obtain ⟨st, hI, _, _, hp⟩ := planAddMarkSteps_toks S doc doc' f t m h
  refine ⟨hlen, fun i hi => ?_⟩
  by_cases hr' : ¬ (f ≤ i ∧ i < t)
  · rw [(hgen i hi).2.2.2.2 hr', if_neg (by intro hc; exact hr' ⟨hc.1, hc.2.1⟩)]
  have hr : f ≤ i ∧ i < t := Classical.not_not.mp hr'
  rw [hp i hi]
  generalize htok : (ftoks doc.kids).getD i Tok.cl = tok
  have hpw := (nodesBetweenP_order doc.kids (S.tyOf doc) f t 0 0).2
  by_cases hcl : tok = Tok.cl
  · subst hcl
    simp [isAtomTok, rmTok, isInlineTok]
  have hget : (ftoks doc.kids)[i]? = some tok := by
    rw [← htok, List.getD_eq_getElem?_getD, List.getElem?_eq_getElem hi]; rfl
  obtain ⟨v, hv, h1, h2, h3, h4, h5, h6⟩ := nodesBetweenP_cover S doc.kids (S.tyOf doc) [] f t 0 0 i tok
    hr.1 hr.2 hget hcl
  have hctx : (ctxOf (S.tyOf doc) (ftoks doc.kids)).getD i 0 = v.pTy := by
    rw [List.getD_eq_getElem?_getD]; unfold ctxOf; rw [h5]; rfl
  rw [hctx]
  -- a processed visit whose range contains `i` is the visit of `i`'s node
  have huniq : ∀ w ∈ S.docVisits doc f t, Proc S m w → InRange f t w i → w = v := by
    intro w hw hpw' hin
    have hwl := Node.ownLen_of_isLeaf w.node (hflat w hw hpw'.1)
    obtain ⟨i1, i2⟩ := hin
    rcases pairwise_trichotomy _ _ hpw w hw v hv with e | e | e
    · exact e
    · omega
    · omega
  by_cases hproc : Proc S m v
  · have hleaf := hflat v hv hproc.1
    have hinl : isInlineTok S tok = true := by rw [h4]; exact hproc.1
    have hatom : isAtomTok S tok = true := by rw [h6 hleaf]; exact hinl
    have hmn : m ∉ tok.marks := by
      intro hm; rw [h3] at hm
      have := hproc.2.1; rw [(isInSet_iff m _).mpr hm] at this; cases this
    have hcov : adCovers st.added i = true :=
      (adCovers_iff _ _).mpr (hI.acov v hv hproc i (by omega) (by omega))
    rw [if_pos ⟨hcov, hatom, hproc.2.2⟩, if_pos ⟨hr.1, hr.2, hatom, hproc.2.2⟩]
    have hrm : rmTok S (fun x => !rmCovers st.removed i x) tok =
        tok.withMarks (tok.marks.filter (fun x => x.isInSet (m.addToSet S tok.marks))) := by
      unfold rmTok
      rw [if_pos hinl]
      congr 1
      apply List.filter_congr
      intro x hx
      cases hd : x.isInSet (m.addToSet S tok.marks) with
      | true =>
        cases hc : rmCovers st.removed i x with
        | false => rfl
        | true =>
          exfalso
          obtain ⟨r, hr', rfl, c1, c2⟩ := (rmCovers_iff _ _ _).mp hc
          obtain ⟨w, hw, pw, dw, iw⟩ := (hI.rgood r hr').2.2.2.2 i c1 c2
          have := huniq w hw pw iw
          subst this
          have := dw.2
          rw [← h3, hd] at this
          cases this
      | false =>
        have : CovR st.removed x i := hI.rcov v hv hproc x ⟨by rw [← h3]; exact hx, by rw [← h3]; exact hd⟩ i
          (by omega) (by omega)
        rw [(rmCovers_iff _ _ _).mpr this]
        rfl
    rw [hrm, Tok.withMarks_withMarks, Tok.withMarks_marks _ _ hcl, addToSet_filter S m _ hmn]
  · -- nothing planned touches the token
    have hnr : ∀ x, rmCovers st.removed i x = false := by
      intro x
      rw [← Bool.not_eq_true, rmCovers_iff]
      rintro ⟨r, hr', rfl, c1, c2⟩
      obtain ⟨w, hw, pw, _, iw⟩ := (hI.rgood r hr').2.2.2.2 i c1 c2
      exact hproc (huniq w hw pw iw ▸ pw)
    have hna : adCovers st.added i = false := by
      rw [← Bool.not_eq_true, adCovers_iff]
      rintro ⟨r, hr', c1, c2⟩
      obtain ⟨w, hw, pw, iw⟩ := (hI.agood r hr').2.2.2 i c1 c2
      exact hproc (huniq w hw pw iw ▸ pw)
    rw [if_neg (by rw [hna]; simp)]
    have : rmTok S (fun x => !rmCovers st.removed i x) tok = tok := by
      simp only [hnr, Bool.not_false]; exact rmTok_true S tok
    rw [this]
    split
    · rename_i hq
      -- qualifying but not processed: the mark is already there
      have hm : m ∈ tok.marks := by
        rw [h3]
        cases hs : m.isInSet v.node.marks with
        | true => exact (isInSet_iff m _).mp hs
        | false =>
          exact absurd ⟨by rw [← h4]; exact isAtomTok_inline S tok hq.2.2.1, hs, hq.2.2.2⟩ hproc
      have : m.addToSet S tok.marks = tok.marks := by
        rw [addToSet_eq, if_pos]
        exact Bool.or_eq_true _ _ |>.mpr (.inl (List.any_eq_true.mpr ⟨m, hm, by simp⟩))
      rw [this, Tok.withMarks_self]
    · rfl

end PM
