/-
  Proofs/CommuteSuccess.lean — C17, *success* of the rebased steps for two replace steps with separated
  ranges when one of them happens entirely inside an element node `n` the other one does not touch:

  * a replace whose `outer` descends to a nested level is that level's own replace, put back in place
    (`Lvl.replaceKids_eq`);
  * a replace in a child list does not look into the complete children in front of its range: exchanging
    the content of the element child just before the scan position (same markup) changes nothing but
    the positions (`replaceKids_prefix`).
-/
import Proofs.Lvl
import Proofs.MarkSuccess
import Proofs.MarkupSuccess
import Proofs.UndoForward
import PM.CommuteGuard
namespace PM

/-! ### a replace inside a nested level -/

namespace Lvl
variable {ty tyP : TypeId} {K L : List Node} {b nd : Nat} {ctx : List Node → List Node}

/-- the level of an element child of a level -/
theorem into_aux (h : Lvl ty K b nd tyP L ctx) : ∀ (P : List Node) (tyN : TypeId) (aN : Attrs) (mN : Marks)
    (kN R : List Node), L = P ++ .elem tyN aN mN kN :: R → fnormKids P = true →
    Lvl ty K (b + (fsize P + 1)) (nd + 1) tyN kN (fun X => ctx (P ++ .elem tyN aN mN X :: R)) := by
  induction h with
  | here ty K =>
    intro P tyN aN mN kN R hL hP
    subst hL
    have := Lvl.down ty P aN mN R hP (Lvl.here tyN kN)
    simpa using this
  | @down tyC tyP kidsC L b nd ctx ty pre aC mC ns hpre hl ih =>
    intro P tyN aN mN kN R hL hP
    have := Lvl.down ty pre aC mC ns hpre (ih P tyN aN mN kN R hL hP)
    have e : fsize pre + 1 + (b + (fsize P + 1)) = fsize pre + 1 + b + (fsize P + 1) := by omega
    rw [e] at this
    exact this

theorem into {P R : List Node} {tyN : TypeId} {aN : Attrs} {mN : Marks} {kN : List Node}
    (h : Lvl ty K b nd tyP (P ++ .elem tyN aN mN kN :: R) ctx) (hP : fnormKids P = true) :
    Lvl ty K (b + (fsize P + 1)) (nd + 1) tyN kN (fun X => ctx (P ++ .elem tyN aN mN X :: R)) :=
  h.into_aux P tyN aN mN kN R rfl hP

/-- `outer` descends to the level and goes on there with the levels that are left -/
theorem outer_gen {S : Schema} (sl : Slice) (h : Lvl ty K b nd tyP L ctx) (fP tP e : Nat)
    (hft : fP ≤ tP) (ht : tP ≤ fsize L) :
    PM.outer S sl ty K (b + fP) (b + tP) 0 K (b + fP) (b + tP) (nd + e)
      = (PM.outer S sl tyP L fP tP 0 L fP tP e).map ctx := by
  induction h with
  | here ty K =>
    simp only [Nat.zero_add]
    cases PM.outer S sl ty K fP tP 0 K fP tP e <;> rfl
  | @down tyC tyP kidsC L b nd ctx ty pre aC mC ns hp hl ih =>
    have hr := hl.range
    have e1 : fsize pre + 1 + b + fP = fsize pre + (1 + b + fP) := by omega
    have e2 : fsize pre + 1 + b + tP = fsize pre + (1 + b + tP) := by omega
    rw [e1, e2]
    have hsc := Flat.outer_scan_pre S sl ty (pre ++ Node.elem tyC aC mC kidsC :: ns)
      (fsize pre + (1 + b + fP)) (fsize pre + (1 + b + tP)) (nd + 1 + e) pre (Node.elem tyC aC mC kidsC :: ns)
      0 (1 + b + fP) (1 + b + tP) hp (fun _ => by omega)
    rw [hsc]
    conv => lhs; unfold PM.outer
    rw [if_neg (by omega), if_neg (by simp; omega)]
    have hc : (decide (nd + 1 + e ≠ 0) && decide (1 + b + tP < (Node.elem tyC aC mC kidsC).size)) = true := by
      simp; omega
    simp only [hc, if_true, show 1 + b + fP - 1 = b + fP by omega, show 1 + b + tP - 1 = b + tP by omega,
      show nd + 1 + e - 1 = nd + e by omega, ih ht]
    cases PM.outer S sl tyP L fP tP 0 L fP tP e with
    | error e => rfl
    | ok X => simp [Except.map]

/-- **a replace whose slice does not open above the level is the level's own replace** -/
theorem replaceKids_eq {S : Schema} (h : Lvl ty K b nd tyP L ctx) (sl : Slice) (fP tP : Nat)
    (hft : fP ≤ tP) (ht : tP ≤ fsize L) (ha : sl.openStart ≤ depthAt L fP) :
    replaceKids S ty K (b + fP) (b + tP) sl = (replaceKids S tyP L fP tP sl).map ctx := by
  have hr := h.range
  obtain ⟨d1, _⟩ := h.depth fP (by omega)
  obtain ⟨d2, _⟩ := h.depth tP ht
  have hi1 : (!inRange K (b + fP) || !inRange K (b + tP) || decide (b + tP < b + fP)) = false := by
    simp [inRange]; omega
  have hi2 : (!inRange L fP || !inRange L tP || decide (tP < fP)) = false := by
    simp [inRange]; omega
  unfold replaceKids
  simp only [hi1, hi2, Bool.false_eq_true, if_false, d1, d2]
  by_cases h0 : sl.openStart > nd + depthAt L fP
  · omega
  rw [if_neg h0, if_neg (show ¬ sl.openStart > depthAt L fP by omega)]
  by_cases hde : (depthAt L fP : Int) - sl.openStart ≠ (depthAt L tP : Int) - sl.openEnd
  · rw [if_pos (show ((nd + depthAt L fP : Nat) : Int) - sl.openStart ≠ ((nd + depthAt L tP : Nat) : Int) - sl.openEnd
      by push_cast; omega), if_pos hde]; rfl
  · rw [if_neg (show ¬ (((nd + depthAt L fP : Nat) : Int) - sl.openStart ≠ ((nd + depthAt L tP : Nat) : Int) - sl.openEnd)
      by push_cast; omega), if_neg hde]
    by_cases hwf : (!sl.wf) = true
    · rw [if_pos hwf, if_pos hwf]; rfl
    · rw [if_neg hwf, if_neg hwf]
      have e : nd + depthAt L fP - sl.openStart = nd + (depthAt L fP - sl.openStart) := by omega
      rw [e]
      exact h.outer_gen sl fP tP _ hft ht

end Lvl

/-! ### `threeWay` looks at its right-hand side only through `splitRight` -/

theorem flatTail_congr (S : Schema) (M : List Node) (a b : Nat) (R : List Node) (t : Nat) (R' : List Node)
    (t' : Nat) (h : splitRight R t = splitRight R' t') : flatTail S M a b R t = flatTail S M a b R' t' := by
  unfold flatTail; rw [h]

theorem threeWay_congr (S : Schema) : ∀ (L : List Node) (f e : Nat) (M : List Node) (a b : Nat)
    (R : List Node) (t : Nat) (R' : List Node) (t' : Nat), splitRight R t = splitRight R' t' →
    threeWay S L f e M a b R t = threeWay S L f e M a b R' t'
  | [], f, e, M, a, b, R, t, R', t', h => by
    unfold threeWay; rw [flatTail_congr S M a b R t R' t' h]
  | n :: ns, f, e, M, a, b, R, t, R', t', h => by
    unfold threeWay
    rw [flatTail_congr S M a b R t R' t' h, threeWay_congr S ns (f - n.size) e M a b R t R' t' h, h]

/-! ### what `atLevel` validates -/

/-- the child list `atLevel` builds, before it is validated -/
def atLevelContent (S : Schema) (sl : Slice) (level : List Node) (f t extra : Nat) : Res (List Node) :=
  if fsize sl.content = 0 then (twoWay S level f level t).map fromArray
  else if sl.openStart = 0 && sl.openEnd = 0 && depthAt level f = 0 && depthAt level t = 0 then
    match fcut level 0 f, fcut level t (fsize level) with
    | .ok l, .ok r => .ok (fappend (fappend l sl.content) r)
    | .error e, _ => .error e
    | _, .error e => .error e
  else (threeWay S level f extra sl.content sl.openStart sl.openEnd level t).map fromArray

theorem atLevel_eq (S : Schema) (sl : Slice) (ty : TypeId) (level : List Node) (f t extra : Nat) :
    atLevel S sl ty level f t extra =
      match atLevelContent S sl level f t extra with
      | .ok c => if S.validContent ty c then .ok c else .error .failed
      | .error e => .error e := by
  unfold atLevel atLevelContent; rfl

/-! ### complete children in front of the range are not looked at -/

/-- a prefix of a child list that ends in an element node: nothing merges across its end -/
def EndsElem (Q : List Node) : Prop := ∃ P ty a m k, Q = P ++ [Node.elem ty a m k]

theorem EndsElem.ne_nil {Q : List Node} (h : EndsElem Q) : Q ≠ [] := by
  obtain ⟨P, ty, a, m, k, rfl⟩ := h; simp

theorem EndsElem.getLast {Q : List Node} (h : EndsElem Q) : ∃ ty a m k, Q.getLast? = some (.elem ty a m k) := by
  obtain ⟨P, ty, a, m, k, rfl⟩ := h
  exact ⟨ty, a, m, k, by simp⟩

theorem fromArray_pre {Q : List Node} (hQ : fnorm Q = true) (he : EndsElem Q) (x : List Node) :
    fromArray (Q ++ x) = Q ++ fromArray x := by
  obtain ⟨P, ty, a, m, k, rfl⟩ := he
  have hP : fnorm P = true := fnorm_append_left hQ
  rw [List.append_assoc, List.singleton_append, fromArray_mid_elem, fromArray_of_fnorm hP]
  simp

theorem fsize_pos_of_ne_nil {Q : List Node} (hQ : fnormKids Q = true) (hne : Q ≠ []) : 0 < fsize Q := by
  cases Q with
  | nil => exact absurd rfl hne
  | cons n ns =>
    simp only [fnormKids_cons, Bool.and_eq_true] at hQ
    have := Node.size_pos_of_norm n hQ.1
    simp; omega

theorem twoWay_pre (S : Schema) (Q Rf : List Node) (g h : Nat) (hQ : fnormKids Q = true) :
    twoWay S (Q ++ Rf) (fsize Q + g) (Q ++ Rf) (fsize Q + h) = (twoWay S Rf g Rf h).map (Q ++ ·) := by
  rw [twoWay_skip_pre S Q Rf g _ _ hQ,
    twoWay_congr S Rf g (Q ++ Rf) (fsize Q + h) Rf h (splitRight_skip_pre Q Rf h hQ)]

theorem threeWay_pre (S : Schema) (Q Rf : List Node) (g h e : Nat) (M : List Node) (a b : Nat)
    (hQ : fnormKids Q = true) :
    threeWay S (Q ++ Rf) (fsize Q + g) e M a b (Q ++ Rf) (fsize Q + h)
      = (threeWay S Rf g e M a b Rf h).map (Q ++ ·) := by
  rw [threeWay_skip_pre S Q Rf g e M a b _ _ hQ,
    threeWay_congr S Rf g e M a b (Q ++ Rf) (fsize Q + h) Rf h (splitRight_skip_pre Q Rf h hQ)]

theorem fcutLoop_take_pre : ∀ (Q Rf : List Node) (g : Nat), fnormKids Q = true →
    fcutLoop (Q ++ Rf) 0 (fsize Q + g) = (fcutLoop Rf 0 g).map (Q ++ ·)
  | [], Rf, g, _ => by
    simp only [List.nil_append, fsize_nil, Nat.zero_add]
    cases fcutLoop Rf 0 g <;> rfl
  | n :: Q, Rf, g, hn => by
    simp only [fnormKids_cons, Bool.and_eq_true] at hn
    have hpos := Node.size_pos_of_norm n hn.1
    have ih := fcutLoop_take_pre Q Rf g hn.2
    rw [List.cons_append]
    conv => lhs; unfold fcutLoop
    rw [if_neg (by simp; omega)]
    simp only []
    rw [if_pos hpos, if_neg (by simp; omega)]
    have e : fsize (n :: Q) + g - n.size = fsize Q + g := by simp; omega
    rw [Nat.zero_sub, e, ih]
    cases fcutLoop Rf 0 g <;> rfl

theorem fcut_left_pre (Q Rf : List Node) (g : Nat) (hQ : fnormKids Q = true) (hne : Q ≠ [])
    (hg : g ≤ fsize Rf) :
    fcut (Q ++ Rf) 0 (fsize Q + g) = (fcut Rf 0 g).map (Q ++ ·) := by
  have hpos := fsize_pos_of_ne_nil hQ hne
  unfold fcut
  by_cases hgf : g = fsize Rf
  · subst hgf
    simp [fsize_append, Except.map]
  · rw [if_neg (by simp [fsize_append]; omega), if_neg (by omega), if_neg (by simp; omega)]
    by_cases hg0 : g ≤ 0
    · have : g = 0 := by omega
      subst this
      rw [if_pos (Nat.le_refl _), fcutLoop_take_pre Q Rf 0 hQ, fcutLoop_zero]
    · rw [if_neg hg0, fcutLoop_take_pre Q Rf g hQ]

theorem fcut_right_pre (Q Rf : List Node) (h : Nat) (hQ : fnormKids Q = true) (hne : Q ≠ [])
    (hR : fnormKids Rf = true) :
    fcut (Q ++ Rf) (fsize Q + h) (fsize (Q ++ Rf)) = fcut Rf h (fsize Rf) := by
  have hpos := fsize_pos_of_ne_nil hQ hne
  unfold fcut
  rw [if_neg (by simp; omega), fsize_append]
  by_cases hle : fsize Rf ≤ h
  · rw [if_pos (by omega)]
    by_cases h0 : h = 0
    · subst h0
      have : Rf = [] := by
        cases Rf with
        | nil => rfl
        | cons x xs =>
          simp only [fnormKids_cons, Bool.and_eq_true] at hR
          have := Node.size_pos_of_norm x hR.1
          simp at hle; omega
      subst this; simp
    · rw [if_neg (by simp; omega), if_pos hle]
  · rw [if_neg (by omega), fcutLoop_append_pre Q Rf h (fsize Rf) hQ]
    by_cases h0 : h = 0
    · subst h0
      simp [fcutLoop_full Rf hR]
    · rw [if_neg (by simp; omega), if_neg hle]

theorem getLast?_append_ne_nil {α} (l l' : List α) (h : l' ≠ []) : (l ++ l').getLast? = l'.getLast? := by
  simp only [List.getLast?_append]
  cases hl : l'.getLast? with
  | none => simp at hl; exact absurd hl h
  | some x => simp

theorem addNode_append_pre (Q l : List Node) (c : Node) (hl : l ≠ []) :
    addNode (Q ++ l) c = Q ++ addNode l c := by
  unfold addNode
  rw [getLast?_append_ne_nil _ _ hl]
  split
  · split
    · rw [List.dropLast_append_of_ne_nil hl, List.append_assoc]
    · rw [List.append_assoc]
  · rw [List.append_assoc]

theorem fappend_pre {Q : List Node} (he : EndsElem Q) (l c : List Node) :
    fappend (Q ++ l) c = Q ++ fappend l c := by
  cases c with
  | nil => rfl
  | cons c0 cs =>
    have hne := he.ne_nil
    simp only [fappend]
    rw [if_neg (by simp [hne])]
    cases l with
    | nil =>
      obtain ⟨ty, a, m, k, hl⟩ := he.getLast
      simp only [List.append_nil, List.isEmpty_nil, if_true]
      unfold addNode
      rw [hl]
      simp
    | cons x xs =>
      rw [addNode_append_pre Q (x :: xs) c0 (by simp)]
      simp

theorem atLevelContent_pre (S : Schema) (sl : Slice) {Q : List Node} (hQ : fnorm Q = true)
    (he : EndsElem Q) (Rf : List Node) (hR : fnormKids Rf = true) (g h e : Nat) (hg : g ≤ fsize Rf) :
    atLevelContent S sl (Q ++ Rf) (fsize Q + g) (fsize Q + h) e
      = (atLevelContent S sl Rf g h e).map (Q ++ ·) := by
  have hQk := fnormKids_of_fnorm hQ
  unfold atLevelContent
  by_cases h0 : fsize sl.content = 0
  · rw [if_pos h0, if_pos h0, twoWay_pre S Q Rf g h hQk]
    cases twoWay S Rf g Rf h with
    | error err => rfl
    | ok x => simp [Except.map, fromArray_pre hQ he]
  · rw [if_neg h0, if_neg h0, depthAt_append_pre, depthAt_append_pre]
    by_cases hc : (decide (sl.openStart = 0) && decide (sl.openEnd = 0) && decide (depthAt Rf g = 0)
        && decide (depthAt Rf h = 0)) = true
    · rw [if_pos hc, if_pos hc, fcut_left_pre Q Rf g hQk he.ne_nil hg, fcut_right_pre Q Rf h hQk he.ne_nil hR]
      cases fcut Rf 0 g with
      | error err => simp [Except.map]
      | ok l =>
        cases fcut Rf h (fsize Rf) with
        | error err => simp [Except.map]
        | ok r =>
          simp only [Except.map]
          rw [fappend_pre he, fappend_pre he]
    · rw [if_neg hc, if_neg hc, threeWay_pre S Q Rf g h e _ _ _ hQk]
      cases threeWay S Rf g e sl.content sl.openStart sl.openEnd Rf h with
      | error err => rfl
      | ok x => simp [Except.map, fromArray_pre hQ he]

/-- **the level's replace with the content of the element child in front of the range exchanged** -/
theorem atLevel_pre_congr (S : Schema) (sl : Slice) (ty : TypeId) (P : List Node) (tyN : TypeId)
    (aN : Attrs) (mN : Marks) (kN kN' Rf : List Node) (g h e : Nat) (Y : List Node)
    (hQ : fnorm (P ++ [Node.elem tyN aN mN kN]) = true) (hQ' : fnorm (P ++ [Node.elem tyN aN mN kN']) = true)
    (hR : fnormKids Rf = true) (hg : g ≤ fsize Rf)
    (hY : atLevel S sl ty ((P ++ [Node.elem tyN aN mN kN]) ++ Rf) (fsize (P ++ [Node.elem tyN aN mN kN]) + g)
      (fsize (P ++ [Node.elem tyN aN mN kN]) + h) e = .ok Y) :
    ∃ X, Y = (P ++ [Node.elem tyN aN mN kN]) ++ X ∧
      atLevel S sl ty ((P ++ [Node.elem tyN aN mN kN']) ++ Rf) (fsize (P ++ [Node.elem tyN aN mN kN']) + g)
        (fsize (P ++ [Node.elem tyN aN mN kN']) + h) e = .ok ((P ++ [Node.elem tyN aN mN kN']) ++ X) := by
  rw [atLevel_eq, atLevelContent_pre S sl hQ ⟨P, tyN, aN, mN, kN, rfl⟩ Rf hR g h e hg] at hY
  rw [atLevel_eq, atLevelContent_pre S sl hQ' ⟨P, tyN, aN, mN, kN', rfl⟩ Rf hR g h e hg]
  cases hc : atLevelContent S sl Rf g h e with
  | error err => rw [hc] at hY; simp [Except.map] at hY
  | ok X =>
    rw [hc] at hY
    simp only [Except.map] at hY ⊢
    split at hY
    · rename_i hv
      simp only [Except.ok.injEq] at hY
      refine ⟨X, hY.symm, ?_⟩
      have e1 : (P ++ [Node.elem tyN aN mN kN]) ++ X = P ++ Node.elem tyN aN mN kN :: X := by simp
      have e2 : (P ++ [Node.elem tyN aN mN kN']) ++ X = P ++ Node.elem tyN aN mN kN' :: X := by simp
      rw [e1] at hv
      have h1 := validContent_set S ty P X (Node.elem tyN aN mN kN) (Node.elem tyN aN mN kN) rfl hv
      have h2 := validContent_set S ty P X (Node.elem tyN aN mN kN) (Node.elem tyN aN mN kN') rfl hv
      rw [hv] at h1
      have h3 : S.validContent ty (P ++ Node.elem tyN aN mN kN' :: X) = true := by
        rw [h2]; simpa [Node.marks] using h1.symm
      rw [e2, h3]
      simp
    · simp at hY

theorem set_append_len {α} (l l' : List α) (i : Nat) (v : α) :
    (l ++ l').set (l.length + i) v = l ++ l'.set i v := by
  rw [List.set_append_right _ _ (by omega)]; simp

theorem outer_pre_congr (S : Schema) (sl : Slice) (ty : TypeId) (P : List Node) (tyN : TypeId)
    (aN : Attrs) (mN : Marks) (kN kN' Rf : List Node) (g0 h0 e : Nat)
    (hQ : fnorm (P ++ [Node.elem tyN aN mN kN]) = true) (hQ' : fnorm (P ++ [Node.elem tyN aN mN kN']) = true)
    (hR : fnormKids Rf = true) :
    ∀ (rest pre2 : List Node) (g h idx : Nat) (Y : List Node), Rf = pre2 ++ rest → g0 = fsize pre2 + g →
      h0 = fsize pre2 + h → idx = (P ++ [Node.elem tyN aN mN kN]).length + pre2.length → g ≤ h →
      h ≤ fsize rest →
      outer S sl ty ((P ++ [Node.elem tyN aN mN kN]) ++ Rf) (fsize (P ++ [Node.elem tyN aN mN kN]) + g0)
        (fsize (P ++ [Node.elem tyN aN mN kN]) + h0) idx rest g h e = .ok Y →
      ∃ X, Y = (P ++ [Node.elem tyN aN mN kN]) ++ X ∧
        outer S sl ty ((P ++ [Node.elem tyN aN mN kN']) ++ Rf) (fsize (P ++ [Node.elem tyN aN mN kN']) + g0)
          (fsize (P ++ [Node.elem tyN aN mN kN']) + h0) idx rest g h e
            = .ok ((P ++ [Node.elem tyN aN mN kN']) ++ X)
  | [], pre2, g, h, idx, Y, hRf, hg0, hh0, hidx, hgh, hh, hY => by
    unfold outer at hY ⊢
    exact atLevel_pre_congr S sl ty P tyN aN mN kN kN' Rf g0 h0 e Y hQ hQ' hR
      (by rw [hRf, fsize_append]; simp at hh; omega) hY
  | n :: ns, pre2, g, h, idx, Y, hRf, hg0, hh0, hidx, hgh, hh, hY => by
    have here : atLevel S sl ty ((P ++ [Node.elem tyN aN mN kN]) ++ Rf)
        (fsize (P ++ [Node.elem tyN aN mN kN]) + g0) (fsize (P ++ [Node.elem tyN aN mN kN]) + h0) e = .ok Y →
        ∃ X, Y = (P ++ [Node.elem tyN aN mN kN]) ++ X ∧
          atLevel S sl ty ((P ++ [Node.elem tyN aN mN kN']) ++ Rf) (fsize (P ++ [Node.elem tyN aN mN kN']) + g0)
            (fsize (P ++ [Node.elem tyN aN mN kN']) + h0) e = .ok ((P ++ [Node.elem tyN aN mN kN']) ++ X) :=
      fun h' => atLevel_pre_congr S sl ty P tyN aN mN kN kN' Rf g0 h0 e Y hQ hQ' hR
        (by rw [hRf, fsize_append]; simp only [fsize_cons] at hh ⊢; omega) h'
    simp only [fsize_cons] at hh
    unfold outer at hY ⊢
    by_cases hf : g = 0
    · rw [if_pos hf] at hY ⊢; exact here hY
    rw [if_neg hf] at hY ⊢
    by_cases hle : n.size ≤ g
    · rw [if_pos hle] at hY ⊢
      exact outer_pre_congr S sl ty P tyN aN mN kN kN' Rf g0 h0 e hQ hQ' hR ns (pre2 ++ [n]) (g - n.size)
        (h - n.size) (idx + 1) Y (by simp [hRf]) (by rw [fsize_append]; simp; omega)
        (by rw [fsize_append]; simp; omega) (by simp [hidx]; omega) (by omega) (by omega) hY
    rw [if_neg hle] at hY ⊢
    cases n with
    | text s mm => exact here hY
    | leaf tt aa mm => exact here hY
    | elem tyC aC mC kidsC =>
      simp only at hY ⊢
      by_cases hcond : (e ≠ 0 && decide (h < (Node.elem tyC aC mC kidsC).size)) = true
      · rw [if_pos hcond] at hY ⊢
        cases hx : outer S sl tyC kidsC (g - 1) (h - 1) 0 kidsC (g - 1) (h - 1) (e - 1) with
        | error err => rw [hx] at hY; simp at hY
        | ok inner =>
          rw [hx] at hY
          simp only [Except.ok.injEq] at hY ⊢
          have hlen : (P ++ [Node.elem tyN aN mN kN']).length = (P ++ [Node.elem tyN aN mN kN]).length := by simp
          refine ⟨Rf.set pre2.length (Node.elem tyC aC mC inner), ?_, ?_⟩
          · rw [← hY, hidx, set_append_len]
          · rw [hidx, ← hlen, set_append_len]
      · rw [if_neg hcond] at hY ⊢; exact here hY

theorem outer_scan_pre' (S : Schema) (sl : Slice) (ty : TypeId) (L : List Node) (f0 t0 e : Nat) :
    ∀ (pre rest : List Node) (idx f t : Nat), fnormKids pre = true →
    outer S sl ty L f0 t0 idx (pre ++ rest) (fsize pre + f) (fsize pre + t) e
      = outer S sl ty L f0 t0 (idx + pre.length) rest f t e
  | [], rest, idx, f, t, _ => by simp
  | p :: ps, rest, idx, f, t, hn => by
    simp only [fnormKids_cons, Bool.and_eq_true] at hn
    have hpos := Node.size_pos_of_norm p hn.1
    rw [List.cons_append]
    conv => lhs; unfold outer
    rw [if_neg (by simp; omega), if_pos (by simp; omega)]
    have e1 : fsize (p :: ps) + f - p.size = fsize ps + f := by simp; omega
    have e2 : fsize (p :: ps) + t - p.size = fsize ps + t := by simp; omega
    rw [e1, e2, outer_scan_pre' S sl ty L f0 t0 e ps rest (idx + 1) f t hn.2]
    congr 1
    simp; omega

/-- **a replace does not look into the element child in front of its range**: with the content of that
    child exchanged (same markup, normal form) it succeeds alike, at the shifted positions -/
theorem replaceKids_prefix (S : Schema) (ty : TypeId) (P : List Node) (tyN : TypeId) (aN : Attrs) (mN : Marks)
    (kN kN' Rf : List Node) (g h : Nat) (sl : Slice) (Y : List Node)
    (hQ : fnorm (P ++ [Node.elem tyN aN mN kN]) = true) (hQ' : fnorm (P ++ [Node.elem tyN aN mN kN']) = true)
    (hR : fnormKids Rf = true)
    (hY : replaceKids S ty ((P ++ [Node.elem tyN aN mN kN]) ++ Rf) (fsize (P ++ [Node.elem tyN aN mN kN]) + g)
      (fsize (P ++ [Node.elem tyN aN mN kN]) + h) sl = .ok Y) :
    ∃ X, Y = (P ++ [Node.elem tyN aN mN kN]) ++ X ∧
      replaceKids S ty ((P ++ [Node.elem tyN aN mN kN']) ++ Rf) (fsize (P ++ [Node.elem tyN aN mN kN']) + g)
        (fsize (P ++ [Node.elem tyN aN mN kN']) + h) sl = .ok ((P ++ [Node.elem tyN aN mN kN']) ++ X) := by
  obtain ⟨hft, ht, hwf, ho⟩ := replaceKids_ok hY
  have hd := replaceKids_depths hY
  rw [depthAt_append_pre, depthAt_append_pre] at hd
  rw [depthAt_append_pre] at ho
  rw [fsize_append (P ++ [Node.elem tyN aN mN kN]) Rf] at ht
  have ht' : h ≤ fsize Rf := by omega
  have hQk := fnormKids_of_fnorm hQ
  have hQk' := fnormKids_of_fnorm hQ'
  -- skip the prefix in the scan
  have sc := outer_scan_pre' S sl ty ((P ++ [Node.elem tyN aN mN kN]) ++ Rf)
    (fsize (P ++ [Node.elem tyN aN mN kN]) + g) (fsize (P ++ [Node.elem tyN aN mN kN]) + h)
    (depthAt Rf g - sl.openStart) (P ++ [Node.elem tyN aN mN kN]) Rf 0 g h hQk
  have sc' := outer_scan_pre' S sl ty ((P ++ [Node.elem tyN aN mN kN']) ++ Rf)
    (fsize (P ++ [Node.elem tyN aN mN kN']) + g) (fsize (P ++ [Node.elem tyN aN mN kN']) + h)
    (depthAt Rf g - sl.openStart) (P ++ [Node.elem tyN aN mN kN']) Rf 0 g h hQk'
  rw [sc] at ho
  obtain ⟨X, hX, hX'⟩ := outer_pre_congr S sl ty P tyN aN mN kN kN' Rf g h _ hQ hQ' hR Rf [] g h _ Y
    (by simp) (by simp) (by simp) (by simp) (by omega) (by omega) ho
  refine ⟨X, hX, ?_⟩
  have hlen : (P ++ [Node.elem tyN aN mN kN']).length = (P ++ [Node.elem tyN aN mN kN]).length := by simp
  unfold replaceKids
  rw [if_neg (by
    simp only [inRange, fsize_append (P ++ [Node.elem tyN aN mN kN']) Rf, Bool.or_eq_true, Bool.not_eq_true',
      decide_eq_false_iff_not, decide_eq_true_eq]
    omega)]
  simp only [depthAt_append_pre]
  rw [if_neg (by omega), if_neg (by omega), if_neg (by simp [hwf]), sc', hlen]
  exact hX'

/-! ### the left step inside a node the right step does not touch -/

theorem Lvl.fnorm_level {ty tyP : TypeId} {K L : List Node} {b nd : Nat} {ctx : List Node → List Node}
    (h : Lvl ty K b nd tyP L ctx) (hn : fnorm K = true) : fnorm L = true := by
  induction h with
  | here => exact hn
  | down ty pre aC mC ns _ _ ih => exact ih (fnorm_child hn)

/-- **both orders apply and give the same child list** when the left step happens inside the element
    child `n` of a level `L = P ++ n :: R` both steps reach and the right step lies in `R` -/
theorem commute_inside_left (S : Schema) (ty tyA : TypeId) (K : List Node) (b nd : Nat)
    (ctx : List Node → List Node) (P : List Node) (tyN : TypeId) (aN : Attrs) (mN : Marks)
    (kN R : List Node) (hL : Lvl ty K b nd tyA (P ++ Node.elem tyN aN mN kN :: R) ctx)
    (hnK : fnorm K = true) (g1 h1 g2 h2 : Nat) (hg1 : g1 ≤ h1) (hh1 : h1 ≤ fsize kN) (hg2 : g2 ≤ h2)
    (hh2 : h2 ≤ fsize R) (sl1 sl2 : Slice) (hsn1 : fnorm sl1.content = true)
    (ha1 : sl1.openStart ≤ depthAt kN g1) (ha2 : sl2.openStart ≤ depthAt R g2) (Ka Kb : List Node)
    (hr1 : replaceKids S ty K (b + (fsize P + 1) + g1) (b + (fsize P + 1) + h1) sl1 = .ok Ka)
    (hr2 : replaceKids S ty K (b + (fsize (P ++ [Node.elem tyN aN mN kN]) + g2))
      (b + (fsize (P ++ [Node.elem tyN aN mN kN]) + h2)) sl2 = .ok Kb) :
    ∃ kN' Kab, fsize kN' + (h1 - g1) = fsize kN + sl1.toks.length ∧
      replaceKids S ty Ka (b + (fsize (P ++ [Node.elem tyN aN mN kN']) + g2))
        (b + (fsize (P ++ [Node.elem tyN aN mN kN']) + h2)) sl2 = .ok Kab ∧
      replaceKids S ty Kb (b + (fsize P + 1) + g1) (b + (fsize P + 1) + h1) sl1 = .ok Kab := by
  have hnL := hL.fnorm_level hnK
  have eL : P ++ Node.elem tyN aN mN kN :: R = (P ++ [Node.elem tyN aN mN kN]) ++ R := by simp
  have hQ : fnorm (P ++ [Node.elem tyN aN mN kN]) = true := by
    rw [eL] at hnL; exact fnorm_append_left hnL
  have hP : fnormKids P = true := fnormKids_of_fnorm (fnorm_append_left hQ)
  have hR : fnormKids R = true := by
    rw [eL] at hnL; exact fnormKids_of_fnorm (fnorm_append_right hnL)
  have hnk : fnorm kN = true := fnorm_child hnL
  -- the left step is the replace of `n`'s content
  have LN := hL.into hP
  rw [LN.replaceKids_eq sl1 g1 h1 hg1 hh1 ha1] at hr1
  cases hi1 : replaceKids S tyN kN g1 h1 sl1 with
  | error err => rw [hi1] at hr1; simp [Except.map] at hr1
  | ok kN' =>
    rw [hi1] at hr1
    simp only [Except.map, Except.ok.injEq] at hr1
    have hnk' : fnorm kN' = true := replaceKids_norm S tyN kN g1 h1 sl1 kN' hnk hsn1 hi1
    have hsz := replaceKids_toks S tyN kN g1 h1 sl1 kN' hi1
    have hsz' : fsize kN' + (h1 - g1) = fsize kN + sl1.toks.length := by
      have := congrArg List.length hsz
      simp only [List.length_append, List.length_take, List.length_drop, ftoks_length] at this
      omega
    have hQ' : fnorm (P ++ [Node.elem tyN aN mN kN']) = true :=
      fnorm_set_nontext (n := Node.elem tyN aN mN kN) (n' := Node.elem tyN aN mN kN') (ns := []) rfl rfl
        (by rw [Node.norm_elem]; exact hnk') hQ
    -- the right step is a replace of the level, behind `n`
    have hd2 : depthAt (P ++ Node.elem tyN aN mN kN :: R) (fsize (P ++ [Node.elem tyN aN mN kN]) + g2)
        = depthAt R g2 := by rw [eL, depthAt_append_pre]
    have hsz2 : fsize (P ++ Node.elem tyN aN mN kN :: R) = fsize (P ++ [Node.elem tyN aN mN kN]) + fsize R := by
      rw [eL, fsize_append]
    rw [hL.replaceKids_eq sl2 _ _ (by omega) (by omega) (by rw [hd2]; exact ha2)] at hr2
    cases hi2 : replaceKids S tyA (P ++ Node.elem tyN aN mN kN :: R)
        (fsize (P ++ [Node.elem tyN aN mN kN]) + g2) (fsize (P ++ [Node.elem tyN aN mN kN]) + h2) sl2 with
    | error err => rw [hi2] at hr2; simp [Except.map] at hr2
    | ok Y =>
      rw [hi2] at hr2
      simp only [Except.map, Except.ok.injEq] at hr2
      rw [eL] at hi2
      obtain ⟨X, hYX, hi2'⟩ := replaceKids_prefix S tyA P tyN aN mN kN kN' R g2 h2 sl2 Y hQ hQ' hR hi2
      refine ⟨kN', ctx ((P ++ [Node.elem tyN aN mN kN']) ++ X), hsz', ?_, ?_⟩
      · -- the rebased right step on the left step's result
        have eL' : P ++ Node.elem tyN aN mN kN' :: R = (P ++ [Node.elem tyN aN mN kN']) ++ R := by simp
        have L' := hL.replace ((P ++ [Node.elem tyN aN mN kN']) ++ R)
        rw [← hr1, eL']
        rw [L'.replaceKids_eq sl2 _ _ (by omega)
          (by rw [fsize_append (P ++ [Node.elem tyN aN mN kN']) R]; omega)
          (by rw [depthAt_append_pre]; exact ha2), hi2']
        rfl
      · -- the left step on the right step's result
        have L2 := hL.replace (P ++ Node.elem tyN aN mN kN :: X)
        have LN2 := L2.into hP
        have eX : (P ++ [Node.elem tyN aN mN kN]) ++ X = P ++ Node.elem tyN aN mN kN :: X := by simp
        rw [← hr2, hYX, eX, LN2.replaceKids_eq sl1 g1 h1 hg1 hh1 ha1, hi1]
        simp [Except.map]

/-! ### the guard `insideLeft` yields the decomposition -/

theorem insideLeft_cons (n : Node) (ns : List Node) (f1 t1 e1 f2 t2 e2 : Nat) :
    insideLeft (n :: ns) f1 t1 e1 f2 t2 e2 =
      if f1 = 0 then false
      else if n.size ≤ f1 then insideLeft ns (f1 - n.size) (t1 - n.size) e1 (f2 - n.size) (t2 - n.size) e2
      else match n with
        | .elem _ _ _ kids =>
          if e1 ≠ 0 && t1 < n.size then
            if n.size ≤ f2 then true
            else e2 ≠ 0 && t2 < n.size && insideLeft kids (f1 - 1) (t1 - 1) (e1 - 1) (f2 - 1) (t2 - 1) (e2 - 1)
          else false
        | _ => false := by
  conv => lhs; unfold insideLeft
  split
  · rfl
  · split
    · rfl
    · cases n <;> rfl

theorem insideLeft_decomp : ∀ (rest : List Node) (ty : TypeId) (level pre : List Node)
    (f1 t1 e1 f2 t2 e2 : Nat), level = pre ++ rest → fnorm level = true → f1 ≤ t1 → t1 < f2 → f2 ≤ t2 →
    t2 ≤ fsize rest → insideLeft rest f1 t1 e1 f2 t2 e2 = true →
    ∃ (b nd : Nat) (tyA : TypeId) (ctx : List Node → List Node) (P : List Node) (tyN : TypeId) (aN : Attrs)
      (mN : Marks) (kN R : List Node) (g1 h1 g2 h2 : Nat),
      Lvl ty level b nd tyA (P ++ Node.elem tyN aN mN kN :: R) ctx ∧
      fsize pre + f1 = b + (fsize P + 1) + g1 ∧ fsize pre + t1 = b + (fsize P + 1) + h1 ∧
      fsize pre + f2 = b + (fsize (P ++ [Node.elem tyN aN mN kN]) + g2) ∧
      fsize pre + t2 = b + (fsize (P ++ [Node.elem tyN aN mN kN]) + h2) ∧
      g1 ≤ h1 ∧ h1 ≤ fsize kN ∧ g2 ≤ h2 ∧ h2 ≤ fsize R ∧ nd + 1 ≤ e1 ∧ nd ≤ e2
  | [], _, _, _, _, _, _, _, _, _, _, _, _, _, _, _, h => by simp [insideLeft] at h
  | n :: ns, ty, level, pre, f1, t1, e1, f2, t2, e2, hl, hn, h11, hsep, h22, ht2, h => by
    simp only [fsize_cons] at ht2
    rw [insideLeft_cons] at h
    by_cases hf : f1 = 0
    · rw [if_pos hf] at h; simp at h
    rw [if_neg hf] at h
    by_cases hle : n.size ≤ f1
    · rw [if_pos hle] at h
      obtain ⟨b, nd, tyA, ctx, P, tyN, aN, mN, kN, R, g1, h1, g2, h2, hL, q1, q2, q3, q4, rest⟩ :=
        insideLeft_decomp ns ty level (pre ++ [n]) (f1 - n.size) (t1 - n.size) e1 (f2 - n.size) (t2 - n.size) e2
          (by simp [hl]) hn (by omega) (by omega) (by omega) (by omega) h
      refine ⟨b, nd, tyA, ctx, P, tyN, aN, mN, kN, R, g1, h1, g2, h2, hL, ?_, ?_, ?_, ?_, rest⟩
      · rw [← q1, fsize_append]; simp; omega
      · rw [← q2, fsize_append]; simp; omega
      · rw [← q3, fsize_append (pre) [n]]; simp; omega
      · rw [← q4, fsize_append (pre) [n]]; simp; omega
    rw [if_neg hle] at h
    cases n with
    | text s m => simp at h
    | leaf tt a m => simp at h
    | elem tyC aC mC kidsC =>
      simp only [Node.size_elem, Nat.not_le] at hle ht2
      simp only [Node.size_elem] at h
      have hpre : fnormKids pre = true := by rw [hl] at hn; exact fnormKids_append_left hn
      by_cases hc1 : (e1 ≠ 0 && decide (t1 < 2 + fsize kidsC)) = true
      · rw [if_pos hc1] at h
        simp only [Bool.and_eq_true, decide_eq_true_eq, ne_eq] at hc1
        by_cases hr : 2 + fsize kidsC ≤ f2
        · -- found: the right step lies behind this child
          subst hl
          refine ⟨0, 0, ty, id, pre, tyC, aC, mC, kidsC, ns, f1 - 1, t1 - 1, f2 - (2 + fsize kidsC),
            t2 - (2 + fsize kidsC), Lvl.here ty _, by omega, by omega, ?_, ?_, by omega, by omega, by omega,
            by omega, by omega, by omega⟩
          · rw [fsize_append pre [_]]; simp; omega
          · rw [fsize_append pre [_]]; simp; omega
        · rw [if_neg hr] at h
          simp only [Bool.and_eq_true, decide_eq_true_eq, ne_eq] at h
          subst hl
          obtain ⟨b, nd, tyA, ctx, P, tyN, aN, mN, kN, R, g1, h1, g2, h2, hL, q1, q2, q3, q4, r1, r2, r3, r4, r5, r6⟩ :=
            insideLeft_decomp kidsC tyC kidsC [] (f1 - 1) (t1 - 1) (e1 - 1) (f2 - 1) (t2 - 1) (e2 - 1)
              (by simp) (fnorm_child hn) (by omega) (by omega) (by omega) (by omega) h.2
          simp only [fsize_nil, Nat.zero_add] at q1 q2 q3 q4
          refine ⟨fsize pre + 1 + b, nd + 1, tyA, _, P, tyN, aN, mN, kN, R, g1, h1, g2, h2,
            Lvl.down ty pre aC mC ns hpre hL, by omega, by omega, by omega, by omega, r1, r2, r3, r4,
            by omega, by omega⟩
      · rw [if_neg hc1] at h; simp at h

/-- **two replaces with separated ranges, the left one inside a node the right one does not touch
    (`insideLeft`): the right one applies to the left one's result at the shifted positions, the left one
    applies to the right one's result, and both orders give the same child list** -/
theorem replaceKids_commute_left (S : Schema) (ty : TypeId) (K Ka Kb : List Node) (f1 t1 f2 t2 : Nat)
    (sl1 sl2 : Slice) (hnK : fnorm K = true) (hsn1 : fnorm sl1.content = true) (hsep : t1 < f2)
    (hr1 : replaceKids S ty K f1 t1 sl1 = .ok Ka) (hr2 : replaceKids S ty K f2 t2 sl2 = .ok Kb)
    (hg : insideLeft K f1 t1 (depthAt K f1 - sl1.openStart) f2 t2 (depthAt K f2 - sl2.openStart) = true) :
    ∃ Kab, replaceKids S ty Ka (f2 - (t1 - f1) + sl1.toks.length) (t2 - (t1 - f1) + sl1.toks.length) sl2
        = .ok Kab ∧ replaceKids S ty Kb f1 t1 sl1 = .ok Kab := by
  obtain ⟨h11, _, _⟩ := replaceKids_guards S ty K f1 t1 sl1 Ka hr1
  obtain ⟨h22, ht2, _⟩ := replaceKids_guards S ty K f2 t2 sl2 Kb hr2
  have hd1 := (replaceKids_depths hr1).1
  have hd2 := (replaceKids_depths hr2).1
  obtain ⟨b, nd, tyA, ctx, P, tyN, aN, mN, kN, R, g1, h1, g2, h2, hL, q1, q2, q3, q4, r1, r2, r3, r4, r5, r6⟩ :=
    insideLeft_decomp K ty K [] f1 t1 _ f2 t2 _ (by simp) hnK h11 hsep h22 ht2 hg
  simp only [fsize_nil, Nat.zero_add] at q1 q2 q3 q4
  have hnL := hL.fnorm_level hnK
  have eL : P ++ Node.elem tyN aN mN kN :: R = (P ++ [Node.elem tyN aN mN kN]) ++ R := by simp
  have hP : fnormKids P = true := by
    rw [eL] at hnL; exact fnormKids_of_fnorm (fnorm_append_left (fnorm_append_left hnL))
  have LN := hL.into hP
  have dd1 := (LN.depth g1 (by omega)).1
  have dd2 := (hL.depth (fsize (P ++ [Node.elem tyN aN mN kN]) + g2)
    (by rw [eL, fsize_append (P ++ [Node.elem tyN aN mN kN]) R]; omega)).1
  rw [eL, depthAt_append_pre] at dd2
  rw [← q1] at dd1
  rw [← q3] at dd2
  subst q1; subst q2; subst q3; subst q4
  obtain ⟨kN', Kab, hsz, c1, c2⟩ := commute_inside_left S ty tyA K b nd ctx P tyN aN mN kN R hL hnK g1 h1 g2 h2
    r1 r2 r3 r4 sl1 sl2 hsn1 (by omega) (by omega) Ka Kb hr1 hr2
  refine ⟨Kab, ?_, c2⟩
  have e1 : b + (fsize (P ++ [Node.elem tyN aN mN kN]) + g2) - (b + (fsize P + 1) + h1 - (b + (fsize P + 1) + g1))
      + sl1.toks.length = b + (fsize (P ++ [Node.elem tyN aN mN kN']) + g2) := by
    rw [fsize_append P [_], fsize_append P [_]]; simp; omega
  have e2 : b + (fsize (P ++ [Node.elem tyN aN mN kN]) + h2) - (b + (fsize P + 1) + h1 - (b + (fsize P + 1) + g1))
      + sl1.toks.length = b + (fsize (P ++ [Node.elem tyN aN mN kN']) + h2) := by
    rw [fsize_append P [_], fsize_append P [_]]; simp; omega
  rw [e1, e2]
  exact c1

end PM
