/-
  Proofs/DelAround.lean — the replace-around answer of `replace_step` for a deletion applies (C11 `delete_applies`):
  `ReplaceAroundStep(from, p, to, to.end(), slice, 0)` — "move the inline content behind `to` into the textblock `from`
  is in".  The gap `[to, to.end())` is a closed slice (`slice_to_end`), `Slice.insert_at(0, gap)` puts it at the innermost
  level of the slice's open start (`insertInto_leftS`), and the replace of `[from, p)` with that slice goes through
  (`close_core` with the gap content as the innermost content; the innermost level is valid by the guard
  `inlineUniformB`).
-/
import Proofs.DelApplies
import Proofs.FlatInsertCore
import Proofs.LevelReplace
namespace PM
open PM.FromDom (LeafOk)

/-! ### the gap `[to, to.end())` -/

theorem flat_splitRight {L B Lr' : List Node} {p k' : Nat} (h : FlatAt L p B Lr' k') (hn : fnorm L = true) :
    splitRight L p = some (.flat (tailCut Lr' k')) := by
  have hsplit := h.split
  have hnB : fnormKids B = true := by
    have := fnormKids_of_fnorm hn
    rw [hsplit, fnormKids_append, Bool.and_eq_true] at this
    exact this.1
  rcases h.inText with h0 | ⟨s, m, r, e, hkl, hsp⟩
  · subst h0
    rw [h.pos, hsplit, splitRight_append_pre _ _ _ hnB]
    simp [tailCut]
  · subst e
    by_cases hk0 : k' = 0
    · subst hk0
      rw [h.pos, hsplit, splitRight_append_pre _ _ _ hnB]
      simp [tailCut]
    · rw [h.pos, hsplit, splitRight_append_pre _ _ _ hnB, splitRight_text s m r k' hk0 hkl hsp]
      simp [tailCut, hk0]

/-- **the slice from a position to the end of its parent** is closed: the children behind the position, the text child
    the position is in cut -/
theorem slice_to_end {ty0 : TypeId} {a0 : Attrs} {m0 : Marks} {K : List Node} {t : Nat} {rt : RPos}
    (ht : (Node.elem ty0 a0 m0 K).resolve t = some rt) (hn : fnorm K = true) (hpt : rt.pairOk = true) :
    (Node.elem ty0 a0 m0 K).slice t (rt.end_ rt.depth)
      = .ok ⟨tailCut (rt.parent.kids.drop (rt.index rt.depth)) rt.textOffset, 0, 0⟩ := by
  have R := resolve_resolved ht
  obtain ⟨tyP, aP, mP, ctx, _, hl⟩ := Resolved.lvl ht hn rt.depth (Nat.le_refl _)
  obtain ⟨hT0, hst, hidx⟩ := resolved_flatAt ht hpt
  have hT : FlatAt (rt.node rt.depth).kids (t - rt.start rt.depth) ((rt.node rt.depth).kids.take (rt.index rt.depth))
      ((rt.node rt.depth).kids.drop (rt.index rt.depth)) rt.textOffset := hT0
  show sliceKids K t (rt.end_ rt.depth)
    = .ok ⟨tailCut ((rt.node rt.depth).kids.drop (rt.index rt.depth)) rt.textOffset, 0, 0⟩
  have hnL : fnorm (rt.node rt.depth).kids = true := hl.norm hn
  have hpin := R.pos_in rt.depth (Nat.le_refl _)
  rw [Resolved.end_eq] at hpin
  have hdrop := hT.drop
  have hnt : fnorm (tailCut ((rt.node rt.depth).kids.drop (rt.index rt.depth)) rt.textOffset) = true :=
    splitRight_flat_fnorm _ _ _ hnL (flat_splitRight hT hnL)
  have hle : t ≤ fsize K := R.le
  have hend : rt.start rt.depth + fsize (rt.node rt.depth).kids ≤ fsize K := by
    have := (R.end_le_size rt.depth (Nat.le_refl _)).1
    rw [Resolved.end_eq] at this
    exact this
  rw [Resolved.end_eq]
  by_cases he : t = rt.start rt.depth + fsize (rt.node rt.depth).kids
  · -- nothing behind the position
    unfold sliceKids
    rw [if_pos he]
    have : tailCut ((rt.node rt.depth).kids.drop (rt.index rt.depth)) rt.textOffset = [] := by
      apply ftoks_inj _ _ hnt (by simp [fnorm, chainOk])
      rw [← hdrop, ftoks_nil, List.drop_eq_nil_of_le]
      rw [ftoks_length]
      omega
    rw [this]; rfl
  · have hlt : t - rt.start rt.depth < fsize (rt.node rt.depth).kids := by omega
    unfold sliceKids
    rw [if_neg he, if_neg (by simp [inRange, hle, hend]; omega)]
    have e1 : t = rt.start rt.depth + (t - rt.start rt.depth) := by omega
    have := hl.sliceScan (t - rt.start rt.depth) (fsize (rt.node rt.depth).kids) (Nat.le_of_lt hlt) (Nat.le_refl _)
    rw [← e1] at this
    rw [this, sliceScan_flat' _ _ _ _ _ _ hT.depth]
    unfold sliceHere
    obtain ⟨c, hc⟩ := fcut_total (rt.node rt.depth).kids (t - rt.start rt.depth) (fsize (rt.node rt.depth).kids)
      (Nat.le_of_lt hlt) (Nat.le_refl _) hT.aligned (alignedAt_fsize _) hnL
    have hcn := fcut_norm _ _ _ _ hnL hc
    have htk := fcut_suffix_toks hc hT.depth
    rw [hc, hT.depth, depthAt_fsize]
    have : c = tailCut ((rt.node rt.depth).kids.drop (rt.index rt.depth)) rt.textOffset :=
      ftoks_inj _ _ hcn hnt (by rw [htk, hdrop])
    rw [this]

/-! ### `Slice.insert_at(0, gap)` on the slice of a deletion -/

theorem leftS_size_ge : ∀ (frs : List Frame) (fills : List (List Node)) (G : List Node),
    frs.length = fills.length → 2 * frs.length ≤ fsize (leftS frs fills G)
  | [], _, _, _ => by simp
  | _ :: _, [], _, h => by simp at h
  | fr :: frs, fill :: fills, G, h => by
    simp only [List.length_cons, Nat.add_right_cancel_iff] at h
    have := leftS_size_ge frs fills G h
    simp only [leftS, Frame.node, fsize_cons, fsize_nil, Node.size_elem, fsize_append, List.length_cons]
    omega

/-- **`insert_into` at the innermost level of the open start of a deletion's slice**: `frs.length` levels down the
    first-child chain (every node on it is on the open side: no `can_replace` test), the content goes in front of what
    is there -/
theorem insertInto_leftS (S : Schema) (G : List Node) : ∀ (frs : List Frame) (fills : List (List Node))
    (tail : List Node) (ob : Nat), frs.length = fills.length → (∀ x ∈ fills, textFreeKids x = true) →
    textFreeKids tail = true →
    insertInto S G none (leftS frs fills [] ++ tail) frs.length 0 (leftS frs fills [] ++ tail) frs.length frs.length ob
      = .ok (some (leftS frs fills G ++ tail))
  | [], fills, tail, ob, _, _, htail => by
    have hnt : fnormKids tail = true := fnormKids_textFree tail htail
    simp only [leftS, List.length_nil, List.nil_append]
    have hflat : flatInsert S G none tail 0 0 = .ok (some (G ++ tail)) := by
      unfold flatInsert
      simp only
      have h2 := fcut_zero_full tail
      rcases fcut_zero_zero tail with h1 | ⟨h1, hz⟩
      · rw [h1, h2]
        simp only [fappend_nil_left]
        rw [PM.FromDom.fappend_notText _ _ (textFree_notText_all htail)]
      · have : tail = [] := fsize_zero_of_fnormKids tail hnt hz
        subst this
        rw [h1]
        simp only [fcut, fsize_nil, fappend, List.append_nil]
        cases G <;> rfl
    cases tail with
    | nil => unfold insertInto; rw [if_pos rfl]; exact hflat
    | cons x xs => unfold insertInto; rw [if_pos rfl]; exact hflat
  | _ :: _, [], _, _, h, _, _ => by simp at h
  | fr :: frs, fill :: fills, tail, ob, h, hfills, htail => by
    simp only [List.length_cons, Nat.add_right_cancel_iff] at h
    have hsz := leftS_size_ge frs fills [] h
    have ih := fun ob' => insertInto_leftS S G frs fills fill ob' h (fun x hx => hfills x (by simp [hx]))
      (hfills fill (by simp))
    simp only [leftS, Frame.node, List.length_cons, List.cons_append, List.nil_append] at ih ⊢
    unfold insertInto
    rw [if_neg (by omega), if_neg (by simp only [Node.size_elem, fsize_append]; omega)]
    simp only [Nat.add_sub_cancel, Nat.zero_lt_succ, decide_true, beq_self_eq_true,
      Bool.and_self, Bool.true_or, if_true]
    rw [ih]
    simp

/-! ### the innermost level with the moved content: valid by `inlineUniformB` -/

/-- `Fragment.append` in front of further children keeps content validity (adjacent text nodes merge) -/
theorem validContent_fappend_pre {S : Schema} (hts : TextStableP S) (ty : TypeId) (X Y R : List Node)
    (h : S.validContent ty (X ++ Y ++ R) = true) : S.validContent ty (fappend X Y ++ R) = true := by
  unfold fappend
  cases Y with
  | nil => simpa using h
  | cons c rest =>
    simp only
    split
    · rename_i he
      have : X = [] := by simpa using he
      subst this
      simpa using h
    · simp only [Schema.validContent, Bool.and_eq_true, List.all_eq_true] at h ⊢
      constructor
      · have h1 := h.1
        simp only [Dfa.accepts] at h1 ⊢
        split at h1
        · rename_i q hq
          have e : S.types (X ++ c :: rest ++ R) = S.types (X ++ [c]) ++ S.types (rest ++ R) := by
            simp [Schema.types]
          rw [e] at hq
          have := run_addNode hts ty X c (S.types (rest ++ R)) 0 q hq
          rw [List.append_assoc, types_append, this]
          exact h1
        · simp at h1
      · intro x hx
        simp only [List.mem_append] at hx
        rcases hx with (hx | hx) | hx
        · exact addNode_marks (fun m => (S.nodeType ty).allowsMarks m = true) X c
            (fun y hy => h.2 y (by simp [hy])) (h.2 c (by simp)) x hx
        · exact h.2 x (by simp [hx])
        · exact h.2 x (by simp [hx])

/-- every state of the automaton of `t` offers the edges of every other state, to the same targets -/
def InlineUniform (S : Schema) (t : TypeId) : Prop :=
  ∀ q r, q < (S.dfa t).size → r < (S.dfa t).size → ∀ e ∈ (S.dfa t).edgesOf q, (S.dfa t).matchType r e.1 = some e.2

theorem inlineUniform_of_B (S : Schema) (h : inlineUniformB S = true) (t : TypeId)
    (hi : (S.nodeType t).inlineContent = true) : InlineUniform S t := by
  intro q r hq hr e he
  have ht : t < S.nodes.size := ty_lt_of_edge S he
  simp only [inlineUniformB, List.all_eq_true, List.mem_range, Bool.or_eq_true, Bool.not_eq_eq_eq_not, Bool.not_true,
    beq_iff_eq] at h
  rcases h t ht with h1 | h1
  · rw [hi] at h1; simp at h1
  · exact h1 q hq r hr e he

theorem run_acc_lt (d : Dfa) (q qf : Nat) (w : List TypeId) (hr : d.run q w = some qf) (hv : d.validEnd qf = true) :
    q < d.size := by
  have hqf : qf < d.size := by
    rcases Nat.lt_or_ge qf d.size with h | h
    · exact h
    · exfalso
      simp only [Dfa.validEnd] at hv
      rw [Array.getElem?_eq_none (by omega)] at hv
      simp at hv
  cases w with
  | nil =>
    simp only [Dfa.run, Option.some.injEq] at hr
    rw [hr]; exact hqf
  | cons y w =>
    simp only [Dfa.run] at hr
    cases hm : d.matchType q y with
    | none => rw [hm] at hr; simp at hr
    | some q1 => exact edgesOf_lt (Dfa.mem_of_matchType hm)

/-- in a uniform automaton a non-empty word runs the same from every state -/
theorem run_uniform {S : Schema} {t : TypeId} (hU : InlineUniform S t) (q r : Nat) (hq : q < (S.dfa t).size)
    (hr : r < (S.dfa t).size) (y : TypeId) (w : List TypeId) :
    (S.dfa t).run q (y :: w) = (S.dfa t).run r (y :: w) := by
  simp only [Dfa.run]
  cases hm : (S.dfa t).matchType q y with
  | some q1 =>
    have := hU q r hq hr (y, q1) (Dfa.mem_of_matchType hm)
    simp only at this
    rw [this]
  | none =>
    cases hm' : (S.dfa t).matchType r y with
    | none => rfl
    | some r1 =>
      have := hU r q hr hq (y, r1) (Dfa.mem_of_matchType hm')
      simp only at this
      rw [this] at hm; simp at hm

/-- **the moved content in front of the filler**: if the filler and what follows are accepted from `q`, and the moved
    content is accepted from `q` behind some filling, then the moved content followed by the filler and the rest is
    accepted from `q` -/
theorem uniform_accepts {S : Schema} {t : TypeId} (hU : InlineUniform S t) (q : Nat) (wg wf wa wf' : List TypeId)
    (e1 e2 : Nat) (h1 : (S.dfa t).run q (wf ++ wa) = some e1) (hv1 : (S.dfa t).validEnd e1 = true)
    (h2 : (S.dfa t).run q (wf' ++ wg) = some e2) (hv2 : (S.dfa t).validEnd e2 = true) :
    ∃ e, (S.dfa t).run q (wg ++ (wf ++ wa)) = some e ∧ (S.dfa t).validEnd e = true := by
  cases wg with
  | nil => exact ⟨e1, by simpa using h1, hv1⟩
  | cons y wg' =>
    have hq : q < (S.dfa t).size := run_acc_lt _ q e2 _ h2 hv2
    rw [Dfa.run_append] at h2
    cases hq2 : (S.dfa t).run q wf' with
    | none => rw [hq2] at h2; simp at h2
    | some q2 =>
      rw [hq2] at h2
      simp only [Option.bind_some] at h2
      have hq2lt : q2 < (S.dfa t).size := run_acc_lt _ q2 e2 _ h2 hv2
      have hrun : (S.dfa t).run q (y :: wg') = some e2 := by
        rw [run_uniform hU q q2 hq hq2lt y wg']; exact h2
      rw [Dfa.run_append, hrun]
      simp only [Option.bind_some]
      cases hw : wf ++ wa with
      | nil => exact ⟨e2, rfl, hv2⟩
      | cons z w' =>
        have he2 : e2 < (S.dfa t).size := run_acc_lt _ e2 e2 [] rfl hv2
        rw [hw] at h1
        rw [run_uniform hU e2 q he2 hq z w']
        exact ⟨e1, h1, hv1⟩

/-- **the innermost level of `from` with the moved content** (the textblock `from` is in has a uniform automaton) -/
theorem botLOK_gap (S : Schema) (hdet : DetS S) (hleaf : LeafOk S) (hts : TextStableP S) {ty0 : TypeId} {a0 : Attrs}
    {m0 : Marks} {K : List Node} {f : Nat} {rf : RPos} (hf : (Node.elem ty0 a0 m0 K).resolve f = some rf)
    (hv : S.checkNode (.elem ty0 a0 m0 K) = true) (hU : InlineUniform S (S.tyOf rf.parent)) (X Gc : List Node)
    (hX : sigOf S X = sigOf S (rf.parent.kids.take (rf.indexAfter rf.depth))) (q : Nat)
    (hq : S.contentMatchAt (S.tyOf rf.parent) rf.parent.kids (rf.indexAfter rf.depth) = some q)
    (hfit' : ∃ fit', fillOpt S (S.dfa (S.tyOf rf.parent)) q (S.types Gc) true = .ok (some fit'))
    (hmG : MarksOK S (S.tyOf rf.parent) Gc) : BotLOK S rf q (fappend X Gc) := by
  intro fill after H2 hfill hH2 hm2
  obtain ⟨fit', hfit⟩ := hfit'
  obtain ⟨hvD, _, _⟩ := level_check S hf hv rf.depth (Nat.le_refl _)
  -- the two fillings
  have hft := fillBeforeNodes_types S _ _ _ _ _ (liftRaise_ok hfill)
  obtain ⟨_, q1, hr1, hfin1⟩ := fillBeforeTypes_sound S _ (hdet _) q _ true _ hft
  have hft' := fillBeforeNodes_types S _ _ _ _ _ (liftRaise_ok hfit)
  obtain ⟨_, q2, hr2, hfin2⟩ := fillBeforeTypes_sound S _ (hdet _) q _ true _ hft'
  have hfm := fillOpt_nodes S hdet hleaf _ _ _ _ _ hfill
  unfold fillFinished at hfin1 hfin2
  cases ha1 : (S.dfa (S.tyOf rf.parent)).run q1 (S.types after) with
  | none => rw [ha1] at hfin1; simp at hfin1
  | some e1 =>
    cases ha2 : (S.dfa (S.tyOf rf.parent)).run q2 (S.types Gc) with
    | none => rw [ha2] at hfin2; simp at hfin2
    | some e2 =>
      rw [ha1] at hfin1
      rw [ha2] at hfin2
      have hv1 : (S.dfa (S.tyOf rf.parent)).validEnd e1 = true := by simpa using hfin1
      have hv2 : (S.dfa (S.tyOf rf.parent)).validEnd e2 = true := by simpa using hfin2
      have h1 : (S.dfa (S.tyOf rf.parent)).run q (S.types fill ++ S.types after) = some e1 := by
        rw [Dfa.run_append, hr1]; exact ha1
      have h2 : (S.dfa (S.tyOf rf.parent)).run q (S.types fit' ++ S.types Gc) = some e2 := by
        rw [Dfa.run_append, hr2]; exact ha2
      obtain ⟨e, hrun, hve⟩ := uniform_accepts hU q _ _ _ _ e1 e2 h1 hv1 h2 hv2
      -- the unmerged list is valid
      have hval : S.validContent (S.tyOf rf.parent) (X ++ Gc ++ (fill ++ H2)) = true := by
        simp only [Schema.validContent, Bool.and_eq_true, List.all_eq_true]
        constructor
        · unfold Dfa.accepts
          have hq' : (S.dfa (S.tyOf rf.parent)).run 0 (S.types X) = some q := by
            rw [sigOf_types S hX]; exact hq
          rw [types_append, types_append, types_append, hH2, List.append_assoc, Dfa.run_append, hq']
          simp only [Option.bind_some]
          rw [hrun]; exact hve
        · intro c hc
          simp only [List.mem_append] at hc
          rcases hc with (hc | hc) | hc | hc
          · exact sigOf_marksOK S _ hX (marksOK_sub S _ (marksOK_of_valid S _ _ hvD)
              (fun c hc => List.mem_of_mem_take hc)) c hc
          · exact hmG c hc
          · rw [(hfm c hc).2]; exact allowsMarks_nil _
          · exact hm2 c hc
      have := validContent_fappend_pre hts _ X Gc (fill ++ H2) hval
      rwa [← List.append_assoc] at this

/-! ### the seams with moved content -/

theorem getLast?_append_ne {α : Type} (l l' : List α) (h : l' ≠ []) : (l ++ l').getLast? = l'.getLast? := by
  rw [List.getLast?_append]
  cases hl : l'.getLast? with
  | none => exact absurd (List.getLast?_eq_none_iff.1 hl) h
  | some x => rfl

/-- a position of the spliced list is pair-aligned when the token in front of it is not a high surrogate -/
theorem tokAligned_at_end (P Q : List Tok) (h : ∀ c m, P.getLast? = some (Tok.unit c m) → isHigh c = false) :
    tokAligned (P ++ Q) P.length = true := by
  cases hP : P.length with
  | zero => rfl
  | succ j =>
    simp only [tokAligned]
    have hj : (P ++ Q)[j]? = P.getLast? := by
      rw [List.getLast?_eq_getElem?, hP, Nat.add_sub_cancel, List.getElem?_append_left (by omega)]
    rw [hj]
    split
    · rename_i hh m lo m' h3 h4
      have := h hh m h3
      simp [this]
    · rfl

/-- the token in front of a pair-aligned position is not a high surrogate (every high surrogate is followed by its
    low surrogate) -/
theorem prev_not_high (L : List Tok) (hc : toksHighClosed L) (i : Nat) (hi : i ≤ L.length)
    (ha : tokAligned L i = true) : ∀ c m, (L.take i).getLast? = some (Tok.unit c m) → isHigh c = false := by
  intro c m hl
  cases i with
  | zero => simp at hl
  | succ j =>
    rw [List.getLast?_eq_getElem?, List.length_take, Nat.min_eq_left hi, Nat.add_sub_cancel, List.getElem?_take,
      if_pos (by omega)] at hl
    cases hh : isHigh c with
    | false => rfl
    | true =>
      exfalso
      obtain ⟨c', h1, h2⟩ := hc j c m hl hh
      simp only [tokAligned, hl, h1] at ha
      simp [hh, h2] at ha

/-- **the seams of `L[..f] ++ (Gt ++ Xn) ++ L[T..]`**: `Xn` holds no text, the last token of `Gt` is not a high
    surrogate, `f` is pair-aligned in `L` -/
theorem seams_gap (L Gt Xn : List Tok) (f T : Nat) (hc : toksHighClosed L) (hf : f ≤ L.length)
    (haf : tokAligned L f = true) (hXn : ∀ x ∈ Xn, x.isUnit = false)
    (hlast : ∀ c m, Gt.getLast? = some (Tok.unit c m) → isHigh c = false) :
    tokAligned (L.take f ++ (Gt ++ Xn) ++ L.drop T) f = true ∧
      tokAligned (L.take f ++ (Gt ++ Xn) ++ L.drop T) (f + (Gt ++ Xn).length) = true := by
  have hPl : (L.take f).length = f := by simp; omega
  have hprev := prev_not_high L hc f hf haf
  constructor
  · have := tokAligned_at_end (L.take f) ((Gt ++ Xn) ++ L.drop T) hprev
    rwa [hPl, ← List.append_assoc] at this
  · have := tokAligned_at_end (L.take f ++ (Gt ++ Xn)) (L.drop T) (by
      intro c m hl
      by_cases hX : Xn = []
      · subst hX
        rw [List.append_nil] at hl
        by_cases hG : Gt = []
        · subst hG
          rw [List.append_nil] at hl
          exact hprev c m hl
        · rw [getLast?_append_ne _ _ hG] at hl
          exact hlast c m hl
      · rw [← List.append_assoc, getLast?_append_ne _ _ hX] at hl
        have := hXn _ (List.mem_of_getLast? hl)
        simp [Tok.isUnit] at this)
    rwa [List.length_append, hPl] at this

/-! ### `must_move_inline` -/

/-- the loop `while depth > 1`: the answer is the position behind one of the ancestors of `to`, and that position is
    not the end of the node it lies in (unless that node is the document) -/
theorem moveInlineAfter_level (rt : RPos) : ∀ k, 1 ≤ k → ∃ j, j < k ∧
    moveInlineAfter rt k (rt.end_ k + 1) = rt.end_ (j + 1) + 1 ∧ (j = 0 ∨ rt.end_ (j + 1) + 1 ≠ rt.end_ j)
  | 0, h => by omega
  | 1, _ => ⟨0, by omega, rfl, .inl rfl⟩
  | d + 2, _ => by
    simp only [moveInlineAfter]
    split
    · rename_i hne
      exact ⟨d + 1, by omega, rfl, .inr (by simpa using hne)⟩
    · rename_i heq
      have heq' : rt.end_ (d + 2) + 1 = rt.end_ (d + 1) := by simpa using heq
      obtain ⟨j, hj, h1, h2⟩ := moveInlineAfter_level rt (d + 1) (by omega)
      rw [heq']
      exact ⟨j, by omega, h1, h2⟩

theorem mustMoveInline_spec (S : Schema) (doc : Node) (rt : RPos) (fr : List FItem) (p : Nat)
    (h : mustMoveInline S doc rt fr = .ok (some p)) :
    ∃ top fit' after, fr[fr.length - 1]? = some top ∧ S.isTextblockO top.ty = true ∧
      contentAfterFits S rt rt.depth top.ty top.st false = .ok (some fit') ∧
      rt.after rt.depth = some after ∧ p = moveInlineAfter rt rt.depth after := by
  unfold mustMoveInline at h
  split at h
  · simp [pure, Except.pure] at h
  · obtain ⟨top, htop, h⟩ := FM.bind_ok h
    split at h
    · simp [pure, Except.pure] at h
    · rename_i htb
      obtain ⟨r, hr, h⟩ := FM.bind_ok h
      cases r with
      | none => simp [pure, Except.pure] at h
      | some fit' =>
        simp only at h
        obtain ⟨blocked, _, h⟩ := FM.bind_ok h
        cases blocked with
        | true => simp [pure, Except.pure] at h
        | false =>
          simp only [Bool.false_eq_true, if_false] at h
          obtain ⟨after, ha, h⟩ := FM.bind_ok h
          have := pure_ok h
          simp only [Option.some.injEq] at this
          refine ⟨top, fit', after, ?_, by simpa using htb, hr, liftRaise_ok ha, this.symm⟩
          unfold getItem at htop
          split at htop
          · rename_i it hit
            have := pure_ok htop
            subst this
            exact hit
          · simp [throw, throwThe, MonadExceptOf.throw] at htop

/-- at the position `must_move_inline` answers, `find_close_level` never drops the node around it -/
theorem no_drop_after_move {doc : Node} {p : Nat} {tg : RPos} (R : Resolved doc p tg)
    (h : tg.depth = 0 ∨ p ≠ tg.end_ tg.depth) (i : Nat) : dropInnerB tg i = false := by
  cases hd : dropInnerB tg i with
  | false => rfl
  | true =>
    exfalso
    simp only [dropInnerB, Bool.and_eq_true, decide_eq_true_eq, beq_iff_eq] at hd
    obtain ⟨hi, he⟩ := hd
    have hn := (R.nestW (i + 1) tg.depth (by omega) (Nat.le_refl _)).2
    have hp := (R.pos_in tg.depth (Nat.le_refl _)).2
    rw [R.pos_eq] at he
    rcases h with h | h
    · omega
    · omega

/-! ### the replace-around answer applies -/

/-- **`Fitter.fit` on a deletion with `must_move_inline() = p`**: the step
    `ReplaceAroundStep(from, p, to, to.end(), <placed, normalised>, 0)` applies -/
theorem close_around_applies (S : Schema) (hdet : DetS S) (hleaf : LeafOk S) (hfl : FillersOK S) (hcl : Closable S)
    (hts : TextStableP S) (hjc : joinCompatB S = true) (hro : reopenOKB S = true) (hiu : inlineUniformB S = true)
    {ty0 : TypeId} {a0 : Attrs} {m0 : Marks} {K : List Node} {f t p : Nat} {rf rt tg : RPos}
    (hf : (Node.elem ty0 a0 m0 K).resolve f = some rf) (ht : (Node.elem ty0 a0 m0 K).resolve t = some rt)
    (htg : (Node.elem ty0 a0 m0 K).resolve p = some tg)
    (hv : S.checkNode (.elem ty0 a0 m0 K) = true) (hn : fnorm K = true)
    (hattrs : S.nodeAttrsOK (.elem ty0 a0 m0 K) = true) (hhc : highClosedKids K = true)
    (hpf : rf.pairOk = true) (hpt : rt.pairOk = true) (hft : f ≤ t)
    (st0 : FitState) (h0 : fitInit S rf Slice.empty = .ok st0)
    (hmi : mustMoveInline S (.elem ty0 a0 m0 K) rt st0.frontier = .ok (some p))
    (mv : RPos) (placed : List Node)
    (hcf : closeFit S (.elem ty0 a0 m0 K) tg st0.frontier st0.placed = .ok (some (mv, placed))) :
    ∃ doc', S.apply (.replaceAround f p t (rt.end_ rt.depth)
      ⟨(normalizeOpen (rf.depth + 1) placed rf.depth mv.depth).1,
       (normalizeOpen (rf.depth + 1) placed rf.depth mv.depth).2.1,
       (normalizeOpen (rf.depth + 1) placed rf.depth mv.depth).2.2⟩ 0 false) (.elem ty0 a0 m0 K) = .ok doc' := by
  have Rf := resolve_resolved hf
  have Rt := resolve_resolved ht
  have Rg := resolve_resolved htg
  obtain ⟨_, hpl0, qD, hcmD, hF, hqtop⟩ := frontierOf_init S hf Slice.empty st0 h0
  have hlen0 := hF.1
  -- what `must_move_inline` tested
  obtain ⟨top, fit', after, htop, htb, hfits, hafter, hp⟩ := mustMoveInline_spec S _ rt _ p hmi
  have hE : 1 ≤ rt.depth := by
    rcases Nat.eq_zero_or_pos rt.depth with h0' | h0'
    · rw [h0'] at hafter; simp [RPos.after] at hafter
    · exact h0'
  rw [Rt.after_eq rt.depth hE (Nat.le_refl _)] at hafter
  simp only [Option.some.injEq] at hafter
  subst hafter
  obtain ⟨j, hj, hpj, hjne⟩ := moveInlineAfter_level rt rt.depth hE
  rw [hpj] at hp
  -- the position the content is moved in front of
  have haj : rt.after (j + 1) = some p := by rw [Rt.after_eq (j + 1) (by omega) (by omega), hp]
  obtain ⟨hgd, _, _, _, _, hgto, hgend⟩ := closeMove_drop S ht hn j hj haj htg
  have hgpair : tg.pairOk = true := by simp [RPos.pairOk, hgto]
  have htp : t ≤ p := by
    have := (Rt.pos_in (j + 1) (by omega)).2
    omega
  have hnodrop : ∀ i, dropInnerB tg i = false := by
    refine no_drop_after_move Rg ?_
    rcases hjne with h | h
    · exact .inl (by rw [hgd, h])
    · refine .inr ?_
      rw [hgd, hgend j (Nat.le_refl _), hp]
      exact h
  -- `close` continues from that position itself
  obtain ⟨lv, hlv, hmvlv⟩ := closeFit_move S _ tg _ _ mv placed hcf
  obtain ⟨_, _, _, _, _, hkeep⟩ := closeFacts_of S htg hn st0.frontier hF lv hlv
  have hmv : mv = tg := by rw [hmvlv]; exact hkeep (hnodrop _)
  -- the two flat ends
  obtain ⟨hKf0, hfpos, hfs, hfle⟩ := doc_plug hf
  have hKf : K = plug (framesFrom rf 0 rf.depth) rf.parent.kids := hKf0
  obtain ⟨hKt0, _, _, _⟩ := doc_plug ht
  have hKt : K = plug (framesFrom rt 0 rt.depth) rt.parent.kids := hKt0
  obtain ⟨hFl, _, hidxF⟩ := resolved_flatAt hf hpf
  obtain ⟨hTl, _, hidxT⟩ := resolved_flatAt ht hpt
  obtain ⟨hvF, hkF, _⟩ := level_check S hf hv rf.depth (Nat.le_refl _)
  obtain ⟨_, hkT, _⟩ := level_check S ht hv rt.depth (Nat.le_refl _)
  have hnF : fnorm rf.parent.kids = true := (plug_framesFN _ _ (hKf ▸ hn)).2
  have hnT : fnorm rt.parent.kids = true := (plug_framesFN _ _ (hKt ▸ hn)).2
  obtain ⟨hnX, htkX, hkX, hsX⟩ := flat_left_facts S hFl hnF hkF
  obtain ⟨hspR, hkG, hsG⟩ := flat_right_facts S hTl hnT hkT
  have hnG := splitRight_flat_fnorm _ _ _ hnT hspR
  have hAl : (rf.parent.kids.take (rf.index rf.depth)).length = rf.index rf.depth := by
    rw [List.length_take]; omega
  have hBl : (rt.parent.kids.take (rt.index rt.depth)).length = rt.index rt.depth := by
    rw [List.length_take]; omega
  have hsX' : sigOf S (rf.parent.kids.take (rf.index rf.depth) ++ headCut (rf.parent.kids.drop (rf.index rf.depth)) rf.textOffset)
      = sigOf S (rf.parent.kids.take (rf.indexAfter rf.depth)) := by
    rw [hsX, hAl]
    unfold RPos.indexAfter
    simp
  rw [hBl] at hsG
  -- the textblock `from` is in: its automaton is uniform, the moved content is accepted there
  obtain ⟨qD', hqD, hfs⟩ := hF.2 rf.depth (Nat.le_refl _)
  rw [frontSt_top] at hfs
  simp only [Option.some.injEq] at hfs
  subst hfs
  rw [hlen0, Nat.add_sub_cancel, hqD] at htop
  simp only [Option.some.injEq] at htop
  subst htop
  obtain ⟨_, _, q', hq', hfillG, himG⟩ := contentAfterFits_spec S rt rt.depth _ _ false fit' hfits
  simp only [Bool.false_eq_true, if_false, Option.some.injEq] at hq' hfillG himG
  subst hq'
  have hU : InlineUniform S (S.tyOf rf.parent) := by
    refine inlineUniform_of_B S hiu _ ?_
    simp only [Schema.isTextblockO, Bool.and_eq_true] at htb
    exact htb.2
  have hbLok := botLOK_gap S hdet hleaf hts hf hv hU _ _ hsX' qD hcmD
    ⟨fit', by rw [sigOf_types S hsG]; exact hfillG⟩
    (sigOf_marksOK S _ hsG (invalidMarks_false S _ _ himG))
  -- the gap as a slice
  have hslice := slice_to_end ht hn hpt
  have htEnd : rt.end_ rt.depth ≤ fsize K := (Rt.end_le_size rt.depth (Nat.le_refl _)).1
  have htle : t ≤ rt.end_ rt.depth := (Rt.pos_in rt.depth (Nat.le_refl _)).2
  have hGtoks : ftoks (tailCut (rt.parent.kids.drop (rt.index rt.depth)) rt.textOffset)
      = ((ftoks K).drop t).take (rt.end_ rt.depth - t) := by
    have := sliceKids_toks K t (rt.end_ rt.depth) _ htle htEnd hslice
    simp only [Slice.toks, List.drop_zero, Nat.sub_zero] at this
    rw [← this, List.take_of_length_le (by rw [ftoks_length]; exact Nat.le_refl _)]
  -- alignment at the end of the gap
  have hKn := ftoks_highClosed K hhc
  have haEnd : tokAligned (ftoks K) (rt.end_ rt.depth) = true := by
    obtain ⟨tyP, aP, mP, ctx, _, hl⟩ := Resolved.lvl ht hn rt.depth (Nat.le_refl _)
    rw [← alignedAt_toks K _ hn, Resolved.end_eq, (hl.depth _ (Nat.le_refl _)).2]
    exact alignedAt_fsize _
  have haf : tokAligned (ftoks K) f = true := by
    rw [← alignedAt_toks K _ hn, hfpos, hKf, plug_aligned _ _ _ (plug_norm _ _ (hKf ▸ hn)).1 hfle]
    exact hFl.aligned
  have hlast : ∀ c m, (ftoks (tailCut (rt.parent.kids.drop (rt.index rt.depth)) rt.textOffset)).getLast?
      = some (Tok.unit c m) → isHigh c = false := by
    intro c m hl
    by_cases hem : ftoks (tailCut (rt.parent.kids.drop (rt.index rt.depth)) rt.textOffset) = []
    · rw [hem] at hl; simp at hl
    · refine prev_not_high (ftoks K) hKn (rt.end_ rt.depth) (by rw [ftoks_length]; exact htEnd) haEnd c m ?_
      have e : (ftoks K).take (rt.end_ rt.depth)
          = (ftoks K).take t ++ ((ftoks K).drop t).take (rt.end_ rt.depth - t) := by
        conv => lhs; rw [show rt.end_ rt.depth = t + (rt.end_ rt.depth - t) by omega]
        rw [List.take_add]
      rw [e, ← hGtoks, getLast?_append_ne _ _ hem]
      exact hl
  -- the replace with the gap content in place
  rw [hpl0] at hcf
  obtain ⟨ffsB, fills, tail, b, hlenB, htfF, htft, hbt, hnorm, X, hX⟩ := close_core S hdet hleaf hfl hcl hts hjc hro hf htg hv hn
    hattrs hpf hgpair (by omega) st0.frontier qD [] hF hqtop mv placed hcf _ (fappend _ _) hnG
    (by rw [fappend_toks, htkX]) (fappend_norm _ _ hnX hnG) (fappend_checkKids S _ _ hkX hkG) hbLok
    (fun Xn T hXn _ _ => seams_gap (ftoks K) _ Xn f T hKn (by rw [ftoks_length]; exact Rf.le) haf hXn hlast)
  -- the step
  rw [hnorm]
  have hpm : mv.pos = p := by rw [hmv]; exact Rg.pos_eq
  rw [hpm] at hX
  have hins := insertInto_leftS S (tailCut (rt.parent.kids.drop (rt.index rt.depth)) rt.textOffset) ffsB fills tail b
    hlenB htfF htft
  have hsl : (Node.elem ty0 a0 m0 K).slice t (rt.end_ rt.depth)
      = .ok ⟨tailCut (rt.parent.kids.drop (rt.index rt.depth)) rt.textOffset, 0, 0⟩ := hslice
  -- the position `insert = 0` lies inside the slice: every open level is a node of the content
  have hia : Slice.insertAt S ⟨leftS ffsB fills [] ++ tail, ffsB.length, b⟩ 0
      (tailCut (rt.parent.kids.drop (rt.index rt.depth)) rt.textOffset)
      = .ok (some ⟨leftS ffsB fills (tailCut (rt.parent.kids.drop (rt.index rt.depth)) rt.textOffset) ++ tail,
          ffsB.length, b⟩) := by
    have hsz := leftS_size_ge ffsB fills [] hlenB
    rw [insertAt_of_le (by simp only [Slice.size, fsize_append]; omega)]
    simp only [Slice.insertAtIn, Nat.zero_add, hins]
  simp only [Schema.apply, Bool.false_eq_true, if_false, hsl, hia,
    Schema.fromReplace, Schema.replace, hX, Except.map]
  exact ⟨_, rfl⟩

/-! ### `replace_step` on a deletion: every emitted step applies -/

/-- **every step `replace_step` emits for a deletion applies** -/
theorem replaceStep_delete_applies (S : Schema) (hdet : DetS S) (hleaf : LeafOk S) (hfl : FillersOK S)
    (hcl : Closable S) (hts : TextStableP S) (hta : TextAbsorb S) (hjc : joinCompatB S = true)
    (hro : reopenOKB S = true) (hiu : inlineUniformB S = true) (ty0 : TypeId) (a0 : Attrs) (m0 : Marks)
    (K : List Node) (f t : Nat)
    (hv : S.checkNode (.elem ty0 a0 m0 K) = true) (hn : fnorm K = true)
    (hattrs : S.nodeAttrsOK (.elem ty0 a0 m0 K) = true) (hhc : highClosedKids K = true) (hft : f ≤ t)
    (rf rt : RPos) (hf : (Node.elem ty0 a0 m0 K).resolve f = some rf)
    (ht : (Node.elem ty0 a0 m0 K).resolve t = some rt) (hpf : rf.pairOk = true) (hpt : rt.pairOk = true)
    (st : Step) (h : replaceStep S (.elem ty0 a0 m0 K) f t Slice.empty = .ok (some st)) :
    ∃ doc', S.apply st (.elem ty0 a0 m0 K) = .ok doc' := by
  unfold replaceStep at h
  split at h
  · simp [pure, Except.pure] at h
  · simp only [hf, ht] at h
    split at h
    · simp [throw, throwThe, MonadExceptOf.throw] at h
    · rename_i htr
      have := pure_ok h
      simp only [Option.some.injEq] at this
      subst this
      exact trivial_delete_applies' S hta hts ty0 a0 m0 K f t rf rt hf ht hv hn hft hpf hpt htr
    · unfold fitterFit at h
      obtain ⟨st0, h0, h⟩ := FM.bind_ok h
      obtain ⟨hu, _, hlen0, _⟩ := fitInit_spec S hf Slice.empty st0 h0
      obtain ⟨st0', h0', _, _, _, _, hsz⟩ := fitInit_ok S hf hv Slice.empty
      rw [h0] at h0'
      simp only [Except.ok.injEq] at h0'
      subst h0'
      rw [FM.bind_eq (fitLoop_empty S _ st0 hu)] at h
      obtain ⟨mi, hmi, h⟩ := FM.bind_ok h
      simp only at h
      obtain ⟨target, htarget, h⟩ := FM.bind_ok h
      obtain ⟨c, hc, h⟩ := FM.bind_ok h
      have hpos : rf.pos = f := (resolve_resolved hf).pos_eq
      have hpos' : rt.pos = t := (resolve_resolved ht).pos_eq
      cases c with
      | none => simp [pure, Except.pure] at h
      | some c =>
        simp only at h
        cases mi with
        | none =>
          have htg : target = rt := by
            simp only [closeTarget] at htarget
            exact (pure_ok htarget).symm
          subst htg
          unfold fitEmit at h
          simp only at h
          split at h
          · have := pure_ok h
            simp only [Option.some.injEq] at this
            subst this
            rw [hpos]
            exact close_replace_applies S hdet hleaf hfl hcl hts hjc hro hf ht hv hn hattrs hhc hpf hpt hft st0 h0
              c.1 c.2 hc
          · simp [pure, Except.pure] at h
        | some p =>
          have htg : (Node.elem ty0 a0 m0 K).resolve p = some target := by
            simp only [closeTarget] at htarget
            exact liftRaise_ok htarget
          unfold fitEmit at h
          simp only at h
          split at h
          · simp [throw, throwThe, MonadExceptOf.throw] at h
          · have := pure_ok h
            simp only [Option.some.injEq] at this
            subst this
            have hps : ((fsize st0.placed : Int) - ((st0.frontier.length - 1 : Nat) : Int) - (rf.depth : Int)).toNat = 0 := by
              rw [hsz, hlen0]
              simp only [Nat.add_sub_cancel]
              omega
            rw [hpos, hpos', hps]
            exact close_around_applies S hdet hleaf hfl hcl hts hjc hro hiu hf ht htg hv hn hattrs hhc hpf hpt hft
              st0 h0 hmi c.1 c.2 hc

/-! ### pair-alignment of a position from the document's tokens -/

/-- a position that is pair-aligned in the document is pair-aligned in the text child it resolves into -/
theorem pairOk_of_aligned {ty0 : TypeId} {a0 : Attrs} {m0 : Marks} {K : List Node} {pos : Nat} {r : RPos}
    (h : (Node.elem ty0 a0 m0 K).resolve pos = some r) (hn : fnorm K = true) (ha : alignedAt K pos = true) :
    r.pairOk = true := by
  have R := resolve_resolved h
  by_cases ho : r.textOffset = 0
  · simp [RPos.pairOk, ho]
  · obtain ⟨s, m, hs, hlt⟩ := R.in_text ho
    simp only [RPos.pairOk, hs, Bool.or_eq_true, decide_eq_true_eq]
    right
    obtain ⟨hK0, hpos, _, hle⟩ := doc_plug h
    have hK : K = plug (framesFrom r 0 r.depth) r.parent.kids := hK0
    rw [hpos, hK, plug_aligned _ _ _ (plug_norm _ _ (hK ▸ hn)).1 hle] at ha
    have E := R.entry r.depth (Nat.le_refl _)
    have hpe : (r.entry r.depth).pos = r.start r.depth + fsize (r.parent.kids.take (r.index r.depth)) := E.pos_eq
    have hto : r.textOffset = pos - (r.entry r.depth).pos := by unfold RPos.textOffset; rw [R.pos_eq]
    have hple := E.pos_le
    have hsplit := kids_split _ _ _ hs
    have e : pos - r.start r.depth = fsize (r.parent.kids.take (r.index r.depth)) + r.textOffset := by omega
    rw [e] at ha
    conv at ha => lhs; arg 1; rw [hsplit]
    rw [alignedAt_append_pre, alignedAt_cons, if_neg ho, if_neg (by simp only [Node.size_text]; omega)] at ha
    exact ha

/-- … and conversely -/
theorem aligned_of_pairOk {ty0 : TypeId} {a0 : Attrs} {m0 : Marks} {K : List Node} {pos : Nat} {r : RPos}
    (h : (Node.elem ty0 a0 m0 K).resolve pos = some r) (hn : fnorm K = true) (hp : r.pairOk = true) :
    alignedAt K pos = true := by
  obtain ⟨hK0, hpos, _, hle⟩ := doc_plug h
  have hK : K = plug (framesFrom r 0 r.depth) r.parent.kids := hK0
  obtain ⟨hFl, _, _⟩ := resolved_flatAt h hp
  rw [hpos, hK, plug_aligned _ _ _ (plug_norm _ _ (hK ▸ hn)).1 hle]
  exact hFl.aligned

end PM
