/-
  Proofs/MarkUndo.lean — exact undo of the two range mark steps (C04, work package `wk-histundo`).

  1. the guards of PM/MarkUndoGuard.lean read over the token vocabulary of Proofs/StepToks.lean;
  2. pointwise description of an applied mark step (`MarkStepPt`), equality of documents from
     equality of tokens;
  3. `rmG`/`addG` composed on one token: the composition is the identity exactly under
     `removeUndoTok` / `addUndoTok`;
  4. single steps: restoring ⇔ guard; the inverse applies (`TextLoop`);
  5. mark-set algebra for the planner steps.
-/
import PM.MarkUndoGuard
import PM.MarkPlan
import Proofs.StepToks
import Proofs.MarkEffect
import Proofs.Marks
import Proofs.Undo
import Proofs.MarkPlan
import Proofs.MarkSuccess
import Proofs.TypePlan
import Proofs.HistoryUndo
namespace PM
open MarkGuard

/-! ### 1. the guards over the token vocabulary -/

theorem tokMarks_eq : ∀ tok : Tok, tokMarks tok = tok.marks
  | .op .. => rfl | .cl => rfl | .leaf .. => rfl | .unit .. => rfl

theorem tokInline_eq (S : Schema) : ∀ tok : Tok, tokInline S tok = isInlineTok S tok
  | .op .. => rfl | .cl => rfl | .leaf .. => rfl | .unit .. => rfl

theorem tokAtom_eq (S : Schema) : ∀ tok : Tok, tokAtom S tok = isAtomTok S tok
  | .op .. => rfl | .cl => rfl | .leaf .. => rfl | .unit .. => rfl

theorem ctxAux_cons (st : List TypeId) (tok : Tok) (r : List Tok) :
    ctxAux st (tok :: r) = st.headD 0 :: ctxAux (push st tok) r := by
  cases tok <;> rfl

theorem scan_iff (g : Nat → TypeId → Tok → Bool) : ∀ (l : List Tok) (i : Nat) (st : List TypeId),
    scanToks g i st l = true ↔
      ∀ j, j < l.length → g (i + j) ((ctxAux st l).getD j 0) (l.getD j Tok.cl) = true
  | [], i, st => by simp [scanToks]
  | tok :: r, i, st => by
    rw [scanToks, Bool.and_eq_true, scan_iff g r (i + 1) (push st tok), ctxAux_cons]
    constructor
    · rintro ⟨h0, hr⟩ j hj
      cases j with
      | zero => simpa using h0
      | succ j =>
        have := hr j (by simpa using hj)
        simpa [Nat.add_assoc, Nat.add_comm 1 j] using this
    · intro h
      refine ⟨by simpa using h 0 (by simp), fun j hj => ?_⟩
      have := h (j + 1) (by simpa using hj)
      simpa [Nat.add_assoc, Nat.add_comm 1 j] using this

/-- token `i` of a document (a close token beyond the end) and the type of the node it lies in -/
def tokD (doc : Node) (i : Nat) : Tok := (ftoks doc.kids).getD i Tok.cl
def ctxD (S : Schema) (doc : Node) (i : Nat) : TypeId := (ctxOf (S.tyOf doc) (ftoks doc.kids)).getD i 0

theorem range_guard_iff (f t i : Nat) (b : Bool) :
    ((!(decide (f ≤ i) && decide (i < t)) || b) = true) ↔ (f ≤ i → i < t → b = true) := by
  by_cases h1 : f ≤ i <;> by_cases h2 : i < t <;> simp [h1, h2]

theorem range_guard_iff3 (f t i : Nat) (c b : Bool) :
    ((!(decide (f ≤ i) && decide (i < t) && c) || b) = true) ↔ (f ≤ i → i < t → c = true → b = true) := by
  by_cases h1 : f ≤ i <;> by_cases h2 : i < t <;> cases c <;> simp [h1, h2]

theorem removeMarkUndoable_iff (S : Schema) (doc : Node) (f t : Nat) (m : Mark) :
    removeMarkUndoable S doc f t m = true ↔
      ∀ i, i < (ftoks doc.kids).length → f ≤ i → i < t → removeUndoTok S m (ctxD S doc i) (tokD doc i) = true := by
  unfold removeMarkUndoable
  rw [scan_iff]
  simp only [range_guard_iff, Nat.zero_add]
  rfl

theorem addMarkUndoable_iff (S : Schema) (doc : Node) (f t : Nat) (m : Mark) :
    addMarkUndoable S doc f t m = true ↔
      ∀ i, i < (ftoks doc.kids).length → f ≤ i → i < t → addUndoTok S m (ctxD S doc i) (tokD doc i) = true := by
  unfold addMarkUndoable
  rw [scan_iff]
  simp only [range_guard_iff, Nat.zero_add]
  rfl

theorem sameTypeFree_iff (S : Schema) (doc : Node) (f t : Nat) (ty : MarkTypeId) :
    sameTypeFree S doc f t ty = true ↔
      ∀ i, i < (ftoks doc.kids).length → f ≤ i → i < t → isInlineTok S (tokD doc i) = true →
        (((tokD doc i).marks.filter (·.ty == ty)).length ≤ 1) := by
  unfold sameTypeFree
  rw [scan_iff]
  simp only [range_guard_iff3, Nat.zero_add, tokInline_eq, sameTypeFreeTok, tokMarks_eq, decide_eq_true_eq]
  rfl

/-- at most one mark of the type, and `x` among them: every mark of `x`'s type is `x` -/
theorem unique_of_count (ms : Marks) (x : Mark) (hx : x ∈ ms)
    (h : (ms.filter (·.ty == x.ty)).length ≤ 1) : ∀ o ∈ ms, o.ty = x.ty → o = x := by
  intro o ho hty
  have hxo : x ∈ ms.filter (·.ty == x.ty) := List.mem_filter.mpr ⟨hx, by simp⟩
  have hoo : o ∈ ms.filter (·.ty == x.ty) := List.mem_filter.mpr ⟨ho, by simp [hty]⟩
  match hl : ms.filter (·.ty == x.ty), h with
  | [], _ => rw [hl] at hxo; simp at hxo
  | [y], _ =>
    rw [hl] at hxo hoo
    simp only [List.mem_singleton] at hxo hoo
    rw [hoo, hxo]
  | _ :: _ :: _, h => rw [hl] at h; simp at h

theorem flatInline_iff (S : Schema) (doc : Node) :
    flatInline S doc = true ↔ ∀ ty a m, Tok.op ty a m ∈ ftoks doc.kids → (S.nodeType ty).isInline = false := by
  unfold flatInline
  rw [List.all_eq_true]
  constructor
  · intro h ty a m hm
    simpa using h _ hm
  · intro h tok htok
    cases tok with
    | op ty a m => simpa using h ty a m htok
    | _ => rfl

/-! ### 2. an applied mark step, pointwise -/

/-- what `RemoveMarkStep(f, t, m)` / `AddMarkStep(f, t, m)` do to token `i` lying in a node of type `p` -/
def rmG (S : Schema) (m : Mark) (f t : Nat) (i : Nat) (_p : TypeId) (tok : Tok) : Tok :=
  if f ≤ i ∧ i < t ∧ isInlineTok S tok = true then tok.withMarks (m.removeFromSet tok.marks) else tok

def addG (S : Schema) (m : Mark) (f t : Nat) (i : Nat) (p : TypeId) (tok : Tok) : Tok :=
  if f ≤ i ∧ i < t ∧ isAtomTok S tok = true ∧ (S.nodeType p).allowsMarkType m.ty = true
  then tok.withMarks (m.addToSet S tok.marks) else tok

theorem rmG_shape (S : Schema) (m : Mark) (f t i : Nat) (p : TypeId) (tok : Tok) :
    (rmG S m f t i p tok).shape = tok.shape := by
  unfold rmG; split
  · exact Tok.withMarks_shape _ _
  · rfl

theorem addG_shape (S : Schema) (m : Mark) (f t i : Nat) (p : TypeId) (tok : Tok) :
    (addG S m f t i p tok).shape = tok.shape := by
  unfold addG; split
  · exact Tok.withMarks_shape _ _
  · rfl

/-- pointwise description of a step that re-marks tokens and keeps the shape -/
structure MarkStepPt (S : Schema) (doc doc' : Node) (g : Nat → TypeId → Tok → Tok) : Prop where
  same : doc'.sameMarkup doc = true
  len : (ftoks doc'.kids).length = (ftoks doc.kids).length
  tok : ∀ i, i < (ftoks doc.kids).length → tokD doc' i = g i (ctxD S doc i) (tokD doc i)
  ctx : ∀ i, ctxD S doc' i = ctxD S doc i

theorem markStepPt_of (S : Schema) (doc doc' : Node) (g : Nat → TypeId → Tok → Tok)
    (hg : ∀ i p tok, (g i p tok).shape = tok.shape)
    (h : ftoks doc'.kids = mapIdxCtx g (S.tyOf doc) (ftoks doc.kids)) (hs : doc'.sameMarkup doc = true) :
    MarkStepPt S doc doc' g := by
  have hlen : (ftoks doc'.kids).length = (ftoks doc.kids).length := by rw [h]; exact mapIdxCtx_length _ _ _
  refine ⟨hs, hlen, fun i hi => ?_, fun i => ?_⟩
  · unfold tokD ctxD
    rw [h, mapIdxCtx_getD _ _ _ _ hi]
  · unfold ctxD
    rw [sameMarkup_tyOf S _ _ hs]
    unfold ctxOf
    rw [ctxAux_shape (ftoks doc'.kids) (ftoks doc.kids) _ (by rw [h]; exact mapIdxCtx_shape _ _ _ hg)]

theorem removeMark_pt (S : Schema) (doc doc' : Node) (f t : Nat) (m : Mark)
    (h : S.apply (.removeMark f t m) doc = .ok doc') : MarkStepPt S doc doc' (rmG S m f t) := by
  obtain ⟨h1, h2⟩ := apply_removeMark_toks S doc doc' f t m h
  exact markStepPt_of S doc doc' _ (rmG_shape S m f t) h1 h2

theorem addMark_pt (S : Schema) (doc doc' : Node) (f t : Nat) (m : Mark)
    (h : S.apply (.addMark f t m) doc = .ok doc') : MarkStepPt S doc doc' (addG S m f t) := by
  obtain ⟨h1, h2⟩ := apply_addMark_toks S doc doc' f t m h
  exact markStepPt_of S doc doc' _ (addG_shape S m f t) h1 h2

theorem list_eq_of_getD (l l' : List Tok) (hlen : l'.length = l.length)
    (h : ∀ i, i < l.length → l'.getD i Tok.cl = l.getD i Tok.cl) : l' = l := by
  apply List.ext_getElem hlen
  intro i h1 h2
  have := h i h2
  simpa [List.getD_eq_getElem?_getD, List.getElem?_eq_getElem h1, List.getElem?_eq_getElem h2] using this

theorem sameMarkup_chain (a b c : Node) (h1 : a.sameMarkup b = true) (h2 : b.sameMarkup c = true) :
    a.sameMarkup c = true := by
  cases a <;> cases b <;> cases c <;> simp_all [Node.sameMarkup]

/-- two element nodes with the same markup and, token by token, the same content are equal -/
theorem node_eq_of_toks (a : Node) (ty : TypeId) (at_ : Attrs) (mk : Marks) (k : List Node)
    (hs : a.sameMarkup (.elem ty at_ mk k) = true) (ha : fnorm a.kids = true) (hb : fnorm k = true)
    (hlen : (ftoks a.kids).length = (ftoks k).length)
    (hpt : ∀ i, i < (ftoks k).length → tokD a i = tokD (.elem ty at_ mk k) i) : a = .elem ty at_ mk k := by
  cases a with
  | text s m => simp [Node.sameMarkup] at hs
  | leaf t a' m => simp [Node.sameMarkup] at hs
  | elem t a' m k' =>
    simp only [Node.sameMarkup, Bool.and_eq_true, beq_iff_eq] at hs
    obtain ⟨⟨rfl, rfl⟩, rfl⟩ := hs
    have : ftoks k' = ftoks k := list_eq_of_getD _ _ hlen hpt
    rw [ftoks_inj k' k ha hb this]

/-! ### 3. remove ∘ add and add ∘ remove on one token -/

theorem withMarks_eq_self_iff (tok : Tok) (ms : Marks) (h : tok ≠ Tok.cl) :
    tok.withMarks ms = tok ↔ ms = tok.marks := by
  constructor
  · intro e
    have := congrArg Tok.marks e
    rwa [Tok.withMarks_marks _ _ h] at this
  · intro e; rw [e]; exact Tok.withMarks_self tok

theorem removeFromSet_eq_self_iff (m : Mark) (ms : Marks) : m.removeFromSet ms = ms ↔ m ∉ ms := by
  unfold Mark.removeFromSet
  rw [List.filter_eq_self]
  constructor
  · intro h hm; simpa using h m hm
  · intro h o ho
    have : o ≠ m := fun e => h (e ▸ ho)
    simpa using this

/-- **add after remove, on one token**: the identity exactly under `removeUndoTok` -/
theorem add_rm_tok (S : Schema) (m : Mark) (f t i : Nat) (p : TypeId) (tok : Tok) :
    addG S m f t i p (rmG S m f t i p tok) = tok ↔ (f ≤ i → i < t → removeUndoTok S m p tok = true) := by
  unfold removeUndoTok
  rw [tokInline_eq, tokAtom_eq, tokMarks_eq]
  by_cases hr : f ≤ i ∧ i < t
  · simp only [hr.1, hr.2, true_implies]
    by_cases hin : isInlineTok S tok = true
    · have hne := isInlineTok_ne_cl S tok hin
      have h1 : rmG S m f t i p tok = tok.withMarks (m.removeFromSet tok.marks) := by
        unfold rmG; rw [if_pos ⟨hr.1, hr.2, hin⟩]
      rw [h1]
      have hat : isAtomTok S (tok.withMarks (m.removeFromSet tok.marks)) = isAtomTok S tok :=
        isAtomTok_shape S _ _ (Tok.withMarks_shape _ _)
      unfold addG
      rw [hat, Tok.withMarks_marks _ _ hne]
      by_cases hq : isAtomTok S tok = true ∧ (S.nodeType p).allowsMarkType m.ty = true
      · rw [if_pos ⟨hr.1, hr.2, hq.1, hq.2⟩, Tok.withMarks_withMarks, withMarks_eq_self_iff _ _ hne]
        simp [hin, hq.1, hq.2]
      · rw [if_neg (fun h => hq ⟨h.2.2.1, h.2.2.2⟩), withMarks_eq_self_iff _ _ hne, removeFromSet_eq_self_iff]
        have : (isAtomTok S tok && (S.nodeType p).allowsMarkType m.ty) = false := by
          rw [← Bool.not_eq_true, Bool.and_eq_true]; exact hq
        simp [hin, this, ← isInSet_iff]
    · have h1 : rmG S m f t i p tok = tok := by
        unfold rmG; rw [if_neg (fun h => hin h.2.2)]
      have hna : ¬ isAtomTok S tok = true := fun h => hin (isAtomTok_inline S tok h)
      rw [h1]
      unfold addG
      rw [if_neg (fun h => hna h.2.2.1)]
      simp [hin]
  · have h1 : rmG S m f t i p tok = tok := by
      unfold rmG; rw [if_neg (fun h => hr ⟨h.1, h.2.1⟩)]
    rw [h1]
    unfold addG
    rw [if_neg (fun h => hr ⟨h.1, h.2.1⟩)]
    exact ⟨fun _ h1 h2 => absurd ⟨h1, h2⟩ hr, fun _ => rfl⟩

/-- **remove after add, on one token**: the identity exactly under `addUndoTok` -/
theorem rm_add_tok (S : Schema) (m : Mark) (f t i : Nat) (p : TypeId) (tok : Tok) :
    rmG S m f t i p (addG S m f t i p tok) = tok ↔ (f ≤ i → i < t → addUndoTok S m p tok = true) := by
  unfold addUndoTok
  rw [tokInline_eq, tokAtom_eq, tokMarks_eq]
  by_cases hr : f ≤ i ∧ i < t
  · simp only [hr.1, hr.2, true_implies]
    by_cases hin : isInlineTok S tok = true
    · have hne := isInlineTok_ne_cl S tok hin
      by_cases hq : isAtomTok S tok = true ∧ (S.nodeType p).allowsMarkType m.ty = true
      · have h1 : addG S m f t i p tok = tok.withMarks (m.addToSet S tok.marks) := by
          unfold addG; rw [if_pos ⟨hr.1, hr.2, hq.1, hq.2⟩]
        rw [h1]
        have hin' : isInlineTok S (tok.withMarks (m.addToSet S tok.marks)) = true := by
          rw [isInlineTok_shape S _ tok (Tok.withMarks_shape _ _)]; exact hin
        unfold rmG
        rw [if_pos ⟨hr.1, hr.2, hin'⟩, Tok.withMarks_withMarks, Tok.withMarks_marks _ _ hne,
          withMarks_eq_self_iff _ _ hne]
        simp [hin, hq.1, hq.2]
      · have h1 : addG S m f t i p tok = tok := by
          unfold addG; rw [if_neg (fun h => hq ⟨h.2.2.1, h.2.2.2⟩)]
        rw [h1]
        unfold rmG
        rw [if_pos ⟨hr.1, hr.2, hin⟩, withMarks_eq_self_iff _ _ hne, removeFromSet_eq_self_iff]
        have : (isAtomTok S tok && (S.nodeType p).allowsMarkType m.ty) = false := by
          rw [← Bool.not_eq_true, Bool.and_eq_true]; exact hq
        simp [hin, this, ← isInSet_iff]
    · have hna : ¬ isAtomTok S tok = true := fun h => hin (isAtomTok_inline S tok h)
      have h1 : addG S m f t i p tok = tok := by
        unfold addG; rw [if_neg (fun h => hna h.2.2.1)]
      rw [h1]
      unfold rmG
      rw [if_neg (fun h => hin h.2.2)]
      simp [hin]
  · have h1 : addG S m f t i p tok = tok := by
      unfold addG; rw [if_neg (fun h => hr ⟨h.1, h.2.1⟩)]
    rw [h1]
    unfold rmG
    rw [if_neg (fun h => hr ⟨h.1, h.2.1⟩)]
    exact ⟨fun _ h1 h2 => absurd ⟨h1, h2⟩ hr, fun _ => rfl⟩

/-! ### 4. single steps: what they keep, restoring ⇔ guard, the inverse applies -/

theorem removeMark_fromReplace (S : Schema) (doc doc' : Node) (f t : Nat) (m : Mark)
    (h : S.apply (.removeMark f t m) doc = .ok doc') :
    ∃ old, doc.slice f t = .ok old ∧
      S.fromReplace doc f t ⟨fromArray (removeMarkKids S m old.content), old.openStart, old.openEnd⟩ = .ok doc' := by
  unfold Schema.apply at h
  simp only at h
  split at h
  · simp at h
  · rename_i old hold
    exact ⟨old, hold, h⟩

theorem addMark_fromReplace (S : Schema) (doc doc' : Node) (f t : Nat) (m : Mark)
    (h : S.apply (.addMark f t m) doc = .ok doc') :
    ∃ old p, doc.slice f t = .ok old ∧
      S.fromReplace doc f t ⟨fromArray (addMarkKids S m p old.content), old.openStart, old.openEnd⟩ = .ok doc' := by
  unfold Schema.apply at h
  simp only at h
  split at h
  · simp at h
  · rename_i old hold
    split at h
    · simp at h
    · rename_i p _
      exact ⟨old, p, hold, h⟩

/-- what an applied range mark step keeps: the document is an element node with the same markup,
    the range is ordered and inside, normal form and validity are preserved -/
structure MarkStepKeeps (S : Schema) (doc doc' : Node) (f t : Nat) : Prop where
  elem : ∃ ty a mk K K', doc = .elem ty a mk K ∧ doc' = .elem ty a mk K'
  range : f ≤ t ∧ t ≤ fsize doc.kids
  norm : fnorm doc.kids = true → fnorm doc'.kids = true
  valid : TextStableP S → S.checkNode doc = true → S.checkNode doc' = true

theorem removeMark_keepsAll (S : Schema) (doc doc' : Node) (f t : Nat) (m : Mark)
    (h : S.apply (.removeMark f t m) doc = .ok doc') : MarkStepKeeps S doc doc' f t := by
  obtain ⟨old, hold, hr⟩ := removeMark_fromReplace S doc doc' f t m h
  obtain ⟨ty, a, mk, K, K', rfl, rfl, _⟩ := fromReplace_elem S doc doc' f t _ hr
  obtain ⟨_, hft, htl, _, _⟩ := fromReplace_toks S _ _ f t _ hr
  refine ⟨⟨ty, a, mk, K, K', rfl, rfl⟩, ⟨hft, htl⟩, fun hn => ?_, fun hts hd => ?_⟩
  · exact apply_norm S (.removeMark f t m) _ _ trivial hn h
  · exact replace_valid S _ _ f t _ hd
      (removeMark_payload S hts m _ _ _ (slice_openValid S _ f t old hd hold)) hr

theorem addMark_keepsAll (S : Schema) (doc doc' : Node) (f t : Nat) (m : Mark)
    (h : S.apply (.addMark f t m) doc = .ok doc') : MarkStepKeeps S doc doc' f t := by
  obtain ⟨old, p, hold, hr⟩ := addMark_fromReplace S doc doc' f t m h
  obtain ⟨ty, a, mk, K, K', rfl, rfl, _⟩ := fromReplace_elem S doc doc' f t _ hr
  obtain ⟨_, hft, htl, _, _⟩ := fromReplace_toks S _ _ f t _ hr
  refine ⟨⟨ty, a, mk, K, K', rfl, rfl⟩, ⟨hft, htl⟩, fun hn => ?_, fun hts hd => ?_⟩
  · have ho : fnorm old.content = true := (sliceKids_norm K f t old hn hold).1
    refine fromReplace_norm S _ _ f t _ hn ?_ hr
    simp only [addMarkKids_eq_map]
    exact fromArray_norm _ (MarkMap.norm_list (addMark_markMap S m) old.content p (fnormKids_of_fnorm ho))
  · exact replace_valid S _ _ f t _ hd
      (addMark_payload S hts m p _ _ _ (slice_openValid S _ f t old hd hold)) hr

/-- **`RemoveMarkStep` then its inverse: the document is restored exactly iff the guard holds** -/
theorem removeMark_restore_iff (S : Schema) (doc doc' doc'' : Node) (f t : Nat) (m : Mark)
    (hn : fnorm doc.kids = true)
    (h1 : S.apply (.removeMark f t m) doc = .ok doc') (h2 : S.apply (.addMark f t m) doc' = .ok doc'') :
    doc'' = doc ↔ removeMarkUndoable S doc f t m = true := by
  have p1 := removeMark_pt S doc doc' f t m h1
  have p2 := addMark_pt S doc' doc'' f t m h2
  have k1 := removeMark_keepsAll S doc doc' f t m h1
  have k2 := addMark_keepsAll S doc' doc'' f t m h2
  have htok : ∀ i, i < (ftoks doc.kids).length →
      tokD doc'' i = addG S m f t i (ctxD S doc i) (rmG S m f t i (ctxD S doc i) (tokD doc i)) := by
    intro i hi
    rw [p2.tok i (by rw [p1.len]; exact hi), p1.ctx, p1.tok i hi]
  rw [removeMarkUndoable_iff]
  constructor
  · intro e i hi h1' h2'
    have := htok i hi
    rw [e] at this
    exact (add_rm_tok S m f t i _ _).mp this.symm h1' h2'
  · intro hg
    obtain ⟨ty, a, mk, K, K', rfl, _⟩ := k1.elem
    refine node_eq_of_toks doc'' ty a mk K (sameMarkup_chain _ _ _ p2.same p1.same)
      (k2.norm (k1.norm hn)) hn (by rw [p2.len, p1.len]; rfl) (fun i hi => ?_)
    rw [htok i hi]
    exact (add_rm_tok S m f t i _ _).mpr (hg i hi)

/-- **`AddMarkStep` then its inverse: the document is restored exactly iff the guard holds** -/
theorem addMark_restore_iff (S : Schema) (doc doc' doc'' : Node) (f t : Nat) (m : Mark)
    (hn : fnorm doc.kids = true)
    (h1 : S.apply (.addMark f t m) doc = .ok doc') (h2 : S.apply (.removeMark f t m) doc' = .ok doc'') :
    doc'' = doc ↔ addMarkUndoable S doc f t m = true := by
  have p1 := addMark_pt S doc doc' f t m h1
  have p2 := removeMark_pt S doc' doc'' f t m h2
  have k1 := addMark_keepsAll S doc doc' f t m h1
  have k2 := removeMark_keepsAll S doc' doc'' f t m h2
  have htok : ∀ i, i < (ftoks doc.kids).length →
      tokD doc'' i = rmG S m f t i (ctxD S doc i) (addG S m f t i (ctxD S doc i) (tokD doc i)) := by
    intro i hi
    rw [p2.tok i (by rw [p1.len]; exact hi), p1.ctx, p1.tok i hi]
  rw [addMarkUndoable_iff]
  constructor
  · intro e i hi h1' h2'
    have := htok i hi
    rw [e] at this
    exact (rm_add_tok S m f t i _ _).mp this.symm h1' h2'
  · intro hg
    obtain ⟨ty, a, mk, K, K', rfl, _⟩ := k1.elem
    refine node_eq_of_toks doc'' ty a mk K (sameMarkup_chain _ _ _ p2.same p1.same)
      (k2.norm (k1.norm hn)) hn (by rw [p2.len, p1.len]; rfl) (fun i hi => ?_)
    rw [htok i hi]
    exact (rm_add_tok S m f t i _ _).mpr (hg i hi)

/-- the inverse of an applied `RemoveMarkStep` applies (`TextLoop`; `ha`: the two ends do not fall
    between the halves of a surrogate pair of the new document) -/
theorem removeMark_inverse_applies (S : Schema) (hts : TextLoop S) (doc doc' : Node) (f t : Nat) (m : Mark)
    (hd : S.checkNode doc = true) (hn : fnorm doc.kids = true)
    (h1 : S.apply (.removeMark f t m) doc = .ok doc')
    (ha : alignedAt doc'.kids f = true ∧ alignedAt doc'.kids t = true) :
    ∃ doc'', S.apply (.addMark f t m) doc' = .ok doc'' := by
  have k1 := removeMark_keepsAll S doc doc' f t m h1
  have p1 := removeMark_pt S doc doc' f t m h1
  have hv' := k1.valid hts.stable hd
  have hn' := k1.norm hn
  obtain ⟨ty, a, mk, K, K', rfl, rfl⟩ := k1.elem
  have hsz : fsize K' = fsize K := by
    have := p1.len; simpa [ftoks_length, Node.kids] using this
  exact addMark_applies S hts ty a mk K' f t m hv' hn' k1.range.1 (by rw [hsz]; exact k1.range.2) ha.1 ha.2

theorem addMark_inverse_applies (S : Schema) (hts : TextLoop S) (doc doc' : Node) (f t : Nat) (m : Mark)
    (hd : S.checkNode doc = true) (hn : fnorm doc.kids = true)
    (h1 : S.apply (.addMark f t m) doc = .ok doc')
    (ha : alignedAt doc'.kids f = true ∧ alignedAt doc'.kids t = true) :
    ∃ doc'', S.apply (.removeMark f t m) doc' = .ok doc'' := by
  have k1 := addMark_keepsAll S doc doc' f t m h1
  have p1 := addMark_pt S doc doc' f t m h1
  have hv' := k1.valid hts.stable hd
  have hn' := k1.norm hn
  obtain ⟨ty, a, mk, K, K', rfl, rfl⟩ := k1.elem
  have hsz : fsize K' = fsize K := by
    have := p1.len; simpa [ftoks_length, Node.kids] using this
  exact removeMark_applies S hts ty a mk K' f t m hv' hn' k1.range.1 (by rw [hsz]; exact k1.range.2) ha.1 ha.2

/-- the positions a step's inverse has to cut the *new* document at are pair-aligned there (Python
    strings cannot be cut inside a surrogate pair; the model's unit lists can — the proviso `ha` of
    the single-step undo theorems of Props/C04.lean, as one predicate) -/
def Step.undoAligned (s : Step) (d' : Node) : Prop :=
  match s with
  | .addMark f t _ => alignedAt d'.kids f = true ∧ alignedAt d'.kids t = true
  | .removeMark f t _ => alignedAt d'.kids f = true ∧ alignedAt d'.kids t = true
  | .replace f _ sl _ => alignedAt d'.kids f = true ∧ alignedAt d'.kids (f + sl.size.toNat) = true
  | .replaceAround f _ gf gt sl ins _ =>
    alignedAt d'.kids f = true ∧ alignedAt d'.kids (f + sl.size.toNat + (gt - gf)) = true ∧
      alignedAt d'.kids (f + ins) = true ∧ alignedAt d'.kids (f + ins + (gt - gf)) = true
  | _ => True

/-- **a range mark step is undone exactly by its inverse, given its guard** -/
theorem removeMark_stepUndoes (S : Schema) (hts : TextLoop S) (doc doc' : Node) (f t : Nat) (m : Mark)
    (hd : S.checkNode doc = true) (hn : fnorm doc.kids = true)
    (h1 : S.apply (.removeMark f t m) doc = .ok doc')
    (hg : removeMarkUndoable S doc f t m = true)
    (ha : alignedAt doc'.kids f = true ∧ alignedAt doc'.kids t = true) :
    StepUndoes S (.removeMark f t m) doc doc' := by
  obtain ⟨doc'', h2⟩ := removeMark_inverse_applies S hts doc doc' f t m hd hn h1 ha
  have := (removeMark_restore_iff S doc doc' doc'' f t m hn h1 h2).mpr hg
  exact ⟨.addMark f t m, rfl, by rw [h2, this]⟩

theorem addMark_stepUndoes (S : Schema) (hts : TextLoop S) (doc doc' : Node) (f t : Nat) (m : Mark)
    (hd : S.checkNode doc = true) (hn : fnorm doc.kids = true)
    (h1 : S.apply (.addMark f t m) doc = .ok doc')
    (hg : addMarkUndoable S doc f t m = true)
    (ha : alignedAt doc'.kids f = true ∧ alignedAt doc'.kids t = true) :
    StepUndoes S (.addMark f t m) doc doc' := by
  obtain ⟨doc'', h2⟩ := addMark_inverse_applies S hts doc doc' f t m hd hn h1 ha
  have := (addMark_restore_iff S doc doc' doc'' f t m hn h1 h2).mpr hg
  exact ⟨.removeMark f t m, rfl, by rw [h2, this]⟩

/-! ### 5. the steps of an operation with the documents they are applied to -/

/-- the steps of an operation paired with the document each is applied to (what `Tr.stepAll` appends
    to `steps` / `docs`) -/
def Schema.stepsHist (S : Schema) : List Step → Node → List (Step × Node)
  | [], _ => []
  | s :: ss, d => (s, d) :: (match S.apply s d with
    | .ok d' => S.stepsHist ss d'
    | .error _ => [])

theorem applyAll_join (S : Schema) : ∀ (a b : List Step) (doc d1 d2 : Node),
    S.applyAll a doc = .ok d1 → S.applyAll b d1 = .ok d2 → S.applyAll (a ++ b) doc = .ok d2
  | [], b, doc, d1, d2, h1, h2 => by
    simp only [Schema.applyAll, Except.ok.injEq] at h1; subst h1; exact h2
  | s :: a, b, doc, d1, d2, h1, h2 => by
    simp only [List.cons_append, Schema.applyAll] at h1 ⊢
    split at h1
    · rename_i d hd
      exact applyAll_join S a b d d1 d2 h1 h2
    · simp at h1

theorem stepsHist_spec (S : Schema) : ∀ (sts : List Step) (doc fin : Node), S.applyAll sts doc = .ok fin →
    histNext (S.stepsHist sts doc) fin = doc ∧ ReplayChain S (S.stepsHist sts doc) fin ∧
      (S.stepsHist sts doc).map (·.1) = sts
  | [], doc, fin, h => by
    simp only [Schema.applyAll, Except.ok.injEq] at h; subst h
    exact ⟨rfl, trivial, rfl⟩
  | s :: ss, doc, fin, h => by
    simp only [Schema.applyAll] at h
    split at h
    · rename_i d hd
      obtain ⟨h1, h2, h3⟩ := stepsHist_spec S ss d fin h
      simp only [Schema.stepsHist, hd]
      refine ⟨rfl, ⟨?_, h2⟩, by simp [h3]⟩
      show S.apply s doc = .ok (histNext (S.stepsHist ss d) fin)
      rw [h1]; exact hd
    · simp at h

/-- a guard holds along the steps of an operation if it holds of every step for the document reached
    by the steps before it -/
theorem histAll_stepsHist (S : Schema) (G : Step → Node → Node → Prop) :
    ∀ (sts pre : List Step) (doc0 doc fin : Node), S.applyAll pre doc0 = .ok doc →
      S.applyAll sts doc = .ok fin →
      (∀ k (hk : k < sts.length) d d', S.applyAll (pre ++ sts.take k) doc0 = .ok d →
        S.apply sts[k] d = .ok d' → G sts[k] d d') →
      HistAll G (S.stepsHist sts doc) fin
  | [], _, _, _, _, _, _, _ => trivial
  | s :: ss, pre, doc0, doc, fin, hpre, h, hG => by
    simp only [Schema.applyAll] at h
    split at h
    · rename_i d hd
      have hpre' : S.applyAll (pre ++ [s]) doc0 = .ok d :=
        applyAll_join S pre [s] doc0 doc d hpre (by simp [Schema.applyAll, hd])
      obtain ⟨h1, _, _⟩ := stepsHist_spec S ss d fin h
      simp only [Schema.stepsHist, hd]
      refine ⟨?_, histAll_stepsHist S G ss (pre ++ [s]) doc0 d fin hpre' h (fun k hk d1 d2 ha hb => ?_)⟩
      · show G s doc (histNext (S.stepsHist ss d) fin)
        rw [h1]
        have := hG 0 (by simp) doc d (by simpa using hpre) (by simpa using hd)
        simpa using this
      · have := hG (k + 1) (by simp; omega) d1 d2 (by simpa using ha) (by simpa using hb)
        simpa using this
    · simp at h

/-! ### 6. tokens of a valid document; the visits of the walk -/

theorem canonical_nil' (S : Schema) : canonicalMarks S [] = true := by simp [canonicalMarks]

/-- in a valid child list every token carries a canonical mark set that the node it lies in allows -/
theorem checkKids_tok (S : Schema) : ∀ (kids : List Node) (p : TypeId) (st : List TypeId) (i : Nat) (tok : Tok),
    S.checkKids kids = true → kids.all (fun k => (S.nodeType p).allowsMarks k.marks) = true →
    (ftoks kids)[i]? = some tok →
    canonicalMarks S tok.marks = true ∧
      (S.nodeType ((ctxAux (p :: st) (ftoks kids)).getD i 0)).allowsMarks tok.marks = true
  | [], _, _, _, _, _, _, h => by simp [ftoks] at h
  | n :: ns, p, st, i, tok, hv, hall, htok => by
    simp only [checkKids_cons, Bool.and_eq_true] at hv
    simp only [List.all_cons, Bool.and_eq_true] at hall
    rw [ftoks_cons] at htok ⊢
    by_cases hi : i < n.size
    · rw [List.getElem?_append_left (by rw [Node.toks_length]; exact hi)] at htok
      rw [ctxAux_append, List.getD_eq_getElem?_getD,
        List.getElem?_append_left (by rw [ctxAux_length, Node.toks_length]; exact hi)]
      cases n with
      | text s m =>
        rw [Node.toks_text] at htok ⊢
        simp only [Node.size] at hi
        rw [ctxAux_units_getElem? s m _ i hi]
        rw [List.getElem?_map] at htok
        cases hs : s[i]? with
        | none => simp [hs] at htok
        | some c =>
          simp only [hs, Option.map_some, Option.some.injEq] at htok
          subst htok
          exact ⟨by simpa [Schema.checkNode, Tok.marks] using hv.1, by simpa [Node.marks, Tok.marks] using hall.1⟩
      | leaf ty a m =>
        simp only [Node.size] at hi
        have : i = 0 := by omega
        subst this
        simp only [Node.toks, List.getElem?_cons_zero, Option.some.injEq] at htok
        subst htok
        refine ⟨Node.marks_canonical hv.1, ?_⟩
        simpa [Node.toks, ctxAux, Node.marks, Tok.marks] using hall.1
      | elem ty a m kids =>
        rw [Node.toks_elem] at htok ⊢
        cases i with
        | zero =>
          simp only [List.getElem?_cons_zero, Option.some.injEq] at htok
          subst htok
          refine ⟨Node.marks_canonical hv.1, ?_⟩
          simpa [ctxAux, Node.marks, Tok.marks] using hall.1
        | succ j =>
          simp only [List.getElem?_cons_succ] at htok
          simp only [Node.size] at hi
          have hv1 := hv.1
          simp only [checkNode_elem, Bool.and_eq_true, Schema.validContent] at hv1
          by_cases hjk : j < fsize kids
          · rw [List.getElem?_append_left (by rw [ftoks_length]; exact hjk)] at htok
            obtain ⟨c1, c2⟩ := checkKids_tok S kids ty (p :: st) j tok hv1.2 hv1.1.1.2 htok
            refine ⟨c1, ?_⟩
            simp only [ctxAux, List.getElem?_cons_succ]
            rw [ctxAux_append, List.getElem?_append_left (by rw [ctxAux_length, ftoks_length]; exact hjk)]
            rw [List.getD_eq_getElem?_getD] at c2
            exact c2
          · have : j = fsize kids := by omega
            subst this
            rw [List.getElem?_append_right (by rw [ftoks_length]; omega)] at htok
            simp [ftoks_length] at htok
            subst htok
            exact ⟨canonical_nil' S, by simp [Tok.marks, NodeType.allowsMarks]⟩
    · rw [List.getElem?_append_right (by rw [Node.toks_length]; omega), Node.toks_length] at htok
      rw [ctxAux_append, List.getD_eq_getElem?_getD,
        List.getElem?_append_right (by rw [ctxAux_length, Node.toks_length]; omega),
        ctxAux_length, Node.toks_length, Node.stackAfter_toks]
      have := checkKids_tok S ns p st (i - n.size) tok hv.2 hall.2 htok
      rw [List.getD_eq_getElem?_getD] at this
      exact this

/-- **tokens of a valid document**: canonical marks, allowed by the enclosing node -/
theorem valid_tok (S : Schema) (doc : Node) (hv : S.checkNode doc = true) (i : Nat)
    (hi : i < (ftoks doc.kids).length) :
    CanonP S (tokD doc i).marks ∧ ∀ x ∈ (tokD doc i).marks, (S.nodeType (ctxD S doc i)).allowsMarkType x.ty = true := by
  have htok : (ftoks doc.kids)[i]? = some (tokD doc i) := by
    unfold tokD; rw [List.getD_eq_getElem?_getD, List.getElem?_eq_getElem hi]; rfl
  cases doc with
  | text s m => simp [Node.kids] at hi
  | leaf t a m => simp [Node.kids] at hi
  | elem t a m kids =>
    have hv1 := hv
    simp only [checkNode_elem, Bool.and_eq_true, Schema.validContent] at hv1
    obtain ⟨c1, c2⟩ := checkKids_tok S kids t [] i _ hv1.2 hv1.1.1.2 htok
    refine ⟨(canonicalMarks_iff_canonP S _).mp c1, fun x hx => ?_⟩
    have : ctxD S (.elem t a m kids) i = (ctxAux [t] (ftoks kids)).getD i 0 := rfl
    rw [this]
    simp only [NodeType.allowsMarks, List.all_eq_true] at c2
    exact c2 x hx

/-- the nodes the walk visits are nodes of the document: valid when it is -/
theorem nodesBetweenP_valid (S : Schema) : ∀ (kids : List Node) (p : TypeId) (f t start i0 : Nat),
    S.checkKids kids = true → ∀ v ∈ nodesBetweenP p kids f t start i0, S.checkNode v.node = true
  | [], _, _, _, _, _, _, v, hv => by simp [nodesBetweenP] at hv
  | n :: ns, p, f, t, start, i0, hk, v, hv => by
    simp only [checkKids_cons, Bool.and_eq_true] at hk
    rw [nodesBetweenP_cons] at hv
    split at hv
    · simp at hv
    · rcases List.mem_append.mp hv with hv | hv
      · split at hv
        · rcases List.mem_cons.mp hv with rfl | hv
          · exact hk.1
          · cases n with
            | text s m => simp at hv
            | leaf ty a m => simp at hv
            | elem ty a m kids =>
              simp only at hv
              split at hv
              · simp at hv
              · have h1 := hk.1
                simp only [checkNode_elem, Bool.and_eq_true] at h1
                exact nodesBetweenP_valid S kids ty _ _ _ _ h1.2 v hv
        · simp at hv
      · exact nodesBetweenP_valid S ns p _ _ _ _ hk.2 v hv

theorem docVisits_canon (S : Schema) (doc : Node) (f t : Nat) (hv : S.checkNode doc = true) :
    ∀ v ∈ S.docVisits doc f t, CanonP S v.node.marks := by
  intro v hvm
  exact (canonicalMarks_iff_canonP S _).mp
    (Node.marks_canonical (nodesBetweenP_valid S doc.kids _ f t 0 0 (checkNode_kids hv) v hvm))

/-- without inline nodes that have content, every inline node the walk visits is a text or leaf node -/
theorem docVisits_flat (S : Schema) (doc : Node) (f t : Nat) (hflat : flatInline S doc = true) :
    ∀ v ∈ S.docVisits doc f t, S.nodeInline v.node = true → v.node.isLeaf = true := by
  intro v hv hin
  obtain ⟨hw, _⟩ := docVisits_window S doc f t v hv
  cases hn : v.node with
  | text s m => rfl
  | leaf ty a m => rfl
  | elem ty a m k =>
    exfalso
    rw [hn] at hw hin
    have hmem : Tok.op ty a m ∈ ftoks doc.kids := by
      have : Tok.op ty a m ∈ ((ftoks doc.kids).drop v.pos).take (Node.elem ty a m k).size := by
        rw [hw, Node.toks_elem]; simp
      exact List.mem_of_mem_drop (List.mem_of_mem_take this)
    have := (flatInline_iff S doc).mp hflat ty a m hmem
    simp only [Schema.nodeInline] at hin
    rw [this] at hin
    cases hin

end PM
