/-
  Proofs/NoInternal.lean — helper lemmas for C01's second sentence: under an explicit
  well-formedness predicate on the step, `Schema.apply` never returns `.error .internal`
  (the model's outcome for IndexError / AttributeError / AssertionError / TypeError).

  Structure: for each recursive function of PM/Replace.lean a lemma "result ≠ .error .internal under
  the local depth invariant": the depth of the left position equals the depth of the right one
  (`twoWay`), resp. both equal `extra +` the slice's remaining open depth and the open depths do not
  exceed the slice's spines (`threeWay`); `replaceKids` establishes exactly this before it calls
  `outer`.  Then the payload producers (`Node.slice`, `Slice.insertAt`, the mark steps' rebuilt
  slice) are shown to keep `Slice.wf`.
-/
import PM.Step
import Proofs.Toks
import Proofs.TokCore
import Proofs.ReplaceToks
import Proofs.Reinsert
import Proofs.FlatInsertCore
namespace PM

/-! ### `close` never dies -/

theorem close_ne_internal (S : Schema) (ty : TypeId) (a : Attrs) (m : Marks) (c : List Node) :
    S.close ty a m c ≠ .error .internal := by
  unfold Schema.close
  split <;> simp

/-! ### depth of the positions on a fragment's spines -/

/-- the position `k` levels down the left spine is at depth `k` -/
theorem depthAt_spineL : ∀ (K : List Node) (k : Nat), k ≤ spineL K → depthAt K k = k
  | [], k, h => by
    have : k = 0 := by simpa [spineL] using h
    subst this; simp
  | .text .. :: _, k, h => by
    have : k = 0 := by simpa [spineL] using h
    subst this; simp
  | .leaf .. :: _, k, h => by
    have : k = 0 := by simpa [spineL] using h
    subst this; simp
  | .elem ty a m kids :: ns, k, h => by
    by_cases hk : k = 0
    · subst hk; simp
    · simp only [spineL_elem_cons] at h
      have hs := spineL_le kids
      rw [depthAt_elem_cons _ _ _ _ _ _ (by omega) (by omega),
        depthAt_spineL kids (k - 1) (by omega)]
      omega

/-- the position `k` levels down the right spine (from the end) is at depth `k` -/
theorem depthAt_spineR : ∀ (K : List Node) (k : Nat), k ≤ spineR K → depthAt K (fsize K - k) = k
  | [], k, h => by
    have : k = 0 := by simpa [spineR] using h
    subst this; simp
  | [.text ..], k, h => by
    have : k = 0 := by simpa [spineR] using h
    subst this; exact depthAt_fsize _
  | [.leaf ..], k, h => by
    have : k = 0 := by simpa [spineR] using h
    subst this; exact depthAt_fsize _
  | [.elem ty a m kids], k, h => by
    by_cases hk : k = 0
    · subst hk; exact depthAt_fsize _
    · simp only [spineR_elem_single] at h
      have hs := spineR_le kids
      simp only [fsize_cons, fsize_nil, Node.size_elem, Nat.add_zero]
      rw [depthAt_elem_cons _ _ _ _ _ _ (by omega) (by omega)]
      have : 2 + fsize kids - k - 1 = fsize kids - (k - 1) := by omega
      rw [this, depthAt_spineR kids (k - 1) (by omega)]
      omega
  | x :: n :: ns, k, h => by
    have e : spineR (x :: n :: ns) = spineR (n :: ns) := by
      conv => lhs; unfold spineR
      cases x <;> rfl
    rw [e] at h
    have hs := spineR_le (n :: ns)
    rw [fsize_cons, depthAt_skip x (n :: ns) _ (by omega)]
    have : x.size + fsize (n :: ns) - k - x.size = fsize (n :: ns) - k := by omega
    rw [this]
    exact depthAt_spineR (n :: ns) k h

/-! ### `twoWay` -/

/-- **two-way join**: when both positions are equally deep, the join never hits an inconsistent
    combination (left side descends but the right side is flat, or the other way round) -/
theorem twoWay_no_internal (S : Schema) : ∀ (L : List Node) (f : Nat) (R : List Node) (t : Nat),
    depthAt L f = depthAt R t → twoWay S L f R t ≠ .error .internal
  | [], f, R, t, hd, h => by
    unfold twoWay at h
    split at h
    · split at h
      · simp at h
      · rename_i c i r hs
        obtain ⟨_, _, _, _, _, h2, _, _⟩ := splitRight_deep_facts R t c i r hs
        simp [depthAt] at hd; omega
      · simp at h
    · simp at h
  | n :: ns, f, R, t, hd, h => by
    unfold twoWay at h
    split at h
    · rename_i hf; subst hf
      split at h
      · simp at h
      · rename_i c i r hs
        obtain ⟨_, _, _, _, _, h2, _, _⟩ := splitRight_deep_facts R t c i r hs
        simp at hd; omega
      · simp at h
    · rename_i hf
      split at h
      · rename_i hle
        split at h
        · simp at h
        · rename_i e he
          simp at h; subst h
          rw [depthAt_skip n ns f hle] at hd
          exact twoWay_no_internal S ns (f - n.size) R t hd he
      · rename_i hlt
        cases n with
        | text s m =>
          simp only at h
          split at h
          · simp at h
          · split at h
            · simp at h
            · rename_i c i r hs
              obtain ⟨_, _, _, _, _, h2, _, _⟩ := splitRight_deep_facts R t c i r hs
              rw [depthAt_nonelem_cons _ ns f (by omega) (by simp)] at hd
              omega
            · simp at h
        | leaf ty a m => simp at hlt; omega
        | elem ty a m kids =>
          simp only [Node.size_elem, Nat.not_le] at hlt
          rw [depthAt_elem_cons _ _ _ _ _ _ (by omega) hlt] at hd
          simp only at h
          split at h
          · rename_i ty' a' m' kids' inner rest hs
            obtain ⟨_, _, _, k, hc, h2, _, _⟩ := splitRight_deep_facts R t _ inner rest hs
            simp at hc
            obtain ⟨_, _, _, rfl⟩ := hc
            split at h
            · split at h
              · rename_i innerRes hin
                split at h
                · simp at h
                · rename_i e he
                  simp at h; subst h
                  exact close_ne_internal S _ _ _ _ he
              · rename_i e he
                simp at h; subst h
                exact twoWay_no_internal S kids (f - 1) kids' inner (by omega) he
            · simp at h
          · rename_i rs hnot hs
            cases rs with
            | flat r =>
              have := splitRight_flat_depth R t r hs
              omega
            | deep c i r =>
              obtain ⟨ty', a', m', k, hc, _, _, _⟩ := splitRight_deep_facts R t c i r hs
              subst hc
              exact hnot ty' a' m' k i r rfl
          · simp at h

/-! ### right join, flat tail -/

theorem spineR_concat (x : Node) : ∀ init : List Node, spineR (init ++ [x]) = spineR [x]
  | [] => rfl
  | [y] => by
    conv => lhs; simp only [List.cons_append, List.nil_append]; unfold spineR
    cases y <;> rfl
  | y :: z :: r => by
    have := spineR_concat x (z :: r)
    rw [← this]
    conv => lhs; simp only [List.cons_append]; unfold spineR
    cases y <;> rfl

/-- a fragment with a non-trivial right spine ends in an element carrying the rest of the spine -/
theorem spineR_pos_last {M : List Node} {b : Nat} (hb : b ≤ spineR M) (hb0 : b ≠ 0) :
    ∃ ty a m k, M.getLast? = some (.elem ty a m k) ∧ b - 1 ≤ spineR k := by
  cases hl : M.getLast? with
  | none =>
    have : M = [] := by simpa using hl
    subst this; simp [spineR] at hb; omega
  | some x =>
    have hM := getLast?_decomp hl
    rw [hM, spineR_concat] at hb
    cases x with
    | text s m => simp [spineR] at hb; omega
    | leaf ty a m => simp [spineR] at hb; omega
    | elem ty a m k =>
      simp only [spineR_elem_single] at hb
      exact ⟨ty, a, m, k, rfl, by omega⟩

theorem rightJoin_no_internal (S : Schema) (M : List Node) (b : Nat) (R : List Node) (t : Nat)
    (rs : RSplit) (hs : splitRight R t = some rs) (hd : depthAt R t = b) (hb : b ≤ spineR M) :
    rightJoin S M b rs ≠ .error .internal := by
  intro h
  unfold rightJoin at h
  split at h
  · rename_i rest
    have := splitRight_flat_depth R t rest hs
    rw [if_pos (by omega)] at h
    simp at h
  · rename_i cR innerT rest
    obtain ⟨tyR, aR, mR, kR, hc, h2, _, _⟩ := splitRight_deep_facts R t cR innerT rest hs
    subst hc
    rw [if_neg (by omega)] at h
    obtain ⟨tyE, aE, mE, kE, hl, hsp⟩ := spineR_pos_last hb (by omega)
    rw [hl] at h
    simp only at h
    split at h
    · split at h
      · split at h
        · simp at h
        · rename_i e he
          simp at h; subst h
          exact close_ne_internal S _ _ _ _ he
      · rename_i e he
        simp at h; subst h
        refine twoWay_no_internal S kE _ kR innerT ?_ he
        rw [depthAt_spineR kE (b - 1) hsp]; omega
    · simp at h

theorem flatTail_no_internal (S : Schema) (M : List Node) (a b : Nat) (R : List Node) (t : Nat)
    (ha : a = 0) (hd : depthAt R t = b) (hb : b ≤ spineR M) :
    flatTail S M a b R t ≠ .error .internal := by
  intro h
  unfold flatTail at h
  rw [if_neg (by omega)] at h
  split at h
  · simp at h
  · rename_i rs hs
    split at h
    · simp at h
    · rename_i e he
      simp at h; subst h
      exact rightJoin_no_internal S M b R t rs hs hd hb he

/-! ### `threeWay` -/

/-- **three-way join**: both positions are `extra` levels above the slice's top level plus the
    slice's remaining open depth on their side, and the open depths are available in the slice -/
theorem threeWay_no_internal (S : Schema) : ∀ (L : List Node) (f extra : Nat) (M : List Node) (a b : Nat)
    (R : List Node) (t : Nat),
    depthAt L f = extra + a → depthAt R t = extra + b → a ≤ spineL M → b ≤ spineR M →
    threeWay S L f extra M a b R t ≠ .error .internal
  | [], f, extra, M, a, b, R, t, hdl, hdr, ha, hb, h => by
    unfold threeWay at h
    simp only [depthAt] at hdl
    split at h
    · rw [if_pos (by omega)] at h
      exact flatTail_no_internal S M a b R t (by omega) (by omega) hb h
    · simp at h
  | n :: ns, f, extra, M, a, b, R, t, hdl, hdr, ha, hb, h => by
    unfold threeWay at h
    split at h
    · rename_i hf; subst hf
      simp only [depthAt_zero] at hdl
      rw [if_pos (by omega)] at h
      exact flatTail_no_internal S M a b R t (by omega) (by omega) hb h
    · rename_i hf
      split at h
      · rename_i hle
        split at h
        · simp at h
        · rename_i e he
          simp at h; subst h
          rw [depthAt_skip n ns f hle] at hdl
          exact threeWay_no_internal S ns (f - n.size) extra M a b R t hdl hdr ha hb he
      · rename_i hlt
        cases n with
        | text s m =>
          rw [depthAt_nonelem_cons _ ns f (by omega) (by simp)] at hdl
          simp only at h
          split at h
          · simp at h
          · rw [if_neg (by omega)] at h
            split at h
            · simp at h
            · rename_i e he
              simp at h; subst h
              exact flatTail_no_internal S M a b R t (by omega) (by omega) hb he
        | leaf ty at_ m => simp at hlt; omega
        | elem tyL aL mL kidsL =>
          simp only [Node.size_elem, Nat.not_le] at hlt
          rw [depthAt_elem_cons _ _ _ _ _ _ (by omega) hlt] at hdl
          simp only at h
          split at h
          · simp at h
          · rename_i rs hs
            split at h
            · -- above the slice
              rename_i hex
              split at h
              · rename_i tyR aR mR kidsR innerT rest
                obtain ⟨_, _, _, k, hc, h2, _, _⟩ := splitRight_deep_facts R t _ innerT rest hs
                simp at hc
                obtain ⟨_, _, _, rfl⟩ := hc
                split at h
                · split at h
                  · split at h
                    · simp at h
                    · rename_i e he
                      simp at h; subst h
                      exact close_ne_internal S _ _ _ _ he
                  · rename_i e he
                    simp at h; subst h
                    exact threeWay_no_internal S kidsL (f - 1) (extra - 1) M a b kidsR innerT
                      (by omega) (by omega) ha hb he
                · simp at h
              · rename_i hnot
                cases rs with
                | flat r =>
                  have := splitRight_flat_depth R t r hs
                  omega
                | deep c i r =>
                  obtain ⟨ty', a', m', k, hc, _, _, _⟩ := splitRight_deep_facts R t c i r hs
                  subst hc
                  exact hnot ty' a' m' k i r rfl
            · rename_i hex
              have hex0 : extra = 0 := by simpa using hex
              subst hex0
              rw [if_neg (by omega)] at h
              split at h
              · simp [spineL] at ha; omega
              · rename_i cS Mtail
                split at h
                · rename_i tyS aS mS kidsS
                  simp only [spineL_elem_cons] at ha
                  split at h
                  · simp at h
                  · split at h
                    · -- both open, single slice child
                      rename_i tyR aR mR kidsR innerT rest b' x hx
                      obtain ⟨rfl, rfl⟩ : Node.elem tyS aS mS kidsS = x ∧ Mtail = [] := by
                        simpa using hx
                      obtain ⟨_, _, _, k, hc, h2, _, _⟩ := splitRight_deep_facts R t _ innerT rest hs
                      simp at hc
                      obtain ⟨_, _, _, rfl⟩ := hc
                      simp only [spineR_elem_single] at hb
                      split at h
                      · simp at h
                      · split at h
                        · split at h
                          · simp at h
                          · rename_i e he
                            simp at h; subst h
                            exact close_ne_internal S _ _ _ _ he
                        · rename_i e he
                          simp at h; subst h
                          exact threeWay_no_internal S kidsL (f - 1) 0 kidsS (a - 1) b' kidsR innerT
                            (by omega) (by omega) (by omega) (by omega) he
                    · rename_i rs b _ _ _ hnot
                      split at h
                      · rename_i e he
                        simp at h; subst h
                        unfold threeWay.rightJoinCheck at he
                        split at he
                        · rename_i r
                          have := splitRight_flat_depth R t r hs
                          rw [if_pos (by omega)] at he
                          simp at he
                        · rename_i c i r
                          obtain ⟨_, _, _, _, _, h2, _, _⟩ := splitRight_deep_facts R t c i r hs
                          rw [if_neg (by omega)] at he
                          simp at he
                      · split at h
                        · split at h
                          · split at h
                            · simp at h
                            · rename_i e he
                              simp at h; subst h
                              exact rightJoin_no_internal S _ b R t rs hs (by omega) hb he
                          · rename_i e he
                            simp at h; subst h
                            exact close_ne_internal S _ _ _ _ he
                        · rename_i e he
                          simp at h; subst h
                          refine twoWay_no_internal S kidsL (f - 1) kidsS (a - 1) ?_ he
                          rw [depthAt_spineL kidsS (a - 1) (by omega)]; omega
                · rename_i hnot
                  cases cS with
                  | elem ty' a' m' k' => exact hnot ty' a' m' k' rfl
                  | text s m => simp [spineL] at ha; omega
                  | leaf ty' a' m' => simp [spineL] at ha; omega

/-! ### cutting inside the range never dies (`Fragment.cut` indexes past the end only for `to > size`) -/

theorem cutText_ne_internal (s : List Nat) (f t : Nat) : cutText s f t ≠ .error .internal := by
  unfold cutText
  split
  · simp
  · split
    · simp
    · simp only
      split <;> simp

def CutNISpec (kids : List Node) : Prop :=
  ∀ (f t : Nat), t ≤ fsize kids → fcutLoop kids f t ≠ .error .internal

theorem fcut_ni_of_spec {kids : List Node} (IH : CutNISpec kids) (f t : Nat) (ht : t ≤ fsize kids) :
    fcut kids f t ≠ .error .internal := by
  unfold fcut
  split
  · simp
  · split
    · simp
    · exact IH f t ht

theorem fcutLoop_no_internal : ∀ kids : List Node, CutNISpec kids
  | [], f, t, ht, h => by
    have : t = 0 := by simpa using ht
    subst this
    simp [fcutLoop] at h
  | n :: ns, f, t, ht, h => by
    have IHns := fcutLoop_no_internal ns
    simp only [fsize_cons] at ht
    have htail : ∀ f', fcutLoop ns f' (t - n.size) ≠ .error .internal :=
      fun f' => IHns f' (t - n.size) (by omega)
    rw [fcutLoop] at h
    split at h
    · simp at h
    · simp only at h
      split at h
      · split at h
        · cases n with
          | text s m =>
            simp only at h
            split at h
            · split at h
              · simp at h
              · rename_i e he
                simp at h; subst h
                exact htail _ he
            · rename_i e he
              simp at h; subst h
              exact cutText_ne_internal _ _ _ he
          | leaf ty a m =>
            simp only at h
            split at h
            · simp at h
            · rename_i e he
              simp at h; subst h
              exact htail _ he
          | elem ty a m kids =>
            simp only at h
            split at h
            · split at h
              · simp at h
              · rename_i e he
                simp at h; subst h
                exact htail _ he
            · rename_i e he
              simp at h; subst h
              rw [Node.cut_elem] at he
              cases hc : fcut kids (f - 1) (min (fsize kids) (t - 1)) with
              | ok c => rw [hc] at he; simp [Except.map] at he
              | error e' =>
                rw [hc] at he; simp [Except.map] at he; subst he
                exact fcut_ni_of_spec (fcutLoop_no_internal kids) _ _ (Nat.min_le_left _ _) hc
        · split at h
          · simp at h
          · rename_i e he
            simp at h; subst h
            exact htail _ he
      · exact htail _ h

theorem fcut_no_internal (kids : List Node) (f t : Nat) (ht : t ≤ fsize kids) :
    fcut kids f t ≠ .error .internal :=
  fcut_ni_of_spec (fcutLoop_no_internal kids) f t ht

/-! ### `atLevel`, `outer`, `replaceKids` -/

theorem map_ne_internal {α β} {r : Res α} {g : α → β} (h : r ≠ .error .internal) :
    r.map g ≠ .error .internal := by
  cases r with
  | ok x => simp [Except.map]
  | error e => simpa [Except.map] using h

theorem atLevel_no_internal (S : Schema) (sl : Slice) (ty : TypeId) (level : List Node) (f t extra : Nat)
    (hwf : sl.wf = true) (hf : f ≤ fsize level)
    (hdf : depthAt level f = extra + sl.openStart) (hdt : depthAt level t = extra + sl.openEnd) :
    atLevel S sl ty level f t extra ≠ .error .internal := by
  simp only [Slice.wf, Bool.and_eq_true, decide_eq_true_eq] at hwf
  intro h
  unfold atLevel at h
  simp only at h
  split at h
  · split at h <;> simp at h
  · rename_i e he
    simp at h; subst h
    split at he
    · rename_i h0
      -- empty slice content: no spine, so both open depths are 0
      have h1 := spineL_le sl.content
      have h2 := spineR_le sl.content
      exact map_ne_internal (twoWay_no_internal S level f level t (by omega)) he
    · split at he
      · split at he
        · simp at he
        · rename_i e' he'
          simp at he; subst he
          exact fcut_no_internal level 0 f hf he'
        · rename_i e' he' _
          simp at he; subst he
          exact fcut_no_internal level t (fsize level) (Nat.le_refl _) he'
      · exact map_ne_internal (threeWay_no_internal S level f extra sl.content sl.openStart sl.openEnd
          level t hdf hdt hwf.1 hwf.2) he

/-- **replace_outer**: the invariant `replaceKids` establishes (`depth from = extra + openStart`,
    `depth to = extra + openEnd`, slice spines long enough) is kept along the descent -/
theorem outer_no_internal (S : Schema) (sl : Slice) (hwf : sl.wf = true) :
    ∀ (rest : List Node) (ty : TypeId) (level : List Node) (f0 t0 idx f t extra : Nat),
      f0 ≤ fsize level →
      depthAt level f0 = extra + sl.openStart → depthAt level t0 = extra + sl.openEnd →
      depthAt rest f = extra + sl.openStart → depthAt rest t = extra + sl.openEnd → f ≤ t →
      outer S sl ty level f0 t0 idx rest f t extra ≠ .error .internal
  | [], ty, level, f0, t0, idx, f, t, extra, hf0, hlf, hlt, _, _, _, h => by
    unfold outer at h
    exact atLevel_no_internal S sl ty level f0 t0 extra hwf hf0 hlf hlt h
  | n :: ns, ty, level, f0, t0, idx, f, t, extra, hf0, hlf, hlt, hrf, hrt, hft, h => by
    have here := atLevel_no_internal S sl ty level f0 t0 extra hwf hf0 hlf hlt
    unfold outer at h
    split at h
    · exact here h
    · rename_i hf
      split at h
      · rename_i hle
        rw [depthAt_skip n ns f hle] at hrf
        rw [depthAt_skip n ns t (by omega)] at hrt
        exact outer_no_internal S sl hwf ns ty level f0 t0 (idx + 1) (f - n.size) (t - n.size) extra
          hf0 hlf hlt hrf hrt (by omega) h
      · rename_i hlt'
        split at h
        · rename_i tyC aC mC kidsC
          split at h
          · rename_i hcond
            simp only [Bool.and_eq_true, decide_eq_true_eq, Node.size_elem, ne_eq] at hcond
            simp only [Node.size_elem, Nat.not_le] at hlt'
            rw [depthAt_elem_cons _ _ _ _ _ _ (by omega) hlt'] at hrf
            rw [depthAt_elem_cons _ _ _ _ _ _ (by omega) hcond.2] at hrt
            split at h
            · simp at h
            · rename_i e he
              simp at h; subst h
              exact outer_no_internal S sl hwf kidsC tyC kidsC (f - 1) (t - 1) 0 (f - 1) (t - 1) (extra - 1)
                (by omega) (by omega) (by omega) (by omega) (by omega) (by omega) he
          · exact here h
        · exact here h

theorem replaceKids_no_internal (S : Schema) (ty : TypeId) (kids : List Node) (f t : Nat) (sl : Slice)
    (hwf : sl.wf = true) : replaceKids S ty kids f t sl ≠ .error .internal := by
  intro h
  unfold replaceKids at h
  split at h
  · simp only [rangeErr, Except.error.injEq] at h
    split at h <;> simp at h
  · rename_i hg
    simp only [inRange, Bool.or_eq_true, Bool.not_eq_true', decide_eq_false_iff_not,
      decide_eq_true_eq, not_or, Nat.not_lt, Decidable.not_not] at hg
    simp only at h
    split at h
    · simp at h
    · rename_i h1
      split at h
      · simp at h
      · rename_i h2
        simp only [ne_eq, Decidable.not_not] at h2
        rw [if_neg (by simp [hwf])] at h
        exact outer_no_internal S sl hwf kids ty kids f t 0 f t _ hg.1.1
          (by omega) (by omega) (by omega) (by omega) hg.2 h

theorem replace_no_internal (S : Schema) (doc : Node) (f t : Nat) (sl : Slice)
    (hdoc : doc.isLeaf = false) (hwf : sl.wf = true) : S.replace doc f t sl ≠ .error .internal := by
  cases doc with
  | text s m => simp [Node.isLeaf] at hdoc
  | leaf ty a m => simp [Node.isLeaf] at hdoc
  | elem ty a m kids =>
    unfold Schema.replace
    exact map_ne_internal (replaceKids_no_internal S ty kids f t sl hwf)

/-! ### `Node.slice` never dies, and what it returns is a well-formed slice -/

theorem sliceHere_no_internal (level : List Node) (f t : Nat) (ht : t ≤ fsize level) :
    sliceHere level f t ≠ .error .internal := by
  intro h
  unfold sliceHere at h
  split at h
  · simp at h
  · rename_i e he
    simp at h; subst h
    exact fcut_no_internal level f t ht he

theorem sliceScan_no_internal : ∀ (rest level : List Node) (f0 t0 f t : Nat),
    t0 ≤ fsize level → sliceScan level f0 t0 rest f t ≠ .error .internal
  | [], level, f0, t0, f, t, ht0 => by
    unfold sliceScan
    exact sliceHere_no_internal level f0 t0 ht0
  | n :: ns, level, f0, t0, f, t, ht0 => by
    have here := sliceHere_no_internal level f0 t0 ht0
    rw [sliceScan_cons]
    split
    · exact here
    · split
      · exact sliceScan_no_internal ns level f0 t0 _ _ ht0
      · cases n with
        | text s m => exact here
        | leaf ty a m => exact here
        | elem ty a m kids =>
          simp only
          split
          · rename_i hlt
            simp only [Node.size_elem] at hlt
            exact sliceScan_no_internal kids kids _ _ _ _ (by omega)
          · exact here

theorem sliceKids_no_internal (kids : List Node) (f t : Nat) :
    sliceKids kids f t ≠ .error .internal := by
  unfold sliceKids
  split
  · simp
  · split
    · simp
    · rename_i hg
      simp only [inRange, Bool.or_eq_true, Bool.not_eq_true', decide_eq_false_iff_not,
        decide_eq_true_eq, not_or, Nat.not_lt, Decidable.not_not] at hg
      exact sliceScan_no_internal kids kids f t f t hg.1.2

theorem sliceHere_wf (level : List Node) (f t : Nat) (s : Slice) (hft : f < t) (ht : t ≤ fsize level)
    (h : sliceHere level f t = .ok s) : s.wf = true := by
  unfold sliceHere at h
  split at h
  · rename_i c hc
    simp at h; subst h
    have := fcut_spine level c f t hft ht hc
    simp [Slice.wf, this.1, this.2]
  · simp at h

theorem sliceScan_wf : ∀ (rest level : List Node) (f0 t0 f t : Nat) (s : Slice),
    f0 < t0 → t0 ≤ fsize level → f < t →
    sliceScan level f0 t0 rest f t = .ok s → s.wf = true
  | [], level, f0, t0, f, t, s, h0, ht0, _, h => by
    unfold sliceScan at h
    exact sliceHere_wf level f0 t0 s h0 ht0 h
  | n :: ns, level, f0, t0, f, t, s, h0, ht0, hft, h => by
    have here := sliceHere_wf level f0 t0 s h0 ht0
    rw [sliceScan_cons] at h
    split at h
    · exact here h
    · rename_i hf
      split at h
      · exact sliceScan_wf ns level f0 t0 _ _ s h0 ht0 (by omega) h
      · cases n with
        | text s' m => exact here h
        | leaf ty a m => exact here h
        | elem ty a m kids =>
          simp only at h
          split at h
          · rename_i hlt
            simp only [Node.size_elem] at hlt
            exact sliceScan_wf kids kids _ _ _ _ s (by omega) (by omega) (by omega) h
          · exact here h

/-- a slice cut from any node (valid or not, normal or not) has open depths within its spines -/
theorem sliceKids_wf (kids : List Node) (f t : Nat) (s : Slice) (h : sliceKids kids f t = .ok s) :
    s.wf = true := by
  unfold sliceKids at h
  split at h
  · simp at h; subst h; simp [Slice.empty, Slice.wf]
  · rename_i hne
    split at h
    · simp at h
    · rename_i hg
      simp only [inRange, Bool.or_eq_true, Bool.not_eq_true', decide_eq_false_iff_not,
        decide_eq_true_eq, not_or, Nat.not_lt, Decidable.not_not] at hg
      exact sliceScan_wf kids kids f t f t s (by omega) hg.1.2 (by omega) h

/-! ### heads and tails kept by `addNode` / `fappend` / `fromArray` / `fcut` -/

theorem addNode_elem (t : List Node) (ty : TypeId) (a : Attrs) (m : Marks) (k : List Node) :
    addNode t (.elem ty a m k) = t ++ [.elem ty a m k] := by
  unfold addNode
  split
  · rename_i h; simp at h
  · rfl

theorem addNode_cons_elem (ty : TypeId) (a : Attrs) (m : Marks) (k x : List Node) (c : Node) :
    ∃ x', addNode (.elem ty a m k :: x) c = .elem ty a m k :: x' := by
  cases x with
  | nil =>
    refine ⟨[c], ?_⟩
    unfold addNode
    split
    · rename_i h; simp at h
    · rfl
  | cons y ys =>
    unfold addNode
    split
    · split
      · rename_i s1 m1 s2 m2 _ _
        exact ⟨(y :: ys).dropLast ++ [Node.text (s1 ++ s2) m1], by
          simp only [List.dropLast_cons_cons, List.cons_append]⟩
      · exact ⟨_, rfl⟩
    · exact ⟨_, rfl⟩

theorem addNodes_cons_elem (ty : TypeId) (a : Attrs) (m : Marks) (k : List Node) :
    ∀ (cs x : List Node), ∃ x', addNodes (.elem ty a m k :: x) cs = .elem ty a m k :: x'
  | [], x => ⟨x, rfl⟩
  | c :: cs, x => by
    obtain ⟨x1, h1⟩ := addNode_cons_elem ty a m k x c
    obtain ⟨x2, h2⟩ := addNodes_cons_elem ty a m k cs x1
    exact ⟨x2, by simp only [addNodes, List.foldl_cons] at h2 ⊢; rw [h1]; exact h2⟩

theorem fromArray_cons_elem (ty : TypeId) (a : Attrs) (m : Marks) (k l : List Node) :
    ∃ x', fromArray (.elem ty a m k :: l) = .elem ty a m k :: x' := by
  obtain ⟨x, hx⟩ := addNodes_cons_elem ty a m k l []
  refine ⟨x, ?_⟩
  simp only [fromArray, addNodes, List.foldl_cons] at hx ⊢
  rw [show addNode [] (Node.elem ty a m k) = [Node.elem ty a m k] from by simp [addNode_elem]]
  exact hx

theorem addNodes_snoc_elem (ty : TypeId) (a : Attrs) (m : Marks) (k : List Node) :
    ∀ (cs t : List Node), ∃ x', addNodes t (cs ++ [.elem ty a m k]) = x' ++ [.elem ty a m k]
  | [], t => ⟨t, by simp [addNodes, addNode_elem]⟩
  | c :: cs, t => by
    obtain ⟨x, hx⟩ := addNodes_snoc_elem ty a m k cs (addNode t c)
    exact ⟨x, by simpa [addNodes] using hx⟩

theorem fromArray_snoc_elem (ty : TypeId) (a : Attrs) (m : Marks) (k l : List Node) :
    ∃ x', fromArray (l ++ [.elem ty a m k]) = x' ++ [.elem ty a m k] :=
  addNodes_snoc_elem ty a m k l []

theorem fappend_cons_elem (ty : TypeId) (a : Attrs) (m : Marks) (k x b : List Node) :
    ∃ x', fappend (.elem ty a m k :: x) b = .elem ty a m k :: x' := by
  cases b with
  | nil => exact ⟨x, rfl⟩
  | cons c rest =>
    obtain ⟨x1, h1⟩ := addNode_cons_elem ty a m k x c
    exact ⟨x1 ++ rest, by simp [fappend, h1]⟩

theorem fappend_snoc_elem (ty : TypeId) (a : Attrs) (m : Marks) (k x b : List Node) :
    ∃ x', fappend x (b ++ [.elem ty a m k]) = x' ++ [.elem ty a m k] := by
  cases b with
  | nil =>
    by_cases hx : x.isEmpty
    · exact ⟨[], by simp [fappend, hx]⟩
    · exact ⟨x, by simp [fappend, hx, addNode_elem]⟩
  | cons c rest =>
    by_cases hx : x.isEmpty
    · exact ⟨c :: rest, by simp [fappend, hx]⟩
    · exact ⟨addNode x c ++ rest, by simp [fappend, hx]⟩

/-- one step of the cut loop: the result is the tail's result, possibly with one node in front -/
theorem fcutLoop_cons_inv {n : Node} {ns : List Node} {f t : Nat} {c : List Node}
    (h : fcutLoop (n :: ns) f t = .ok c) (ht : t ≠ 0) :
    ∃ rest, fcutLoop ns (f - n.size) (t - n.size) = .ok rest ∧ (c = rest ∨ ∃ x, c = x :: rest) := by
  rw [fcutLoop, if_neg ht] at h
  simp only at h
  cases hr : fcutLoop ns (f - n.size) (t - n.size) with
  | error e =>
    rw [hr] at h
    split at h
    · split at h
      · cases n with
        | text s m =>
          simp only at h
          split at h <;> simp at h
        | leaf ty a m => simp at h
        | elem ty a m kids =>
          simp only at h
          split at h <;> simp at h
      · simp at h
    · simp at h
  | ok rest =>
    rw [hr] at h
    refine ⟨rest, rfl, ?_⟩
    split at h
    · split at h
      · cases n with
        | text s m =>
          simp only at h
          split at h
          · simp at h; exact .inr ⟨_, h.symm⟩
          · simp at h
        | leaf ty a m => simp at h; exact .inr ⟨_, h.symm⟩
        | elem ty a m kids =>
          simp only at h
          split at h
          · simp at h; exact .inr ⟨_, h.symm⟩
          · simp at h
      · simp at h; exact .inr ⟨_, h.symm⟩
    · simp at h; exact .inl h.symm

/-- a cut that ends at the end of the list and starts before its last child keeps that child whole -/
theorem fcutLoop_keeps_last (e : Node) (he : 0 < e.size) : ∀ (init : List Node) (d : Nat) (r : List Node),
    d ≤ fsize init → fcutLoop (init ++ [e]) d (fsize init + e.size) = .ok r → ∃ r', r = r' ++ [e]
  | [], d, r, hd, h => by
    have : d = 0 := by simpa using hd
    subst this
    simp only [List.nil_append, fsize_nil, Nat.zero_add] at h
    obtain ⟨rest, hr, rfl⟩ := fcutLoop_whole_inv h he (Nat.le_refl _)
    simp [fcutLoop] at hr
    subst hr
    exact ⟨[], rfl⟩
  | n :: init, d, r, hd, h => by
    simp only [fsize_cons] at hd h
    obtain ⟨rest, hr, hc⟩ := fcutLoop_cons_inv h (by omega)
    have e1 : n.size + fsize init + e.size - n.size = fsize init + e.size := by omega
    rw [e1] at hr
    obtain ⟨r', rfl⟩ := fcutLoop_keeps_last e he init (d - n.size) rest (by omega) hr
    rcases hc with rfl | ⟨x, rfl⟩
    · exact ⟨r', rfl⟩
    · exact ⟨x :: r', rfl⟩

theorem fcut_keeps_last (e : Node) (he : 0 < e.size) (init : List Node) (d : Nat) (r : List Node)
    (hd : d ≤ fsize init) (h : fcut (init ++ [e]) d (fsize (init ++ [e])) = .ok r) :
    ∃ r', r = r' ++ [e] := by
  have hsz : fsize (init ++ [e]) = fsize init + e.size := by rw [fsize_append]; simp
  unfold fcut at h
  split at h
  · simp at h; exact ⟨init, h.symm⟩
  · rw [if_neg (by omega), hsz] at h
    exact fcutLoop_keeps_last e he init d r hd h

theorem fcut_keeps_head (n : Node) (ns : List Node) (d : Nat) (l : List Node) (hn : 0 < n.size)
    (hd : n.size ≤ d) (h : fcut (n :: ns) 0 d = .ok l) : ∃ l', l = n :: l' := by
  unfold fcut at h
  split at h
  · simp at h; exact ⟨ns, h.symm⟩
  · rw [if_neg (by omega)] at h
    obtain ⟨rest, _, rfl⟩ := fcutLoop_whole_inv h hn hd
    exact ⟨rest, rfl⟩

theorem spineL_cons_congr (p : Node) (x y : List Node) : spineL (p :: x) = spineL (p :: y) := by
  cases p <;> simp [spineL]

theorem spineR_append_ne_nil (a : List Node) : ∀ ns : List Node, ns ≠ [] → spineR (a ++ ns) = spineR ns := by
  intro ns hne
  have hd := List.dropLast_concat_getLast hne
  rw [← hd, ← List.append_assoc, spineR_concat, spineR_concat]

/-! ### `Slice.insertAt` never dies and keeps the spines (for `insert ≤ size`) -/

theorem flatInsert_no_internal (S : Schema) (ins : List Node) (parent : Option TypeId) (level : List Node)
    (d idx : Nat) (hd : d ≤ fsize level) : flatInsert S ins parent level d idx ≠ .error .internal := by
  intro h
  rcases flatInsert_error h with he | he
  · exact fcut_no_internal level 0 d hd he
  · exact fcut_no_internal level d (fsize level) (Nat.le_refl _) he

theorem insertInto_no_internal (S : Schema) (ins : List Node) :
    ∀ (rest : List Node) (parent : Option TypeId) (level : List Node) (d0 idx d oa ob : Nat),
      d0 + fsize rest = fsize level + d →
      insertInto S ins parent level d0 idx rest d oa ob ≠ .error .internal
  | [], parent, level, d0, idx, d, oa, ob, hinv, h => by
    unfold insertInto at h
    split at h
    · exact flatInsert_no_internal S ins parent level d0 idx (by simp at hinv; omega) h
    · simp at h
  | n :: ns, parent, level, d0, idx, d, oa, ob, hinv, h => by
    simp only [fsize_cons] at hinv
    unfold insertInto at h
    split at h
    · exact flatInsert_no_internal S ins parent level d0 idx (by omega) h
    · rename_i hd
      split at h
      · rename_i hle
        exact insertInto_no_internal S ins ns parent level d0 (idx + 1) (d - n.size) oa ob (by omega) h
      · rename_i hlt
        split at h
        · rename_i ty a m kids
          simp only at h
          split at h
          · simp at h
          · simp at h
          · rename_i e he
            simp at h; subst h
            exact insertInto_no_internal S ins kids _ kids (d - 1) 0 (d - 1) _ _ (by omega) he
        · exact flatInsert_no_internal S ins parent level d0 idx (by omega) h

theorem flatInsert_inv {S : Schema} {ins : List Node} {parent : Option TypeId} {level : List Node}
    {d idx : Nat} {c : List Node} (h : flatInsert S ins parent level d idx = .ok (some c)) :
    ∃ l r, fcut level 0 d = .ok l ∧ fcut level d (fsize level) = .ok r ∧
      c = fappend (fappend l ins) r :=
  flatInsert_ok_cuts h

/-- inserting at a flat position to the right of the first `k` spine tokens keeps the left spine -/
theorem flatInsert_spineL {S : Schema} {ins : List Node} {parent : Option TypeId} {level : List Node}
    {d idx : Nat} {c : List Node} (h0 : depthAt level d = 0)
    (h : flatInsert S ins parent level d idx = .ok (some c)) (k : Nat)
    (hk : k ≤ spineL level) (hkd : k ≤ d) : k ≤ spineL c := by
  by_cases hk0 : k = 0
  · omega
  obtain ⟨l, r, hl, _, rfl⟩ := flatInsert_inv h
  cases level with
  | nil => simp [spineL] at hk; omega
  | cons n ns =>
    cases n with
    | text s m => simp [spineL] at hk; omega
    | leaf ty a m => simp [spineL] at hk; omega
    | elem ty a m kids =>
      have hsz : 2 + fsize kids ≤ d := by
        by_cases hlt : d < 2 + fsize kids
        · rw [depthAt_elem_cons _ _ _ _ _ _ (by omega) hlt] at h0; omega
        · omega
      obtain ⟨l', rfl⟩ := fcut_keeps_head _ ns d l (by simp; omega) (by simpa using hsz) hl
      obtain ⟨x1, h1⟩ := fappend_cons_elem ty a m kids l' ins
      obtain ⟨x2, h2⟩ := fappend_cons_elem ty a m kids x1 r
      rw [h1, h2]
      simpa using hk

theorem depthAt_last_elem (init : List Node) (ty : TypeId) (a : Attrs) (m : Marks) (k : List Node) (d : Nat)
    (h1 : fsize init < d) (h2 : d < fsize init + (2 + fsize k)) :
    depthAt (init ++ [.elem ty a m k]) d ≠ 0 := by
  obtain ⟨j, rfl⟩ : ∃ j, d = fsize init + j := ⟨d - fsize init, by omega⟩
  rw [depthAt_append_pre, depthAt_elem_cons _ _ _ _ _ _ (by omega) (by omega)]
  omega

/-- inserting at a flat position to the left of the last `k` spine tokens keeps the right spine -/
theorem flatInsert_spineR {S : Schema} {ins : List Node} {parent : Option TypeId} {level : List Node}
    {d idx : Nat} {c : List Node} (h0 : depthAt level d = 0)
    (h : flatInsert S ins parent level d idx = .ok (some c)) (k : Nat)
    (hk : k ≤ spineR level) (hkd : d + k ≤ fsize level) : k ≤ spineR c := by
  by_cases hk0 : k = 0
  · omega
  obtain ⟨l, r, _, hr, rfl⟩ := flatInsert_inv h
  obtain ⟨ty, a, m, kE, hl, _⟩ := spineR_pos_last hk hk0
  have hM := getLast?_decomp hl
  generalize level.dropLast = init at hM
  subst hM
  have hsz : fsize (init ++ [Node.elem ty a m kE]) = fsize init + (2 + fsize kE) := by
    rw [fsize_append]; simp
  have hd : d ≤ fsize init := by
    by_cases hlt : fsize init < d
    · exact absurd h0 (depthAt_last_elem init ty a m kE d hlt (by omega))
    · omega
  obtain ⟨r', rfl⟩ := fcut_keeps_last _ (by simp; omega) init d r hd hr
  obtain ⟨x, hx⟩ := fappend_snoc_elem ty a m kE (fappend l ins) r'
  rw [hx, spineR_concat]
  rw [spineR_concat] at hk
  exact hk

theorem insertInto_spine (S : Schema) (ins : List Node) :
    ∀ (rest : List Node) (parent : Option TypeId) (level : List Node) (d0 idx d oa ob : Nat)
      (pre c : List Node), level = pre ++ rest → idx = pre.length → d0 = fsize pre + d →
      insertInto S ins parent level d0 idx rest d oa ob = .ok (some c) →
      (∀ k, k ≤ spineL level → k ≤ d0 → k ≤ spineL c) ∧
      (∀ k, k ≤ spineR level → d0 + k ≤ fsize level → k ≤ spineR c)
  | [], parent, level, d0, idx, d, oa, ob, pre, c, hl, hi, hd0, h => by
    unfold insertInto at h
    split at h
    · rename_i hd; subst hd
      have h0 : depthAt level d0 = 0 := by rw [hl, hd0, depthAt_append_pre]; simp
      exact ⟨flatInsert_spineL h0 h, flatInsert_spineR h0 h⟩
    · simp at h
  | n :: ns, parent, level, d0, idx, d, oa, ob, pre, c, hl, hi, hd0, h => by
    have hlsz : fsize level = fsize pre + (n.size + fsize ns) := by rw [hl, fsize_append]; simp
    unfold insertInto at h
    split at h
    · rename_i hd; subst hd
      have h0 : depthAt level d0 = 0 := by rw [hl, hd0, depthAt_append_pre]; simp
      exact ⟨flatInsert_spineL h0 h, flatInsert_spineR h0 h⟩
    · rename_i hd
      split at h
      · rename_i hle
        refine insertInto_spine S ins ns parent level d0 (idx + 1) (d - n.size) oa ob (pre ++ [n]) c
          ?_ ?_ ?_ h
        · simp [hl]
        · simp [hi]
        · rw [fsize_append]; simp; omega
      · rename_i hlt
        have hflat : (∀ ty a m k, n ≠ .elem ty a m k) →
            flatInsert S ins parent level d0 idx = .ok (some c) →
            (∀ k, k ≤ spineL level → k ≤ d0 → k ≤ spineL c) ∧
            (∀ k, k ≤ spineR level → d0 + k ≤ fsize level → k ≤ spineR c) := by
          intro hne hf
          have h0 : depthAt level d0 = 0 := by
            rw [hl, hd0, depthAt_append_pre]
            exact depthAt_nonelem_cons n ns d (by omega) hne
          exact ⟨flatInsert_spineL h0 hf, flatInsert_spineR h0 hf⟩
        split at h
        · rename_i ty a m kids
          simp only [Node.size_elem, Nat.not_le] at hlt
          simp only [Node.size_elem] at hlsz
          simp only at h
          split at h
          · rename_i inner hin
            simp at h; subst h
            have ih := insertInto_spine S ins kids _ kids (d - 1) 0 (d - 1) _ _ [] inner rfl rfl
              (by simp) hin
            subst hl; subst hi; subst hd0
            rw [set_mid]
            refine ⟨?_, ?_⟩
            · intro k hk hkd
              cases pre with
              | nil =>
                simp only [List.nil_append, spineL_elem_cons] at hk ⊢
                simp only [fsize_nil, Nat.zero_add] at hkd
                have := ih.1 (k - 1) (by omega) (by omega)
                omega
              | cons p ps =>
                rw [List.cons_append, spineL_cons_congr p _ (ps ++ Node.elem ty a m kids :: ns)]
                exact hk
            · intro k hk hkd
              cases ns with
              | nil =>
                rw [spineR_concat, spineR_elem_single] at hk ⊢
                simp only [fsize_append, fsize_cons, fsize_nil, Node.size_elem] at hkd
                by_cases hk0 : k = 0
                · omega
                · have := ih.2 (k - 1) (by omega) (by omega)
                  omega
              | cons q qs =>
                have e1 : ∀ x : Node, pre ++ x :: q :: qs = (pre ++ [x]) ++ (q :: qs) := by simp
                rw [e1, spineR_append_ne_nil _ _ (by simp)] at hk ⊢
                exact hk
          · simp at h
          · simp at h
        · rename_i hne
          exact hflat (by intro ty a m k he; exact hne ty a m k he) h

theorem insertAt_no_internal (S : Schema) (sl : Slice) (pos : Nat) (frag : List Node) :
    sl.insertAt S pos frag ≠ .error .internal := by
  intro h
  exact insertInto_no_internal S frag sl.content none sl.content _ 0 _ _ _ (by omega) (insertAt_error h)

/-- **insert_at keeps well-formedness**: the insertion point lies between the two spines -/
theorem insertAt_wf (S : Schema) (sl ins : Slice) (pos : Nat) (frag : List Node)
    (hwf : sl.wf = true) (hp : (pos : Int) ≤ sl.size)
    (h : sl.insertAt S pos frag = .ok (some ins)) : ins.wf = true := by
  rw [insertAt_of_le (insertAt_ok h).1] at h
  unfold Slice.insertAtIn at h
  split at h
  · rename_i c hc
    simp at h; subst h
    have hs := insertInto_spine S frag sl.content none sl.content _ 0 _ _ _ [] c rfl rfl (by simp) hc
    simp only [Slice.wf, Bool.and_eq_true, decide_eq_true_eq] at hwf ⊢
    simp only [Slice.size] at hp
    exact ⟨hs.1 _ hwf.1 (by omega), hs.2 _ hwf.2 (by omega)⟩
  · simp at h
  · simp at h

/-! ### the mark steps' rebuilt slice keeps the spines -/

theorem addMarkNode_elem (S : Schema) (mrk : Mark) (p t : TypeId) (a : Attrs) (m : Marks) (kids : List Node) :
    ∃ m', addMarkNode S mrk p (.elem t a m kids) = .elem t a m' (fromArray (addMarkKids S mrk t kids)) := by
  unfold addMarkNode
  simp only
  split <;> exact ⟨_, rfl⟩

theorem removeMarkNode_elem (S : Schema) (mrk : Mark) (t : TypeId) (a : Attrs) (m : Marks) (kids : List Node) :
    ∃ m', removeMarkNode S mrk (.elem t a m kids) = .elem t a m' (fromArray (removeMarkKids S mrk kids)) := by
  unfold removeMarkNode
  simp only
  split <;> exact ⟨_, rfl⟩

theorem addMarkKids_spineL (S : Schema) (mrk : Mark) : ∀ (l : List Node) (p : TypeId),
    spineL l ≤ spineL (fromArray (addMarkKids S mrk p l))
  | [], _ => by simp [spineL]
  | .text .. :: _, _ => by simp [spineL]
  | .leaf .. :: _, _ => by simp [spineL]
  | .elem t a m kids :: ns, p => by
    obtain ⟨m', hm⟩ := addMarkNode_elem S mrk p t a m kids
    rw [addMarkKids, hm]
    obtain ⟨x, hx⟩ := fromArray_cons_elem t a m' (fromArray (addMarkKids S mrk t kids)) (addMarkKids S mrk p ns)
    rw [hx]
    have := addMarkKids_spineL S mrk kids t
    simp only [spineL_elem_cons]; omega

theorem addMarkKids_spineR (S : Schema) (mrk : Mark) : ∀ (l : List Node) (acc : List Node) (p : TypeId),
    spineR l ≤ spineR (addNodes acc (addMarkKids S mrk p l))
  | [], _, _ => by simp [spineR]
  | [.text ..], _, _ => by simp [spineR]
  | [.leaf ..], _, _ => by simp [spineR]
  | [.elem t a m kids], acc, p => by
    obtain ⟨m', hm⟩ := addMarkNode_elem S mrk p t a m kids
    rw [addMarkKids, hm, addMarkKids]
    simp only [addNodes, List.foldl_cons, List.foldl_nil, addNode_elem]
    rw [spineR_concat]
    have := addMarkKids_spineR S mrk kids [] t
    simp only [spineR_elem_single, fromArray]; omega
  | x :: n :: ns, acc, p => by
    have e : spineR (x :: n :: ns) = spineR (n :: ns) := by
      conv => lhs; unfold spineR
      cases x <;> rfl
    rw [e, addMarkKids]
    simp only [addNodes, List.foldl_cons]
    exact addMarkKids_spineR S mrk (n :: ns) _ p

theorem removeMarkKids_spineL (S : Schema) (mrk : Mark) : ∀ (l : List Node),
    spineL l ≤ spineL (fromArray (removeMarkKids S mrk l))
  | [] => by simp [spineL]
  | .text .. :: _ => by simp [spineL]
  | .leaf .. :: _ => by simp [spineL]
  | .elem t a m kids :: ns => by
    obtain ⟨m', hm⟩ := removeMarkNode_elem S mrk t a m kids
    rw [removeMarkKids, hm]
    obtain ⟨x, hx⟩ := fromArray_cons_elem t a m' (fromArray (removeMarkKids S mrk kids)) (removeMarkKids S mrk ns)
    rw [hx]
    have := removeMarkKids_spineL S mrk kids
    simp only [spineL_elem_cons]; omega

theorem removeMarkKids_spineR (S : Schema) (mrk : Mark) : ∀ (l : List Node) (acc : List Node),
    spineR l ≤ spineR (addNodes acc (removeMarkKids S mrk l))
  | [], _ => by simp [spineR]
  | [.text ..], _ => by simp [spineR]
  | [.leaf ..], _ => by simp [spineR]
  | [.elem t a m kids], acc => by
    obtain ⟨m', hm⟩ := removeMarkNode_elem S mrk t a m kids
    rw [removeMarkKids, hm, removeMarkKids]
    simp only [addNodes, List.foldl_cons, List.foldl_nil, addNode_elem]
    rw [spineR_concat]
    have := removeMarkKids_spineR S mrk kids []
    simp only [spineR_elem_single, fromArray]; omega
  | x :: n :: ns, acc => by
    have e : spineR (x :: n :: ns) = spineR (n :: ns) := by
      conv => lhs; unfold spineR
      cases x <;> rfl
    rw [e, removeMarkKids]
    simp only [addNodes, List.foldl_cons]
    exact removeMarkKids_spineR S mrk (n :: ns) _

theorem addMark_slice_wf (S : Schema) (mrk : Mark) (p : TypeId) (old : Slice) (h : old.wf = true) :
    (Slice.mk (fromArray (addMarkKids S mrk p old.content)) old.openStart old.openEnd).wf = true := by
  simp only [Slice.wf, Bool.and_eq_true, decide_eq_true_eq] at h ⊢
  have h1 := addMarkKids_spineL S mrk old.content p
  have h2 := addMarkKids_spineR S mrk old.content [] p
  simp only [fromArray] at h1 ⊢
  omega

theorem removeMark_slice_wf (S : Schema) (mrk : Mark) (old : Slice) (h : old.wf = true) :
    (Slice.mk (fromArray (removeMarkKids S mrk old.content)) old.openStart old.openEnd).wf = true := by
  simp only [Slice.wf, Bool.and_eq_true, decide_eq_true_eq] at h ⊢
  have h1 := removeMarkKids_spineL S mrk old.content
  have h2 := removeMarkKids_spineR S mrk old.content []
  simp only [fromArray] at h1 ⊢
  omega

/-! ### node-level steps -/

theorem nodeAtKids_no_internal : ∀ (kids : List Node) (pos : Nat), nodeAtKids kids pos ≠ .error .internal
  | [], pos => by
    unfold nodeAtKids
    split <;> simp
  | n :: ns, pos => by
    unfold nodeAtKids
    split
    · simp
    · split
      · exact nodeAtKids_no_internal ns _
      · cases n with
        | text s m => simp
        | leaf ty a m => simp
        | elem ty a m kids => exact nodeAtKids_no_internal kids _

theorem computeAttrs_no_internal (decls : List AttrDecl) (given : Attrs) :
    computeAttrs decls given ≠ .error .internal := by
  unfold computeAttrs
  induction decls with
  | nil => simp
  | cons d ds ih =>
    simp only [List.foldr_cons]
    intro h
    split at h
    · rename_i e he
      simp at h; subst h
      exact ih he
    · split at h
      · split at h
        · simp at h
        · split at h <;> simp at h
      · split at h <;> simp at h

/-- `recreate` fails with a ValueError only, and what it returns is a leaf for a leaf and an empty
    element for an element — so the one-node slice `⟨[u], 0, if leaf then 0 else 1⟩` is well-formed -/
theorem recreate_slice_wf (S : Schema) (n u : Node) (attrs : Attrs) (marks : Marks)
    (h : S.recreate n attrs marks = .ok u) :
    (Slice.mk [u] 0 (if n.isLeaf then 0 else 1)).wf = true := by
  unfold Schema.recreate at h
  cases n with
  | text s m => simp at h
  | leaf t a m =>
    simp [Node.isLeaf, Slice.wf]
  | elem t a m k =>
    simp only at h
    cases hc : computeAttrs (S.nodeType t).attrs attrs with
    | error e => rw [hc] at h; simp [Except.map] at h
    | ok a' =>
      rw [hc] at h; simp [Except.map] at h; subst h
      simp [Node.isLeaf, Slice.wf]

theorem recreate_no_internal (S : Schema) (n : Node) (attrs : Attrs) (marks : Marks) :
    S.recreate n attrs marks ≠ .error .internal := by
  unfold Schema.recreate
  cases n with
  | text s m => simp
  | leaf t a m => exact map_ne_internal (computeAttrs_no_internal _ _)
  | elem t a m k => exact map_ne_internal (computeAttrs_no_internal _ _)

end PM
