/-
  Proofs/NoInternal.lean — helper lemmas for C01's second sentence: under an explicit
  well-formedness predicate on the step, `Schema.apply` never returns `.error .internal`
  (the model's outcome for IndexError / AttributeError / AssertionError / TypeError).

  Structure: for each recursive function of PM/Replace.lean a lemma "result ≠ .error .internal under
  the local depth invariant": the depth of the left position equals the depth of the right one
  (`twoWay`), resp. both equal `extra +` the slice's remaining open depth and the open depths do not
  exceed the slice's spines (`threeWay`); `replaceKids` establishes exactly this before it calls
  `outer`.  Then the payload producers (`Node.slice`, `Slice.insertAt`, the mark steps' rebuilt
  slice) are shown to keep `Slice.wf`.
-/
import PM.Step
import Proofs.Toks
import Proofs.TokCore
import Proofs.ReplaceToks
import Proofs.Reinsert
namespace PM

/-! ### `close` never dies -/

theorem close_ne_internal (S : Schema) (ty : TypeId) (a : Attrs) (m : Marks) (c : List Node) :
    S.close ty a m c ≠ .error .internal := by
  unfold Schema.close
  split <;> simp

/-! ### depth of the positions on a fragment's spines -/

/-- the position `k` levels down the left spine is at depth `k` -/
theorem depthAt_spineL : ∀ (K : List Node) (k : Nat), k ≤ spineL K → depthAt K k = k
  | [], k, h => by
    have : k = 0 := by simpa [spineL] using h
    subst this; simp
  | .text .. :: _, k, h => by
    have : k = 0 := by simpa [spineL] using h
    subst this; simp
  | .leaf .. :: _, k, h => by
    have : k = 0 := by simpa [spineL] using h
    subst this; simp
  | .elem ty a m kids :: ns, k, h => by
    by_cases hk : k = 0
    · subst hk; simp
    · simp only [spineL_elem_cons] at h
      have hs := spineL_le kids
      rw [depthAt_elem_cons _ _ _ _ _ _ (by omega) (by omega),
        depthAt_spineL kids (k - 1) (by omega)]
      omega

/-- the position `k` levels down the right spine (from the end) is at depth `k` -/
theorem depthAt_spineR : ∀ (K : List Node) (k : Nat), k ≤ spineR K → depthAt K (fsize K - k) = k
  | [], k, h => by
    have : k = 0 := by simpa [spineR] using h
    subst this; simp
  | [.text ..], k, h => by
    have : k = 0 := by simpa [spineR] using h
    subst this; exact depthAt_fsize _
  | [.leaf ..], k, h => by
    have : k = 0 := by simpa [spineR] using h
    subst this; exact depthAt_fsize _
  | [.elem ty a m kids], k, h => by
    by_cases hk : k = 0
    · subst hk; exact depthAt_fsize _
    · simp only [spineR_elem_single] at h
      have hs := spineR_le kids
      simp only [fsize_cons, fsize_nil, Node.size_elem, Nat.add_zero]
      rw [depthAt_elem_cons _ _ _ _ _ _ (by omega) (by omega)]
      have : 2 + fsize kids - k - 1 = fsize kids - (k - 1) := by omega
      rw [this, depthAt_spineR kids (k - 1) (by omega)]
      omega
  | x :: n :: ns, k, h => by
    have e : spineR (x :: n :: ns) = spineR (n :: ns) := by
      conv => lhs; unfold spineR
      cases x <;> rfl
    rw [e] at h
    have hs := spineR_le (n :: ns)
    rw [fsize_cons, depthAt_skip x (n :: ns) _ (by omega)]
    have : x.size + fsize (n :: ns) - k - x.size = fsize (n :: ns) - k := by omega
    rw [this]
    exact depthAt_spineR (n :: ns) k h

/-! ### `twoWay` -/

/-- **two-way join**: when both positions are equally deep, the join never hits an inconsistent
    combination (left side descends but the right side is flat, or the other way round) -/
theorem twoWay_no_internal (S : Schema) : ∀ (L : List Node) (f : Nat) (R : List Node) (t : Nat),
    depthAt L f = depthAt R t → twoWay S L f R t ≠ .error .internal
  | [], f, R, t, hd, h => by
    unfold twoWay at h
    split at h
    · split at h
      · simp at h
      · rename_i c i r hs
        obtain ⟨_, _, _, _, _, h2, _, _⟩ := splitRight_deep_facts R t c i r hs
        simp [depthAt] at hd; omega
      · simp at h
    · simp at h
  | n :: ns, f, R, t, hd, h => by
    unfold twoWay at h
    split at h
    · rename_i hf; subst hf
      split at h
      · simp at h
      · rename_i c i r hs
        obtain ⟨_, _, _, _, _, h2, _, _⟩ := splitRight_deep_facts R t c i r hs
        simp at hd; omega
      · simp at h
    · rename_i hf
      split at h
      · rename_i hle
        split at h
        · simp at h
        · rename_i e he
          simp at h; subst h
          rw [depthAt_skip n ns f hle] at hd
          exact twoWay_no_internal S ns (f - n.size) R t hd he
      · rename_i hlt
        cases n with
        | text s m =>
          simp only at h
          split at h
          · simp at h
          · split at h
            · simp at h
            · rename_i c i r hs
              obtain ⟨_, _, _, _, _, h2, _, _⟩ := splitRight_deep_facts R t c i r hs
              rw [depthAt_nonelem_cons _ ns f (by omega) (by simp)] at hd
              omega
            · simp at h
        | leaf ty a m => simp at hlt; omega
        | elem ty a m kids =>
          simp only [Node.size_elem, Nat.not_le] at hlt
          rw [depthAt_elem_cons _ _ _ _ _ _ (by omega) hlt] at hd
          simp only at h
          split at h
          · rename_i ty' a' m' kids' inner rest hs
            obtain ⟨_, _, _, k, hc, h2, _, _⟩ := splitRight_deep_facts R t _ inner rest hs
            simp at hc
            obtain ⟨_, _, _, rfl⟩ := hc
            split at h
            · split at h
              · rename_i innerRes hin
                split at h
                · simp at h
                · rename_i e he
                  simp at h; subst h
                  exact close_ne_internal S _ _ _ _ he
              · rename_i e he
                simp at h; subst h
                exact twoWay_no_internal S kids (f - 1) kids' inner (by omega) he
            · simp at h
          · rename_i rs hnot hs
            cases rs with
            | flat r =>
              have := splitRight_flat_depth R t r hs
              omega
            | deep c i r =>
              obtain ⟨ty', a', m', k, hc, _, _, _⟩ := splitRight_deep_facts R t c i r hs
              subst hc
              exact hnot ty' a' m' k i r rfl
          · simp at h

/-! ### right join, flat tail -/

theorem spineR_concat (x : Node) : ∀ init : List Node, spineR (init ++ [x]) = spineR [x]
  | [] => rfl
  | [y] => by
    conv => lhs; simp only [List.cons_append, List.nil_append]; unfold spineR
    cases y <;> rfl
  | y :: z :: r => by
    have := spineR_concat x (z :: r)
    rw [← this]
    conv => lhs; simp only [List.cons_append]; unfold spineR
    cases y <;> rfl

/-- a fragment with a non-trivial right spine ends in an element carrying the rest of the spine -/
theorem spineR_pos_last {M : List Node} {b : Nat} (hb : b ≤ spineR M) (hb0 : b ≠ 0) :
    ∃ ty a m k, M.getLast? = some (.elem ty a m k) ∧ b - 1 ≤ spineR k := by
  cases hl : M.getLast? with
  | none =>
    have : M = [] := by simpa using hl
    subst this; simp [spineR] at hb; omega
  | some x =>
    have hM := getLast?_decomp hl
    rw [hM, spineR_concat] at hb
    cases x with
    | text s m => simp [spineR] at hb; omega
    | leaf ty a m => simp [spineR] at hb; omega
    | elem ty a m k =>
      simp only [spineR_elem_single] at hb
      exact ⟨ty, a, m, k, rfl, by omega⟩

theorem rightJoin_no_internal (S : Schema) (M : List Node) (b : Nat) (R : List Node) (t : Nat)
    (rs : RSplit) (hs : splitRight R t = some rs) (hd : depthAt R t = b) (hb : b ≤ spineR M) :
    rightJoin S M b rs ≠ .error .internal := by
  intro h
  unfold rightJoin at h
  split at h
  · rename_i rest
    have := splitRight_flat_depth R t rest hs
    rw [if_pos (by omega)] at h
    simp at h
  · rename_i cR innerT rest
    obtain ⟨tyR, aR, mR, kR, hc, h2, _, _⟩ := splitRight_deep_facts R t cR innerT rest hs
    subst hc
    rw [if_neg (by omega)] at h
    obtain ⟨tyE, aE, mE, kE, hl, hsp⟩ := spineR_pos_last hb (by omega)
    rw [hl] at h
    simp only at h
    split at h
    · split at h
      · split at h
        · simp at h
        · rename_i e he
          simp at h; subst h
          exact close_ne_internal S _ _ _ _ he
      · rename_i e he
        simp at h; subst h
        refine twoWay_no_internal S kE _ kR innerT ?_ he
        rw [depthAt_spineR kE (b - 1) hsp]; omega
    · simp at h

theorem flatTail_no_internal (S : Schema) (M : List Node) (a b : Nat) (R : List Node) (t : Nat)
    (ha : a = 0) (hd : depthAt R t = b) (hb : b ≤ spineR M) :
    flatTail S M a b R t ≠ .error .internal := by
  intro h
  unfold flatTail at h
  rw [if_neg (by omega)] at h
  split at h
  · simp at h
  · rename_i rs hs
    split at h
    · simp at h
    · rename_i e he
      simp at h; subst h
      exact rightJoin_no_internal S M b R t rs hs hd hb he

/-! ### `threeWay` -/

/-- **three-way join**: both positions are `extra` levels above the slice's top level plus the
    slice's remaining open depth on their side, and the open depths are available in the slice -/
theorem threeWay_no_internal (S : Schema) : ∀ (L : List Node) (f extra : Nat) (M : List Node) (a b : Nat)
    (R : List Node) (t : Nat),
    depthAt L f = extra + a → depthAt R t = extra + b → a ≤ spineL M → b ≤ spineR M →
    threeWay S L f extra M a b R t ≠ .error .internal
  | [], f, extra, M, a, b, R, t, hdl, hdr, ha, hb, h => by
    unfold threeWay at h
    simp only [depthAt] at hdl
    split at h
    · rw [if_pos (by omega)] at h
      exact flatTail_no_internal S M a b R t (by omega) (by omega) hb h
    · simp at h
  | n :: ns, f, extra, M, a, b, R, t, hdl, hdr, ha, hb, h => by
    unfold threeWay at h
    split at h
    · rename_i hf; subst hf
      simp only [depthAt_zero] at hdl
      rw [if_pos (by omega)] at h
      exact flatTail_no_internal S M a b R t (by omega) (by omega) hb h
    · rename_i hf
      split at h
      · rename_i hle
        split at h
        · simp at h
        · rename_i e he
          simp at h; subst h
          rw [depthAt_skip n ns f hle] at hdl
          exact threeWay_no_internal S ns (f - n.size) extra M a b R t hdl hdr ha hb he
      · rename_i hlt
        cases n with
        | text s m =>
          rw [depthAt_nonelem_cons _ ns f (by omega) (by simp)] at hdl
          simp only at h
          split at h
          · simp at h
          · rw [if_neg (by omega)] at h
            split at h
            · simp at h
            · rename_i e he
              simp at h; subst h
              exact flatTail_no_internal S M a b R t (by omega) (by omega) hb he
        | leaf ty at_ m => simp at hlt; omega
        | elem tyL aL mL kidsL =>
          simp only [Node.size_elem, Nat.not_le] at hlt
          rw [depthAt_elem_cons _ _ _ _ _ _ (by omega) hlt] at hdl
          simp only at h
          split at h
          · simp at h
          · rename_i rs hs
            split at h
            · -- above the slice
              rename_i hex
              split at h
              · rename_i tyR aR mR kidsR innerT rest
                obtain ⟨_, _, _, k, hc, h2, _, _⟩ := splitRight_deep_facts R t _ innerT rest hs
                simp at hc
                obtain ⟨_, _, _, rfl⟩ := hc
                split at h
                · split at h
                  · split at h
                    · simp at h
                    · rename_i e he
                      simp at h; subst h
                      exact close_ne_internal S _ _ _ _ he
                  · rename_i e he
                    simp at h; subst h
                    exact threeWay_no_internal S kidsL (f - 1) (extra - 1) M a b kidsR innerT
                      (by omega) (by omega) ha hb he
                · simp at h
              · rename_i hnot
                cases rs with
                | flat r =>
                  have := splitRight_flat_depth R t r hs
                  omega
                | deep c i r =>
                  obtain ⟨ty', a', m', k, hc, _, _, _⟩ := splitRight_deep_facts R t c i r hs
                  subst hc
                  exact hnot ty' a' m' k i r rfl
            · rename_i hex
              have hex0 : extra = 0 := by simpa using hex
              subst hex0
              rw [if_neg (by omega)] at h
              split at h
              · simp [spineL] at ha; omega
              · rename_i cS Mtail
                split at h
                · rename_i tyS aS mS kidsS
                  simp only [spineL_elem_cons] at ha
                  split at h
                  · simp at h
                  · split at h
                    · -- both open, single slice child
                      rename_i tyR aR mR kidsR innerT rest b' x hx
                      obtain ⟨rfl, rfl⟩ : Node.elem tyS aS mS kidsS = x ∧ Mtail = [] := by
                        simpa using hx
                      obtain ⟨_, _, _, k, hc, h2, _, _⟩ := splitRight_deep_facts R t _ innerT rest hs
                      simp at hc
                      obtain ⟨_, _, _, rfl⟩ := hc
                      simp only [spineR_elem_single] at hb
                      split at h
                      · simp at h
                      · split at h
                        · split at h
                          · simp at h
                          · rename_i e he
                            simp at h; subst h
                            exact close_ne_internal S _ _ _ _ he
                        · rename_i e he
                          simp at h; subst h
                          exact threeWay_no_internal S kidsL (f - 1) 0 kidsS (a - 1) b' kidsR innerT
                            (by omega) (by omega) (by omega) (by omega) he
                    · rename_i rs b _ _ _ hnot
                      split at h
                      · rename_i e he
                        simp at h; subst h
                        unfold threeWay.rightJoinCheck at he
                        split at he
                        · rename_i r
                          have := splitRight_flat_depth R t r hs
                          rw [if_pos (by omega)] at he
                          simp at he
                        · rename_i c i r
                          obtain ⟨_, _, _, _, _, h2, _, _⟩ := splitRight_deep_facts R t c i r hs
                          rw [if_neg (by omega)] at he
                          simp at he
                      · split at h
                        · split at h
                          · split at h
                            · simp at h
                            · rename_i e he
                              simp at h; subst h
                              exact rightJoin_no_internal S _ b R t rs hs (by omega) hb he
                          · rename_i e he
                            simp at h; subst h
                            exact close_ne_internal S _ _ _ _ he
                        · rename_i e he
                          simp at h; subst h
                          refine twoWay_no_internal S kidsL (f - 1) kidsS (a - 1) ?_ he
                          rw [depthAt_spineL kidsS (a - 1) (by omega)]; omega
                · rename_i hnot
                  cases cS with
                  | elem ty' a' m' k' => exact hnot ty' a' m' k' rfl
                  | text s m => simp [spineL] at ha; omega
                  | leaf ty' a' m' => simp [spineL] at ha; omega

end PM
