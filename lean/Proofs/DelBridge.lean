/-
  Proofs/DelBridge.lean — from the run of `replace_step` on a deletion to the hypotheses of `delete_merged`
  (C11 `delete_applies`): the two flat ends, the position `close` continues from, the fillers of the closed levels,
  surrogate pairs.
-/
import Proofs.DelFacts
import Proofs.FitNorm
namespace PM
open PM.FromDom (LeafOk)

/-! ### the flat ends -/

theorem fnorm_take (l : List Node) (i : Nat) (h : fnorm l = true) : fnorm (l.take i) = true := by
  have := (List.take_append_drop i l).symm
  rw [this] at h
  exact fnorm_append_left h

/-- the children in front of a flat position, the half text child included: normal form, tokens, types and marks,
    validity -/
theorem flat_left_facts (S : Schema) {L A Lr : List Node} {p k : Nat} (h : FlatAt L p A Lr k) (hn : fnorm L = true)
    (hk : S.checkKids L = true) :
    fnorm (A ++ headCut Lr k) = true ∧ ftoks (A ++ headCut Lr k) = (ftoks L).take p ∧
      S.checkKids (A ++ headCut Lr k) = true ∧
      sigOf S (A ++ headCut Lr k) = sigOf S (L.take (A.length + (if k = 0 then 0 else 1))) := by
  have hsplit := h.split
  have e0 : L.take A.length = A := by rw [hsplit]; simp
  have hkA : S.checkKids A = true := by
    rw [hsplit, checkKids_append] at hk; simp only [Bool.and_eq_true] at hk; exact hk.1
  have hnA : fnorm A = true := by rw [← e0]; exact fnorm_take L _ hn
  by_cases hk0 : k = 0
  · subst hk0
    simp only [headCut, if_true, List.append_nil, Nat.add_zero]
    exact ⟨hnA, by simpa [headCut] using h.take.symm, hkA, by rw [e0]⟩
  · rcases h.inText with h0 | ⟨s, m, r, e, hkl, _⟩
    · exact absurd h0 hk0
    · subst e
      have e1 : L.take (A.length + 1) = A ++ [.text s m] := by
        rw [hsplit]; exact take_mid A r (.text s m)
      have htk := h.take.symm
      simp only [headCut, hk0, if_false] at htk ⊢
      refine ⟨?_, htk, ?_, ?_⟩
      · have h1 : fnorm (A ++ [Node.text s m]) = true := by rw [← e1]; exact fnorm_take L _ hn
        refine fnorm_last_sameKind (sameKind_text s (s.take k) m) A h1 ?_
        simp only [Node.norm, Bool.not_eq_true', List.isEmpty_eq_false_iff]
        intro hh
        have := congrArg List.length hh
        rw [List.length_take, List.length_nil] at this
        omega
      · rw [hsplit, checkKids_append] at hk
        simp only [Bool.and_eq_true, checkKids_cons, checkNode_text] at hk
        simp only [checkKids_append, checkNode_text, Schema.checkKids, hkA, hk.2.1, Bool.and_self]
      · rw [e1]; simp [sigOf, Schema.tyOf, Node.tyOr, Node.marks]

/-- the children behind a flat position, the half text child included -/
theorem flat_right_facts (S : Schema) {L B Lr' : List Node} {p k' : Nat} (h : FlatAt L p B Lr' k')
    (hn : fnorm L = true) (hk : S.checkKids L = true) :
    splitRight L p = some (.flat (tailCut Lr' k')) ∧ S.checkKids (tailCut Lr' k') = true ∧
      sigOf S (tailCut Lr' k') = sigOf S (L.drop B.length) := by
  have hsplit := h.split
  have hnB : fnormKids B = true := by
    have := fnormKids_of_fnorm hn
    rw [hsplit, fnormKids_append, Bool.and_eq_true] at this
    exact this.1
  have hd : L.drop B.length = Lr' := by rw [hsplit]; simp
  have hkr : S.checkKids Lr' = true := by
    rw [hsplit, checkKids_append] at hk
    simp only [Bool.and_eq_true] at hk
    exact hk.2
  rcases h.inText with h0 | ⟨s, m, r, e, hkl, hsp⟩
  · subst h0
    refine ⟨?_, by simpa [tailCut] using hkr, by simp [tailCut, hd]⟩
    rw [h.pos, hsplit, splitRight_append_pre _ _ _ hnB]
    simp [tailCut]
  · subst e
    by_cases hk0 : k' = 0
    · subst hk0
      refine ⟨?_, by simpa [tailCut] using hkr, by simp [tailCut, hd]⟩
      rw [h.pos, hsplit, splitRight_append_pre _ _ _ hnB]
      simp [tailCut]
    · refine ⟨?_, ?_, ?_⟩
      · rw [h.pos, hsplit, splitRight_append_pre _ _ _ hnB, splitRight_text s m r k' hk0 hkl hsp]
        simp [tailCut, hk0]
      · simp only [checkKids_cons, checkNode_text, Bool.and_eq_true] at hkr
        simp only [tailCut, hk0, if_false, checkKids_cons, checkNode_text, hkr.1, hkr.2, Bool.and_self]
      · rw [hd]
        simp [tailCut, hk0, sigOf, Schema.tyOf, Node.tyOr, Node.marks]

/-! ### the position `close` continues from -/

/-- `to.doc.resolve(to.after(c + 1))`: the position behind `to.node(c + 1)` — depth `c`, the same ancestors, the index
    one further -/
theorem closeMove_drop (S : Schema) {ty0 : TypeId} {a0 : Attrs} {m0 : Marks} {K : List Node} {t a : Nat}
    {tgt mv : RPos} (htg : (Node.elem ty0 a0 m0 K).resolve t = some tgt) (hn : fnorm K = true) (c : Nat)
    (hc : c < tgt.depth) (ha : tgt.after (c + 1) = some a)
    (hres : (Node.elem ty0 a0 m0 K).resolve a = some mv) :
    mv.depth = c ∧ (∀ i, i ≤ c → mv.node i = tgt.node i) ∧ (∀ i, i < c → mv.index i = tgt.index i) ∧
      mv.index c = tgt.index c + 1 ∧ a = tgt.end_ (c + 1) + 1 ∧ mv.textOffset = 0 ∧
      (∀ i, i ≤ c → mv.end_ i = tgt.end_ i) := by
  have Rt := resolve_resolved htg
  rw [Rt.after_eq (c + 1) (by omega) (by omega)] at ha
  simp only [Option.some.injEq] at ha
  obtain ⟨tyP, aP, mP, ctx, _, hl⟩ := Resolved.lvl htg hn c (by omega)
  obtain ⟨tyC, aC, mC, kC, e, hs, hst, _, _⟩ := Resolved.level_deep htg c hc
  have hlen := (level_sig S htg c hc).2.2.2
  -- the children of level `c` split behind the child the path goes into
  have hsplit : (tgt.node c).kids = (tgt.node c).kids.take (tgt.index c + 1) ++ (tgt.node c).kids.drop (tgt.index c + 1) :=
    (List.take_append_drop _ _).symm
  have hnl := hl.norm hn
  have hpre : fnormKids ((tgt.node c).kids.take (tgt.index c + 1)) = true := by
    rw [hsplit] at hnl
    exact fnormKids_of_fnorm (fnorm_append_left hnl)
  rw [hsplit] at hl
  obtain ⟨rp, hrp, _, _, hidx, hto, hdep, hstart⟩ := resolve_at_boundary S ty0 a0 m0 hl hpre
  -- the boundary is the position asked for
  have hAl : ((tgt.node c).kids.take (tgt.index c)).length = tgt.index c := by rw [List.length_take]; omega
  have htake : (tgt.node c).kids.take (tgt.index c + 1)
      = (tgt.node c).kids.take (tgt.index c) ++ [.elem tyC aC mC kC] := by
    conv => lhs; rw [hs]
    have := take_mid ((tgt.node c).kids.take (tgt.index c)) ((tgt.node c).kids.drop (tgt.index c + 1))
      (.elem tyC aC mC kC)
    rwa [hAl] at this
  have hpos : tgt.start c + fsize ((tgt.node c).kids.take (tgt.index c + 1)) = a := by
    rw [htake, fsize_append, ← ha, Resolved.end_eq, hst, e]
    simp only [fsize_cons, fsize_nil, Node.size_elem, Node.kids]
    omega
  rw [hpos, hres] at hrp
  simp only [Option.some.injEq] at hrp
  subst hrp
  have Rm := resolve_resolved hres
  rw [hdep] at hstart hidx
  have hsame := same_ancestors Rm Rt c (tgt.start c) (by omega) (by omega) (by rw [hstart]; exact Nat.le_refl _)
    (by rw [Resolved.end_eq, hstart]; omega) (Nat.le_refl _) (by rw [Resolved.end_eq]; omega)
  refine ⟨hdep, fun i hi => (hsame i hi).1, fun i hi => (hsame i (by omega)).2.2.2 hi, ?_, ha.symm, hto,
    fun i hi => (hsame i hi).2.2.1⟩
  rw [hidx, List.length_take]
  omega

/-! ### the frontier `Fitter.__init__` builds, the close level, the fillers -/

theorem elem_ty_lt (S : Schema) (t : TypeId) (a : Attrs) (m : Marks) (k : List Node)
    (h : S.checkNode (.elem t a m k) = true) : t < S.nodes.size := by
  rcases Nat.lt_or_ge t S.nodes.size with hlt | hge
  · exact hlt
  · exfalso
    rw [checkNode_elem] at h
    simp only [Bool.and_eq_true, Schema.validContent] at h
    have hacc := h.1.1.1
    have hd : S.dfa t = #[] := by
      simp only [Schema.dfa, Schema.nodeType]
      rw [getElem!_neg S.nodes t (by omega)]
      rfl
    unfold Dfa.accepts at hacc
    rw [hd] at hacc
    cases hk : S.types k with
    | nil =>
      rw [hk] at hacc
      simp [Dfa.run, Dfa.validEnd] at hacc
    | cons x xs =>
      rw [hk] at hacc
      simp [Dfa.run, Dfa.matchType, Dfa.edgesOf] at hacc

/-- one entry per ancestor of `from`: its type and the match behind the child the path goes into -/
def FrontierOf (S : Schema) (rf : RPos) (qtop : Nat) (fr0 : List FItem) : Prop :=
  fr0.length = rf.depth + 1 ∧ ∀ i, i ≤ rf.depth → ∃ q, fr0[i]? = some ⟨S.tyOf (rf.node i), some q⟩ ∧
    frontSt S rf qtop i = some q

theorem FrontierOf.some_st {S : Schema} {rf : RPos} {qtop : Nat} {fr0 : List FItem} (h : FrontierOf S rf qtop fr0) :
    ∀ it ∈ fr0, ∃ q, it.st = some q := by
  intro it hit
  obtain ⟨i, hi⟩ := List.mem_iff_getElem?.1 hit
  have hlt : i < fr0.length := by
    rcases Nat.lt_or_ge i fr0.length with h' | h'
    · exact h'
    · rw [List.getElem?_eq_none h'] at hi; simp at hi
  obtain ⟨q, hq, _⟩ := h.2 i (by have := h.1; omega)
  rw [hi] at hq
  simp only [Option.some.injEq] at hq
  exact ⟨q, by rw [hq]⟩

/-- **what `find_close_level` answered**, with the position `close` continues from -/
theorem closeFacts_of (S : Schema) {ty0 : TypeId} {a0 : Attrs} {m0 : Marks} {K : List Node} {t : Nat}
    {rf tgt : RPos} {qtop : Nat} (htg : (Node.elem ty0 a0 m0 K).resolve t = some tgt) (hn : fnorm K = true)
    (fr0 : List FItem) (hF : FrontierOf S rf qtop fr0) (lv : CloseLevel)
    (hlv : findCloseLevel S (.elem ty0 a0 m0 K) tgt fr0 = .ok (some lv)) :
    CloseFacts S rf qtop tgt lv.move lv.depth lv.fit (dropInnerB tgt lv.depth) ∧
      ∃ pm, (Node.elem ty0 a0 m0 K).resolve pm = some lv.move ∧ t ≤ pm ∧
        (dropInnerB tgt lv.depth = true → lv.move.depth = lv.depth ∧ lv.move.textOffset = 0) ∧
        (dropInnerB tgt lv.depth = false → lv.move = tgt) := by
  unfold findCloseLevel at hlv
  obtain ⟨hlt, it, hit, hfits, hinner, hmove⟩ := findCloseLevelLoop_spec S _ tgt fr0 _ lv hlv
  have hcD : lv.depth ≤ rf.depth := by have := hF.1; omega
  have hcT : lv.depth ≤ tgt.depth := by omega
  have Rt := resolve_resolved htg
  -- the frontier entries in terms of `from`
  have hin : ∀ i, i < lv.depth → ∃ q, frontSt S rf qtop i = some q ∧
      contentAfterFits S tgt i (S.tyOf (rf.node i)) (some q) true = .ok (some []) := by
    intro i hi
    obtain ⟨it', hit', hf'⟩ := closeInner_spec S tgt fr0 lv.depth hinner i hi
    obtain ⟨q, hq, hcm⟩ := hF.2 i (by omega)
    rw [hit'] at hq
    simp only [Option.some.injEq] at hq
    subst hq
    exact ⟨q, hcm, hf'⟩
  have hlev : ∃ q, frontSt S rf qtop lv.depth = some q ∧
      contentAfterFits S tgt lv.depth (S.tyOf (rf.node lv.depth)) (some q) (dropInnerB tgt lv.depth) = .ok (some lv.fit) := by
    obtain ⟨q, hq, hcm⟩ := hF.2 lv.depth hcD
    rw [hit] at hq
    simp only [Option.some.injEq] at hq
    subst hq
    exact ⟨q, hcm, hfits⟩
  rcases closeMove_spec _ tgt lv.depth _ lv.move hmove with ⟨hb, hmv⟩ | ⟨hb, a, ha, hres⟩
  · -- `close` continues from the target itself
    rw [hb]
    refine ⟨⟨hcD, hcT, by rw [hmv]; exact hcT, fun i _ => by rw [hmv], fun i _ => by rw [hmv], by rw [hmv]; rfl,
      hin, by rw [hb] at hlev; exact hlev⟩, t, by rw [hmv]; exact htg, Nat.le_refl _, fun h => by simp at h,
      fun _ => hmv⟩
  · -- the node around the target at the level below is dropped
    have hc : lv.depth < tgt.depth := by
      simp only [dropInnerB, Bool.and_eq_true, decide_eq_true_eq] at hb
      exact hb.1
    obtain ⟨hdep, hnodes, hidx, hidxc, hae, hto, _⟩ := closeMove_drop S htg hn lv.depth hc ha hres
    rw [hb]
    refine ⟨⟨hcD, hcT, by omega, hnodes, hidx, ?_, hin, by rw [hb] at hlev; exact hlev⟩, a, hres, ?_,
      fun _ => ⟨hdep, hto⟩, fun h => by simp at h⟩
    · rw [hidxc, if_pos rfl, indexAfter_lt tgt lv.depth hc]
    · have := (Rt.pos_in (lv.depth + 1) (by omega)).2
      omega

/-- the filler `close_frontier_node` puts behind level `i` of `from` -/
def fillOf (S : Schema) (rf : RPos) (qtop : Nat) (i : Nat) : List Node :=
  match frontSt S rf qtop i with
  | some q =>
    (match fillOpt S (S.dfa (S.tyOf (rf.node i))) q [] true with
     | .ok (some a) => a
     | _ => [])
  | none => []

/-- **the frontier nodes can be closed** (guard `closableB`): `fill_before(Fragment.empty, True)` answers at the match of
    every entry -/
theorem fills_exist (S : Schema) (hdet : DetS S) (hfl : FillersOK S) (hcl : Closable S) {ty0 : TypeId} {a0 : Attrs}
    {m0 : Marks} {K : List Node} {f : Nat} {rf : RPos} (hf : (Node.elem ty0 a0 m0 K).resolve f = some rf)
    (hv : S.checkNode (.elem ty0 a0 m0 K) = true) (qtop : Nat)
    (hqtop : qtop = 0 ∨ ∃ q1 e, e ∈ (S.dfa (S.tyOf rf.parent)).edgesOf q1 ∧ e.2 = qtop)
    (fr0 : List FItem) (hF : FrontierOf S rf qtop fr0) (c : Nat)
    (hc : c ≤ rf.depth) :
    ∃ fills : List (List Node), fills.length = rf.depth - c ∧
      (∀ p ∈ (fr0.drop (c + 1)).zip fills, FillRel S p.1 p.2) ∧
      (∀ k, k < rf.depth - c → ∃ q fill, frontSt S rf qtop (c + 1 + k) = some q ∧ fills[k]? = some fill ∧
          fillOpt S (S.dfa (S.tyOf (rf.node (c + 1 + k)))) q [] true = .ok (some fill)) := by
  have key : ∀ i, i ≤ rf.depth → ∃ q fill, fr0[i]? = some ⟨S.tyOf (rf.node i), some q⟩ ∧
      frontSt S rf qtop i = some q ∧
      fillOpt S (S.dfa (S.tyOf (rf.node i))) q [] true = .ok (some fill) ∧ fillOf S rf qtop i = fill := by
    intro i hi
    obtain ⟨q, hq, hcm⟩ := hF.2 i hi
    obtain ⟨t, a, m, k, e⟩ := node_elem_of hf i hi
    have hck := (resolve_resolved hf).node_check hv i hi
    rw [e] at hck
    have hty := elem_ty_lt S t a m k hck
    have hsome : (fillBeforeTypes S (S.dfa (S.tyOf (rf.node i))) q [] true).isSome = true := by
      have htarget : q = 0 ∨ ∃ q1 ed, ed ∈ (S.dfa (S.tyOf (rf.node i))).edgesOf q1 ∧ ed.2 = q := by
        rcases Nat.lt_or_ge i rf.depth with hlt | hge
        · rw [frontSt_lt S rf qtop i hlt] at hcm
          exact run_target _ _ _ _ hcm
        · have e' : i = rf.depth := by omega
          rw [e', frontSt_top] at hcm
          simp only [Option.some.injEq] at hcm
          rw [e', ← hcm]
          exact hqtop
      rw [e] at htarget ⊢
      simp only [Schema.tyOf, Node.tyOr] at htarget ⊢
      rcases htarget with h0 | ⟨q1, ed, hed, hq1⟩
      · rw [h0]; exact (hcl t hty).1
      · rw [← hq1]; exact (hcl t hty).2 q1 ed hed
    obtain ⟨r, hr⟩ := fillOpt_ok S hdet hfl (S.tyOf (rf.node i)) q [] true
    obtain ⟨fill, rfl⟩ := fillOpt_some S _ q hsome r hr
    exact ⟨q, fill, hq, hcm, hr, by simp only [fillOf, hcm, hr]⟩
  refine ⟨(List.range (rf.depth - c)).map (fun k => fillOf S rf qtop (c + 1 + k)), by simp, ?_, ?_⟩
  · intro p hp
    obtain ⟨k, hk⟩ := List.mem_iff_getElem?.1 hp
    rw [List.getElem?_zip_eq_some, List.getElem?_drop, List.getElem?_map] at hk
    obtain ⟨h1, h2⟩ := hk
    have hk' : k < rf.depth - c := by
      rcases Nat.lt_or_ge k (rf.depth - c) with h' | h'
      · exact h'
      · rw [List.getElem?_eq_none (by simp; omega)] at h2; simp at h2
    rw [List.getElem?_range hk'] at h2
    simp only [Option.map_some, Option.some.injEq] at h2
    obtain ⟨q, fill, hq, _, hfill, hfo⟩ := key (c + 1 + k) (by omega)
    rw [hq] at h1
    simp only [Option.some.injEq] at h1
    exact ⟨q, by rw [← h1], by rw [← h1, ← h2, hfo]; exact hfill⟩
  · intro k hk
    obtain ⟨q, fill, _, hcm, hfill, hfo⟩ := key (c + 1 + k) (by omega)
    exact ⟨q, fill, hcm, by rw [List.getElem?_map, List.getElem?_range hk]; simp [hfo], hfill⟩

/-! ### surrogate pairs: no high surrogate without its low surrogate -/

theorem highClosed_get : ∀ (s : List Nat), highClosed s = true → ∀ i c, s[i]? = some c → isHigh c = true →
    ∃ c', s[i + 1]? = some c' ∧ isLow c' = true
  | [], _, i, c, h, _ => by simp at h
  | [a], hs, i, c, h, hc => by
    cases i with
    | zero =>
      simp only [List.getElem?_cons_zero, Option.some.injEq] at h
      subst h
      simp [highClosed, hc] at hs
    | succ i => simp at h
  | a :: b :: r, hs, i, c, h, hc => by
    simp only [highClosed, Bool.and_eq_true, Bool.or_eq_true, Bool.not_eq_eq_eq_not, Bool.not_true] at hs
    cases i with
    | zero =>
      simp only [List.getElem?_cons_zero, Option.some.injEq] at h
      subst h
      rcases hs.1 with h1 | h1
      · rw [hc] at h1; simp at h1
      · exact ⟨b, by simp, h1⟩
    | succ i =>
      simp only [List.getElem?_cons_succ] at h
      obtain ⟨c', h1, h2⟩ := highClosed_get (b :: r) hs.2 i c h hc
      exact ⟨c', by simpa using h1, h2⟩

theorem toksHighClosed_append {a b : List Tok} (ha : toksHighClosed a) (hb : toksHighClosed b) :
    toksHighClosed (a ++ b) := by
  intro i c m h hc
  rcases Nat.lt_or_ge i a.length with hlt | hge
  · rw [List.getElem?_append_left hlt] at h
    obtain ⟨c', h1, h2⟩ := ha i c m h hc
    have : i + 1 < a.length := by
      rcases Nat.lt_or_ge (i + 1) a.length with h' | h'
      · exact h'
      · rw [List.getElem?_eq_none h'] at h1; simp at h1
    exact ⟨c', by rw [List.getElem?_append_left this]; exact h1, h2⟩
  · rw [List.getElem?_append_right hge] at h
    obtain ⟨c', h1, h2⟩ := hb (i - a.length) c m h hc
    exact ⟨c', by rw [List.getElem?_append_right (by omega), show i + 1 - a.length = i - a.length + 1 by omega]; exact h1, h2⟩

theorem toksHighClosed_single (t : Tok) (h : t.isUnit = false) : toksHighClosed [t] := by
  intro i c m hi _
  cases i with
  | zero =>
    simp only [List.getElem?_cons_zero, Option.some.injEq] at hi
    subst hi
    simp [Tok.isUnit] at h
  | succ i => simp at hi

theorem toksHighClosed_nil : toksHighClosed [] := by
  intro i c m hi _; simp at hi

mutual
theorem Node.toks_highClosed : ∀ (n : Node), n.highClosed = true → toksHighClosed n.toks
  | .text s m, h => by
    intro i c m' hi hc
    simp only [Node.toks_text, List.getElem?_map] at hi ⊢
    cases hs : s[i]? with
    | none => rw [hs] at hi; simp at hi
    | some c0 =>
      rw [hs] at hi
      simp only [Option.map_some, Option.some.injEq, Tok.unit.injEq] at hi
      obtain ⟨rfl, rfl⟩ := hi
      obtain ⟨c', h1, h2⟩ := highClosed_get s (by simpa [Node.highClosed] using h) i c0 hs hc
      exact ⟨c', by rw [h1]; rfl, h2⟩
  | .leaf t a m, _ => by
    rw [Node.toks_leaf]; exact toksHighClosed_single _ rfl
  | .elem t a m k, h => by
    rw [Node.toks_elem]
    have ih := ftoks_highClosed k (by simpa [Node.highClosed] using h)
    have := toksHighClosed_append (toksHighClosed_single (Tok.op t a m) rfl)
      (toksHighClosed_append ih (toksHighClosed_single Tok.cl rfl))
    simpa using this
theorem ftoks_highClosed : ∀ (l : List Node), highClosedKids l = true → toksHighClosed (ftoks l)
  | [], _ => by rw [ftoks_nil]; exact toksHighClosed_nil
  | n :: ns, h => by
    simp only [highClosedKids, Bool.and_eq_true] at h
    rw [ftoks_cons]
    exact toksHighClosed_append (Node.toks_highClosed n h.1) (ftoks_highClosed ns h.2)
end

end PM
