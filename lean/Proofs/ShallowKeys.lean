/-
  Proofs/ShallowKeys.lean — what `valid_content` of a *joined* child list reads of its children: the type, the mark set
  and whether the child is a text node (`Fragment.append` joins two adjacent text nodes with equal marks).  Two inserted
  fragments with the same keys make `flatInsert` (the flat case of `insert_into`, which validates the content it built)
  succeed alike.
-/
import PM.Replace
import Proofs.FlatInsertCore
namespace PM

abbrev SKey := TypeId × Marks × Bool

def Schema.skey (S : Schema) (n : Node) : SKey := (S.tyOf n, n.marks, n.isText)

def Schema.skeys (S : Schema) (l : List Node) : List SKey := l.map S.skey

/-- `addNode` on keys: a text child joining a text child with the same marks leaves the key list as it is -/
def kAdd (target : List SKey) (c : SKey) : List SKey :=
  match target.getLast?, c with
  | some (_, m, true), (_, m', true) => if m = m' then target else target ++ [c]
  | _, _ => target ++ [c]

def kAppend (a b : List SKey) : List SKey :=
  match b with
  | [] => a
  | c :: rest => if a.isEmpty then b else kAdd a c ++ rest

private theorem eq_dropLast_snoc {α : Type} : ∀ (l : List α) (x : α), l.getLast? = some x → l = l.dropLast ++ [x]
  | [], _, h => by simp at h
  | [a], x, h => by simp at h; simp [h]
  | a :: b :: r, x, h => by
    have := eq_dropLast_snoc (b :: r) x (by simpa [List.getLast?_cons_cons] using h)
    rw [List.dropLast_cons_cons, List.cons_append, ← this]

theorem skeys_getLast (S : Schema) (l : List Node) : (S.skeys l).getLast? = l.getLast?.map S.skey := by
  simp [Schema.skeys, List.getLast?_map]

theorem skeys_addNode (S : Schema) (target : List Node) (child : Node) :
    S.skeys (addNode target child) = kAdd (S.skeys target) (S.skey child) := by
  unfold addNode kAdd
  rw [skeys_getLast]
  cases hl : target.getLast? with
  | none => cases child <;> simp [Schema.skeys, Schema.skey, Node.isText]
  | some last =>
    cases last with
    | text s m =>
      cases child with
      | text s' m' =>
        simp only [Option.map_some, Schema.skey, Node.isText, Node.marks]
        by_cases hm : m = m'
        · subst hm
          simp only [if_true]
          have ht : target = target.dropLast ++ [Node.text s m] := eq_dropLast_snoc _ _ hl
          conv => rhs; rw [ht]
          simp [Schema.skeys, Schema.skey, Schema.tyOf, Node.tyOr, Node.isText, Node.marks]
        · simp [hm, Schema.skeys, Schema.skey, Node.isText, Node.marks]
      | leaf t a m' => simp [Schema.skeys, Schema.skey, Node.isText]
      | elem t a m' k => simp [Schema.skeys, Schema.skey, Node.isText]
    | leaf t a m => cases child <;> simp [Schema.skeys, Schema.skey, Node.isText]
    | elem t a m k => cases child <;> simp [Schema.skeys, Schema.skey, Node.isText]

theorem skeys_fappend (S : Schema) (a b : List Node) :
    S.skeys (fappend a b) = kAppend (S.skeys a) (S.skeys b) := by
  unfold fappend kAppend
  cases b with
  | nil => rfl
  | cons c rest =>
    have he : (S.skeys a).isEmpty = a.isEmpty := by cases a <;> rfl
    simp only [Schema.skeys, List.map_cons] at he ⊢
    rw [he]
    split
    · rfl
    · rw [List.map_append]
      exact congrArg (· ++ _) (skeys_addNode S a c)

/-- `valid_content` reads the keys only -/
theorem validContent_skeys (S : Schema) (p : TypeId) (X Y : List Node) (h : S.skeys X = S.skeys Y) :
    S.validContent p X = S.validContent p Y := by
  have h1 : S.types X = S.types Y := by
    have := congrArg (List.map (·.1)) h
    simpa [Schema.skeys, Schema.types, Schema.skey, List.map_map, Function.comp_def] using this
  have h2 : X.map Node.marks = Y.map Node.marks := by
    have := congrArg (List.map (·.2.1)) h
    simpa [Schema.skeys, Schema.skey, List.map_map, Function.comp_def] using this
  have e : ∀ l : List Node, l.all (fun k => (S.nodeType p).allowsMarks k.marks) =
      (l.map Node.marks).all (fun m => (S.nodeType p).allowsMarks m) := by
    intro l; induction l with
    | nil => rfl
    | cons x xs ih => simp [List.all_cons, ih]
  unfold Schema.validContent
  rw [h1, e X, e Y, h2]

/-- the built content's validity does not change when the inserted fragment is exchanged for one with the same keys -/
theorem validContent_built_congr (S : Schema) (p : TypeId) (l r ins ins' : List Node)
    (h : S.skeys ins = S.skeys ins') :
    S.validContent p (fappend (fappend l ins) r) = S.validContent p (fappend (fappend l ins') r) := by
  apply validContent_skeys
  rw [skeys_fappend, skeys_fappend, skeys_fappend, skeys_fappend, h]

theorem flatInsert_success_congr (S : Schema) (ins ins' : List Node) (hk : S.skeys ins = S.skeys ins')
    (parent : Option TypeId) (level : List Node) (d idx : Nat) (c : List Node)
    (h : flatInsert S ins parent level d idx = .ok (some c)) :
    ∃ c', flatInsert S ins' parent level d idx = .ok (some c') := by
  obtain ⟨l, r, hl, hr, rfl, hv⟩ := flatInsert_ok_iff.1 h
  refine ⟨_, flatInsert_of_cuts hl hr ?_⟩
  intro p hp
  rw [← validContent_built_congr S p l r ins ins' hk]
  exact hv p hp

end PM
