/-
  Proofs/MarkSuccess.lean — the *success* half of the range mark steps (AddMarkStep / RemoveMarkStep):
  replacing a range of a valid, normal-form document by the slice cut from that very range with its
  marks re-mapped (`mapFrag g q` — `map_fragment` followed by `Fragment.from_array`, for any mark map
  `g` with `MarkMap S g`) does not fail.

  Structure: the induction of Proofs/Reinsert.lean (`replaceKids_reinsert`) with the slice content
  `M` replaced by `mapFrag g q M`.  Where Reinsert identifies the re-closed child list with the
  original one (`twoWay_rebuild` …) and uses the original's validity, here the re-closed list has the
  original's tokens with some marks exchanged (`CtxRel`), and validity is transported along that
  relation (Proofs/TokValid.lean) — this is where `TextLoop` enters: a partly re-marked text node
  becomes up to three text nodes.
-/
import PM.Step
import Proofs.Reinsert
import Proofs.StepToks
import Proofs.StepValid
import Proofs.TokValid
namespace PM

/-- `Fragment.from_array(map_fragment(M, g))` at a parent of type `q` -/
def mapFrag (g : TypeId → Node → Node) (q : TypeId) (M : List Node) : List Node :=
  fromArray (M.map (g q))

section MapFrag
variable {S : Schema} {g : TypeId → Node → Node}

@[simp] theorem mapFrag_nil (q : TypeId) : mapFrag g q [] = [] := rfl

theorem mapFrag_rel (hg : MarkMap S g) (q : TypeId) (M : List Node) :
    CtxRel S [q] (ftoks M) (ftoks (mapFrag g q M)) := by
  unfold mapFrag
  rw [fromArray_toks]
  exact hg.ctxRel_list M q []

theorem mapFrag_size (hg : MarkMap S g) (q : TypeId) (M : List Node) :
    fsize (mapFrag g q M) = fsize M := by
  rw [← ftoks_length, ← ftoks_length]
  exact (mapFrag_rel hg q M).length_eq

mutual
theorem MarkMap.norm_node (hg : MarkMap S g) : ∀ (n : Node) (p : TypeId), n.norm = true → (g p n).norm = true
  | .text s m, p, h => by
    obtain ⟨m', he, _⟩ := hg.text p s m
    rw [he]; simpa using h
  | .leaf t a m, p, _ => by
    obtain ⟨m', he, _⟩ := hg.leaf p t a m
    rw [he]; simp
  | .elem t a m k, p, h => by
    obtain ⟨m', he, _⟩ := hg.elem p t a m k
    rw [he, Node.norm_elem]
    rw [Node.norm_elem] at h
    exact fromArray_norm _ (MarkMap.norm_list hg k t (fnormKids_of_fnorm h))
theorem MarkMap.norm_list (hg : MarkMap S g) : ∀ (l : List Node) (p : TypeId),
    fnormKids l = true → fnormKids (l.map (g p)) = true
  | [], _, _ => by simp
  | n :: ns, p, h => by
    simp only [fnormKids_cons, Bool.and_eq_true, List.map_cons] at h ⊢
    exact ⟨MarkMap.norm_node hg n p h.1, MarkMap.norm_list hg ns p h.2⟩
end

theorem mapFrag_norm (hg : MarkMap S g) (q : TypeId) (M : List Node) (h : fnormKids M = true) :
    fnorm (mapFrag g q M) = true :=
  fromArray_norm _ (hg.norm_list M q h)

theorem mapFrag_cons_elem (hg : MarkMap S g) (q : TypeId) (t : TypeId) (a : Attrs) (m : Marks)
    (c rest : List Node) :
    ∃ m', mapFrag g q (.elem t a m c :: rest) = .elem t a m' (mapFrag g t c) :: mapFrag g q rest := by
  obtain ⟨m', he, _⟩ := hg.elem q t a m c
  refine ⟨m', ?_⟩
  unfold mapFrag
  rw [List.map_cons, he, fromArray_cons_nontext _ _ rfl]

theorem mapFrag_concat_elem (hg : MarkMap S g) (q : TypeId) (t : TypeId) (a : Attrs) (m : Marks)
    (c init : List Node) :
    ∃ m', mapFrag g q (init ++ [.elem t a m c]) = mapFrag g q init ++ [.elem t a m' (mapFrag g t c)] := by
  obtain ⟨m', he, _⟩ := hg.elem q t a m c
  refine ⟨m', ?_⟩
  unfold mapFrag
  rw [List.map_append, List.map_cons, List.map_nil, he, fromArray_concat_elem]

theorem mapFrag_ne_nil (q : TypeId) {M : List Node} (h : M ≠ []) : mapFrag g q M ≠ [] := by
  intro h0
  have := congrArg fsize h0
  cases M with
  | nil => exact h rfl
  | cons x xs =>
    unfold mapFrag fromArray at h0
    simp only [List.map_cons, addNodes, List.foldl_cons] at h0
    have hne := addNode_ne_nil [] (g q x)
    -- `addNodes` of a non-empty target is non-empty
    have key : ∀ (cs T : List Node), T ≠ [] → addNodes T cs ≠ [] := by
      intro cs
      induction cs with
      | nil => intro T hT; simpa [addNodes] using hT
      | cons c cs ih => intro T _; simp only [addNodes, List.foldl_cons]; exact ih _ (addNode_ne_nil T c)
    exact key _ _ hne h0

theorem mapFrag_spineL (hg : MarkMap S g) : ∀ (M : List Node) (q : TypeId), spineL M ≤ spineL (mapFrag g q M)
  | [], _ => by simp [spineL]
  | .text .. :: _, _ => by simp [spineL]
  | .leaf .. :: _, _ => by simp [spineL]
  | .elem t a m c :: rest, q => by
    obtain ⟨m', he⟩ := mapFrag_cons_elem hg q t a m c rest
    rw [he, spineL_elem_cons, spineL_elem_cons]
    have := mapFrag_spineL hg c t
    omega

theorem spineR_pos_decomp : ∀ (L : List Node), 0 < spineR L →
    ∃ init t a m c, L = init ++ [Node.elem t a m c]
  | [], h => by simp [spineR] at h
  | [.text ..], h => by simp [spineR] at h
  | [.leaf ..], h => by simp [spineR] at h
  | [.elem t a m c], _ => ⟨[], t, a, m, c, rfl⟩
  | x :: y :: r, h => by
    have h' : 0 < spineR (y :: r) := by simpa [spineR] using h
    obtain ⟨init, t, a, m, c, he⟩ := spineR_pos_decomp (y :: r) h'
    exact ⟨x :: init, t, a, m, c, by rw [he]; rfl⟩

theorem mapFrag_spineR (hg : MarkMap S g) : ∀ (n : Nat) (M : List Node) (q : TypeId),
    spineR M = n → n ≤ spineR (mapFrag g q M)
  | 0, _, _, _ => Nat.zero_le _
  | n + 1, M, q, h => by
    obtain ⟨init, t, a, m, c, rfl⟩ := spineR_pos_decomp M (by omega)
    obtain ⟨m', hm⟩ := mapFrag_concat_elem hg q t a m c init
    rw [spineR_concat_elem] at h
    rw [hm, spineR_concat_elem]
    have := mapFrag_spineR hg n c t (by omega)
    omega

end MapFrag

/-! ### validity of what a join re-closes -/

/-- a child list whose tokens are the original's with the window `[f, t)` exchanged for a related
    window is as valid as the original -/
theorem valid_splice {S : Schema} (hts : TextLoop S) (q : TypeId) (O Y : List Node) (f t : Nat)
    (W' : List Tok) (hvc : S.validContent q O = true) (hnO : fnormKids O = true)
    (hnY : fnormKids Y = true) (hft : f ≤ t) (ht : t ≤ fsize O)
    (htk : ftoks Y = (ftoks O).take f ++ W' ++ (ftoks O).drop t)
    (hw : CtxRel S (stackAfter [q] ((ftoks O).take f)) (((ftoks O).drop f).take (t - f)) W') :
    S.validContent q Y = true := by
  have hO : (ftoks O).take f ++ ((ftoks O).drop f).take (t - f) ++ (ftoks O).drop t = ftoks O :=
    splice_mid _ _ _ hft (by rw [ftoks_length]; exact ht)
  have key : CtxRel S [q] ((ftoks O).take f ++ ((ftoks O).drop f).take (t - f) ++ (ftoks O).drop t)
      ((ftoks O).take f ++ W' ++ (ftoks O).drop t) :=
    CtxRel.append (CtxRel.append (CtxRel.refl S _ _) hw) (CtxRel.refl S _ _)
  rw [hO, ← htk] at key
  rw [validContent_eq_tokValid hts q O hnO] at hvc
  rw [validContent_eq_tokValid hts q Y hnY]
  exact tokValid_rel key hvc

/-- the window of the re-marked cut is related to the window of the document it was cut from -/
theorem winRel_of_cut {S : Schema} {g : TypeId → Node → Node} (hg : MarkMap S g) (q : TypeId)
    (O M : List Node) (f t : Nat) (hft : f < t) (ht : t ≤ fsize O) (h : fcutLoop O f t = .ok M) :
    CtxRel S (stackAfter [q] ((ftoks O).take f)) (((ftoks O).drop f).take (t - f))
      (midToks (mapFrag g q M) (depthAt O f) (depthAt O t)) := by
  have htk := fcutLoop_toks O f t M (Or.inl hft) ht h
  have hao := ancestorOpens_length O f
  have hwl : (((ftoks O).drop f).take (t - f)).length = t - f := by
    simp [ftoks_length]; omega
  have hsz : fsize M = depthAt O f + (t - f) + depthAt O t := by
    rw [← ftoks_length, htk]; simp [hao, ftoks_length]; omega
  have hrel := (mapFrag_rel hg q M).window (depthAt O f) (t - f)
  have e1 : (ftoks M).take (depthAt O f) = ancestorOpens O f := by
    rw [htk, List.append_assoc]; exact List.take_left' hao
  have e2 : ((ftoks M).drop (depthAt O f)).take (t - f) = ((ftoks O).drop f).take (t - f) := by
    rw [htk, List.append_assoc, List.drop_left' hao]; exact List.take_left' hwl
  rw [e1, e2, ← stackAfter_take O f [q] (by omega)] at hrel
  unfold midToks
  rw [mapFrag_size hg, hsz]
  have : depthAt O f + (t - f) + depthAt O t - depthAt O f - depthAt O t = t - f := by omega
  rw [this]
  exact hrel

/-- `fcutLoop` on an empty range of positive position is not used; an empty window is related to itself -/
theorem ctxRel_nil_window (S : Schema) (st : List TypeId) (l : List Tok) (f : Nat) :
    CtxRel S st ((l.drop f).take (f - f)) [] := by
  simp only [Nat.sub_self, List.take_zero]; exact .nil _

section Joins
variable {S : Schema} {g : TypeId → Node → Node}

/-- what `twoWay_left_map` re-closes is valid -/
theorem valid_left (hts : TextLoop S) (hg : MarkMap S g) {kids c r : List Node} {p : Nat} {ty : TypeId}
    (hct : fcutLoop kids p (fsize kids) = .ok c) (hp : p ≤ fsize kids)
    (hvc : S.validContent ty kids = true) (hnk : fnorm kids = true)
    (hr : twoWay S kids p (mapFrag g ty c) (depthAt kids p) = .ok r) :
    S.validContent ty (fromArray r) = true := by
  have hnkk := fnormKids_of_fnorm hnk
  have hnc : fnormKids c = true := by
    simp only [fnorm, Bool.and_eq_true] at hnk
    exact (fcutLoop_norm kids p (fsize kids) c hnk.1 hnk.2 hct).1
  have hnr := twoWay_norm S _ _ _ _ _ hnkk (fnormKids_of_fnorm (mapFrag_norm hg ty c hnc)) hr
  have htk := twoWay_toks S _ _ _ _ _ hr
  refine valid_splice hts ty kids (fromArray r) p (fsize kids) ((ftoks (mapFrag g ty c)).drop (depthAt kids p))
    hvc hnkk (fnormKids_of_fnorm (fromArray_norm _ hnr)) hp (Nat.le_refl _) ?_ ?_
  · have e : (ftoks kids).drop (fsize kids) = [] :=
      List.drop_of_length_le (by rw [ftoks_length]; exact Nat.le_refl _)
    rw [fromArray_toks, htk, e]
    simp
  · by_cases hlt : p < fsize kids
    · have := winRel_of_cut hg ty kids c p (fsize kids) hlt (Nat.le_refl _) hct
      rw [depthAt_fsize] at this
      unfold midToks at this
      have e : ((ftoks (mapFrag g ty c)).drop (depthAt kids p)).take (fsize (mapFrag g ty c) - depthAt kids p - 0)
          = (ftoks (mapFrag g ty c)).drop (depthAt kids p) :=
        List.take_of_length_le (by simp [ftoks_length])
      rw [e] at this
      exact this
    · have hpe : p = fsize kids := by omega
      subst hpe
      rw [fcutLoop_end] at hct
      simp at hct; subst hct
      simp only [mapFrag_nil, ftoks_nil, List.drop_nil]
      exact ctxRel_nil_window S _ _ _

/-- what `twoWay_right_map` re-closes is valid -/
theorem valid_right (hts : TextLoop S) (hg : MarkMap S g) {kids c r : List Node} {i : Nat} {ty : TypeId}
    (hct : fcutLoop kids 0 i = .ok c) (hi : i ≤ fsize kids)
    (hvc : S.validContent ty kids = true) (hnk : fnorm kids = true)
    (hr : twoWay S (mapFrag g ty c) (fsize c - depthAt kids i) kids i = .ok r) :
    S.validContent ty (fromArray r) = true := by
  have hnkk := fnormKids_of_fnorm hnk
  have hnc : fnormKids c = true := by
    simp only [fnorm, Bool.and_eq_true] at hnk
    exact (fcutLoop_norm kids 0 i c hnk.1 hnk.2 hct).1
  have hnr := twoWay_norm S _ _ _ _ _ (fnormKids_of_fnorm (mapFrag_norm hg ty c hnc)) hnkk hr
  have htk := twoWay_toks S _ _ _ _ _ hr
  refine valid_splice hts ty kids (fromArray r) 0 i
    ((ftoks (mapFrag g ty c)).take (fsize c - depthAt kids i))
    hvc hnkk (fnormKids_of_fnorm (fromArray_norm _ hnr)) (Nat.zero_le _) hi ?_ ?_
  · rw [fromArray_toks, htk]; simp
  · by_cases hlt : 0 < i
    · have := winRel_of_cut hg ty kids c 0 i hlt hi hct
      rw [depthAt_zero] at this
      unfold midToks at this
      rw [List.drop_zero, Nat.sub_zero, mapFrag_size hg] at this
      exact this
    · have hpe : i = 0 := by omega
      subst hpe
      rw [fcutLoop_zero] at hct
      simp at hct; subst hct
      simp only [mapFrag_nil, ftoks_nil, List.take_nil]
      exact ctxRel_nil_window S _ _ _

/-- what the three-way join one level down re-closes is valid -/
theorem valid_mid (hts : TextLoop S) (hg : MarkMap S g) {kids c X : List Node} {f t : Nat} {ty : TypeId}
    (hct : fcutLoop kids f t = .ok c) (hft : f < t) (ht : t ≤ fsize kids)
    (hvc : S.validContent ty kids = true) (hnk : fnorm kids = true)
    (hX : threeWay S kids f 0 (mapFrag g ty c) (depthAt kids f) (depthAt kids t) kids t = .ok X) :
    S.validContent ty (fromArray X) = true := by
  have hnkk := fnormKids_of_fnorm hnk
  obtain ⟨_, hsl, hsr, hnc⟩ := mid_cut_facts hct hft ht hnk
  have hnX := threeWay_norm S _ _ _ _ _ _ _ _ _ hnkk (fnormKids_of_fnorm (mapFrag_norm hg ty c hnc)) hnkk hX
  have htk := threeWay_toks S _ _ _ _ _ _ _ _ _ (Nat.le_trans hsl (mapFrag_spineL hg c ty))
    (Nat.le_trans hsr (mapFrag_spineR hg _ c ty rfl)) hX
  refine valid_splice hts ty kids (fromArray X) f t _ hvc hnkk
    (fnormKids_of_fnorm (fromArray_norm _ hnX)) (by omega) ht ?_
    (winRel_of_cut hg ty kids c f t hft ht hct)
  rw [fromArray_toks, htk]

/-! ### Lemma B′: the left join — a list joined at `p` with the re-marked suffix cut -/

theorem twoWay_left_map (hts : TextLoop S) (hg : MarkMap S g) : ∀ (O : List Node) (p : Nat)
    (R : List Node) (q : TypeId),
    p ≤ fsize O → fcutLoop O p (fsize O) = .ok R → S.checkKids O = true → fnorm O = true →
    ∃ X, twoWay S O p (mapFrag g q R) (depthAt O p) = .ok X
  | [], p, R, q, hp, _, _, _ => by
    have : p = 0 := by simpa using hp
    subst this
    unfold twoWay; simp
  | n :: ns, p, R, q, hp, h, hv, hn => by
    obtain ⟨hnn, hnns⟩ := fnorm_cons hn
    have hpos := Node.size_pos_of_norm n hnn
    simp only [fsize_cons] at hp
    by_cases hp0 : p = 0
    · subst hp0
      unfold twoWay; simp
    by_cases hle : n.size ≤ p
    · rw [fcutLoop_skip n ns p _ (by simp; omega) hle] at h
      have e : fsize (n :: ns) - n.size = fsize ns := by simp
      rw [e] at h
      have hv' : S.checkKids ns = true := by
        simp only [checkKids_cons, Bool.and_eq_true] at hv; exact hv.2
      obtain ⟨r, hr⟩ := twoWay_left_map hts hg ns (p - n.size) R q (by omega) h hv' hnns
      unfold twoWay
      rw [if_neg hp0, if_pos hle, depthAt_skip n ns p hle, hr]
      exact ⟨_, rfl⟩
    cases n with
    | text s m =>
      simp only [Node.size_text, Nat.not_le] at hle hpos
      obtain ⟨s', rest, hct, _, _⟩ := fcutLoop_text_inv h (by rw [fsize_cons, Node.size_text]; omega) hle (Or.inl (by omega))
      have hso := (cutText_splitOk hct).1
      unfold twoWay
      rw [if_neg hp0, if_neg (by simp; omega)]
      simp [hso, depthAt_nonelem_cons (.text s m) ns p (by simpa using hle) (by simp)]
    | leaf ty a m => simp at hle; omega
    | elem ty a m kids =>
      simp only [Node.size_elem, Nat.not_le] at hle
      obtain ⟨hvc, hvk, hnk, _, _⟩ := elem_facts hv (fnormKids_of_fnorm hn)
      obtain ⟨c, rest, hct, _, hM⟩ := fcutLoop_elem_inv h (by simp) hle (Or.inl (by omega))
      have hmin : min (fsize kids) (fsize (Node.elem ty a m kids :: ns) - 1) = fsize kids := by
        simp; omega
      rw [hmin, fcut_eq_loop (fnormKids_of_fnorm hnk) (by omega) (Nat.le_refl _) (by omega)] at hct
      obtain ⟨_, hdc, _⟩ := suffix_cut_facts hct (by omega) hnk
      obtain ⟨r, hr⟩ := twoWay_left_map hts hg kids (p - 1) c ty (by omega) hct hvk hnk
      have hvr := valid_left hts hg hct (by omega) hvc hnk hr
      have hd : depthAt (Node.elem ty a m kids :: ns) p = 1 + depthAt kids (p - 1) :=
        depthAt_elem_cons _ _ _ _ _ _ (by omega) hle
      subst hM
      obtain ⟨m', hm'⟩ := mapFrag_cons_elem hg q ty a m c rest
      have hs : splitRight (mapFrag g q (Node.elem ty a m c :: rest)) (1 + depthAt kids (p - 1))
          = some (.deep (.elem ty a m' (mapFrag g ty c)) (depthAt kids (p - 1)) (mapFrag g q rest)) := by
        rw [hm']
        have := splitRight_elem ty a m' (mapFrag g ty c) (mapFrag g q rest) (1 + depthAt kids (p - 1))
          (by omega) (by rw [mapFrag_size hg]; omega)
        simpa using this
      unfold twoWay
      rw [if_neg hp0, if_neg (by simp; omega)]
      simp only [hd, hs, compatibleContent_self, if_true, hr, close_ok_of_valid S ty a m _ hvr]
      exact ⟨_, rfl⟩

/-! ### Lemma C′: the right join — the re-marked prefix cut joined back with the list at `i` -/

theorem twoWay_skip_pre (S : Schema) : ∀ (pre rest : List Node) (f : Nat) (R : List Node) (t : Nat),
    fnormKids pre = true →
    twoWay S (pre ++ rest) (fsize pre + f) R t = (twoWay S rest f R t).map (pre ++ ·)
  | [], rest, f, R, t, _ => by
    simp only [List.nil_append, fsize_nil, Nat.zero_add]
    cases twoWay S rest f R t <;> rfl
  | p :: ps, rest, f, R, t, hn => by
    simp only [fnormKids_cons, Bool.and_eq_true] at hn
    have hpos := Node.size_pos_of_norm p hn.1
    have ih := twoWay_skip_pre S ps rest f R t hn.2
    rw [List.cons_append]
    conv => lhs; unfold twoWay
    rw [if_neg (by simp; omega), if_pos (by simp; omega)]
    have e1 : fsize (p :: ps) + f - p.size = fsize ps + f := by simp; omega
    rw [e1, ih]
    cases twoWay S rest f R t <;> simp [Except.map]

theorem twoWay_right_map (hts : TextLoop S) (hg : MarkMap S g) : ∀ (d : Nat) (O : List Node) (i : Nat)
    (E R : List Node) (t : Nat) (q : TypeId),
    depthAt O i = d → i ≤ fsize O → fcutLoop O 0 i = .ok E → splitRight R t = splitRight O i →
    S.checkKids O = true → fnorm O = true →
    ∃ X, twoWay S (mapFrag g q E) (fsize E - depthAt O i) R t = .ok X := by
  intro d
  induction d using Nat.strongRecOn with
  | _ d IH =>
    intro O i E R t q hd hi h hs hv hn
    have hnE : fnormKids E = true := by
      have hn' := hn
      simp only [fnorm, Bool.and_eq_true] at hn'
      exact (fcutLoop_norm O 0 i E hn'.1 hn'.2 h).1
    have hnE' := fnormKids_of_fnorm (mapFrag_norm hg q E hnE)
    have hal : alignedAt O i = true := by
      by_cases h0 : i = 0
      · subst h0; simp
      · exact (fcutLoop_aligned O 0 i E (by omega) hi h).2
    obtain ⟨rs, hrs⟩ := splitRight_total O i hi hal
    have hl := rjoinOK_of_cut0 S O i E rs hi h hrs hv hn
    rw [hrs] at hs
    cases rs with
    | flat r =>
      simp only [RJoinOK] at hl
      rw [hl, Nat.sub_zero]
      have := twoWay_skip_pre S (mapFrag g q E) [] 0 R t hnE'
      simp only [List.append_nil, Nat.add_zero, mapFrag_size hg] at this
      rw [this]
      unfold twoWay
      simp [hs, Except.map]
    | deep cR j r =>
      obtain ⟨ty, a, m, kR, kE, rfl, hlast, hcut, hj, hb, hvc, hvk, hnk⟩ := hl
      have hdec := getLast?_decomp hlast
      obtain ⟨m', hm'⟩ := mapFrag_concat_elem hg q ty a m kE E.dropLast
      rw [← hdec] at hm'
      obtain ⟨_, hdE, _⟩ := prefix_cut_facts hcut hj hnk
      have hszE : fsize E = fsize E.dropLast + (2 + fsize kE) := by
        conv => lhs; rw [hdec]
        rw [fsize_append]; simp
      obtain ⟨X, hX⟩ := IH (depthAt kR j) (by omega) kR j kE kR j ty rfl hj hcut rfl hvk hnk
      have hvr := valid_right hts hg hcut hj hvc hnk hX
      have hnI : fnormKids (mapFrag g q E.dropLast) = true :=
        fnormKids_of_fnorm (mapFrag_norm hg q _ (fnormKids_dropLast hnE))
      have hF : fsize E - depthAt O i
          = fsize (mapFrag g q E.dropLast) + (1 + fsize kE - depthAt kR j) := by
        rw [mapFrag_size hg, hb, hszE]; omega
      rw [hm', hF, twoWay_skip_pre S _ _ _ _ _ hnI]
      have hin : twoWay S [Node.elem ty a m' (mapFrag g ty kE)] (1 + fsize kE - depthAt kR j) R t
          = .ok (Node.elem ty a m' (fromArray X) :: r) := by
        unfold twoWay
        rw [if_neg (by omega), if_neg (by simp [mapFrag_size hg]; omega)]
        have e : 1 + fsize kE - depthAt kR j - 1 = fsize kE - depthAt kR j := by omega
        simp only [hs, compatibleContent_self, if_true, e, hX, close_ok_of_valid S ty a m' _ hvr]
      rw [hin]
      exact ⟨_, rfl⟩

/-! ### the right join of `threeWay` / `flatTail` with the re-marked slice -/

theorem rightJoin_ok_map (hts : TextLoop S) (hg : MarkMap S g) (q : TypeId) {M : List Node} {b : Nat}
    {rs : RSplit} (h : RJoinOK S M b rs) : ∃ rj, rightJoin S (mapFrag g q M) b rs = .ok rj := by
  cases rs with
  | flat r =>
    simp only [RJoinOK] at h; subst h
    exact ⟨[], by simp [rightJoin]⟩
  | deep c i r =>
    obtain ⟨ty, a, m, kR, kE, rfl, hl, hcut, hi, hb, hvc, hvk, hnk⟩ := h
    have hdec := getLast?_decomp hl
    obtain ⟨m', hm'⟩ := mapFrag_concat_elem hg q ty a m kE M.dropLast
    rw [← hdec] at hm'
    have hl' : (mapFrag g q M).getLast? = some (.elem ty a m' (mapFrag g ty kE)) := by
      rw [hm']; simp
    obtain ⟨X, hX⟩ := twoWay_right_map hts hg (depthAt kR i) kR i kE kR i ty rfl hi hcut rfl hvk hnk
    have hvr := valid_right hts hg hcut hi hvc hnk hX
    subst hb
    unfold rightJoin
    simp only [hl', Nat.add_sub_cancel_left, compatibleContent_self, if_true, mapFrag_size hg, hX,
      close_ok_of_valid S ty a m' _ hvr]
    rw [if_neg (by omega)]
    exact ⟨_, rfl⟩

theorem flatTail_ok_map (hts : TextLoop S) (hg : MarkMap S g) (q : TypeId) {M : List Node} {b : Nat}
    {R : List Node} {t : Nat} {rs : RSplit}
    (hs : splitRight R t = some rs) (h : RJoinOK S M b rs) :
    ∃ X, flatTail S (mapFrag g q M) 0 b R t = .ok X := by
  obtain ⟨rj, hrj⟩ := rightJoin_ok_map hts hg q h
  unfold flatTail
  simp only [hs, hrj]
  rw [if_neg (by simp)]
  exact ⟨_, rfl⟩

/-! ### the three-way join with the re-marked slice cut from the same range -/

theorem threeWay_cut_map (hts : TextLoop S) (hg : MarkMap S g) : ∀ (L : List Node) (f t : Nat)
    (M R : List Node) (t0 : Nat) (q : TypeId),
    f < t → t ≤ fsize L → fcutLoop L f t = .ok M → splitRight R t0 = splitRight L t →
    S.checkKids L = true → fnorm L = true →
    ∃ X, threeWay S L f 0 (mapFrag g q M) (depthAt L f) (depthAt L t) R t0 = .ok X
  | [], f, t, M, R, t0, q, hft, ht, _, _, _, _ => by
    have : t ≤ 0 := by simpa using ht
    omega
  | n :: ns, f, t, M, R, t0, q, hft, ht, h, hs, hv, hn => by
    obtain ⟨hnn, hnns⟩ := fnorm_cons hn
    have hpos := Node.size_pos_of_norm n hnn
    have ht0 : t ≠ 0 := by omega
    have hv' : S.checkKids ns = true := by
      simp only [checkKids_cons, Bool.and_eq_true] at hv; exact hv.2
    obtain ⟨rs, hrs⟩ := splitRight_total (n :: ns) t ht
      (fcutLoop_aligned (n :: ns) f t M hft ht h).2
    rw [hrs] at hs
    simp only [fsize_cons] at ht
    by_cases hf0 : f = 0
    · subst hf0
      have hl := rjoinOK_of_cut0 S (n :: ns) t M rs (by simp; omega) h hrs hv hn
      obtain ⟨X, hX⟩ := flatTail_ok_map hts hg q hs hl
      unfold threeWay
      simp only [if_true, depthAt_zero]
      exact ⟨X, hX⟩
    by_cases hle : n.size ≤ f
    · rw [fcutLoop_skip n ns f t ht0 hle] at h
      rw [splitRight_skip n ns t ht0 (by omega)] at hrs
      obtain ⟨X, hX⟩ := threeWay_cut_map hts hg ns (f - n.size) (t - n.size) M R t0 q (by omega) (by omega) h
        (hs.trans hrs.symm) hv' hnns
      unfold threeWay
      rw [if_neg hf0, if_pos hle, depthAt_skip n ns f hle, depthAt_skip n ns t (by omega), hX]
      exact ⟨_, rfl⟩
    cases n with
    | text s m =>
      simp only [Node.size_text, Nat.not_le] at hle hpos ht
      obtain ⟨s', rest, hct, hr, hM⟩ := fcutLoop_text_inv h ht0 hle (Or.inl (by omega))
      subst hM
      have hso := cutText_splitOk hct
      have hdf : depthAt (Node.text s m :: ns) f = 0 :=
        depthAt_nonelem_cons _ ns f (by simpa using hle) (by simp)
      have hl : RJoinOK S (Node.text s' m :: rest) (depthAt (Node.text s m :: ns) t) rs := by
        by_cases hlt : s.length ≤ t
        · rw [splitRight_skip _ ns t ht0 (by simpa using hlt)] at hrs
          rw [depthAt_skip _ ns t (by simpa using hlt)]
          simp only [Node.size_text] at hrs ⊢
          exact rjoinOK_cons _ (rjoinOK_of_cut0 S ns (t - s.length) rest rs (by omega) hr hrs hv' hnns)
        · have : min s.length t = t := by omega
          rw [this] at hso
          rw [splitRight_text s m ns t ht0 (by omega) hso.2] at hrs
          simp at hrs; subst hrs
          simp only [RJoinOK]
          exact depthAt_nonelem_cons _ ns t (by simp; omega) (by simp)
      obtain ⟨X, hX⟩ := flatTail_ok_map hts hg q hs hl
      unfold threeWay
      rw [if_neg hf0, if_neg (by simp; omega)]
      simp only [hso.1, hdf, hX]
      simp
    | leaf ty a m => simp at hle; omega
    | elem tyL aL mL kidsL =>
      simp only [Node.size_elem, Nat.not_le] at hle ht
      obtain ⟨hvc, hvk, hnk, _, _⟩ := elem_facts hv (fnormKids_of_fnorm hn)
      obtain ⟨c, rest, hct, hr, hM⟩ := fcutLoop_elem_inv h ht0 hle (Or.inl (by omega))
      subst hM
      obtain ⟨m', hm'⟩ := mapFrag_cons_elem hg q tyL aL mL c rest
      have hda : depthAt (Node.elem tyL aL mL kidsL :: ns) f = depthAt kidsL (f - 1) + 1 := by
        rw [depthAt_elem_cons _ _ _ _ _ _ (by omega) hle]; omega
      by_cases hlt : t < 2 + fsize kidsL
      · -- both ends inside this child: one level down
        have hmin : min (fsize kidsL) (t - 1) = t - 1 := by omega
        have h0 : t - (2 + fsize kidsL) = 0 := by omega
        rw [h0, fcutLoop_zero] at hr
        simp at hr; subst hr
        rw [hmin, fcut_eq_loop (fnormKids_of_fnorm hnk) (by omega) (by omega) (by omega)] at hct
        rw [splitRight_elem tyL aL mL kidsL ns t ht0 hlt] at hrs
        simp at hrs; subst hrs
        have hdb : depthAt (Node.elem tyL aL mL kidsL :: ns) t = depthAt kidsL (t - 1) + 1 := by
          rw [depthAt_elem_cons _ _ _ _ _ _ (by omega) hlt]; omega
        obtain ⟨X, hX⟩ := threeWay_cut_map hts hg kidsL (f - 1) (t - 1) c kidsL (t - 1) tyL (by omega) (by omega)
          hct rfl hvk hnk
        have hvr := valid_mid hts hg hct (by omega) (by omega) hvc hnk hX
        rw [hm', mapFrag_nil]
        unfold threeWay
        rw [if_neg hf0, if_neg (by simp; omega)]
        simp only [hs, hda, hdb]
        simp [compatibleContent_self, hX, close_ok_of_valid S tyL aL mL _ hvr]
      · -- `t` at or beyond the end of this child: left join, middle, right join
        have hge : 2 + fsize kidsL ≤ t := by omega
        have hmin : min (fsize kidsL) (t - 1) = fsize kidsL := by omega
        rw [hmin, fcut_eq_loop (fnormKids_of_fnorm hnk) (by omega) (Nat.le_refl _) (by omega)] at hct
        rw [splitRight_skip _ ns t ht0 (by simpa using hge)] at hrs
        simp only [Node.size_elem] at hrs
        have hdb : depthAt (Node.elem tyL aL mL kidsL :: ns) t = depthAt ns (t - (2 + fsize kidsL)) := by
          rw [depthAt_skip _ ns t (by simpa using hge)]; simp
        have hl0 := rjoinOK_of_cut0 S ns (t - (2 + fsize kidsL)) rest rs (by omega) hr hrs hv' hnns
        obtain ⟨lr, hlr⟩ := twoWay_left_map hts hg kidsL (f - 1) c tyL (by omega) hct hvk hnk
        have hvl := valid_left hts hg hct (by omega) hvc hnk hlr
        obtain ⟨rj, hrj⟩ := rightJoin_ok_map hts hg q (rjoinOK_cons (Node.elem tyL aL mL c) hl0)
        rw [hm'] at hrj ⊢
        unfold threeWay
        rw [if_neg hf0, if_neg (by simp; omega)]
        simp only [hs, hda, hdb]
        cases rs with
        | flat r =>
          simp only [RJoinOK] at hl0
          rw [hl0] at hrj ⊢
          simp [threeWay.rightJoinCheck, compatibleContent_self, hlr,
            close_ok_of_valid S tyL aL mL _ hvl, hrj]
        | deep cR i r =>
          obtain ⟨hne, hb0⟩ := rjoinOK_ne_nil hl0
          have hne' := mapFrag_ne_nil (g := g) q hne
          cases hrest : mapFrag g q rest with
          | nil => exact absurd hrest hne'
          | cons y ys =>
            rw [hrest] at hrj
            obtain ⟨ty, a, m, kR, kE, rfl, _, _, _, hb, _⟩ := hl0
            have hb' : depthAt ns (t - (2 + fsize kidsL)) = depthAt kR i + 1 := by omega
            rw [hb'] at hrj ⊢
            simp [threeWay.rightJoinCheck, compatibleContent_self, hlr,
              close_ok_of_valid S tyL aL mL _ hvl, hrj]

/-! ### `atLevel`: the re-marked slice cut at this level goes back in -/

theorem atLevel_map (hts : TextLoop S) (hg : MarkMap S g) (ty : TypeId) (level c : List Node) (f t : Nat)
    (hft : f < t) (ht : t ≤ fsize level) (hc : fcut level f t = .ok c)
    (hvc : S.validContent ty level = true) (hv : S.checkKids level = true)
    (hn : fnorm level = true) :
    ∃ X, atLevel S ⟨mapFrag g ty c, depthAt level f, depthAt level t⟩ ty level f t 0 = .ok X := by
  have hnl := fnormKids_of_fnorm hn
  have hcl : fcutLoop level f t = .ok c := by
    rw [← fcut_eq_loop hnl (by omega) ht (by omega)]; exact hc
  obtain ⟨hmid, hsl, hsr, hnc⟩ := mid_cut_facts hcl hft ht hn
  have hsz : fsize (mapFrag g ty c) ≠ 0 := by
    rw [mapFrag_size hg]
    have := congrArg List.length hmid
    simp [midToks, ftoks_length] at this
    omega
  have hnc' := mapFrag_norm hg ty c hnc
  unfold atLevel
  simp only []
  rw [if_neg hsz]
  by_cases hcl0 : depthAt level f = 0 ∧ depthAt level t = 0
  · obtain ⟨hdf, hdt⟩ := hcl0
    obtain ⟨haf, hat⟩ := fcut_aligned hft ht hc
    obtain ⟨l, hl⟩ := fcut_total level 0 f (by omega) (by omega) (alignedAt_zero _) haf hn
    obtain ⟨r, hr⟩ := fcut_total level t (fsize level) ht (Nat.le_refl _) hat (alignedAt_fsize _) hn
    have hYn : fnorm (fappend (fappend l (mapFrag g ty c)) r) = true :=
      fappend_norm _ _ (fappend_norm _ _ (fcut_norm _ _ _ _ hn hl) hnc') (fcut_norm _ _ _ _ hn hr)
    have hval : S.validContent ty (fappend (fappend l (mapFrag g ty c)) r) = true := by
      refine valid_splice hts ty level _ f t (ftoks (mapFrag g ty c)) hvc hnl (fnormKids_of_fnorm hYn)
        (by omega) ht ?_ ?_
      · rw [fappend_toks, fappend_toks, fcut_prefix_toks hl (by omega) hdf, fcut_suffix_toks hr hdt]
      · have := winRel_of_cut hg ty level c f t hft ht hcl
        rw [hdf, hdt] at this
        unfold midToks at this
        rw [List.drop_zero, Nat.sub_zero, Nat.sub_zero] at this
        have e : (ftoks (mapFrag g ty c)).take (fsize (mapFrag g ty c)) = ftoks (mapFrag g ty c) :=
          List.take_of_length_le (by simp [ftoks_length])
        rw [e] at this
        exact this
    simp only [hdf, hdt, decide_true, Bool.and_self, if_true, hl, hr, hval]
    exact ⟨_, rfl⟩
  · have hcond : ¬ ((decide (depthAt level f = 0) && decide (depthAt level t = 0) &&
        decide (depthAt level f = 0) && decide (depthAt level t = 0)) = true) := by
      simp only [Bool.and_eq_true, decide_eq_true_eq]
      intro h; exact hcl0 ⟨h.1.1.1, h.2⟩
    rw [if_neg hcond]
    obtain ⟨X, hX⟩ := threeWay_cut_map hts hg level f t c level t ty hft ht hcl rfl hv hn
    have hvr := valid_mid hts hg hcl hft ht hvc hn hX
    simp only [hX, Except.map, hvr, if_true]
    exact ⟨_, rfl⟩

/-! ### `outer`: descending to the level of the cut -/

theorem outer_slice_map (hts : TextLoop S) (hg : MarkMap S g) : ∀ (rest : List Node) (ty : TypeId)
    (level : List Node) (f0 t0 idx f t : Nat) (pre : List Node) (s : Slice),
    level = pre ++ rest → idx = pre.length → f0 = fsize pre + f → t0 = fsize pre + t →
    f < t → t ≤ fsize rest → sliceScan level f0 t0 rest f t = .ok s →
    S.validContent ty level = true → S.checkKids level = true → fnorm level = true →
    ∃ e X, s.openStart + e = depthAt level f0 ∧ s.openEnd + e = depthAt level t0 ∧
      outer S ⟨mapFrag g (sharedTy ty rest f t) s.content, s.openStart, s.openEnd⟩ ty level f0 t0 idx
        rest f t e = .ok X
  | [], ty, level, f0, t0, idx, f, t, pre, s, _, _, _, _, hft, ht, _, _, _, _ => by
    have : t ≤ 0 := by simpa using ht
    omega
  | n :: ns, ty, level, f0, t0, idx, f, t, pre, s, hl, hi, hf0, ht0, hft, ht, h, hvc, hv, hn => by
    simp only [fsize_cons] at ht
    have htl : t0 ≤ fsize level := by rw [hl, fsize_append]; simp; omega
    -- when the scan stops here
    have here : sliceHere level f0 t0 = .ok s →
        s.openStart + 0 = depthAt level f0 ∧ s.openEnd + 0 = depthAt level t0 ∧
          ∃ X, atLevel S ⟨mapFrag g ty s.content, s.openStart, s.openEnd⟩ ty level f0 t0 0 = .ok X := by
      intro hh
      obtain ⟨c, hc, rfl⟩ := sliceHere_inv hh
      exact ⟨rfl, rfl, atLevel_map hts hg ty level c f0 t0 (by omega) htl hc hvc hv hn⟩
    rw [sliceScan_cons] at h
    rw [sharedTy_cons]
    split at h
    · rename_i hfz
      obtain ⟨h1, h2, X, h3⟩ := here h
      refine ⟨0, X, h1, h2, ?_⟩
      rw [if_pos hfz]
      unfold outer
      rw [if_pos hfz]; exact h3
    · rename_i hfz
      rw [if_neg hfz]
      split at h
      · rename_i hle
        rw [if_pos hle]
        obtain ⟨e, X, h1, h2, h3⟩ := outer_slice_map hts hg ns ty level f0 t0 (idx + 1) (f - n.size) (t - n.size)
          (pre ++ [n]) s (by simp [hl]) (by simp [hi]) (by rw [fsize_append]; simp; omega)
          (by rw [fsize_append]; simp; omega) (by omega) (by omega) h hvc hv hn
        refine ⟨e, X, h1, h2, ?_⟩
        unfold outer
        rw [if_neg hfz, if_pos hle]; exact h3
      · rename_i hlt
        rw [if_neg hlt]
        cases n with
        | text s' m =>
          obtain ⟨h1, h2, X, h3⟩ := here h
          refine ⟨0, X, h1, h2, ?_⟩
          unfold outer
          rw [if_neg hfz, if_neg hlt]; exact h3
        | leaf ty' a m =>
          obtain ⟨h1, h2, X, h3⟩ := here h
          refine ⟨0, X, h1, h2, ?_⟩
          unfold outer
          rw [if_neg hfz, if_neg hlt]; exact h3
        | elem tyC aC mC kidsC =>
          simp only at h ⊢
          simp only [Node.size_elem, Nat.not_le] at hlt
          split at h
          · rename_i htsz
            rw [if_pos htsz]
            simp only [Node.size_elem] at htsz
            subst hl
            obtain ⟨c1, c2, c3⟩ := child_facts hv hn
            obtain ⟨e, X, h1, h2, h3⟩ := outer_slice_map hts hg kidsC tyC kidsC (f - 1) (t - 1) 0 (f - 1) (t - 1)
              [] s rfl rfl (by simp) (by simp) (by omega) (by omega) h c1 c2 c3
            refine ⟨e + 1, (pre ++ Node.elem tyC aC mC kidsC :: ns).set idx (.elem tyC aC mC X), ?_, ?_, ?_⟩
            · rw [hf0, depthAt_append_pre, depthAt_elem_cons _ _ _ _ _ _ (by omega) hlt]; omega
            · rw [ht0, depthAt_append_pre, depthAt_elem_cons _ _ _ _ _ _ (by omega) htsz]; omega
            · unfold outer
              rw [if_neg hfz, if_neg (by simp; omega)]
              simp only [Node.size_elem, Nat.add_sub_cancel, h3]
              simp [htsz]
          · rename_i htsz
            rw [if_neg htsz]
            obtain ⟨h1, h2, X, h3⟩ := here h
            refine ⟨0, X, h1, h2, ?_⟩
            unfold outer
            rw [if_neg hfz, if_neg (by simp; omega)]
            simp only [h3]
            simp

/-! ### `replaceKids` -/

/-- **re-inserting the re-marked slice of `f … t` at `f … t` succeeds** (`f < t`; for `f = t` the slice
    is empty and `replaceKids_reinsert` applies) -/
theorem replaceKids_map (hts : TextLoop S) (hg : MarkMap S g) (ty : TypeId) (kids : List Node)
    (f t : Nat) (s : Slice)
    (hvc : S.validContent ty kids = true) (hv : S.checkKids kids = true) (hn : fnorm kids = true)
    (hlt : f < t) (hs : sliceKids kids f t = .ok s) :
    ∃ X, replaceKids S ty kids f t
      ⟨mapFrag g (sharedTy ty kids f t) s.content, s.openStart, s.openEnd⟩ = .ok X := by
  have hs' := hs
  unfold sliceKids at hs'
  rw [if_neg (by omega)] at hs'
  split at hs'
  · simp at hs'
  · rename_i hgd
    simp only [inRange, Bool.or_eq_true, Bool.not_eq_true', decide_eq_false_iff_not,
      decide_eq_true_eq, not_or, Nat.not_lt, Decidable.not_not] at hgd
    obtain ⟨⟨hf, ht⟩, _⟩ := hgd
    obtain ⟨e, X, h1, h2, h3⟩ := outer_slice_map hts hg kids ty kids f t 0 f t [] s rfl rfl (by simp) (by simp)
      hlt ht hs' hvc hv hn
    have hwf := (sliceKids_norm kids f t s hn hs).2
    simp only [Slice.wf, Bool.and_eq_true, decide_eq_true_eq] at hwf
    have hwf' : (Slice.mk (mapFrag g (sharedTy ty kids f t) s.content) s.openStart s.openEnd).wf = true := by
      simp only [Slice.wf, Bool.and_eq_true, decide_eq_true_eq]
      exact ⟨Nat.le_trans hwf.1 (mapFrag_spineL hg _ _), Nat.le_trans hwf.2 (mapFrag_spineR hg _ _ _ rfl)⟩
    have hex : depthAt kids f - s.openStart = e := by omega
    refine ⟨X, ?_⟩
    unfold replaceKids
    rw [if_neg (by simp [inRange, hf, ht]; omega)]
    simp only []
    rw [if_neg (by omega), if_neg (by omega), if_neg (by simp [hwf']), hex]
    exact h3

end Joins

/-! ### the two range mark steps -/

theorem sharedParentTy_total (S : Schema) (ty : TypeId) (a : Attrs) (mk : Marks) (kids : List Node)
    (f t : Nat) (hft : f ≤ t) (hf : f ≤ fsize kids) :
    sharedParentTy S (.elem ty a mk kids) f t = some (sharedTy ty kids f t) := by
  obtain ⟨r, hr⟩ := resolve_isSome (.elem ty a mk kids) f hf
  have h : sharedParentTy S (.elem ty a mk kids) f t = some (S.tyOf (r.node (r.sharedDepth t))) := by
    simp [sharedParentTy, hr]
  rw [h, sharedParentTy_eq S _ f t _ hft h]
  rfl

/-- **AddMarkStep applies** to every valid, normal-form document, for every in-range pair-aligned
    `f ≤ t` — provided text children may repeat (`TextLoop`: the partly marked text node becomes up to
    three text nodes) -/
theorem addMark_applies (S : Schema) (hts : TextLoop S) (ty : TypeId) (a : Attrs) (mk : Marks)
    (kids : List Node) (f t : Nat) (m : Mark)
    (hd : S.checkNode (.elem ty a mk kids) = true) (hn : fnorm kids = true)
    (hft : f ≤ t) (ht : t ≤ fsize kids)
    (haf : alignedAt kids f = true) (hat : alignedAt kids t = true) :
    ∃ doc', S.apply (.addMark f t m) (.elem ty a mk kids) = .ok doc' := by
  simp only [checkNode_elem, Bool.and_eq_true] at hd
  obtain ⟨s, hs⟩ := sliceKids_total kids f t hft ht haf hat hn
  have hsl : (Node.elem ty a mk kids).slice f t = .ok s := hs
  have hp := sharedParentTy_total S ty a mk kids f t hft (by omega)
  simp only [Schema.apply, hsl, hp, Schema.fromReplace, Schema.replace]
  by_cases he : f = t
  · subst he
    have hs0 := hs
    simp [sliceKids] at hs0; subst hs0
    have := replaceKids_reinsert S ty kids f f Slice.empty hd.1.1 hd.2 hn (fun _ => ⟨ht, haf⟩) hs
    have e : (Slice.mk (fromArray (addMarkKids S m (sharedTy ty kids f f) Slice.empty.content))
        Slice.empty.openStart Slice.empty.openEnd) = Slice.empty := by
      simp [Slice.empty, addMarkKids, fromArray, addNodes]
    rw [e, this]
    exact ⟨_, rfl⟩
  · obtain ⟨X, hX⟩ := replaceKids_map hts (addMark_markMap S m) ty kids f t s hd.1.1 hd.2 hn (by omega) hs
    rw [addMarkKids_eq_map]
    unfold mapFrag at hX
    rw [hX]
    exact ⟨_, rfl⟩

/-- **RemoveMarkStep applies** under the same conditions -/
theorem removeMark_applies (S : Schema) (hts : TextLoop S) (ty : TypeId) (a : Attrs) (mk : Marks)
    (kids : List Node) (f t : Nat) (m : Mark)
    (hd : S.checkNode (.elem ty a mk kids) = true) (hn : fnorm kids = true)
    (hft : f ≤ t) (ht : t ≤ fsize kids)
    (haf : alignedAt kids f = true) (hat : alignedAt kids t = true) :
    ∃ doc', S.apply (.removeMark f t m) (.elem ty a mk kids) = .ok doc' := by
  simp only [checkNode_elem, Bool.and_eq_true] at hd
  obtain ⟨s, hs⟩ := sliceKids_total kids f t hft ht haf hat hn
  have hsl : (Node.elem ty a mk kids).slice f t = .ok s := hs
  simp only [Schema.apply, hsl, Schema.fromReplace, Schema.replace]
  by_cases he : f = t
  · subst he
    have hs0 := hs
    simp [sliceKids] at hs0; subst hs0
    have := replaceKids_reinsert S ty kids f f Slice.empty hd.1.1 hd.2 hn (fun _ => ⟨ht, haf⟩) hs
    have e : (Slice.mk (fromArray (removeMarkKids S m Slice.empty.content))
        Slice.empty.openStart Slice.empty.openEnd) = Slice.empty := by
      simp [Slice.empty, removeMarkKids, fromArray, addNodes]
    rw [e, this]
    exact ⟨_, rfl⟩
  · obtain ⟨X, hX⟩ := replaceKids_map hts (removeMark_markMap S m) ty kids f t s hd.1.1 hd.2 hn (by omega) hs
    rw [removeMarkKids_eq_map]
    unfold mapFrag at hX
    rw [hX]
    exact ⟨_, rfl⟩

end PM
