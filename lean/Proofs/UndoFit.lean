/-
  Proofs/UndoFit.lean — a structural sufficient condition for the fit guard `gapFitsBack` of
  `replaceAround_undo` (C04): when the gap lies between complete children of the node it sits in
  and removing it does not bring two mergeable text nodes together (`GapPath` / `gapClean`), the gap
  removed by `remove_range` can be put back by `insert_into` — the `can_replace` check then sees
  exactly the child sequence of a node of the valid old document.  These are the shapes `lift`,
  `wrap` and `set_node_markup` emit (gaps made of whole block children, or the whole content of a node).
-/
import Proofs.StepToks
import Proofs.StepValid
import Proofs.UndoAround
namespace PM

/-! ### what `openValid` says about one child -/

theorem rightOpenValid_child (S : Schema) (ty : TypeId) (a : Attrs) (m : Marks) (k ns : List Node) :
    ∀ (b : Nat) (pre : List Node), rightOpenValid S b (pre ++ .elem ty a m k :: ns) = true →
      if 0 < b ∧ ns = [] then rightOpenValid S (b - 1) k = true
      else S.checkNode (.elem ty a m k) = true
  | 0, pre, h => by
    simp only [rightOpenValid] at h
    rw [checkKids_append] at h
    simp only [checkKids_cons, Bool.and_eq_true] at h
    simp [h.2.1]
  | b + 1, [], h => by
    cases ns with
    | nil =>
      simp only [List.nil_append, rightOpenValid, Bool.and_eq_true] at h
      simp [h.2]
    | cons n' rest =>
      simp only [List.nil_append, rightOpenValid, Bool.and_eq_true] at h
      simp [h.1]
  | b + 1, p :: ps, h => by
    cases hps : ps ++ Node.elem ty a m k :: ns with
    | nil => simp at hps
    | cons y ys =>
      simp only [List.cons_append, hps, rightOpenValid, Bool.and_eq_true] at h
      rw [← hps] at h
      exact rightOpenValid_child S ty a m k ns (b + 1) ps h.2

/-- the child at position `pre.length` of open-valid content: what remains open in it, and that it is
    fully valid when it is not on an open side -/
theorem openValid_child (S : Schema) (ty : TypeId) (a : Attrs) (m : Marks) (k ns : List Node)
    (oa ob : Nat) (pre : List Node)
    (h : openValid S oa ob (pre ++ .elem ty a m k :: ns) = true) :
    openValid S (if 0 < oa ∧ pre = [] then oa - 1 else 0) (if 0 < ob ∧ ns = [] then ob - 1 else 0) k = true ∧
      (¬ (0 < oa ∧ pre = []) → ¬ (0 < ob ∧ ns = []) → S.validContent ty k = true) := by
  have full : S.checkNode (.elem ty a m k) = true →
      openValid S 0 0 k = true ∧ S.validContent ty k = true := by
    intro hc
    simp only [checkNode_elem, Bool.and_eq_true] at hc
    exact ⟨by simpa [openValid, rightOpenValid] using hc.2, hc.1.1⟩
  cases oa with
  | zero =>
    rw [openValid_zero_left] at h
    have := rightOpenValid_child S ty a m k ns ob pre h
    simp only [Nat.lt_irrefl, false_and, if_false]
    split at this
    · rename_i hc
      rw [if_pos hc, openValid_zero_left]
      exact ⟨this, fun _ h2 => absurd hc h2⟩
    · rename_i hc
      rw [if_neg hc]
      exact ⟨(full this).1, fun _ _ => (full this).2⟩
  | succ oa =>
    cases pre with
    | nil =>
      simp only [List.nil_append] at h
      simp only [Nat.succ_pos, true_and, if_true, Nat.add_sub_cancel]
      cases ob with
      | zero =>
        simp only [openValid, leftOpenValid, Bool.and_eq_true] at h
        simp only [Nat.lt_irrefl, false_and, if_false]
        rw [openValid_zero_right]
        exact ⟨h.1.2, fun h1 _ => absurd trivial h1⟩
      | succ ob =>
        cases ns with
        | nil =>
          simp only [openValid, Bool.and_eq_true] at h
          simp only [Nat.succ_pos, true_and, if_true, Nat.add_sub_cancel]
          exact ⟨h.2, fun h1 _ => absurd trivial h1⟩
        | cons n rest =>
          simp only [openValid, Bool.and_eq_true] at h
          rw [if_neg (by simp), openValid_zero_right]
          exact ⟨h.1.2, fun h1 _ => absurd trivial h1⟩
    | cons p ps =>
      rw [if_neg (by simp)]
      -- the child lies behind the first one: the left side is closed for it
      have hr : rightOpenValid S ob (ps ++ Node.elem ty a m k :: ns) = true := by
        cases ob with
        | zero =>
          cases p with
          | elem pt pa pm pk =>
            simp only [List.cons_append, openValid, leftOpenValid, Bool.and_eq_true] at h
            simpa [rightOpenValid] using h.2
          | text s' m' => simp [openValid, leftOpenValid] at h
          | leaf t' a' m' => simp [openValid, leftOpenValid] at h
        | succ ob =>
          cases p with
          | elem pt pa pm pk =>
            cases hps : ps ++ Node.elem ty a m k :: ns with
            | nil => simp at hps
            | cons y ys =>
              simp only [List.cons_append, hps, openValid, Bool.and_eq_true] at h
              exact h.2
          | text s' m' =>
            cases hps : ps ++ Node.elem ty a m k :: ns <;>
              simp [List.cons_append, hps, openValid] at h
          | leaf t' a' m' =>
            cases hps : ps ++ Node.elem ty a m k :: ns <;>
              simp [List.cons_append, hps, openValid] at h
      have := rightOpenValid_child S ty a m k ns ob ps hr
      split at this
      · rename_i hc
        rw [if_pos hc, openValid_zero_left]
        exact ⟨this, fun _ h2 => absurd hc h2⟩
      · rename_i hc
        rw [if_neg hc]
        exact ⟨(full this).1, fun _ _ => (full this).2⟩

/-! ### skipping a prefix in the scans of `removeRange` and `insertInto` -/

theorem removeRange_scan_pre (level : List Node) (f0 t0 : Nat) :
    ∀ (pre rest : List Node) (idx f t : Nat), fnormKids pre = true →
    removeRange level f0 t0 idx (pre ++ rest) (fsize pre + f) (fsize pre + t)
      = removeRange level f0 t0 (idx + pre.length) rest f t
  | [], rest, idx, f, t, _ => by simp
  | p :: ps, rest, idx, f, t, hn => by
    simp only [fnormKids_cons, Bool.and_eq_true] at hn
    have hpos := Node.size_pos_of_norm p hn.1
    rw [List.cons_append]
    conv => lhs; unfold removeRange
    rw [if_neg (by simp; omega), if_pos (by simp; omega)]
    have e1 : fsize (p :: ps) + f - p.size = fsize ps + f := by simp; omega
    have e2 : fsize (p :: ps) + t - p.size = fsize ps + t := by simp; omega
    rw [e1, e2, removeRange_scan_pre level f0 t0 ps rest (idx + 1) f t hn.2]
    congr 1
    simp; omega

theorem insertInto_scan_pre (S : Schema) (ins : List Node) (parent : Option TypeId)
    (level : List Node) (d0 oa ob : Nat) :
    ∀ (pre rest : List Node) (idx d : Nat), fnormKids pre = true →
    insertInto S ins parent level d0 idx (pre ++ rest) (fsize pre + d) oa ob
      = insertInto S ins parent level d0 (idx + pre.length) rest d oa ob
  | [], rest, idx, d, _ => by simp
  | p :: ps, rest, idx, d, hn => by
    simp only [fnormKids_cons, Bool.and_eq_true] at hn
    have hpos := Node.size_pos_of_norm p hn.1
    rw [List.cons_append]
    conv => lhs; unfold insertInto
    rw [if_neg (by simp; omega), if_pos (by simp; omega)]
    have e1 : fsize (p :: ps) + d - p.size = fsize ps + d := by simp; omega
    rw [e1, insertInto_scan_pre S ins parent level d0 oa ob ps rest (idx + 1) d hn.2]
    congr 1
    simp; omega

/-! ### the gap between complete children -/

/-- the gap `F … T` lies between complete children of `level` or of a node reached by descending
    into element children, and what precedes it does not merge with what follows it -/
inductive GapPath : List Node → Nat → Nat → Prop
  | here {level l G r : List Node} {F T : Nat} : level = l ++ G ++ r → F = fsize l →
      T = fsize l + fsize G → seamOk l.getLast? r.head? = true → GapPath level F T
  | down {level pre ns k : List Node} {ty : TypeId} {a : Attrs} {m : Marks} {F T F' T' : Nat} :
      level = pre ++ .elem ty a m k :: ns → F = fsize pre + 1 + F' → T = fsize pre + 1 + T' →
      GapPath k F' T' → GapPath level F T

theorem GapPath.le {level : List Node} {F T : Nat} (h : GapPath level F T) :
    F ≤ T ∧ T ≤ fsize level := by
  induction h with
  | here hl hF hT _ => subst hl; simp only [fsize_append]; omega
  | down hl hF hT _ ih => subst hl; simp only [fsize_append, fsize_cons, Node.size_elem]; omega

theorem fnorm_append_left {a b : List Node} (h : fnorm (a ++ b) = true) : fnorm a = true := by
  simp only [fnorm, Bool.and_eq_true, fnormKids_append, chainOk_append] at h ⊢
  exact ⟨h.1.1, h.2.1.1⟩

theorem fappend_of_seam {l r : List Node} (hl : fnorm l = true) (hr : fnorm r = true)
    (hs : seamOk l.getLast? r.head? = true) : fappend l r = l ++ r := by
  apply ftoks_inj _ _ (fappend_norm _ _ hl hr)
  · simp only [fnorm, Bool.and_eq_true, fnormKids_append, chainOk_append] at hl hr ⊢
    exact ⟨⟨hl.1, hr.1⟩, ⟨hl.2, hr.2⟩, hs⟩
  · rw [fappend_toks, ftoks_append]

theorem run_split {d : Dfa} {a b c : List TypeId} {q : Nat} (h : d.run 0 (a ++ b ++ c) = some q) :
    ∃ q0 q1, d.run 0 a = some q0 ∧ d.run q0 b = some q1 ∧ d.run q1 c = some q := by
  rw [List.append_assoc, Dfa.run_append] at h
  cases h0 : d.run 0 a with
  | none => rw [h0] at h; simp at h
  | some q0 =>
    rw [h0] at h
    simp only [Option.bind_some] at h
    rw [Dfa.run_append] at h
    cases h1 : d.run q0 b with
    | none => rw [h1] at h; simp at h
    | some q1 =>
      rw [h1] at h
      exact ⟨q0, q1, rfl, h1, by simpa using h⟩

/-- the fit check at a child boundary of valid content -/
theorem canReplace_mid (S : Schema) (p : TypeId) (l G r : List Node)
    (hv : S.validContent p (l ++ G ++ r) = true) :
    S.canReplace p (l ++ r) l.length l.length G 0 G.length = some true := by
  simp only [Schema.validContent, Bool.and_eq_true, Dfa.accepts] at hv
  obtain ⟨hacc, hmk⟩ := hv
  split at hacc
  · rename_i q hq
    simp only [Schema.types, List.map_append] at hq
    obtain ⟨q0, q1, h0, h1, h2⟩ := run_split hq
    have hmG : (G.all fun k => (S.nodeType p).allowsMarks k.marks) = true := by
      simp only [List.all_eq_true] at hmk ⊢
      intro x hx
      exact hmk x (by simp [hx])
    simp [Schema.canReplace, Schema.contentMatchAt, Schema.types, h0, h1, h2, hacc, hmG]
  · simp at hacc

/-! ### putting the gap back -/

theorem window_elem (pre : List Node) (ty : TypeId) (a : Attrs) (m : Marks) (k ns : List Node)
    (F' T' : Nat) (hft : F' ≤ T') (ht : T' ≤ fsize k) :
    ((ftoks (pre ++ .elem ty a m k :: ns)).drop (fsize pre + 1 + F')).take (T' - F')
      = ((ftoks k).drop F').take (T' - F') := by
  rw [ftoks_append, drop_app_ge _ _ _ (by rw [ftoks_length]; omega), ftoks_length,
    show fsize pre + 1 + F' - fsize pre = F' + 1 by omega, ftoks_cons, Node.toks_elem]
  simp only [List.cons_append, List.drop_succ_cons, List.append_assoc]
  rw [drop_app_le _ _ _ (by rw [ftoks_length]; omega),
    take_app_le _ _ _ (by rw [List.length_drop, ftoks_length]; omega)]

theorem insert_remove (S : Schema) (G : List Node) (hnG : fnorm G = true) {level : List Node}
    {F T : Nat} (h : GapPath level F T) :
    ∀ (level' : List Node) (parent : Option TypeId) (oa ob : Nat),
      removeRange level F T 0 level F T = .ok level' → fnorm level = true →
      openValid S oa ob level = true → (∀ p, parent = some p → S.validContent p level = true) →
      ftoks G = ((ftoks level).drop F).take (T - F) →
      ∃ c, insertInto S G parent level' F 0 level' F oa ob = .ok (some c) := by
  induction h with
  | @here level l G0 r F T hl hF hT hseam =>
    intro level' parent oa ob hrr hn _ hpar htk
    subst hl; subst hF; subst hT
    have hnl := fnorm_append_left (fnorm_append_left hn)
    have hnG0 := fnorm_append_right (fnorm_append_left hn)
    have hnr := fnorm_append_right hn
    have hnlk := fnormKids_of_fnorm hnl
    -- the gap content is the middle part
    have hGG : G = G0 := by
      apply ftoks_inj _ _ hnG hnG0
      rw [htk, Nat.add_sub_cancel_left, ftoks_append, ftoks_append]
      exact win_mid _ _ _ _ _ (ftoks_length l) (ftoks_length G0)
    subst hGG
    -- what `remove_range` did
    have e1 : l ++ G ++ r = l ++ (G ++ r) := by simp
    have hd0 : depthAt (l ++ G ++ r) (fsize l) = 0 := by
      rw [e1, ← Nat.add_zero (fsize l), depthAt_append_pre]; simp
    have hdT : depthAt (l ++ G ++ r) (fsize l + fsize G) = 0 := by
      rw [← fsize_append, ← Nat.add_zero (fsize (l ++ G)), depthAt_append_pre]; simp
    have hflat : removeRange (l ++ G ++ r) (fsize l) (fsize l + fsize G) 0 (l ++ G ++ r) (fsize l)
          (fsize l + fsize G)
        = removeRange.removeFlat (l ++ G ++ r) (fsize l) (fsize l + fsize G) := by
      have := removeRange_scan_pre (l ++ G ++ r) (fsize l) (fsize l + fsize G) l (G ++ r) 0 0 (fsize G) hnlk
      rw [← e1, Nat.add_zero] at this
      rw [this]
      cases hgr : G ++ r <;> (unfold removeRange; simp)
    rw [hflat] at hrr
    unfold removeRange.removeFlat at hrr
    split at hrr
    · simp at hrr
    · split at hrr
      · simp at hrr
      · split at hrr
        · rename_i l' r' hl' hr'
          simp at hrr
          have hFle : fsize l ≤ fsize (l ++ G ++ r) := by simp only [fsize_append]; omega
          have el : l' = l := by
            apply ftoks_inj _ _ (fcut_norm _ _ _ _ hn hl') hnl
            rw [fcut_prefix_toks hl' hFle hd0, ftoks_append, ftoks_append, List.append_assoc]
            exact win_take _ _ _ (ftoks_length _)
          have er : r' = r := by
            apply ftoks_inj _ _ (fcut_norm _ _ _ _ hn hr') hnr
            rw [fcut_suffix_toks hr' hdT, ftoks_append]
            exact win_drop _ _ _ (by rw [ftoks_length, fsize_append])
          subst el; subst er
          rw [fappend_of_seam hnl hnr hseam] at hrr
          subst hrr
          -- what `insert_into` does
          have hnlr : fnorm (l' ++ r') = true := by
            rw [← fappend_of_seam hnl hnr hseam]; exact fappend_norm _ _ hnl hnr
          have hscan := insertInto_scan_pre S G parent (l' ++ r') (fsize l') oa ob l' r' 0 0 hnlk
          rw [Nat.add_zero] at hscan
          have hfl : insertInto S G parent (l' ++ r') (fsize l') (0 + l'.length) r' 0 oa ob
              = flatInsert S G parent (l' ++ r') (fsize l') (0 + l'.length) := by
            cases r' <;> (unfold insertInto; simp)
          rw [hscan, hfl]
          obtain ⟨cl, hcl⟩ := fcut_total (l' ++ r') 0 (fsize l') (by omega) (by rw [fsize_append]; omega)
            (alignedAt_zero _) (by rw [← Nat.add_zero (fsize l'), alignedAt_append_pre]; simp) hnlr
          obtain ⟨cr, hcr⟩ := fcut_total (l' ++ r') (fsize l') (fsize (l' ++ r'))
            (by rw [fsize_append]; omega)
            (Nat.le_refl _) (by rw [← Nat.add_zero (fsize l'), alignedAt_append_pre]; simp)
            (alignedAt_fsize _) hnlr
          -- the built content is the old child list again
          have hd1 : depthAt (l' ++ r') (fsize l') = 0 := by
            rw [← Nat.add_zero (fsize l'), depthAt_append_pre]; simp
          have hback : fappend (fappend cl G) cr = l' ++ G ++ r' := by
            apply ftoks_inj _ _ (fappend_norm _ _ (fappend_norm _ _ (fcut_norm _ _ _ _ hnlr hcl) hnG)
              (fcut_norm _ _ _ _ hnlr hcr)) hn
            rw [fappend_toks, fappend_toks, fcut_prefix_toks hcl (by rw [fsize_append]; omega) hd1,
              fcut_suffix_toks hcr hd1, ftoks_append, ftoks_append, ftoks_append,
              win_take _ _ _ (ftoks_length _), win_drop _ _ _ (ftoks_length _)]
          refine ⟨_, flatInsert_of_cuts hcl hcr ?_⟩
          intro p hp
          rw [hback]
          exact hpar p hp
        · simp at hrr
        · simp at hrr
  | @down level pre ns k ty a m F T F' T' hl hF hT hk ih =>
    intro level' parent oa ob hrr hn hov hpar htk
    subst hl
    obtain ⟨hft', ht'⟩ := hk.le
    have hpre := fnormKids_append_left hn
    have hnk := fnorm_child hn
    -- what `remove_range` did
    have hscan := removeRange_scan_pre (pre ++ Node.elem ty a m k :: ns) F T pre
      (Node.elem ty a m k :: ns) 0 (1 + F') (1 + T') hpre
    rw [← Nat.add_assoc, ← Nat.add_assoc, ← hF, ← hT] at hscan
    rw [hscan] at hrr
    unfold removeRange at hrr
    rw [if_neg (by omega), if_neg (by simp; omega)] at hrr
    simp only [Node.size_elem, Nat.add_sub_cancel_left] at hrr
    rw [if_pos (by omega)] at hrr
    cases hin : removeRange k F' T' 0 k F' T' with
    | error e => rw [hin] at hrr; simp at hrr
    | ok inner =>
      rw [hin] at hrr
      simp only [Except.ok.injEq] at hrr
      rw [Nat.zero_add, set_mid] at hrr
      subst hrr
      obtain ⟨hitk, _⟩ := removeRange_toks k k F' T' 0 F' T' [] inner rfl rfl (by simp) (by simp) hft' hin
      have hisz : F' ≤ fsize inner := by
        have := congrArg List.length hitk
        simp only [List.length_append, List.length_take, List.length_drop, ftoks_length] at this
        omega
      obtain ⟨hovk, hvk⟩ := openValid_child S ty a m k ns oa ob pre hov
      -- the inner call
      have hS : (decide (0 < oa) && (0 + pre.length == 0)) = decide (0 < oa ∧ pre = []) := by
        by_cases h1 : 0 < oa <;> cases pre <;> simp [h1]
      have hE : (decide (0 < ob) && (0 + pre.length == (pre ++ Node.elem ty a m inner :: ns).length - 1))
          = decide (0 < ob ∧ ns = []) := by
        by_cases h1 : 0 < ob <;> cases ns <;> simp [h1] <;> omega
      obtain ⟨c, hc⟩ := ih inner
        (if (decide (0 < oa ∧ pre = []) || decide (0 < ob ∧ ns = [])) = true then none else some ty)
        (if 0 < oa ∧ pre = [] then oa - 1 else 0) (if 0 < ob ∧ ns = [] then ob - 1 else 0)
        hin hnk hovk
        (by
          intro p hp
          by_cases h1 : 0 < oa ∧ pre = []
          · simp [h1] at hp
          · by_cases h2 : 0 < ob ∧ ns = []
            · simp [h2] at hp
            · simp [h1, h2] at hp
              subst hp
              exact hvk h1 h2)
        (by rw [htk, hF, hT, show fsize pre + 1 + T' - (fsize pre + 1 + F') = T' - F' by omega]
            exact window_elem pre ty a m k ns F' T' hft' ht')
      -- what `insert_into` does
      have hscan2 := insertInto_scan_pre S G parent (pre ++ Node.elem ty a m inner :: ns) F oa ob pre
        (Node.elem ty a m inner :: ns) 0 (1 + F') hpre
      rw [← Nat.add_assoc, ← hF] at hscan2
      rw [hscan2]
      unfold insertInto
      rw [if_neg (by omega), if_neg (by simp; omega)]
      simp only [Nat.add_sub_cancel_left, hS, hE]
      have hoa : (if decide (0 < oa ∧ pre = []) = true then oa - 1 else 0)
          = (if 0 < oa ∧ pre = [] then oa - 1 else 0) := by
        by_cases h1 : 0 < oa ∧ pre = [] <;> simp [h1]
      have hob : (if decide (0 < ob ∧ ns = []) = true then ob - 1 else 0)
          = (if 0 < ob ∧ ns = [] then ob - 1 else 0) := by
        by_cases h1 : 0 < ob ∧ ns = [] <;> simp [h1]
      rw [hoa, hob, hc]
      exact ⟨_, rfl⟩

/-! ### the Boolean guard `gapClean` gives a `GapPath` -/

theorem seamFree_eq (a b : Option Node) : seamFree a b = seamOk a b := by
  cases a <;> cases b <;> rfl

theorem gapEnd_split (prev : Option Node) : ∀ (rest : List Node) (T : Nat), fnormKids rest = true →
    gapEnd prev rest T = true → ∃ G r, rest = G ++ r ∧ fsize G = T ∧ seamOk prev r.head? = true
  | [], T, _, h => by
    simp only [gapEnd, beq_iff_eq] at h
    subst h
    exact ⟨[], [], rfl, rfl, by cases prev <;> rfl⟩
  | n :: ns, T, hn, h => by
    simp only [fnormKids_cons, Bool.and_eq_true] at hn
    unfold gapEnd at h
    split at h
    · rename_i h0; subst h0
      exact ⟨[], n :: ns, rfl, rfl, by rw [← seamFree_eq]; simpa using h⟩
    · simp only [Bool.and_eq_true, decide_eq_true_eq] at h
      obtain ⟨G, r, e, hs, hseam⟩ := gapEnd_split prev ns (T - n.size) hn.2 h.2
      exact ⟨n :: G, r, by simp [e], by simp [hs]; omega, hseam⟩

theorem gapClean_path : ∀ (rest pre : List Node) (F T : Nat), fnormKids (pre ++ rest) = true →
    F ≤ T → gapClean rest pre.getLast? F T = true →
    GapPath (pre ++ rest) (fsize pre + F) (fsize pre + T)
  | [], pre, F, T, _, _, h => by
    simp only [gapClean, Bool.and_eq_true, beq_iff_eq] at h
    obtain ⟨rfl, rfl⟩ := h
    exact .here (l := pre) (G := []) (r := []) (by simp) (by simp) (by simp)
      (by cases pre.getLast? <;> rfl)
  | n :: ns, pre, F, T, hn, hft, h => by
    have hn' := hn
    rw [fnormKids_append] at hn'
    simp only [fnormKids_cons, Bool.and_eq_true] at hn'
    unfold gapClean at h
    split at h
    · rename_i h0; subst h0
      obtain ⟨G, r, e, hs, hseam⟩ := gapEnd_split _ (n :: ns) T (by simp [hn'.2.1, hn'.2.2]) h
      exact .here (l := pre) (G := G) (r := r) (by rw [e]; simp) (by simp) (by omega) hseam
    · rename_i h0
      split at h
      · rename_i hle
        have := gapClean_path ns (pre ++ [n]) (F - n.size) (T - n.size) (by simpa using hn) (by omega)
          (by simpa using h)
        have e : pre ++ [n] ++ ns = pre ++ n :: ns := by simp
        rw [e, fsize_append] at this
        simp only [fsize_cons, fsize_nil, Nat.add_zero] at this
        have e1 : fsize pre + n.size + (F - n.size) = fsize pre + F := by omega
        have e2 : fsize pre + n.size + (T - n.size) = fsize pre + T := by omega
        rwa [e1, e2] at this
      · rename_i hlt
        cases n with
        | text s m => simp at h
        | leaf ty a m => simp at h
        | elem ty a m k =>
          simp only [Bool.and_eq_true, decide_eq_true_eq, Node.size_elem] at h
          have hk : fnormKids k = true := by
            have := hn'.2.1
            simp only [Node.norm_elem] at this
            exact fnormKids_of_fnorm this
          have := gapClean_path k [] (F - 1) (T - 1) (by simpa using hk) (by omega)
            (by simpa using h.2)
          simp only [List.nil_append, fsize_nil, Nat.zero_add] at this
          exact .down (F' := F - 1) (T' := T - 1) rfl (by omega) (by omega) this

/-! ### `gapFitsBack` from `gapClean` -/

/-- the window of a slice's tokens, seen in its content's tokens -/
theorem slice_window (sl : Slice) (d g : Nat) (hdg : ((d + g : Nat) : Int) ≤ sl.size) :
    (sl.toks.drop d).take g = ((ftoks sl.content).drop (d + sl.openStart)).take g := by
  simp only [Slice.size] at hdg
  simp only [Slice.toks]
  rw [List.drop_take, List.drop_drop, List.take_take, Nat.add_comm sl.openStart d]
  congr 1
  omega

theorem gapFitsBack_of_clean (S : Schema) (doc : Node) (f t gf gt : Nat) (old rem gap : Slice)
    (hd : S.checkNode doc = true) (hn : fnorm doc.kids = true)
    (hg : f ≤ gf ∧ gf ≤ gt ∧ gt ≤ t) (ht : t ≤ fsize doc.kids)
    (hsl : doc.slice f t = .ok old) (hgap : doc.slice gf gt = .ok gap)
    (hgc : gap.openStart = 0 ∧ gap.openEnd = 0)
    (hrm : old.removeBetween (gf - f) (gt - f) = .ok rem)
    (hclean : gapClean old.content none (gf - f + old.openStart) (gt - f + old.openStart) = true) :
    gapFitsBack S doc f t gf gt = true := by
  have hsl' : sliceKids doc.kids f t = .ok old := hsl
  have hgap' : sliceKids doc.kids gf gt = .ok gap := hgap
  have hon := sliceKids_norm doc.kids f t old hn hsl'
  have hgn := sliceKids_norm doc.kids gf gt gap hn hgap'
  have hov := sliceKids_openValid S doc.kids f t old (checkNode_kids hd) hsl'
  have hosz := sliceKids_size doc.kids f t old (by omega) ht hsl'
  -- tokens of the gap, as a window of the old slice's content
  have hgclosed : gap = ⟨gap.content, 0, 0⟩ := by
    cases gap; simp at hgc; simp [hgc.1, hgc.2]
  have hGt : ftoks gap.content = ((ftoks doc.kids).drop gf).take (gt - gf) := by
    rw [← Slice.toks_closed, ← hgclosed]
    exact sliceKids_toks doc.kids gf gt gap hg.2.1 (by omega) hgap'
  have hOt := sliceKids_toks doc.kids f t old (by omega) ht hsl'
  have hwin : ftoks gap.content
      = ((ftoks old.content).drop (gf - f + old.openStart)).take (gt - gf) := by
    rw [← slice_window old (gf - f) (gt - gf) (by rw [hosz]; omega), hOt, hGt, List.drop_take,
      List.drop_drop, List.take_take, show f + (gf - f) = gf by omega]
    congr 1
    omega
  have hpath : GapPath old.content (gf - f + old.openStart) (gt - f + old.openStart) := by
    have := gapClean_path old.content [] (gf - f + old.openStart) (gt - f + old.openStart)
      (by simpa using fnormKids_of_fnorm hon.1) (by omega) (by simpa using hclean)
    simpa using this
  -- unfold the guard
  simp only [gapFitsBack, hsl, hgap, hrm]
  have hrs := (removeBetween_size old rem (gf - f) (gt - f) (by omega) hrm).1
  have hbound : ((gf - f : Nat) : Int) ≤ rem.size := by rw [hrs, hosz]; omega
  rw [insertAt_of_le hbound]
  unfold Slice.removeBetween at hrm
  simp only at hrm
  split at hrm
  · simp at hrm
  · split at hrm
    · rename_i c1 hc1
      simp at hrm; subst hrm
      obtain ⟨c, hc⟩ := insert_remove S gap.content hgn.1 hpath c1 none old.openStart old.openEnd hc1
        hon.1 hov (by intro p hp; simp at hp)
        (by rw [hwin]; congr 1; omega)
      simp only [Slice.insertAtIn, hc]
    · simp at hrm

end PM
