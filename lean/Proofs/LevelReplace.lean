/-
  Proofs/LevelReplace.lean — replacing a run of whole children of a nested node by a closed fragment
  (the shape of the final replace of `wrap` and of a `lift` that splits nothing): the replace descends to
  that node (`Lvl`), rebuilds its child list as `before ++ new ++ after` (adjacent text merged) and
  re-validates it; nothing else can fail (`replaceKids_children`).  Also: the slice cut from such a run is
  closed and is the run itself (`sliceKids_children`).
-/
import PM.Step
import Proofs.Level
import Proofs.StepValid
import Proofs.MarkupSuccess
import Proofs.Structure2
import Proofs.ContentBetween
namespace PM

theorem depthAt_boundary (pre rest : List Node) : depthAt (pre ++ rest) (fsize pre) = 0 := by
  have := depthAt_append_pre pre rest 0
  simpa using this

theorem alignedAt_boundary (pre rest : List Node) : alignedAt (pre ++ rest) (fsize pre) = true := by
  have := alignedAt_append_pre pre rest 0
  simpa using this

/-- **replacing whole children by a closed fragment**: the new child list is the normal form of
    `pre ++ C ++ post`; the replace succeeds iff the parent accepts it (here: if it accepts the unmerged list
    and the schema is `TextStable`) -/
theorem replaceKids_children {S : Schema} (hts : TextStableP S) {ty tyP : TypeId} {K : List Node} {b nd : Nat}
    {ctx : List Node → List Node} {pre mid post : List Node}
    (hl : Lvl ty K b nd tyP (pre ++ mid ++ post) ctx) (C : List Node) (hnC : fnorm C = true)
    (hn : fnorm (pre ++ mid ++ post) = true)
    (hv : S.validContent tyP (pre ++ C ++ post) = true) :
    replaceKids S ty K (b + fsize pre) (b + (fsize pre + fsize mid)) ⟨C, 0, 0⟩
      = .ok (ctx (fromArray (pre ++ C ++ post))) := by
  have hsz : fsize pre + fsize mid ≤ fsize (pre ++ mid ++ post) := by simp [fsize_append]
  have hd1 : depthAt (pre ++ mid ++ post) (fsize pre) = 0 := by
    rw [List.append_assoc]; exact depthAt_boundary pre _
  have hd2 : depthAt (pre ++ mid ++ post) (fsize pre + fsize mid) = 0 := by
    rw [← fsize_append]; exact depthAt_boundary (pre ++ mid) post
  have ha1 : alignedAt (pre ++ mid ++ post) (fsize pre) = true := by
    rw [List.append_assoc]; exact alignedAt_boundary pre _
  have ha2 : alignedAt (pre ++ mid ++ post) (fsize pre + fsize mid) = true := by
    rw [← fsize_append]; exact alignedAt_boundary (pre ++ mid) post
  rw [replaceKids_flat hl C (fsize pre) (fsize pre + fsize mid) (by omega) hsz hd1 hd2]
  obtain ⟨Y, hnY, htY, hY⟩ := atLevel_flat_spec S C hnC tyP (pre ++ mid ++ post) (fsize pre)
    (fsize pre + fsize mid) (by omega) hsz hd1 hd2 ha1 ha2 hn
  have hnp : fnormKids (pre ++ C ++ post) = true := by
    have h1 := fnormKids_of_fnorm hn
    simp only [fnormKids_append, Bool.and_eq_true] at h1 ⊢
    exact ⟨⟨h1.1.1, fnormKids_of_fnorm hnC⟩, h1.2⟩
  have hYe : Y = fromArray (pre ++ C ++ post) := by
    apply ftoks_inj _ _ hnY (fromArray_norm _ hnp)
    rw [htY, fromArray_toks]
    simp only [ftoks_append]
    rw [List.take_append_of_le_length (by simp [ftoks_length]),
      List.take_append_of_le_length (by simp [ftoks_length]),
      List.take_of_length_le (by simp [ftoks_length])]
    have e : (ftoks pre ++ ftoks mid ++ ftoks post).drop (fsize pre + fsize mid) = ftoks post := by
      rw [List.drop_append, List.drop_of_length_le (by simp [ftoks_length])]
      simp [ftoks_length]
    rw [e]
  rw [hY, ← hYe]
  have : S.validContent tyP Y = true := by rw [hYe]; exact validContent_fromArray hts tyP _ hv
  simp [this, Except.map]

/-! ### the slice cut from a run of whole children -/

/-- (restates `sliceScan_flat` of Proofs/UndoInverse.lean, which cannot be imported next to Proofs/Respects.lean) -/
theorem sliceScan_flat' (level : List Node) (f0 t0 : Nat) : ∀ (rest : List Node) (f t : Nat),
    depthAt rest f = 0 → sliceScan level f0 t0 rest f t = sliceHere level f0 t0
  | [], f, t, _ => by unfold sliceScan; rfl
  | n :: ns, f, t, hd => by
    rw [sliceScan_cons]
    split
    · rfl
    · rename_i hf0
      split
      · rename_i hle
        rw [depthAt_skip n ns f hle] at hd
        exact sliceScan_flat' level f0 t0 ns _ _ hd
      · rename_i hle
        cases n with
        | text s m => rfl
        | leaf ty a m => rfl
        | elem ty a m kids =>
          simp only [Node.size_elem, Nat.not_le] at hle
          rw [depthAt_elem_cons _ _ _ _ _ _ (by omega) hle] at hd
          omega

theorem sliceScan_scan_pre (level : List Node) (f0 t0 : Nat) : ∀ (pre rest : List Node) (f t : Nat),
    fnormKids pre = true → (pre ≠ [] → f ≠ 0) →
    sliceScan level f0 t0 (pre ++ rest) (fsize pre + f) (fsize pre + t) = sliceScan level f0 t0 rest f t
  | [], rest, f, t, _, _ => by simp
  | p :: ps, rest, f, t, hn, hf => by
    simp only [fnormKids_cons, Bool.and_eq_true] at hn
    have hpos := Node.size_pos_of_norm p hn.1
    have hf0 := hf (by simp)
    rw [List.cons_append, sliceScan_cons, if_neg (by simp; omega), if_pos (by simp; omega)]
    have e1 : fsize (p :: ps) + f - p.size = fsize ps + f := by simp; omega
    have e2 : fsize (p :: ps) + t - p.size = fsize ps + t := by simp; omega
    rw [e1, e2, sliceScan_scan_pre level f0 t0 ps rest f t hn.2 (fun _ => hf0)]

/-- the scan of `Node.slice` descends to the level both ends lie in -/
theorem Lvl.sliceScan {ty tyP : TypeId} {K L : List Node} {b nd : Nat} {ctx : List Node → List Node}
    (h : Lvl ty K b nd tyP L ctx) (fP tP : Nat) (hft : fP ≤ tP) (ht : tP ≤ fsize L) :
    PM.sliceScan K (b + fP) (b + tP) K (b + fP) (b + tP) = PM.sliceScan L fP tP L fP tP := by
  induction h with
  | here ty K => simp
  | @down tyC tyP kidsC L b nd ctx ty pre aC mC ns hp hl ih =>
    have hr := hl.range
    have e1 : fsize pre + 1 + b + fP = fsize pre + (1 + b + fP) := by omega
    have e2 : fsize pre + 1 + b + tP = fsize pre + (1 + b + tP) := by omega
    rw [e1, e2, sliceScan_scan_pre _ _ _ pre _ _ _ hp (fun _ => by omega), sliceScan_cons,
      if_neg (by omega), if_neg (by simp; omega)]
    simp only [Node.size_elem]
    rw [if_pos (by omega), show 1 + b + fP - 1 = b + fP by omega, show 1 + b + tP - 1 = b + tP by omega]
    exact ih ht

/-- **the slice of a run of whole children is closed and is the run itself** -/
theorem sliceKids_children {ty tyP : TypeId} {K : List Node} {b nd : Nat} {ctx : List Node → List Node}
    {pre mid post : List Node} (hl : Lvl ty K b nd tyP (pre ++ mid ++ post) ctx)
    (hn : fnorm (pre ++ mid ++ post) = true) :
    sliceKids K (b + fsize pre) (b + (fsize pre + fsize mid)) = .ok ⟨mid, 0, 0⟩ := by
  have hsz : fsize pre + fsize mid ≤ fsize (pre ++ mid ++ post) := by simp [fsize_append]
  have hr := hl.range
  have hnm : fnorm mid = true := fnorm_append_right (fnorm_append_left hn)
  by_cases hz : fsize mid = 0
  · have : mid = [] := fsize_zero_of_fnormKids mid (fnormKids_of_fnorm hnm) hz
    subst this
    simp [sliceKids, Slice.empty]
  · have hd1 : depthAt (pre ++ mid ++ post) (fsize pre) = 0 := by
      rw [List.append_assoc]; exact depthAt_boundary pre _
    have hd2 : depthAt (pre ++ mid ++ post) (fsize pre + fsize mid) = 0 := by
      rw [← fsize_append]; exact depthAt_boundary (pre ++ mid) post
    unfold sliceKids
    rw [if_neg (by omega), if_neg (by simp [inRange]; omega),
      hl.sliceScan (fsize pre) (fsize pre + fsize mid) (by omega) hsz,
      sliceScan_flat' _ _ _ _ _ _ hd1]
    unfold sliceHere
    have ha1 : alignedAt (pre ++ mid ++ post) (fsize pre) = true := by
      rw [List.append_assoc]; exact alignedAt_boundary pre _
    have ha2 : alignedAt (pre ++ mid ++ post) (fsize pre + fsize mid) = true := by
      rw [← fsize_append]; exact alignedAt_boundary (pre ++ mid) post
    obtain ⟨c, hc⟩ := fcut_total (pre ++ mid ++ post) (fsize pre) (fsize pre + fsize mid) (by omega) hsz ha1 ha2 hn
    have hcn := fcut_norm _ _ _ _ hn hc
    have htk := fcut_toks _ _ _ _ (by omega) hsz hc
    rw [hc, hd1, hd2]
    have : c = mid := by
      apply ftoks_inj _ _ hcn hnm
      rw [htk, ancestorOpens_nil_of_depth hd1, hd2]
      simp only [ftoks_append]
      rw [List.drop_append, List.drop_append, List.drop_of_length_le (by simp [ftoks_length])]
      simp [ftoks_length]
    rw [this]

/-! ### the level of a node range -/

theorem fsize_take_lt_norm (l : List Node) (hn : fnormKids l = true) (i j : Nat) (h : i < j) (hj : j ≤ l.length) :
    fsize (l.take i) < fsize (l.take j) := by
  have hi : i < l.length := by omega
  have h1 := fsize_take_succ l i l[i] (List.getElem?_eq_getElem hi)
  have h2 := fsize_take_mono l (show i + 1 ≤ j by omega)
  have := Node.size_pos_of_norm l[i] ((fnormKids_iff _).mp hn _ (List.getElem_mem hi))
  omega

/-- **a node range seen as a level**: `NodeRange(from, to, depth)` whose two ends are child boundaries of the
    node at `depth` is a run `mid` of whole children of that node, `from.before(depth + 1)` /
    `to.after(depth + 1)` are its two ends -/
theorem range_level {doc : Node} {a b : Nat} {f t : RPos} (hf : doc.resolve a = some f)
    (ht : doc.resolve b = some t) (hn : fnorm doc.kids = true) (depth : Nat) (hab : a ≤ b)
    (hdf : depth ≤ f.depth) (hdt : depth ≤ t.depth) (hend : b ≤ f.end_ depth)
    (hfb : depth < f.depth ∨ f.textOffset = 0) (htb : depth < t.depth ∨ t.textOffset = 0)
    (gs ge : Nat) (hgs : f.before (depth + 1) = some gs) (hge : t.after (depth + 1) = some ge) :
    ∃ pre mid post, (f.node depth).kids = pre ++ mid ++ post ∧ t.node depth = f.node depth ∧
      pre = (f.node depth).kids.take (f.index depth) ∧
      mid = cutByIndex (f.node depth).kids (f.index depth) (t.indexAfter depth) ∧
      post = (f.node depth).kids.drop (t.indexAfter depth) ∧
      f.index depth ≤ t.indexAfter depth ∧ t.indexAfter depth ≤ (f.node depth).kids.length ∧
      gs = f.start depth + fsize pre ∧ ge = f.start depth + (fsize pre + fsize mid) := by
  have Rf := resolve_resolved hf
  have Rt := resolve_resolved ht
  have pf := Rf.pos_in depth hdf
  have pt := Rt.pos_in depth hdt
  obtain ⟨hnode, hstart, _, _⟩ := same_ancestors Rf Rt depth b hdf hdt (by omega) hend pt.1 pt.2 depth
    (Nat.le_refl _)
  have Ef := Rf.entry depth hdf
  have Et := Rt.entry depth hdt
  have hpf : (f.entry depth).pos = f.start depth + fsize ((f.node depth).kids.take (f.index depth)) := Ef.pos_eq
  have hpt : (t.entry depth).pos = t.start depth + fsize ((t.node depth).kids.take (t.index depth)) := Et.pos_eq
  rw [← hnode, ← hstart] at hpt
  -- the start of the range
  have hgs' : gs = f.start depth + fsize ((f.node depth).kids.take (f.index depth)) := by
    rcases Nat.lt_or_ge depth f.depth with hlt | hge'
    · rw [Rf.before_eq (depth + 1) (by omega) (by omega), Resolved.start_succ] at hgs
      simp only [Nat.add_sub_cancel, Option.some.injEq] at hgs
      omega
    · have hd : depth = f.depth := by omega
      have hto := hfb.resolve_left (by omega)
      simp only [RPos.before, hd, Nat.add_eq_zero_iff, Nat.succ_ne_self, and_false, if_false, if_true,
        Option.some.injEq] at hgs
      have hple := Ef.pos_le
      unfold RPos.textOffset at hto
      rw [Rf.pos_eq] at hgs hto
      rw [hd] at hpf hple ⊢
      omega
  -- the end of the range
  have hial := Rt.indexAfter_le depth hdt
  rw [← hnode] at hial
  have hge' : ge = f.start depth + fsize ((f.node depth).kids.take (t.indexAfter depth)) := by
    rcases Nat.lt_or_ge depth t.depth with hlt | hge''
    · rw [Rt.after_eq (depth + 1) (by omega) (by omega), Resolved.end_eq, Resolved.start_succ] at hge
      simp only [Option.some.injEq] at hge
      have hsz := (Rt.chain depth hlt).2
      have hc := (Rt.chain depth hlt).1
      rw [← hnode] at hc
      have hia : t.indexAfter depth = t.index depth + 1 := by
        unfold RPos.indexAfter
        rw [if_neg (by simp; omega)]
      rw [hia, fsize_take_succ _ _ _ hc]
      omega
    · have hd : depth = t.depth := by omega
      have hto := htb.resolve_left (by omega)
      simp only [RPos.after, hd, Nat.add_eq_zero_iff, Nat.succ_ne_self, and_false, if_false, if_true,
        Option.some.injEq] at hge
      have hia : t.indexAfter depth = t.index depth := by
        unfold RPos.indexAfter
        rw [if_pos (by simp [hd, hto]), Nat.add_zero]
      have hple := Et.pos_le
      unfold RPos.textOffset at hto
      rw [Rt.pos_eq] at hge hto
      rw [hia]
      rw [hd] at hpt hple ⊢
      omega
  have hle1 := Rf.before_le depth gs hgs
  have hle2 := Rt.le_after depth ge hge
  have hnk := fnormKids_of_fnorm (path_fnorm Rf hn depth hdf)
  have hij : f.index depth ≤ t.indexAfter depth := by
    apply Classical.byContradiction
    intro hc
    have := fsize_take_lt_norm _ hnk (t.indexAfter depth) (f.index depth) (by omega) (Rf.index_le depth hdf)
    omega
  refine ⟨_, _, _, ?_, hnode.symm, rfl, rfl, rfl, hij, hial, hgs', ?_⟩
  · unfold cutByIndex
    have e1 : (f.node depth).kids.take (f.index depth) ++ ((f.node depth).kids.take (t.indexAfter depth)).drop (f.index depth)
        = (f.node depth).kids.take (t.indexAfter depth) := by
      have : (f.node depth).kids.take (f.index depth)
          = ((f.node depth).kids.take (t.indexAfter depth)).take (f.index depth) := by
        rw [List.take_take, Nat.min_eq_left hij]
      rw [this, List.take_append_drop]
    rw [e1, List.take_append_drop]
  · rw [hge']
    unfold cutByIndex
    have e1 : (f.node depth).kids.take (t.indexAfter depth)
        = (f.node depth).kids.take (f.index depth) ++ ((f.node depth).kids.take (t.indexAfter depth)).drop (f.index depth) := by
      have : (f.node depth).kids.take (f.index depth)
          = ((f.node depth).kids.take (t.indexAfter depth)).take (f.index depth) := by
        rw [List.take_take, Nat.min_eq_left hij]
      rw [this, List.take_append_drop]
    conv => lhs; rw [e1, fsize_append]

end PM
