/-
  Proofs/InsDirect.lean — `replace(f, t, slice)` with a closed slice of leaf / text nodes that the node `from` is in
  accepts as it stands behind `from` (**direct fit**: selecting across blocks and typing): the loop of `Fitter.fit` runs
  once — `find_fittable` answers the top frontier entry, `place_nodes` takes every node — and `close` goes on as for a
  deletion, with the typed content at the innermost level (C11 `insertInline_applies_direct`).
-/
import Proofs.DelAround
import Proofs.FitValid
namespace PM
open PM.FromDom (LeafOk)

/-- the nodes `place_nodes` puts in: marks the frontier's type does not allow removed -/
def filtMarks (S : Schema) (ty : TypeId) (c : List Node) : List Node :=
  c.map (fun n => n.withMarks ((S.nodeType ty).allowedMarks n.marks))

theorem filtMarks_types (S : Schema) (ty : TypeId) (c : List Node) : S.types (filtMarks S ty c) = S.types c := by
  unfold filtMarks Schema.types
  rw [List.map_map]
  apply List.map_congr_left
  intro n _
  cases n <;> rfl

/-- the loop `while taken < fragment.child_count` when every node matches and nothing is open -/
theorem takeLoop_all (S : Schema) (d : Dfa) (ty : TypeId) (oec : Int) (total : Nat) :
    ∀ (rest : List Node) (taken q : Nat) (add : List Node) (q' : Nat), d.run q (S.types rest) = some q' →
      takeLoop S d ty 0 oec total rest taken q add = .ok (taken + rest.length, q', add ++ filtMarks S ty rest)
  | [], taken, q, add, q', h => by
    simp only [Schema.types, List.map_nil, Dfa.run, Option.some.injEq] at h
    subst h
    simp [takeLoop, filtMarks, pure, Except.pure]
  | n :: rest, taken, q, add, q', h => by
    simp only [Schema.types, List.map_cons, Dfa.run] at h
    cases hm : d.matchType q (S.tyOf n) with
    | none => rw [hm] at h; simp at h
    | some q1 =>
      rw [hm] at h
      have ih := takeLoop_all S d ty oec total rest (taken + 1) q1
        (add ++ [n.withMarks ((S.nodeType ty).allowedMarks n.marks)]) q' h
      have hcns : ∀ (x : Bool) (y : Int) (n' : Node), closeNodeStart S (if x = true then 0 else 0) n' y = .ok n' := by
        intro x y n'; cases x <;> rfl
      unfold takeLoop
      simp only [hm, beq_self_eq_true, Bool.or_true, Bool.true_or, if_true]
      rw [FM.bind_eq (hcns _ _ _), ih]
      simp only [filtMarks, List.map_cons, List.length_cons, List.append_assoc, List.singleton_append]
      congr 2
      omega

/-- **the loop of `fit` on a direct fit**: one iteration; the frontier keeps its entries, the innermost match moves
    over the slice's nodes, `placed` holds them (merged as `Fragment.from_array` does) at the innermost level -/
theorem fitLoop_direct (S : Schema) (sl : Slice) (fr : List FItem) (frames : List Frame) (tyD qD q' : Nat)
    (hos : sl.openStart = 0) (hoe : sl.openEnd = 0) (hne : sl.content ≠ []) (hsz : fsize sl.content ≠ 0)
    (hlen : fr.length = frames.length + 1) (htop : fr[frames.length]? = some ⟨tyD, some qD⟩)
    (hrun : (S.dfa tyD).run qD (S.types sl.content) = some q') (fuel : Nat) :
    fitLoop S (fuel + 1) ⟨sl, fr, chainF frames []⟩
      = .ok ⟨Slice.empty, fr.set frames.length ⟨tyD, some q'⟩,
          chainF frames (fromArray (filtMarks S tyD sl.content))⟩ := by
  obtain ⟨c1, cs, hc⟩ := List.exists_cons_of_ne_nil hne
  have hm1 : ((S.dfa tyD).matchType qD (S.tyOf c1)).isSome = true := by
    rw [hc] at hrun
    simp only [Schema.types, List.map_cons, Dfa.run] at hrun
    cases hm : (S.dfa tyD).matchType qD (S.tyOf c1) with
    | none => rw [hm] at hrun; simp at hrun
    | some _ => rfl
  have hget : getItem fr frames.length = .ok ⟨tyD, some qD⟩ := by
    unfold getItem; rw [htop]; rfl
  -- `find_fittable`
  have hff : findFittable S ⟨sl, fr, chainF frames []⟩ = .ok (some ⟨0, frames.length, none, none, none⟩) := by
    unfold findFittable
    simp only [hos, hoe]
    have h1 : fittableStart S 0 0 0 sl.content 0 = .ok 0 := by unfold fittableStart; rfl
    rw [FM.bind_eq h1]
    have h2 : scanSlice S false sl fr (0 + 1) = .ok (some ⟨0, frames.length, none, none, none⟩) := by
      unfold scanSlice
      have hl : sliceLevel sl 0 = .ok (none, sl.content) := by unfold sliceLevel; simp [pure, Except.pure]
      rw [FM.bind_eq hl]
      simp only
      have hs : scanFrontier S false 0 none sl.content.head? fr fr.length
          = .ok (some ⟨0, frames.length, none, none, none⟩) := by
        rw [hlen]
        unfold scanFrontier
        rw [FM.bind_eq hget]
        have hh : frontierHit S false 0 none sl.content.head? ⟨tyD, some qD⟩ frames.length
            = .ok (some ⟨0, frames.length, none, none, none⟩) := by
          unfold frontierHit
          simp only [Bool.not_false, if_true, hc, List.head?_cons, getSt, bind, Except.bind, pure, Except.pure, hm1]
        rw [FM.bind_eq hh]
        rfl
      rw [FM.bind_eq hs]
      rfl
    rw [FM.bind_eq h2]
    rfl
  -- `place_nodes`
  have hpn : placeNodes S ⟨sl, fr, chainF frames []⟩ ⟨0, frames.length, none, none, none⟩
      = .ok ⟨Slice.empty, fr.set frames.length ⟨tyD, some q'⟩,
          chainF frames (fromArray (filtMarks S tyD sl.content))⟩ := by
    unfold placeNodes
    dsimp only
    have h1 : closeMany S (fr.length - 1 - frames.length) fr (chainF frames []) = .ok (fr, chainF frames []) := by
      rw [hlen, Nat.add_sub_cancel, Nat.sub_self]; rfl
    rw [FM.bind_eq h1]
    dsimp only [Option.getD_none]
    have h2 : openMany S [] fr (chainF frames []) = .ok (fr, chainF frames []) := rfl
    rw [FM.bind_eq h2]
    dsimp only
    rw [FM.bind_eq hget]
    dsimp only [getSt]
    simp only [FM.bind_eq (rfl : (pure qD : FM Nat) = .ok qD)]
    have h3 : liftRaise ((S.dfa tyD).run qD (S.types ([] : List Node))) = .ok qD := rfl
    rw [FM.bind_eq h3]
    dsimp only [Fittable.fragment]
    have htl := takeLoop_all S (S.dfa tyD) tyD
      ((fsize sl.content : Int) + ((0 : Nat) : Int) - ((fsize sl.content : Int) - (sl.openEnd : Int)))
      sl.content.length sl.content 0 qD [] q' hrun
    rw [hos, Nat.sub_zero, FM.bind_eq htl]
    dsimp only
    have hadd : addToFragment (chainF frames []) frames.length (fromArray ([] ++ filtMarks S tyD sl.content))
        = .ok (chainF frames (fromArray (filtMarks S tyD sl.content))) := by
      have := addToFragment_chainF frames [] 0 (fromArray (filtMarks S tyD sl.content))
      rw [Nat.add_zero] at this
      rw [List.nil_append, this]
      simp only [addToFragment, bind, Except.bind, pure, Except.pure, fappend_nil_left]
    rw [FM.bind_eq hadd]
    have hlen' : (fr.set frames.length ⟨tyD, some q'⟩).length - 1 = frames.length := by
      rw [List.length_set, hlen, Nat.add_sub_cancel]
    have hget' : getItem (fr.set frames.length ⟨tyD, some q'⟩) frames.length = .ok ⟨tyD, some q'⟩ := by
      unfold getItem
      rw [List.getElem?_set_self (by omega)]
      rfl
    rw [hlen', FM.bind_eq hget']
    simp only [Nat.zero_add, beq_self_eq_true, if_true, hoe, Int.natCast_zero, Int.add_zero, Int.sub_zero, Int.sub_self,
      Int.lt_irrefl, decide_false, Bool.and_false, Bool.false_and, Bool.false_eq_true, if_false, Int.toNat_zero,
      pushOpenEnd, placeRest, Bool.not_true, bind, Except.bind, pure, Except.pure]
  have hsize : (sl.size == 0) = false := by
    simp only [Slice.size, hos, hoe]
    simp only [Int.natCast_zero, Int.sub_zero, beq_eq_false_iff_ne, ne_eq]
    omega
  unfold fitLoop
  simp only [hsize, Bool.false_eq_true, if_false]
  unfold fitStep
  rw [FM.bind_eq hff]
  simp only
  rw [FM.bind_eq hpn]
  have he : ((Slice.empty).size == 0) = true := by decide
  cases fuel with
  | zero => unfold fitLoop; simp only [he, if_true]; rfl
  | succ n => unfold fitLoop; simp only [he, if_true]; rfl

/-! ### the placed nodes -/

theorem Node.highClosed_withMarks (n : Node) (m : Marks) : (n.withMarks m).highClosed = n.highClosed := by
  cases n <;> simp [Node.withMarks, Node.highClosed]

theorem Node.norm_withMarks (n : Node) (m : Marks) : (n.withMarks m).norm = n.norm := by
  cases n <;> simp [Node.withMarks, Node.norm]

theorem filtMarks_highClosed (S : Schema) (ty : TypeId) : ∀ (c : List Node),
    highClosedKids (filtMarks S ty c) = highClosedKids c
  | [] => rfl
  | n :: ns => by
    have ih := filtMarks_highClosed S ty ns
    simp only [filtMarks, List.map_cons, highClosedKids, Node.highClosed_withMarks] at ih ⊢
    rw [ih]

theorem filtMarks_fnormKids (S : Schema) (ty : TypeId) : ∀ (c : List Node),
    fnormKids (filtMarks S ty c) = fnormKids c
  | [] => rfl
  | n :: ns => by
    have ih := filtMarks_fnormKids S ty ns
    simp only [filtMarks, List.map_cons, fnormKids, Node.norm_withMarks] at ih ⊢
    rw [ih]

theorem filtMarks_checkKids (S : Schema) (ty : TypeId) : ∀ (c : List Node), S.checkKids c = true →
    S.checkKids (filtMarks S ty c) = true
  | [], _ => rfl
  | n :: ns, h => by
    simp only [checkKids_cons, Bool.and_eq_true] at h
    simp only [filtMarks, List.map_cons, checkKids_cons, Bool.and_eq_true]
    exact ⟨checkNode_withMarks_allowed S _ n h.1, filtMarks_checkKids S ty ns h.2⟩

theorem filtMarks_marksOK (S : Schema) (ty : TypeId) (c : List Node) : MarksOK S ty (filtMarks S ty c) := by
  intro x hx
  simp only [filtMarks, List.mem_map] at hx
  obtain ⟨n, _, rfl⟩ := hx
  have : (n.withMarks ((S.nodeType ty).allowedMarks n.marks)).marks = (S.nodeType ty).allowedMarks n.marks := by
    cases n <;> rfl
  rw [this]
  exact allowsMarks_allowedMarks _ _

/-- the last token of a text without lone high surrogates is not a high surrogate -/
theorem last_not_high (L : List Tok) (hc : toksHighClosed L) :
    ∀ c m, L.getLast? = some (Tok.unit c m) → isHigh c = false := by
  intro c m hl
  cases hh : isHigh c with
  | false => rfl
  | true =>
    exfalso
    have hne : L ≠ [] := by intro e; subst e; simp at hl
    rw [List.getLast?_eq_getElem?] at hl
    obtain ⟨c', h1, _⟩ := hc _ c m hl hh
    have : L.length - 1 + 1 = L.length := by
      have := List.length_pos_iff.2 hne; omega
    rw [this, List.getElem?_eq_none (Nat.le_refl _)] at h1
    simp at h1

/-- the frontier after the direct fit -/
theorem frontierOf_set (S : Schema) (rf : RPos) (qD q' : Nat) (fr : List FItem) (hF : FrontierOf S rf qD fr) :
    FrontierOf S rf q' (fr.set rf.depth ⟨S.tyOf rf.parent, some q'⟩) := by
  refine ⟨by rw [List.length_set]; exact hF.1, ?_⟩
  intro i hi
  rcases Nat.lt_or_ge i rf.depth with hlt | hge
  · obtain ⟨q, hq, hst⟩ := hF.2 i hi
    refine ⟨q, ?_, ?_⟩
    · rw [List.getElem?_set_ne (by omega)]; exact hq
    · rw [frontSt_lt S rf q' i hlt]; rw [frontSt_lt S rf qD i hlt] at hst; exact hst
  · have e : i = rf.depth := by omega
    subst e
    refine ⟨q', ?_, frontSt_top S rf q'⟩
    rw [List.getElem?_set_self (by have := hF.1; omega)]
    rfl

/-- **a closed slice that the node `from` is in accepts directly behind `from`: every `ReplaceStep` answer of
    `replace_step` applies** (`replace`, `insert`, `replace_with`, typing over a selection across blocks) -/
theorem replaceStep_direct_replace_applies (S : Schema) (hdet : DetS S) (hleaf : LeafOk S) (hfl : FillersOK S)
    (hcl : Closable S) (hts : TextStableP S) (hta : TextAbsorb S) (hjc : joinCompatB S = true)
    (hro : reopenOKB S = true) (ty0 : TypeId) (a0 : Attrs) (m0 : Marks) (K : List Node) (f t : Nat)
    (hv : S.checkNode (.elem ty0 a0 m0 K) = true) (hn : fnorm K = true)
    (hattrs : S.nodeAttrsOK (.elem ty0 a0 m0 K) = true) (hhc : highClosedKids K = true) (hft : f ≤ t)
    (rf rt : RPos) (hf : (Node.elem ty0 a0 m0 K).resolve f = some rf)
    (ht : (Node.elem ty0 a0 m0 K).resolve t = some rt) (hpf : rf.pairOk = true) (hpt : rt.pairOk = true)
    (sl : Slice) (hos : sl.openStart = 0) (hoe : sl.openEnd = 0) (hsn : fnorm sl.content = true)
    (hsk : S.checkKids sl.content = true) (hshc : highClosedKids sl.content = true)
    (qD q' : Nat) (hqD : S.contentMatchAt (S.tyOf rf.parent) rf.parent.kids (rf.indexAfter rf.depth) = some qD)
    (hrun : (S.dfa (S.tyOf rf.parent)).run qD (S.types sl.content) = some q')
    (F T : Nat) (sl' : Slice) (b : Bool)
    (h : replaceStep S (.elem ty0 a0 m0 K) f t sl = .ok (some (.replace F T sl' b))) :
    ∃ doc', S.apply (.replace F T sl' b) (.elem ty0 a0 m0 K) = .ok doc' := by
  by_cases hne : sl.content = []
  · have hse : sl = Slice.empty := by
      cases sl; simp only at hos hoe hne; simp [Slice.empty, hos, hoe, hne]
    rw [hse] at h
    exact replaceStep_delete_replace_applies S hdet hleaf hfl hcl hts hta hjc hro ty0 a0 m0 K f t hv hn hattrs hhc hft
      rf rt hf ht hpf hpt F T sl' b h
  have hsnk : fnormKids sl.content = true := by
    simp only [fnorm, Bool.and_eq_true] at hsn; exact hsn.1
  have hsz : fsize sl.content ≠ 0 := by
    have := fsize_pos_of_ne_nil hsnk hne; omega
  unfold replaceStep at h
  split at h
  · simp [pure, Except.pure] at h
  · simp only [hf, ht] at h
    split at h
    · simp [throw, throwThe, MonadExceptOf.throw] at h
    · rename_i htr
      have := pure_ok h
      simp only [Option.some.injEq, Step.replace.injEq] at this
      obtain ⟨rfl, rfl, rfl, rfl⟩ := this
      exact trivial_replace_applies S hta hts ty0 a0 m0 K f t rf rt sl hf ht hv hn hsn hft hpf hpt htr
    · -- the Fitter
      unfold fitterFit at h
      obtain ⟨st0, h0, h⟩ := FM.bind_ok h
      obtain ⟨hu, hpl0, qD0, hcmD, hF, hqtop⟩ := frontierOf_init S hf sl st0 h0
      have hqq : qD0 = qD := by rw [hqD] at hcmD; exact (Option.some.inj hcmD).symm
      subst hqq
      obtain ⟨u, fr, pl⟩ := st0
      simp only at hu hpl0 hF
      subst hu hpl0
      have hlen : fr.length = (framesFrom rf 0 rf.depth).length + 1 := by rw [framesFrom_length]; exact hF.1
      have htop : fr[(framesFrom rf 0 rf.depth).length]? = some ⟨S.tyOf rf.parent, some qD0⟩ := by
        rw [framesFrom_length]
        obtain ⟨q, hq, hst⟩ := hF.2 rf.depth (Nat.le_refl _)
        rw [frontSt_top] at hst
        rw [hq, ← Option.some.inj hst]
        rfl
      have hloop := fitLoop_direct S u fr (framesFrom rf 0 rf.depth) (S.tyOf rf.parent) qD0 q' hos hoe hne hsz hlen htop
        hrun (fitMeasure u (u.openStart + 1))
      rw [show fitFuel S u = fitMeasure u (u.openStart + 1) + 1 from rfl, FM.bind_eq hloop] at h
      rw [framesFrom_length] at h
      obtain ⟨mi, hmi, h⟩ := FM.bind_ok h
      simp only at h
      obtain ⟨target, htarget, h⟩ := FM.bind_ok h
      obtain ⟨c, hc, h⟩ := FM.bind_ok h
      cases c with
      | none => simp [pure, Except.pure] at h
      | some c =>
        simp only at h
        cases mi with
        | some p =>
          unfold fitEmit at h
          simp only at h
          split at h
          · simp [throw, throwThe, MonadExceptOf.throw] at h
          · have := pure_ok h
            simp at this
        | none =>
          have htg : target = rt := by
            simp only [closeTarget] at htarget
            exact (pure_ok htarget).symm
          subst htg
          unfold fitEmit at h
          simp only at h
          split at h
          · have := pure_ok h
            simp only [Option.some.injEq, Step.replace.injEq] at this
            obtain ⟨rfl, rfl, rfl, rfl⟩ := this
            have hpos : rf.pos = f := (resolve_resolved hf).pos_eq
            rw [hpos]
            -- the innermost level of `from`
            obtain ⟨hKf0, hfpos, hfs, hfle⟩ := doc_plug hf
            have hKf : K = plug (framesFrom rf 0 rf.depth) rf.parent.kids := hKf0
            obtain ⟨hFl, _, hidxF⟩ := resolved_flatAt hf hpf
            obtain ⟨hvD, hkF, _⟩ := level_check S hf hv rf.depth (Nat.le_refl _)
            have hnF : fnorm rf.parent.kids = true := (plug_framesFN _ _ (hKf ▸ hn)).2
            obtain ⟨hnL, htkL, hkL, hsL⟩ := flat_left_facts S hFl hnF hkF
            have hAl : (rf.parent.kids.take (rf.index rf.depth)).length = rf.index rf.depth := by
              rw [List.length_take]; omega
            have hsL' : sigOf S (rf.parent.kids.take (rf.index rf.depth) ++
                  headCut (rf.parent.kids.drop (rf.index rf.depth)) rf.textOffset)
                = sigOf S (rf.parent.kids.take (rf.indexAfter rf.depth)) := by
              rw [hsL, hAl]
              unfold RPos.indexAfter
              simp
            generalize hLdef : rf.parent.kids.take (rf.index rf.depth) ++
              headCut (rf.parent.kids.drop (rf.index rf.depth)) rf.textOffset = L at hnL htkL hkL hsL'
            let X := fromArray (filtMarks S (S.tyOf rf.parent) u.content)
            have hXn : fnorm X = true := fromArray_norm _ (by rw [filtMarks_fnormKids]; exact hsnk)
            have hXk : S.checkKids X = true := fromArray_checkKids S _ (filtMarks_checkKids S _ _ hsk)
            have hXm : MarksOK S (S.tyOf rf.parent) X := MarksOK_fromArray S _ _ (filtMarks_marksOK S _ _)
            have hXt : ftoks X = ftoks (filtMarks S (S.tyOf rf.parent) u.content) := fromArray_toks _
            have hXr : (S.dfa (S.tyOf rf.parent)).run qD0 (S.types X) = some q' :=
              run_fromArray_some hts _ _ _ _ (by rw [filtMarks_types]; exact hrun)
            have hLr : (S.dfa (S.tyOf rf.parent)).run 0 (S.types L) = some qD0 := by
              rw [sigOf_types S hsL']; exact hqD
            have hLm : MarksOK S (S.tyOf rf.parent) L :=
              sigOf_marksOK S _ hsL' (marksOK_sub S _ (marksOK_of_valid S _ _ hvD) (fun c hc => List.mem_of_mem_take hc))
            have hbLok : BotLOK S rf q' (fappend L X) := by
              intro fill after H2 hfill hH2 hm2
              have h1 := level_valid S hdet hleaf (S.tyOf rf.parent) (L ++ X) (L ++ X) fill after H2 q'
                (by rw [types_append, Dfa.run_append, hLr]; exact hXr) rfl
                (by
                  intro c hc
                  rcases List.mem_append.1 hc with hc | hc
                  · exact hLm c hc
                  · exact hXm c hc) hfill hH2 hm2
              have := validContent_fappend_pre hts (S.tyOf rf.parent) L X (fill ++ H2)
                (by rw [← List.append_assoc]; exact h1)
              rw [← List.append_assoc] at this
              exact this
            have hKn := ftoks_highClosed K hhc
            have hGl := last_not_high (ftoks X) (by
              rw [hXt]
              exact ftoks_highClosed _ (by rw [filtMarks_highClosed]; exact hshc))
            have hqtop' : q' = 0 ∨ ∃ q1 e, e ∈ (S.dfa (S.tyOf rf.parent)).edgesOf q1 ∧ e.2 = q' := by
              rcases run_target _ _ _ _ hrun with h1 | h1
              · rw [h1]; exact hqtop
              · exact .inr h1
            obtain ⟨ffsB, fills, tail, b, _, _, _, _, hnorm, Y, hY⟩ := close_core S hdet hleaf hfl hcl hts hjc hro hf ht hv hn
              hattrs hpf hpt hft _ q' X (frontierOf_set S rf qD0 q' fr hF) hqtop' c.1 c.2 hc X (fappend L X) hXn
              (by rw [fappend_toks, htkL]) (fappend_norm _ _ hnL hXn) (fappend_checkKids S _ _ hkL hXk) hbLok
              (fun Xn T hXn' hfT hT => by
                have haf : tokAligned (ftoks K) f = true := by
                  rw [← alignedAt_toks K _ hn, hfpos, hKf, plug_aligned _ _ _ (plug_norm _ _ (hKf ▸ hn)).1 hfle]
                  exact hFl.aligned
                exact seams_gap (ftoks K) (ftoks X) Xn f T hKn (by omega) haf hXn' hGl)
            rw [hnorm]
            simp only [Schema.apply, Bool.false_eq_true, if_false, Schema.fromReplace, Schema.replace, hY, Except.map]
            exact ⟨_, rfl⟩
          · simp [pure, Except.pure] at h

end PM
