/-
  Proofs/JsonShape.lean — which JSON data the decoders of PM/Json.lean can die on with an internal
  error (`KeyError` / `TypeError` / `AttributeError` in the Python code), and a decidable
  "skeleton" condition under which they cannot.  Helper lemmas for Props/C05.lean.
-/
import PM.Json
import Proofs.Json
namespace PM

/-- the error class of an outcome (`none` = a value) -/
def errClass {α} (r : Res α) : Option Err :=
  match r with
  | .ok _ => none
  | .error e => some e

theorem errClass_eq {α} (r : Res α) (e : Err) : errClass r = some e ↔ r = .error e := by
  cases r <;> simp [errClass]

theorem computeAttrs_no_internal (decls : List AttrDecl) (given : Attrs) :
    computeAttrs decls given ≠ .error .internal := by
  induction decls with
  | nil => simp [computeAttrs]
  | cons d ds ih =>
    rw [computeAttrs_cons]
    cases hr : computeAttrs ds given with
    | error e =>
      have : e ≠ .internal := fun h => ih (by rw [hr, h])
      simpa using this
    | ok rest =>
      simp only
      split
      · split
        · simp
        · split <;> simp
      · split <;> simp

/-- `attrs` is absent, falsy, or an object -/
def attrsShaped (v : Option J) : Bool :=
  match v with
  | none => true
  | some x => !x.truthy || (match x with
    | .obj _ => true
    | _ => false)

theorem computeAttrsJ_no_internal (decls : List AttrDecl) (v : Option J) (h : attrsShaped v = true) :
    computeAttrsJ decls v ≠ .error .internal := by
  unfold computeAttrsJ
  cases v with
  | none => exact computeAttrs_no_internal _ _
  | some x =>
    simp only
    by_cases ht : x.truthy = true
    · simp only [ht, Bool.not_true, Bool.false_eq_true, if_false]
      cases x <;> simp_all [attrsShaped, computeAttrs_no_internal]
    · simp only [ht, Bool.not_false, Bool.not_eq_true] at *
      simp [ht, computeAttrs_no_internal]

/-- exactly when `compute_attrs` on JSON data dies: a truthy non-dict with an attribute declared -/
theorem computeAttrsJ_internal_iff (decls : List AttrDecl) (v : Option J) :
    computeAttrsJ decls v = .error .internal ↔ attrsShaped v = false ∧ decls ≠ [] := by
  constructor
  · intro h
    refine ⟨?_, ?_⟩
    · cases hs : attrsShaped v with
      | true => exact (computeAttrsJ_no_internal decls v hs h).elim
      | false => rfl
    · rintro rfl
      unfold computeAttrsJ at h
      cases v with
      | none => simp [computeAttrs] at h
      | some x => cases x <;> simp [computeAttrs] at h <;> split at h <;> simp at h
  · rintro ⟨hs, hd⟩
    unfold computeAttrsJ
    cases v with
    | none => simp [attrsShaped] at hs
    | some x =>
      have hne : decls.isEmpty = false := by cases decls <;> simp_all
      cases x <;> simp_all [attrsShaped]

/-- a mark skeleton: falsy, or an object with a `type` that is not a list / object and shaped attrs -/
def markShaped (j : J) : Bool :=
  !j.truthy || (match j with
    | .obj kv =>
      (match (J.obj kv).get "type" with
       | none => false
       | some (.arr _) => false
       | some (.obj _) => false
       | some _ => true) && attrsShaped ((J.obj kv).get "attrs")
    | _ => false)

theorem except_map_ne_internal {α β} (f : α → β) (r : Res α) (h : r ≠ .error .internal) :
    r.map f ≠ .error .internal := by
  cases r with
  | error e => simpa [Except.map] using h
  | ok a => simp [Except.map]

theorem markOfJ_no_internal (S : Schema) (j : J) (h : markShaped j = true) :
    S.markOfJ j ≠ .error .internal := by
  unfold Schema.markOfJ
  by_cases ht : j.truthy = true
  · simp only [ht, Bool.not_true, Bool.false_eq_true, if_false]
    simp only [markShaped, ht, Bool.not_true, Bool.false_or] at h
    cases j with
    | obj kv =>
      simp only [Bool.and_eq_true] at h ⊢
      obtain ⟨h1, h2⟩ := h
      cases hty : (J.obj kv).get "type" with
      | none => simp [hty] at h1
      | some ty =>
        cases ty with
        | str name =>
          simp only
          cases S.findMark name with
          | none => simp
          | some t => exact except_map_ne_internal _ _ (computeAttrsJ_no_internal _ _ h2)
        | arr l => simp [hty] at h1
        | obj o => simp [hty] at h1
        | _ => simp
    | _ => simp at h
  · simp [ht]

/-- **exactly when `Mark.from_json` dies**: truthy data that is not a dict, or a dict without
    `type`, or with a list / dict as `type`, or naming a known mark type that declares attributes
    while `attrs` is a truthy non-dict -/
theorem markOfJ_internal_iff' (S : Schema) (j : J) :
    S.markOfJ j = .error .internal ↔
      j.truthy = true ∧
      ((∀ kv, j ≠ .obj kv) ∨
       ∃ kv, j = .obj kv ∧
        ((J.obj kv).get "type" = none ∨ (∃ l, (J.obj kv).get "type" = some (.arr l)) ∨
         (∃ o, (J.obj kv).get "type" = some (.obj o)) ∨
         ∃ name t, (J.obj kv).get "type" = some (.str name) ∧ S.findMark name = some t ∧
           attrsShaped ((J.obj kv).get "attrs") = false ∧ (S.markType t).attrs ≠ [])) := by
  unfold Schema.markOfJ
  by_cases ht : j.truthy = true
  · simp only [ht, Bool.not_true, Bool.false_eq_true, if_false, true_and]
    cases j with
    | obj kv =>
      simp only [ne_eq, J.obj.injEq, forall_eq', not_true_eq_false, false_or, exists_eq_left']
      cases hty : (J.obj kv).get "type" with
      | none => simp
      | some ty =>
        cases ty with
        | str name =>
          simp only [Option.some.injEq, J.str.injEq, reduceCtorEq, false_or, exists_false,
            exists_and_left, exists_eq_left']
          cases hf : S.findMark name with
          | none => simp
          | some t =>
            simp only [Option.some.injEq, exists_eq_left']
            rw [← computeAttrsJ_internal_iff]
            cases computeAttrsJ (S.markType t).attrs ((J.obj kv).get "attrs") with
            | error e => cases e <;> simp [Except.map]
            | ok a => simp [Except.map]
        | arr l => simp
        | obj o => simp
        | _ => simp
    | _ => simp
  · simp [ht]

/-! ### nodes, fragments, slices, steps: a skeleton condition under which the decoders cannot die -/

/-- `marks` is absent, falsy, not a list (→ ValueError), or a list of mark skeletons -/
def marksShaped (v : Option J) : Bool :=
  match v with
  | none => true
  | some x => !x.truthy || (match x with
    | .arr l => l.all markShaped
    | _ => true)

mutual
/-- a node skeleton (`fuel` bounds the nesting, as in `nodeOfJ`): a string; falsy data; or an object
    with shaped marks, a `type`, and — for `"text"` — a `text`, otherwise shaped content and attrs -/
def nodeShaped : Nat → J → Bool
  | 0, _ => false
  | fuel + 1, .obj kv =>
    kv.isEmpty ||
    (marksShaped ((J.obj kv).get "marks") &&
     (match (J.obj kv).get "type" with
      | none => false
      | some (.str "text") => ((J.obj kv).get "text").isSome
      | some _ =>
        (match (J.obj kv).get "content" with
         | none => true
         | some c => !c.truthy || (match c with
           | .arr l => kidsShaped fuel l
           | _ => true)) &&
        attrsShaped ((J.obj kv).get "attrs")))
  | _ + 1, .str _ => true
  | _ + 1, .text _ => true
  | _ + 1, j => !j.truthy
def kidsShaped : Nat → List J → Bool
  | _, [] => true
  | fuel, j :: js => nodeShaped fuel j && kidsShaped fuel js
end

theorem mapM_markOfJ_no_internal (S : Schema) : ∀ (l : List J), l.all markShaped = true →
    l.mapM S.markOfJ ≠ .error .internal
  | [], _ => by simp [List.mapM_nil, pure, Except.pure]
  | j :: js, h => by
    simp only [List.all_cons, Bool.and_eq_true] at h
    have h1 := markOfJ_no_internal S j h.1
    have h2 := mapM_markOfJ_no_internal S js h.2
    rw [List.mapM_cons]
    cases hj : S.markOfJ j with
    | error e =>
      have : e ≠ .internal := fun he => h1 (by rw [hj, he])
      simpa [bind, Except.bind] using this
    | ok m =>
      cases hjs : js.mapM S.markOfJ with
      | error e =>
        have : e ≠ .internal := fun he => h2 (by rw [hjs, he])
        simpa [bind, Except.bind] using this
      | ok ms => simp [bind, Except.bind, pure, Except.pure]

theorem marksOfJ_no_internal (S : Schema) (v : Option J) (h : marksShaped v = true) :
    S.marksOfJ v ≠ .error .internal := by
  unfold Schema.marksOfJ
  cases v with
  | none => simp
  | some x =>
    simp only
    by_cases ht : x.truthy = true
    · simp only [ht, Bool.not_true, Bool.false_eq_true, if_false]
      simp only [marksShaped, ht, Bool.not_true, Bool.false_or] at h
      cases x with
      | arr l => exact except_map_ne_internal _ _ (mapM_markOfJ_no_internal S l h)
      | _ => simp
    · simp [ht]

theorem kidsOfJ_no_internal_of (S : Schema) (fuel : Nat)
    (P : ∀ j, nodeShaped fuel j = true → S.nodeOfJ fuel j ≠ .error .internal) :
    ∀ l, kidsShaped fuel l = true → S.kidsOfJ fuel l ≠ .error .internal
  | [], _ => by simp [Schema.kidsOfJ]
  | j :: js, h => by
    simp only [kidsShaped, Bool.and_eq_true] at h
    have h1 := P j h.1
    have h2 := kidsOfJ_no_internal_of S fuel P js h.2
    simp only [Schema.kidsOfJ]
    cases hj : S.nodeOfJ fuel j with
    | error e =>
      have : e ≠ .internal := fun he => h1 (by rw [hj, he])
      simpa using this
    | ok n =>
      cases hjs : S.kidsOfJ fuel js with
      | error e =>
        have : e ≠ .internal := fun he => h2 (by rw [hjs, he])
        simpa using this
      | ok ns => simp

theorem nodeOfJ_no_internal_step (S : Schema) (fuel : Nat)
    (Q : ∀ l, kidsShaped fuel l = true → S.kidsOfJ fuel l ≠ .error .internal) :
    ∀ j, nodeShaped (fuel + 1) j = true → S.nodeOfJ (fuel + 1) j ≠ .error .internal := by
  intro j h
  cases j with
  | obj kv =>
    simp only [nodeShaped, Bool.or_eq_true, Bool.and_eq_true] at h
    simp only [Schema.nodeOfJ]
    by_cases hk : kv.isEmpty = true
    · simp [hk]
    · simp only [hk, Bool.false_eq_true, false_or, if_false] at h ⊢
      obtain ⟨hm, hrest⟩ := h
      have hm' := marksOfJ_no_internal S _ hm
      cases hmk : S.marksOfJ ((J.obj kv).get "marks") with
      | error e =>
        have : e ≠ .internal := fun he => hm' (by rw [hmk, he])
        simpa using this
      | ok marks =>
        simp only
        split
        · rename_i hty; simp [hty] at hrest
        · rename_i hty
          simp only [hty] at hrest
          cases hx : (J.obj kv).get "text" with
          | none => simp [hx] at hrest
          | some v => simp only; split <;> simp
        · rename_i ty hne hty
          have hrest' : (match (J.obj kv).get "content" with
              | none => true
              | some c => !c.truthy || (match c with
                | .arr l => kidsShaped fuel l
                | _ => true)) = true ∧ attrsShaped ((J.obj kv).get "attrs") = true := by
            rw [hty] at hrest
            split at hrest
            · simp at hrest
            · rename_i heq
              simp only [Option.some.injEq] at heq
              exact (hne heq).elim
            · simpa [Bool.and_eq_true] using hrest
          obtain ⟨hc, ha⟩ := hrest'
          have hcont : ∀ e, (match (J.obj kv).get "content" with
              | none => (Except.ok [] : Res (List Node))
              | some c =>
                if !c.truthy then .ok [] else
                match c with
                | .arr l => S.kidsOfJ fuel l
                | _ => .error .valueError) = .error e → e ≠ .internal := by
            intro e he
            cases hcc : (J.obj kv).get "content" with
            | none => simp [hcc] at he
            | some c =>
              simp only [hcc] at he hc
              by_cases hct : c.truthy = true
              · simp only [hct, Bool.not_true, Bool.false_eq_true, if_false, Bool.false_or] at he hc
                cases c with
                | arr l => intro hi; exact Q l hc (by simp only at he; rw [he, hi])
                | _ => simp at he; simp [← he]
              · simp [hct] at he
          split
          · rename_i e he
            have := hcont e he
            simpa using this
          · rename_i kids _
            cases ty with
            | str name =>
              simp only
              cases S.findNode name with
              | none => simp
              | some t =>
                simp only
                have := computeAttrsJ_no_internal (S.nodeType t).attrs _ ha
                cases hca : computeAttrsJ (S.nodeType t).attrs ((J.obj kv).get "attrs") with
                | error e =>
                  have : e ≠ .internal := fun he => this (by rw [hca, he])
                  simpa using this
                | ok a => simp only; split <;> simp
            | _ => simp
  | str s => simp [Schema.nodeOfJ]
  | text u => simp [Schema.nodeOfJ]
  | null => simp [Schema.nodeOfJ, J.truthy]
  | bool b => simp [nodeShaped] at h; simp [Schema.nodeOfJ, h]
  | num n => simp [nodeShaped] at h; simp [Schema.nodeOfJ, h]
  | raw r => simp [nodeShaped] at h; simp [Schema.nodeOfJ, h]
  | arr l => simp [nodeShaped] at h; simp [Schema.nodeOfJ, h]

theorem nodeOfJ_kidsOfJ_no_internal (S : Schema) : ∀ fuel,
    (∀ j, nodeShaped fuel j = true → S.nodeOfJ fuel j ≠ .error .internal) ∧
    (∀ l, kidsShaped fuel l = true → S.kidsOfJ fuel l ≠ .error .internal)
  | 0 => by
    have P : ∀ j, nodeShaped 0 j = true → S.nodeOfJ 0 j ≠ .error .internal := by
      intro j h; simp [nodeShaped] at h
    exact ⟨P, kidsOfJ_no_internal_of S 0 P⟩
  | fuel + 1 => by
    have P := nodeOfJ_no_internal_step S fuel (nodeOfJ_kidsOfJ_no_internal S fuel).2
    exact ⟨P, kidsOfJ_no_internal_of S (fuel + 1) P⟩

/-- a fragment skeleton -/
def fragShaped (fuel : Nat) (v : Option J) : Bool :=
  match v with
  | none => true
  | some c => !c.truthy || (match c with
    | .arr l => kidsShaped fuel l
    | _ => true)

/-- a slice skeleton: absent, falsy, or an object with shaped content -/
def sliceShaped (fuel : Nat) (v : Option J) : Bool :=
  match v with
  | none => true
  | some x => !x.truthy || (match x with
    | .obj kv => fragShaped fuel ((J.obj kv).get "content")
    | _ => false)

def markFieldShaped (j : J) : Bool :=
  match j.get "mark" with
  | none => false
  | some mj => markShaped mj

/-- a step skeleton: a string, falsy data, or an object whose `stepType` is not a non-empty
    list / object and — when it names a built-in step type — carries the keys that type reads with
    `json_data[k]`, a shaped slice resp. mark -/
def stepShaped (fuel : Nat) (j : J) : Bool :=
  match j with
  | .str _ => true
  | .text _ => true
  | .obj kv =>
    kv.isEmpty ||
    (match (J.obj kv).get "stepType" with
     | none => true
     | some (.str ty) =>
       !stepIds.contains ty ||
       (match ty with
        | "replace" =>
          ((J.obj kv).get "from").isSome && ((J.obj kv).get "to").isSome &&
            sliceShaped fuel ((J.obj kv).get "slice")
        | "replaceAround" =>
          ((J.obj kv).get "from").isSome && ((J.obj kv).get "to").isSome &&
            ((J.obj kv).get "gapFrom").isSome && ((J.obj kv).get "gapTo").isSome &&
            ((J.obj kv).get "insert").isSome && sliceShaped fuel ((J.obj kv).get "slice")
        | "addMark" =>
          ((J.obj kv).get "from").isSome && ((J.obj kv).get "to").isSome && markFieldShaped (J.obj kv)
        | "removeMark" =>
          ((J.obj kv).get "from").isSome && ((J.obj kv).get "to").isSome && markFieldShaped (J.obj kv)
        | "addNodeMark" => ((J.obj kv).get "pos").isSome && markFieldShaped (J.obj kv)
        | "removeNodeMark" => ((J.obj kv).get "pos").isSome && markFieldShaped (J.obj kv)
        | "attr" =>
          ((J.obj kv).get "pos").isSome && ((J.obj kv).get "attr").isSome && ((J.obj kv).get "value").isSome
        | "docAttr" => ((J.obj kv).get "attr").isSome && ((J.obj kv).get "value").isSome
        | _ => true)
     | some (.arr l) => l.isEmpty
     | some (.obj o) => o.isEmpty
     | some _ => true)
  | j => !j.truthy

theorem fragOfJ_no_internal (S : Schema) (fuel : Nat) (v : Option J) (h : fragShaped fuel v = true) :
    S.fragOfJ fuel v ≠ .error .internal := by
  unfold Schema.fragOfJ
  cases v with
  | none => simp
  | some c =>
    simp only
    by_cases ht : c.truthy = true
    · simp only [ht, Bool.not_true, Bool.false_eq_true, if_false]
      simp only [fragShaped, ht, Bool.not_true, Bool.false_or] at h
      cases c with
      | arr l => exact (nodeOfJ_kidsOfJ_no_internal S fuel).2 l h
      | _ => simp
    · simp [ht]

theorem sliceOfJ_no_internal (S : Schema) (fuel : Nat) (v : Option J) (h : sliceShaped fuel v = true) :
    S.sliceOfJ fuel v ≠ .error .internal := by
  unfold Schema.sliceOfJ
  cases v with
  | none => simp
  | some x =>
    simp only
    by_cases ht : x.truthy = true
    · simp only [ht, Bool.not_true, Bool.false_eq_true, if_false]
      simp only [sliceShaped, ht, Bool.not_true, Bool.false_or] at h
      cases x with
      | obj kv =>
        simp only
        split
        · exact except_map_ne_internal _ _ (fragOfJ_no_internal S fuel _ h)
        · simp
      | _ => simp at h
    · simp [ht]

theorem intField_no_internal {α} (j : J) (k : String) (cont : Nat → Res α)
    (hk : (j.get k).isSome = true) (hc : ∀ n, cont n ≠ .error .internal) :
    intField j k cont ≠ .error .internal := by
  unfold intField
  cases hg : j.get k with
  | none => simp [hg] at hk
  | some v =>
    cases v with
    | num n => simp only; split <;> simp [hc]
    | bool b => exact hc _
    | _ => simp

theorem markField_no_internal (S : Schema) (j : J) (cont : Mark → Step) (h : markFieldShaped j = true) :
    S.markField j cont ≠ .error .internal := by
  unfold Schema.markField
  unfold markFieldShaped at h
  cases hg : j.get "mark" with
  | none => simp [hg] at h
  | some mj =>
    simp only [hg] at h
    exact except_map_ne_internal _ _ (markOfJ_no_internal S mj h)

theorem stepOfJ_no_internal (S : Schema) (fuel : Nat) (j : J) (h : stepShaped fuel j = true) :
    S.stepOfJ fuel j ≠ .error .internal := by
  cases j with
  | str s => simp [Schema.stepOfJ]
  | text u => simp [Schema.stepOfJ]
  | null => simp [Schema.stepOfJ, J.truthy]
  | bool b => simp [stepShaped] at h; simp [Schema.stepOfJ, h]
  | num n => simp [stepShaped] at h; simp [Schema.stepOfJ, h]
  | raw r => simp [stepShaped] at h; simp [Schema.stepOfJ, h]
  | arr l => simp [stepShaped] at h; simp [Schema.stepOfJ, h]
  | obj kv =>
    simp only [stepShaped, Bool.or_eq_true] at h
    simp only [Schema.stepOfJ]
    by_cases hk : kv.isEmpty = true
    · simp [hk]
    · simp only [hk, Bool.false_eq_true, false_or, if_false] at h ⊢
      cases hst : (J.obj kv).get "stepType" with
      | none => simp
      | some ty =>
        simp only [hst] at h
        cases ty with
        | str name =>
          simp only [Bool.or_eq_true] at h ⊢
          by_cases hc : stepIds.contains name = true
          · simp only [hc, Bool.not_true, Bool.false_eq_true, false_or, if_false] at h ⊢
            split
            · simp only [Bool.and_eq_true] at h
              exact intField_no_internal _ _ _ h.1.1 fun f => intField_no_internal _ _ _ h.1.2 fun t =>
                except_map_ne_internal _ _ (sliceOfJ_no_internal S fuel _ h.2)
            · simp only [Bool.and_eq_true] at h
              obtain ⟨⟨⟨⟨⟨h1, h2⟩, h3⟩, h4⟩, h5⟩, h6⟩ := h
              exact intField_no_internal _ _ _ h1 fun f => intField_no_internal _ _ _ h2 fun t =>
                intField_no_internal _ _ _ h3 fun gf => intField_no_internal _ _ _ h4 fun gt =>
                intField_no_internal _ _ _ h5 fun ins =>
                except_map_ne_internal _ _ (sliceOfJ_no_internal S fuel _ h6)
            · simp only [Bool.and_eq_true] at h
              exact intField_no_internal _ _ _ h.1.1 fun f => intField_no_internal _ _ _ h.1.2 fun t =>
                markField_no_internal S _ _ h.2
            · simp only [Bool.and_eq_true] at h
              exact intField_no_internal _ _ _ h.1.1 fun f => intField_no_internal _ _ _ h.1.2 fun t =>
                markField_no_internal S _ _ h.2
            · simp only [Bool.and_eq_true] at h
              exact intField_no_internal _ _ _ h.1 fun p => markField_no_internal S _ _ h.2
            · simp only [Bool.and_eq_true] at h
              exact intField_no_internal _ _ _ h.1 fun p => markField_no_internal S _ _ h.2
            · simp only [Bool.and_eq_true] at h
              refine intField_no_internal _ _ _ h.1.1 fun p => ?_
              cases ha : (J.obj kv).get "attr" with
              | none => simp [ha] at h
              | some av =>
                cases av with
                | str n =>
                  simp only
                  cases hv : (J.obj kv).get "value" with
                  | none => simp [hv] at h
                  | some vv => cases vv <;> simp
                | _ => simp
            · simp only [Bool.and_eq_true] at h
              cases ha : (J.obj kv).get "attr" with
              | none => simp [ha] at h
              | some av =>
                cases av with
                | str n =>
                  simp only
                  cases hv : (J.obj kv).get "value" with
                  | none => simp [hv] at h
                  | some vv => cases vv <;> simp
                | _ => simp
            · simp
          · have hc' : stepIds.contains name = false := by simpa using hc
            simp only [hc', Bool.not_false, if_true]
            simp
        | arr l => simp only at h ⊢; simp [h]
        | obj o => simp only at h ⊢; simp [h]
        | _ => simp

end PM
