/-
  Proofs/MarkTotal.lean — `Transform.add_mark` / `Transform.remove_mark` go through on valid documents
  (helper lemmas for `addMark_total` / `removeMark_total` of Props/C13.lean).

  The planned steps are applied one after the other, each to the document the previous one left.  A
  single mark step applies to a valid, normal-form document when its ends are in range, ordered and
  pair-aligned (`addMark_applies` / `removeMark_applies`, Proofs/MarkSuccess.lean).  Validity and normal
  form are kept by every step; range and order depend only on the size, which mark steps keep.  Pair
  alignment (`alignedAt`) is **not** kept in general: it depends on the text-node boundaries, and a mark
  step merges adjacent text nodes whose mark sets become equal — a position between a text node ending
  in a high surrogate and a text node starting with a low surrogate is aligned before the merge and
  not after it.  What is kept is the mark-blind notion `unitAligned` (the two neighbouring *tokens* are
  not a high and a low surrogate unit, whatever their marks), which is a function of the token shapes.
  On a document none of whose text nodes ends in a high surrogate (`pairClosedKids`; every `str`
  Python can encode as UTF-16 is such a text) the two notions agree, so:

  1. `alignedAt_unit`: `alignedAt = unitAligned` on such a document;
  2. the walk: every visited node starts and ends at an aligned position and overlaps the range;
  3. the folds: every planned step is an add/remove-mark step over `a ≤ b ≤ t` with `a`, `b` among
     `f`, `t` and the visited nodes' boundaries;
  4. `stepAll_total`: a list of such steps applies, keeping validity, normal form and token shapes.
-/
import PM.MarkPlan
import Proofs.MarkSuccess
import Proofs.MarkPlan
import Proofs.ReplaceValid
import Proofs.StepValid
namespace PM

/-! ### 1. mark-blind pair alignment -/

mutual
/-- no text node of the subtree ends in a high surrogate (the first half of a pair whose second half
    would have to start the next text node).  Every text the code can hold satisfies it: `TextNode`
    computes its size with `text.encode("utf-16-le")`, which raises on a lone surrogate. -/
def Node.pairClosed : Node → Bool
  | .text s _ => match s.getLast? with
    | some u => !isHigh u
    | none => true
  | .leaf .. => true
  | .elem _ _ _ kids => pairClosedKids kids
def pairClosedKids : List Node → Bool
  | [] => true
  | n :: ns => n.pairClosed && pairClosedKids ns
end

@[simp] theorem pairClosedKids_nil : pairClosedKids [] = true := by unfold pairClosedKids; rfl
theorem pairClosedKids_cons (n : Node) (ns : List Node) :
    pairClosedKids (n :: ns) = (n.pairClosed && pairClosedKids ns) := by
  conv => lhs; unfold pairClosedKids
theorem Node.pairClosed_elem (t : TypeId) (a : Attrs) (m : Marks) (k : List Node) :
    (Node.elem t a m k).pairClosed = pairClosedKids k := by
  conv => lhs; unfold Node.pairClosed
theorem Node.pairClosed_text (s : List Nat) (m : Marks) :
    (Node.text s m).pairClosed = (match s.getLast? with | some u => !isHigh u | none => true) := by
  conv => lhs; unfold Node.pairClosed

/-- position `p` does not separate a high-surrogate unit from a low-surrogate unit — whatever marks the
    two units carry (`tokAligned` of Proofs/MarkMerge.lean asks for equal marks in addition) -/
def unitAligned (l : List Tok) : Nat → Bool
  | 0 => true
  | p + 1 =>
    match (l[p]?).map Tok.shape, (l[p + 1]?).map Tok.shape with
    | some (.unit h), some (.unit lo) => !(isHigh h && isLow lo)
    | _, _ => true

/-- `unitAligned` is a function of the token shapes -/
theorem unitAligned_shape (l l' : List Tok) (h : l.map Tok.shape = l'.map Tok.shape) (p : Nat) :
    unitAligned l p = unitAligned l' p := by
  cases p with
  | zero => rfl
  | succ p =>
    have e : ∀ i : Nat, (l[i]?).map Tok.shape = (l'[i]?).map Tok.shape := by
      intro i
      have := congrArg (fun x : List Shape => x[i]?) h
      simpa only [List.getElem?_map] using this
    simp only [unitAligned, e]

theorem units_getElem? (s : List Nat) (m : Marks) (i : Nat) :
    (s.map (Tok.unit · m))[i]? = (s[i]?).map (Tok.unit · m) := by
  simp

theorem lastTok_not_unit (n : Node) (hnt : n.isText = false) (hsz : 0 < n.size) :
    ∀ c m, n.toks[n.size - 1]? ≠ some (.unit c m) := by
  intro c m
  cases n with
  | text s mm => simp [Node.isText] at hnt
  | leaf t a mm => simp
  | elem t a mm k =>
    simp only [Node.toks_elem, Node.size_elem]
    rw [show 2 + fsize k - 1 = (fsize k) + 1 by omega, List.getElem?_cons_succ,
      List.getElem?_append_right (by rw [ftoks_length]; exact Nat.le_refl _), ftoks_length]
    simp

theorem shape_unit_inv (o : Option Tok) (h : Nat) (e : o.map Tok.shape = some (.unit h)) :
    ∃ m, o = some (.unit h m) := by
  cases o with
  | none => simp at e
  | some x =>
    cases x with
    | unit c m =>
      simp only [Option.map_some, Tok.shape, Option.some.injEq, Shape.unit.injEq] at e
      exact ⟨m, by rw [e]⟩
    | _ => simp [Tok.shape] at e

/-! the four ways position `p + 1` can lie relative to the first node of a child list -/

theorem unitAligned_cons_skip (n : Node) (ns : List Node) (p : Nat) (h : n.size < p + 1) :
    unitAligned (n.toks ++ ftoks ns) (p + 1) = unitAligned (ftoks ns) (p + 1 - n.size) := by
  obtain ⟨p', hp'⟩ : ∃ p', p + 1 - n.size = p' + 1 := ⟨p - n.size, by omega⟩
  rw [hp']
  simp only [unitAligned]
  rw [List.getElem?_append_right (by rw [Node.toks_length]; omega),
    List.getElem?_append_right (by rw [Node.toks_length]; omega), Node.toks_length,
    show p - n.size = p' by omega, show p + 1 - n.size = p' + 1 by omega]

theorem unitAligned_cons_text (s : List Nat) (m : Marks) (ns : List Node) (p : Nat) (h : p + 1 < s.length) :
    unitAligned ((Node.text s m).toks ++ ftoks ns) (p + 1) = splitOk s (p + 1) := by
  simp only [unitAligned]
  rw [List.getElem?_append_left (by rw [Node.toks_length]; simpa using (by omega : p < s.length)),
    List.getElem?_append_left (by rw [Node.toks_length]; simpa using h)]
  simp only [Node.toks_text, units_getElem?, splitOk]
  rw [List.getElem?_eq_getElem (by omega), List.getElem?_eq_getElem (by omega)]
  simp [Tok.shape]

theorem unitAligned_cons_elem (t : TypeId) (a : Attrs) (m : Marks) (k ns : List Node) (p : Nat)
    (h : p + 1 < 2 + fsize k) :
    unitAligned ((Node.elem t a m k).toks ++ ftoks ns) (p + 1) = unitAligned (ftoks k) p := by
  simp only [unitAligned]
  rw [List.getElem?_append_left (by rw [Node.toks_length]; simp; omega),
    List.getElem?_append_left (by rw [Node.toks_length]; simp; omega), Node.toks_elem]
  cases p with
  | zero => simp [Tok.shape]
  | succ p =>
    simp only [List.getElem?_cons_succ]
    by_cases hin : p + 1 < fsize k
    · rw [List.getElem?_append_left (by rw [ftoks_length]; omega),
        List.getElem?_append_left (by rw [ftoks_length]; omega)]
    · have hp : p + 1 = fsize k := by omega
      rw [List.getElem?_append_right (l₁ := ftoks k) (i := p + 1) (by rw [ftoks_length]; omega),
        ftoks_length, show p + 1 - fsize k = 0 by omega]
      have hnone : (ftoks k)[p + 1]? = none := by
        apply List.getElem?_eq_none; rw [ftoks_length]; omega
      rw [hnone]
      simp only [List.getElem?_cons_zero, Option.map_some, Option.map_none, Tok.shape]
      split <;> simp_all

/-- the seam after a node that does not end in a high surrogate -/
theorem unitAligned_cons_seam (n : Node) (ns : List Node) (p : Nat) (hp : p + 1 = n.size)
    (hc : n.pairClosed = true) : unitAligned (n.toks ++ ftoks ns) (p + 1) = true := by
  simp only [unitAligned]
  rw [List.getElem?_append_left (by rw [Node.toks_length]; omega)]
  cases n with
  | text s m =>
    simp only [Node.size_text] at hp
    rw [Node.pairClosed_text, List.getLast?_eq_getElem?, show s.length - 1 = p by omega] at hc
    rw [Node.toks_text, units_getElem?]
    cases hs : s[p]? with
    | none => simp
    | some c =>
      rw [hs] at hc
      simp only [Bool.not_eq_true'] at hc
      simp only [Option.map_some, Tok.shape]
      split
      · rename_i hh lo e1 e2
        simp only [Option.some.injEq, Shape.unit.injEq] at e1
        subst e1
        simp [hc]
      · rfl
  | leaf t a m =>
    split
    · rename_i hh lo e1 e2
      obtain ⟨mm, hx⟩ := shape_unit_inv _ _ e1
      have := lastTok_not_unit (.leaf t a m) rfl (by simp) hh mm
      rw [show (Node.leaf t a m).size - 1 = p by omega] at this
      exact absurd hx this
    · rfl
  | elem t a m k =>
    split
    · rename_i hh lo e1 e2
      obtain ⟨mm, hx⟩ := shape_unit_inv _ _ e1
      have := lastTok_not_unit (.elem t a m k) rfl (by simp; omega) hh mm
      rw [show (Node.elem t a m k).size - 1 = p by omega] at this
      exact absurd hx this
    · rfl

/-- a mark-blind aligned position is pair-aligned (in every child list) -/
theorem alignedAt_of_unit : ∀ (kids : List Node) (p : Nat), unitAligned (ftoks kids) p = true →
    alignedAt kids p = true
  | [], p, _ => by cases p <;> simp [alignedAt]
  | n :: ns, p, h => by
    cases p with
    | zero => simp
    | succ p =>
      rw [ftoks_cons] at h
      rw [alignedAt_cons, if_neg (by omega)]
      by_cases hle : n.size ≤ p + 1
      · rw [if_pos hle]
        by_cases hgt : n.size < p + 1
        · rw [unitAligned_cons_skip n ns p hgt] at h
          exact alignedAt_of_unit ns _ h
        · rw [show p + 1 - n.size = 0 by omega]; simp
      · rw [if_neg hle]
        cases n with
        | text s m =>
          simp only [Node.size_text, Nat.not_le] at hle
          rw [unitAligned_cons_text s m ns p hle] at h
          exact h
        | leaf t a m => rfl
        | elem t a m k =>
          simp only [Node.size_elem, Nat.not_le] at hle
          rw [unitAligned_cons_elem t a m k ns p hle] at h
          simp only [Nat.add_sub_cancel]
          exact alignedAt_of_unit k p h

/-- on a document none of whose text nodes ends in a high surrogate, a pair-aligned position is
    mark-blind aligned: the two notions agree there -/
theorem unit_of_alignedAt : ∀ (kids : List Node) (p : Nat), pairClosedKids kids = true →
    alignedAt kids p = true → unitAligned (ftoks kids) p = true
  | [], p, _, _ => by cases p <;> simp [unitAligned]
  | n :: ns, p, hc, h => by
    rw [pairClosedKids_cons, Bool.and_eq_true] at hc
    obtain ⟨hcn, hcns⟩ := hc
    cases p with
    | zero => simp [unitAligned]
    | succ p =>
      rw [alignedAt_cons, if_neg (by omega)] at h
      rw [ftoks_cons]
      by_cases hle : n.size ≤ p + 1
      · rw [if_pos hle] at h
        by_cases hgt : n.size < p + 1
        · rw [unitAligned_cons_skip n ns p hgt]
          exact unit_of_alignedAt ns _ hcns h
        · exact unitAligned_cons_seam n ns p (by omega) hcn
      · rw [if_neg hle] at h
        cases n with
        | text s m =>
          simp only [Node.size_text, Nat.not_le] at hle
          rw [unitAligned_cons_text s m ns p hle]
          exact h
        | leaf t a m => simp at hle
        | elem t a m k =>
          simp only [Node.size_elem, Nat.not_le] at hle
          rw [Node.pairClosed_elem] at hcn
          rw [unitAligned_cons_elem t a m k ns p hle]
          simp only [Nat.add_sub_cancel] at h
          exact unit_of_alignedAt k p hcn h

/-! ### 2. the walk: every visited node overlaps the range and has pair-aligned boundaries -/

/-- what the planners use of a visit (positions relative to the fragment start `start`) -/
structure VisitOK (kids : List Node) (f t start : Nat) (v : NV) : Prop where
  lo : start ≤ v.pos
  before : v.pos - start < t
  after : f < v.pos - start + v.node.size
  inside : v.pos - start + v.node.size ≤ fsize kids
  a1 : alignedAt kids (v.pos - start) = true
  a2 : alignedAt kids (v.pos - start + v.node.size) = true

theorem nodesBetweenP_visitOK : ∀ (kids : List Node) (p : TypeId) (f t start i0 : Nat) (v : NV),
    v ∈ nodesBetweenP p kids f t start i0 → VisitOK kids f t start v
  | [], p, f, t, start, i0, v, h => by simp [nodesBetweenP] at h
  | n :: ns, p, f, t, start, i0, v, h => by
    rw [nodesBetweenP_cons] at h
    split at h
    · simp at h
    · rename_i ht0
      rcases List.mem_append.mp h with h | h
      · split at h
        · rename_i hf
          rcases List.mem_cons.mp h with rfl | h
          · refine ⟨Nat.le_refl _, ?_, ?_, ?_, ?_, ?_⟩
            · simp only [Nat.sub_self]; omega
            · simp only [Nat.sub_self]; omega
            · simp
            · simp
            · simp only [Nat.sub_self, Nat.zero_add]
              rw [alignedAt_skip n ns n.size (Nat.le_refl _)]; simp
          · cases n with
            | text s m => simp at h
            | leaf ty a m => simp at h
            | elem ty a m kids =>
              simp only at h
              split at h
              · simp at h
              · obtain ⟨h1, h2, h3, h4, h5, h6⟩ :=
                  nodesBetweenP_visitOK kids ty (f - 1) (min (fsize kids) (t - 1)) (start + 1) 0 v h
                refine ⟨by omega, by omega, by omega, by simp; omega, ?_, ?_⟩
                · rw [alignedAt_cons, if_neg (by omega), if_neg (by simp; omega)]
                  simp only
                  rw [show v.pos - start - 1 = v.pos - (start + 1) by omega]; exact h5
                · rw [alignedAt_cons, if_neg (by omega), if_neg (by simp; omega)]
                  simp only
                  rw [show v.pos - start + v.node.size - 1 = v.pos - (start + 1) + v.node.size by omega]
                  exact h6
        · simp at h
      · obtain ⟨h1, h2, h3, h4, h5, h6⟩ :=
          nodesBetweenP_visitOK ns p (f - n.size) (t - n.size) (start + n.size) (i0 + 1) v h
        refine ⟨by omega, by omega, by omega, by simp; omega, ?_, ?_⟩
        · rw [alignedAt_skip n ns _ (by omega),
            show v.pos - start - n.size = v.pos - (start + n.size) by omega]; exact h5
        · rw [alignedAt_skip n ns _ (by omega),
            show v.pos - start + v.node.size - n.size = v.pos - (start + n.size) + v.node.size by omega]
          exact h6

/-! ### 3. the folds: every planned step ranges over `a ≤ b ≤ t` with both ends in `Q`

  `Q` is any set of positions containing `f`, `t` and the boundaries of every visited node. -/

/-- a planned range -/
def GoodRange (Q : Nat → Prop) (t a b : Nat) : Prop := a ≤ b ∧ b ≤ t ∧ Q a ∧ Q b

/-- a visit as the folds need it -/
def VisitQ (Q : Nat → Prop) (f t : Nat) (v : NV) : Prop :=
  v.pos < t ∧ f < v.pos + v.node.size ∧ Q v.pos ∧ Q (v.pos + v.node.size)

/-- an add-mark or remove-mark step over a good range -/
def GoodStep (Q : Nat → Prop) (t : Nat) (s : Step) : Prop :=
  ∃ a b x, (s = .addMark a b x ∨ s = .removeMark a b x) ∧ GoodRange Q t a b

theorem visit_range (Q : Nat → Prop) (f t : Nat) (hft : f ≤ t) (hf : Q f) (ht : Q t) (v : NV)
    (hv : VisitQ Q f t v) : GoodRange Q t (max v.pos f) (min (v.pos + v.node.size) t) := by
  obtain ⟨h1, h2, h3, h4⟩ := hv
  refine ⟨by omega, Nat.min_le_right _ _, ?_, ?_⟩
  · rcases Nat.le_total v.pos f with h | h
    · rw [Nat.max_eq_right h]; exact hf
    · rw [Nat.max_eq_left h]; exact h3
  · rcases Nat.le_total (v.pos + v.node.size) t with h | h
    · rw [Nat.min_eq_left h]; exact h4
    · rw [Nat.min_eq_right h]; exact ht

section AddFold
variable (Q : Nat → Prop) (t : Nat)

theorem addMarkDisplace_good (newSet : Marks) (s e : Nat) (hse : GoodRange Q t s e)
    (removed : List (Nat × Nat × Mark)) (x : Mark)
    (h : ∀ r ∈ removed, GoodRange Q t r.1 r.2.1) :
    ∀ r ∈ addMarkDisplace newSet s e removed x, GoodRange Q t r.1 r.2.1 := by
  unfold addMarkDisplace
  split
  · exact h
  · split
    · rename_i a b y rest
      split
      · rename_i hc
        simp only [Bool.and_eq_true, beq_iff_eq] at hc
        intro r hr
        rcases List.mem_cons.mp hr with rfl | hr
        · obtain ⟨g1, _, g3, _⟩ := h (a, b, y) (List.mem_cons_self ..)
          obtain ⟨k1, k2, _, k4⟩ := hse
          simp only at g1 g3 ⊢
          exact ⟨by omega, k2, g3, k4⟩
        · exact h r (List.mem_cons_of_mem _ hr)
      · intro r hr
        rcases List.mem_cons.mp hr with rfl | hr
        · exact hse
        · exact h r hr
    · intro r hr
      simp only [List.mem_singleton] at hr
      subst hr; exact hse

theorem addMarkDisplace_fold_good (newSet : Marks) (s e : Nat) (hse : GoodRange Q t s e) :
    ∀ (xs : Marks) (removed : List (Nat × Nat × Mark)), (∀ r ∈ removed, GoodRange Q t r.1 r.2.1) →
    ∀ r ∈ xs.foldl (addMarkDisplace newSet s e) removed, GoodRange Q t r.1 r.2.1
  | [], removed, h => by simpa using h
  | x :: xs, removed, h => by
    simp only [List.foldl_cons]
    exact addMarkDisplace_fold_good newSet s e hse xs _ (addMarkDisplace_good Q t newSet s e hse removed x h)

theorem addMarkExtend_good (s e : Nat) (hse : GoodRange Q t s e) (added : List (Nat × Nat))
    (h : ∀ r ∈ added, GoodRange Q t r.1 r.2) :
    ∀ r ∈ addMarkExtend s e added, GoodRange Q t r.1 r.2 := by
  unfold addMarkExtend
  split
  · rename_i a b rest
    split
    · rename_i hc
      simp only [beq_iff_eq] at hc
      intro r hr
      rcases List.mem_cons.mp hr with rfl | hr
      · obtain ⟨g1, _, g3, _⟩ := h (a, b) (List.mem_cons_self ..)
        obtain ⟨k1, k2, _, k4⟩ := hse
        simp only at g1 g3 ⊢
        exact ⟨by omega, k2, g3, k4⟩
      · exact h r (List.mem_cons_of_mem _ hr)
    · intro r hr
      rcases List.mem_cons.mp hr with rfl | hr
      · exact hse
      · exact h r hr
  · intro r hr
    simp only [List.mem_singleton] at hr
    subst hr; exact hse

/-- the invariant of the `add_mark` walk -/
def AddStGood (st : AddSt) : Prop :=
  (∀ r ∈ st.removed, GoodRange Q t r.1 r.2.1) ∧ (∀ r ∈ st.added, GoodRange Q t r.1 r.2)

theorem addMarkVisit_good (S : Schema) (f : Nat) (m : Mark) (hft : f ≤ t) (hf : Q f) (ht : Q t)
    (st : AddSt) (v : NV) (hst : AddStGood Q t st) (hv : VisitQ Q f t v) :
    AddStGood Q t (addMarkVisit S f t m st v) := by
  have hr := visit_range Q f t hft hf ht v hv
  unfold addMarkVisit
  split
  · exact hst
  · simp only
    split
    · exact ⟨addMarkDisplace_fold_good Q t _ _ _ hr _ _ hst.1, addMarkExtend_good Q t _ _ hr _ hst.2⟩
    · exact hst

theorem addMarkVisit_fold_good (S : Schema) (f : Nat) (m : Mark) (hft : f ≤ t) (hf : Q f) (ht : Q t) :
    ∀ (vs : List NV) (st : AddSt), AddStGood Q t st → (∀ v ∈ vs, VisitQ Q f t v) →
    AddStGood Q t (vs.foldl (addMarkVisit S f t m) st)
  | [], st, h, _ => by simpa using h
  | v :: vs, st, h, hv => by
    simp only [List.foldl_cons]
    exact addMarkVisit_fold_good S f m hft hf ht vs _
      (addMarkVisit_good Q t S f m hft hf ht st v h (hv v (List.mem_cons_self ..)))
      (fun w hw => hv w (List.mem_cons_of_mem _ hw))

theorem AddSt.steps_good (m : Mark) (st : AddSt) (h : AddStGood Q t st) :
    ∀ s ∈ st.steps m, GoodStep Q t s := by
  intro s hs
  unfold AddSt.steps at hs
  rcases List.mem_append.mp hs with hs | hs
  · obtain ⟨r, hr, rfl⟩ := List.mem_map.mp hs
    exact ⟨r.1, r.2.1, r.2.2, .inr rfl, h.1 r (List.mem_reverse.mp hr)⟩
  · obtain ⟨r, hr, rfl⟩ := List.mem_map.mp hs
    exact ⟨r.1, r.2, m, .inl rfl, h.2 r (List.mem_reverse.mp hr)⟩

end AddFold

section RemoveFold
variable (Q : Nat → Prop) (t : Nat)

theorem removeMarkStyle_good (a e step : Nat) (hae : GoodRange Q t a e) (M : List Matched) (x : Mark)
    (h : ∀ r ∈ M, GoodRange Q t r.from_ r.to ∧ r.from_ ≤ a) :
    ∀ r ∈ removeMarkStyle a e step M x, GoodRange Q t r.from_ r.to ∧ r.from_ ≤ a := by
  unfold removeMarkStyle
  split
  · rename_i M' hM'
    obtain ⟨h1, _, _⟩ := updLast_some _ _ M M' hM'
    intro r hr
    rcases h1 r hr with hr | ⟨r0, hr0, _, rfl⟩
    · exact h r hr
    · obtain ⟨⟨_, _, g3, _⟩, g5⟩ := h r0 hr0
      obtain ⟨k1, k2, _, k4⟩ := hae
      exact ⟨⟨by simp only; omega, k2, g3, k4⟩, g5⟩
  · intro r hr
    rcases List.mem_append.mp hr with hr | hr
    · exact h r hr
    · simp only [List.mem_singleton] at hr
      subst hr
      exact ⟨hae, Nat.le_refl _⟩

theorem removeMarkStyle_fold_good (a e step : Nat) (hae : GoodRange Q t a e) :
    ∀ (xs : Marks) (M : List Matched), (∀ r ∈ M, GoodRange Q t r.from_ r.to ∧ r.from_ ≤ a) →
    ∀ r ∈ xs.foldl (removeMarkStyle a e step) M, GoodRange Q t r.from_ r.to ∧ r.from_ ≤ a
  | [], M, h => by simpa using h
  | x :: xs, M, h => by
    simp only [List.foldl_cons]
    exact removeMarkStyle_fold_good a e step hae xs _ (removeMarkStyle_good Q t a e step hae M x h)

/-- the fold of `remove_mark`: the entries of `matched` start at or before every node still to come
    (the walk is in document order), so extending one to the current node keeps it ordered -/
theorem removeMarkVisit_fold_good (S : Schema) (f : Nat) (sel : MarkSel) (hft : f ≤ t) (hf : Q f) (ht : Q t) :
    ∀ (vs : List NV) (st : List Matched × Nat),
    (∀ r ∈ st.1, GoodRange Q t r.from_ r.to ∧ ∀ w ∈ vs, r.from_ ≤ max w.pos f) →
    (∀ v ∈ vs, VisitQ Q f t v) → vs.Pairwise (fun v w => v.pos ≤ w.pos) →
    ∀ r ∈ (vs.foldl (removeMarkVisit S f t sel) st).1, GoodRange Q t r.from_ r.to
  | [], st, h, _, _ => by
    intro r hr
    exact (h r (by simpa using hr)).1
  | v :: vs, st, h, hv, hpw => by
    simp only [List.foldl_cons]
    obtain ⟨hpv, hpw'⟩ := List.pairwise_cons.mp hpw
    refine removeMarkVisit_fold_good S f sel hft hf ht vs _ ?_
      (fun w hw => hv w (List.mem_cons_of_mem _ hw)) hpw'
    have hr := visit_range Q f t hft hf ht v (hv v (List.mem_cons_self ..))
    unfold removeMarkVisit
    split
    · intro r hr'
      obtain ⟨g1, g2⟩ := h r hr'
      exact ⟨g1, fun w hw => g2 w (List.mem_cons_of_mem _ hw)⟩
    · intro r hr'
      simp only at hr'
      obtain ⟨g1, g2⟩ := removeMarkStyle_fold_good Q t _ _ _ hr _ st.1
        (fun r0 hr0 => ⟨(h r0 hr0).1, (h r0 hr0).2 v (List.mem_cons_self ..)⟩) r hr'
      refine ⟨g1, fun w hw => ?_⟩
      have := hpv w hw
      omega

end RemoveFold

/-! #### the two plans -/

/-- the visits of the document, as the folds need them: `Q` = in range and pair-aligned -/
theorem docVisits_visitQ (S : Schema) (doc : Node) (f t : Nat) :
    ∀ v ∈ S.docVisits doc f t,
      VisitQ (fun q => alignedAt doc.kids q = true) f t v := by
  intro v hv
  obtain ⟨_, h2, h3, _, h5, h6⟩ := nodesBetweenP_visitOK doc.kids _ f t 0 0 v hv
  simp only [Nat.sub_zero] at h2 h3 h5 h6
  exact ⟨h2, h3, h5, h6⟩

theorem docVisits_sorted (S : Schema) (doc : Node) (f t : Nat) :
    (S.docVisits doc f t).Pairwise (fun v w => v.pos ≤ w.pos) :=
  (nodesBetweenP_order doc.kids (S.tyOf doc) f t 0 0).2.imp (fun h => by omega)

/-- **every step `add_mark` plans** is an add/remove-mark step over `a ≤ b ≤ t` with pair-aligned ends -/
theorem planAddMarkSteps_good (S : Schema) (doc : Node) (f t : Nat) (m : Mark) (hft : f ≤ t)
    (hf : alignedAt doc.kids f = true) (ht : alignedAt doc.kids t = true) :
    ∀ s ∈ planAddMarkSteps S doc f t m, GoodStep (fun q => alignedAt doc.kids q = true) t s := by
  unfold planAddMarkSteps
  exact AddSt.steps_good _ t m _
    (addMarkVisit_fold_good _ t S f m hft hf ht _ _ ⟨by simp, by simp⟩ (docVisits_visitQ S doc f t))

/-- **every step `remove_mark` plans** is a remove-mark step over `a ≤ b ≤ t` with pair-aligned ends -/
theorem planRemoveMarkSteps_good (S : Schema) (doc : Node) (f t : Nat) (sel : MarkSel) (hft : f ≤ t)
    (hf : alignedAt doc.kids f = true) (ht : alignedAt doc.kids t = true) :
    ∀ s ∈ planRemoveMarkSteps S doc f t sel, GoodStep (fun q => alignedAt doc.kids q = true) t s := by
  unfold planRemoveMarkSteps
  intro s hs
  obtain ⟨r, hr, rfl⟩ := List.mem_map.mp hs
  exact ⟨r.from_, r.to, r.style, .inr rfl,
    removeMarkVisit_fold_good _ t S f sel hft hf ht _ _ (by simp) (docVisits_visitQ S doc f t)
      (docVisits_sorted S doc f t) r hr⟩

/-! ### 4. a list of mark steps over good ranges applies -/

/-- what every intermediate document of the operation satisfies, relative to the child list `K0` of
    the document the operation started from -/
structure DocInv (S : Schema) (K0 : List Node) (d : Node) : Prop where
  elem : ∃ ty a mk K, d = .elem ty a mk K
  valid : S.checkNode d = true
  norm : fnorm d.kids = true
  shape : (ftoks d.kids).map Tok.shape = (ftoks K0).map Tok.shape

theorem DocInv.size {S : Schema} {K0 : List Node} {d : Node} (h : DocInv S K0 d) :
    fsize d.kids = fsize K0 := by
  have := congrArg List.length h.shape
  simpa [ftoks_length] using this

theorem sameMarkup_elem (d' : Node) (ty : TypeId) (a : Attrs) (mk : Marks) (K : List Node)
    (h : d'.sameMarkup (.elem ty a mk K) = true) : ∃ K', d' = .elem ty a mk K' := by
  cases d' with
  | text s m => simp [Node.sameMarkup] at h
  | leaf t a' m => simp [Node.sameMarkup] at h
  | elem t a' m K' =>
    simp only [Node.sameMarkup, Bool.and_eq_true, beq_iff_eq] at h
    obtain ⟨⟨rfl, rfl⟩, rfl⟩ := h
    exact ⟨K', rfl⟩

theorem fromReplace_elem_kids (S : Schema) (ty : TypeId) (a : Attrs) (mk : Marks) (K K' : List Node)
    (f t : Nat) (sl : Slice) (h : S.fromReplace (.elem ty a mk K) f t sl = .ok (.elem ty a mk K')) :
    replaceKids S ty K f t sl = .ok K' := by
  unfold Schema.fromReplace Schema.replace at h
  simp only at h
  cases hr : replaceKids S ty K f t sl with
  | error e => simp [hr, Except.map] at h
  | ok K1 =>
    simp [hr, Except.map] at h
    rw [h]

/-- an applied add-mark step keeps the invariant -/
theorem addMark_keeps (S : Schema) (hts : TextStableP S) (K0 : List Node) (d d' : Node) (f t : Nat)
    (m : Mark) (hI : DocInv S K0 d) (h : S.apply (.addMark f t m) d = .ok d') : DocInv S K0 d' := by
  obtain ⟨htk, hsm⟩ := apply_addMark_toks S d d' f t m h
  obtain ⟨ty, a, mk, K, rfl⟩ := hI.elem
  obtain ⟨K', rfl⟩ := sameMarkup_elem d' ty a mk K hsm
  have h' := h
  unfold Schema.apply at h'
  simp only at h'
  split at h'
  · simp at h'
  · rename_i old hold
    split at h'
    · simp at h'
    · rename_i p hp
      refine ⟨⟨ty, a, mk, K', rfl⟩, ?_, ?_, ?_⟩
      · exact replace_valid S _ _ f t _ hI.valid
          (addMark_payload S hts m p _ _ _ (slice_openValid S _ f t old hI.valid hold)) h'
      · have hr := fromReplace_elem_kids S ty a mk K K' f t _ h'
        have hn := hI.norm
        simp only [Node.kids] at hn ⊢
        have hon := (sliceKids_norm _ f t old hn hold).1
        refine replaceKids_norm S _ _ f t _ _ hn ?_ hr
        simp only [addMarkKids_eq_map]
        exact fromArray_norm _ ((addMark_markMap S m).norm_list _ p (fnormKids_of_fnorm hon))
      · rw [htk, addMarkToks_shape]; exact hI.shape

/-- an applied remove-mark step keeps the invariant -/
theorem removeMark_keeps (S : Schema) (hts : TextStableP S) (K0 : List Node) (d d' : Node) (f t : Nat)
    (m : Mark) (hI : DocInv S K0 d) (h : S.apply (.removeMark f t m) d = .ok d') : DocInv S K0 d' := by
  obtain ⟨htk, hsm⟩ := apply_removeMark_toks S d d' f t m h
  obtain ⟨ty, a, mk, K, rfl⟩ := hI.elem
  obtain ⟨K', rfl⟩ := sameMarkup_elem d' ty a mk K hsm
  have h' := h
  unfold Schema.apply at h'
  simp only at h'
  split at h'
  · simp at h'
  · rename_i old hold
    refine ⟨⟨ty, a, mk, K', rfl⟩, ?_, ?_, ?_⟩
    · exact replace_valid S _ _ f t _ hI.valid
        (removeMark_payload S hts m _ _ _ (slice_openValid S _ f t old hI.valid hold)) h'
    · have hr := fromReplace_elem_kids S ty a mk K K' f t _ h'
      have hn := hI.norm
      simp only [Node.kids] at hn ⊢
      have hon := (sliceKids_norm _ f t old hn hold).1
      refine replaceKids_norm S _ _ f t _ _ hn ?_ hr
      simp only [removeMarkKids_eq_map]
      exact fromArray_norm _ ((removeMark_markMap S m).norm_list _ 0 (fnormKids_of_fnorm hon))
    · rw [htk, removeMarkToks_shape]; exact hI.shape

/-- **one mark step over a good range applies and keeps the invariant**; the ends are mark-blind
    aligned in the *original* child list `K0` -/
theorem markStep_total (S : Schema) (hts : TextLoop S) (K0 : List Node) (d : Node) (s : Step)
    (hI : DocInv S K0 d)
    (hs : GoodStep (fun q => unitAligned (ftoks K0) q = true) (fsize K0) s) :
    ∃ d', S.apply s d = .ok d' ∧ DocInv S K0 d' := by
  obtain ⟨a, b, x, hk, hab, hb, ha1, ha2⟩ := hs
  obtain ⟨ty, at_, mk, K, rfl⟩ := hI.elem
  have hsz := hI.size
  simp only [Node.kids] at hsz
  have hn := hI.norm
  simp only [Node.kids] at hn
  have hsh := hI.shape
  simp only [Node.kids] at hsh
  have al : ∀ q, unitAligned (ftoks K0) q = true → alignedAt K q = true := by
    intro q hq
    exact alignedAt_of_unit K q (by rw [unitAligned_shape _ _ hsh]; exact hq)
  rcases hk with rfl | rfl
  · obtain ⟨d', hd'⟩ := addMark_applies S hts ty at_ mk K a b x hI.valid hn hab (by omega) (al a ha1) (al b ha2)
    exact ⟨d', hd', addMark_keeps S hts.stable K0 _ d' a b x hI hd'⟩
  · obtain ⟨d', hd'⟩ := removeMark_applies S hts ty at_ mk K a b x hI.valid hn hab (by omega) (al a ha1) (al b ha2)
    exact ⟨d', hd', removeMark_keeps S hts.stable K0 _ d' a b x hI hd'⟩

/-- **a list of mark steps over good ranges applies**, and the invariant holds for the result -/
theorem stepAll_total (S : Schema) (hts : TextLoop S) (K0 : List Node) : ∀ (steps : List Step) (tr : Tr),
    DocInv S K0 tr.doc →
    (∀ s ∈ steps, GoodStep (fun q => unitAligned (ftoks K0) q = true) (fsize K0) s) →
    ∃ tr', tr.stepAll S steps = .ok tr' ∧ DocInv S K0 tr'.doc
  | [], tr, hI, _ => ⟨tr, rfl, hI⟩
  | s :: ss, tr, hI, hs => by
    obtain ⟨d', hd', hI'⟩ := markStep_total S hts K0 tr.doc s hI (hs s (List.mem_cons_self ..))
    obtain ⟨tr', h', hI''⟩ := stepAll_total S hts K0 ss (tr.addStep s d') hI'
      (fun s' hs' => hs s' (List.mem_cons_of_mem _ hs'))
    refine ⟨tr', ?_, hI''⟩
    simp only [Tr.stepAll, Tr.step, hd']
    exact h'

/-- good ranges in terms of `alignedAt` are good in terms of `unitAligned` when no text node ends in a
    high surrogate, and `t ≤ fsize` bounds them by the size -/
theorem GoodStep.to_unit (K0 : List Node) (t : Nat) (s : Step) (hc : pairClosedKids K0 = true)
    (ht : t ≤ fsize K0) (h : GoodStep (fun q => alignedAt K0 q = true) t s) :
    GoodStep (fun q => unitAligned (ftoks K0) q = true) (fsize K0) s := by
  obtain ⟨a, b, x, hk, hab, hb, ha1, ha2⟩ := h
  exact ⟨a, b, x, hk, hab, by omega, unit_of_alignedAt K0 a hc ha1, unit_of_alignedAt K0 b hc ha2⟩

/-! #### the two operations -/

theorem isLeaf_false_elem (d : Node) (h : d.isLeaf = false) : ∃ ty a mk K, d = .elem ty a mk K := by
  cases d with
  | text s m => simp [Node.isLeaf] at h
  | leaf t a m => simp [Node.isLeaf] at h
  | elem t a m K => exact ⟨t, a, m, K, rfl⟩

theorem DocInv.init (S : Schema) (d : Node) (hdoc : d.isLeaf = false) (hv : S.checkNode d = true)
    (hn : fnorm d.kids = true) : DocInv S d.kids d :=
  ⟨isLeaf_false_elem d hdoc, hv, hn, rfl⟩

/-- **`Transform.add_mark` goes through**, and validity, normal form and token shapes are kept -/
theorem addMark_total_inv (S : Schema) (hts : TextLoop S) (tr : Tr) (f t : Nat) (m : Mark)
    (hdoc : tr.doc.isLeaf = false) (hv : S.checkNode tr.doc = true) (hn : fnorm tr.doc.kids = true)
    (hc : pairClosedKids tr.doc.kids = true) (hft : f ≤ t) (ht : t ≤ fsize tr.doc.kids)
    (haf : alignedAt tr.doc.kids f = true) (hat : alignedAt tr.doc.kids t = true) :
    ∃ tr', tr.addMark S f t m = .ok tr' ∧ DocInv S tr.doc.kids tr'.doc := by
  unfold Tr.addMark planAddMark
  rw [if_neg (by omega)]
  exact stepAll_total S hts tr.doc.kids _ tr (DocInv.init S tr.doc hdoc hv hn)
    (fun s hs => GoodStep.to_unit _ t s hc ht (planAddMarkSteps_good S tr.doc f t m hft haf hat s hs))

/-- **`Transform.remove_mark` goes through**, and validity, normal form and token shapes are kept -/
theorem removeMark_total_inv (S : Schema) (hts : TextLoop S) (tr : Tr) (f t : Nat) (sel : MarkSel)
    (hdoc : tr.doc.isLeaf = false) (hv : S.checkNode tr.doc = true) (hn : fnorm tr.doc.kids = true)
    (hc : pairClosedKids tr.doc.kids = true) (hft : f ≤ t) (ht : t ≤ fsize tr.doc.kids)
    (haf : alignedAt tr.doc.kids f = true) (hat : alignedAt tr.doc.kids t = true) :
    ∃ tr', tr.removeMark S f t sel = .ok tr' ∧ DocInv S tr.doc.kids tr'.doc := by
  unfold Tr.removeMark planRemoveMark
  rw [if_neg (by omega)]
  exact stepAll_total S hts tr.doc.kids _ tr (DocInv.init S tr.doc hdoc hv hn)
    (fun s hs => GoodStep.to_unit _ t s hc ht (planRemoveMarkSteps_good S tr.doc f t sel hft haf hat s hs))

end PM
