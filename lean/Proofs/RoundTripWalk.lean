/-
  Proofs/RoundTripWalk.lean — the walk over the canonical DOM of a mark-free document gives the document back
  (induction over the document), and the serializer's output converts to that canonical DOM.
-/
import Proofs.RoundTrip
import Proofs.Dom
namespace PM.RoundTrip
open PM PM.Dom PM.FromDom PM.DomWalk

/-! ### what `rtOk` says about an emitted element -/

theorem nodeRule_spec (R : RParser) (t : TypeId) (a : Attrs) (name : List Char) (sattrs : List (List Char × Option (List Char)))
    (pw : WS) (h : nodeRule R t a name sattrs = some pw) :
    tagUsable (lowerName name) (renderedAttrs sattrs) = true ∧
    ∃ r ra, firstRule R (lowerName name) (renderedAttrs sattrs) = some (r, ra) ∧ straight r = true ∧
      r.node = some (some t) ∧ computeAttrs (R.P.S.nodeType t).attrs (ra.getD []) = .ok a ∧ r.preserveWs = pw := by
  unfold nodeRule at h
  simp only at h
  split at h
  · cases h
  · rename_i hu
    simp only [Bool.not_eq_true, Bool.not_eq_false'] at hu
    refine ⟨by simpa using hu, ?_⟩
    split at h
    · rename_i r ra hf
      split at h
      · rename_i hc
        simp only [Bool.and_eq_true, beq_iff_eq] at hc
        refine ⟨r, ra, hf, hc.1.1, hc.1.2, ?_, by simpa using h⟩
        have := hc.2
        unfold attrsEq at this
        split at this
        · rename_i b hb; rw [hb]; simp at this; rw [this]
        · cases this
      · cases h
    · cases h

theorem candsFrom_kind (tag : String) (attrs : List (String × List Char)) : ∀ (sel : List Sel) (i : Nat) (c : CandInfo × List DNode),
    c ∈ candsFrom tag attrs sel i → c.1.kind = .children
  | [], _, _, h => by simp [candsFrom] at h
  | s :: rest, i, c, h => by
    unfold candsFrom at h
    split at h
    · rcases List.mem_cons.1 h with rfl | h
      · rfl
      · exact candsFrom_kind tag attrs rest (i + 1) c h
    · exact candsFrom_kind tag attrs rest (i + 1) c h

/-- `match_tag` picks the first candidate, whatever the open ancestors -/
theorem firstRule_matchTag (R : RParser) (tag : String) (attrs : List (String × List Char)) (r : TagRule) (ra : Option Attrs)
    (h : firstRule R tag attrs = some (r, ra)) (stack : List TypeId) :
    ∃ m, matchTag R.P stack (candsFrom tag attrs R.sel 0) 0 = .ok (some m) ∧ m.rule = r ∧ m.attrs = ra ∧
      m.info.kind = .children := by
  unfold firstRule at h
  cases hc : candsFrom tag attrs R.sel 0 with
  | nil => rw [hc] at h; simp at h
  | cons c rest =>
    obtain ⟨ci, alt⟩ := c
    rw [hc] at h
    simp only [List.head?_cons] at h
    have hk : ci.kind = .children := candsFrom_kind tag attrs R.sel 0 (ci, alt) (by rw [hc]; exact List.mem_cons_self)
    cases ht : R.P.tags[ci.idx]? with
    | none => rw [ht] at h; simp at h
    | some r' =>
      rw [ht] at h
      simp only at h
      split at h
      · cases h
      · rename_i hctx
        simp only [Bool.not_eq_true, Bool.not_eq_false'] at hctx
        cases hres : ci.ga.resolve r'.attrs with
        | skip => rw [hres] at h; simp at h
        | crash => rw [hres] at h; simp at h
        | use a' =>
          rw [hres] at h
          simp only [Option.some.injEq, Prod.mk.injEq] at h
          refine ⟨⟨ci.idx, r', a', ci, alt⟩, ?_, h.1, h.2, hk⟩
          unfold matchTag
          simp [ht, contextOk, hctx, hres]

theorem decideTag_straight (tag : String) (m : TagMatch) (hs : straight m.rule = true) (hi : ignoreTags.contains tag = false) :
    decideTag tag (some m) = .byRule m := by
  unfold straight at hs
  simp only [Bool.and_eq_true, Bool.not_eq_true'] at hs
  unfold decideTag
  simp only [hs.1.1.1, hs.1.1.2, hs.1.2, hi, Bool.or_self, Bool.false_eq_true, if_false]


/-! ### an element read back as a non-leaf node -/

/-- `cx'` is `cx` with another automaton state and content -/
def Rel (cx cx' : NodeCtx) : Prop := cx' = { cx with mtch := cx'.mtch, content := cx'.content }

theorem Rel.refl (cx : NodeCtx) : Rel cx cx := rfl

theorem Rel.trans {a b c : NodeCtx} (h1 : Rel a b) (h2 : Rel b c) : Rel a c := by
  unfold Rel at *
  rw [h2]; rw [h1]

/-- what the mark bookkeeping never touches -/
structure Stable (cx cx' : NodeCtx) : Prop where
  attrs : cx'.attrs = cx.attrs
  marks : cx'.marks = cx.marks
  opts : cx'.opts = cx.opts
  uid : cx'.uid = cx.uid

theorem Stable.refl (cx : NodeCtx) : Stable cx cx := ⟨rfl, rfl, rfl, rfl⟩
theorem Stable.trans {a b c : NodeCtx} (h1 : Stable a b) (h2 : Stable b c) : Stable a c :=
  ⟨h2.attrs.trans h1.attrs, h2.marks.trans h1.marks, h2.opts.trans h1.opts, h2.uid.trans h1.uid⟩

theorem Rel.stable {a b : NodeCtx} (h : Rel a b) : Stable a b := by
  unfold Rel at h
  exact ⟨by rw [h], by rw [h], by rw [h], by rw [h]⟩

theorem addDom_node (R : RParser) (w : WState) (base : List NodeCtx) (cx : NodeCtx) (ext : List NodeCtx) (c : List Node)
    (t : TypeId) (q q' : Nat) (tc : TypeId) (ra : Option Attrs) (a : Attrs) (tag : String) (attrs : List (String × List Char))
    (r : TagRule) (dkids : List DNode) (kids : List Node) (qe : Nat) (ptag : String) (prevBr : Bool)
    (hi : Inv R.P.S w base cx ext c) (hp : Plain R.P.S cx t q) (hpe : cx.pending = [])
    (hig : ignoreTags.contains tag = false)
    (hf : firstRule R tag attrs = some (r, ra)) (hs : straight r = true) (hr : r.node = some (some tc))
    (hnl : (R.P.S.nodeType tc).isLeaf = false) (hm : (R.P.S.dfa t).matchType q tc = some q')
    (ha : computeAttrs (R.P.S.nodeType tc).attrs (ra.getD []) = .ok a)
    (hnk : normKids R.P tag dkids = dkids)
    (hkids : ∀ w1, Inv R.P.S w1 (base ++ [{ cx with content := c, mtch := some q' }])
        (newCtx R.P tc ra r.preserveWs cx.opts w.st.fresh) [] [] →
      ∃ w2 N' ext', addAll R.P tag dkids false w1 = .ok w2 ∧
        Inv R.P.S w2 (base ++ [{ cx with content := c, mtch := some q' }]) N' ext' kids ∧
        Plain R.P.S N' tc qe ∧ Stable (newCtx R.P tc ra r.preserveWs cx.opts w.st.fresh) N')
    (hve : (R.P.S.dfa tc).validEnd qe = true)
    (hlast : lastOk (wsOptionsFor (R.P.wsPre tc) r.preserveWs cx.opts) kids = true) (hnorm : fnorm kids = true) :
    ∃ w3 ext3, addDom R.P ptag prevBr (.elem tag [] (candsFrom tag attrs R.sel 0) dkids) w = .ok w3 ∧
      Inv R.P.S w3 base { cx with content := c, mtch := some q' } ext3 (c ++ [.elem tc a [] kids]) := by
  obtain ⟨m, hmt, hmr, hma, hmk⟩ := firstRule_matchTag R tag attrs r ra hf w.stack
  have hinv := afterEnter_inv R.P w base cx ext c q' tc ra r.preserveWs (.enter tc ra r.preserveWs) hi
  obtain ⟨w2, N', ext', hall, hi2, hp2, hrel⟩ := hkids _ hinv.1
  have huid : N'.uid = w.st.fresh := by rw [hrel.uid]; rfl
  obtain ⟨w3, hclose, hn3, ho3, _⟩ := ruleClose_sync R.P w2 _ N' ext' hi2.nodes hi2.open_
    (fun x hx => by have := hi2.below x hx; simp; omega)
  have hcons : m.rule.consuming = true := by
    rw [hmr]; unfold straight at hs; simp only [Bool.and_eq_true] at hs; exact hs.2
  refine ⟨w3, N' :: ext', ?_, ?_⟩
  · rw [addDom]
    simp only [stylePre_nil R.P w cx hi.top]
    rw [addElement_eq]
    simp only [hmt, decideTag_straight tag m (by rw [hmr]; exact hs) hig, hmr, hma,
      ruleOpen_node R.P w base cx ext c t q q' tc ra a tag r hi hp hpe hr hnl hm ha]
    have hc2 : r.consuming = true := by rw [← hmr]; exact hcons
    simp only [Bool.false_eq_true, if_false, hc2, Bool.not_true, hmk, hnk, hall]
    rw [← huid, hclose]
    simp only [stylePost_nil]
  · have hfin : ({ N' with content := kids } : NodeCtx).finishNode R.P.S false tc = .ok (.elem tc a [] kids) := by
      refine finishNode_plain R.P.S ({ N' with content := kids } : NodeCtx) tc qe a hp2.mtch hp2.ty hve ?_ hp2.marks hnl ?_ hnorm
      · show computeAttrs _ (N'.attrs.getD []) = _
        rw [hrel.attrs]; exact ha
      · show lastOk N'.opts kids = true
        rw [hrel.opts]; exact hlast
    have hset := settles_cons R.P.S { cx with content := c, mtch := some q' } N' ext' kids tc _ hi2.settles hp2.ty hfin
    refine ⟨?_, ?_, hset, hi.below, ?_⟩
    · rw [hn3, hi2.nodes]; simp
    · rw [ho3]; simp
    · have h1 := hi2.below { cx with content := c, mtch := some q' } (by simp)
      have h2 := hi2.fresh
      have : w3.st.fresh = w2.st.fresh := by assumption
      rw [this]; exact Nat.lt_trans h1 h2


/-! ### leaves -/

def afterInsert (w : WState) (nodes : List NodeCtx) (e : Event) : WState :=
  { w with st := { w.st with nodes := nodes }, log := w.log ++ [e] }

theorem emit_insert (P : Parser) (w : WState) (base : List NodeCtx) (cx : NodeCtx) (ext : List NodeCtx) (c : List Node)
    (t : TypeId) (q q' : Nat) (node : Node)
    (hi : Inv P.S w base cx ext c) (hp : Plain P.S cx t q)
    (hm : (P.S.dfa t).matchType q (P.S.tyOf node) = some q') (hmk : node.marks = []) :
    emit P w (.insertNode node) =
      .ok (afterInsert w (base ++ [{ cx with content := c ++ [node], mtch := some q' }]) (.insertNode node), some true) ∧
    Inv P.S (afterInsert w (base ++ [{ cx with content := c ++ [node], mtch := some q' }]) (.insertNode node)) base
      { cx with content := c ++ [node], mtch := some q' } [] (c ++ [node]) := by
  constructor
  · unfold emit
    simp only [PState.step, insertNode_plain P.S P.wsPre w.st base cx ext c t q q' node hi.nodes hi.open_ hp hi.settles hm hmk,
      Except.map]
    rfl
  · exact ⟨rfl, hi.open_, settles_nil _ _, hi.below, hi.fresh⟩

theorem addDom_leaf (R : RParser) (w : WState) (base : List NodeCtx) (cx : NodeCtx) (ext : List NodeCtx) (c : List Node)
    (t : TypeId) (q q' : Nat) (tl : TypeId) (ra : Option Attrs) (a : Attrs) (tag : String) (attrs : List (String × List Char))
    (r : TagRule) (dkids : List DNode) (ptag : String) (prevBr : Bool)
    (hi : Inv R.P.S w base cx ext c) (hp : Plain R.P.S cx t q)
    (hig : ignoreTags.contains tag = false)
    (hf : firstRule R tag attrs = some (r, ra)) (hs : straight r = true) (hr : r.node = some (some tl))
    (hl : (R.P.S.nodeType tl).isLeaf = true) (hnt : (R.P.S.nodeType tl).isText = false)
    (hm : (R.P.S.dfa t).matchType q tl = some q')
    (ha : computeAttrs (R.P.S.nodeType tl).attrs (ra.getD []) = .ok a) :
    ∃ w', addDom R.P ptag prevBr (.elem tag [] (candsFrom tag attrs R.sel 0) dkids) w = .ok w' ∧
      Inv R.P.S w' base { cx with content := c ++ [.leaf tl a []], mtch := some q' } [] (c ++ [.leaf tl a []]) := by
  obtain ⟨m, hmt, hmr, hma, _⟩ := firstRule_matchTag R tag attrs r ra hf w.stack
  obtain ⟨hem, hinv⟩ := emit_insert R.P w base cx ext c t q q' (.leaf tl a []) hi hp hm rfl
  refine ⟨_, ?_, hinv⟩
  rw [addDom]
  simp only [stylePre_nil R.P w cx hi.top]
  rw [addElement_eq]
  simp only [hmt, decideTag_straight tag m (by rw [hmr]; exact hs) hig, hmr, hma]
  unfold ruleOpen ruleFirst
  simp only [hr, hl, hnt, Bool.not_true, Bool.false_eq_true, if_false, ha, hem, Option.getD_some, if_true, hinv.top]
  unfold ruleClose
  simp only [Bool.false_eq_true, if_false, stylePost_nil]


/-! ### the transparent inner element of `["pre", ["code", 0]]` -/

/-- no rule, inline tag: `add_element` walks the children in place -/
theorem addDom_transparentA (R : RParser) (w : WState) (base : List NodeCtx) (cx : NodeCtx) (c : List Node)
    (tag2 : String) (attrs2 : List (String × List Char)) (dkids : List DNode) (ptag : String) (prevBr : Bool)
    (Q : WState → Prop) (hQ : ∀ w2 : WState, Q w2 → ∀ b l, Q { w2 with st := { w2.st with needsBlock := b }, log := l })
    (hi : Inv R.P.S w base cx [] c)
    (hig : ignoreTags.contains tag2 = false) (hbr : (tag2 == "br") = false) (hlt : listTags.contains tag2 = false)
    (hc : candsFrom tag2 attrs2 R.sel 0 = []) (hb : blockTags.contains tag2 = false)
    (hkids : ∃ w2, addAll R.P tag2 dkids false w = .ok w2 ∧ Q w2) :
    ∃ w3, addDom R.P ptag prevBr (.elem tag2 [] (candsFrom tag2 attrs2 R.sel 0) dkids) w = .ok w3 ∧ Q w3 := by
  obtain ⟨w2, hall, hq⟩ := hkids
  have hnk : normKids R.P tag2 dkids = dkids := by
    simp only [normKids, hlt, Bool.false_and, Bool.false_eq_true, if_false]
  rw [addDom]
  simp only [stylePre_nil R.P w cx hi.top]
  rw [addElement_eq, hc]
  simp only [matchTag, decideTag, hig, Bool.false_eq_true, if_false, hnk]
  unfold blockOpen
  simp only [Bool.false_eq_true, if_false, hi.top, hb]
  cases hk : dkids.isEmpty with
  | true =>
    have : dkids = [] := by simpa using hk
    subst this
    rw [addAll] at hall
    cases hall
    refine ⟨w, ?_, hq⟩
    simp only [if_true, leafFallback, hi.top, hbr, Bool.false_and, Bool.false_eq_true, if_false, stylePost_nil]
  | false =>
    simp only [Bool.false_eq_true, if_false, hall]
    unfold blockClose
    simp only [Bool.false_eq_true, if_false, emit', emit, PState.step]
    refine ⟨_, ?_, hQ w2 hq w.st.needsBlock (w2.log ++ [Event.setNeedsBlock w.st.needsBlock])⟩
    simp only [stylePost_nil]


theorem createMark_ok (S : Schema) (mt : MarkTypeId) (a : Option Attrs) (n : Nat)
    (h : ∃ x, createMark S mt a 0 = .ok x) : ∃ mk nx, createMark S mt a n = .ok (mk, nx) ∧ mk.2.ty = mt := by
  obtain ⟨x, hx⟩ := h
  unfold createMark at hx ⊢
  simp only at hx ⊢
  cases hc : computeAttrs (S.markType mt).attrs (a.getD []) with
  | error e => rw [hc] at hx; cases hx
  | ok at' =>
    simp only
    split
    · exact ⟨_, _, rfl, rfl⟩
    · exact ⟨_, _, rfl, rfl⟩

theorem emit_addPending (P : Parser) (w : WState) (base : List NodeCtx) (cx : NodeCtx) (c : List Node) (mk : TMark)
    (hi : Inv P.S w base cx [] c) (hpe : cx.pending = []) :
    ∃ w1, emit' P w (.addPending mk) = .ok w1 ∧ Inv P.S w1 base { cx with pending := [mk] } [] c ∧
      w1.top = some { cx with pending := [mk] } := by
  have hx : w.st.nodes[w.st.open_]? = some cx := by rw [hi.nodes, hi.open_]; exact getElem?_base base cx []
  have hc : c = cx.content := settles_nil_inv _ _ _ hi.settles
  refine ⟨{ w with st := { w.st with nodes := base ++ [{ cx with pending := [mk] }] }, log := w.log ++ [.addPending mk] }, ?_, ?_, ?_⟩
  · unfold emit' emit
    simp only [PState.step, PState.addPendingMark, hx, findSameMark, hpe, List.find?_nil, Option.map_none, tAddToSet, tAddToSetAux,
      Option.getD_none, Bool.false_eq_true, if_false, List.nil_append, PState.setTop, Except.map]
    rw [hi.nodes, hi.open_, set_base]
  · refine ⟨rfl, hi.open_, ?_, hi.below, hi.fresh⟩
    rw [hc]; exact settles_nil _ _
  · unfold WState.top
    simp only [hi.open_]
    exact getElem?_base base _ []

theorem emit_removePending (P : Parser) (w : WState) (base : List NodeCtx) (cx : NodeCtx) (c : List Node) (mk : TMark)
    (hi : Inv P.S w base cx [] c) (hpe : cx.pending = [mk]) :
    ∃ w1, emit' P w (.removePending mk (w.idxOf cx.uid)) = .ok w1 ∧ Inv P.S w1 base { cx with pending := [] } [] c := by
  have hx : w.st.nodes[base.length]? = some cx := by rw [hi.nodes]; exact getElem?_base base cx []
  have hc : c = cx.content := settles_nil_inv _ _ _ hi.settles
  have hidx : w.idxOf cx.uid = some base.length := by
    unfold WState.idxOf
    rw [hi.nodes]
    exact findIdx?_base _ base cx [] (fun x hx => by have := hi.below x hx; simp; omega) (by simp)
  refine ⟨{ w with st := { w.st with nodes := base ++ [{ cx with pending := [] }] },
                   log := w.log ++ [.removePending mk (some base.length)] }, ?_, ?_⟩
  · unfold emit' emit
    simp only [hidx, PState.step, PState.removePendingMark, hi.open_, removePendingLoop, hx, NodeCtx.removePending, hpe,
      List.any_cons, beq_self_eq_true, List.any_nil, Bool.or_false, if_true, tRemoveFromSet, Except.map]
    rw [hi.nodes, set_base]
    simp
  · refine ⟨rfl, hi.open_, ?_, hi.below, hi.fresh⟩
    rw [hc]; exact settles_nil _ _


/-- a mark rule whose mark the node type does not allow: the mark stays pending while the children are walked and is
    taken off again -/
theorem addDom_transparentB (R : RParser) (w : WState) (base : List NodeCtx) (cx : NodeCtx) (c c2 : List Node)
    (t : TypeId) (q qe : Nat) (tag2 : String) (attrs2 : List (String × List Char)) (r : TagRule) (ra : Option Attrs)
    (mt : MarkTypeId) (dkids : List DNode) (ptag : String) (prevBr : Bool)
    (hi : Inv R.P.S w base cx [] c) (hpe : cx.pending = [])
    (hig : ignoreTags.contains tag2 = false) (hlt : listTags.contains tag2 = false)
    (hf : firstRule R tag2 attrs2 = some (r, ra)) (hs : straight r = true) (hrn : r.node = none)
    (hrm : r.mark = some (some mt)) (hcm : ∃ x, createMark R.P.S mt ra 0 = .ok x)
    (hkids : ∀ w1 mk, mk.2.ty = mt → Inv R.P.S w1 base { cx with pending := [mk] } [] c →
      ∃ w2 cx2, addAll R.P tag2 dkids false w1 = .ok w2 ∧ Inv R.P.S w2 base cx2 [] c2 ∧ Plain R.P.S cx2 t qe ∧
        Rel { cx with pending := [mk] } cx2) :
    ∃ w3 cx3, addDom R.P ptag prevBr (.elem tag2 [] (candsFrom tag2 attrs2 R.sel 0) dkids) w = .ok w3 ∧
      Inv R.P.S w3 base cx3 [] c2 ∧ Plain R.P.S cx3 t qe ∧ Rel cx cx3 := by
  obtain ⟨m, hmt, hmr, hma, hmk⟩ := firstRule_matchTag R tag2 attrs2 r ra hf w.stack
  obtain ⟨mk, nx, hcr, hty⟩ := createMark_ok R.P.S mt ra w.nextMark hcm
  have hiN : Inv R.P.S { w with nextMark := nx } base cx [] c := ⟨hi.nodes, hi.open_, hi.settles, hi.below, hi.fresh⟩
  obtain ⟨w1, hadd, hi1, htop1⟩ := emit_addPending R.P { w with nextMark := nx } base cx c mk hiN hpe
  obtain ⟨w2, cx2, hall, hi2, hp2, hrel⟩ := hkids w1 mk hty hi1
  have hpend2 : cx2.pending = [mk] := by rw [hrel]
  have huid2 : cx2.uid = cx.uid := by rw [hrel]
  obtain ⟨w3, hrem, hi3⟩ := emit_removePending R.P w2 base cx2 c2 mk hi2 hpend2
  have hnk : normKids R.P tag2 dkids = dkids := by
    simp only [normKids, hlt, Bool.false_and, Bool.false_eq_true, if_false]
  have hc2 : r.consuming = true := by unfold straight at hs; simp only [Bool.and_eq_true] at hs; exact hs.2
  refine ⟨w3, { cx2 with pending := [] }, ?_, hi3, ?_, ?_⟩
  · rw [addDom]
    simp only [stylePre_nil R.P w cx hi.top]
    rw [addElement_eq]
    simp only [hmt, decideTag_straight tag2 m (by rw [hmr]; exact hs) hig, hmr, hma]
    unfold ruleOpen ruleFirst
    simp only [hrn, hrm, hcr, hadd, htop1, Bool.false_eq_true, if_false, hc2, Bool.not_true, hmk, hnk, hall]
    unfold ruleClose
    simp only [Bool.false_eq_true, if_false]
    rw [← huid2, hrem]
    simp only [stylePost_nil]
  · exact ⟨hp2.ty, hp2.mtch, hp2.solid, (fun m hm => by simp at hm), hp2.active, hp2.marks, hp2.openLeft⟩
  · unfold Rel
    rw [hrel]
    simp [hpe]

end PM.RoundTrip
