/- Proofs/FitPayload.lean — payload validity (`openValid`) of the slice the Fitter emits when the loop of `fit`
   **places** nodes: closed slices of leaf / text nodes (`Slice.inlineLeaves`, the class of Proofs/FitInline.lean).

   The invariant `VInv` next to `FitLoopInv`: for a ghost level `g` (the deepest level whose open node is
   still the one `Fitter.__init__` put there), `placed` is a single chain of `g` nodes with canonical marks
   (`PureV`) down to the fragment of level `g`; from there on (`ValR`) every level has closed children that are
   valid up to the document's start spine, an open last child with canonical marks and the type of the next
   frontier entry, and — for the levels the Fitter opened — children whose marks the level's type allows and a
   match that is the state of the type's automaton after all of them (`LevelR`).  `close_frontier_node` turns
   such a level into a valid node (`ValR_close`: the filling leads to a valid end, `Closable`), opening a
   wrapper and adding the taken nodes are changes at the top level (`ValR_top`). -/
import Proofs.FitValid
import PM.FitGuards
import Proofs.OpGuardB
set_option linter.unusedVariables false
namespace PM

/-! ### the schema hypothesis `closableB` as a proposition -/

def Closable (S : Schema) : Prop :=
  ∀ w, w < S.nodes.size → (fillBeforeTypes S (S.dfa w) 0 [] true).isSome = true ∧
    ∀ q e, e ∈ (S.dfa w).edgesOf q → (fillBeforeTypes S (S.dfa w) e.2 [] true).isSome = true

theorem closable_of_B (S : Schema) (h : S.closableB = true) : Closable S := by
  intro w hw
  simp only [Schema.closableB, List.all_eq_true, List.mem_range, Bool.and_eq_true] at h
  refine ⟨(h w hw).1, ?_⟩
  intro q e he
  by_cases hq : q < (S.dfa w).size
  · exact (h w hw).2 q hq e he
  · have : (S.dfa w).edgesOf q = [] := by
      simp only [Dfa.edgesOf]
      rw [Array.getElem?_eq_none (by omega)]
    rw [this] at he; simp at he

/-- a state a run ends in is its start state or the target of an edge -/
theorem run_target (d : Dfa) : ∀ (l : List TypeId) (q0 q : Nat), d.run q0 l = some q →
    q = q0 ∨ ∃ q1 e, e ∈ d.edgesOf q1 ∧ e.2 = q
  | [], q0, q, h => by
    simp only [Dfa.run, Option.some.injEq] at h
    exact .inl h.symm
  | t :: ts, q0, q, h => by
    rw [Dfa.run_cons] at h
    cases hm : d.matchType q0 t with
    | none => rw [hm] at h; simp at h
    | some q' =>
      rw [hm] at h
      simp only [Option.bind_some] at h
      rcases run_target d ts q' q h with h1 | h1
      · exact .inr ⟨q0, (t, q'), Dfa.mem_of_matchType hm, h1.symm⟩
      · exact .inr h1

/-! ### fillers: valid and without marks -/

theorem fillOpt_nodes (S : Schema) (hdet : DetS S) (hleaf : PM.FromDom.LeafOk S) (d : Dfa) (q : Nat)
    (after : List TypeId) (toEnd : Bool) (ns : List Node) (h : fillOpt S d q after toEnd = .ok (some ns)) :
    ∀ n ∈ ns, S.checkNode n = true ∧ n.marks = [] := by
  have h' := liftRaise_ok h
  unfold fillBeforeNodes at h'
  split at h'
  · simp at h'
  · split at h'
    · simp at h'
    · rename_i tys _ _ r hr
      simp only [Option.some.injEq] at h'
      subst h'
      intro k hk
      have := mapM_option_forall (createAndFill S (S.nodes.size + 1))
        (fun b => S.checkNode b = true ∧ b.marks = [])
        (fun a b hb => ⟨(createAndFillO_valid S hdet hleaf _ a b hb).1, (createAndFillO_valid S hdet hleaf _ a b hb).2.1⟩)
        tys r hr k hk
      exact this

theorem fillOpt_some (S : Schema) (d : Dfa) (q : Nat) (h0 : (fillBeforeTypes S d q [] true).isSome = true)
    (add : Option (List Node)) (h : fillOpt S d q [] true = .ok add) : ∃ a, add = some a := by
  have h' := liftRaise_ok h
  unfold fillBeforeNodes at h'
  split at h'
  · rename_i hn
    rw [hn] at h0; simp at h0
  · split at h'
    · simp at h'
    · simp only [Option.some.injEq] at h'
      exact ⟨_, h'.symm⟩

/-! ### marks allowed by a type -/

def MarksOK (S : Schema) (ty : TypeId) (F : List Node) : Prop :=
  ∀ c ∈ F, (S.nodeType ty).allowsMarks c.marks = true

theorem allowsMarks_nil (nt : NodeType) : nt.allowsMarks [] = true := by
  simp [NodeType.allowsMarks]

theorem MarksOK_fappend (S : Schema) (ty : TypeId) (F X : List Node) (hF : MarksOK S ty F) (hX : MarksOK S ty X) :
    MarksOK S ty (fappend F X) := by
  unfold fappend
  cases X with
  | nil => exact hF
  | cons c rest =>
    simp only
    split
    · exact hX
    · intro x hx
      rcases List.mem_append.mp hx with hx | hx
      · exact addNode_marks (fun m => (S.nodeType ty).allowsMarks m = true) F c hF (hX c (by simp)) x hx
      · exact hX x (by simp [hx])

theorem MarksOK_fromArray (S : Schema) (ty : TypeId) (X : List Node) (hX : MarksOK S ty X) :
    MarksOK S ty (fromArray X) :=
  addNodes_marks (fun m => (S.nodeType ty).allowsMarks m = true) X [] (by simp) hX

theorem MarksOK_of_nil (S : Schema) (ty : TypeId) (X : List Node) (h : ∀ n ∈ X, n.marks = []) : MarksOK S ty X := by
  intro c hc
  rw [h c hc]
  exact allowsMarks_nil _

/-- a closed valid node behind a fragment that is valid up to its open start -/
theorem leftOpenValid_snoc (S : Schema) (x : Nat) (init : List Node) (n : Node)
    (h : leftOpenValid S x init = true) (hn : S.checkNode n = true) : leftOpenValid S x (init ++ [n]) = true := by
  cases x with
  | zero =>
    simp only [leftOpenValid] at h ⊢
    rw [checkKids_append]
    simp [h, hn]
  | succ x =>
    cases init with
    | nil => simp [leftOpenValid] at h
    | cons c rest =>
      cases c with
      | elem t a m k =>
        simp only [leftOpenValid, Bool.and_eq_true, List.cons_append] at h ⊢
        refine ⟨h.1, ?_⟩
        rw [checkKids_append]
        simp [h.2, hn]
      | text s m => simp [leftOpenValid] at h
      | leaf t a m => simp [leftOpenValid] at h

/-! ### the levels from the ghost level on -/

/-- what is known of a level the Fitter opened (`mk = true`): the type is one of the schema, all children carry
    marks the type allows, and the match is the state of the type's automaton after all of them -/
def LevelR (S : Schema) (mk : Bool) (it : FItem) (F : List Node) : Prop :=
  mk = true → it.ty < S.nodes.size ∧ MarksOK S it.ty F ∧
    ∃ q, it.st = some q ∧ (S.dfa it.ty).run 0 (S.types F) = some q

/-- no information on the levels (after the last `close_frontier_node`) -/
def LevelT (_mk : Bool) (_it : FItem) (_F : List Node) : Prop := True

/-- the levels of the frontier from the ghost level on, along the last-child chain of the fragment: `x` = how
    deep the fragment's *first* child is still open (the document's start spine, first level only), `mk` =
    the level was opened by the Fitter; `L` = what is recorded per level -/
def ValR (S : Schema) (L : Bool → FItem → List Node → Prop) : Bool → Nat → List FItem → List Node → Prop
  | _, _, [], _ => True
  | mk, x, it :: rest, F =>
    match rest with
    | [] => leftOpenValid S x F = true ∧ L mk it F
    | nxt :: _ => ∃ init t a m k, F = init ++ [.elem t a m k] ∧ t = nxt.ty ∧ leftOpenValid S x init = true ∧
        L mk it F ∧ canonicalMarks S m = true ∧ ValR S L true 0 rest k

/-- the per-level record does not look inside the last child -/
def LastStable (L : Bool → FItem → List Node → Prop) : Prop :=
  ∀ mk it init t a m k k', L mk it (init ++ [.elem t a m k]) → L mk it (init ++ [.elem t a m k'])

theorem LevelR_lastStable (S : Schema) : LastStable (LevelR S) := by
  intro mk it init t a m k k' h hmk
  obtain ⟨h1, h2, q, h3, h4⟩ := h hmk
  refine ⟨h1, ?_, q, h3, ?_⟩
  · intro c hc
    rcases List.mem_append.mp hc with hc | hc
    · exact h2 c (List.mem_append_left _ hc)
    · simp only [List.mem_singleton] at hc
      subst hc
      exact h2 (.elem t a m k) (by simp)
  · simpa [Schema.types, Schema.tyOf, Node.tyOr] using h4

theorem LevelT_lastStable : LastStable LevelT := by
  intro _ _ _ _ _ _ _ _ _
  trivial

theorem ValR_mono (S : Schema) {L L' : Bool → FItem → List Node → Prop} (hLL : ∀ mk it F, L mk it F → L' mk it F) :
    ∀ (fr : List FItem) (mk : Bool) (x : Nat) (F : List Node), ValR S L mk x fr F → ValR S L' mk x fr F
  | [], _, _, _, _ => trivial
  | [it], mk, x, F, h => ⟨h.1, hLL _ _ _ h.2⟩
  | it :: nxt :: rest, mk, x, F, ⟨init, t, a, m, k, h1, h2, h3, h4, h5, h6⟩ =>
    ⟨init, t, a, m, k, h1, h2, h3, hLL _ _ _ h4, h5, ValR_mono S hLL (nxt :: rest) true 0 k h6⟩

/-- **any change at the top level**: if adding `X` at the depth of the top entry turns a good top level into
    a good `newTail`, the whole stays good -/
theorem ValR_top (S : Schema) (L : Bool → FItem → List Node → Prop) (hL : LastStable L) (X : List Node)
    (top : FItem) (newTail : List FItem)
    (hty : ∀ x, newTail.head? = some x → x.ty = top.ty) (hne : newTail ≠ []) :
    ∀ (pre : List FItem) (mk : Bool) (x : Nat) (F r : List Node), addToFragment F pre.length X = .ok r →
    ValR S L mk x (pre ++ [top]) F →
    (∀ mk' x' F0, ValR S L mk' x' [top] F0 → ValR S L mk' x' newTail (fappend F0 X)) →
    ValR S L mk x (pre ++ newTail) r
  | [], mk, x, F, r, h, hv, hnew => by
    have := pure_ok h
    subst this
    simpa using hnew mk x F (by simpa using hv)
  | it :: pre', mk, x, F, r, h, hv, hnew => by
    simp only [List.length_cons] at h
    obtain ⟨nxt0, rest0, hp⟩ : ∃ nxt0 rest0, pre' ++ [top] = nxt0 :: rest0 := by
      cases pre' with
      | nil => exact ⟨top, [], rfl⟩
      | cons y ys => exact ⟨y, ys ++ [top], rfl⟩
    have hv' : ValR S L mk x (it :: nxt0 :: rest0) F := by rw [← hp]; exact hv
    obtain ⟨init, t, a, m, k, hF, ht, hl, hlev, hm, hk⟩ := hv'
    subst hF
    unfold addToFragment at h
    split at h
    · rename_i t' a' m' kids hlast
      have he : Node.elem t' a' m' kids = Node.elem t a m k := by
        simp only [List.getLast?_concat, Option.some.injEq] at hlast
        exact hlast.symm
      simp only [Node.elem.injEq] at he
      obtain ⟨e1, e2, e3, e4⟩ := he
      subst e1; subst e2; subst e3; subst e4
      obtain ⟨inner, hi, h⟩ := FM.bind_ok h
      have := pure_ok h
      subst this
      rw [← hp] at hk
      have hrec := ValR_top S L hL X top newTail hty hne pre' true 0 kids inner hi hk hnew
      obtain ⟨nxt2, rest2, hq, hnt⟩ : ∃ nxt2 rest2, pre' ++ newTail = nxt2 :: rest2 ∧ nxt2.ty = nxt0.ty := by
        cases pre' with
        | nil =>
          cases hn : newTail with
          | nil => exact absurd hn hne
          | cons y ys =>
            simp only [List.nil_append, List.cons.injEq] at hp
            refine ⟨y, ys, rfl, ?_⟩
            rw [hty y (by rw [hn]; rfl), hp.1]
        | cons y ys =>
          simp only [List.cons_append, List.cons.injEq] at hp
          exact ⟨y, ys ++ newTail, rfl, by rw [hp.1]⟩
      show ValR S L mk x (it :: (pre' ++ newTail)) _
      rw [hq] at hrec ⊢
      simp only [List.dropLast_concat]
      exact ⟨init, t', a', m', inner, rfl, by rw [hnt]; exact ht, hl, hL _ _ _ _ _ _ _ _ hlev, hm, hrec⟩
    · simp [throw, throwThe, MonadExceptOf.throw] at h

/-- **closing the top level** (a level the Fitter opened): when the filling `a` makes the children of the top
    node valid content of its type, the node is a valid closed child of the level below -/
theorem ValR_close (S : Schema) (top : FItem) (a : List Node)
    (hφ : ∀ k, LevelR S true top k → S.checkKids k = true →
      S.validContent top.ty (fappend k a) = true ∧ S.checkKids (fappend k a) = true) :
    ∀ (pre : List FItem) (par : FItem) (mk : Bool) (x : Nat) (F r : List Node),
    addToFragment F (pre.length + 1) a = .ok r → ValR S (LevelR S) mk x (pre ++ [par, top]) F →
    ValR S (LevelR S) mk x (pre ++ [par]) r
  | [], par, mk, x, F, r, h, hv => by
    obtain ⟨init, t, a0, m, k, hF, ht, hl, hlev, hm, hk⟩ := hv
    subst hF
    obtain ⟨hk1, hk2⟩ := hk
    simp only [leftOpenValid] at hk1
    simp only [List.length_nil, Nat.zero_add] at h
    unfold addToFragment at h
    split at h
    · rename_i t' a' m' kids hlast
      have he : Node.elem t' a' m' kids = Node.elem t a0 m k := by
        simp only [List.getLast?_concat, Option.some.injEq] at hlast
        exact hlast.symm
      simp only [Node.elem.injEq] at he
      obtain ⟨e1, e2, e3, e4⟩ := he
      subst e1; subst e2; subst e3; subst e4
      obtain ⟨inner, hi, h⟩ := FM.bind_ok h
      have := pure_ok h
      subst this
      have hi' : inner = fappend kids a := (pure_ok hi).symm
      subst hi'
      obtain ⟨hv1, hv2⟩ := hφ kids hk2 hk1
      simp only [List.dropLast_concat, List.nil_append]
      refine ⟨leftOpenValid_snoc S x init _ hl ?_, LevelR_lastStable S _ _ _ _ _ _ _ _ hlev⟩
      rw [checkNode_elem, ht]
      simp [hv1, hv2, hm]
    · simp [throw, throwThe, MonadExceptOf.throw] at h
  | it :: pre', par, mk, x, F, r, h, hv => by
    obtain ⟨nxt0, rest0, hp⟩ : ∃ nxt0 rest0, pre' ++ [par, top] = nxt0 :: rest0 := by
      cases pre' with
      | nil => exact ⟨par, [top], rfl⟩
      | cons y ys => exact ⟨y, ys ++ [par, top], rfl⟩
    have hv' : ValR S (LevelR S) mk x (it :: nxt0 :: rest0) F := by rw [← hp]; exact hv
    obtain ⟨init, t, a0, m, k, hF, ht, hl, hlev, hm, hk⟩ := hv'
    subst hF
    simp only [List.length_cons] at h
    unfold addToFragment at h
    split at h
    · rename_i t' a' m' kids hlast
      have he : Node.elem t' a' m' kids = Node.elem t a0 m k := by
        simp only [List.getLast?_concat, Option.some.injEq] at hlast
        exact hlast.symm
      simp only [Node.elem.injEq] at he
      obtain ⟨e1, e2, e3, e4⟩ := he
      subst e1; subst e2; subst e3; subst e4
      obtain ⟨inner, hi, h⟩ := FM.bind_ok h
      have := pure_ok h
      subst this
      rw [← hp] at hk
      have hrec := ValR_close S top a hφ pre' par true 0 kids inner hi hk
      obtain ⟨nxt2, rest2, hq, hnt⟩ : ∃ nxt2 rest2, pre' ++ [par] = nxt2 :: rest2 ∧ nxt2.ty = nxt0.ty := by
        cases pre' with
        | nil =>
          simp only [List.nil_append, List.cons.injEq] at hp
          exact ⟨par, [], rfl, by rw [hp.1]⟩
        | cons y ys =>
          simp only [List.cons_append, List.cons.injEq] at hp
          exact ⟨y, ys ++ [par], rfl, by rw [hp.1]⟩
      show ValR S (LevelR S) mk x (it :: (pre' ++ [par])) _
      rw [hq] at hrec ⊢
      simp only [List.dropLast_concat]
      exact ⟨init, t', a', m', inner, rfl, by rw [hnt]; exact ht, hl,
        LevelR_lastStable S _ _ _ _ _ _ _ _ hlev, hm, hrec⟩
    · simp [throw, throwThe, MonadExceptOf.throw] at h

/-- what `ValR` says of the open right side: `rightOpenValid` -/
theorem ValR_rightOpenValid (S : Schema) (L : Bool → FItem → List Node → Prop) :
    ∀ (fr : List FItem) (mk : Bool) (F : List Node), fr ≠ [] → ValR S L mk 0 fr F →
    rightOpenValid S (fr.length - 1) F = true
  | [], _, _, h, _ => absurd rfl h
  | [it], mk, F, _, hv => by
    simpa [rightOpenValid, leftOpenValid] using hv.1
  | it :: nxt :: rest, mk, F, _, ⟨init, t, a, m, k, hF, _, hl, _, hm, hk⟩ => by
    subst hF
    have ih := ValR_rightOpenValid S L (nxt :: rest) true k (by simp) hk
    simp only [List.length_cons, Nat.add_sub_cancel] at ih ⊢
    rw [rightOpenValid_snoc]
    simp only [leftOpenValid] at hl
    simp [hl, hm, ih]

/-- … and of both sides: `openValid` -/
theorem ValR_openValid (S : Schema) (L : Bool → FItem → List Node → Prop) :
    ∀ (fr : List FItem) (mk : Bool) (x : Nat) (F : List Node), fr ≠ [] → ValR S L mk x fr F →
    openValid S x (fr.length - 1) F = true
  | [], _, _, _, h, _ => absurd rfl h
  | [it], mk, x, F, _, hv => by
    simp only [List.length_singleton, Nat.sub_self]
    rw [openValid_zero_right]
    exact hv.1
  | it :: nxt :: rest, mk, x, F, _, ⟨init, t, a, m, k, hF, h2, hl, h4, hm, hk⟩ => by
    cases x with
    | zero =>
      rw [openValid_zero_left]
      exact ValR_rightOpenValid S L (it :: nxt :: rest) mk F (by simp) ⟨init, t, a, m, k, hF, h2, hl, h4, hm, hk⟩
    | succ x =>
      subst hF
      have ih := ValR_rightOpenValid S L (nxt :: rest) true k (by simp) hk
      simp only [List.length_cons, Nat.add_sub_cancel] at ih ⊢
      cases init with
      | nil => simp [leftOpenValid] at hl
      | cons c tl =>
        cases c with
        | elem t0 a0 m0 k0 =>
          simp only [leftOpenValid, Bool.and_eq_true] at hl
          have hr : rightOpenValid S (rest.length + 1) (tl ++ [.elem t a m k]) = true := by
            rw [rightOpenValid_snoc]
            simp [hl.2, hm, ih]
          cases tl with
          | nil =>
            simp only [List.nil_append] at hr
            simp only [List.cons_append, List.nil_append, openValid, hl.1.1, hl.1.2, hr, Bool.and_self]
          | cons y ys =>
            simp only [List.cons_append] at hr ⊢
            simp only [openValid, hl.1.1, hl.1.2, hr, Bool.and_self]
        | text s m0 => simp [leftOpenValid] at hl
        | leaf t0 a0 m0 => simp [leftOpenValid] at hl

/-! ### the invariant on the whole state -/

/-- `g` = the ghost level: `placed` is a chain of `g` of the document's nodes down to the fragment `G` of level
    `g`, whose first child is still open `D - g` levels (the document's start spine) -/
def VInv (S : Schema) (D g : Nat) (fr : List FItem) (placed : List Node) : Prop :=
  g ≤ D ∧ g < fr.length ∧ ∃ G, PureV S g placed G ∧ ValR S (LevelR S) false (D - g) (fr.drop g) G

theorem VInv_top (S : Schema) (D g : Nat) (X : List Node) (top : FItem) (newTail : List FItem)
    (hty : ∀ x, newTail.head? = some x → x.ty = top.ty) (hne : newTail ≠ [])
    (pre : List FItem) (placed p : List Node) (hg : g ≤ pre.length)
    (h : addToFragment placed pre.length X = .ok p) (hv : VInv S D g (pre ++ [top]) placed)
    (hnew : ∀ mk' x' F0, ValR S (LevelR S) mk' x' [top] F0 → ValR S (LevelR S) mk' x' newTail (fappend F0 X)) :
    VInv S D g (pre ++ newTail) p := by
  obtain ⟨h1, _, G, hp, hr⟩ := hv
  rw [List.drop_append_of_le_length hg] at hr
  obtain ⟨G', hG', hp'⟩ := addToFragment_pure S g (pre.length - g) placed G X p hp
    (by rw [show g + (pre.length - g) = pre.length by omega]; exact h)
  have hr' := ValR_top S (LevelR S) (LevelR_lastStable S) X top newTail hty hne (pre.drop g) false (D - g) G G'
    (by rw [List.length_drop]; exact hG') hr hnew
  refine ⟨h1, ?_, G', hp', ?_⟩
  · have : 1 ≤ newTail.length := by
      cases newTail with
      | nil => exact absurd rfl hne
      | cons _ _ => simp
    rw [List.length_append]; omega
  · rw [List.drop_append_of_le_length hg]; exact hr'

/-- the node `close_frontier_node` closes at a level the Fitter opened is valid -/
theorem close_top_valid (S : Schema) (hdet : DetS S) (hleaf : PM.FromDom.LeafOk S) (hts : TextStableP S)
    (hcl : Closable S) (top : FItem) (q : Nat) (hq : top.st = some q) (add : Option (List Node))
    (hadd : fillOpt S (S.dfa top.ty) q [] true = .ok add) (k : List Node) (hl : LevelR S true top k)
    (hk : S.checkKids k = true) :
    S.validContent top.ty (fappend k (add.getD [])) = true ∧ S.checkKids (fappend k (add.getD [])) = true := by
  obtain ⟨hty, hm, q0, hq0, hrun⟩ := hl rfl
  rw [hq] at hq0
  simp only [Option.some.injEq] at hq0
  subst hq0
  have hsome : (fillBeforeTypes S (S.dfa top.ty) q [] true).isSome = true := by
    rcases run_target _ _ _ _ hrun with h0 | ⟨q1, e, he, he2⟩
    · rw [h0]; exact (hcl top.ty hty).1
    · rw [← he2]; exact (hcl top.ty hty).2 q1 e he
  obtain ⟨a, rfl⟩ := fillOpt_some S _ q hsome add hadd
  simp only [Option.getD_some]
  have hn := fillOpt_nodes S hdet hleaf _ _ _ _ a hadd
  have hav : S.checkKids a = true := (checkKids_iff S a).2 (fun n hn' => (hn n hn').1)
  have htys := fillBeforeNodes_types S _ _ _ _ a (liftRaise_ok hadd)
  obtain ⟨_, q1, hrun1, hfin⟩ := fillBeforeTypes_sound S (S.dfa top.ty) (hdet top.ty) q [] true _ htys
  have hend : (S.dfa top.ty).validEnd q1 = true := by simpa [fillFinished, Dfa.run] using hfin
  have hr : (S.dfa top.ty).run 0 (S.types (fappend k a)) = some q1 := by
    apply run_fappend_some hts
    rw [Dfa.run_append, hrun]
    exact hrun1
  refine ⟨?_, fappend_checkKids S k a hk hav⟩
  simp only [Schema.validContent, Bool.and_eq_true, List.all_eq_true]
  refine ⟨?_, MarksOK_fappend S top.ty k a hm (MarksOK_of_nil S _ a (fun n hn' => (hn n hn').2))⟩
  unfold Dfa.accepts
  rw [hr]; exact hend

theorem list_two_last {α : Type} (l : List α) (h : 2 ≤ l.length) : ∃ A x y, l = (A ++ [x]) ++ [y] := by
  match hr : l.reverse with
  | [] => simp at hr; subst hr; simp at h
  | [y] =>
    have := congrArg List.length hr
    simp at this; omega
  | y :: x :: B =>
    refine ⟨B.reverse, x, y, ?_⟩
    have := congrArg List.reverse hr
    simpa using this

theorem list_one {α : Type} (l : List α) (h : l.length = 1) : ∃ x, l = [x] := by
  match l, h with
  | [x], _ => exact ⟨x, rfl⟩

/-- **`close_frontier_node` keeps the invariant** (the ghost level drops when a document level is closed) -/
theorem closeFrontierNode_vinv (S : Schema) (hdet : DetS S) (hleaf : PM.FromDom.LeafOk S) (hts : TextStableP S)
    (hcl : Closable S) (D g : Nat) (fr : List FItem) (placed : List Node) (hlen : 2 ≤ fr.length)
    (hsp : rspineOK (fr.length - 1) placed) (hv : VInv S D g fr placed) (r : List FItem × List Node)
    (h : closeFrontierNode S fr placed = .ok r) : VInv S D (min g (fr.length - 2)) r.1 r.2 := by
  obtain ⟨hgD, hgl, G, hp, hr⟩ := hv
  by_cases hgt : g = fr.length - 1
  · obtain ⟨it, hit⟩ := list_one (fr.drop g) (by rw [List.length_drop]; omega)
    rw [hit] at hr
    obtain ⟨b, hb⟩ : ∃ b, g = b + 1 := ⟨g - 1, by omega⟩
    subst hb
    obtain ⟨hl1, G', hp', hG'⟩ := closeFrontierNode_pureV S hdet hleaf fr placed b (D - (b + 1)) G (by omega) hp
      hr.1 r h
    have hmin : min (b + 1) (fr.length - 2) = b := by omega
    rw [hmin]
    refine ⟨by omega, by omega, G', hp', ?_⟩
    obtain ⟨it', hit'⟩ := list_one (r.1.drop b) (by rw [List.length_drop]; omega)
    rw [hit', show D - b = D - (b + 1) + 1 by omega]
    exact ⟨hG', fun hh => by cases hh⟩
  · have hmin : min g (fr.length - 2) = g := by omega
    rw [hmin]
    obtain ⟨A, par, top, hfr⟩ := list_two_last fr hlen
    subst hfr
    have hAl : ((A ++ [par]) ++ [top]).length = A.length + 2 := by simp
    rw [hAl] at hgl hgt hsp
    have hgA : g ≤ A.length := by omega
    have hdrop : ((A ++ [par]) ++ [top]).drop g = A.drop g ++ [par, top] := by
      rw [List.append_assoc, List.drop_append_of_le_length hgA]; rfl
    rw [hdrop] at hr
    have hsp' : rspineOK (A.length + 1) placed := hsp
    unfold closeFrontierNode at h
    simp only [List.getLast?_concat, List.dropLast_concat] at h
    obtain ⟨q, hq, h⟩ := FM.bind_ok h
    obtain ⟨add, hadd, h⟩ := FM.bind_ok h
    have hres : r.1 = A ++ [par] ∧ addToFragment placed (A.length + 1) (add.getD []) = .ok r.2 := by
      cases add with
      | none =>
        have := pure_ok h
        subst this
        exact ⟨rfl, addToFragment_nil _ _ hsp'⟩
      | some a =>
        simp only at h
        split at h
        · rename_i he
          have := pure_ok h
          subst this
          have : a = [] := by simpa using he
          subst this
          exact ⟨rfl, addToFragment_nil _ _ hsp'⟩
        · obtain ⟨p, hp2, h⟩ := FM.bind_ok h
          have := pure_ok h
          subst this
          refine ⟨rfl, ?_⟩
          simpa using hp2
    obtain ⟨hr1, hr2⟩ := hres
    obtain ⟨G', hG', hp'⟩ := addToFragment_pure S g (A.length + 1 - g) placed G _ r.2 hp
      (by rw [show g + (A.length + 1 - g) = A.length + 1 by omega]; exact hr2)
    have hclose := ValR_close S top (add.getD [])
      (fun k hk1 hk2 => close_top_valid S hdet hleaf hts hcl top q (getSt_ok hq) add hadd k hk1 hk2)
      (A.drop g) par false (D - g) G G'
      (by rw [List.length_drop, show A.length - g + 1 = A.length + 1 - g by omega]; exact hG') hr
    rw [hr1]
    refine ⟨hgD, by simp; omega, G', hp', ?_⟩
    rw [List.drop_append_of_le_length hgA]
    exact hclose

/-- `n` times `close_frontier_node` -/
theorem closeMany_vinv (S : Schema) (hdet : DetS S) (hf : FillersOK S) (hleaf : PM.FromDom.LeafOk S)
    (hts : TextStableP S) (hcl : Closable S) (D : Nat) : ∀ (n g : Nat) (fr : List FItem) (placed : List Node),
    n + 1 ≤ fr.length → FrOK fr → rspineOK (fr.length - 1) placed → VInv S D g fr placed →
    ∀ (r : List FItem × List Node), closeMany S n fr placed = .ok r →
    VInv S D (min g (fr.length - 1 - n)) r.1 r.2
  | 0, g, fr, placed, _, _, _, hv, r, h => by
    have := pure_ok h
    subst this
    have : min g (fr.length - 1 - 0) = g := by have := hv.2.1; omega
    rw [this]; exact hv
  | n + 1, g, fr, placed, hn, hfr, hsp, hv, r, h => by
    unfold closeMany at h
    obtain ⟨x, hx, h⟩ := FM.bind_ok h
    have hne : fr ≠ [] := by intro h0; subst h0; simp at hn
    obtain ⟨x', hx', hx1, hx2⟩ := closeFrontierNode_ok S hdet hf fr placed hfr hne hsp
    have hxx : x' = x := by rw [hx'] at hx; exact Except.ok.inj hx
    subst hxx
    have hv1 := closeFrontierNode_vinv S hdet hleaf hts hcl D g fr placed (by omega) hsp hv x' hx
    have hxl : x'.1.length = fr.length - 1 := by rw [hx1, List.length_dropLast]
    have := closeMany_vinv S hdet hf hleaf hts hcl D n _ x'.1 x'.2 (by omega) (by rw [hx1]; exact hfr.dropLast) hx2
      hv1 r h
    rw [hxl] at this
    rw [show min g (fr.length - 1 - (n + 1)) = min (min g (fr.length - 2)) (fr.length - 1 - 1 - n) by omega]
    exact this

/-! ### opening wrapper nodes, adding the taken nodes -/

theorem openFrontierNode_vinv (S : Schema) (hlab : LabelsOK S) (D g : Nat) (pre : List FItem) (top : FItem)
    (placed : List Node) (ty : TypeId) (q q' : Nat) (hq : top.st = some q)
    (hm : (S.dfa top.ty).matchType q ty = some q') (hleaf : (S.nodeType ty).isLeaf = false)
    (hg : g ≤ pre.length) (r : List FItem × List Node)
    (h : openFrontierNode S (pre ++ [top]) placed ty none [] = .ok r)
    (hv : VInv S D g (pre ++ [top]) placed) :
    r.1 = pre ++ [⟨top.ty, some q'⟩, ⟨ty, some 0⟩] ∧ VInv S D g r.1 r.2 := by
  unfold openFrontierNode at h
  simp only [List.length_append, List.length_singleton, Nat.add_sub_cancel] at h
  obtain ⟨top0, hgi, h⟩ := FM.bind_ok h
  have ht0 : top0 = top := by
    have := getItem_ok hgi
    simpa using this.symm
  subst ht0
  obtain ⟨q0, hgs, h⟩ := FM.bind_ok h
  have hq0 : q0 = q := by
    have := getSt_ok hgs
    rw [hq] at this
    simpa using this.symm
  subst hq0
  obtain ⟨node, hnode, h⟩ := FM.bind_ok h
  obtain ⟨p, hp, h⟩ := FM.bind_ok h
  have := pure_ok h
  subst this
  have hn : ∃ a, node = .elem ty a [] [] := by
    unfold Schema.createNodeO at hnode
    split at hnode
    · simp [throw, throwThe, MonadExceptOf.throw] at hnode
    · split at hnode
      · rename_i aa _
        have := pure_ok hnode
        subst this
        refine ⟨aa, ?_⟩
        unfold Schema.mkNodeO
        simp only [hleaf, Bool.false_eq_true, if_false]
      · simp [throw, throwThe, MonadExceptOf.throw] at hnode
  obtain ⟨a, rfl⟩ := hn
  have hfr : (pre ++ [top0]).set pre.length ⟨top0.ty, (S.dfa top0.ty).matchType q0 ty⟩ ++ [⟨ty, some 0⟩] =
      pre ++ [⟨top0.ty, some q'⟩, ⟨ty, some 0⟩] := by
    rw [hm]
    simp
  refine ⟨hfr, ?_⟩
  simp only [hfr]
  refine VInv_top S D g [.elem ty a [] []] top0 [⟨top0.ty, some q'⟩, ⟨ty, some 0⟩]
    (by intro x hx; simp at hx; rw [← hx]) (by simp) pre placed p hg hp hv ?_
  intro mk' x' F0 hF0
  obtain ⟨h1, h2⟩ := hF0
  rw [fappend_singleton_elem]
  refine ⟨F0, ty, a, [], [], rfl, rfl, h1, ?_, canonicalMarks_nil_fit S, ?_⟩
  · intro hmk
    obtain ⟨a1, a2, qq, a3, a4⟩ := h2 hmk
    refine ⟨a1, ?_, q', rfl, ?_⟩
    · intro c hc
      rcases List.mem_append.mp hc with hc | hc
      · exact a2 c hc
      · simp only [List.mem_singleton] at hc
        subst hc
        exact allowsMarks_nil _
    · rw [hq] at a3
      simp only [Option.some.injEq] at a3
      subst a3
      rw [types_append, Dfa.run_append, a4]
      simp only [Schema.types, List.map_cons, List.map_nil, Schema.tyOf, Node.tyOr, Option.bind_some]
      rw [Dfa.run_singleton]; exact hm
  · exact ⟨by simp [leftOpenValid], fun _ => ⟨hlab top0.ty q0 (ty, q') (Dfa.mem_of_matchType hm),
      by intro c hc; simp at hc, 0, rfl, rfl⟩⟩

theorem openMany_vinv (S : Schema) (hlab : LabelsOK S) (D g : Nat) : ∀ (ws : List TypeId)
    (pre : List FItem) (top : FItem) (placed : List Node) (q : Nat), top.st = some q →
    ChainFrom S (S.dfa top.ty) q ws → g ≤ pre.length → ∀ (r : List FItem × List Node),
    openMany S ws (pre ++ [top]) placed = .ok r → VInv S D g (pre ++ [top]) placed →
    VInv S D g r.1 r.2
  | [], pre, top, placed, q, _, _, _, r, h, hc => by
    have := pure_ok h
    subst this; exact hc
  | w :: ws, pre, top, placed, q, hq, ⟨hc1, hc2, hc3⟩, hg, r, h, hc => by
    unfold openMany at h
    obtain ⟨x, hx, h⟩ := FM.bind_ok h
    obtain ⟨q', hq'⟩ := Option.isSome_iff_exists.1 hc2
    have hleaf : (S.nodeType w).isLeaf = false := by
      simp only [Schema.wrappable, Bool.and_eq_true, Bool.not_eq_eq_eq_not, Bool.not_true] at hc1
      exact hc1.1
    obtain ⟨e1, e2⟩ := openFrontierNode_vinv S hlab D g pre top placed w q q' hq hq' hleaf hg x hx hc
    have e1' : x.1 = (pre ++ [⟨top.ty, some q'⟩]) ++ [⟨w, some 0⟩] := by rw [e1]; simp
    obtain ⟨x1, x2⟩ := x
    simp only at h e1' e2
    subst e1'
    exact openMany_vinv S hlab D g ws (pre ++ [⟨top.ty, some q'⟩]) ⟨w, some 0⟩ x2 0 rfl hc3
      (by simp; omega) r h e2

/-- adding `from_array(Xraw)` at the top level and setting the match to the state after `Xraw` -/
theorem addTaken_vinv (S : Schema) (hts : TextStableP S) (D g : Nat) (pre : List FItem) (top : FItem)
    (placed p : List Node) (q q' : Nat) (Xraw : List Node) (hq : top.st = some q)
    (hrun : (S.dfa top.ty).run q (S.types Xraw) = some q') (hXv : S.checkKids Xraw = true)
    (hXm : MarksOK S top.ty Xraw) (hg : g ≤ pre.length)
    (h : addToFragment placed pre.length (fromArray Xraw) = .ok p) (hv : VInv S D g (pre ++ [top]) placed) :
    VInv S D g (pre ++ [⟨top.ty, some q'⟩]) p := by
  refine VInv_top S D g (fromArray Xraw) top [⟨top.ty, some q'⟩]
    (by intro x hx; simp at hx; rw [← hx]) (by simp) pre placed p hg h hv ?_
  intro mk' x' F0 hF0
  obtain ⟨h1, h2⟩ := hF0
  refine ⟨leftOpenValid_fappend S x' F0 _ h1 (fromArray_checkKids S _ hXv), ?_⟩
  intro hmk
  obtain ⟨a1, a2, qq, a3, a4⟩ := h2 hmk
  rw [hq] at a3
  simp only [Option.some.injEq] at a3
  subst a3
  refine ⟨a1, MarksOK_fappend S _ F0 _ a2 (MarksOK_fromArray S _ _ hXm), q', rfl, ?_⟩
  apply run_fappend_some hts
  rw [Dfa.run_append, a4]
  exact run_fromArray_some hts _ _ _ _ hrun

theorem withMarks_marks (n : Node) (m : Marks) : (n.withMarks m).marks = m := by
  cases n <;> rfl

/-- the nodes the take loop adds from a closed slice: valid, with marks the frontier node's type allows -/
theorem takeLoop_valid0 (S : Schema) (d : Dfa) (fty : TypeId) (oec : Int) (total : Nat) :
    ∀ (rest : List Node) (taken q : Nat) (add : List Node) (tk : Nat × Nat × List Node),
    takeLoop S d fty 0 oec total rest taken q add = .ok tk → (∀ n ∈ rest, S.checkNode n = true) →
    S.checkKids add = true → MarksOK S fty add → S.checkKids tk.2.2 = true ∧ MarksOK S fty tk.2.2
  | [], taken, q, add, tk, h, _, h1, h2 => by
    have := pure_ok h
    subst this
    exact ⟨h1, h2⟩
  | next :: rest', taken, q, add, tk, h, hr, h1, h2 => by
    unfold takeLoop at h
    split at h
    · have := pure_ok h
      subst this
      exact ⟨h1, h2⟩
    · rename_i q' hm
      simp only at h
      split at h
      · obtain ⟨n, hn, h⟩ := FM.bind_ok h
        have hn' : n = next.withMarks ((S.nodeType fty).allowedMarks next.marks) := by
          simp only [ite_self] at hn
          exact (pure_ok hn).symm
        subst hn'
        refine takeLoop_valid0 S d fty oec total rest' _ q' _ tk h (fun x hx => hr x (by simp [hx])) ?_ ?_
        · rw [checkKids_append]
          simp [h1, checkNode_withMarks_allowed S (S.nodeType fty) next (hr next (by simp))]
        · intro c hc
          rcases List.mem_append.mp hc with hc | hc
          · exact h2 c hc
          · simp only [List.mem_singleton] at hc
            subst hc
            rw [withMarks_marks]
            exact allowsMarks_allowedMarks _ _
      · exact takeLoop_valid0 S d fty oec total rest' _ q _ tk h (fun x hx => hr x (by simp [hx])) h1 h2

/-! ### `place_nodes` on a closed slice of leaf nodes keeps the invariant (the proof of `placeNodes_ok`,
    Proofs/FitInline.lean, with the validity bookkeeping next to it) -/

theorem placeNodes_ok_vinv (S : Schema) (hdet : DetS S) (hf : FillersOK S) (hw : WrapOK S) (hlab : LabelsOK S)
    (hleaf : PM.FromDom.LeafOk S) (hts : TextStableP S) (hcl : Closable S) (D g : Nat)
    (st : FitState) (inv : FitLoopInv S D st) (hv : VInv S D g st.frontier st.placed)
    (hu : ∀ n ∈ st.unplaced.content, S.checkNode n = true)
    (f : Fittable) (hfit : findFittable S st = .ok (some f)) :
    ∃ st', placeNodes S st f = .ok st' ∧ FitLoopInv S D st' ∧
      VInv S D (min g f.frontierDepth) st'.frontier st'.placed ∧
      (∀ n ∈ st'.unplaced.content, n ∈ st.unplaced.content) := by
  obtain ⟨lvl, it, hsd, hlvl, hpar, hit, kind, _⟩ := findFittable_kind S st f hfit
  have hsd0 : f.sliceDepth = 0 := by have := inv.os0; omega
  rw [hsd0] at hlvl
  have hlvl' : lvl = (none, st.unplaced.content) := by
    rcases sliceLevel_ok hlvl with ⟨_, h⟩ | ⟨h, _⟩
    · exact h
    · omega
  subst hlvl'
  simp only at hpar kind
  have hfragment : f.fragment st.unplaced = st.unplaced.content := by
    unfold Fittable.fragment; rw [hpar]
  have hfdlt : f.frontierDepth < st.frontier.length := by
    rcases Nat.lt_or_ge f.frontierDepth st.frontier.length with h1 | h1
    · exact h1
    · rw [List.getElem?_eq_none h1] at hit; simp at hit
  obtain ⟨q, hq⟩ := inv.frok it (List.mem_of_getElem? hit)
  -- closing down to the fittable's depth
  obtain ⟨c1, hc1, hc1f, hc1s⟩ := closeMany_ok S hdet hf (st.frontier.length - 1 - f.frontierDepth)
    st.frontier st.placed inv.frok (by omega) inv.sp
  have hc1sz := closeMany_size S _ _ _ c1 hc1
  have hc1f' : c1.1 = st.frontier.take (f.frontierDepth + 1) := by
    rw [hc1f]; congr 1; omega
  have hc1len : c1.1.length = f.frontierDepth + 1 := by
    rw [hc1f', List.length_take]; omega
  have hc1ok : FrOK c1.1 := by rw [hc1f']; exact inv.frok.take _
  have hc1it : c1.1[f.frontierDepth]? = some it := by
    rw [hc1f', List.getElem?_take_of_lt (by omega)]; exact hit
  have hc1last : c1.1.getLast? = some it := by
    rw [List.getLast?_eq_getElem?, hc1len, Nat.add_sub_cancel]; exact hc1it
  let pre := st.frontier.take f.frontierDepth
  have hprelen : pre.length = f.frontierDepth := by
    simp only [pre, List.length_take]; omega
  have hc1f'' : c1.1 = pre ++ [it] := by
    rw [hc1f']
    exact take_succ_of_getElem? _ _ _ hit
  have hv1 : VInv S D (min g f.frontierDepth) c1.1 c1.2 := by
    have := closeMany_vinv S hdet hf hleaf hts hcl D _ g st.frontier st.placed (by omega) inv.frok inv.sp hv c1 hc1
    rwa [show st.frontier.length - 1 - (st.frontier.length - 1 - f.frontierDepth) = f.frontierDepth by omega] at this
  -- the wrappers (if any) are opened
  have hchain : ChainFrom S (S.dfa it.ty) q (f.wrap.getD []) := by
    cases kind with
    | direct _ _ _ _ _ _ hwn => rw [hwn]; trivial
    | inject _ _ _ _ _ _ _ hwn => rw [hwn]; trivial
    | empty _ _ _ _ hwn => rw [hwn]; trivial
    | wrap fst q' w hfst hq' hfw _ hwn =>
      rw [hwn]
      rw [hq] at hq'
      simp only [Option.some.injEq] at hq'
      subst hq'
      exact findWrappingTypes_chain S _ _ _ w hfw
  obtain ⟨c2, hc2, hc2ok, hc2len, hc2s, hc2sz, hc2pre, hc2top⟩ :=
    openMany_ok S hw (f.wrap.getD []) c1.1 c1.2 it q hc1last hq hchain hc1ok hc1s
  rw [hc1len] at hc2len hc2top
  simp only [Nat.add_sub_cancel] at hc2top
  have hv2 : VInv S D (min g f.frontierDepth) c2.1 c2.2 :=
    openMany_vinv S hlab D _ (f.wrap.getD []) pre it c1.2 q hq hchain (by rw [hprelen]; omega) c2
      (by rw [← hc1f'']; exact hc2) (by rw [← hc1f'']; exact hv1)
  -- the frontier item the take loop starts from
  have hitem : ∃ item q0, c2.1[f.frontierDepth]? = some item ∧ item.st = some q0 ∧ item.ty = it.ty ∧
      (f.wrap.getD [] = [] → item = it ∧ q0 = q) ∧
      (∀ w0 rest, f.wrap.getD [] = w0 :: rest → (S.dfa it.ty).matchType q w0 = some q0) := by
    cases hws : f.wrap.getD [] with
    | nil =>
      rw [hws] at hc2
      have := pure_ok hc2
      subst this
      exact ⟨it, q, hc1it, hq, rfl, fun _ => ⟨rfl, rfl⟩, fun _ _ h => by simp at h⟩
    | cons w0 rest =>
      have htop := hc2top w0 rest hws
      rw [hws] at hchain
      obtain ⟨q', hq'⟩ := Option.isSome_iff_exists.1 hchain.2.1
      refine ⟨_, q', htop, by simp [hq'], rfl, fun h => by simp at h, ?_⟩
      intro w0' rest' h
      simp only [List.cons.injEq] at h
      rw [← h.1]; exact hq'
  obtain ⟨item, q0, hitem, hitq, hitty, hq0nil, hq0cons⟩ := hitem
  have hfdlt2 : f.frontierDepth < c2.1.length := by rw [hc2len]; omega
  -- the filling in front (pass 1) runs from the item's state
  have hrun : ∃ q1, (S.dfa item.ty).run q0 (S.types (f.inject.getD [])) = some q1 := by
    cases kind with
    | direct _ _ _ _ _ hinj _ => rw [hinj]; exact ⟨q0, rfl⟩
    | empty _ _ _ hinj _ => rw [hinj]; exact ⟨q0, rfl⟩
    | wrap _ _ _ _ _ _ hinj _ => rw [hinj]; exact ⟨q0, rfl⟩
    | inject fst q' inj hfst hq' hfill hinj hwn =>
      rw [hinj, hitty]
      have hq0 : q0 = q := (hq0nil (by rw [hwn]; rfl)).2
      rw [hq] at hq'
      simp only [Option.some.injEq] at hq'
      subst hq'; subst hq0
      have htys := fillBeforeNodes_types S _ _ _ _ inj (liftRaise_ok hfill)
      obtain ⟨q1, hr, _⟩ := fillBeforeTypes_one S _ (hdet it.ty) q0 (S.tyOf fst) _ htys
      exact ⟨q1, hr⟩
  obtain ⟨q1, hq1⟩ := hrun
  -- the take loop
  obtain ⟨tk, htk⟩ := takeLoop_ok0 S (S.dfa item.ty) item.ty (f.oec0 st.unplaced) st.unplaced.content.length
    st.unplaced.content 0 q1 (f.inject.getD [])
  -- with wrappers opened nothing is taken at the frontier level itself
  have hwrap_nothing : ∀ w0 rest, f.wrap.getD [] = w0 :: rest → tk.2.2 = [] ∧ tk.2.1 = q0 := by
    intro w0 rest hws
    cases kind with
    | direct _ _ _ _ _ _ hwn => rw [hwn] at hws; simp at hws
    | inject _ _ _ _ _ _ _ hwn => rw [hwn] at hws; simp at hws
    | empty _ _ _ _ hwn => rw [hwn] at hws; simp at hws
    | wrap fst q' w hfst hq' hfw hinj hwn =>
      rw [hwn] at hws
      simp only [Option.getD_some] at hws
      subst hws
      rw [hq] at hq'
      simp only [Option.some.injEq] at hq'
      subst hq'
      obtain ⟨rest', hl2⟩ : ∃ rest', st.unplaced.content = fst :: rest' := by
        cases hl : st.unplaced.content with
        | nil => rw [hl] at hfst; simp at hfst
        | cons a l => rw [hl] at hfst; simp at hfst; subst hfst; exact ⟨l, rfl⟩
      have hm0 := hq0cons w0 rest (by rw [hwn]; rfl)
      have hnm := hw.2 it.ty q (S.tyOf fst) w0 rest q0 (inv.tys fst (by rw [hl2]; simp)) hfw hm0
      have hq1' : q1 = q0 := by
        rw [hinj] at hq1
        simpa [Schema.types, Dfa.run] using hq1.symm
      rw [hl2, hinj, hq1', hitty, takeLoop_nomatch S _ _ _ _ _ fst rest' 0 q0 _ hnm] at htk
      have := pure_ok htk
      rw [← this]
      exact ⟨rfl, rfl⟩
  -- adding what was taken
  have hadd : ∃ p, addToFragment c2.2 f.frontierDepth (fromArray tk.2.2) = .ok p ∧
      rspineOK (c2.1.length - 1) p ∧ fsize c2.2 ≤ fsize p ∧
      (∀ w0 rest, f.wrap.getD [] = w0 :: rest → p = c2.2) := by
    cases hws : f.wrap.getD [] with
    | nil =>
      have hl : c2.1.length - 1 = f.frontierDepth := by rw [hc2len, hws]; simp
      rw [hl] at hc2s ⊢
      obtain ⟨p, hp, hps, _⟩ := addToFragment_ok f.frontierDepth c2.2 (fromArray tk.2.2) hc2s
      have := addToFragment_size _ _ _ _ hp
      exact ⟨p, hp, hps, by omega, fun _ _ h => by simp at h⟩
    | cons w0 rest =>
      rw [(hwrap_nothing w0 rest hws).1]
      have hsp' : rspineOK f.frontierDepth c2.2 := rspineOK_le _ _ _ (by omega) hc2s
      exact ⟨c2.2, addToFragment_nil _ _ hsp', hc2s, Nat.le_refl _, fun _ _ _ => rfl⟩
  obtain ⟨p, hp, hps, hpsz, hpw⟩ := hadd
  have hvfin : VInv S D (min g f.frontierDepth) (c2.1.set f.frontierDepth ⟨item.ty, some tk.2.1⟩) p := by
    cases hws : f.wrap.getD [] with
    | cons w0 rest =>
      obtain ⟨e1, e2⟩ := hwrap_nothing w0 rest hws
      rw [hpw w0 rest hws, e2]
      have : (⟨item.ty, some q0⟩ : FItem) = item := by
        cases item with
        | mk ty st => simp only at hitq; rw [hitq]
      rw [this, set_self_of_getElem? _ _ _ hitem]
      exact hv2
    | nil =>
      obtain ⟨hie, hqe⟩ := hq0nil hws
      have hc2e : c2 = c1 := by
        rw [hws] at hc2
        exact (pure_ok hc2).symm
      obtain ⟨added, ha1, ha2⟩ := takeLoop_run S _ _ _ _ _ _ _ _ _ tk htk
      have hrun : (S.dfa item.ty).run q0 (S.types tk.2.2) = some tk.2.1 := by
        rw [ha1, types_append, Dfa.run_append, hq1]
        exact ha2
      have hinjv : S.checkKids (f.inject.getD []) = true ∧ MarksOK S item.ty (f.inject.getD []) := by
        cases kind with
        | direct _ _ _ _ _ hinj _ => rw [hinj]; exact ⟨by simp, by intro c hc; simp at hc⟩
        | empty _ _ _ hinj _ => rw [hinj]; exact ⟨by simp, by intro c hc; simp at hc⟩
        | wrap _ _ _ _ _ _ hinj _ => rw [hinj]; exact ⟨by simp, by intro c hc; simp at hc⟩
        | inject fst q' inj hfst hq' hfill hinj hwn =>
          rw [hinj]
          simp only [Option.getD_some]
          have hn := fillOpt_nodes S hdet hleaf _ _ _ _ inj hfill
          exact ⟨(checkKids_iff S inj).2 (fun n hn' => (hn n hn').1),
            MarksOK_of_nil S _ inj (fun n hn' => (hn n hn').2)⟩
      obtain ⟨hvk, hvm⟩ := takeLoop_valid0 S _ _ _ _ _ _ _ _ tk htk hu hinjv.1 hinjv.2
      have hfr3 : c2.1.set f.frontierDepth ⟨item.ty, some tk.2.1⟩ = pre ++ [⟨item.ty, some tk.2.1⟩] := by
        rw [hc2e, hc1f'', ← hprelen, hie]
        exact set_append_last pre it _
      rw [hfr3]
      refine addTaken_vinv S hts D _ pre item c2.2 p q0 tk.2.1 tk.2.2 hitq hrun hvk hvm (by rw [hprelen]; omega)
        (by rw [hprelen]; exact hp) ?_
      rw [hie, hc2e, ← hc1f'']
      exact hv1
  -- the step
  unfold placeNodes
  rw [FM.bind_eq hc1, FM.bind_eq hc2]
  simp only [hfragment, hsd0, Nat.sub_zero]
  rw [FM.bind_eq (show getItem c2.1 f.frontierDepth = .ok item by unfold getItem; rw [hitem]; rfl)]
  rw [FM.bind_eq (show getSt item = .ok q0 by unfold getSt; rw [hitq]; rfl)]
  rw [FM.bind_eq (show liftRaise ((S.dfa item.ty).run q0 (S.types (f.inject.getD []))) = .ok q1 by rw [hq1]; rfl)]
  have htk' : takeLoop S (S.dfa item.ty) item.ty st.unplaced.openStart
      ((fsize st.unplaced.content : Int) + (0 : Nat) - ((fsize st.unplaced.content : Int) - st.unplaced.openEnd))
      st.unplaced.content.length st.unplaced.content 0 q1 (f.inject.getD []) = .ok tk := by
    rw [inv.os0]
    have : f.oec0 st.unplaced = (fsize st.unplaced.content : Int) + (0 : Nat) -
        ((fsize st.unplaced.content : Int) - st.unplaced.openEnd) := by
      unfold Fittable.oec0; rw [hfragment, hsd0]
    rw [← this]; exact htk
  rw [FM.bind_eq htk', FM.bind_eq hp]
  have hset_len : (c2.1.set f.frontierDepth ⟨item.ty, some tk.2.1⟩).length = c2.1.length := List.length_set
  have hlast_lt : (c2.1.set f.frontierDepth ⟨item.ty, some tk.2.1⟩).length - 1 <
      (c2.1.set f.frontierDepth ⟨item.ty, some tk.2.1⟩).length := by
    rw [hset_len]; omega
  rw [FM.bind_eq (getItem_lt hlast_lt)]
  simp only [hpar, Bool.and_false, Bool.false_and, Bool.false_eq_true, if_false, hset_len]
  have hoec : ((if (tk.1 == st.unplaced.content.length) = true then
      (fsize st.unplaced.content : Int) + (0 : Nat) - ((fsize st.unplaced.content : Int) - st.unplaced.openEnd)
      else -1) : Int).toNat = 0 := by
    rw [inv.oe0]
    split
    · simp
    · rfl
  rw [FM.bind_eq (show (pure (c2.1.set f.frontierDepth ⟨item.ty, some tk.2.1⟩, p) : FM _) = .ok _ from rfl)]
  simp only [hoec, pushOpenEnd]
  rw [FM.bind_eq (show (pure (c2.1.set f.frontierDepth ⟨item.ty, some tk.2.1⟩) : FM _) = .ok _ from rfl)]
  -- the new unplaced slice
  have hrest : ∃ u', placeRest st.unplaced 0 tk.1 (tk.1 == st.unplaced.content.length)
      (if (tk.1 == st.unplaced.content.length) = true then
        (fsize st.unplaced.content : Int) + (0 : Nat) - ((fsize st.unplaced.content : Int) - st.unplaced.openEnd)
       else -1) = .ok u' ∧ (∀ n ∈ u'.content, n ∈ st.unplaced.content) ∧ u'.openStart = 0 ∧ u'.openEnd = 0 := by
    unfold placeRest
    cases (tk.1 == st.unplaced.content.length) with
    | false =>
      simp only [Bool.not_false, if_true, dropFromFragment]
      exact ⟨_, rfl, fun n hn => List.mem_of_mem_drop hn, inv.os0, inv.oe0⟩
    | true =>
      simp only [Bool.not_true, Bool.false_eq_true, if_false, beq_self_eq_true, if_true]
      exact ⟨Slice.empty, rfl, fun n hn => by simp [Slice.empty] at hn, rfl, rfl⟩
  obtain ⟨u', hu', hu1, hu2, hu3⟩ := hrest
  rw [FM.bind_eq hu']
  refine ⟨_, rfl, ?_, hvfin, hu1⟩
  refine ⟨FrOK_set hc2ok _ _ ⟨_, rfl⟩, ?_, ?_, fun n hn => inv.leaf n (hu1 n hn), fun n hn => inv.tys n (hu1 n hn),
    hu2, hu3, ?_⟩
  · intro h0
    have : (c2.1.set f.frontierDepth ⟨item.ty, some tk.2.1⟩).length = 0 := by simp only at h0; rw [h0]; rfl
    rw [hset_len] at this; omega
  · simp only [hset_len]; exact hps
  · simp only [hset_len]
    have := inv.sz
    omega

/-! ### the whole iteration, the loop -/

theorem dropNode_ok' (S : Schema) (D : Nat) (st : FitState) (inv : FitLoopInv S D st) :
    ∃ st', dropNode st = .ok st' ∧ FitLoopInv S D st' ∧ st'.frontier = st.frontier ∧ st'.placed = st.placed ∧
      ∀ n ∈ st'.unplaced.content, n ∈ st.unplaced.content := by
  unfold dropNode
  simp only [inv.os0, contentAt, bind, Except.bind, pure, Except.pure, Nat.lt_irrefl, decide_false,
    Bool.and_false, Bool.false_eq_true, if_false, dropFromFragment]
  refine ⟨_, rfl, ⟨inv.frok, inv.ne, inv.sp, ?_, ?_, rfl, inv.oe0, inv.sz⟩, rfl, rfl,
    fun n hn => List.mem_of_mem_drop hn⟩
  · intro n hn
    exact inv.leaf n (List.mem_of_mem_drop hn)
  · intro n hn
    exact inv.tys n (List.mem_of_mem_drop hn)

theorem fitStep_ok_vinv (S : Schema) (hdet : DetS S) (hf : FillersOK S) (hw : WrapOK S) (hlab : LabelsOK S)
    (hleaf : PM.FromDom.LeafOk S) (hts : TextStableP S) (hcl : Closable S) (D g : Nat)
    (st : FitState) (inv : FitLoopInv S D st) (hv : VInv S D g st.frontier st.placed)
    (hu : ∀ n ∈ st.unplaced.content, S.checkNode n = true) :
    ∃ st' g', fitStep S st = .ok st' ∧ FitLoopInv S D st' ∧ VInv S D g' st'.frontier st'.placed ∧
      (∀ n ∈ st'.unplaced.content, S.checkNode n = true) := by
  obtain ⟨r, hr⟩ := findFittable_ok S hdet hf D st inv
  unfold fitStep
  rw [FM.bind_eq hr]
  cases r with
  | some f =>
    obtain ⟨st', h1, h2, h3, h4⟩ := placeNodes_ok_vinv S hdet hf hw hlab hleaf hts hcl D g st inv hv hu f hr
    exact ⟨st', _, h1, h2, h3, fun n hn => hu n (h4 n hn)⟩
  | none =>
    simp only
    rw [FM.bind_eq (openMore_none S D st inv)]
    obtain ⟨st', h1, h2, h3, h4, h5⟩ := dropNode_ok' S D st inv
    exact ⟨st', g, h1, h2, by rw [h3, h4]; exact hv, fun n hn => hu n (h5 n hn)⟩

theorem fitLoop_ok_vinv (S : Schema) (hdet : DetS S) (hf : FillersOK S) (hw : WrapOK S) (hlab : LabelsOK S)
    (hleaf : PM.FromDom.LeafOk S) (hts : TextStableP S) (hcl : Closable S) (D : Nat) :
    ∀ (fuel g : Nat) (st : FitState), FitLoopInv S D st → VInv S D g st.frontier st.placed →
      (∀ n ∈ st.unplaced.content, S.checkNode n = true) → fitMeasure st.unplaced (cpot S st) < fuel →
      ∃ st' g', fitLoop S fuel st = .ok st' ∧ FitLoopInv S D st' ∧ VInv S D g' st'.frontier st'.placed
  | 0, g, st, _, _, _, h => by omega
  | fuel + 1, g, st, inv, hv, hu, hm => by
    unfold fitLoop
    cases hsz : (st.unplaced.size == 0) with
    | true => exact ⟨st, g, rfl, inv, hv⟩
    | false =>
      simp only [Bool.false_eq_true, if_false]
      obtain ⟨st1, g1, h1, inv1, hv1, hu1⟩ := fitStep_ok_vinv S hdet hf hw hlab hleaf hts hcl D g st inv hv hu
      rw [FM.bind_eq h1]
      have hne : st.unplaced.content ≠ [] := by
        intro h0
        unfold Slice.size at hsz
        rw [h0, inv.os0, inv.oe0] at hsz
        simp [fsize] at hsz
      have hlt := fitStep_progress S hdet st st1 hne h1
      exact fitLoop_ok_vinv S hdet hf hw hlab hleaf hts hcl D fuel g1 st1 inv1 hv1 hu1 (by omega)

/-! ### where `close` continues from lies at the close level's depth -/

theorem balance_cl_run : ∀ (n : Nat) (l : List Tok), (∀ j, j < n → l[j]? = some Tok.cl) →
    balance (l.take n) = -(n : Int)
  | 0, l, _ => by simp [balance]
  | n + 1, l, h => by
    cases l with
    | nil => have := h 0 (by omega); simp at this
    | cons x l' =>
      have h0 := h 0 (by omega)
      simp only [List.getElem?_cons_zero, Option.some.injEq] at h0
      subst h0
      have ih := balance_cl_run n l' (fun j hj => by
        have := h (j + 1) (by omega)
        simpa using this)
      simp only [List.take_succ_cons, balance_cons, ih, Tok.delta]
      omega

theorem resolve_after_depth {doc : Node} {t : Nat} {rt : RPos} (ht : doc.resolve t = some rt) (i : Nat)
    (hi : i < rt.depth) (hend : rt.end_ (i + 1) = rt.pos + (rt.depth - (i + 1))) (a : Nat)
    (ha : rt.after (i + 1) = some a) (mv : RPos) (hmv : doc.resolve a = some mv) : mv.depth = i := by
  have R := resolve_resolved ht
  have Rm := resolve_resolved hmv
  rw [R.after_eq (i + 1) (by omega) (by omega)] at ha
  simp only [Option.some.injEq] at ha
  rw [R.pos_eq] at hend
  have hat : a = t + (rt.depth - i) := by omega
  have h1 := depthAt_balance doc.kids a Rm.le
  have h2 := depthAt_balance doc.kids t R.le
  rw [← Rm.depth_eq] at h1
  rw [← R.depth_eq] at h2
  have hsplit : (ftoks doc.kids).take a = (ftoks doc.kids).take t ++ ((ftoks doc.kids).drop t).take (rt.depth - i) := by
    rw [hat, List.take_add]
  have hrun := balance_cl_run (rt.depth - i) ((ftoks doc.kids).drop t) (fun j hj => by
    rw [List.getElem?_drop]
    exact R.close_run_after ht (i + 1) (by omega) (by omega) hend (t + j) (by omega) (by omega))
  rw [hsplit, balance_append, hrun, ← h2] at h1
  omega

theorem findCloseLevelLoop_move_depth (S : Schema) {doc : Node} {t : Nat} {rt : RPos}
    (ht : doc.resolve t = some rt) (fr : List FItem) :
    ∀ (n : Nat) (lv : CloseLevel), n ≤ rt.depth + 1 → findCloseLevelLoop S doc rt fr n = .ok (some lv) →
      lv.depth ≤ lv.move.depth
  | 0, lv, _, h => by simp [findCloseLevelLoop, pure, Except.pure] at h
  | i + 1, lv, hn, h => by
    unfold findCloseLevelLoop at h
    obtain ⟨it, _, h⟩ := FM.bind_ok h
    simp only at h
    obtain ⟨r, _, h⟩ := FM.bind_ok h
    cases r with
    | none => exact findCloseLevelLoop_move_depth S ht fr i lv (by omega) h
    | some fit =>
      simp only at h
      obtain ⟨b, _, h⟩ := FM.bind_ok h
      cases b with
      | false => exact findCloseLevelLoop_move_depth S ht fr i lv (by omega) h
      | true =>
        simp only [if_true] at h
        obtain ⟨mv, hmv, h⟩ := FM.bind_ok h
        have := pure_ok h
        simp only [Option.some.injEq] at this
        subst this
        simp only
        rcases closeMove_spec doc rt i _ mv hmv with ⟨_, rfl⟩ | ⟨hb, a, ha, hres⟩
        · omega
        · simp only [Bool.and_eq_true, decide_eq_true_eq, beq_iff_eq] at hb
          have := resolve_after_depth ht i hb.1 hb.2 a ha mv hres
          omega

/-! ### `close` from a state satisfying the invariant -/

theorem closeFit_vinv (S : Schema) (hdet : DetS S) (hf : FillersOK S) (hleaf : PM.FromDom.LeafOk S)
    (hts : TextStableP S) (hcl : Closable S) {doc : Node} {t : Nat} {rt : RPos}
    (ht : doc.resolve t = some rt) (hattrs : S.nodeAttrsOK doc = true) (fr : List FItem) (placed : List Node)
    (D g : Nat) (hfr : FrOK fr) (hsp : rspineOK (fr.length - 1) placed) (hv : VInv S D g fr placed)
    (mv : RPos) (p : List Node) (h : closeFit S doc rt fr placed = .ok (some (mv, p))) :
    openValid S D mv.depth p = true := by
  have hlen1 : 1 ≤ fr.length := by have := hv.2.1; omega
  unfold closeFit at h
  obtain ⟨lvo, hlv, h⟩ := FM.bind_ok h
  cases lvo with
  | none => simp [pure, Except.pure] at h
  | some lv =>
    simp only at h
    have hdep : lv.depth < min (fr.length - 1) rt.depth + 1 := findCloseLevelLoop_depth S doc rt fr _ lv hlv
    have hmd : lv.depth ≤ lv.move.depth :=
      findCloseLevelLoop_move_depth S ht fr (min (fr.length - 1) rt.depth + 1) lv (by omega) hlv
    obtain ⟨c1, hc1, h⟩ := FM.bind_ok h
    obtain ⟨c1', hc1', hc1f, hc1s⟩ := closeMany_ok S hdet hf (fr.length - 1 - lv.depth) fr placed hfr (by omega) hsp
    have hcc : c1' = c1 := by rw [hc1'] at hc1; exact Except.ok.inj hc1
    subst hcc
    have hc1len : c1'.1.length = lv.depth + 1 := by
      rw [hc1f, List.length_take]
      omega
    have hv1 := closeMany_vinv S hdet hf hleaf hts hcl D _ g fr placed (by omega) hfr hsp hv c1' hc1
    rw [show fr.length - 1 - (fr.length - 1 - lv.depth) = lv.depth by omega] at hv1
    obtain ⟨hg1D, hg1l, G1, hp1, hr1⟩ := hv1
    have hr1' := ValR_mono S (L' := LevelT) (fun _ _ _ _ => trivial) _ _ _ _ hr1
    obtain ⟨pl, hpl, h⟩ := FM.bind_ok h
    have hfit := findCloseLevelLoop_fit_valid S hdet hleaf doc rt fr _ lv hlv
    have hg1 : min g lv.depth ≤ lv.depth := Nat.min_le_right _ _
    have hpl' : ∃ G2, PureV S (min g lv.depth) pl G2 ∧
        ValR S LevelT false (D - min g lv.depth) (c1'.1.drop (min g lv.depth)) G2 := by
      split at hpl
      · obtain ⟨pre, top, hpt⟩ : ∃ pre top, c1'.1 = pre ++ [top] := by
          have : c1'.1 ≠ [] := by intro h0; rw [h0] at hc1len; simp at hc1len
          exact ⟨c1'.1.dropLast, c1'.1.getLast this, (List.dropLast_concat_getLast this).symm⟩
        have hprelen : pre.length = lv.depth := by rw [hpt] at hc1len; simpa using hc1len
        obtain ⟨G2, hG2, hp2⟩ := addToFragment_pure S (min g lv.depth) (lv.depth - min g lv.depth) c1'.2 G1 lv.fit pl hp1
          (by rw [show min g lv.depth + (lv.depth - min g lv.depth) = lv.depth by omega]; exact hpl)
        refine ⟨G2, hp2, ?_⟩
        rw [hpt, List.drop_append_of_le_length (by omega)] at hr1' ⊢
        have := ValR_top S LevelT LevelT_lastStable lv.fit top [top] (fun x hx => by simp at hx; rw [← hx]) (by simp)
          (pre.drop (min g lv.depth)) false (D - min g lv.depth) G1 G2
          (by rw [List.length_drop, hprelen]; exact hG2) hr1'
          (fun mk' x' F0 hF0 => ⟨leftOpenValid_fappend S x' F0 lv.fit hF0.1 hfit, trivial⟩)
        exact this
      · have := pure_ok hpl
        subst this
        exact ⟨G1, hp1, hr1'⟩
    obtain ⟨G2, hp2, hr2⟩ := hpl'
    have hdl : (c1'.1.drop (min g lv.depth)).length = lv.depth - min g lv.depth + 1 := by
      rw [List.length_drop, hc1len]; omega
    have hov := ValR_openValid S LevelT _ false _ G2 (by intro h0; rw [h0] at hdl; simp at hdl) hr2
    rw [hdl, Nat.add_sub_cancel] at hov
    obtain ⟨c2, hc2, h⟩ := FM.bind_ok h
    have := pure_ok h
    simp only [Option.some.injEq, Prod.mk.injEq] at this
    obtain ⟨e1, e2⟩ := this
    subst e1; subst e2
    have hmv : ∃ pm, doc.resolve pm = some lv.move := by
      rcases findCloseLevelLoop_move S doc rt fr _ lv hlv with hm | ⟨i, a, _, _, _, hres⟩
      · exact ⟨t, by rw [hm]; exact ht⟩
      · exact ⟨a, hres⟩
    obtain ⟨pm, hpm⟩ := hmv
    obtain ⟨G3, hp3, hG3⟩ := reopen_pureV S hdet hleaf hpm hattrs (lv.move.depth - lv.depth) (lv.depth + 1) c1'.1 pl
      (min g lv.depth) (lv.depth - min g lv.depth) (D - min g lv.depth) G2 (by rw [hc1len]; omega) hp2 hov (by omega)
      (fun k h1 h2 => by omega) c2 hc2
    have := PureV_openValid S (min g lv.depth) (D - min g lv.depth)
      (lv.depth - min g lv.depth + (lv.move.depth - lv.depth)) c2.2 G3 hp3 hG3
    rw [show min g lv.depth + (D - min g lv.depth) = D by omega,
      show min g lv.depth + (lv.depth - min g lv.depth + (lv.move.depth - lv.depth)) = lv.move.depth by omega] at this
    exact this

/-! ### `replace_step` as a whole -/

/-- **the payload of every step `replace_step` emits for a closed slice of valid leaf / text nodes is valid** -/
theorem replaceStep_inline_valid (S : Schema) (hdet : DetS S) (hfill : FillersOK S) (hw : WrapOK S)
    (hlab : LabelsOK S) (hleaf : PM.FromDom.LeafOk S) (hts : TextStableP S) (hcl : Closable S)
    (doc : Node) (f t : Nat) (sl : Slice) (hsl : sl.inlineLeaves S = true) (hslv : S.checkKids sl.content = true)
    (hv : S.checkNode doc = true) (hattrs : S.nodeAttrsOK doc = true) (st : Step)
    (h : replaceStep S doc f t sl = .ok (some st)) :
    ∃ sl', st.sliceOf = some sl' ∧ openValid S sl'.openStart sl'.openEnd sl'.content = true := by
  simp only [Slice.inlineLeaves, Bool.and_eq_true, beq_iff_eq, List.all_eq_true, decide_eq_true_eq] at hsl
  obtain ⟨⟨hos, hoe⟩, hall⟩ := hsl
  unfold replaceStep at h
  split at h
  · simp [pure, Except.pure] at h
  · split at h
    · rename_i rf rt hf ht
      split at h
      · simp [throw, throwThe, MonadExceptOf.throw] at h
      · have := pure_ok h
        simp only [Option.some.injEq] at this
        subst this
        refine ⟨sl, rfl, ?_⟩
        rw [hos, hoe]
        simpa [openValid, rightOpenValid] using hslv
      · obtain ⟨st0, h0, hu, hfr, hlen, hsp, hsz⟩ := fitInit_ok S hf hv sl
        have inv0 : FitLoopInv S rf.depth st0 := by
          refine ⟨hfr, ?_, by rw [hlen, Nat.add_sub_cancel]; exact hsp, ?_, ?_, by rw [hu]; exact hos,
            by rw [hu]; exact hoe, by rw [hlen, hsz]; omega⟩
          · intro h; rw [h] at hlen; simp at hlen
          · intro n hn; rw [hu] at hn; exact (hall n hn).1
          · intro n hn; rw [hu] at hn; exact (hall n hn).2
        have hp0 := fitInit_pureV S hf hv sl st0 h0
        have hv0 : VInv S rf.depth rf.depth st0.frontier st0.placed := by
          refine ⟨Nat.le_refl _, by rw [hlen]; omega, [], hp0, ?_⟩
          obtain ⟨it, hit⟩ := list_one (st0.frontier.drop rf.depth) (by rw [List.length_drop, hlen]; omega)
          rw [hit, Nat.sub_self]
          exact ⟨by simp [leftOpenValid], fun hh => by cases hh⟩
        have hu0 : ∀ n ∈ st0.unplaced.content, S.checkNode n = true := by
          rw [hu]; exact (checkKids_iff S _).1 hslv
        obtain ⟨st1, g1, hl, inv1, hv1⟩ := fitLoop_ok_vinv S hdet hfill hw hlab hleaf hts hcl rf.depth (fitFuel S sl)
          rf.depth st0 inv0 hv0 hu0 (by
            have := fitFuel_enough S st0
            rw [hu] at this
            rw [hu]; exact this)
        unfold fitterFit at h
        rw [FM.bind_eq h0, FM.bind_eq hl] at h
        obtain ⟨mi, _, h⟩ := FM.bind_ok h
        simp only at h
        obtain ⟨target, htg, h⟩ := FM.bind_ok h
        obtain ⟨c, hc, h⟩ := FM.bind_ok h
        cases c with
        | none => simp [pure, Except.pure] at h
        | some c =>
          simp only at h
          have hpt : ∃ pt, doc.resolve pt = some target := by
            cases mi with
            | none =>
              have := pure_ok htg
              subst this
              exact ⟨t, ht⟩
            | some p => exact ⟨p, liftRaise_ok htg⟩
          obtain ⟨pt, hpt⟩ := hpt
          have hcv := closeFit_vinv S hdet hfill hleaf hts hcl hpt hattrs st1.frontier st1.placed rf.depth g1
            inv1.frok inv1.sp hv1 c.1 c.2 hc
          exact fitEmit_valid S rf rt mi _ c.1 c.2 st h hcv
    · simp [throw, throwThe, MonadExceptOf.throw] at h

/-! ### the decidable form of the invariant (`FitState.validB`, PM/FitGuards.lean) is sound, and payload validity
    follows from it for **every** request -/

theorem levelRB_sound (S : Schema) (mk : Bool) (it : FItem) (F : List Node) (h : levelRB S mk it F = true) :
    LevelR S mk it F := by
  intro hmk
  subst hmk
  simp only [levelRB, Bool.not_true, Bool.false_or, Bool.and_eq_true, decide_eq_true_eq, List.all_eq_true,
    beq_iff_eq] at h
  obtain ⟨⟨h1, h2⟩, h3, h4⟩ := h
  obtain ⟨q, hq⟩ := Option.isSome_iff_exists.1 h3
  exact ⟨h1, h2, q, hq, by rw [h4, hq]⟩

theorem valRB_sound (S : Schema) : ∀ (fr : List FItem) (mk : Bool) (x : Nat) (F : List Node),
    valRB S mk x fr F = true → ValR S (LevelR S) mk x fr F
  | [], _, _, _, _ => trivial
  | [it], mk, x, F, h => by
    simp only [valRB, Bool.and_eq_true] at h
    exact ⟨by rw [← leftOpenValidB_eq]; exact h.1, levelRB_sound S mk it F h.2⟩
  | it :: nxt :: rest, mk, x, F, h => by
    simp only [valRB] at h
    split at h
    · rename_i t a m k hl
      obtain ⟨init, rfl⟩ := List.getLast?_eq_some_iff.mp hl
      simp only [List.dropLast_concat, Bool.and_eq_true, beq_iff_eq] at h
      obtain ⟨⟨⟨⟨h1, h2⟩, h3⟩, h4⟩, h5⟩ := h
      exact ⟨init, t, a, m, k, rfl, h1, by rw [← leftOpenValidB_eq]; exact h2, levelRB_sound S mk it _ h3, h4,
        valRB_sound S (nxt :: rest) true 0 k h5⟩
    · simp at h

theorem pureVB_sound (S : Schema) : ∀ (d : Nat) (c G : List Node), pureVB S d c = some G → PureV S d c G
  | 0, c, G, h => by
    simp only [pureVB, Option.some.injEq] at h
    exact h
  | d + 1, c, G, h => by
    cases c with
    | nil => simp [pureVB] at h
    | cons n rest =>
      cases rest with
      | cons y ys => simp [pureVB] at h
      | nil =>
        cases n with
        | text s m => simp [pureVB] at h
        | leaf t a m => simp [pureVB] at h
        | elem t a m k =>
          simp only [pureVB] at h
          split at h
          · rename_i hm
            exact ⟨t, a, m, k, rfl, hm, pureVB_sound S d k G h⟩
          · simp at h

theorem validB_sound (S : Schema) (D : Nat) (st : FitState) (h : st.validB S D = true) :
    ∃ g, VInv S D g st.frontier st.placed := by
  simp only [FitState.validB, List.any_eq_true, List.mem_range, Bool.and_eq_true, decide_eq_true_eq] at h
  obtain ⟨g, hg, hgl, hm⟩ := h
  split at hm
  · rename_i G hG
    exact ⟨g, by omega, hgl, G, pureVB_sound S g _ G hG, valRB_sound S _ false _ G hm⟩
  · simp at hm

theorem fitEndInv_eq (S : Schema) (doc : Node) (f t : Nat) (sl : Slice) (rf rt : RPos) (st0 st1 : FitState)
    (hc : ¬ ((f == t && sl.size == 0) = true)) (hf : doc.resolve f = some rf) (ht : doc.resolve t = some rt)
    (htr : fitsTriviallyR S rf rt sl = some false) (h0 : fitInit S rf sl = .ok st0)
    (h1 : fitLoop S (fitFuel S sl) st0 = .ok st1) :
    fitEndInv S doc f t sl = some (st1.inStepB && st1.validB S rf.depth) := by
  unfold fitEndInv
  rw [if_neg hc]
  simp only [hf, ht, htr, h0, h1]

/-- **payload validity reduced to the invariant at the end of the loop**, for every request: if the loop of `fit`
    ends in step and with `FitState.validB` (`fitEndInv`, decidable), the payload of the emitted step is valid -/
theorem replaceStep_valid_of_inv (S : Schema) (hdet : DetS S) (hfill : FillersOK S) (hleaf : PM.FromDom.LeafOk S)
    (hts : TextStableP S) (hcl : Closable S) (doc : Node) (f t : Nat) (sl : Slice)
    (hslv : openValid S sl.openStart sl.openEnd sl.content = true) (hattrs : S.nodeAttrsOK doc = true) (st : Step)
    (h : replaceStep S doc f t sl = .ok (some st)) (hend : fitEndInv S doc f t sl ≠ some false) :
    ∃ sl', st.sliceOf = some sl' ∧ openValid S sl'.openStart sl'.openEnd sl'.content = true := by
  unfold replaceStep at h
  split at h
  · simp [pure, Except.pure] at h
  · rename_i hc
    split at h
    · rename_i rf rt hf ht
      split at h
      · simp [throw, throwThe, MonadExceptOf.throw] at h
      · have := pure_ok h
        simp only [Option.some.injEq] at this
        subst this
        exact ⟨sl, rfl, hslv⟩
      · rename_i htr
        unfold fitterFit at h
        obtain ⟨st0, h0, h⟩ := FM.bind_ok h
        obtain ⟨st1, h1, h⟩ := FM.bind_ok h
        have he := fitEndInv_eq S doc f t sl rf rt st0 st1 hc hf ht htr h0 h1
        have hboth : (st1.inStepB && st1.validB S rf.depth) = true := by
          cases hb : (st1.inStepB && st1.validB S rf.depth) with
          | true => rfl
          | false => rw [hb] at he; exact absurd he hend
        simp only [Bool.and_eq_true] at hboth
        obtain ⟨hi, hvb⟩ := hboth
        simp only [FitState.inStepB, Bool.and_eq_true, Bool.not_eq_eq_eq_not, Bool.not_true, List.all_eq_true,
          decide_eq_true_eq] at hi
        obtain ⟨⟨_, hall⟩, hsp⟩ := hi
        obtain ⟨g, hv1⟩ := validB_sound S rf.depth st1 hvb
        obtain ⟨mi, _, h⟩ := FM.bind_ok h
        simp only at h
        obtain ⟨target, htg, h⟩ := FM.bind_ok h
        obtain ⟨c, hc, h⟩ := FM.bind_ok h
        cases c with
        | none => simp [pure, Except.pure] at h
        | some c =>
          simp only at h
          have hpt : ∃ pt, doc.resolve pt = some target := by
            cases mi with
            | none =>
              have := pure_ok htg
              subst this
              exact ⟨t, ht⟩
            | some p => exact ⟨p, liftRaise_ok htg⟩
          obtain ⟨pt, hpt⟩ := hpt
          have hcv := closeFit_vinv S hdet hfill hleaf hts hcl hpt hattrs st1.frontier st1.placed rf.depth g
            (fun it hit => Option.isSome_iff_exists.1 (hall it hit)) (spineR_rspineOK _ _ hsp) hv1 c.1 c.2 hc
          exact fitEmit_valid S rf rt mi _ c.1 c.2 st h hcv
    · simp [throw, throwThe, MonadExceptOf.throw] at h

end PM
