/-
  Proofs/HoleValid.lean — closed slices that are valid *except for the node that receives the gap*: the wrappers of
  `wrap` (`<blockquote()>`), the new node of `set_node_markup` (`<heading()>`) are not valid nodes by themselves
  (`block+` wants content); `insert_into` validates the content it builds in the receiving node, so such a slice with a
  closed gap of valid nodes in place is a valid payload.  `holeKids` is a condition on the step alone (no document).
-/
import Proofs.InsertAtValid
import Proofs.FlatInsertCore
namespace PM

/-- `checkKids`, with one exemption: the node whose child list directly receives an insertion at offset `d` (the offset
    is at a child boundary or inside a text child of it) need not have valid content — its marks are canonical and its
    children are valid nodes.  Every other node is valid, the ancestors of the receiving node included. -/
def holeKids (S : Schema) : List Node → Nat → Bool
  | [], _ => true
  | n :: ns, d =>
    if d = 0 then S.checkKids (n :: ns)
    else if n.size ≤ d then S.checkNode n && holeKids S ns (d - n.size)
    else match n with
      | .elem ty _ m kids =>
        canonicalMarks S m && holeKids S kids (d - 1) &&
          (depthAt kids (d - 1) == 0 || S.validContent ty kids) && S.checkKids ns
      | _ => S.checkKids (n :: ns)

/-- valid nodes throughout: no exemption needed -/
theorem holeKids_of_checkKids (S : Schema) : ∀ (l : List Node) (d : Nat), S.checkKids l = true → holeKids S l d = true
  | [], _, _ => by unfold holeKids; rfl
  | n :: ns, d, h => by
    unfold holeKids
    split
    · exact h
    · split
      · simp only [checkKids_cons, Bool.and_eq_true] at h
        simp [h.1, holeKids_of_checkKids S ns _ h.2]
      · cases n with
        | elem ty a m kids =>
          simp only [checkKids_cons, checkNode_elem, Bool.and_eq_true] at h
          simp [h.1.1.2, h.1.1.1, h.2, holeKids_of_checkKids S kids _ h.1.2]
        | text s m => exact h
        | leaf t a m => exact h

/-- at a flat position the exemption is void at this level: all children are valid nodes -/
theorem holeKids_flat (S : Schema) : ∀ (l : List Node) (d : Nat), depthAt l d = 0 → d ≤ fsize l →
    holeKids S l d = true → S.checkKids l = true
  | [], _, _, _, _ => rfl
  | n :: ns, d, hd, hle, h => by
    unfold holeKids at h
    split at h
    · exact h
    · rename_i h0
      split at h
      · rename_i hsz
        simp only [Bool.and_eq_true] at h
        rw [depthAt_skip _ _ _ hsz] at hd
        simp only [fsize_cons] at hle
        simp [h.1, holeKids_flat S ns _ hd (by omega) h.2]
      · rename_i hsz
        cases n with
        | elem ty a m kids =>
          rw [depthAt_cons, if_neg h0, if_neg hsz] at hd
          simp only at hd
          omega
        | text s m => exact h
        | leaf t a m => exact h

theorem insertInto_hole_valid (S : Schema) (gap : List Node) (hg : S.checkKids gap = true) :
    ∀ (rest pre : List Node) (parent : Option TypeId) (d : Nat) (c : List Node),
    S.checkKids pre = true → holeKids S rest d = true →
    insertInto S gap parent (pre ++ rest) (fsize pre + d) pre.length rest d 0 0 = .ok (some c) →
    S.checkKids c = true ∧
      ∀ p, parent = some p → (depthAt rest d = 0 ∨ S.validContent p (pre ++ rest) = true) → S.validContent p c = true
  | [], pre, parent, d, c, hpre, hh, h => by
    unfold insertInto at h
    split at h
    · rename_i hd
      have := flatInsert_closed S gap hg pre [] parent d c (by simpa using hpre) (Or.inl hd) h
      exact ⟨this.1, fun p hp _ => this.2 p hp⟩
    · simp at h
  | n :: ns, pre, parent, d, c, hpre, hh, h => by
    unfold insertInto at h
    split at h
    · rename_i hd
      subst hd
      have hk : S.checkKids (pre ++ n :: ns) = true := by
        rw [checkKids_append, hpre]
        unfold holeKids at hh
        simpa using hh
      have := flatInsert_closed S gap hg pre (n :: ns) parent 0 c hk (Or.inl rfl) h
      exact ⟨this.1, fun p hp _ => this.2 p hp⟩
    · rename_i hd
      unfold holeKids at hh
      rw [if_neg hd] at hh
      split at h
      · rename_i hsz
        rw [if_pos hsz, Bool.and_eq_true] at hh
        have e1 : pre ++ n :: ns = (pre ++ [n]) ++ ns := by simp
        have e2 : fsize pre + d = fsize (pre ++ [n]) + (d - n.size) := by
          rw [fsize_append]; simp only [fsize_cons, fsize_nil]; omega
        have e3 : pre.length + 1 = (pre ++ [n]).length := by simp
        rw [e1, e2, e3] at h
        have := insertInto_hole_valid S gap hg ns (pre ++ [n]) parent (d - n.size) c
          (by rw [checkKids_append, hpre]; simp [hh.1]) hh.2 h
        rw [← e1] at this
        refine ⟨this.1, fun p hp hv => this.2 p hp ?_⟩
        rw [depthAt_skip _ _ _ hsz] at hv
        exact hv
      · rename_i hsz
        rw [if_neg hsz] at hh
        cases n with
        | text s m =>
          simp only at h hh
          have hk : S.checkKids (pre ++ Node.text s m :: ns) = true := by rw [checkKids_append, hpre, hh]; rfl
          have := flatInsert_closed S gap hg pre (.text s m :: ns) parent d c hk
            (Or.inr ⟨s, m, ns, rfl, by omega, by simpa using hsz⟩) h
          exact ⟨this.1, fun p hp _ => this.2 p hp⟩
        | leaf t a m =>
          exfalso
          simp only [Node.size] at hsz
          omega
        | elem ty a m kids =>
          simp only [Nat.lt_irrefl, decide_false, Bool.false_and, Bool.or_self, Bool.false_eq_true, if_false] at h
          simp only [Bool.and_eq_true, Bool.or_eq_true, beq_iff_eq] at hh
          obtain ⟨⟨⟨hm, hkids⟩, hflat⟩, hns⟩ := hh
          split at h
          · rename_i inner hin
            simp only [Except.ok.injEq, Option.some.injEq] at h
            have ih := insertInto_hole_valid S gap hg kids [] (some ty) (d - 1) inner rfl
              (by simpa using hkids) (by simpa using hin)
            have hset : (pre ++ Node.elem ty a m kids :: ns).set pre.length (.elem ty a m inner) =
                pre ++ Node.elem ty a m inner :: ns := by simp
            rw [hset] at h
            subst h
            constructor
            · simp only [checkKids_append, checkKids_cons, checkNode_elem, Bool.and_eq_true]
              exact ⟨hpre, ⟨⟨ih.2 ty rfl (by simpa using hflat), hm⟩, ih.1⟩, hns⟩
            · intro p hp hv
              have hv' : S.validContent p (pre ++ Node.elem ty a m kids :: ns) = true := by
                rcases hv with hv | hv
                · rw [depthAt_cons, if_neg hd, if_neg hsz] at hv
                  simp only at hv
                  omega
                · exact hv
              rw [← hv']
              apply validContent_congr
              simp [Schema.tyOf, Node.tyOr, Node.marks]
          · simp at h
          · simp at h
termination_by rest => sizeOf rest

/-- **`Slice.insert_at(pos, gap)` on a closed slice that is valid except for the node receiving the gap**: the result
    consists of valid nodes — the receiving node's built content was validated by `insert_into` -/
theorem insertAt_closed_holeValid (S : Schema) (sl ins : Slice) (pos : Nat) (gap : List Node)
    (hg : S.checkKids gap = true) (h0 : sl.openStart = 0) (h1 : sl.openEnd = 0)
    (hv : holeKids S sl.content pos = true)
    (h : sl.insertAt S pos gap = .ok (some ins)) :
    openValid S ins.openStart ins.openEnd ins.content = true := by
  rw [insertAt_of_le (insertAt_ok h).1] at h
  unfold Slice.insertAtIn at h
  rw [h0, h1] at h
  simp only [Nat.add_zero] at h
  split at h
  · rename_i c hc
    simp only [Except.ok.injEq, Option.some.injEq] at h
    subst h
    simp only [openValid, rightOpenValid]
    have := insertInto_hole_valid S gap hg sl.content [] none pos c rfl hv (by simpa using hc)
    exact this.1
  · simp at h
  · simp at h

end PM
