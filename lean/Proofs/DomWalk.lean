/-
  Proofs/DomWalk.lean — the DOM walk of the HTML importer (PM/DomWalk.lean) preserves every invariant of the
  placement core that each single call into the core preserves.

  `walk_post` is one induction over the walk (`addAll` / `addDom` / `addElement`), generic in
  * `I : WState → Prop` — what is to hold of the walk state (placement-core state + log),
  * `E : Err → Prop`   — which failures are acceptable,
  * `EvP : Event → Prop` — what may be assumed of every call the walk makes into the core.
  It is instantiated in Props/C19.lean with "the log replays to the state and consists of admissible events"
  (`parse_valid`), and with the core's well-formedness invariant and `E = (· ≠ .internal)` (`parse_no_internal`).
-/
import PM.DomWalk
import Proofs.Placement
import Proofs.PlacementValid
import Proofs.PlacementMarks
namespace PM.DomWalk
open PM.FromDom

/-- postcondition of a walk function: the invariant on success, an acceptable failure otherwise -/
def Post (I : WState → Prop) (E : Err → Prop) : Res WState → Prop
  | .ok w => I w
  | .error e => E e

/-- the calls the walk makes into the placement core (`N` = what holds of `get_content` nodes, `T` = of the node
    types the tag rules name, `o` = `self.open` at the moment of the call: `open` is only ever lowered) -/
inductive WalkEvent (S : Schema) (N : Node → Bool) (T : TypeId → Prop) (o : Nat) : Event → Prop
  | text (s : List Nat) : WalkEvent S N T o (.insertNode (.text s []))
  | leaf (t : TypeId) (a : Attrs) : (S.nodeType t).isLeaf = true → WalkEvent S N T o (.insertNode (.leaf t a []))
  | given (n : Node) : N n = true → WalkEvent S N T o (.insertNode n)
  | enter (t : TypeId) (a : Option Attrs) (pw : WS) : T t → WalkEvent S N T o (.enter t a pw)
  | findPlace (s : List Nat) : WalkEvent S N T o (.findPlace (.text s []))
  | addPending (m : TMark) : WalkEvent S N T o (.addPending m)
  | removePending (m : TMark) (u : Option Nat) : WalkEvent S N T o (.removePending m u)
  | sync (u : Option Nat) : WalkEvent S N T o (.sync u)
  | setOpen (v : Nat) : v ≤ o → WalkEvent S N T o (.setOpen v)
  | setNeedsBlock (b : Bool) : WalkEvent S N T o (.setNeedsBlock b)

/-- what `walk_post` needs of `I`, `E`: every admissible call into the core keeps `I` or fails acceptably;
    `I` does not look at the mark-identity counter; a ValueError is acceptable; an internal error is
    acceptable or excluded (`strict`: the input guards hold, and `I` gives `self.top`) -/
structure Frame (P : Parser) (N : Node → Bool) (T : TypeId → Prop) (I : WState → Prop) (E : Err → Prop) (strict : Bool) : Prop where
  emit : ∀ w e, I w → WalkEvent P.S N T w.st.open_ e → match emit P w e with
    | .ok (w', _) => I w'
    | .error err => E err
  nextMark : ∀ w n, I w → I { w with nextMark := n }
  valueError : E .valueError
  top : ∀ w, I w → w.top = none → E .internal
  lax : strict = false → E .internal
  rules : strict = true → P.rulesOk = true
  types : ∀ r ∈ P.tags, ∀ t, r.node = some (some t) → T t

variable {P : Parser} {N : Node → Bool} {T : TypeId → Prop} {I : WState → Prop} {E : Err → Prop} {strict : Bool}

theorem emit'_post (F : Frame P N T I E strict) (w : WState) (e : Event) (hi : I w) (he : WalkEvent P.S N T w.st.open_ e) :
    Post I E (emit' P w e) := by
  have := F.emit w e hi he
  unfold emit'
  cases h : emit P w e with
  | error err => simpa [h, Post] using this
  | ok r => obtain ⟨w', b⟩ := r; simpa [h, Post] using this

theorem emitEach_post (F : Frame P N T I E strict) {α : Type} (mk : WState → α → Event)
    (hmk : ∀ w a, WalkEvent P.S N T w.st.open_ (mk w a)) : ∀ (l : List α) (w : WState), I w → Post I E (emitEach P mk l w)
  | [], w, hi => by simpa [emitEach, Post] using hi
  | a :: as, w, hi => by
    have h1 := emit'_post F w (mk w a) hi (hmk w a)
    unfold emitEach
    cases h : emit' P w (mk w a) with
    | error e => simpa [h, Post] using h1
    | ok w' =>
      rw [h] at h1
      exact emitEach_post F mk hmk as w' h1

theorem insertAll_post (F : Frame P N T I E strict) : ∀ (l : List Node) (w : WState), I w → l.all N = true →
    Post I E (insertAll P l w)
  | [], w, hi, _ => by simpa [insertAll, Post] using hi
  | n :: ns, w, hi, hl => by
    simp only [List.all_cons, Bool.and_eq_true] at hl
    have h1 := emit'_post F w (.insertNode n) hi (.given n hl.1)
    unfold insertAll
    cases h : emit' P w (.insertNode n) with
    | error e => simpa [h, Post] using h1
    | ok w' =>
      rw [h] at h1
      exact insertAll_post F ns w' h1 hl.2

theorem addTextNode_post (F : Frame P N T I E strict) (w : WState) (t : Option (List Nat)) (pt : Option String) (pb : Bool)
    (hi : I w) (ht : strict = true → t.isSome = true) : Post I E (addTextNode P w t pt pb) := by
  unfold addTextNode
  cases htop : w.top with
  | none => exact F.top w hi htop
  | some top =>
    cases t with
    | none =>
      cases hs : strict with
      | false => exact F.lax hs
      | true => simpa using ht hs
    | some raw =>
      dsimp only
      split
      · split
        · exact hi
        · exact emit'_post F w _ hi (.text _)
      · exact hi

theorem leafFallback_post (F : Frame P N T I E strict) (w : WState) (tag : String) (hi : I w) :
    Post I E (leafFallback P w tag) := by
  unfold leafFallback
  cases htop : w.top with
  | none => exact F.top w hi htop
  | some top =>
    dsimp only
    repeat' split
    all_goals first
      | exact hi
      | exact addTextNode_post F w (some brText) none false hi (fun _ => rfl)

theorem ignoreFallback_post (F : Frame P N T I E strict) (w : WState) (tag : String) (hi : I w) :
    Post I E (ignoreFallback P w tag) := by
  unfold ignoreFallback
  cases htop : w.top with
  | none => exact F.top w hi htop
  | some top =>
    dsimp only
    repeat' split
    all_goals first
      | exact hi
      | exact emit'_post F w _ hi (.findPlace _)

/-! ### style rules: `read_styles` does not touch the state; its failures -/

theorem computeAttrs_err (decls : List AttrDecl) (given : Attrs) (e : Err) (h : computeAttrs decls given = .error e) :
    e = .valueError := by
  induction decls generalizing e with
  | nil => simp [computeAttrs] at h
  | cons d ds ih =>
    simp only [computeAttrs, List.foldr_cons] at h ih
    split at h
    · rename_i e' he'
      simp only [Except.error.injEq] at h; subst h
      exact ih _ he'
    · split at h
      · split at h
        · cases h
        · split at h
          · cases h
          · simp only [Except.error.injEq] at h; exact h.symm
      · split at h
        · cases h
        · simp only [Except.error.injEq] at h; exact h.symm

theorem createMark_err (S : Schema) (mt : MarkTypeId) (a : Option Attrs) (n : Nat) (e : Err)
    (h : createMark S mt a n = .error e) : e = .valueError := by
  unfold createMark at h
  cases hc : computeAttrs (S.markType mt).attrs (a.getD []) with
  | ok x => simp only [hc] at h; split at h <;> cases h
  | error e' =>
    simp only [hc, Except.error.injEq] at h
    subst h
    exact computeAttrs_err _ _ _ hc

def styleRuleOk (r : StyleRule) : Bool :=
  r.ignore || r.clearMark.isSome || (match r.mark with
    | some (some _) => true
    | _ => false)

/-- an error of the walk's own making: a ValueError, or an internal error that the guards exclude -/
def OwnErr (strict : Bool) (e : Err) : Prop := e = .valueError ∨ (e = .internal ∧ strict = false)

theorem Frame.own (F : Frame P N T I E strict) {e : Err} (h : OwnErr strict e) : E e := by
  rcases h with rfl | ⟨rfl, hs⟩
  · exact F.valueError
  · exact F.lax hs

theorem styleApply_err (top : NodeCtx) (r : StyleRule) (attrs : Option Attrs) (acc : StyleAcc) (e : Err)
    (hr : strict = true → styleRuleOk r = true) (h : styleApply P top r attrs acc = .error e) : OwnErr strict e := by
  unfold styleApply at h
  split at h
  · cases h
  · rename_i hig
    split at h
    · cases h
    · rename_i hcm
      split at h
      · split at h
        · rename_i e' he'
          simp only [Except.error.injEq] at h; subst h
          exact Or.inl (createMark_err _ _ _ _ _ he')
        · cases h
      · rename_i hmk
        simp only [Except.error.injEq] at h; subst h
        refine Or.inr ⟨rfl, ?_⟩
        cases hs : strict with
        | false => rfl
        | true =>
          have := hr hs
          simp only [styleRuleOk, hcm, Option.isSome_none, Bool.or_false] at this
          exact absurd this hig

theorem resolve_crash (ga : GA) (st : Option Attrs) (h : ga.resolve st = .crash) : ga.isRaises = true := by
  cases ga <;> simp_all [GA.resolve, GA.isRaises]

theorem styleLoop_err (stack : List TypeId) (top : NodeCtx) (d : StyleDecl)
    (hd : strict = true → d.getAttrs.all (fun x => !x.2.isRaises) = true) :
    ∀ (rules : List (Nat × StyleRule)) (acc : StyleAcc) (e : Err),
      (strict = true → ∀ x ∈ rules, styleRuleOk x.2 = true) →
      styleLoop P stack top d rules acc = .error e → OwnErr strict e
  | [], acc, e, _, h => by simp [styleLoop] at h
  | (i, r) :: rest, acc, e, hr, h => by
    have hrest : strict = true → ∀ x ∈ rest, styleRuleOk x.2 = true := fun hs x hx => hr hs x (List.mem_cons_of_mem _ hx)
    unfold styleLoop at h
    split at h
    · exact styleLoop_err stack top d hd rest acc e hrest h
    · split at h
      · exact styleLoop_err stack top d hd rest acc e hrest h
      · rename_i hcr
        simp only [Except.error.injEq] at h; subst h
        refine Or.inr ⟨rfl, ?_⟩
        cases hs : strict with
        | false => rfl
        | true =>
          have hra := resolve_crash _ _ hcr
          have hall := hd hs
          cases hf : d.getAttrs.find? (fun (x : Nat × GA) => x.1 == i) with
          | none => simp [hf, GA.isRaises] at hra
          | some x =>
            have hx := List.mem_of_find?_eq_some hf
            simp only [List.all_eq_true] at hall
            have := hall x hx
            simp only [hf, Option.map_some, Option.getD_some] at hra
            simp [hra] at this
      · split at h
        · rename_i e' he'
          simp only [Except.error.injEq] at h; subst h
          exact styleApply_err top r _ acc _ (fun hs => hr hs (i, r) List.mem_cons_self) he'
        · cases h
        · split at h
          · cases h
          · exact styleLoop_err stack top d hd rest _ e hrest h

theorem readStyles_err (w : WState) (top : NodeCtx) (hr : strict = true → P.rulesOk = true) :
    ∀ (ds : List StyleDecl) (acc : StyleAcc) (e : Err),
      (strict = true → ds.all (fun d => d.getAttrs.all (fun x => !x.2.isRaises)) = true) →
      readStyles P w top ds acc = .error e → OwnErr strict e
  | [], acc, e, _, h => by simp [readStyles] at h
  | d :: ds, acc, e, hd, h => by
    unfold readStyles at h
    split at h
    · rename_i e' he'
      simp only [Except.error.injEq] at h; subst h
      refine styleLoop_err w.stack top d (fun hs => ?_) _ acc _ (fun hs x hx => ?_) he'
      · have := hd hs
        simp only [List.all_cons, Bool.and_eq_true] at this
        exact this.1
      · have := hr hs
        simp only [Parser.rulesOk, Bool.and_eq_true, List.all_eq_true] at this
        simp only [List.mem_map] at hx
        obtain ⟨⟨r, i⟩, hmem, rfl⟩ := hx
        have hr' : r ∈ P.styles := (List.mem_zipIdx hmem).2.2 ▸ List.getElem_mem _
        exact this.2 r hr'
    · cases h
    · refine readStyles_err w top hr ds _ e (fun hs => ?_) h
      have := hd hs
      simp only [List.all_cons, Bool.and_eq_true] at this
      exact this.2

/-! ### the non-recursive halves -/

/-- postcondition of `stylePre` -/
def PostPre (I : WState → Prop) (E : Err → Prop) : Res (Option (WState × StyleCtx)) → Prop
  | .ok none => True
  | .ok (some (w, _)) => I w
  | .error e => E e

theorem stylePre_post (F : Frame P N T I E strict) (w : WState) (styles : List StyleDecl) (hi : I w)
    (hd : strict = true → styles.all (fun d => d.getAttrs.all (fun x => !x.2.isRaises)) = true) :
    PostPre I E (stylePre P w styles) := by
  unfold stylePre
  cases htop : w.top with
  | none => exact F.top w hi htop
  | some top =>
    dsimp only
    cases hrs : readStyles P w top styles { next := w.nextMark } with
    | error e => exact F.own (readStyles_err w top F.rules styles _ e hd hrs)
    | ok oacc =>
      cases oacc with
      | none => trivial
      | some acc =>
        dsimp only
        have h0 : I { w with nextMark := acc.next } := F.nextMark w _ hi
        have h1 := emitEach_post F (fun w m => Event.removePending m (w.idxOf top.uid)) (fun _ _ => .removePending _ _) acc.remove _ h0
        cases he1 : emitEach P (fun w m => Event.removePending m (w.idxOf top.uid)) acc.remove { w with nextMark := acc.next } with
        | error e => rw [he1] at h1; exact h1
        | ok w1 =>
          rw [he1] at h1
          dsimp only
          have h2 := emitEach_post F (fun _ m => Event.addPending m) (fun _ _ => .addPending _) acc.add w1 h1
          cases he2 : emitEach P (fun _ m => Event.addPending m) acc.add w1 with
          | error e => rw [he2] at h2; exact h2
          | ok w2 => rw [he2] at h2; exact h2

theorem stylePost_post (F : Frame P N T I E strict) (w : WState) (sc : StyleCtx) (hi : I w) : Post I E (stylePost P w sc) := by
  unfold stylePost
  have h1 := emitEach_post F (fun w m => Event.removePending m (w.idxOf sc.top)) (fun _ _ => .removePending _ _) sc.add w hi
  cases he1 : emitEach P (fun w m => Event.removePending m (w.idxOf sc.top)) sc.add w with
  | error e => rw [he1] at h1; exact h1
  | ok w1 =>
    rw [he1] at h1
    exact emitEach_post F (fun _ m => Event.addPending m) (fun _ _ => .addPending _) sc.remove w1 h1

/-- postcondition of `blockOpen` -/
def PostBlock (I : WState → Prop) (E : Err → Prop) : Res BlockRes → Prop
  | .ok (.done w) => I w
  | .ok (.go w _) => I w
  | .error e => E e

theorem bind_post {α : Type} (r : Res WState) (Q : Res α → Prop) (k : WState → Res α) :
    Post I E r → (∀ e, E e → Q (.error e)) → (∀ w, I w → Q (k w)) →
    Q (match r with
      | .error e => .error e
      | .ok w => k w) := by
  intro hr herr hk
  cases r with
  | error e => exact herr e hr
  | ok w => exact hk w hr

theorem stepOut_post (F : Frame P N T I E strict) (w0 : WState) (top : NodeCtx) (hi0 : I w0) :
    match stepOut P w0 top with
    | .ok (w1, _) => I w1
    | .error e => E e := by
  unfold stepOut
  generalize (_ && w0.st.open_ != 0) = c
  cases c
  · exact hi0
  · simp only [if_true]
    have := emit'_post F w0 (.setOpen (w0.st.open_ - 1)) hi0 (.setOpen _ (Nat.sub_le _ _))
    cases he : emit' P w0 (.setOpen (w0.st.open_ - 1)) with
    | error e => rw [he] at this; exact this
    | ok w1 =>
      rw [he] at this
      dsimp only
      cases ht1 : w1.top with
      | none => exact F.top w1 this ht1
      | some top1 => exact this

theorem blockOpen_post (F : Frame P N T I E strict) (w : WState) (tag : String) (noKids cp : Bool) (hi : I w) :
    PostBlock I E (blockOpen P w tag noKids cp) := by
  unfold blockOpen
  have h0 : Post I E (if cp then emit' P w (.setOpen (w.st.open_ - 1)) else .ok w) := by
    split
    · exact emit'_post F w _ hi (.setOpen _ (Nat.sub_le _ _))
    · exact hi
  dsimp only
  refine bind_post (I := I) (E := E) _ (PostBlock I E) _ h0 (fun e he => he) (fun w0 hi0 => ?_)
  cases htop : w0.top with
  | none => exact F.top w0 hi0 htop
  | some top =>
    dsimp only
    split
    · -- a block tag
      have h1 := stepOut_post F w0 top hi0
      cases hso : stepOut P w0 top with
      | error e => rw [hso] at h1; exact h1
      | ok p =>
        obtain ⟨w1, top1⟩ := p
        rw [hso] at h1
        dsimp only at h1 ⊢
        have h2 : Post I E (if top1.ty.isNone then emit' P w1 (.setNeedsBlock true) else .ok w1) := by
          split
          · exact emit'_post F w1 _ h1 (.setNeedsBlock _)
          · exact h1
        exact bind_post (I := I) (E := E) _ (PostBlock I E) _ h2 (fun e he => he) (fun w2 hi2 => hi2)
    · split
      · have := leafFallback_post F w0 tag hi0
        cases hl : leafFallback P w0 tag with
        | error e => rw [hl] at this; exact this
        | ok w1 => rw [hl] at this; exact this
      · exact hi0

theorem blockClose_post (F : Frame P N T I E strict) (w : WState) (bc : BlockCtx) (hi : I w) : Post I E (blockClose P w bc) := by
  unfold blockClose
  have h0 : Post I E (if bc.sync then emit' P w (.sync (w.idxOf bc.top)) else .ok w) := by
    split
    · exact emit'_post F w _ hi (.sync _)
    · exact hi
  dsimp only
  exact bind_post (I := I) (E := E) _ (Post I E) _ h0 (fun e he => he) (fun w1 hi1 => emit'_post F w1 _ hi1 (.setNeedsBlock _))

def tagRuleOk (r : TagRule) : Bool := r.node != some none && r.mark != some none

theorem ruleFirst_post (F : Frame P N T I E strict) (w : WState) (tag : String) (r : TagRule) (attrs : Option Attrs)
    (hi : I w) (hr : strict = true → tagRuleOk r = true) (hT : ∀ t, r.node = some (some t) → T t) :
    match ruleFirst P w tag r attrs with
    | .ok (w1, _) => I w1
    | .error e => E e := by
  have hstrict : (r.node = some none ∨ r.mark = some none) → E .internal := by
    intro hf
    cases hs : strict with
    | false => exact F.lax hs
    | true =>
      have := hr hs
      simp only [tagRuleOk, Bool.and_eq_true, bne_iff_ne, ne_eq] at this
      rcases hf with hf | hf
      · exact absurd hf this.1
      · exact absurd hf this.2
  unfold ruleFirst
  cases hn : r.node with
  | some on =>
    cases on with
    | none => exact hstrict (Or.inl hn)
    | some t =>
      dsimp only
      by_cases hleaf : (P.S.nodeType t).isLeaf = true
      · simp only [hleaf, Bool.not_true, Bool.false_eq_true, if_false]
        by_cases htext : (P.S.nodeType t).isText = true
        · simp only [htext, if_true]; exact F.valueError
        · simp only [htext, if_false]
          cases hc : computeAttrs (P.S.nodeType t).attrs (attrs.getD []) with
          | error e => rw [computeAttrs_err _ _ _ hc]; exact F.valueError
          | ok a =>
            dsimp only
            have := F.emit w (.insertNode (.leaf t a [])) hi (.leaf t a hleaf)
            cases he : emit P w (.insertNode (.leaf t a [])) with
            | error e => rw [he] at this; exact this
            | ok p =>
              obtain ⟨w1, res⟩ := p
              rw [he] at this
              dsimp only at this ⊢
              by_cases hres : res.getD false = true
              · simp only [hres, if_true]; exact this
              · simp only [hres, if_false]
                have hl := leafFallback_post F w1 tag this
                cases hlf : leafFallback P w1 tag with
                | error e => rw [hlf] at hl; exact hl
                | ok w2 => rw [hlf] at hl; exact hl
      · simp only [hleaf, Bool.not_false, if_true]
        have := F.emit w (.enter t attrs r.preserveWs) hi (.enter _ _ _ (hT t hn))
        cases he : emit P w (.enter t attrs r.preserveWs) with
        | error e => rw [he] at this; exact this
        | ok p => obtain ⟨w1, res⟩ := p; rw [he] at this; exact this
  | none =>
    dsimp only
    cases hm : r.mark with
    | none => exact hi
    | some om =>
      cases om with
      | none => exact hstrict (Or.inr hm)
      | some mt =>
        dsimp only
        cases hc : createMark P.S mt attrs w.nextMark with
        | error e => rw [createMark_err _ _ _ _ _ hc]; exact F.valueError
        | ok p =>
          obtain ⟨m, next⟩ := p
          dsimp only
          have := emit'_post F { w with nextMark := next } (.addPending m) (F.nextMark w next hi) (.addPending m)
          cases he : emit' P { w with nextMark := next } (.addPending m) with
          | error e => rw [he] at this; exact this
          | ok w1 => rw [he] at this; exact this

theorem ruleOpen_post (F : Frame P N T I E strict) (w : WState) (tag : String) (r : TagRule) (attrs : Option Attrs)
    (hi : I w) (hr : strict = true → tagRuleOk r = true) (hT : ∀ t, r.node = some (some t) → T t) :
    match ruleOpen P w tag r attrs with
    | .ok (w1, _) => I w1
    | .error e => E e := by
  have h1 := ruleFirst_post F w tag r attrs hi hr hT
  unfold ruleOpen
  cases hf : ruleFirst P w tag r attrs with
  | error e => rw [hf] at h1; exact h1
  | ok p =>
    obtain ⟨w1, sync, mark, leaf⟩ := p
    rw [hf] at h1
    dsimp only at h1 ⊢
    cases ht : w1.top with
    | none => exact F.top w1 h1 ht
    | some top => exact h1

theorem ruleClose_post (F : Frame P N T I E strict) (w : WState) (rc : RuleCtx) (hi : I w) : Post I E (ruleClose P w rc) := by
  unfold ruleClose
  have h0 : Post I E (if rc.sync then
      match emit P w (.sync (w.idxOf rc.startIn)) with
      | .error e => .error e
      | .ok (w1, res) => if res.getD false then emit' P w1 (.setOpen (w1.st.open_ - 1)) else .ok w1
    else .ok w) := by
    split
    · have := F.emit w (.sync (w.idxOf rc.startIn)) hi (.sync _)
      cases he : emit P w (.sync (w.idxOf rc.startIn)) with
      | error e => rw [he] at this; exact this
      | ok p =>
        obtain ⟨w1, res⟩ := p
        rw [he] at this
        dsimp only at this ⊢
        split
        · exact emit'_post F w1 _ this (.setOpen _ (Nat.sub_le _ _))
        · exact this
    · exact hi
  dsimp only
  refine bind_post (I := I) (E := E) _ (Post I E) _ h0 (fun e he => he) (fun w1 hi1 => ?_)
  split
  · exact emit'_post F w1 _ hi1 (.removePending _ _)
  · exact hi1

theorem matchTag_err (stack : List TypeId) : ∀ (cands : List (CandInfo × List DNode)) (start : Nat) (e : Err),
    (strict = true → cands.all (fun c => !c.1.ga.isRaises) = true) →
    matchTag P stack cands start = .error e → OwnErr strict e
  | [], _, _, _, h => by simp [matchTag] at h
  | (c, alt) :: rest, start, e, hc, h => by
    have hrest : strict = true → rest.all (fun c => !c.1.ga.isRaises) = true := by
      intro hs; have := hc hs; simp only [List.all_cons, Bool.and_eq_true] at this; exact this.2
    have ih := matchTag_err stack rest start e hrest
    unfold matchTag at h
    split at h
    · exact ih h
    · split at h
      · exact ih h
      · split at h
        · exact ih h
        · split at h
          · cases h
          · exact ih h
          · rename_i hcr
            simp only [Except.error.injEq] at h; subst h
            refine Or.inr ⟨rfl, ?_⟩
            cases hs : strict with
            | false => rfl
            | true =>
              have := hc hs
              simp only [List.all_cons, Bool.and_eq_true] at this
              have h1 := resolve_crash _ _ hcr
              simp [h1] at this

/-- `addElement` unfolded once, without the equation binders its termination proof needs -/
theorem addElement_eq (P : Parser) (tag : String) (cands : List (CandInfo × List DNode)) (kids : List DNode)
    (start : Nat) (w : WState) :
    addElement P tag cands kids start w =
      match matchTag P w.stack cands start with
      | .error e => .error e
      | .ok om =>
        match decideTag tag om with
        | .ignore => ignoreFallback P w tag
        | .skipCrash => .error .valueError
        | .plain closeParent =>
          match blockOpen P w tag (normKids P tag kids).isEmpty closeParent with
          | .error e => .error e
          | .ok (.done w1) => .ok w1
          | .ok (.go w1 bc) =>
            match addAll P tag (normKids P tag kids) false w1 with
            | .error e => .error e
            | .ok w2 => blockClose P w2 bc
        | .byRule m =>
          match ruleOpen P w tag m.rule m.attrs with
          | .error e => .error e
          | .ok (w1, rc) =>
            match (if rc.leaf then .ok w1
              else if !m.rule.consuming then addElement P tag cands (normKids P tag kids) (m.idx + 1) w1
              else
                match m.info.kind with
                | .nodes => insertAll P m.info.nodes w1
                | .alt => addAll P m.info.altTag m.alt false w1
                | .children => addAll P tag (normKids P tag kids) false w1) with
            | .error e => .error e
            | .ok w2 => ruleClose P w2 rc := by
  rw [addElement]
  split
  · rename_i e h; simp only [h]
  · rename_i om h
    simp only [h]
    split
    · rename_i hd; simp only [hd]
    · rename_i hd; simp only [hd]
    · rename_i cp hd; simp only [hd]; rfl
    · rename_i m hd; simp only [hd]; rfl

/-! ### the guards survive list normalisation and reach the parts of the tree -/

theorem listOk_append (a b : List DNode) : listOk strict N (a ++ b) = (listOk strict N a && listOk strict N b) := by
  induction a with
  | nil => simp [listOk]
  | cons x a ih => simp [listOk, ih, Bool.and_assoc]

theorem ok_appendKid (li c : DNode) (h : li.truthy = true) :
    (li.appendKid c).ok strict N = (li.ok strict N && c.ok strict N) := by
  cases li with
  | elem t s cs kids => simp [DNode.appendKid, DNode.ok, listOk_append, listOk, Bool.and_assoc]
  | text _ => simp [DNode.truthy] at h
  | other => simp [DNode.truthy] at h

theorem listOk_flushCur (cur : Option (DNode × List DNode)) :
    listOk strict N (flushCur cur) = match cur with
      | none => true
      | some (li, tr) => li.ok strict N && listOk strict N tr := by
  cases cur with
  | none => simp [flushCur, listOk]
  | some p => obtain ⟨li, tr⟩ := p; simp [flushCur, listOk]

theorem listOk_normGo : ∀ (rest acc : List DNode) (cur : Option (DNode × List DNode)),
    listOk strict N (normGo rest acc cur) =
      (listOk strict N rest && listOk strict N acc && listOk strict N (flushCur cur))
  | [], acc, cur => by simp [normGo, listOk_append, listOk]
  | c :: rest, acc, cur => by
    unfold normGo
    split
    · split
      · rename_i li tr
        split
        · rename_i ht
          rw [listOk_normGo rest acc _]
          simp only [flushCur, listOk, ok_appendKid li c ht]
          cases c.ok strict N <;> cases li.ok strict N <;> cases listOk strict N rest <;> cases listOk strict N acc <;> simp
        · rw [listOk_normGo rest _ none]
          simp only [flushCur, listOk, listOk_append, List.cons_append, List.append_assoc]
          cases c.ok strict N <;> cases li.ok strict N <;> cases listOk strict N rest <;> cases listOk strict N acc <;> simp
      · rw [listOk_normGo rest _ none]
        simp only [flushCur, listOk, listOk_append]
        cases c.ok strict N <;> cases listOk strict N rest <;> cases listOk strict N acc <;> simp
    · rw [listOk_normGo rest _ _]
      simp only [flushCur, listOk, listOk_append, listOk_flushCur]
      cases cur with
      | none => cases c.ok strict N <;> cases listOk strict N rest <;> cases listOk strict N acc <;> simp
      | some p =>
        obtain ⟨li, tr⟩ := p
        cases c.ok strict N <;> cases li.ok strict N <;> cases listOk strict N rest <;> cases listOk strict N acc <;> simp
    · rw [listOk_normGo rest _ none]
      simp only [flushCur, listOk, listOk_append, listOk_flushCur]
      cases cur with
      | none => cases c.ok strict N <;> cases listOk strict N rest <;> cases listOk strict N acc <;> simp
      | some p =>
        obtain ⟨li, tr⟩ := p
        cases c.ok strict N <;> cases li.ok strict N <;> cases listOk strict N rest <;> cases listOk strict N acc <;> simp
    · split
      · rw [listOk_normGo rest acc _]
        simp only [flushCur, listOk, listOk_append]
        rename_i li tr
        cases c.ok strict N <;> cases li.ok strict N <;> cases listOk strict N rest <;> cases listOk strict N acc <;> simp
      · rw [listOk_normGo rest _ none]
        simp only [flushCur, listOk, listOk_append]
        cases c.ok strict N <;> cases listOk strict N rest <;> cases listOk strict N acc <;> simp

theorem listOk_normKids (tag : String) (kids : List DNode) :
    listOk strict N (normKids P tag kids) = listOk strict N kids := by
  unfold normKids
  split
  · simp [normalizeList, listOk_normGo, flushCur, listOk]
  · rfl

theorem candsOk_mem : ∀ (cands : List (CandInfo × List DNode)) (c : CandInfo × List DNode),
    candsOk strict N cands = true → c ∈ cands → pairOk strict N c = true
  | [], _, _, h => by cases h
  | x :: xs, c, hok, h => by
    simp only [candsOk, Bool.and_eq_true] at hok
    rcases List.mem_cons.1 h with rfl | h
    · exact hok.1
    · exact candsOk_mem xs c hok.2 h

theorem candsOk_noRaise (hs : strict = true) : ∀ (cands : List (CandInfo × List DNode)),
    candsOk strict N cands = true → cands.all (fun c => !c.1.ga.isRaises) = true
  | [], _ => rfl
  | (c, alt) :: xs, hok => by
    simp only [candsOk, pairOk, Bool.and_eq_true] at hok
    simp only [List.all_cons, Bool.and_eq_true]
    refine ⟨?_, candsOk_noRaise hs xs hok.2⟩
    have := hok.1.1.1
    simpa [hs] using this

theorem tagRuleOk_of_rules (hr : P.rulesOk = true) (i : Nat) (r : TagRule) (h : P.tags[i]? = some r) : tagRuleOk r = true := by
  simp only [Parser.rulesOk, Bool.and_eq_true, List.all_eq_true] at hr
  simpa [tagRuleOk] using hr.1.2 r (List.mem_of_getElem? h)

/-! ### the walk keeps the invariant -/

/-- **one induction over the whole walk**: under a `Frame` (every single admissible call into the placement
    core keeps `I` or fails acceptably), `add_all` / `add_dom` / `add_element` keep `I` or fail acceptably, on
    every DOM that satisfies the guards `listOk strict N` -/
theorem walk_post (F : Frame P N T I E strict) :
    (∀ (ptag : String) (kids : List DNode) (prevBr : Bool) (w : WState),
      I w → listOk strict N kids = true → Post I E (addAll P ptag kids prevBr w)) ∧
    (∀ (ptag : String) (prevBr : Bool) (k : DNode) (w : WState),
      I w → k.ok strict N = true → Post I E (addDom P ptag prevBr k w)) ∧
    (∀ (tag : String) (cands : List (CandInfo × List DNode)) (kids : List DNode) (start : Nat) (w : WState),
      I w → candsOk strict N cands = true → listOk strict N kids = true → Post I E (addElement P tag cands kids start w)) := by
  apply addAll.mutual_induct P
    (fun ptag kids prevBr w => I w → listOk strict N kids = true → Post I E (addAll P ptag kids prevBr w))
    (fun ptag prevBr k w => I w → k.ok strict N = true → Post I E (addDom P ptag prevBr k w))
    (fun tag cands kids start w => I w → candsOk strict N cands = true → listOk strict N kids = true →
      Post I E (addElement P tag cands kids start w))
  -- addAll []
  · intro ptag prevBr w hi _
    rw [addAll]; exact hi
  -- addAll (k :: ks), addDom fails
  · intro ptag prevBr w k ks e he ih hi hok
    simp only [listOk, Bool.and_eq_true] at hok
    have := ih hi hok.1
    rw [he] at this
    rw [addAll]; simp only [he]; exact this
  -- addAll (k :: ks), addDom succeeds
  · intro ptag prevBr w k ks w' he ih1 ih2 hi hok
    simp only [listOk, Bool.and_eq_true] at hok
    have := ih1 hi hok.1
    rw [he] at this
    rw [addAll]; simp only [he]
    exact ih2 this hok.2
  -- addDom other / text
  · intro ptag prevBr w hi _
    rw [addDom]; exact hi
  · intro ptag prevBr w t hi hok
    rw [addDom]
    refine addTextNode_post F w t _ _ hi (fun hs => ?_)
    simpa [DNode.ok, hs] using hok
  -- addDom elem: stylePre fails / drops the element
  · intro ptag prevBr w tag styles cands kids e he hi hok
    simp only [DNode.ok, Bool.and_eq_true] at hok
    have := stylePre_post F w styles hi (fun hs => by simpa [hs] using hok.1.1)
    rw [he] at this
    rw [addDom]; simp only [he]; exact this
  · intro ptag prevBr w tag styles cands kids he hi _
    rw [addDom]; simp only [he]; exact hi
  -- addDom elem: addElement fails / succeeds
  · intro ptag prevBr w tag styles cands kids w1 sc he e hae ih hi hok
    simp only [DNode.ok, Bool.and_eq_true] at hok
    have h1 := stylePre_post F w styles hi (fun hs => by simpa [hs] using hok.1.1)
    rw [he] at h1
    have := ih h1 hok.1.2 hok.2
    rw [hae] at this
    rw [addDom]; simp only [he, hae]; exact this
  · intro ptag prevBr w tag styles cands kids w1 sc he w' hae ih hi hok
    simp only [DNode.ok, Bool.and_eq_true] at hok
    have h1 := stylePre_post F w styles hi (fun hs => by simpa [hs] using hok.1.1)
    rw [he] at h1
    have := ih h1 hok.1.2 hok.2
    rw [hae] at this
    rw [addDom]; simp only [he, hae]
    exact stylePost_post F w' sc this
  -- addElement: match_tag fails
  · intro tag cands kids start w e hm hi hc _
    rw [addElement_eq]; simp only [hm]
    exact F.own (matchTag_err w.stack cands start e (fun hs => candsOk_noRaise hs cands hc) hm)
  -- ignore
  · intro tag cands kids start w om hm hd hi _ _
    rw [addElement_eq]; simp only [hm, hd]
    exact ignoreFallback_post F w tag hi
  -- skip: True
  · intro tag cands kids start w om hm hd _ _ _
    rw [addElement_eq]; simp only [hm, hd]
    exact F.valueError
  -- no rule / close_parent: blockOpen fails, leaf fallback, content fails, content succeeds
  · intro tag cands kids start w om hm cp hd e hb hi _ _
    have := blockOpen_post F w tag (normKids P tag kids).isEmpty cp hi
    rw [hb] at this
    rw [addElement_eq]; simp only [hm, hd, hb]; exact this
  · intro tag cands kids start w om hm cp hd w1 hb hi _ _
    have := blockOpen_post F w tag (normKids P tag kids).isEmpty cp hi
    rw [hb] at this
    rw [addElement_eq]; simp only [hm, hd, hb]; exact this
  · intro tag cands kids start w om hm cp hd w1 bc hb e ha ih hi _ hk
    have h1 := blockOpen_post F w tag (normKids P tag kids).isEmpty cp hi
    rw [hb] at h1
    have := ih h1 (by rw [listOk_normKids]; exact hk)
    rw [ha] at this
    rw [addElement_eq]; simp only [hm, hd, hb, ha]; exact this
  · intro tag cands kids start w om hm cp hd w1 bc hb w' ha ih hi _ hk
    have h1 := blockOpen_post F w tag (normKids P tag kids).isEmpty cp hi
    rw [hb] at h1
    have := ih h1 (by rw [listOk_normKids]; exact hk)
    rw [ha] at this
    rw [addElement_eq]; simp only [hm, hd, hb, ha]
    exact blockClose_post F w' bc this
  -- a rule: ruleOpen fails
  · intro tag cands kids start w om hm m hd e hro hi _ _
    have hom := decideTag_byRule _ _ _ hd
    subst hom
    have hmt := matchTag_some P _ _ _ _ hm
    have := ruleOpen_post F w tag m.rule m.attrs hi (fun hs => tagRuleOk_of_rules (F.rules hs) _ _ hmt.2.2.2)
      (F.types _ (List.mem_of_getElem? hmt.2.2.2))
    rw [hro] at this
    rw [addElement_eq]; simp only [hm, hd, hro]; exact this
  -- a rule: the content fails / succeeds
  · intro tag cands kids start w om hm m hd w1 rc hro content e hce ih3 iha ihc hi hc hk
    have hom := decideTag_byRule _ _ _ hd
    subst hom
    have hmt := matchTag_some P _ _ _ _ hm
    have h1 := ruleOpen_post F w tag m.rule m.attrs hi (fun hs => tagRuleOk_of_rules (F.rules hs) _ _ hmt.2.2.2)
      (F.types _ (List.mem_of_getElem? hmt.2.2.2))
    rw [hro] at h1
    have hpair := candsOk_mem cands _ hc hmt.2.2.1
    simp only [pairOk, Bool.and_eq_true] at hpair
    have hk' : listOk strict N (normKids P tag kids) = true := by rw [listOk_normKids]; exact hk
    have hcontent : Post I E content := by
      simp only [content]
      split
      · exact h1
      · split
        · exact ih3 h1 hc hk'
        · split
          · exact insertAll_post F _ w1 h1 hpair.1.2
          · exact iha h1 hpair.2
          · exact ihc h1 hk'
    rw [hce] at hcontent
    rw [addElement_eq]; simp only [hm, hd, hro]
    generalize hgen : (if rc.leaf = true then _ else _) = c
    have hc2 : c = .error e := hgen.symm.trans hce
    rw [hc2]; exact hcontent
  · intro tag cands kids start w om hm m hd w1 rc hro content w' hce ih3 iha ihc hi hc hk
    have hom := decideTag_byRule _ _ _ hd
    subst hom
    have hmt := matchTag_some P _ _ _ _ hm
    have h1 := ruleOpen_post F w tag m.rule m.attrs hi (fun hs => tagRuleOk_of_rules (F.rules hs) _ _ hmt.2.2.2)
      (F.types _ (List.mem_of_getElem? hmt.2.2.2))
    rw [hro] at h1
    have hpair := candsOk_mem cands _ hc hmt.2.2.1
    simp only [pairOk, Bool.and_eq_true] at hpair
    have hk' : listOk strict N (normKids P tag kids) = true := by rw [listOk_normKids]; exact hk
    have hcontent : Post I E content := by
      simp only [content]
      split
      · exact h1
      · split
        · exact ih3 h1 hc hk'
        · split
          · exact insertAll_post F _ w1 h1 hpair.1.2
          · exact iha h1 hpair.2
          · exact ihc h1 hk'
    rw [hce] at hcontent
    rw [addElement_eq]; simp only [hm, hd, hro]
    generalize hgen : (if rc.leaf = true then _ else _) = c
    have hc2 : c = .ok w' := hgen.symm.trans hce
    rw [hc2]
    exact ruleClose_post F w' rc hcontent

/-! ### first instance: the log of the walk replays to its state -/

theorem run_snoc (S : Schema) (wsPre : TypeId → Bool) : ∀ (l : List Event) (st st1 st2 : PState) (e : Event) (r : Option Bool),
    PState.run S wsPre st l = .ok st1 → st1.step S wsPre e = .ok (st2, r) → PState.run S wsPre st (l ++ [e]) = .ok st2
  | [], st, st1, st2, e, r, h1, h2 => by
    simp only [PState.run, Except.ok.injEq] at h1; subst h1
    simp [PState.run, h2]
  | x :: l, st, st1, st2, e, r, h1, h2 => by
    unfold PState.run at h1
    cases hs : st.step S wsPre x with
    | error err => simp [hs] at h1
    | ok res =>
      simp only [hs] at h1
      simp only [List.cons_append, PState.run, hs]
      exact run_snoc S wsPre l res.1 st1 st2 e r h1 h2

/-- the walk state is what the placement core reaches from `st0` on the logged calls, and every logged
    call is one the walk may make -/
def Replays (P : Parser) (N : Node → Bool) (st0 : PState) (w : WState) : Prop :=
  PState.run P.S P.wsPre st0 w.log = .ok w.st ∧ ∀ e ∈ w.log, ∃ o, WalkEvent P.S N (fun _ => True) o e

theorem replays_frame (P : Parser) (N : Node → Bool) (st0 : PState) :
    Frame P N (fun _ => True) (Replays P N st0) (fun _ => True) false where
  emit := by
    intro w e ⟨h1, h2⟩ he
    unfold emit
    cases hs : w.st.step P.S P.wsPre e with
    | error err => trivial
    | ok res =>
      obtain ⟨st', r⟩ := res
      refine ⟨run_snoc P.S P.wsPre w.log st0 w.st st' e r h1 hs, ?_⟩
      intro x hx
      rcases List.mem_append.1 hx with hx | hx
      · exact h2 x hx
      · simp only [List.mem_singleton] at hx; subst hx; exact ⟨_, he⟩
  nextMark := fun _ _ h => h
  valueError := trivial
  top := fun _ _ _ => trivial
  lax := fun _ => trivial
  rules := fun h => by cases h
  types := fun _ _ _ _ => trivial

/-- **the walk is a run of the placement core**: whatever DOM and oracle, if `add_all` returns, its final
    state is the state the placement core reaches on the logged sequence of calls -/
theorem addAll_replays (P : Parser) (N : Node → Bool) (ptag : String) (kids : List DNode) (st0 : PState) (next : Nat)
    (hk : listOk false N kids = true) (w : WState)
    (h : addAll P ptag kids false { st := st0, nextMark := next } = .ok w) : Replays P N st0 w := by
  have := (walk_post (replays_frame P N st0)).1 ptag kids false { st := st0, nextMark := next }
    ⟨by simp [PState.run], by simp⟩ hk
  rw [h] at this
  exact this

/-! ### `match_tag` = the first applicable candidate -/

/-- candidate `c` (a rule whose selector and namespace match the element) is *applicable* from `start` on:
    it is not before `start`, the rule exists, its `context` is empty or matches the open ancestors, and
    its `get_attrs` did not answer `False` -/
def applicableB (P : Parser) (stack : List TypeId) (start : Nat) (c : CandInfo) : Bool :=
  decide (start ≤ c.idx) && (match P.tags[c.idx]? with
    | none => false
    | some r => contextOk P stack r.context && (match c.ga.resolve r.attrs with
      | .skip => false
      | _ => true))

/-- what `match_tag` answers once it has settled on candidate `c` -/
def tagMatchOf (P : Parser) (c : CandInfo) (alt : List DNode) : Res (Option TagMatch) :=
  match P.tags[c.idx]? with
  | none => .ok none
  | some r =>
    match c.ga.resolve r.attrs with
    | .use a => .ok (some ⟨c.idx, r, a, c, alt⟩)
    | .skip => .ok none
    | .crash => .error .internal

theorem matchTag_eq_find (P : Parser) (stack : List TypeId) (start : Nat) : ∀ (cands : List (CandInfo × List DNode)),
    matchTag P stack cands start =
      match cands.find? (fun c => applicableB P stack start c.1) with
      | none => .ok none
      | some (c, alt) => tagMatchOf P c alt
  | [] => by simp [matchTag]
  | (c, alt) :: rest => by
    have ih := matchTag_eq_find P stack start rest
    unfold matchTag
    by_cases hlt : c.idx < start
    · have hna : applicableB P stack start c = false := by
        simp only [applicableB, Bool.and_eq_false_imp, decide_eq_true_eq]
        intro h; omega
      simp only [hlt, if_true, List.find?_cons, hna]
      exact ih
    · simp only [hlt, if_false]
      have hle : start ≤ c.idx := Nat.le_of_not_lt hlt
      cases hr : P.tags[c.idx]? with
      | none =>
        have hna : applicableB P stack start c = false := by simp [applicableB, hr]
        simp only [List.find?_cons, hna]
        exact ih
      | some r =>
        dsimp only
        by_cases hctx : contextOk P stack r.context = true
        · simp only [hctx, Bool.not_true, Bool.false_eq_true, if_false]
          cases hres : c.ga.resolve r.attrs with
          | skip =>
            have hna : applicableB P stack start c = false := by simp [applicableB, hr, hres]
            simp only [List.find?_cons, hna]
            exact ih
          | use a =>
            have ha : applicableB P stack start c = true := by simp [applicableB, hr, hres, hctx, hle]
            simp only [List.find?_cons, ha, tagMatchOf, hr, hres]
          | crash =>
            have ha : applicableB P stack start c = true := by simp [applicableB, hr, hres, hctx, hle]
            simp only [List.find?_cons, ha, tagMatchOf, hr, hres]
        · have hna : applicableB P stack start c = false := by simp [applicableB, hr, hctx]
          simp only [hctx, Bool.not_false, if_true, List.find?_cons, hna]
          exact ih

/-- without guards (`strict = false`, nothing asked of `get_content` nodes) every DOM is admissible -/
theorem listOk_lax (l : List DNode) : listOk false (fun _ => true) l = true :=
  DNode.rec_2 (motive_1 := fun k => k.ok false (fun _ => true) = true)
    (motive_2 := fun cs => candsOk false (fun _ => true) cs = true)
    (motive_3 := fun l => listOk false (fun _ => true) l = true)
    (motive_4 := fun c => pairOk false (fun _ => true) c = true)
    (fun tag styles cands kids h1 h2 => by simp [DNode.ok, h1, h2])
    (fun t => by simp [DNode.ok]) (by simp [DNode.ok])
    (by simp [candsOk]) (fun c cs h1 h2 => by simp [candsOk, h1, h2])
    (by simp [listOk]) (fun k ks h1 h2 => by simp [listOk, h1, h2])
    (fun c alt h => by simp [pairOk, h]) l

/-! ### `schema_rules`: priority order -/

theorem mem_insertRule (r x : RuleSpec) : ∀ l, x ∈ insertRule r l ↔ x = r ∨ x ∈ l
  | [] => by simp [insertRule]
  | y :: ys => by
    unfold insertRule
    split
    · simp
    · simp only [List.mem_cons, mem_insertRule r x ys]
      constructor
      · rintro (h | h | h)
        · exact Or.inr (Or.inl h)
        · exact Or.inl h
        · exact Or.inr (Or.inr h)
      · rintro (h | h | h)
        · exact Or.inr (Or.inl h)
        · exact Or.inl h
        · exact Or.inr (Or.inr h)

theorem insertRule_sorted (r : RuleSpec) : ∀ l : List RuleSpec, l.Pairwise (fun a b => b.prio ≤ a.prio) →
    (insertRule r l).Pairwise (fun a b => b.prio ≤ a.prio)
  | [], _ => by simp [insertRule]
  | y :: ys, h => by
    unfold insertRule
    rw [List.pairwise_cons] at h
    split
    · rename_i hlt
      refine List.pairwise_cons.2 ⟨?_, List.pairwise_cons.2 h⟩
      intro b hb
      rcases List.mem_cons.1 hb with rfl | hb
      · exact Int.le_of_lt hlt
      · exact Int.le_trans (h.1 b hb) (Int.le_of_lt hlt)
    · rename_i hge
      refine List.pairwise_cons.2 ⟨?_, insertRule_sorted r ys h.2⟩
      intro b hb
      rcases (mem_insertRule r b ys).1 hb with rfl | hb
      · exact Int.not_lt.1 hge
      · exact h.1 b hb

theorem insertRule_perm (r : RuleSpec) : ∀ l : List RuleSpec, (insertRule r l).Perm (r :: l)
  | [] => by simp [insertRule]
  | y :: ys => by
    unfold insertRule
    split
    · exact List.Perm.refl _
    · exact ((insertRule_perm r ys).cons y).trans (List.Perm.swap r y ys)

/-- rules of equal priority keep the order in which they were inserted -/
theorem insertRule_filter (r : RuleSpec) (p : Int) : ∀ l : List RuleSpec, l.Pairwise (fun a b => b.prio ≤ a.prio) →
    (insertRule r l).filter (fun x => x.prio == p) = l.filter (fun x => x.prio == p) ++ [r].filter (fun x => x.prio == p)
  | [], _ => by simp [insertRule]
  | y :: ys, h => by
    unfold insertRule
    rw [List.pairwise_cons] at h
    split
    · rename_i hlt
      by_cases hr : r.prio = p
      · have hnone : (y :: ys).filter (fun x => x.prio == p) = [] := by
          rw [List.filter_eq_nil_iff]
          intro a ha
          have : a.prio ≤ y.prio := by
            rcases List.mem_cons.1 ha with rfl | ha
            · exact Int.le_refl _
            · exact h.1 a ha
          simp only [beq_iff_eq]
          omega
        rw [List.filter_cons, hnone]
        simp [hr]
      · simp [List.filter_cons, hr]
    · rw [List.filter_cons, List.filter_cons, insertRule_filter r p ys h.2]
      split <;> simp

theorem schemaRules_snoc (specs : List RuleSpec) (r : RuleSpec) : schemaRules (specs ++ [r]) = insertRule r (schemaRules specs) := by
  simp [schemaRules, List.foldl_append]

theorem schemaRules_spec : ∀ (specs : List RuleSpec),
    (schemaRules specs).Pairwise (fun a b => b.prio ≤ a.prio) ∧ (schemaRules specs).Perm specs ∧
    ∀ p, (schemaRules specs).filter (fun x => x.prio == p) = specs.filter (fun x => x.prio == p) := by
  intro specs
  refine snoc_induction (P := fun specs => (schemaRules specs).Pairwise (fun a b => b.prio ≤ a.prio) ∧
    (schemaRules specs).Perm specs ∧
    ∀ p, (schemaRules specs).filter (fun x => x.prio == p) = specs.filter (fun x => x.prio == p)) ?_ ?_ specs
  · simp [schemaRules]
  · intro l r ih
    rw [schemaRules_snoc]
    refine ⟨insertRule_sorted r _ ih.1, ?_, fun p => ?_⟩
    · exact (insertRule_perm r _).trans (((ih.2.1.cons r)).trans (List.perm_append_singleton r l).symm)
    · rw [insertRule_filter r p _ ih.1, ih.2.2 p, List.filter_append]

end PM.DomWalk
