/-
  Proofs/DelGuards.lean — what the decidable schema guards of PM/DeleteGuards.lean give (C11 `delete_applies`).
-/
import PM.DeleteGuards
import Proofs.FillOrder
import Proofs.FitPayload
namespace PM

/-! ### `joinCompatB` -/

theorem edgesOf_lt {d : Dfa} {q : Nat} {e : TypeId × Nat} (h : e ∈ d.edgesOf q) : q < d.size := by
  rcases Nat.lt_or_ge q d.size with hlt | hge
  · exact hlt
  · exfalso
    have : d.edgesOf q = [] := by
      simp only [Dfa.edgesOf]
      rw [Array.getElem?_eq_none (by omega)]
    rw [this] at h; simp at h

theorem dfa_size_zero_of_ge (S : Schema) (t : TypeId) (h : S.nodes.size ≤ t) : (S.dfa t).size = 0 := by
  simp only [Schema.dfa, Schema.nodeType]
  rw [getElem!_neg S.nodes t (by omega)]
  rfl

theorem ty_lt_of_edge (S : Schema) {t : TypeId} {q : Nat} {e : TypeId × Nat} (h : e ∈ (S.dfa t).edgesOf q) :
    t < S.nodes.size := by
  rcases Nat.lt_or_ge t S.nodes.size with hlt | hge
  · exact hlt
  · have := edgesOf_lt h
    rw [dfa_size_zero_of_ge S t hge] at this
    omega

theorem mem_labelsOf (S : Schema) {t : TypeId} {q : Nat} {e : TypeId × Nat} (h : e ∈ (S.dfa t).edgesOf q) :
    e.1 ∈ S.labelsOf t := by
  unfold Schema.labelsOf
  rw [List.mem_flatMap]
  exact ⟨q, List.mem_range.2 (edgesOf_lt h), List.mem_map.2 ⟨e, h, rfl⟩⟩

/-- two node types whose automata share an edge label are `compatible_content` -/
theorem joinCompat_of_B (S : Schema) (hg : joinCompatB S = true) {a b : TypeId} {q q' : Nat} {e e' : TypeId × Nat}
    (h : e ∈ (S.dfa a).edgesOf q) (h' : e' ∈ (S.dfa b).edgesOf q') (hx : e.1 = e'.1) :
    S.compatibleContent a b = true := by
  have ha := ty_lt_of_edge S h
  have hb := ty_lt_of_edge S h'
  simp only [joinCompatB, List.all_eq_true, List.mem_range, Bool.or_eq_true, Bool.not_eq_eq_eq_not, Bool.not_true] at hg
  rcases hg a ha b hb with h1 | h1
  · exfalso
    have : ((S.labelsOf a).any fun x => (S.labelsOf b).contains x) = true := by
      rw [List.any_eq_true]
      exact ⟨e.1, mem_labelsOf S h, by rw [List.contains_iff_mem, hx]; exact mem_labelsOf S h'⟩
    rw [this] at h1; simp at h1
  · exact h1

/-! ### `reopenOKB` -/

theorem dedupSt_subset : ∀ (l : List (Nat × List TypeId)) (p : Nat × List TypeId), p ∈ dedupSt l → p ∈ l
  | [], p, h => by simp [dedupSt] at h
  | x :: xs, p, h => by
    simp only [dedupSt, List.mem_cons, List.mem_filter] at h
    rcases h with rfl | ⟨h, _⟩
    · simp
    · exact List.mem_cons_of_mem _ (dedupSt_subset xs p h)

/-- the paths of the search lead where they say, over generatable types -/
theorem genPaths_sound (S : Schema) (d : Dfa) : ∀ (n : Nat) (p : Nat × List TypeId), p ∈ genPaths S d n →
    p.2.all S.generatable = true ∧ d.run 0 p.2 = some p.1
  | 0, p, h => by
    simp only [genPaths, List.mem_singleton] at h
    subst h
    exact ⟨rfl, rfl⟩
  | n + 1, p, h => by
    simp only [genPaths, genStep] at h
    have h := dedupSt_subset _ _ h
    rw [List.mem_append] at h
    rcases h with h | h
    · exact genPaths_sound S d n p h
    · rw [List.mem_flatMap] at h
      obtain ⟨p0, hp0, h⟩ := h
      rw [List.mem_filterMap] at h
      obtain ⟨e, he, h⟩ := h
      obtain ⟨ih1, ih2⟩ := genPaths_sound S d n p0 hp0
      split at h
      · rename_i hg
        cases hm : d.matchType p0.1 e.1 with
        | none => rw [hm] at h; simp at h
        | some q' =>
          rw [hm] at h
          simp only [Option.map_some, Option.some.injEq] at h
          subst h
          refine ⟨by simp [List.all_append, ih1, hg], ?_⟩
          rw [Dfa.run_append, ih2]
          simp [Dfa.run, hm]
      · simp at h

/-- what a covering state accepts -/
theorem covers_run (d : Dfa) (r : Nat) : ∀ (w : List TypeId) (q qf : Nat), d.coversB r q = true →
    d.run q w = some qf → d.validEnd qf = true → ∃ qf', d.run r w = some qf' ∧ d.validEnd qf' = true
  | [], q, qf, hc, hr, hv => by
    simp only [Dfa.run, Option.some.injEq] at hr
    subst hr
    simp only [Dfa.coversB, Bool.and_eq_true, Bool.or_eq_true, Bool.not_eq_eq_eq_not, Bool.not_true] at hc
    refine ⟨r, rfl, ?_⟩
    rcases hc.2 with h | h
    · rw [hv] at h; simp at h
    · exact h
  | y :: w, q, qf, hc, hr, hv => by
    simp only [Dfa.run] at hr ⊢
    cases hm : d.matchType q y with
    | none => rw [hm] at hr; simp at hr
    | some q1 =>
      rw [hm] at hr
      simp only [Dfa.coversB, Bool.and_eq_true, List.all_eq_true, beq_iff_eq] at hc
      have := hc.1 (y, q1) (Dfa.mem_of_matchType hm)
      simp only at this
      rw [this]
      exact ⟨qf, hr, hv⟩

/-- **`fill_before(after, True, index)` from the start state answers** whenever `after` is accepted from some state
    of the automaton -/
theorem reopen_fill_isSome (S : Schema) (hg : reopenOKB S = true) (t : TypeId) (q qf : Nat) (w : List TypeId)
    (hr : (S.dfa t).run q w = some qf) (hv : (S.dfa t).validEnd qf = true) :
    (fillBeforeTypes S (S.dfa t) 0 w true).isSome = true := by
  -- the automaton has states
  have hqf : qf < (S.dfa t).size := by
    rcases Nat.lt_or_ge qf (S.dfa t).size with h | h
    · exact h
    · exfalso
      simp only [Dfa.validEnd] at hv
      rw [Array.getElem?_eq_none (by omega)] at hv
      simp at hv
  have ht : t < S.nodes.size := by
    rcases Nat.lt_or_ge t S.nodes.size with h | h
    · exact h
    · rw [dfa_size_zero_of_ge S t h] at hqf; omega
  have hq : q < (S.dfa t).size := by
    cases w with
    | nil =>
      simp only [Dfa.run, Option.some.injEq] at hr
      rw [hr]; exact hqf
    | cons y w =>
      simp only [Dfa.run] at hr
      cases hm : (S.dfa t).matchType q y with
      | none => rw [hm] at hr; simp at hr
      | some q1 => exact edgesOf_lt (Dfa.mem_of_matchType hm)
  simp only [reopenOKB, List.all_eq_true, List.mem_range, Bool.and_eq_true, decide_eq_true_eq] at hg
  obtain ⟨hd, hcov⟩ := hg t ht
  have := hcov q hq
  rw [List.any_eq_true] at this
  obtain ⟨p, hp, hc⟩ := this
  obtain ⟨hgen, hrun⟩ := genPaths_sound S _ _ p hp
  obtain ⟨qf', hr', hv'⟩ := covers_run _ p.1 w q qf hc hr hv
  cases hfb : fillBeforeTypes S (S.dfa t) 0 w true with
  | some _ => rfl
  | none =>
    exfalso
    have := fillBeforeTypes_complete S (S.dfa t) (fun q0 ty q' he => hd q0 (edgesOf_lt he) (ty, q') he) 0 w true hfb p.2
    rw [isFill_eq, hgen, hrun] at this
    simp [fillFinished, hr', hv'] at this

end PM
